(* C12: default partitioner - explicit kept, keyed = XXH32(key, seed 0) mod N, keyless rotates.
   Statements only; proofs in Proofs/C12Facts.v.  XXH32 is Base/Xxh32.v (xxHash specification,
   published test vectors checked there). *)
From Coq Require Import Sorting.Permutation Sorting.Sorted.
From KV Require Import Base.Prelude Base.Xxh32 Model.Codecs Model.Responses Model.ClientState Model.Producer
                       Proofs.C12Facts.

From KV Require Import Proofs.C12Extra.
From KV Require Import Proofs.C12ExtraB.
From KV Require Import Proofs.C12ExtraC.
From KV Require Import Proofs.C12ExtraE.
Theorem C12_explicit : forall parts cntr topic p key, 0 <= p -> partition parts cntr topic p key = (p, cntr).
Proof. exact C12Facts.C12_explicit. Qed.

Theorem C12_keyed : forall parts cntr topic p k ps,
  p < 0 -> assoc_bytes topic parts = Some ps -> 0 < num_all ps <= 2147483648 ->
  partition parts cntr topic p (Some k) = (xxh32 0 k mod num_all ps, cntr)
  /\ 0 <= xxh32 0 k mod num_all ps < num_all ps.
Proof. exact C12Facts.C12_keyed. Qed.

(* a pure function of key and partition count: no dependence on counter, availability, history, instance *)
Theorem C12_keyed_pure : forall parts parts' cntr cntr' topic p k ps ps',
  p < 0 -> assoc_bytes topic parts = Some ps -> assoc_bytes topic parts' = Some ps' -> num_all ps = num_all ps' ->
  fst (partition parts cntr topic p (Some k)) = fst (partition parts' cntr' topic p (Some k)).
Proof. exact C12Facts.C12_keyed_pure. Qed.

Theorem C12_keyed_same_across_producers : forall s s' cntr cntr' topic p k l l',
  p < 0 -> partitions_for s topic = Some l -> partitions_for s' topic = Some l' -> length l = length l' ->
  fst (partition (producer_state s) cntr topic p (Some k)) = fst (partition (producer_state s') cntr' topic p (Some k)).
Proof. exact C12Facts.C12_keyed_same_across_producers. Qed.

Theorem C12_keyless : forall parts cntr topic p ps a av,
  p < 0 -> assoc_bytes topic parts = Some ps -> available_ids ps = a :: av -> 0 <= cntr ->
  partition parts cntr topic p None
  = (nth (Z.to_nat (cntr mod ulen (a :: av))) (a :: av) a, (cntr + 1) mod 4294967296)
  /\ In (fst (partition parts cntr topic p None)) (a :: av).
Proof. exact C12Facts.C12_keyless. Qed.

Theorem C12_keyless_has_leader : forall s cntr topic p ps,
  p < 0 -> assoc_bytes topic (producer_state s) = Some ps -> available_ids ps <> [] -> 0 <= cntr ->
  exists host, find_broker s topic (fst (partition (producer_state s) cntr topic p None)) = Some host.
Proof. exact C12Facts.C12_keyless_has_leader. Qed.

(* a window of |available| consecutive keyless records of one topic that does not cross the
   2^32 wrap of the counter visits every available partition exactly once *)
Theorem C12_rotation : forall parts cntr topic ps av,
  assoc_bytes topic parts = Some ps -> available_ids ps = av -> av <> [] ->
  0 <= cntr -> cntr + ulen av <= 4294967296 ->
  Permutation (fst (keyless_run parts cntr topic (length av))) av.
Proof. exact C12Facts.C12_rotation. Qed.

Theorem C12_unknown : forall parts cntr topic p key,
  p < 0 -> assoc_bytes topic parts = None -> partition parts cntr topic p key = (p, cntr).
Proof. exact C12Facts.C12_unknown. Qed.

Theorem C12_unassigned_rejected : forall s parts cntr recs reqs r rest,
  recs = r :: rest -> fst (partition parts cntr (r_topic r) (r_partition r) (to_option (r_key r))) < 0 ->
  fst (send_all_reqs s parts cntr recs reqs) = None.
Proof. exact C12Facts.C12_unassigned_rejected. Qed.

(* what the property's wording asks beyond that does not hold: the counter is one per
   partitioner, shared by all topics (known finding), and wraps at 2^32 *)
Theorem C12_rotation_shared_counter_refuted : exists parts t1 t2 ps1 ps2, t1 <> t2 /\
   assoc_bytes t1 parts = Some ps1 /\ available_ids ps1 = [0; 1] /\
   assoc_bytes t2 parts = Some ps2 /\ available_ids ps2 = [0; 1] /\
   fst (keyless_seq parts 0 [t1; t2; t1; t2; t1; t2]) = [0; 1; 0; 1; 0; 1].
Proof. exact C12Facts.C12_rotation_shared_counter_refuted. Qed.

Theorem C12_wrap_refuted : exists parts cntr topic ps av, assoc_bytes topic parts = Some ps /\ available_ids ps = av /\
   av <> [] /\ length av = 3%nat /\ 0 <= cntr < 4294967296 /\
   fst (keyless_run parts cntr topic (length av)) = [0; 0; 1] /\
   ~ Permutation (fst (keyless_run parts cntr topic (length av))) av.
Proof. exact C12Facts.C12_wrap_refuted. Qed.

Print Assumptions C12_explicit.
Print Assumptions C12_keyed.
Print Assumptions C12_keyed_pure.
Print Assumptions C12_keyed_same_across_producers.
Print Assumptions C12_keyless.
Print Assumptions C12_keyless_has_leader.
Print Assumptions C12_rotation.
Print Assumptions C12_unknown.
Print Assumptions C12_unassigned_rejected.
Print Assumptions C12_rotation_shared_counter_refuted.
Print Assumptions C12_wrap_refuted.

Theorem C12_assign_counter :
  forall (parts : list (bytes * pparts)) (cntr : Z) (recs : list record), 0 <= cntr < 4294967296 -> snd (assign parts cntr recs) = (cntr + rot_count parts recs) mod 4294967296.
Proof. exact (@C12Extra.C12_assign_counter). Qed.

Theorem C12_assign_nth :
  forall (parts : list (bytes * pparts)) (cntr : Z) (recs : list record) (i : nat) (r : record), 0 <= cntr < 4294967296 -> nth_error recs i = Some r -> nth_error (fst (assign parts cntr recs)) i = Some (fst (choice parts ((cntr + rot_count parts (firstn i recs)) mod 4294967296) r)).
Proof. exact (@C12Extra.C12_assign_nth). Qed.

Theorem C12_create_state :
  forall (src : list bytes + Net.client) (calls : list pbuilder_call) (s : Net.st) (p : producer) (s' : Net.st), producer_create src calls s = (Ok p, s') -> p_parts p = producer_state (Net.cs (Net.cl s')) /\ p_cntr p = 0 /\ p_client p = Net.cl s'.
Proof. exact (@C12Extra.C12_create_state). Qed.

Theorem C12_explicit_out_of_range_rejected_anywhere :
  forall (s : cstate) (parts : list (bytes * pparts)) (cntr : Z) (recs : list record) (reqs : list (bytes * Requests.produce_tps)) (r : record) (l : list Z), In r recs -> partitions_for s (r_topic r) = Some l -> ulen l <= r_partition r -> fst (send_all_reqs s parts cntr recs reqs) = None.
Proof. exact (@C12Extra.C12_explicit_out_of_range_rejected_anywhere). Qed.

Theorem C12_explicit_unroutable_rejected_anywhere :
  forall (s : cstate) (parts : list (bytes * pparts)) (cntr : Z) (recs : list record) (reqs : list (bytes * Requests.produce_tps)) (r : record), In r recs -> 0 <= r_partition r -> find_broker s (r_topic r) (r_partition r) = None -> fst (send_all_reqs s parts cntr recs reqs) = None.
Proof. exact (@C12Extra.C12_explicit_unroutable_rejected_anywhere). Qed.

Theorem C12_history_explicit :
  forall (parts : list (bytes * pparts)) (cntr : Z) (recs : list record) (i : nat) (r : record), nth_error recs i = Some r -> 0 <= r_partition r -> nth_error (fst (assign parts cntr recs)) i = Some (r_partition r).
Proof. exact (@C12Extra.C12_history_explicit). Qed.

Theorem C12_history_keyed :
  forall (parts : list (bytes * pparts)) (cntr : Z) (recs : list record) (i : nat) (r : record) (ps : pparts), nth_error recs i = Some r -> r_partition r < 0 -> r_key r <> [] -> assoc_bytes (r_topic r) parts = Some ps -> 0 < num_all ps <= 2147483648 -> nth_error (fst (assign parts cntr recs)) i = Some (xxh32 0 (r_key r) mod num_all ps).
Proof. exact (@C12Extra.C12_history_keyed). Qed.

Theorem C12_history_keyed_total_count :
  forall (s : cstate) (cntr : Z) (recs : list record) (i : nat) (r : record) (l : list Z), nth_error recs i = Some r -> r_partition r < 0 -> r_key r <> [] -> partitions_for s (r_topic r) = Some l -> 0 < ulen l <= 2147483648 -> nth_error (fst (assign (producer_state s) cntr recs)) i = Some (xxh32 0 (r_key r) mod ulen l).
Proof. exact (@C12Extra.C12_history_keyed_total_count). Qed.

Theorem C12_history_keyless :
  forall (parts : list (bytes * pparts)) (cntr : Z) (recs : list record) (i : nat) (r : record) (ps : pparts) (a : Z) (av : list Z), 0 <= cntr < 4294967296 -> nth_error recs i = Some r -> r_partition r < 0 -> r_key r = [] -> assoc_bytes (r_topic r) parts = Some ps -> available_ids ps = a :: av -> nth_error (fst (assign parts cntr recs)) i = Some (nth (Z.to_nat (((cntr + rot_count parts (firstn i recs)) mod 4294967296) mod ulen (a :: av))) (a :: av) a) /\ In (nth (Z.to_nat (((cntr + rot_count parts (firstn i recs)) mod 4294967296) mod ulen (a :: av))) (a :: av) a) (a :: av).
Proof. exact (@C12Extra.C12_history_keyless). Qed.

Theorem C12_history_unknown :
  forall (parts : list (bytes * pparts)) (cntr : Z) (recs : list record) (i : nat) (r : record), nth_error recs i = Some r -> r_partition r < 0 -> assoc_bytes (r_topic r) parts = None -> nth_error (fst (assign parts cntr recs)) i = Some (r_partition r).
Proof. exact (@C12Extra.C12_history_unknown). Qed.

Theorem C12_keyed_total_count :
  forall (s : cstate) (cntr : Z) (topic : bytes) (p : Z) (k : bytes) (l : list Z), p < 0 -> partitions_for s topic = Some l -> 0 < ulen l <= 2147483648 -> partition (producer_state s) cntr topic p (Some k) = (xxh32 0 k mod ulen l, cntr) /\ 0 <= xxh32 0 k mod ulen l < ulen l.
Proof. exact (@C12Extra.C12_keyed_total_count). Qed.

Theorem C12_keyless_has_leader_stale_snapshot_refuted :
  exists (s s' : cstate) (cntr : Z) (r : record) (ps : pparts), r_partition r < 0 /\ r_key r = [] /\ assoc_bytes (r_topic r) (producer_state s) = Some ps /\ available_ids ps <> [] /\ 0 <= cntr /\ find_broker s' (r_topic r) 0 <> None /\ find_broker s' (r_topic r) (fst (choice (producer_state s) cntr r)) = None /\ fst (send_all_reqs s' (producer_state s) cntr [r] []) = None.
Proof. exact (@C12Extra.C12_keyless_has_leader_stale_snapshot_refuted). Qed.

Theorem C12_rotation_interleaved :
  forall (parts : list (bytes * pparts)) (cntr : Z) (recs : list record) (t : bytes) (ps : pparts) (av : list Z) (i : nat), assoc_bytes t parts = Some ps -> available_ids ps = av -> av <> [] -> (forall r : record, In r recs -> rotates parts r = true -> r_topic r = t) -> 0 <= cntr -> cntr + rot_count parts recs <= 4294967296 -> Z.of_nat (i + length av) <= rot_count parts recs -> Permutation (firstn (length av) (skipn i (rot_parts parts recs (fst (assign parts cntr recs))))) av.
Proof. exact (@C12Extra.C12_rotation_interleaved). Qed.

Theorem C12_rotation_interleaved_slots :
  forall (parts : list (bytes * pparts)) (cntr : Z) (recs : list record) (t : bytes) (ps : pparts) (a : Z) (av : list Z), assoc_bytes t parts = Some ps -> available_ids ps = a :: av -> (forall r : record, In r recs -> rotates parts r = true -> r_topic r = t) -> 0 <= cntr -> cntr + rot_count parts recs <= 4294967296 -> rot_parts parts recs (fst (assign parts cntr recs)) = map (fun j : nat => nth (idx_at cntr (ulen (a :: av)) j) (a :: av) a) (seq 0 (Z.to_nat (rot_count parts recs))).
Proof. exact (@C12Extra.C12_rotation_interleaved_slots). Qed.

Theorem C12_send_all_counter :
  forall (p : producer) (recs : list record) (s : Net.st) (cf : list Client.confirm) (p' : producer) (s' : Net.st), producer_send_all p recs s = (Ok (cf, p'), s') -> p_parts p' = p_parts p /\ p_cntr p' = snd (assign (p_parts p) (p_cntr p) recs) /\ fst (send_all_reqs (Net.cs (Net.cl s)) (p_parts p) (p_cntr p) recs []) <> None.
Proof. exact (@C12Extra.C12_send_all_counter). Qed.

Theorem C12_send_all_is_assign_then_route :
  forall (s : cstate) (parts : list (bytes * pparts)) (cntr : Z) (recs : list record) (reqs : list (bytes * Requests.produce_tps)), fst (send_all_reqs s parts cntr recs reqs) = Client.produce_reqs s (assigned_msgs recs (fst (assign parts cntr recs))) reqs /\ (fst (send_all_reqs s parts cntr recs reqs) <> None -> snd (send_all_reqs s parts cntr recs reqs) = snd (assign parts cntr recs)).
Proof. exact (@C12Extra.C12_send_all_is_assign_then_route). Qed.

Theorem C12_send_all_rejects :
  forall (p : producer) (recs : list record) (s : Net.st), fst (send_all_reqs (Net.cs (Net.cl s)) (p_parts p) (p_cntr p) recs []) = None -> exists s' : Net.st, producer_send_all p recs s = (Err (EKafka KC_UnknownTopicOrPartition), s') /\ Net.trace s' = Net.trace s /\ Net.script s' = Net.script s.
Proof. exact (@C12Extra.C12_send_all_rejects). Qed.

Theorem C12_send_counter :
  forall (p : producer) (r : record) (s : Net.st) (p' : producer) (s' : Net.st), producer_send p r s = (Ok p', s') -> p_parts p' = p_parts p /\ p_cntr p' = snd (choice (p_parts p) (p_cntr p) r).
Proof. exact (@C12Extra.C12_send_counter). Qed.

Theorem C12_unassigned_rejected_anywhere :
  forall (s : cstate) (parts : list (bytes * pparts)) (cntr : Z) (recs : list record) (reqs : list (bytes * Requests.produce_tps)) (r : record), In r recs -> r_partition r < 0 -> assoc_bytes (r_topic r) parts = None -> fst (send_all_reqs s parts cntr recs reqs) = None.
Proof. exact (@C12Extra.C12_unassigned_rejected_anywhere). Qed.

Theorem C12_unknown_topic_rejected_anywhere :
  forall (s : cstate) (parts : list (bytes * pparts)) (cntr : Z) (recs : list record) (reqs : list (bytes * Requests.produce_tps)) (r : record), In r recs -> partitions_for s (r_topic r) = None -> fst (send_all_reqs s parts cntr recs reqs) = None.
Proof. exact (@C12Extra.C12_unknown_topic_rejected_anywhere). Qed.

Print Assumptions C12_assign_counter.
Print Assumptions C12_assign_nth.
Print Assumptions C12_create_state.
Print Assumptions C12_explicit_out_of_range_rejected_anywhere.
Print Assumptions C12_explicit_unroutable_rejected_anywhere.
Print Assumptions C12_history_explicit.
Print Assumptions C12_history_keyed.
Print Assumptions C12_history_keyed_total_count.
Print Assumptions C12_history_keyless.
Print Assumptions C12_history_unknown.
Print Assumptions C12_keyed_total_count.
Print Assumptions C12_keyless_has_leader_stale_snapshot_refuted.
Print Assumptions C12_rotation_interleaved.
Print Assumptions C12_rotation_interleaved_slots.
Print Assumptions C12_send_all_counter.
Print Assumptions C12_send_all_is_assign_then_route.
Print Assumptions C12_send_all_rejects.
Print Assumptions C12_send_counter.
Print Assumptions C12_unassigned_rejected_anywhere.
Print Assumptions C12_unknown_topic_rejected_anywhere.

Theorem C12_assign_app :
  forall (parts : list (bytes * pparts)) (cntr : Z) (a b : list record), fst (assign parts cntr (a ++ b)) = fst (assign parts cntr a) ++ fst (assign parts (snd (assign parts cntr a)) b) /\ snd (assign parts cntr (a ++ b)) = snd (assign parts (snd (assign parts cntr a)) b).
Proof. exact (@C12ExtraB.C12_assign_app). Qed.

Theorem C12_assigned_msgs_nth :
  forall (recs : list record) (qs : list Z) (i : nat) (r : record) (q : Z), nth_error recs i = Some r -> nth_error qs i = Some q -> nth_error (assigned_msgs recs qs) i = Some {| Client.pq_topic := r_topic r; Client.pq_partition := q; Client.pq_key := to_option (r_key r); Client.pq_value := to_option (r_value r) |}.
Proof. exact (@C12ExtraB.C12_assigned_msgs_nth). Qed.

Theorem C12_chain_counters_nth :
  forall (parts : list (bytes * pparts)) (batches : list (list record)) (cntr : Z) (k : nat) (b : list record), nth_error batches k = Some b -> nth_error (chain_counters parts cntr batches) k = Some (snd (assign parts cntr (concat (firstn k batches)))) /\ fst (assign parts (snd (assign parts cntr (concat (firstn k batches)))) b) = firstn (length b) (skipn (length (concat (firstn k batches))) (fst (assign parts cntr (concat batches)))).
Proof. exact (@C12ExtraB.C12_chain_counters_nth). Qed.

Theorem C12_cntr_after_prefix :
  forall (p : producer) (c : Net.client) (recs : list record), exists n : nat, (n <= length recs)%nat /\ cntr_after p c recs = snd (assign (p_parts p) (p_cntr p) (firstn n recs)) /\ (fst (send_all_reqs (Net.cs c) (p_parts p) (p_cntr p) recs []) <> None -> n = length recs) /\ (fst (send_all_reqs (Net.cs c) (p_parts p) (p_cntr p) recs []) = None -> exists (r : record) (q : Z), nth_error recs (n - 1) = Some r /\ (0 < n)%nat /\ nth_error (fst (assign (p_parts p) (p_cntr p) recs)) (n - 1) = Some q /\ find_broker (Net.cs c) (r_topic r) q = None).
Proof. exact (@C12ExtraB.C12_cntr_after_prefix). Qed.

Theorem C12_history_keyless_has_leader :
  forall (s : cstate) (cntr : Z) (recs : list record) (i : nat) (r : record) (id : Z), 0 <= cntr < 4294967296 -> nth_error recs i = Some r -> r_partition r < 0 -> r_key r = [] -> find_broker s (r_topic r) id <> None -> exists (q : Z) (host : bytes), nth_error (fst (assign (producer_state s) cntr recs)) i = Some q /\ find_broker s (r_topic r) q = Some host.
Proof. exact (@C12ExtraB.C12_history_keyless_has_leader). Qed.

Theorem C12_send_all_accepted_iff :
  forall (s : cstate) (parts : list (bytes * pparts)) (cntr : Z) (recs : list record) (reqs : list (bytes * Requests.produce_tps)), fst (send_all_reqs s parts cntr recs reqs) <> None <-> (forall (i : nat) (r : record) (q : Z), nth_error recs i = Some r -> nth_error (fst (assign parts cntr recs)) i = Some q -> find_broker s (r_topic r) q <> None).
Proof. exact (@C12ExtraB.C12_send_all_accepted_iff). Qed.

Theorem C12_send_all_accepts_routable :
  forall (s : cstate) (cntr : Z) (recs : list record) (reqs : list (bytes * Requests.produce_tps)), 0 <= cntr < 4294967296 -> (forall r : record, In r recs -> routable s r) -> fst (send_all_reqs s (producer_state s) cntr recs reqs) <> None /\ snd (send_all_reqs s (producer_state s) cntr recs reqs) = snd (assign (producer_state s) cntr recs).
Proof. exact (@C12ExtraB.C12_send_all_accepts_routable). Qed.

Theorem C12_send_all_chain :
  forall (batches : list (list record)) (p : producer) (s : Net.st) (p' : producer) (s' : Net.st), send_all_chain p batches s = (Ok p', s') -> p_parts p' = p_parts p /\ p_cntr p' = snd (assign (p_parts p) (p_cntr p) (concat batches)).
Proof. exact (@C12ExtraB.C12_send_all_chain). Qed.

Theorem C12_send_all_chain_call :
  forall (bs1 : list (list record)) (b : list record) (bs2 : list (list record)) (p : producer) (s : Net.st) (p' : producer) (s' : Net.st), send_all_chain p (bs1 ++ b :: bs2) s = (Ok p', s') -> exists (pk : producer) (sk : Net.st) (cf : list Client.confirm) (pk1 : producer) (sk1 : Net.st), send_all_chain p bs1 s = (Ok pk, sk) /\ p_parts pk = p_parts p /\ p_cntr pk = snd (assign (p_parts p) (p_cntr p) (concat bs1)) /\ producer_send_all pk b sk = (Ok (cf, pk1), sk1) /\ send_all_chain pk1 bs2 sk1 = (Ok p', s') /\ fst (assign (p_parts pk) (p_cntr pk) b) = firstn (length b) (skipn (length (concat bs1)) (fst (assign (p_parts p) (p_cntr p) (concat (bs1 ++ b :: bs2))))).
Proof. exact (@C12ExtraB.C12_send_all_chain_call). Qed.

Theorem C12_send_all_chain_counter :
  forall (batches : list (list record)) (p : producer) (s : Net.st) (p' : producer) (s' : Net.st), 0 <= p_cntr p < 4294967296 -> send_all_chain p batches s = (Ok p', s') -> p_cntr p' = (p_cntr p + rot_count (p_parts p) (concat batches)) mod 4294967296.
Proof. exact (@C12ExtraB.C12_send_all_chain_counter). Qed.

Theorem C12_send_all_is_client_produce :
  forall (p : producer) (recs : list record) (s : Net.st), producer_send_all p recs s = Net.mbind (Client.internal_produce_messages (p_acks p) (p_ack_timeout p) (assigned_msgs recs (fst (assign (p_parts p) (p_cntr p) recs)))) (fun cf : list Client.confirm => Net.ret (cf, producer_set_cntr p (snd (assign (p_parts p) (p_cntr p) recs)))) s.
Proof. exact (@C12ExtraB.C12_send_all_is_client_produce). Qed.

Theorem C12_send_all_rejected_only_if :
  forall (s : cstate) (parts : list (bytes * pparts)) (cntr : Z) (recs : list record) (reqs : list (bytes * Requests.produce_tps)), fst (send_all_reqs s parts cntr recs reqs) = None -> exists (i : nat) (r : record) (q : Z), nth_error recs i = Some r /\ nth_error (fst (assign parts cntr recs)) i = Some q /\ find_broker s (r_topic r) q = None /\ (forall (j : nat) (r' : record) (q' : Z), (j < i)%nat -> nth_error recs j = Some r' -> nth_error (fst (assign parts cntr recs)) j = Some q' -> find_broker s (r_topic r') q' <> None) /\ snd (send_all_reqs s parts cntr recs reqs) = snd (assign parts cntr (firstn (S i) recs)).
Proof. exact (@C12ExtraB.C12_send_all_rejected_only_if). Qed.

Print Assumptions C12_assign_app.
Print Assumptions C12_assigned_msgs_nth.
Print Assumptions C12_chain_counters_nth.
Print Assumptions C12_cntr_after_prefix.
Print Assumptions C12_history_keyless_has_leader.
Print Assumptions C12_send_all_accepted_iff.
Print Assumptions C12_send_all_accepts_routable.
Print Assumptions C12_send_all_chain.
Print Assumptions C12_send_all_chain_call.
Print Assumptions C12_send_all_chain_counter.
Print Assumptions C12_send_all_is_client_produce.
Print Assumptions C12_send_all_rejected_only_if.

Theorem C12_available_ids_increasing :
  forall (s : cstate) (topic : bytes) (ps : pparts), assoc_bytes topic (producer_state s) = Some ps -> StronglySorted Z.lt (available_ids ps).
Proof. exact (@C12ExtraC.C12_available_ids_increasing). Qed.

Theorem C12_available_ids_nodup :
  forall (s : cstate) (topic : bytes) (ps : pparts), assoc_bytes topic (producer_state s) = Some ps -> NoDup (available_ids ps).
Proof. exact (@C12ExtraC.C12_available_ids_nodup). Qed.

Theorem C12_rotation_led_exactly_once :
  forall (s : cstate) (cntr : Z) (topic : bytes) (ps : pparts), assoc_bytes topic (producer_state s) = Some ps -> available_ids ps <> [] -> 0 <= cntr -> cntr + ulen (available_ids ps) <= 4294967296 -> NoDup (fst (keyless_run (producer_state s) cntr topic (length (available_ids ps)))) /\ (forall id : Z, In id (fst (keyless_run (producer_state s) cntr topic (length (available_ids ps)))) <-> (exists host : bytes, find_broker s topic id = Some host)).
Proof. exact (@C12ExtraC.C12_rotation_led_exactly_once). Qed.

Theorem C12_rotation_interleaved_led_exactly_once :
  forall (s : cstate) (cntr : Z) (recs : list record) (t : bytes) (ps : pparts) (i : nat), assoc_bytes t (producer_state s) = Some ps -> available_ids ps <> [] -> (forall r : record, In r recs -> rotates (producer_state s) r = true -> r_topic r = t) -> 0 <= cntr -> cntr + rot_count (producer_state s) recs <= 4294967296 -> Z.of_nat (i + length (available_ids ps)) <= rot_count (producer_state s) recs -> NoDup (firstn (length (available_ids ps)) (skipn i (rot_parts (producer_state s) recs (fst (assign (producer_state s) cntr recs))))) /\ (forall id : Z, In id (firstn (length (available_ids ps)) (skipn i (rot_parts (producer_state s) recs (fst (assign (producer_state s) cntr recs))))) <-> (exists host : bytes, find_broker s t id = Some host)).
Proof. exact (@C12ExtraC.C12_rotation_interleaved_led_exactly_once). Qed.

Theorem C12_partition_negative_alike :
  forall (parts : list (bytes * pparts)) (cntr : Z) (topic : bytes) (p p' : Z) (key : option bytes), p < 0 -> p' < 0 -> partition parts cntr topic p' key = partition parts cntr topic p key \/ partition parts cntr topic p key = (p, cntr) /\ partition parts cntr topic p' key = (p', cntr).
Proof. exact (@C12ExtraC.C12_partition_negative_alike). Qed.

Theorem C12_partition_negative_alike_assigned :
  forall (parts : list (bytes * pparts)) (cntr : Z) (topic : bytes) (p p' : Z) (key : option bytes) (ps : pparts), p < 0 -> p' < 0 -> assoc_bytes topic parts = Some ps -> match key with | Some _ => num_all ps <> 0 | None => available_ids ps <> [] end -> partition parts cntr topic p' key = partition parts cntr topic p key.
Proof. exact (@C12ExtraC.C12_partition_negative_alike_assigned). Qed.

Theorem C12_send_all_reqs_any_negative :
  forall (s : cstate) (parts : list (bytes * pparts)) (recs : list record) (cntr : Z) (reqs : list (bytes * Requests.produce_tps)), send_all_reqs s parts cntr recs reqs = send_all_reqs s parts cntr (map unspec recs) reqs.
Proof. exact (@C12ExtraC.C12_send_all_reqs_any_negative). Qed.

Theorem C12_send_all_any_negative :
  forall (p : producer) (recs : list record) (s : Net.st), producer_send_all p recs s = producer_send_all p (map unspec recs) s.
Proof. exact (@C12ExtraC.C12_send_all_any_negative). Qed.

Theorem C12_rotation_across_wrap :
  forall (parts : list (bytes * pparts)) (cntr : Z) (topic : bytes) (ps : pparts) (av : list Z), assoc_bytes topic parts = Some ps -> available_ids ps = av -> av <> [] -> 4294967296 mod ulen av = 0 -> 0 <= cntr -> Permutation (fst (keyless_run parts cntr topic (length av))) av.
Proof. exact (@C12ExtraC.C12_rotation_across_wrap). Qed.

Theorem C12_calls_counter :
  forall (p : producer) (batches : list (list record)) (p' : producer), calls p batches p' -> p_parts p' = p_parts p /\ (exists prefs : list (list record), Forall2 (fun pre b : list record => exists n : nat, pre = firstn n b) prefs batches /\ p_cntr p' = snd (assign (p_parts p) (p_cntr p) (concat prefs))).
Proof. exact (@C12ExtraC.C12_calls_counter). Qed.

Theorem C12_calls_counter_closed :
  forall (p : producer) (batches : list (list record)) (p' : producer), 0 <= p_cntr p < 4294967296 -> calls p batches p' -> exists prefs : list (list record), Forall2 (fun pre b : list record => exists n : nat, pre = firstn n b) prefs batches /\ p_cntr p' = (p_cntr p + rot_count (p_parts p) (concat prefs)) mod 4294967296.
Proof. exact (@C12ExtraC.C12_calls_counter_closed). Qed.

Print Assumptions C12_available_ids_increasing.
Print Assumptions C12_available_ids_nodup.
Print Assumptions C12_rotation_led_exactly_once.
Print Assumptions C12_rotation_interleaved_led_exactly_once.
Print Assumptions C12_partition_negative_alike.
Print Assumptions C12_partition_negative_alike_assigned.
Print Assumptions C12_send_all_reqs_any_negative.
Print Assumptions C12_send_all_any_negative.
Print Assumptions C12_rotation_across_wrap.
Print Assumptions C12_calls_counter.
Print Assumptions C12_calls_counter_closed.

Theorem C12_partition_count_after_update :
  forall (s : cstate) (md : metadata_resp) (s' : cstate) (t : bytes) (tm : topic_md), update_metadata s md = Ok s' -> C6.last_topic (md_topics md) t = Some tm -> exists l : list Z, partitions_for s' t = Some l /\ length l = length (tm_partitions tm).
Proof. exact (@C12ExtraE.C12_partition_count_after_update). Qed.

Theorem C12_partition_count_unlisted :
  forall (s : cstate) (md : metadata_resp) (s' : cstate) (t : bytes), update_metadata s md = Ok s' -> C6.last_topic (md_topics md) t = None -> partitions_for s' t = partitions_for s t.
Proof. exact (@C12ExtraE.C12_partition_count_unlisted). Qed.

Theorem C12_snapshot_after_update :
  forall (s : cstate) (md : metadata_resp) (s' : cstate) (t : bytes) (tm : topic_md), update_metadata s md = Ok s' -> C6.last_topic (md_topics md) t = Some tm -> exists ps : pparts, assoc_bytes t (producer_state s') = Some ps /\ num_all ps = ulen (tm_partitions tm) /\ (forall id : Z, In id (available_ids ps) -> 0 <= id < ulen (tm_partitions tm) /\ (exists host : bytes, find_broker s' t id = Some host)).
Proof. exact (@C12ExtraE.C12_snapshot_after_update). Qed.

Theorem C12_keyed_after_update :
  forall (s : cstate) (md : metadata_resp) (s' : cstate) (t : bytes) (tm : topic_md) (cntr p : Z) (k : bytes), update_metadata s md = Ok s' -> C6.last_topic (md_topics md) t = Some tm -> p < 0 -> 0 < ulen (tm_partitions tm) <= 2147483648 -> partition (producer_state s') cntr t p (Some k) = (xxh32 0 k mod ulen (tm_partitions tm), cntr) /\ 0 <= xxh32 0 k mod ulen (tm_partitions tm) < ulen (tm_partitions tm).
Proof. exact (@C12ExtraE.C12_keyed_after_update). Qed.

Theorem C12_keyed_same_across_histories :
  forall (s1 : cstate) (md1 : metadata_resp) (s1' s2 : cstate) (md2 : metadata_resp) (s2' : cstate) (t : bytes) (tm1 tm2 : topic_md) (c1 c2 p : Z) (k : bytes), update_metadata s1 md1 = Ok s1' -> update_metadata s2 md2 = Ok s2' -> C6.last_topic (md_topics md1) t = Some tm1 -> C6.last_topic (md_topics md2) t = Some tm2 -> length (tm_partitions tm1) = length (tm_partitions tm2) -> p < 0 -> fst (partition (producer_state s1') c1 t p (Some k)) = fst (partition (producer_state s2') c2 t p (Some k)).
Proof. exact (@C12ExtraE.C12_keyed_same_across_histories). Qed.

Theorem C12_keyless_after_update_in_range :
  forall (s : cstate) (md : metadata_resp) (s' : cstate) (t : bytes) (tm : topic_md) (cntr p : Z), update_metadata s md = Ok s' -> C6.last_topic (md_topics md) t = Some tm -> p < 0 -> fst (partition (producer_state s') cntr t p None) < ulen (tm_partitions tm) /\ (0 <= fst (partition (producer_state s') cntr t p None) -> exists host : bytes, find_broker s' t (fst (partition (producer_state s') cntr t p None)) = Some host).
Proof. exact (@C12ExtraE.C12_keyless_after_update_in_range). Qed.

Theorem C12_rotation_after_update :
  forall (s : cstate) (md : metadata_resp) (s' : cstate) (t : bytes) (tm : topic_md) (cntr : Z) (ps : pparts), update_metadata s md = Ok s' -> C6.last_topic (md_topics md) t = Some tm -> assoc_bytes t (producer_state s') = Some ps -> available_ids ps <> [] -> 0 <= cntr -> cntr + ulen (available_ids ps) <= 4294967296 -> let window := fst (keyless_run (producer_state s') cntr t (length (available_ids ps))) in NoDup window /\ (forall id : Z, In id window -> 0 <= id < ulen (tm_partitions tm)) /\ (forall id : Z, In id window <-> (exists host : bytes, find_broker s' t id = Some host)) /\ (length window <= length (tm_partitions tm))%nat.
Proof. exact (@C12ExtraE.C12_rotation_after_update). Qed.

Theorem C12_available_after_update :
  forall (s : cstate) (md : metadata_resp) (s' : cstate) (t : bytes) (tm : topic_md) (ps : pparts) (k l : Z), C6.inv s -> ulen (brokers s) + ulen (md_brokers md) <= UNKNOWN_BROKER_INDEX -> update_metadata s md = Ok s' -> C6.last_topic (md_topics md) t = Some tm -> assoc_bytes t (producer_state s') = Some ps -> 0 <= k < ulen (tm_partitions tm) -> C6.listed_leader (tm_partitions tm) k = Some l -> In k (available_ids ps) <-> (exists m : broker_md, C6.last_broker (md_brokers md) l = Some m) \/ (exists h : bytes, assoc_z l (map C6.bpair (brokers s)) = Some h).
Proof. exact (@C12ExtraE.C12_available_after_update). Qed.

Theorem C12_create_from_client_keeps_metadata :
  forall (c0 : Net.client) (calls : list pbuilder_call) (s : Net.st) (p : producer) (s' : Net.st), producer_create (inr c0) calls s = (Ok p, s') -> Net.cs (Net.cl s') = Net.cs (Net.cl s) /\ Net.conns (Net.cl s') = Net.conns (Net.cl s) /\ Net.script s' = Net.script s /\ Net.trace s' = Net.trace s /\ p_parts p = producer_state (Net.cs (Net.cl s)) /\ p_cntr p = 0.
Proof. exact (@C12ExtraE.C12_create_from_client_keeps_metadata). Qed.

Theorem C12_from_client_after_load :
  forall (topics : list bytes) (s0 s1 : Net.st) (c0 : Net.client) (calls : list pbuilder_call) (p : producer) (s2 : Net.st), Client.load_metadata topics s0 = (Ok tt, s1) -> producer_create (inr c0) calls s1 = (Ok p, s2) -> exists (md : metadata_resp) (sx : Net.st), Client.fetch_metadata topics s0 = (Ok md, sx) /\ p_cntr p = 0 /\ (forall (t : bytes) (tm : topic_md), C6.last_topic (md_topics md) t = Some tm -> exists ps : pparts, assoc_bytes t (p_parts p) = Some ps /\ num_all ps = ulen (tm_partitions tm) /\ (forall id : Z, In id (available_ids ps) -> 0 <= id < ulen (tm_partitions tm) /\ (exists host : bytes, find_broker (Net.cs (Net.cl s2)) t id = Some host)) /\ (forall (cntr pn : Z) (k : bytes), pn < 0 -> 0 < ulen (tm_partitions tm) <= 2147483648 -> partition (p_parts p) cntr t pn (Some k) = (xxh32 0 k mod ulen (tm_partitions tm), cntr)) /\ (forall cntr pn : Z, pn < 0 -> fst (partition (p_parts p) cntr t pn None) < ulen (tm_partitions tm))) /\ (forall t : bytes, C6.last_topic (md_topics md) t = None -> option_map num_all (assoc_bytes t (p_parts p)) = option_map ulen (partitions_for (Net.cs (Net.cl s0)) t)).
Proof. exact (@C12ExtraE.C12_from_client_after_load). Qed.

Theorem C12_send_all_after_load :
  forall (topics : list bytes) (s0 s1 : Net.st) (c0 : Net.client) (calls : list pbuilder_call) (p : producer) (s2 : Net.st) (p' : producer) (recs : list record) (s : Net.st), Client.load_metadata topics s0 = (Ok tt, s1) -> producer_create (inr c0) calls s1 = (Ok p, s2) -> p_parts p' = p_parts p -> exists (md : metadata_resp) (sx : Net.st) (msgs : list Client.produce_message), Client.fetch_metadata topics s0 = (Ok md, sx) /\ producer_send_all p' recs s = Net.mbind (Client.internal_produce_messages (p_acks p') (p_ack_timeout p') msgs) (fun cf : list Client.confirm => Net.ret (cf, producer_set_cntr p' (snd (assign (p_parts p') (p_cntr p') recs)))) s /\ length msgs = length recs /\ (forall (i : nat) (r : record) (tm : topic_md), nth_error recs i = Some r -> r_partition r < 0 -> C6.last_topic (md_topics md) (r_topic r) = Some tm -> exists q : Z, nth_error msgs i = Some {| Client.pq_topic := r_topic r; Client.pq_partition := q; Client.pq_key := to_option (r_key r); Client.pq_value := to_option (r_value r) |} /\ (r_key r <> [] -> 0 < ulen (tm_partitions tm) <= 2147483648 -> q = xxh32 0 (r_key r) mod ulen (tm_partitions tm)) /\ (r_key r = [] -> q < ulen (tm_partitions tm))).
Proof. exact (@C12ExtraE.C12_send_all_after_load). Qed.

Theorem C12_create_from_hosts_snapshot :
  forall (hs : list bytes) (calls : list pbuilder_call) (s : Net.st) (p : producer) (s' : Net.st), producer_create (inl hs) calls s = (Ok p, s') -> exists (s1 : Net.st) (md : metadata_resp) (sx : Net.st), Net.script s1 = Net.script s /\ Net.trace s1 = Net.trace s /\ Client.fetch_metadata [] (C6X.reset_st s1) = (Ok md, sx) /\ p_cntr p = 0 /\ (forall (t : bytes) (tm : topic_md), C6.last_topic (md_topics md) t = Some tm -> exists ps : pparts, assoc_bytes t (p_parts p) = Some ps /\ num_all ps = ulen (tm_partitions tm) /\ (forall id : Z, In id (available_ids ps) -> 0 <= id < ulen (tm_partitions tm) /\ (exists host : bytes, find_broker (Net.cs (Net.cl s')) t id = Some host)) /\ (forall (cntr pn : Z) (k : bytes), pn < 0 -> 0 < ulen (tm_partitions tm) <= 2147483648 -> partition (p_parts p) cntr t pn (Some k) = (xxh32 0 k mod ulen (tm_partitions tm), cntr))) /\ (forall t : bytes, C6.last_topic (md_topics md) t = None -> assoc_bytes t (p_parts p) = None /\ (forall (cntr pn : Z) (key : option bytes), pn < 0 -> partition (p_parts p) cntr t pn key = (pn, cntr))).
Proof. exact (@C12ExtraE.C12_create_from_hosts_snapshot). Qed.

Theorem C12_partition_count_after_history :
  forall (ops : list (option metadata_resp)) (s s' : cstate) (t : bytes), fold_left C6.step_c ops (Ok s) = Ok s' -> match hist_listing ops t with | Some (Some tm) => exists l : list Z, partitions_for s' t = Some l /\ length l = length (tm_partitions tm) | Some None => partitions_for s' t = None | None => partitions_for s' t = partitions_for s t end.
Proof. exact (@C12ExtraE.C12_partition_count_after_history). Qed.

Theorem C12_keyed_after_history :
  forall (ops : list (option metadata_resp)) (s s' : cstate) (t : bytes) (cntr p : Z) (k : bytes), fold_left C6.step_c ops (Ok s) = Ok s' -> p < 0 -> match hist_listing ops t with | Some (Some tm) => 0 < ulen (tm_partitions tm) <= 2147483648 -> partition (producer_state s') cntr t p (Some k) = (xxh32 0 k mod ulen (tm_partitions tm), cntr) | Some None => partition (producer_state s') cntr t p (Some k) = (p, cntr) /\ partition (producer_state s') cntr t p None = (p, cntr) | None => fst (partition (producer_state s') cntr t p (Some k)) = fst (partition (producer_state s) cntr t p (Some k)) end.
Proof. exact (@C12ExtraE.C12_keyed_after_history). Qed.

Print Assumptions C12_partition_count_after_update.
Print Assumptions C12_partition_count_unlisted.
Print Assumptions C12_snapshot_after_update.
Print Assumptions C12_keyed_after_update.
Print Assumptions C12_keyed_same_across_histories.
Print Assumptions C12_keyless_after_update_in_range.
Print Assumptions C12_rotation_after_update.
Print Assumptions C12_available_after_update.
Print Assumptions C12_create_from_client_keeps_metadata.
Print Assumptions C12_from_client_after_load.
Print Assumptions C12_send_all_after_load.
Print Assumptions C12_create_from_hosts_snapshot.
Print Assumptions C12_partition_count_after_history.
Print Assumptions C12_keyed_after_history.
