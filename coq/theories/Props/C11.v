(* C11: broker error codes surface as the matching error, never as success.
   Only statements here; the proofs are in Proofs/C11Facts.v. *)
From KV Require Import Base.Prelude Gen.ErrorCodes Gen.Consts Model.Codecs Model.Requests Model.Responses
                       Model.ClientState Model.Net Model.Client Proofs.C11Facts.

(* the table, for every i16 (indeed every integer): 0 is success, the declared range maps
   to the variant of that discriminant, anything else to Unknown; the enum read from
   src/error.rs declares every value of the transmuted range *)
Theorem C11_table : forall n,
  from_protocol n =
    if n =? 0 then None
    else if (from_protocol_lo <=? n) && (n <=? from_protocol_hi) then Some n
    else Some from_protocol_default.
Proof. exact from_protocol_table. Qed.

Theorem C11_transmute_total : forall n, from_protocol_lo <= n <= from_protocol_hi -> declared n.
Proof. exact transmute_total. Qed.

Theorem C11_never_success : forall n, n <> 0 -> exists c, from_protocol n = Some c /\ declared c.
Proof. exact from_protocol_nonzero. Qed.

(* the bounds the source uses today (breaks the build if the enum or the range moves) *)
Example C11_bounds_today : from_protocol_lo = 1 /\ from_protocol_hi = 35 /\ from_protocol_default = -1
                           /\ length all_kcodes = 36%nat.
Proof. vm_compute. repeat split. Qed.

Theorem C11_offsets : forall p c, from_protocol (por_error p) = Some c -> to_offset p = inr c.
Proof. exact to_offset_error. Qed.
Theorem C11_list_offsets : forall p c, from_protocol (lop_error p) = Some c -> lop_to_offset p = inr c.
Proof. exact lop_to_offset_error. Qed.
Theorem C11_produce : forall p c, from_protocol (pp_error p) = Some c ->
  produce_confirm p = (pp_partition p, inr c).
Proof. exact produce_confirm_error. Qed.
Theorem C11_group_fetch : forall p c, from_protocol (ofp_error p) = Some c ->
  c <> KC_UnknownTopicOrPartition -> get_offsets p = inr c.
Proof. exact get_offsets_error. Qed.
Theorem C11_group_fetch_exception : forall p,
  from_protocol (ofp_error p) = Some KC_UnknownTopicOrPartition -> get_offsets p = inl (ofp_partition p, -1).
Proof. exact get_offsets_unknown_tp. Qed.
Theorem C11_commit : forall ps pre p e post c,
  ps = pre ++ (p, e) :: post -> (forall q, In q pre -> snd q = 0) -> from_protocol e = Some c ->
  c <> KC_GroupLoadInProgress -> c <> KC_NotCoordinatorForGroup -> commit_scan_parts ps = ScanFatal c.
Proof. exact commit_scan_parts_fatal. Qed.
Theorem C11_fetch : forall cz depth validate preqs bs fp rest,
  read_partition cz depth validate preqs bs = Ok (fp, rest) ->
  forall p r1 e r2, zread_i32 bs = Ok (p, r1) -> zread_i16 r1 = Ok (e, r2) ->
  forall c, from_protocol e = Some c -> fp_data fp = inr c /\ fp_partition fp = p.
Proof. exact read_partition_error. Qed.

(* position independence: the first failing partition after any number of healthy ones *)
Theorem C11_position : forall {P V} (conv : P -> V + Z) (pid : P -> Z) ps acc pre p post c,
  ps = pre ++ p :: post -> (forall q, In q pre -> exists v, conv q = inl v) -> conv p = inr c ->
  collect conv pid ps acc = inr (pid p, c).
Proof. intros P V. exact (@collect_error P V). Qed.

Theorem C11_call_fails : forall {P V} enc (d : dec (Z * list (bytes * list P))) (conv : P -> V + Z) pid
  h tps r m s c rtps s' e,
  send_receive d h (enc tps) s = (Ok (c, rtps), s') -> merge_topics conv pid rtps m = Err e ->
  offsets_exchange enc d conv pid ((h, tps) :: r) m s = (Err e, s').
Proof. intros P V. exact (@offsets_exchange_error P V). Qed.

(* non-vacuity: a concrete failing partition *)
Example C11_example :
  to_offset {| por_partition := 3; por_error := 6; por_offsets := [42] |} = inr 6
  /\ get_offsets {| ofp_partition := 1; ofp_offset := 9; ofp_metadata := []; ofp_error := 3 |} = inl (1, -1)
  /\ from_protocol 36 = Some (-1) /\ from_protocol (-7) = Some (-1) /\ from_protocol 35 = Some 35.
Proof. vm_compute. repeat split. Qed.

Print Assumptions C11_table.
Print Assumptions C11_transmute_total.
Print Assumptions C11_never_success.
Print Assumptions C11_offsets.
Print Assumptions C11_list_offsets.
Print Assumptions C11_produce.
Print Assumptions C11_group_fetch.
Print Assumptions C11_group_fetch_exception.
Print Assumptions C11_commit.
Print Assumptions C11_fetch.
Print Assumptions C11_position.
Print Assumptions C11_call_fails.
