(* C11: broker error codes surface as the matching error, never as success.
   Only statements here; the proofs are in Proofs/C11Facts.v. *)
From KV Require Import Base.Prelude Gen.ErrorCodes Gen.Consts Model.Codecs Model.Requests Model.Responses
                       Model.ClientState Model.Net Model.Client Proofs.C11Facts.

From KV Require Import Proofs.C11Extra.
From KV Require Import Proofs.C11ExtraB.
From KV Require Import Proofs.C11ExtraC.
From KV Require Import Proofs.C11ExtraE.
(* the table, for every i16 (indeed every integer): 0 is success, the declared range maps
   to the variant of that discriminant, anything else to Unknown; the enum read from
   src/error.rs declares every value of the transmuted range *)
Theorem C11_table : forall n,
  from_protocol n =
    if n =? 0 then None
    else if (from_protocol_lo <=? n) && (n <=? from_protocol_hi) then Some n
    else Some from_protocol_default.
Proof. exact from_protocol_table. Qed.

Theorem C11_transmute_total : forall n, from_protocol_lo <= n <= from_protocol_hi -> declared n.
Proof. exact transmute_total. Qed.

Theorem C11_never_success : forall n, n <> 0 -> exists c, from_protocol n = Some c /\ declared c.
Proof. exact from_protocol_nonzero. Qed.

(* the bounds the source uses today (breaks the build if the enum or the range moves) *)
Example C11_bounds_today : from_protocol_lo = 1 /\ from_protocol_hi = 35 /\ from_protocol_default = -1
                           /\ length all_kcodes = 36%nat.
Proof. vm_compute. repeat split. Qed.

Theorem C11_offsets : forall p c, from_protocol (por_error p) = Some c -> to_offset p = inr c.
Proof. exact to_offset_error. Qed.
Theorem C11_list_offsets : forall p c, from_protocol (lop_error p) = Some c -> lop_to_offset p = inr c.
Proof. exact lop_to_offset_error. Qed.
Theorem C11_produce : forall p c, from_protocol (pp_error p) = Some c ->
  produce_confirm p = (pp_partition p, inr c).
Proof. exact produce_confirm_error. Qed.
Theorem C11_group_fetch : forall p c, from_protocol (ofp_error p) = Some c ->
  c <> KC_UnknownTopicOrPartition -> get_offsets p = inr c.
Proof. exact get_offsets_error. Qed.
Theorem C11_group_fetch_exception : forall p,
  from_protocol (ofp_error p) = Some KC_UnknownTopicOrPartition -> get_offsets p = inl (ofp_partition p, -1).
Proof. exact get_offsets_unknown_tp. Qed.
Theorem C11_commit : forall ps pre p e post c,
  ps = pre ++ (p, e) :: post -> (forall q, In q pre -> snd q = 0) -> from_protocol e = Some c ->
  c <> KC_GroupLoadInProgress -> c <> KC_NotCoordinatorForGroup -> commit_scan_parts ps = ScanFatal c.
Proof. exact commit_scan_parts_fatal. Qed.
Theorem C11_fetch : forall cz depth validate preqs bs fp rest,
  read_partition cz depth validate preqs bs = Ok (fp, rest) ->
  forall p r1 e r2, zread_i32 bs = Ok (p, r1) -> zread_i16 r1 = Ok (e, r2) ->
  forall c, from_protocol e = Some c -> fp_data fp = inr c /\ fp_partition fp = p.
Proof. exact read_partition_error. Qed.

(* position independence: the first failing partition after any number of healthy ones *)
Theorem C11_position : forall {P V} (conv : P -> V + Z) (pid : P -> Z) ps acc pre p post c,
  ps = pre ++ p :: post -> (forall q, In q pre -> exists v, conv q = inl v) -> conv p = inr c ->
  collect conv pid ps acc = inr (pid p, c).
Proof. intros P V. exact (@collect_error P V). Qed.

Theorem C11_call_fails : forall {P V} enc (d : dec (Z * list (bytes * list P))) (conv : P -> V + Z) pid
  h tps r m s c rtps s' e,
  send_receive d h (enc tps) s = (Ok (c, rtps), s') -> merge_topics conv pid rtps m = Err e ->
  offsets_exchange enc d conv pid ((h, tps) :: r) m s = (Err e, s').
Proof. intros P V. exact (@offsets_exchange_error P V). Qed.

(* non-vacuity: a concrete failing partition *)
Example C11_example :
  to_offset {| por_partition := 3; por_error := 6; por_offsets := [42] |} = inr 6
  /\ get_offsets {| ofp_partition := 1; ofp_offset := 9; ofp_metadata := []; ofp_error := 3 |} = inl (1, -1)
  /\ from_protocol 36 = Some (-1) /\ from_protocol (-7) = Some (-1) /\ from_protocol 35 = Some 35.
Proof. vm_compute. repeat split. Qed.

Print Assumptions C11_table.
Print Assumptions C11_transmute_total.
Print Assumptions C11_never_success.
Print Assumptions C11_offsets.
Print Assumptions C11_list_offsets.
Print Assumptions C11_produce.
Print Assumptions C11_group_fetch.
Print Assumptions C11_group_fetch_exception.
Print Assumptions C11_commit.
Print Assumptions C11_fetch.
Print Assumptions C11_position.
Print Assumptions C11_call_fails.

Theorem C11_commit_call_fails :
  forall (f : nat) (group : bytes) (req : res bytes) (attempt : Z) (s : st) (h : bytes) (s1 : st) (corr : Z) (tps : list (bytes * list (Z * Z))) (s2 : st) (c : Z), get_group_coordinator group s = (Ok h, s1) -> send_receive dec_offset_commit_resp h req s1 = (Ok (corr, tps), s2) -> commit_scan tps = ScanFatal c -> commit_loop (S f) group req attempt s = (Err (EKafka c), s2).
Proof. exact (@C11Extra.C11_commit_call_fails). Qed.

Theorem C11_commit_call_retry_exhausted :
  forall (f : nat) (group : bytes) (req : res bytes) (attempt : Z) (s : st) (h : bytes) (s1 : st) (corr : Z) (tps : list (bytes * list (Z * Z))) (s2 : st) (code : Z) (reset : bool), get_group_coordinator group s = (Ok h, s1) -> send_receive dec_offset_commit_resp h req s1 = (Ok (corr, tps), s2) -> commit_scan tps = ScanRetry code reset -> retry_max_attempts (cfg (cl s2)) <= attempt -> exists s3 : st, commit_loop (S f) group req attempt s = (Err (EKafka code), s3).
Proof. exact (@C11Extra.C11_commit_call_retry_exhausted). Qed.

Theorem C11_commit_offsets_ok_clean :
  forall (group : bytes) (os : list commit_offset) (s s' : st), commit_offsets group os s = (Ok tt, s') -> commit_tps (cs (cl s)) os [] = Some [] \/ (exists (corr : Z) (otps : list (bytes * list (Z * Z))) (h : bytes) (s1 : st) (rc : Z) (tps : list (bytes * list (Z * Z))), commit_tps (cs (cl s)) os [] = Some otps /\ send_receive dec_offset_commit_resp h (enc_offset_commit_req corr (client_id (cfg (cl s))) group (commit_version (offset_storage (cfg (cl s)))) otps) s1 = (Ok (rc, tps), s') /\ codes_zero tps).
Proof. exact (@C11Extra.C11_commit_offsets_ok_clean). Qed.

Theorem C11_commit_ok_clean :
  forall (f : nat) (group : bytes) (req : res bytes) (attempt : Z) (s s' : st), commit_loop f group req attempt s = (Ok tt, s') -> exists (h : bytes) (s1 : st) (corr : Z) (tps : list (bytes * list (Z * Z))), send_receive dec_offset_commit_resp h req s1 = (Ok (corr, tps), s') /\ codes_zero tps.
Proof. exact (@C11Extra.C11_commit_ok_clean). Qed.

Theorem C11_commit_scan_fatal :
  forall (tps tpre : list (bytes * list (Z * Z))) (t : bytes) (ps : list (Z * Z)) (tpost : list (bytes * list (Z * Z))) (pre : list (Z * Z)) (p e : Z) (post : list (Z * Z)) (c : Z), tps = tpre ++ (t, ps) :: tpost -> codes_zero tpre -> ps = pre ++ (p, e) :: post -> (forall q : Z * Z, In q pre -> snd q = 0) -> from_protocol e = Some c -> c <> KC_GroupLoadInProgress -> c <> KC_NotCoordinatorForGroup -> commit_scan tps = ScanFatal c.
Proof. exact (@C11Extra.C11_commit_scan_fatal). Qed.

Theorem C11_commit_scan_ok_zero :
  forall tps : list (bytes * list (Z * Z)), commit_scan tps = ScanOk -> codes_zero tps.
Proof. exact (@C11Extra.C11_commit_scan_ok_zero). Qed.

Theorem C11_consumer_poll_fails :
  forall (k : Consumer.consumer) (s : st) (n : Z) (resps : list fetch_resp) (k' : Consumer.consumer) (s1 : st) (pre : list fetch_part) (p : fetch_part) (post : list fetch_part) (c : Z), Consumer.consumer_fetch k s = (Ok (n, Ok resps, k'), s1) -> all_parts resps = pre ++ p :: post -> (forall q : fetch_part, In q pre -> exists d : Z * list message, fp_data q = inl d) -> fp_data p = inr c -> Consumer.consumer_poll k s = (Ok (Err (EKafka c), Consumer.consumer_with_client k' (cl s1)), s1).
Proof. exact (@C11Extra.C11_consumer_poll_fails). Qed.

Theorem C11_coordinator_fails :
  forall (f : nat) (group : bytes) (req : res bytes) (attempt : Z) (s : st) (r : coordinator_resp) (s1 : st) (code : Z), group_lookup_attempt req s = (Ok r, s1) -> from_protocol (gc_error r) = Some code -> code <> KC_GroupCoordinatorNotAvailable \/ retry_max_attempts (cfg (cl s1)) <= attempt -> group_lookup_loop (S f) group req attempt s = (Err (EKafka code), s1).
Proof. exact (@C11Extra.C11_coordinator_fails). Qed.

Theorem C11_coordinator_ok_clean :
  forall (f : nat) (group : bytes) (req : res bytes) (attempt : Z) (s : st) (h : bytes) (s' : st), group_lookup_loop f group req attempt s = (Ok h, s') -> exists (s0 : st) (r : coordinator_resp) (s1 : st), group_lookup_attempt req s0 = (Ok r, s1) /\ gc_error r = 0 /\ h = fst (set_group_coordinator (cs (cl s1)) group r) /\ cs (cl s') = snd (set_group_coordinator (cs (cl s1)) group r).
Proof. exact (@C11Extra.C11_coordinator_ok_clean). Qed.

Theorem C11_fetch_group_offsets_ok_clean :
  forall (group : bytes) (ps : list (bytes * Z)) (s : st) (m : list (bytes * list (Z * Z))) (s' : st), fetch_group_offsets group ps s = (Ok m, s') -> exists (corr : Z) (otps : list (bytes * list Z)) (h : bytes) (s1 : st) (rc : Z) (tps : list (bytes * list offset_fetch_part)), group_fetch_tps (cs (cl s)) ps [] = Some otps /\ send_receive dec_offset_fetch_resp h (enc_offset_fetch_req corr (client_id (cfg (cl s))) group (fetch_version (offset_storage (cfg (cl s)))) otps) s1 = (Ok (rc, tps), s') /\ group_scan tps [] = inl (inl m) /\ (forall (t : bytes) (ps' : list offset_fetch_part) (p : offset_fetch_part), In (t, ps') tps -> In p ps' -> ofp_acceptable p).
Proof. exact (@C11Extra.C11_fetch_group_offsets_ok_clean). Qed.

Theorem C11_fetch_offsets_fails :
  forall (topics : list bytes) (time : Z) (s : st) (corr : Z) (s0 : st) (pre : list (bytes * list (bytes * list (Z * Z)))) (h : bytes) (tps : list (bytes * list (Z * Z))) (post : list (bytes * list (bytes * list (Z * Z)))) (s1 : st) (resps : list (list (bytes * list part_offset_resp))) (s2 : st) (rc : Z) (rtps : list (bytes * list part_offset_resp)) (s3 : st) (tpre : list (bytes * list part_offset_resp)) (t : bytes) (ps : list part_offset_resp) (tpost : list (bytes * list part_offset_resp)) (ppre : list part_offset_resp) (p : part_offset_resp) (ppost : list part_offset_resp) (c : Z), next_corr s = (Ok corr, s0) -> ordered (offset_reqs (cs (cl s0)) topics time) s0 = (Ok (pre ++ (h, tps) :: post), s1) -> C10Facts.exchanges (enc_offset_req corr (client_id (cfg (cl s0)))) dec_offset_resp pre s1 resps s2 -> C10Facts.all_conv to_offset (concat resps) -> send_receive dec_offset_resp h (enc_offset_req corr (client_id (cfg (cl s0))) tps) s2 = (Ok (rc, rtps), s3) -> rtps = tpre ++ (t, ps) :: tpost -> (forall (t' : bytes) (ps' : list part_offset_resp), In (t', ps') tpre -> healthy to_offset ps') -> ps = ppre ++ p :: ppost -> healthy to_offset ppre -> from_protocol (por_error p) = Some c -> fetch_offsets topics time s = (Err (ETopicPartition t (por_partition p) c), s3).
Proof. exact (@C11Extra.C11_fetch_offsets_fails). Qed.

Theorem C11_fetch_offsets_ok_clean :
  forall (topics : list bytes) (time : Z) (s : st) (m : list (bytes * list (Z * Z))) (s' : st), fetch_offsets topics time s = (Ok m, s') -> exists (corr : Z) (s0 : st) (reqs : list (bytes * list (bytes * list (Z * Z)))) (s1 : st) (resps : list (list (bytes * list part_offset_resp))), next_corr s = (Ok corr, s0) /\ ordered (offset_reqs (cs (cl s0)) topics time) s0 = (Ok reqs, s1) /\ C10Facts.exchanges (enc_offset_req corr (client_id (cfg (cl s0)))) dec_offset_resp reqs s1 resps s' /\ (forall (t : bytes) (ps : list part_offset_resp) (p : part_offset_resp), In (t, ps) (concat resps) -> In p ps -> por_error p = 0).
Proof. exact (@C11Extra.C11_fetch_offsets_ok_clean). Qed.

Theorem C11_fetch_topic_offsets_fails :
  forall (topic : bytes) (time : Z) (s : st) (e : err) (s' : st), fetch_offsets [topic] time s = (Err e, s') -> fetch_topic_offsets topic time s = (Err e, s').
Proof. exact (@C11Extra.C11_fetch_topic_offsets_fails). Qed.

Theorem C11_group_fetch_call_fails :
  forall (f : nat) (group : bytes) (req : res bytes) (attempt : Z) (s : st) (h : bytes) (s1 : st) (corr : Z) (tps : list (bytes * list offset_fetch_part)) (s2 : st) (c : Z), get_group_coordinator group s = (Ok h, s1) -> send_receive dec_offset_fetch_resp h req s1 = (Ok (corr, tps), s2) -> group_scan tps [] = inr c -> group_fetch_loop (S f) group req attempt s = (Err (EKafka c), s2).
Proof. exact (@C11Extra.C11_group_fetch_call_fails). Qed.

Theorem C11_group_fetch_ok_clean :
  forall (f : nat) (group : bytes) (req : res bytes) (attempt : Z) (s : st) (m : list (bytes * list (Z * Z))) (s' : st), group_fetch_loop f group req attempt s = (Ok m, s') -> exists (h : bytes) (s1 : st) (corr : Z) (tps : list (bytes * list offset_fetch_part)), send_receive dec_offset_fetch_resp h req s1 = (Ok (corr, tps), s') /\ group_scan tps [] = inl (inl m) /\ (forall (t : bytes) (ps : list offset_fetch_part) (p : offset_fetch_part), In (t, ps) tps -> In p ps -> ofp_acceptable p).
Proof. exact (@C11Extra.C11_group_fetch_ok_clean). Qed.

Theorem C11_group_scan_fatal :
  forall (tps : list (bytes * list offset_fetch_part)) (m : list (bytes * list (Z * Z))) (tpre : list (bytes * list offset_fetch_part)) (t : bytes) (ps : list offset_fetch_part) (tpost : list (bytes * list offset_fetch_part)) (pre : list offset_fetch_part) (p : offset_fetch_part) (post : list offset_fetch_part) (c : Z), tps = tpre ++ (t, ps) :: tpost -> (forall (t' : bytes) (ps' : list offset_fetch_part), In (t', ps') tpre -> healthy get_offsets ps') -> ps = pre ++ p :: post -> healthy get_offsets pre -> from_protocol (ofp_error p) = Some c -> c <> KC_UnknownTopicOrPartition -> c <> KC_GroupLoadInProgress -> c <> KC_NotCoordinatorForGroup -> group_scan tps m = inr c.
Proof. exact (@C11Extra.C11_group_scan_fatal). Qed.

Theorem C11_group_scan_ok_acceptable :
  forall (tps : list (bytes * list offset_fetch_part)) (m m' : list (bytes * list (Z * Z))), group_scan tps m = inl (inl m') -> forall (t : bytes) (ps : list offset_fetch_part) (p : offset_fetch_part), In (t, ps) tps -> In p ps -> ofp_acceptable p.
Proof. exact (@C11Extra.C11_group_scan_ok_acceptable). Qed.

Theorem C11_group_scan_parts_fatal :
  forall (ps : list offset_fetch_part) (acc : list (Z * Z)) (pre : list offset_fetch_part) (p : offset_fetch_part) (post : list offset_fetch_part) (c : Z), ps = pre ++ p :: post -> healthy get_offsets pre -> get_offsets p = inr c -> c <> KC_GroupLoadInProgress -> c <> KC_NotCoordinatorForGroup -> group_scan_parts ps acc = GFatal c.
Proof. exact (@C11Extra.C11_group_scan_parts_fatal). Qed.

Theorem C11_iterate_no_failed :
  forall (ms : Consumer.message_sets) (t : bytes) (pid : Z) (msgs : list message), In (t, pid, msgs) (Consumer.iterate ms) -> exists (r : fetch_resp) (ft : fetch_topic) (fp : fetch_part) (hw : Z), In r (Consumer.ms_responses ms) /\ In ft (fr_topics r) /\ In fp (ft_partitions ft) /\ ft_topic ft = t /\ fp_partition fp = pid /\ fp_data fp = inl (hw, msgs).
Proof. exact (@C11Extra.C11_iterate_no_failed). Qed.

Theorem C11_list_offsets_fails :
  forall (topics : list bytes) (time : Z) (s : st) (corr : Z) (s0 : st) (pre : list (bytes * list (bytes * list (Z * Z)))) (h : bytes) (tps : list (bytes * list (Z * Z))) (post : list (bytes * list (bytes * list (Z * Z)))) (s1 : st) (resps : list (list (bytes * list list_offset_part))) (s2 : st) (rc : Z) (rtps : list (bytes * list list_offset_part)) (s3 : st) (tpre : list (bytes * list list_offset_part)) (t : bytes) (ps : list list_offset_part) (tpost : list (bytes * list list_offset_part)) (ppre : list list_offset_part) (p : list_offset_part) (ppost : list list_offset_part) (c : Z), next_corr s = (Ok corr, s0) -> ordered (offset_reqs (cs (cl s0)) topics time) s0 = (Ok (pre ++ (h, tps) :: post), s1) -> C10Facts.exchanges (enc_list_offsets_req corr (client_id (cfg (cl s0)))) dec_list_offsets_resp pre s1 resps s2 -> C10Facts.all_conv lop_to_offset (concat resps) -> send_receive dec_list_offsets_resp h (enc_list_offsets_req corr (client_id (cfg (cl s0))) tps) s2 = (Ok (rc, rtps), s3) -> rtps = tpre ++ (t, ps) :: tpost -> (forall (t' : bytes) (ps' : list list_offset_part), In (t', ps') tpre -> healthy lop_to_offset ps') -> ps = ppre ++ p :: ppost -> healthy lop_to_offset ppre -> from_protocol (lop_error p) = Some c -> list_offsets topics time s = (Err (ETopicPartition t (lop_partition p) c), s3).
Proof. exact (@C11Extra.C11_list_offsets_fails). Qed.

Theorem C11_merge_fails :
  forall (P V : Type) (conv : P -> V + Z) (pid : P -> Z) (tps : list (bytes * list P)) (m : list (bytes * list V)) (tpre : list (bytes * list P)) (t : bytes) (ps : list P) (tpost : list (bytes * list P)) (ppre : list P) (p : P) (ppost : list P) (c : Z), tps = tpre ++ (t, ps) :: tpost -> (forall (t' : bytes) (ps' : list P), In (t', ps') tpre -> healthy conv ps') -> ps = ppre ++ p :: ppost -> healthy conv ppre -> conv p = inr c -> merge_topics conv pid tps m = Err (ETopicPartition t (pid p) c).
Proof. exact (@C11Extra.C11_merge_fails). Qed.

Theorem C11_offsets_exchange_fails :
  forall (P V : Type) (enc : list (bytes * list (Z * Z)) -> res bytes) (d : dec (Z * list (bytes * list P))) (conv : P -> V + Z) (pid : P -> Z) (pre : list (bytes * list (bytes * list (Z * Z)))) (h : bytes) (tps : list (bytes * list (Z * Z))) (post : list (bytes * list (bytes * list (Z * Z)))) (m : list (bytes * list V)) (s : st) (resps : list (list (bytes * list P))) (s1 : st) (corr : Z) (rtps : list (bytes * list P)) (s2 : st) (tpre : list (bytes * list P)) (t : bytes) (ps : list P) (tpost : list (bytes * list P)) (ppre : list P) (p : P) (ppost : list P) (c : Z), C10Facts.exchanges enc d pre s resps s1 -> C10Facts.all_conv conv (concat resps) -> send_receive d h (enc tps) s1 = (Ok (corr, rtps), s2) -> rtps = tpre ++ (t, ps) :: tpost -> (forall (t' : bytes) (ps' : list P), In (t', ps') tpre -> healthy conv ps') -> ps = ppre ++ p :: ppost -> healthy conv ppre -> conv p = inr c -> offsets_exchange enc d conv pid (pre ++ (h, tps) :: post) m s = (Err (ETopicPartition t (pid p) c), s2).
Proof. exact (@C11Extra.C11_offsets_exchange_fails). Qed.

Theorem C11_offsets_exchange_ok_clean :
  forall (P V : Type) (enc : list (bytes * list (Z * Z)) -> res bytes) (d : dec (Z * list (bytes * list P))) (conv : P -> V + Z) (pid : P -> Z) (reqs : list (bytes * list (bytes * list (Z * Z)))) (m : list (bytes * list V)) (s : st) (m' : list (bytes * list V)) (s' : st), offsets_exchange enc d conv pid reqs m s = (Ok m', s') -> exists resps : list (list (bytes * list P)), C10Facts.exchanges enc d reqs s resps s' /\ C10Facts.all_conv conv (concat resps).
Proof. exact (@C11Extra.C11_offsets_exchange_ok_clean). Qed.

Theorem C11_poll_fails :
  forall (dbg : bool) (k : Consumer.consumer) (n : Z) (resps : list fetch_resp) (pre : list fetch_part) (p : fetch_part) (post : list fetch_part) (c : Z), all_parts resps = pre ++ p :: post -> (forall q : fetch_part, In q pre -> exists d : Z * list message, fp_data q = inl d) -> fp_data p = inr c -> Consumer.process_fetch_responses dbg k n resps = (Err (EKafka c), k).
Proof. exact (@C11Extra.C11_poll_fails). Qed.

Theorem C11_poll_ok_clean :
  forall (dbg : bool) (k : Consumer.consumer) (n : Z) (resps : list fetch_resp) (ms : Consumer.message_sets) (k' : Consumer.consumer), Consumer.process_fetch_responses dbg k n resps = (Ok ms, k') -> Consumer.ms_responses ms = resps /\ (forall p : fetch_part, In p (all_parts resps) -> exists d : Z * list message, fp_data p = inl d).
Proof. exact (@C11Extra.C11_poll_ok_clean). Qed.

Theorem C11_produce_exchange_reports :
  forall (corr acks timeout : Z) (h : bytes) (tps : produce_tps) (r : list (bytes * produce_tps)) (acc : list confirm) (s : st) (rc : Z) (rtps : list (bytes * list produce_part)) (s1 : st) (cf : list confirm) (s' : st) (t : bytes) (ps : list produce_part) (pp : produce_part) (c : Z), acks <> 0 -> send_receive dec_produce_resp h (enc_produce_req (env s) corr (client_id (cfg (cl s))) acks timeout (compression (cfg (cl s))) tps) s = (Ok (rc, rtps), s1) -> produce_exchange corr acks timeout ((h, tps) :: r) acc s = (Ok cf, s') -> In (t, ps) rtps -> In pp ps -> from_protocol (pp_error pp) = Some c -> exists pcs : list (Z * (Z + Z)), In (t, pcs) cf /\ In (pp_partition pp, inr c) pcs.
Proof. exact (@C11Extra.C11_produce_exchange_reports). Qed.

Theorem C11_send_all_confirms :
  forall (p : Producer.producer) (recs : list Producer.record) (s : st) (corr : Z) (s0 : st) (reqs : list (bytes * produce_tps)) (cntr' : Z) (h : bytes) (tps : produce_tps) (s1 : st) (rc : Z) (rtps : list (bytes * list produce_part)) (s2 : st), Producer.p_acks p <> 0 -> next_corr s = (Ok corr, s0) -> Producer.send_all_reqs (cs (cl s0)) (Producer.p_parts p) (Producer.p_cntr p) recs [] = (Some reqs, cntr') -> ordered reqs s0 = (Ok [(h, tps)], s1) -> send_receive dec_produce_resp h (enc_produce_req (env s1) corr (client_id (cfg (cl s1))) (Producer.p_acks p) (Producer.p_ack_timeout p) (compression (cfg (cl s1))) tps) s1 = (Ok (rc, rtps), s2) -> Producer.producer_send_all p recs s = (Ok (map (fun '(t, ps) => (t, map produce_confirm ps)) rtps, Producer.producer_set_cntr p cntr'), s2).
Proof. exact (@C11Extra.C11_send_all_confirms). Qed.

Theorem C11_send_broker_error :
  forall (p : Producer.producer) (r : Producer.record) (s : st) (corr : Z) (s0 : st) (reqs : list (bytes * produce_tps)) (cntr' : Z) (h : bytes) (tps : produce_tps) (s1 : st) (rc : Z) (t : bytes) (pp : produce_part) (s2 : st) (c : Z), Producer.p_acks p <> 0 -> next_corr s = (Ok corr, s0) -> Producer.send_all_reqs (cs (cl s0)) (Producer.p_parts p) (Producer.p_cntr p) [r] [] = (Some reqs, cntr') -> ordered reqs s0 = (Ok [(h, tps)], s1) -> send_receive dec_produce_resp h (enc_produce_req (env s1) corr (client_id (cfg (cl s1))) (Producer.p_acks p) (Producer.p_ack_timeout p) (compression (cfg (cl s1))) tps) s1 = (Ok (rc, [(t, [pp])]), s2) -> from_protocol (pp_error pp) = Some c -> Producer.producer_send p r s = (Err (EKafka c), s2).
Proof. exact (@C11Extra.C11_send_broker_error). Qed.

Theorem C11_send_fails :
  forall (p : Producer.producer) (r : Producer.record) (s : st) (t : bytes) (part code : Z) (p' : Producer.producer) (s' : st), Producer.p_acks p <> 0 -> Producer.producer_send_all p [r] s = (Ok ([(t, [(part, inr code)])], p'), s') -> Producer.producer_send p r s = (Err (EKafka code), s').
Proof. exact (@C11Extra.C11_send_fails). Qed.

Theorem C11_send_ok_confirmed :
  forall (p : Producer.producer) (r : Producer.record) (s : st) (p' : Producer.producer) (s' : st), Producer.p_acks p <> 0 -> Producer.producer_send p r s = (Ok p', s') -> exists (t : bytes) (part off : Z), Producer.producer_send_all p [r] s = (Ok ([(t, [(part, inl off)])], p'), s').
Proof. exact (@C11Extra.C11_send_ok_confirmed). Qed.

Print Assumptions C11_commit_call_fails.
Print Assumptions C11_commit_call_retry_exhausted.
Print Assumptions C11_commit_offsets_ok_clean.
Print Assumptions C11_commit_ok_clean.
Print Assumptions C11_commit_scan_fatal.
Print Assumptions C11_commit_scan_ok_zero.
Print Assumptions C11_consumer_poll_fails.
Print Assumptions C11_coordinator_fails.
Print Assumptions C11_coordinator_ok_clean.
Print Assumptions C11_fetch_group_offsets_ok_clean.
Print Assumptions C11_fetch_offsets_fails.
Print Assumptions C11_fetch_offsets_ok_clean.
Print Assumptions C11_fetch_topic_offsets_fails.
Print Assumptions C11_group_fetch_call_fails.
Print Assumptions C11_group_fetch_ok_clean.
Print Assumptions C11_group_scan_fatal.
Print Assumptions C11_group_scan_ok_acceptable.
Print Assumptions C11_group_scan_parts_fatal.
Print Assumptions C11_iterate_no_failed.
Print Assumptions C11_list_offsets_fails.
Print Assumptions C11_merge_fails.
Print Assumptions C11_offsets_exchange_fails.
Print Assumptions C11_offsets_exchange_ok_clean.
Print Assumptions C11_poll_fails.
Print Assumptions C11_poll_ok_clean.
Print Assumptions C11_produce_exchange_reports.
Print Assumptions C11_send_all_confirms.
Print Assumptions C11_send_broker_error.
Print Assumptions C11_send_fails.
Print Assumptions C11_send_ok_confirmed.

Theorem C11_commit_consumed_fails :
  forall (k : Consumer.consumer) (s : st) (order : list (bytes * Z)) (s1 : st) (os : list commit_offset) (e : err) (s2 : st), Consumer.k_group k <> [] -> match Consumer.dirty_entries k with | [] => ret [] | _ :: _ => pop_entries end s = (Ok order, s1) -> Consumer.commit_entries (debug_build (env s)) (Consumer.reorder_entries order (Consumer.dirty_entries k)) = Ok os -> commit_offsets (Consumer.k_group k) os s1 = (Err e, s2) -> Consumer.commit_consumed k s = (Err e, s2).
Proof. exact (@C11ExtraB.C11_commit_consumed_fails). Qed.

Theorem C11_commit_consumed_ok_clean :
  forall (k : Consumer.consumer) (s : st) (k' : Consumer.consumer) (s' : st), Consumer.commit_consumed k s = (Ok k', s') -> exists (order : list (bytes * Z)) (s1 : st) (os : list commit_offset), match Consumer.dirty_entries k with | [] => ret [] | _ :: _ => pop_entries end s = (Ok order, s1) /\ Consumer.commit_entries (debug_build (env s)) (Consumer.reorder_entries order (Consumer.dirty_entries k)) = Ok os /\ (commit_tps (cs (cl s1)) os [] = Some [] \/ (exists (corr : Z) (otps : list (bytes * list (Z * Z))) (h : bytes) (s1' : st) (rc : Z) (tps : list (bytes * list (Z * Z))), commit_tps (cs (cl s1)) os [] = Some otps /\ send_receive dec_offset_commit_resp h (enc_offset_commit_req corr (client_id (cfg (cl s1))) (Consumer.k_group k) (commit_version (offset_storage (cfg (cl s1)))) otps) s1' = (Ok (rc, tps), s') /\ codes_zero tps)).
Proof. exact (@C11ExtraB.C11_commit_consumed_ok_clean). Qed.

Theorem C11_commit_consumed_ok_only_if :
  forall (k : Consumer.consumer) (s : st) (k' : Consumer.consumer) (s' : st), Consumer.commit_consumed k s = (Ok k', s') -> exists (order : list (bytes * Z)) (s1 : st) (os : list commit_offset), match Consumer.dirty_entries k with | [] => ret [] | _ :: _ => pop_entries end s = (Ok order, s1) /\ Consumer.commit_entries (debug_build (env s)) (Consumer.reorder_entries order (Consumer.dirty_entries k)) = Ok os /\ commit_offsets (Consumer.k_group k) os s1 = (Ok tt, s') /\ k' = Consumer.consumer_with (Consumer.consumer_with_client k (cl s')) (Consumer.k_fetch k) (Consumer.k_retry k) (map (fun '(key, (o, _)) => (key, (o, false))) (Consumer.k_consumed k)).
Proof. exact (@C11ExtraB.C11_commit_consumed_ok_only_if). Qed.

Theorem C11_commit_first_code_total :
  forall tps : list (bytes * list (Z * Z)), codes_zero tps \/ (exists (t : bytes) (p e : Z), commit_first_code tps t p e).
Proof. exact (@C11ExtraB.C11_commit_first_code_total). Qed.

Theorem C11_commit_history :
  forall (group : bytes) (req : res bytes) (a : Z) (s : st) (tpss : list (list (bytes * list (Z * Z)))) (a' : Z) (s' : st) (f : nat), commit_retries group req a s tpss a' s' -> commit_loop (length tpss + f) group req a s = commit_loop f group req a' s'.
Proof. exact (@C11ExtraB.C11_commit_history). Qed.

Theorem C11_commit_history_exhausted :
  forall (group : bytes) (req : res bytes) (a : Z) (s : st) (tpss : list (list (bytes * list (Z * Z)))) (a' : Z) (s' : st) (f : nat) (h : bytes) (s1 : st) (corr : Z) (tps : list (bytes * list (Z * Z))) (s2 : st) (t : bytes) (p e : Z), commit_retries group req a s tpss a' s' -> get_group_coordinator group s' = (Ok h, s1) -> send_receive dec_offset_commit_resp h req s1 = (Ok (corr, tps), s2) -> commit_first_code tps t p e -> e = 14 \/ e = 16 -> retry_max_attempts (cfg (cl s2)) <= a' -> exists s3 : st, commit_loop (length tpss + S f) group req a s = (Err (EKafka e), s3).
Proof. exact (@C11ExtraB.C11_commit_history_exhausted). Qed.

Theorem C11_commit_history_fatal :
  forall (group : bytes) (req : res bytes) (a : Z) (s : st) (tpss : list (list (bytes * list (Z * Z)))) (a' : Z) (s' : st) (f : nat) (h : bytes) (s1 : st) (corr : Z) (tps : list (bytes * list (Z * Z))) (s2 : st) (t : bytes) (p e c : Z), commit_retries group req a s tpss a' s' -> get_group_coordinator group s' = (Ok h, s1) -> send_receive dec_offset_commit_resp h req s1 = (Ok (corr, tps), s2) -> commit_first_code tps t p e -> from_protocol e = Some c -> c <> KC_GroupLoadInProgress -> c <> KC_NotCoordinatorForGroup -> commit_loop (length tpss + S f) group req a s = (Err (EKafka c), s2).
Proof. exact (@C11ExtraB.C11_commit_history_fatal). Qed.

Theorem C11_commit_history_ok :
  forall (group : bytes) (req : res bytes) (a : Z) (s : st) (tpss : list (list (bytes * list (Z * Z)))) (a' : Z) (s' : st) (f : nat) (h : bytes) (s1 : st) (corr : Z) (tps : list (bytes * list (Z * Z))) (s2 : st), commit_retries group req a s tpss a' s' -> get_group_coordinator group s' = (Ok h, s1) -> send_receive dec_offset_commit_resp h req s1 = (Ok (corr, tps), s2) -> codes_zero tps -> commit_loop (length tpss + S f) group req a s = (Ok tt, s2).
Proof. exact (@C11ExtraB.C11_commit_history_ok). Qed.

Theorem C11_commit_loop_first_fatal :
  forall (f : nat) (group : bytes) (req : res bytes) (attempt : Z) (s : st) (h : bytes) (s1 : st) (corr : Z) (tps : list (bytes * list (Z * Z))) (s2 : st) (t : bytes) (p e c : Z), get_group_coordinator group s = (Ok h, s1) -> send_receive dec_offset_commit_resp h req s1 = (Ok (corr, tps), s2) -> commit_first_code tps t p e -> from_protocol e = Some c -> c <> KC_GroupLoadInProgress -> c <> KC_NotCoordinatorForGroup -> commit_loop (S f) group req attempt s = (Err (EKafka c), s2).
Proof. exact (@C11ExtraB.C11_commit_loop_first_fatal). Qed.

Theorem C11_commit_offsets_fails :
  forall (group : bytes) (os : list commit_offset) (s : st) (corr : Z) (s0 : st) (x : bytes * list (Z * Z)) (otps : list (bytes * list (Z * Z))) (h : bytes) (s1 : st) (rc : Z) (tps : list (bytes * list (Z * Z))) (s2 : st) (t : bytes) (p e c : Z), 0 <= offset_storage (cfg (cl s)) -> next_corr s = (Ok corr, s0) -> commit_tps (cs (cl s)) os [] = Some (x :: otps) -> get_group_coordinator group s0 = (Ok h, s1) -> send_receive dec_offset_commit_resp h (enc_offset_commit_req corr (client_id (cfg (cl s))) group (commit_version (offset_storage (cfg (cl s)))) (x :: otps)) s1 = (Ok (rc, tps), s2) -> commit_first_code tps t p e -> from_protocol e = Some c -> c <> KC_GroupLoadInProgress -> c <> KC_NotCoordinatorForGroup -> commit_offsets group os s = (Err (EKafka c), s2).
Proof. exact (@C11ExtraB.C11_commit_offsets_fails). Qed.

Theorem C11_commit_offsets_history_fatal :
  forall (group : bytes) (os : list commit_offset) (s : st) (corr : Z) (s0 : st) (x : bytes * list (Z * Z)) (otps : list (bytes * list (Z * Z))) (tpss : list (list (bytes * list (Z * Z)))) (a' : Z) (s' : st) (h : bytes) (s1 : st) (rc : Z) (tps : list (bytes * list (Z * Z))) (s2 : st) (t : bytes) (p e c : Z), 0 <= offset_storage (cfg (cl s)) -> next_corr s = (Ok corr, s0) -> commit_tps (cs (cl s)) os [] = Some (x :: otps) -> let req := enc_offset_commit_req corr (client_id (cfg (cl s))) group (commit_version (offset_storage (cfg (cl s)))) (x :: otps) in commit_retries group req 1 s0 tpss a' s' -> (length tpss <= length (script s0))%nat -> get_group_coordinator group s' = (Ok h, s1) -> send_receive dec_offset_commit_resp h req s1 = (Ok (rc, tps), s2) -> commit_first_code tps t p e -> from_protocol e = Some c -> c <> KC_GroupLoadInProgress -> c <> KC_NotCoordinatorForGroup -> commit_offsets group os s = (Err (EKafka c), s2).
Proof. exact (@C11ExtraB.C11_commit_offsets_history_fatal). Qed.

Theorem C11_commit_offsets_history_ok :
  forall (group : bytes) (os : list commit_offset) (s : st) (corr : Z) (s0 : st) (x : bytes * list (Z * Z)) (otps : list (bytes * list (Z * Z))) (tpss : list (list (bytes * list (Z * Z)))) (a' : Z) (s' : st) (h : bytes) (s1 : st) (rc : Z) (tps : list (bytes * list (Z * Z))) (s2 : st), 0 <= offset_storage (cfg (cl s)) -> next_corr s = (Ok corr, s0) -> commit_tps (cs (cl s)) os [] = Some (x :: otps) -> let req := enc_offset_commit_req corr (client_id (cfg (cl s))) group (commit_version (offset_storage (cfg (cl s)))) (x :: otps) in commit_retries group req 1 s0 tpss a' s' -> (length tpss <= length (script s0))%nat -> get_group_coordinator group s' = (Ok h, s1) -> send_receive dec_offset_commit_resp h req s1 = (Ok (rc, tps), s2) -> codes_zero tps -> commit_offsets group os s = (Ok tt, s2).
Proof. exact (@C11ExtraB.C11_commit_offsets_history_ok). Qed.

Theorem C11_commit_resend_only_if :
  forall (f : nat) (group : bytes) (req : res bytes) (attempt : Z) (s : st) (h : bytes) (s1 : st) (corr : Z) (tps : list (bytes * list (Z * Z))) (s2 : st) (r : res unit) (s' : st), get_group_coordinator group s = (Ok h, s1) -> send_receive dec_offset_commit_resp h req s1 = (Ok (corr, tps), s2) -> commit_loop (S f) group req attempt s = (r, s') -> codes_zero tps /\ r = Ok tt /\ s' = s2 \/ (exists (t : bytes) (p e c : Z), commit_first_code tps t p e /\ from_protocol e = Some c /\ c <> KC_GroupLoadInProgress /\ c <> KC_NotCoordinatorForGroup /\ r = Err (EKafka c) /\ s' = s2) \/ (exists (t : bytes) (p e : Z), commit_first_code tps t p e /\ (e = 14 \/ e = 16)).
Proof. exact (@C11ExtraB.C11_commit_resend_only_if). Qed.

Theorem C11_commit_retry_step :
  forall (f : nat) (group : bytes) (req : res bytes) (attempt : Z) (s : st) (h : bytes) (s1 : st) (corr : Z) (tps : list (bytes * list (Z * Z))) (s2 : st) (code : Z) (reset : bool), get_group_coordinator group s = (Ok h, s1) -> send_receive dec_offset_commit_resp h req s1 = (Ok (corr, tps), s2) -> commit_scan tps = ScanRetry code reset -> attempt < retry_max_attempts (cfg (cl s2)) -> commit_loop (S f) group req attempt s = commit_loop f group req (attempt + 1) (commit_after_retry reset group s2).
Proof. exact (@C11ExtraB.C11_commit_retry_step). Qed.

Theorem C11_commit_scan_fatal_before_retryable :
  forall (tps : list (bytes * list (Z * Z))) (t : bytes) (p e c : Z), commit_first_code tps t p e -> from_protocol e = Some c -> c <> KC_GroupLoadInProgress -> c <> KC_NotCoordinatorForGroup -> commit_scan tps = ScanFatal c.
Proof. exact (@C11ExtraB.C11_commit_scan_fatal_before_retryable). Qed.

Theorem C11_commit_scan_fatal_only_if :
  forall (tps : list (bytes * list (Z * Z))) (c : Z), commit_scan tps = ScanFatal c -> exists (t : bytes) (p e : Z), commit_first_code tps t p e /\ from_protocol e = Some c /\ c <> KC_GroupLoadInProgress /\ c <> KC_NotCoordinatorForGroup.
Proof. exact (@C11ExtraB.C11_commit_scan_fatal_only_if). Qed.

Theorem C11_commit_scan_first_code :
  forall (tps : list (bytes * list (Z * Z))) (t : bytes) (p e c : Z), commit_first_code tps t p e -> from_protocol e = Some c -> commit_scan tps = commit_class c.
Proof. exact (@C11ExtraB.C11_commit_scan_first_code). Qed.

Theorem C11_commit_scan_retry_only_if :
  forall (tps : list (bytes * list (Z * Z))) (code : Z) (reset : bool), commit_scan tps = ScanRetry code reset -> exists (t : bytes) (p e : Z), commit_first_code tps t p e /\ from_protocol e = Some code /\ (code = KC_GroupLoadInProgress /\ reset = false \/ code = KC_NotCoordinatorForGroup /\ reset = true).
Proof. exact (@C11ExtraB.C11_commit_scan_retry_only_if). Qed.

Theorem C11_commit_scan_retryable_first :
  forall (tps : list (bytes * list (Z * Z))) (t : bytes) (p e : Z), commit_first_code tps t p e -> (e = 14 -> commit_scan tps = ScanRetry KC_GroupLoadInProgress false) /\ (e = 16 -> commit_scan tps = ScanRetry KC_NotCoordinatorForGroup true).
Proof. exact (@C11ExtraB.C11_commit_scan_retryable_first). Qed.

Theorem C11_fetch_group_offsets_fails :
  forall (group : bytes) (ps : list (bytes * Z)) (s : st) (corr : Z) (s0 : st) (otps : list (bytes * list Z)) (h : bytes) (s1 : st) (rc : Z) (tps : list (bytes * list offset_fetch_part)) (s2 : st) (tpre : list (bytes * list offset_fetch_part)) (t : bytes) (ps' : list offset_fetch_part) (tpost : list (bytes * list offset_fetch_part)) (pre : list offset_fetch_part) (p : offset_fetch_part) (post : list offset_fetch_part) (c : Z), 0 <= offset_storage (cfg (cl s)) -> next_corr s = (Ok corr, s0) -> group_fetch_tps (cs (cl s)) ps [] = Some otps -> get_group_coordinator group s0 = (Ok h, s1) -> send_receive dec_offset_fetch_resp h (enc_offset_fetch_req corr (client_id (cfg (cl s))) group (fetch_version (offset_storage (cfg (cl s)))) otps) s1 = (Ok (rc, tps), s2) -> tps = tpre ++ (t, ps') :: tpost -> (forall (t' : bytes) (ps'' : list offset_fetch_part), In (t', ps'') tpre -> healthy get_offsets ps'') -> ps' = pre ++ p :: post -> healthy get_offsets pre -> from_protocol (ofp_error p) = Some c -> c <> KC_UnknownTopicOrPartition -> c <> KC_GroupLoadInProgress -> c <> KC_NotCoordinatorForGroup -> fetch_group_offsets group ps s = (Err (EKafka c), s2).
Proof. exact (@C11ExtraB.C11_fetch_group_offsets_fails). Qed.

Theorem C11_fetch_group_topic_offset_fails :
  forall (group topic : bytes) (s : st) (corr : Z) (s0 : st) (parts : list Z) (h : bytes) (s1 : st) (rc : Z) (tps : list (bytes * list offset_fetch_part)) (s2 : st) (tpre : list (bytes * list offset_fetch_part)) (t : bytes) (ps' : list offset_fetch_part) (tpost : list (bytes * list offset_fetch_part)) (pre : list offset_fetch_part) (p : offset_fetch_part) (post : list offset_fetch_part) (c : Z), 0 <= offset_storage (cfg (cl s)) -> next_corr s = (Ok corr, s0) -> partitions_for (cs (cl s)) topic = Some parts -> get_group_coordinator group s0 = (Ok h, s1) -> send_receive dec_offset_fetch_resp h (enc_offset_fetch_req corr (client_id (cfg (cl s))) group (fetch_version (offset_storage (cfg (cl s)))) (fold_left (fun (acc : list (bytes * list Z)) (id : Z) => tp_add acc topic id) (iota_z (length parts) 0) [])) s1 = (Ok (rc, tps), s2) -> tps = tpre ++ (t, ps') :: tpost -> (forall (t' : bytes) (ps'' : list offset_fetch_part), In (t', ps'') tpre -> healthy get_offsets ps'') -> ps' = pre ++ p :: post -> healthy get_offsets pre -> from_protocol (ofp_error p) = Some c -> c <> KC_UnknownTopicOrPartition -> c <> KC_GroupLoadInProgress -> c <> KC_NotCoordinatorForGroup -> fetch_group_topic_offset group topic s = (Err (EKafka c), s2).
Proof. exact (@C11ExtraB.C11_fetch_group_topic_offset_fails). Qed.

Theorem C11_fetch_group_topic_offset_ok_clean :
  forall (group topic : bytes) (s : st) (vs : list (Z * Z)) (s' : st), fetch_group_topic_offset group topic s = (Ok vs, s') -> exists (h : bytes) (req : res bytes) (s1 : st) (rc : Z) (tps : list (bytes * list offset_fetch_part)) (m : list (bytes * list (Z * Z))), send_receive dec_offset_fetch_resp h req s1 = (Ok (rc, tps), s') /\ group_scan tps [] = inl (inl m) /\ vs = match assoc_bytes topic m with | Some v => v | None => [] end /\ (forall (t : bytes) (ps : list offset_fetch_part) (p : offset_fetch_part), In (t, ps) tps -> In p ps -> ofp_acceptable p).
Proof. exact (@C11ExtraB.C11_fetch_group_topic_offset_ok_clean). Qed.

Theorem C11_group_fetch_retry_exhausted :
  forall (f : nat) (group : bytes) (req : res bytes) (attempt : Z) (s : st) (h : bytes) (s1 : st) (corr : Z) (tps : list (bytes * list offset_fetch_part)) (s2 : st) (code : Z) (reset : bool), get_group_coordinator group s = (Ok h, s1) -> send_receive dec_offset_fetch_resp h req s1 = (Ok (corr, tps), s2) -> group_scan tps [] = inl (inr (code, reset)) -> retry_max_attempts (cfg (cl s2)) <= attempt -> exists s3 : st, group_fetch_loop (S f) group req attempt s = (Err (EKafka code), s3).
Proof. exact (@C11ExtraB.C11_group_fetch_retry_exhausted). Qed.

Theorem C11_group_fetch_retry_step :
  forall (f : nat) (group : bytes) (req : res bytes) (attempt : Z) (s : st) (h : bytes) (s1 : st) (corr : Z) (tps : list (bytes * list offset_fetch_part)) (s2 : st) (code : Z) (reset : bool), get_group_coordinator group s = (Ok h, s1) -> send_receive dec_offset_fetch_resp h req s1 = (Ok (corr, tps), s2) -> group_scan tps [] = inl (inr (code, reset)) -> attempt < retry_max_attempts (cfg (cl s2)) -> group_fetch_loop (S f) group req attempt s = group_fetch_loop f group req (attempt + 1) (commit_after_retry reset group s2).
Proof. exact (@C11ExtraB.C11_group_fetch_retry_step). Qed.

Theorem C11_group_scan_retry :
  forall (tps : list (bytes * list offset_fetch_part)) (m : list (bytes * list (Z * Z))) (tpre : list (bytes * list offset_fetch_part)) (t : bytes) (ps : list offset_fetch_part) (tpost : list (bytes * list offset_fetch_part)) (pre : list offset_fetch_part) (p : offset_fetch_part) (post : list offset_fetch_part), tps = tpre ++ (t, ps) :: tpost -> (forall (t' : bytes) (ps' : list offset_fetch_part), In (t', ps') tpre -> healthy get_offsets ps') -> ps = pre ++ p :: post -> healthy get_offsets pre -> (ofp_error p = 14 -> group_scan tps m = inl (inr (KC_GroupLoadInProgress, false))) /\ (ofp_error p = 16 -> group_scan tps m = inl (inr (KC_NotCoordinatorForGroup, true))).
Proof. exact (@C11ExtraB.C11_group_scan_retry). Qed.

Print Assumptions C11_commit_consumed_fails.
Print Assumptions C11_commit_consumed_ok_clean.
Print Assumptions C11_commit_consumed_ok_only_if.
Print Assumptions C11_commit_first_code_total.
Print Assumptions C11_commit_history.
Print Assumptions C11_commit_history_exhausted.
Print Assumptions C11_commit_history_fatal.
Print Assumptions C11_commit_history_ok.
Print Assumptions C11_commit_loop_first_fatal.
Print Assumptions C11_commit_offsets_fails.
Print Assumptions C11_commit_offsets_history_fatal.
Print Assumptions C11_commit_offsets_history_ok.
Print Assumptions C11_commit_resend_only_if.
Print Assumptions C11_commit_retry_step.
Print Assumptions C11_commit_scan_fatal_before_retryable.
Print Assumptions C11_commit_scan_fatal_only_if.
Print Assumptions C11_commit_scan_first_code.
Print Assumptions C11_commit_scan_retry_only_if.
Print Assumptions C11_commit_scan_retryable_first.
Print Assumptions C11_fetch_group_offsets_fails.
Print Assumptions C11_fetch_group_topic_offset_fails.
Print Assumptions C11_fetch_group_topic_offset_ok_clean.
Print Assumptions C11_group_fetch_retry_exhausted.
Print Assumptions C11_group_fetch_retry_step.
Print Assumptions C11_group_scan_retry.

Theorem C11_wire_kind :
  forall e : Z, e <> 0 -> from_protocol e = Some (kind_of e).
Proof. exact (@C11ExtraC.C11_wire_kind). Qed.

Theorem C11_wire_kind_only :
  forall e c : Z, from_protocol e = Some c -> 1 <= c <= 35 /\ e = c \/ c = -1 /\ (e < 0 \/ 35 < e).
Proof. exact (@C11ExtraC.C11_wire_kind_only). Qed.

Theorem C11_control_codes_exact :
  forall e : Z, (from_protocol e = Some KC_UnknownTopicOrPartition <-> e = 3) /\ (from_protocol e = Some KC_GroupLoadInProgress <-> e = 14) /\ (from_protocol e = Some KC_GroupCoordinatorNotAvailable <-> e = 15) /\ (from_protocol e = Some KC_NotCoordinatorForGroup <-> e = 16).
Proof. exact (@C11ExtraC.C11_control_codes_exact). Qed.

Theorem C11_wire_partition_results :
  forall e : Z, e <> 0 -> (forall p : part_offset_resp, por_error p = e -> to_offset p = inr (kind_of e)) /\ (forall p : list_offset_part, lop_error p = e -> lop_to_offset p = inr (kind_of e)) /\ (forall p : produce_part, pp_error p = e -> produce_confirm p = (pp_partition p, inr (kind_of e))) /\ (forall p : offset_fetch_part, ofp_error p = e -> e <> 3 -> get_offsets p = inr (kind_of e)).
Proof. exact (@C11ExtraC.C11_wire_partition_results). Qed.

Theorem C11_get_offsets_wire :
  forall p : offset_fetch_part, get_offsets p = (if ofp_error p =? 0 then inl (ofp_partition p, ofp_offset p) else if ofp_error p =? 3 then inl (ofp_partition p, -1) else inr (kind_of (ofp_error p))).
Proof. exact (@C11ExtraC.C11_get_offsets_wire). Qed.

Theorem C11_acceptable_wire :
  forall p : offset_fetch_part, ofp_acceptable p <-> ofp_wire_ok p.
Proof. exact (@C11ExtraC.C11_acceptable_wire). Qed.

Theorem C11_group_fetch_ok_wire :
  forall (f : nat) (group : bytes) (req : res bytes) (attempt : Z) (s : st) (m : list (bytes * list (Z * Z))) (s' : st), group_fetch_loop f group req attempt s = (Ok m, s') -> exists (h : bytes) (s1 : st) (corr : Z) (tps : list (bytes * list offset_fetch_part)), send_receive dec_offset_fetch_resp h req s1 = (Ok (corr, tps), s') /\ group_scan tps [] = inl (inl m) /\ (forall (t : bytes) (ps : list offset_fetch_part) (p : offset_fetch_part), In (t, ps) tps -> In p ps -> ofp_error p = 0 \/ ofp_error p = 3).
Proof. exact (@C11ExtraC.C11_group_fetch_ok_wire). Qed.

Theorem C11_fetch_group_offsets_ok_wire :
  forall (group : bytes) (ps : list (bytes * Z)) (s : st) (m : list (bytes * list (Z * Z))) (s' : st), fetch_group_offsets group ps s = (Ok m, s') -> exists (corr : Z) (otps : list (bytes * list Z)) (h : bytes) (s1 : st) (rc : Z) (tps : list (bytes * list offset_fetch_part)), group_fetch_tps (cs (cl s)) ps [] = Some otps /\ send_receive dec_offset_fetch_resp h (enc_offset_fetch_req corr (client_id (cfg (cl s))) group (fetch_version (offset_storage (cfg (cl s)))) otps) s1 = (Ok (rc, tps), s') /\ group_scan tps [] = inl (inl m) /\ (forall (t : bytes) (ps' : list offset_fetch_part) (p : offset_fetch_part), In (t, ps') tps -> In p ps' -> ofp_error p = 0 \/ ofp_error p = 3).
Proof. exact (@C11ExtraC.C11_fetch_group_offsets_ok_wire). Qed.

Theorem C11_fetch_group_topic_offset_ok_wire :
  forall (group topic : bytes) (s : st) (vs : list (Z * Z)) (s' : st), fetch_group_topic_offset group topic s = (Ok vs, s') -> exists (h : bytes) (req : res bytes) (s1 : st) (rc : Z) (tps : list (bytes * list offset_fetch_part)) (m : list (bytes * list (Z * Z))), send_receive dec_offset_fetch_resp h req s1 = (Ok (rc, tps), s') /\ group_scan tps [] = inl (inl m) /\ vs = match assoc_bytes topic m with | Some v => v | None => [] end /\ (forall (t : bytes) (ps : list offset_fetch_part) (p : offset_fetch_part), In (t, ps) tps -> In p ps -> ofp_error p = 0 \/ ofp_error p = 3).
Proof. exact (@C11ExtraC.C11_fetch_group_topic_offset_ok_wire). Qed.

Theorem C11_group_first_bad_total :
  forall tps : list (bytes * list offset_fetch_part), (forall (t : bytes) (ps : list offset_fetch_part) (q : offset_fetch_part), In (t, ps) tps -> In q ps -> ofp_wire_ok q) \/ (exists (t : bytes) (p : offset_fetch_part), group_first_bad tps t p).
Proof. exact (@C11ExtraC.C11_group_first_bad_total). Qed.

Theorem C11_group_scan_wire :
  forall (tps : list (bytes * list offset_fetch_part)) (m : list (bytes * list (Z * Z))) (t : bytes) (p : offset_fetch_part), group_first_bad tps t p -> group_scan tps m = (if ofp_error p =? 14 then inl (inr (14, false)) else if ofp_error p =? 16 then inl (inr (16, true)) else inr (kind_of (ofp_error p))).
Proof. exact (@C11ExtraC.C11_group_scan_wire). Qed.

Theorem C11_group_fetch_resend_only_if :
  forall (f : nat) (group : bytes) (req : res bytes) (attempt : Z) (s : st) (h : bytes) (s1 : st) (corr : Z) (tps : list (bytes * list offset_fetch_part)) (s2 : st) (r : res (list (bytes * list (Z * Z)))) (s' : st), get_group_coordinator group s = (Ok h, s1) -> send_receive dec_offset_fetch_resp h req s1 = (Ok (corr, tps), s2) -> group_fetch_loop (S f) group req attempt s = (r, s') -> (exists m : list (bytes * list (Z * Z)), (forall (t : bytes) (ps : list offset_fetch_part) (q : offset_fetch_part), In (t, ps) tps -> In q ps -> ofp_error q = 0 \/ ofp_error q = 3) /\ group_scan tps [] = inl (inl m) /\ r = Ok m /\ s' = s2) \/ (exists (t : bytes) (p : offset_fetch_part), group_first_bad tps t p /\ ofp_error p <> 14 /\ ofp_error p <> 16 /\ r = Err (EKafka (kind_of (ofp_error p))) /\ s' = s2) \/ (exists (t : bytes) (p : offset_fetch_part), group_first_bad tps t p /\ (ofp_error p = 14 \/ ofp_error p = 16)).
Proof. exact (@C11ExtraC.C11_group_fetch_resend_only_if). Qed.

Theorem C11_coordinator_wire :
  forall (f : nat) (group : bytes) (req : res bytes) (attempt : Z) (s : st) (r : coordinator_resp) (s1 : st) (x : res bytes) (s' : st), group_lookup_attempt req s = (Ok r, s1) -> group_lookup_loop (S f) group req attempt s = (x, s') -> gc_error r = 0 /\ x = Ok (fst (set_group_coordinator (cs (cl s1)) group r)) \/ gc_error r <> 0 /\ gc_error r <> 15 /\ x = Err (EKafka (kind_of (gc_error r))) /\ s' = s1 \/ gc_error r = 15 /\ (attempt < retry_max_attempts (cfg (cl s1)) -> (x, s') = group_lookup_loop f group req (attempt + 1) s1) /\ (retry_max_attempts (cfg (cl s1)) <= attempt -> x = Err (EKafka 15) /\ s' = s1).
Proof. exact (@C11ExtraC.C11_coordinator_wire). Qed.

Theorem C11_merge_fails_only_if :
  forall (P V : Type) (conv : P -> V + Z) (pid : P -> Z) (tps : list (bytes * list P)) (m : list (bytes * list V)), match merge_topics conv pid tps m with | Ok _ => C10Facts.all_conv conv tps | Err e => exists (tpre : list (bytes * list P)) (t : bytes) (ps : list P) (tpost : list (bytes * list P)) (ppre : list P) (p : P) (ppost : list P) (c : Z), tps = tpre ++ (t, ps) :: tpost /\ (forall (t' : bytes) (ps' : list P), In (t', ps') tpre -> healthy conv ps') /\ ps = ppre ++ p :: ppost /\ healthy conv ppre /\ conv p = inr c /\ e = ETopicPartition t (pid p) c | Panic _ => False end.
Proof. exact (@C11ExtraC.C11_merge_fails_only_if). Qed.

Theorem C11_offsets_exchange_total :
  forall (P V : Type) (enc : list (bytes * list (Z * Z)) -> res bytes) (d : dec (Z * list (bytes * list P))) (conv : P -> V + Z) (pid : P -> Z) (reqs : list (bytes * list (bytes * list (Z * Z)))) (m : list (bytes * list V)) (s : st) (r : res (list (bytes * list V))) (s' : st), offsets_exchange enc d conv pid reqs m s = (r, s') -> exists (pre : list (bytes * list (bytes * list (Z * Z)))) (resps : list (list (bytes * list P))) (s1 : st), C10Facts.exchanges enc d pre s resps s1 /\ C10Facts.all_conv conv (concat resps) /\ (pre = reqs /\ s' = s1 /\ (exists m' : list (bytes * list V), r = Ok m') \/ (exists (h : bytes) (tps : list (bytes * list (Z * Z))) (post : list (bytes * list (bytes * list (Z * Z)))) (x : res (Z * list (bytes * list P))), reqs = pre ++ (h, tps) :: post /\ send_receive d h (enc tps) s1 = (x, s') /\ exchange_failure conv pid x r)).
Proof. exact (@C11ExtraC.C11_offsets_exchange_total). Qed.

Theorem C11_offsets_exchange_io_error :
  forall (P V : Type) (enc : list (bytes * list (Z * Z)) -> res bytes) (d : dec (Z * list (bytes * list P))) (conv : P -> V + Z) (pid : P -> Z) (pre : list (bytes * list (bytes * list (Z * Z)))) (h : bytes) (tps : list (bytes * list (Z * Z))) (post : list (bytes * list (bytes * list (Z * Z)))) (m : list (bytes * list V)) (s : st) (resps : list (list (bytes * list P))) (s1 : st) (e : err) (s2 : st), C10Facts.exchanges enc d pre s resps s1 -> C10Facts.all_conv conv (concat resps) -> send_receive d h (enc tps) s1 = (Err e, s2) -> offsets_exchange enc d conv pid (pre ++ (h, tps) :: post) m s = (Err e, s2).
Proof. exact (@C11ExtraC.C11_offsets_exchange_io_error). Qed.

Theorem C11_list_offsets_total :
  forall (topics : list bytes) (time : Z) (s : st) (corr : Z) (s0 : st) (reqs : list (bytes * list (bytes * list (Z * Z)))) (s1 : st) (r : res (list (bytes * list (Z * Z * Z)))) (s' : st), next_corr s = (Ok corr, s0) -> ordered (offset_reqs (cs (cl s0)) topics time) s0 = (Ok reqs, s1) -> list_offsets topics time s = (r, s') -> let enc := enc_list_offsets_req corr (client_id (cfg (cl s0))) in exists (pre : list (bytes * list (bytes * list (Z * Z)))) (resps : list (list (bytes * list list_offset_part))) (s2 : st), C10Facts.exchanges enc dec_list_offsets_resp pre s1 resps s2 /\ (forall (t : bytes) (ps : list list_offset_part) (p : list_offset_part), In (t, ps) (concat resps) -> In p ps -> lop_error p = 0) /\ (pre = reqs /\ s' = s2 /\ (exists m' : list (bytes * list (Z * Z * Z)), r = Ok m') \/ (exists (h : bytes) (tps : list (bytes * list (Z * Z))) (post : list (bytes * list (bytes * list (Z * Z)))) (x : res (Z * list (bytes * list list_offset_part))), reqs = pre ++ (h, tps) :: post /\ send_receive dec_list_offsets_resp h (enc tps) s2 = (x, s') /\ exchange_failure lop_to_offset lop_partition x r)).
Proof. exact (@C11ExtraC.C11_list_offsets_total). Qed.

Theorem C11_fetch_offsets_total :
  forall (topics : list bytes) (time : Z) (s : st) (corr : Z) (s0 : st) (reqs : list (bytes * list (bytes * list (Z * Z)))) (s1 : st) (r : res (list (bytes * list (Z * Z)))) (s' : st), next_corr s = (Ok corr, s0) -> ordered (offset_reqs (cs (cl s0)) topics time) s0 = (Ok reqs, s1) -> fetch_offsets topics time s = (r, s') -> let enc := enc_offset_req corr (client_id (cfg (cl s0))) in exists (pre : list (bytes * list (bytes * list (Z * Z)))) (resps : list (list (bytes * list part_offset_resp))) (s2 : st), C10Facts.exchanges enc dec_offset_resp pre s1 resps s2 /\ (forall (t : bytes) (ps : list part_offset_resp) (p : part_offset_resp), In (t, ps) (concat resps) -> In p ps -> por_error p = 0) /\ (pre = reqs /\ s' = s2 /\ (exists m' : list (bytes * list (Z * Z)), r = Ok m') \/ (exists (h : bytes) (tps : list (bytes * list (Z * Z))) (post : list (bytes * list (bytes * list (Z * Z)))) (x : res (Z * list (bytes * list part_offset_resp))), reqs = pre ++ (h, tps) :: post /\ send_receive dec_offset_resp h (enc tps) s2 = (x, s') /\ exchange_failure to_offset por_partition x r)).
Proof. exact (@C11ExtraC.C11_fetch_offsets_total). Qed.

Theorem C11_list_offsets_ok_clean :
  forall (topics : list bytes) (time : Z) (s : st) (m : list (bytes * list (Z * Z * Z))) (s' : st), list_offsets topics time s = (Ok m, s') -> exists (corr : Z) (s0 : st) (reqs : list (bytes * list (bytes * list (Z * Z)))) (s1 : st) (resps : list (list (bytes * list list_offset_part))), next_corr s = (Ok corr, s0) /\ ordered (offset_reqs (cs (cl s0)) topics time) s0 = (Ok reqs, s1) /\ C10Facts.exchanges (enc_list_offsets_req corr (client_id (cfg (cl s0)))) dec_list_offsets_resp reqs s1 resps s' /\ (forall (t : bytes) (ps : list list_offset_part) (p : list_offset_part), In (t, ps) (concat resps) -> In p ps -> lop_error p = 0).
Proof. exact (@C11ExtraC.C11_list_offsets_ok_clean). Qed.

Print Assumptions C11_wire_kind.
Print Assumptions C11_wire_kind_only.
Print Assumptions C11_control_codes_exact.
Print Assumptions C11_wire_partition_results.
Print Assumptions C11_get_offsets_wire.
Print Assumptions C11_acceptable_wire.
Print Assumptions C11_group_fetch_ok_wire.
Print Assumptions C11_fetch_group_offsets_ok_wire.
Print Assumptions C11_fetch_group_topic_offset_ok_wire.
Print Assumptions C11_group_first_bad_total.
Print Assumptions C11_group_scan_wire.
Print Assumptions C11_group_fetch_resend_only_if.
Print Assumptions C11_coordinator_wire.
Print Assumptions C11_merge_fails_only_if.
Print Assumptions C11_offsets_exchange_total.
Print Assumptions C11_offsets_exchange_io_error.
Print Assumptions C11_list_offsets_total.
Print Assumptions C11_fetch_offsets_total.
Print Assumptions C11_list_offsets_ok_clean.

Theorem C11_fetch_array_complete :
  forall (A : Type) (sz : Z) (d : bytes -> res (A * bytes)) (bs : bytes) (xs : list A) (rest : bytes), zread_array sz d bs = Ok (xs, rest) -> exists (n : Z) (r0 : bytes), zread_i32 bs = Ok (n, r0) /\ Z.of_nat (length xs) = Z.max 0 n /\ reads_seq d r0 xs rest.
Proof. exact (@C11ExtraE.C11_fetch_array_complete). Qed.

Theorem C11_fetch_topic_listing_complete :
  forall (cz : codecs) (depth : nat) (validate : bool) (reqs : fetch_tps) (bs : bytes) (ft : fetch_topic) (rest : bytes), read_topic cz depth validate reqs bs = Ok (ft, rest) -> exists (name r1 : bytes) (n : Z) (r2 : bytes), zread_str bs = Ok (name, r1) /\ zread_i32 r1 = Ok (n, r2) /\ ft_topic ft = name /\ Z.of_nat (length (ft_partitions ft)) = Z.max 0 n /\ reads_seq (read_partition cz depth validate (assoc_bytes name reqs)) r2 (ft_partitions ft) rest.
Proof. exact (@C11ExtraE.C11_fetch_topic_listing_complete). Qed.

Theorem C11_fetch_response_listing_complete :
  forall (cz : codecs) (depth : nat) (validate : bool) (reqs : fetch_tps) (bs : bytes) (resp : fetch_resp), fetch_from_vec cz depth validate reqs bs = Ok resp -> exists (r1 : bytes) (n : Z) (r2 rest : bytes), zread_i32 bs = Ok (fr_corr resp, r1) /\ zread_i32 r1 = Ok (n, r2) /\ Z.of_nat (length (fr_topics resp)) = Z.max 0 n /\ reads_seq (read_topic cz depth validate reqs) r2 (fr_topics resp) rest.
Proof. exact (@C11ExtraE.C11_fetch_response_listing_complete). Qed.

Theorem C11_fetch_topic_entries_wire :
  forall (cz : codecs) (depth : nat) (validate : bool) (reqs : fetch_tps) (bs : bytes) (ft : fetch_topic) (rest : bytes), read_topic cz depth validate reqs bs = Ok (ft, rest) -> forall fp : fetch_part, In fp (ft_partitions ft) -> exists (b r : bytes) (p : Z) (r1 : bytes) (e : Z) (r2 : bytes), read_partition cz depth validate (assoc_bytes (ft_topic ft) reqs) b = Ok (fp, r) /\ zread_i32 b = Ok (p, r1) /\ zread_i16 r1 = Ok (e, r2) /\ fp_partition fp = p /\ (e <> 0 -> fp_data fp = inr (kind_of e)) /\ (e = 0 -> exists dd : Z * list message, fp_data fp = inl dd).
Proof. exact (@C11ExtraE.C11_fetch_topic_entries_wire). Qed.

Theorem C11_fetch_decode_code_reported :
  forall (cz : codecs) (d : nat) (validate : bool) (reqs : fetch_tps) (r : RespGrammar.w_topics_resp RespGrammar.w_fetch_part) (rest : list byte), RespGrammar.wf_fetch r -> (forall (t : RespGrammar.w_topic RespGrammar.w_fetch_part) (p : RespGrammar.w_fetch_part), In t (C10Facts.view_list (RespGrammar.wr_topics r)) -> In p (C10Facts.view_list (RespGrammar.wt_partitions t)) -> exists ms : list message, C02Extra.exposed cz d validate reqs (C10Facts.view_str (RespGrammar.wt_name t)) p = Ok ms) -> exists resp : fetch_resp, fetch_from_vec cz d validate reqs (RespGrammar.print_fetch r ++ rest) = Ok resp /\ codes_reported r resp.
Proof. exact (@C11ExtraE.C11_fetch_decode_code_reported). Qed.

Theorem C11_fetch_decode_position :
  forall (cz : codecs) (d : nat) (validate : bool) (reqs : fetch_tps) (r : RespGrammar.w_topics_resp RespGrammar.w_fetch_part) (rest : list byte) (tpre : list (RespGrammar.w_topic RespGrammar.w_fetch_part)) (t : RespGrammar.w_topic RespGrammar.w_fetch_part) (tpost : list (RespGrammar.w_topic RespGrammar.w_fetch_part)) (pre : list RespGrammar.w_fetch_part) (q : RespGrammar.w_fetch_part) (post : list RespGrammar.w_fetch_part), RespGrammar.wf_fetch r -> (forall (t0 : RespGrammar.w_topic RespGrammar.w_fetch_part) (p : RespGrammar.w_fetch_part), In t0 (C10Facts.view_list (RespGrammar.wr_topics r)) -> In p (C10Facts.view_list (RespGrammar.wt_partitions t0)) -> exists ms : list message, C02Extra.exposed cz d validate reqs (C10Facts.view_str (RespGrammar.wt_name t0)) p = Ok ms) -> RespGrammar.wr_topics r = Some (tpre ++ t :: tpost) -> RespGrammar.wt_partitions t = Some (pre ++ q :: post) -> RespGrammar.wfe_error q <> 0 -> exists (resp : fetch_resp) (ft : fetch_topic), fetch_from_vec cz d validate reqs (RespGrammar.print_fetch r ++ rest) = Ok resp /\ nth_error (fr_topics resp) (length tpre) = Some ft /\ length (ft_partitions ft) = (length pre + 1 + length post)%nat /\ nth_error (ft_partitions ft) (length pre) = Some {| fp_partition := RespGrammar.wfe_partition q; fp_data := inr (kind_of (RespGrammar.wfe_error q)) |}.
Proof. exact (@C11ExtraE.C11_fetch_decode_position). Qed.

Theorem C11_fetch_messages_code_reported :
  forall (comp : Z -> bytes -> bytes) (input : list fetch_partition) (s : st) (h : bytes) (r : RespGrammar.w_topics_resp RespGrammar.w_fetch_part) (extra : bytes) (tail : list ev_out), one_broker_answers comp input s h r extra tail -> exists (resp : fetch_resp) (s' : st), fetch_messages input s = (Ok [resp], s') /\ script s' = tail /\ codes_reported r resp.
Proof. exact (@C11ExtraE.C11_fetch_messages_code_reported). Qed.

Theorem C11_consumer_poll_code_fails :
  forall (comp : Z -> bytes -> bytes) (k : Consumer.consumer) (s : st) (h : bytes) (r : RespGrammar.w_topics_resp RespGrammar.w_fetch_part) (extra : bytes) (tail : list ev_out) (tpre : list (RespGrammar.w_topic RespGrammar.w_fetch_part)) (t : RespGrammar.w_topic RespGrammar.w_fetch_part) (tpost : list (RespGrammar.w_topic RespGrammar.w_fetch_part)) (pre : list RespGrammar.w_fetch_part) (q : RespGrammar.w_fetch_part) (post : list RespGrammar.w_fetch_part), Consumer.k_retry k = [] -> one_broker_answers comp (poll_input k) s h r extra tail -> C10Facts.view_list (RespGrammar.wr_topics r) = tpre ++ t :: tpost -> C10Facts.view_list (RespGrammar.wt_partitions t) = pre ++ q :: post -> (forall (t' : RespGrammar.w_topic RespGrammar.w_fetch_part) (q' : RespGrammar.w_fetch_part), In t' tpre -> In q' (C10Facts.view_list (RespGrammar.wt_partitions t')) -> RespGrammar.wfe_error q' = 0) -> (forall q' : RespGrammar.w_fetch_part, In q' pre -> RespGrammar.wfe_error q' = 0) -> RespGrammar.wfe_error q <> 0 -> exists s' : st, Consumer.consumer_poll k s = (Ok (Err (EKafka (kind_of (RespGrammar.wfe_error q))), Consumer.consumer_with_client k (cl s')), s') /\ script s' = tail /\ poll_input (Consumer.consumer_with_client k (cl s')) = poll_input k.
Proof. exact (@C11ExtraE.C11_consumer_poll_code_fails). Qed.

Theorem C11_consumer_poll_ok_only_if :
  forall (k : Consumer.consumer) (s : st) (ms : Consumer.message_sets) (k2 : Consumer.consumer) (s' : st), Consumer.consumer_poll k s = (Ok (Ok ms, k2), s') -> exists (n : Z) (resps : list fetch_resp) (k' : Consumer.consumer), Consumer.consumer_fetch k s = (Ok (n, Ok resps, k'), s') /\ Consumer.ms_responses ms = resps /\ (forall p : fetch_part, In p (all_parts resps) -> exists d : Z * list message, fp_data p = inl d).
Proof. exact (@C11ExtraE.C11_consumer_poll_ok_only_if). Qed.

Theorem C11_consumer_poll_ok_only_if_wire :
  forall (comp : Z -> bytes -> bytes) (k : Consumer.consumer) (s : st) (h : bytes) (r : RespGrammar.w_topics_resp RespGrammar.w_fetch_part) (extra : bytes) (tail : list ev_out) (ms : Consumer.message_sets) (k2 : Consumer.consumer) (s2 : st), Consumer.k_retry k = [] -> one_broker_answers comp (poll_input k) s h r extra tail -> Consumer.consumer_poll k s = (Ok (Ok ms, k2), s2) -> forall (t : RespGrammar.w_topic RespGrammar.w_fetch_part) (q : RespGrammar.w_fetch_part), In t (C10Facts.view_list (RespGrammar.wr_topics r)) -> In q (C10Facts.view_list (RespGrammar.wt_partitions t)) -> RespGrammar.wfe_error q = 0.
Proof. exact (@C11ExtraE.C11_consumer_poll_ok_only_if_wire). Qed.

Print Assumptions C11_fetch_array_complete.
Print Assumptions C11_fetch_topic_listing_complete.
Print Assumptions C11_fetch_response_listing_complete.
Print Assumptions C11_fetch_topic_entries_wire.
Print Assumptions C11_fetch_decode_code_reported.
Print Assumptions C11_fetch_decode_position.
Print Assumptions C11_fetch_messages_code_reported.
Print Assumptions C11_consumer_poll_code_fails.
Print Assumptions C11_consumer_poll_ok_only_if.
Print Assumptions C11_consumer_poll_ok_only_if_wire.
