(* C19, third adequacy pass (round-five and round-six seeds).

   Seed C19-5 (Builder::create loads the metadata of the assigned topics only, load_metadata(&topics)
   instead of load_metadata_all()).  The mirrored change of Model.Consumer.consumer_create
   (`inl _ => load_metadata (map fst (cb_assign b))`) makes C19_create_unknown FALSE (its conclusion fixes
   the state after the failure to be the state after `load_metadata_all`; the trace of that state holds
   the bytes of the all-topics MetadataRequest, the mutated create writes a request naming the topics) -
   negation proved in the scratch copy with from_hosts [h:9092], with_topic "ghost", a broker listing
   only topic a.  C19_create_resolves (an equation between whole runs) and the C16 theorem
   C16_consumer_create_config break for the same reason; the proof of C19_create_exact stops at
   `exact Hmd`.  The SEMANTIC half of the seed (a broker answers a request that NAMES an unknown
   topic with an error-3 entry without partitions, update_metadata registers it as a topic with zero
   partitions, determine_partitions then accepts the whole-topic assignment) is not expressible as a
   difference between the two models: the model's broker is a script, its answers do not depend on what
   was asked.  What the unchanged model says about such metadata is stated in section 2 below, and
   the wire-level clause ("the metadata request of create() is the all-topics request") in section 3.

   Seed C19-6 (Consumer::subscriptions recomputed from the assignment and the client's CURRENT metadata
   instead of the keys of fetch_offsets).  The mirrored change of Model.Consumer.subscriptions makes
   C19_subscriptions, C19_subscriptions_assigned and the subscriptions clause of C19_history_exact
   FALSE - negations of all three proved in the scratch copy (a consumer whose table has t as a whole,
   fetch states t:0..2 and a client that knows 4 partitions of t; for the history: the consumer of
   C19_create_exact_ex polled once in a state whose client knows 4 partitions of a).

   Nothing was needed for the seeds.  This file adds:

   1. the clause "querying a topic-partition it does not consume returns nothing" for consumers WITH a
      group.  The first pass refuted it in general (the marks loaded at creation are the pairs the
      OffsetFetch RESPONSE names, C19_query_foreign_refuted), the second pass proved it for group-less
      consumers.  Here: it holds at creation and after every history of calls provided the OffsetFetch
      answer that creation received names (with an offset <> -1) only pairs that were asked for -
      a hypothesis about the broker, visible in the statement;
   2. an assigned whole topic that the loaded metadata lists with ZERO partitions (what a metadata answer
      with a per-topic error code leaves behind, the situation of seed C19-5): creation does not fail
      for it at resolution, the created consumer consumes nothing of it and subscriptions() does not
      mention the topic at all, although the topic is in the consumer's table;
   3. the metadata step of a consumer built from hosts, on the wire: every write of that step is the
      frame of the ALL-topics MetadataRequest (empty topic list) with the builder's client id. *)
From KV Require Import Base.Prelude Gen.ErrorCodes Gen.Consts Model.Codecs Model.Requests Model.Responses
                       Model.ClientState Model.Net Model.Client Model.Consumer.
From KV Require Import Proofs.BytesFacts Proofs.C07Facts Proofs.C19Facts Proofs.C08Facts Proofs.C16Facts
                       Proofs.C19Extra Proofs.C19ExtraB.
From KV Require Proofs.C07Extra Proofs.C09Extra Proofs.C09ExtraB.
From Coq Require Import ZifyBool Sorted Permutation.
Ltac Zify.zify_post_hook ::= Z.div_mod_to_equations.

(* ================================================================================== *)
(* 1. queries of a consumer with a group                                              *)
(* ================================================================================== *)

(* the answer tpos of KafkaClient::fetch_group_offsets names, with a committed offset (<> -1), only
   pairs of the list it was called with *)
Definition C19_answer_within (pairs : list (bytes * Z)) (tpos : list (bytes * list (Z * Z))) : Prop :=
  forall t pos p off, In (t, pos) tpos -> In (p, off) pos -> off <> -1 -> In (t, p) pairs.

(* marks made of an answer that names only consumed pairs belong to fetch states *)
Theorem C19_marks_of_answer : forall k dbg tpos,
  consumed_topics dbg (k_assign k) tpos [] = Ok (k_consumed k) ->
  (forall t pos p off, In (t, pos) tpos -> In (p, off) pos -> off <> -1 -> assigned k t p) ->
  C19_marks_inv k.
Proof.
  intros k dbg tpos Hc Hn [r p] Hk.
  destruct (C19_query_foreign_partial _ _ _ _ _ Hc r p Hk) as [H0|(t & pos & off & Hin & Hp & Ho & Hr)].
  - exfalso. apply H0. reflexivity.
  - destruct (Hn t pos p off Hin Hp Ho) as (r' & Hr' & Hg). rewrite Hr in Hr'. inversion Hr'; subst r'. exact Hg.
Qed.

(* creation of a consumer with a group: the call of fetch_group_offsets (C19_create_group_pairs), and
   if its answer stays within what was asked, every mark of the created consumer is a consumed pair *)
Theorem C19_create_group_marks : forall src calls s k s',
  consumer_create src calls s = (Ok k, s') ->
  let b := fold_left cbuilder_apply calls (cbuilder_new src) in
  cb_group b <> [] ->
  exists wait s1 pairs tpos s2,
    to_millis_i32 (cb_max_wait b) = Ok wait
    /\ create_metadata src (create_start src calls s wait) = (Ok tt, s1)
    /\ fetch_group_offsets (cb_group b) pairs s1 = (Ok tpos, s2)
    /\ (forall t p, In (t, p) pairs <-> assigned k t p)
    /\ (C19_answer_within pairs tpos ->
        C19_marks_inv k /\ forall t p, ~ assigned k t p -> last_consumed_message k t p = None).
Proof.
  intros src calls s k s' H b Hg.
  destruct (C19_create_group_pairs _ _ _ _ _ H Hg) as (wait & s1 & pairs & tpos & s2 & Hw & Hmd & Hf & _ & Hp & Hc).
  fold b in Hw, Hmd, Hf.
  exists wait, s1, pairs, tpos, s2.
  split; [exact Hw|]. split; [exact Hmd|]. split; [exact Hf|]. split; [exact Hp|].
  intros Hin.
  assert (Hm : C19_marks_inv k).
  { eapply C19_marks_of_answer; [exact Hc|]. intros t pos p off H1 H2 H3. apply Hp. eapply Hin; eassumption. }
  split; [exact Hm|]. intros t p Hn. apply C19_query_foreign_none; assumption.
Qed.

(* ... and after any history of calls: a query outside (assignment map x metadata loaded at creation)
   returns nothing.  With C19_history_exact (group-less case) this is the query clause of the
   property for every consumer whose group's OffsetFetch answer stayed within the request. *)
Theorem C19_history_group_query : forall src calls s k0 s0,
  consumer_create src calls s = (Ok k0, s0) ->
  let b := fold_left cbuilder_apply calls (cbuilder_new src) in
  cb_group b <> [] ->
  exists wait s1 pairs tpos s2,
    to_millis_i32 (cb_max_wait b) = Ok wait
    /\ create_metadata src (create_start src calls s wait) = (Ok tt, s1)
    /\ fetch_group_offsets (cb_group b) pairs s1 = (Ok tpos, s2)
    /\ (forall t p, In (t, p) pairs <-> C19_set (cb_assign b) (cs (cl s1)) t p)
    /\ (C19_answer_within pairs tpos ->
        forall k, C19_reach k0 k ->
        forall t p, ~ C19_set (cb_assign b) (cs (cl s1)) t p -> last_consumed_message k t p = None).
Proof.
  intros src calls s k0 s0 H b Hg.
  destruct (C19_create_group_marks _ _ _ _ _ H Hg) as (wait & s1 & pairs & tpos & s2 & Hw & Hmd & Hf & Hp & Hq).
  fold b in Hw, Hmd, Hf.
  (* the set of k0, and of every later k, in terms of the metadata of s1 *)
  assert (Hset : forall k, C19_reach k0 k -> forall t p, assigned k t p <-> C19_set (cb_assign b) (cs (cl s1)) t p).
  { intros k Hr t p.
    destruct (C19_history_exact _ _ _ _ _ _ H Hr) as (wait' & s1' & Hw' & Hmd' & Hall & _).
    fold b in Hw', Hmd', Hall. rewrite Hw in Hw'. inversion Hw'; subst wait'.
    rewrite Hmd in Hmd'. inversion Hmd'; subst s1'. apply (Hall t p). }
  exists wait, s1, pairs, tpos, s2.
  split; [exact Hw|]. split; [exact Hmd|]. split; [exact Hf|]. split.
  - intros t p. rewrite Hp. apply Hset. apply C19_reach_refl.
  - intros Hin k Hr t p Hn. destruct (Hq Hin) as [Hm0 _].
    apply C19_query_foreign_none.
    + eapply C19_history_keeps_marks; eassumption.
    + intros Ha. apply Hn. apply (Hset k Hr). exact Ha.
Qed.

(* non-vacuity: the scripted two-broker cluster of C07Extra (topic t, 3 partitions, group g; the
   OffsetFetch answer names t:0 (-1), t:1 (12), t:2 (8) - all asked for).  The hypothesis holds for the
   answer creation receives; the created consumer has the marks t:1, t:2, and after marking t:0 and
   seeking t:2 the queries for t:3, t:-1 and for another topic return nothing. *)
Example C19_create_group_marks_ex :
  let calls := [CWithGroup C07Extra.xg; CWithTopicPartitions C07Extra.xt [2; 0; 2; 1; 0]; CWithFallback FbLatest] in
  let pairs := [(C07Extra.xt, 0); (C07Extra.xt, 1); (C07Extra.xt, 2)] in
  match fst (fetch_group_offsets C07Extra.xg pairs (create_start (inr C07Extra.ex_client) calls C07Extra.ex_st2 100)) with
  | Ok tpos => tpos = [(C07Extra.xt, [(0, -1); (1, 12); (2, 8)])] /\ C19_answer_within pairs tpos
  | _ => False
  end
  /\ match fst (consumer_create (inr C07Extra.ex_client) calls C07Extra.ex_st2) with
     | Ok k0 =>
         k_consumed k0 = [((0, 1), (11, false)); ((0, 2), (7, false))]
         /\ match consume_message k0 C07Extra.xt 0 3 with
            | Ok k1 => match consumer_seek k1 C07Extra.xt 2 30 with
                       | Ok k2 => last_consumed_message k2 C07Extra.xt 3 = None
                                  /\ last_consumed_message k2 C07Extra.xt (-1) = None
                                  /\ last_consumed_message k2 C07Extra.xa 0 = None
                                  /\ last_consumed_message k2 C07Extra.xt 0 = Some 3
                                  /\ last_consumed_message k2 C07Extra.xt 1 = Some 11
                       | _ => False end
            | _ => False end
     | _ => False
     end.
Proof.
  split.
  - vm_compute. split; [reflexivity|].
    intros t pos p off [E|[]] Hp Ho. inversion E; subst t pos.
    destruct Hp as [E1|[E1|[E1|[]]]]; inversion E1; subst p off; [congruence|right; left; reflexivity|right; right; left; reflexivity].
  - vm_compute. repeat split.
Qed.

(* ================================================================================== *)
(* 2. an assigned whole topic that the loaded metadata lists with zero partitions      *)
(* ================================================================================== *)

(* subscriptions() never lists a topic with an empty partition list: entries are made per fetch state *)
Lemma res_push_nonempty (m : list (bytes * list Z)) t p :
  (forall e, In e m -> snd e <> []) -> forall e, In e (res_push m t [p]) -> snd e <> [].
Proof.
  induction m as [|[t' vs'] m IH]; intros Hm e Hin; cbn [res_push] in Hin.
  - destruct Hin as [<-|[]]. cbn [snd]. discriminate.
  - destruct (bytes_eqb t' t).
    + destruct Hin as [<-|Hin].
      * cbn [snd]. intros E. apply app_eq_nil in E. destruct E as [_ E]. discriminate.
      * apply Hm. right. exact Hin.
    + destruct Hin as [<-|Hin].
      * apply Hm. left. reflexivity.
      * apply IH; [|exact Hin]. intros e' He'. apply Hm. right. exact He'.
Qed.

Theorem C19_subscriptions_nonempty : forall k t ps, In (t, ps) (subscriptions k) -> ps <> [].
Proof.
  intros k t ps Hin. unfold subscriptions in Hin.
  assert (G : forall (l : list (tpkey * (Z * Z))) (acc : list (bytes * list Z)), (forall e, In e acc -> snd e <> []) ->
                forall e, In e (fold_left (fun (acc : list (bytes * list Z)) '((r, p), _) => res_push acc (topic_name k r) [p]) l acc)
                          -> snd e <> []).
  { induction l as [|[[r p] v] l IH]; intros acc Ha e He; cbn [fold_left] in He.
    - apply Ha. exact He.
    - eapply IH; [|exact He]. apply res_push_nonempty. exact Ha. }
  apply (G (k_fetch k) [] (fun e (F : In e []) => match F with end) (t, ps) Hin).
Qed.

(* a topic is a key of subscriptions() exactly if one of its partitions is consumed *)
Theorem C19_subscriptions_topic : forall k, C19_inv k ->
  forall t, In t (map fst (subscriptions k)) <-> exists p, assigned k t p.
Proof.
  intros k Hinv t. split.
  - intros Hin. apply in_map_iff in Hin. destruct Hin as ([t' ps] & E & Hin). cbn [fst] in E. subst t'.
    pose proof (C19_subscriptions_nonempty _ _ _ Hin) as Hne. destruct ps as [|p ps]; [congruence|].
    exists p. apply (C19_subscriptions_assigned k Hinv). unfold flat_tps. apply in_flat_map.
    exists (t, p :: ps). split; [exact Hin|]. cbn [fst snd map]. left. reflexivity.
  - intros (p & Ha). apply (C19_subscriptions_assigned k Hinv) in Ha. unfold flat_tps in Ha.
    apply in_flat_map in Ha. destruct Ha as ([t' ps] & Hin & Hp). cbn [fst snd] in Hp.
    apply in_map_iff in Hp. destruct Hp as (q & E & _). inversion E; subst t'.
    apply in_map_iff. exists (t, ps). split; [reflexivity|exact Hin].
Qed.

(* the loaded metadata lists t, without partitions: t must have been assigned as a whole (an explicit
   id would not exist), creation is not stopped by the resolution of t, and the created consumer has t
   in its table, consumes nothing of it and does not report it *)
Theorem C19_create_zero_partitions : forall src calls s k s' wait s1 t req,
  let b := fold_left cbuilder_apply calls (cbuilder_new src) in
  consumer_create src calls s = (Ok k, s') ->
  to_millis_i32 (cb_max_wait b) = Ok wait ->
  create_metadata src (create_start src calls s wait) = (Ok tt, s1) ->
  assoc_bytes t (cb_assign b) = Some req ->
  partitions_for (cs (cl s1)) t = Some [] ->
  req = []
  /\ determine_partitions (cs (cl s1)) (t, sort_dedup req) = Ok []
  /\ (exists r, topic_ref (k_assign k) t = Some r)
  /\ (forall p, ~ assigned k t p)
  /\ ~ In t (map fst (subscriptions k))
  /\ (forall p off, consumer_seek k t p off = Err (ETopicPartition t p KC_UnknownTopicOrPartition))
  /\ (forall p off, consume_message k t p off = Err (EKafka KC_UnknownTopicOrPartition)).
Proof.
  intros src calls s k s' wait s1 t req b H Hw Hmd Hreq Hz.
  destruct (C19_create_inv _ _ _ _ _ H) as [Hinv _].
  destruct (C19_create_exact _ _ _ _ _ H) as (wait' & s1' & subs & s2 & s3 & Hw' & Hmd' & Hka & Hsorted & Hex & Hset & _).
  fold b in Hw', Hmd', Hka, Hex, Hset.
  rewrite Hw in Hw'. inversion Hw'; subst wait'. rewrite Hmd in Hmd'. inversion Hmd'; subst s1'.
  assert (Hreq0 : req = []).
  { destruct (Hex t req Hreq) as (avail & Ha & Hall). rewrite Hz in Ha. inversion Ha; subst avail.
    destruct req as [|p req]; [reflexivity|]. inversion Hall as [|x l Hp _]; subst. cbn in Hp. lia. }
  assert (Hno : forall p, ~ assigned k t p).
  { intros p Ha. apply Hset in Ha. destruct Ha as (req' & avail & _ & Ha & Hr & _).
    rewrite Hz in Ha. inversion Ha; subst avail. cbn in Hr. lia. }
  pose proof (C19_builder_keys_distinct src calls) as Hnd. fold b in Hnd.
  assert (Hr : exists r, topic_ref (k_assign k) t = Some r).
  { rewrite Hka. destruct (C19_from_map_sorted _ Hnd) as (Hs & _ & Hkeys & _).
    destruct (C19_lookup_found _ (from_map (cb_assign b)) t Hs) as (r & v & Hr & _).
    - apply Hkeys. apply in_map_iff. exists (t, req). split; [reflexivity|]. apply assoc_bytes_some_in. exact Hreq.
    - exists r. exact Hr. }
  split; [exact Hreq0|]. split.
  { subst req. unfold determine_partitions. cbn [fst snd]. rewrite Hz. reflexivity. }
  split; [exact Hr|]. split; [exact Hno|]. split.
  { intros Hin. apply (C19_subscriptions_topic k Hinv) in Hin. destruct Hin as (p & Ha). exact (Hno p Ha). }
  destruct Hr as (r & Hr). split.
  - intros p off. unfold consumer_seek. rewrite Hr.
    destruct (tk_get (r, p) (k_fetch k)) as [[o mb]|] eqn:Eg; [|reflexivity].
    exfalso. apply (Hno p). exists r. split; [exact Hr|]. rewrite Eg. discriminate.
  - intros p off. apply C19_foreign_consume. apply Hno.
Qed.

(* non-vacuity, and the situation of seed C19-5 on the UNCHANGED model: a client that knows t (3 partitions)
   and - e.g. after load_metadata(["ghost"]) answered with an error-3 entry - "ghost" without partitions;
   group g has committed offsets for t.  Consumer::from_client(..).with_topic(t).with_topic(ghost) is
   created, and "ghost" is silently missing from subscriptions() *)
Definition exC_client : client :=
  {| cfg := cfg C07Extra.ex_client;
     cs := {| correlation := 0; brokers := brokers (cs C07Extra.ex_client);
              topic_partitions := [(C07Extra.xt, [0; 0; 1]); (tag "ghost", [])];
              group_coordinators := group_coordinators (cs C07Extra.ex_client) |};
     conns := [] |}.
Definition exC_st : st :=
  {| script := script C07Extra.ex_st2; trace := []; anyq := []; hostq := []; fetchq := []; entryq := [];
     cl := exC_client; env := env C07Extra.ex_st2 |}.
Definition exC_calls : list cbuilder_call :=
  [CWithGroup C07Extra.xg; CWithTopic C07Extra.xt; CWithTopic (tag "ghost"); CWithFallback FbLatest].

Example C19_create_zero_partitions_ex :
  partitions_for (cs (cl (create_start (inr exC_client) exC_calls exC_st 100))) (tag "ghost") = Some []
  /\ assoc_bytes (tag "ghost") (cb_assign (fold_left cbuilder_apply exC_calls (cbuilder_new (inr exC_client)))) = Some []
  /\ match fst (consumer_create (inr exC_client) exC_calls exC_st) with
     | Ok k => k_assign k = [(tag "ghost", []); (C07Extra.xt, [])]
               /\ subscriptions k = [(C07Extra.xt, [0; 1; 2])]
               /\ k_consumed k = [((1, 1), (11, false)); ((1, 2), (7, false))]
     | _ => False
     end
  (* the same assignment without committed offsets (group-less): the fallback branch of
     load_fetch_states rejects the topic the offset answer does not mention *)
  /\ fst (consumer_create (inr exC_client) [CWithTopic C07Extra.xt; CWithTopic (tag "ghost"); CWithFallback FbLatest]
            {| script := OConn true :: C07Extra.ex_talk (C07Extra.ex_off_answer [C07Extra.ex_off_part 0 9; C07Extra.ex_off_part 1 20])
                         ++ OConn true :: C07Extra.ex_talk (C07Extra.ex_off_answer [C07Extra.ex_off_part 2 31]);
               trace := []; anyq := []; hostq := []; fetchq := []; entryq := [];
               cl := exC_client; env := env C07Extra.ex_st2 |})
     = Err (EKafka KC_UnknownTopicOrPartition).
Proof. vm_compute. repeat split. Qed.

(* ================================================================================== *)
(* 3. a consumer built from hosts: the metadata step on the wire                       *)
(* ================================================================================== *)

(* Consumer::from_hosts: once the builder's configuration is installed, create runs load_metadata_all;
   whatever comes back, every write of that step is a send of the frame of ONE request, the
   MetadataRequest with an EMPTY topic list (= all topics), the next correlation id and the builder's
   client id; if the step fails, create fails with its error in the state the step left behind,
   otherwise it continues there (resolution against the metadata of that state: C19_create_unknown,
   C19_create_resolves) *)
Theorem C19_create_hosts_metadata_wire : forall hs calls s wait,
  let b := fold_left cbuilder_apply calls (cbuilder_new (inl hs)) in
  let x := create_start (inl hs) calls s wait in
  cb_assign b <> [] -> to_millis_i32 (cb_max_wait b) = Ok wait ->
  exists r1 x1,
    load_metadata_all x = (r1, x1)
    /\ C09ExtraB.wire (C09ExtraB.FR (enc_metadata_req (C09Extra.stepc (C09Extra.corr_of s))
                                        (match cb_client_id b with Some id => id | None => client_id (cfg (cl s)) end) []))
                      x x1
    /\ match r1 with
       | Ok _ => consumer_create (inl hs) calls s = consumer_create_rest (inl hs) b x
                 /\ create_metadata (inl hs) x = (Ok tt, x1)
       | Err e => consumer_create (inl hs) calls s = (Err e, x1)
       | Panic w => consumer_create (inl hs) calls s = (Panic w, x1)
       end.
Proof.
  intros hs calls s wait b x Hne Hw.
  destruct (load_metadata_all x) as [r1 x1] eqn:E. exists r1, x1. split; [reflexivity|]. split.
  - apply C09ExtraB.C09_load_metadata_all_wire in E. exact E.
  - assert (Hcfg : consumer_create (inl hs) calls s = consumer_create_rest (inl hs) b x)
      by exact (C16_consumer_create_config (inl hs) calls s wait Hne Hw).
    destruct r1 as [u|e|w].
    + split; [exact Hcfg|]. destruct u. exact E.
    + rewrite Hcfg. unfold consumer_create_rest. unfold mbind at 1. cbv beta iota. rewrite E. reflexivity.
    + rewrite Hcfg. unfold consumer_create_rest. unfold mbind at 1. cbv beta iota. rewrite E. reflexivity.
Qed.

(* non-vacuity: from_hosts [h:9092], with_topic a, with_client_id "me"; one broker answers the metadata
   request (topic a, partitions 0 and 1) and nothing more: the single write of the metadata step is the
   14 + 2 byte all-topics request, and a is resolved against the two partitions just loaded *)
Definition exC_mpart (p : Z) : bytes :=
  enc_i16 0 ++ enc_i32 p ++ enc_i32 1 ++ enc_i32 1 ++ enc_i32 1 ++ enc_i32 1 ++ enc_i32 1.
Definition exC_md_reply : bytes :=
  enc_i32 1 ++ enc_i32 1 ++ (enc_i32 1 ++ enc_i16 1 ++ tag "h" ++ enc_i32 9092)
  ++ enc_i32 1 ++ (enc_i16 0 ++ enc_i16 1 ++ tag "a" ++ enc_i32 2 ++ exC_mpart 0 ++ exC_mpart 1).
Definition exC_hosts_st : st :=
  {| script := [OConn true; OWrote 1000; OData (enc_i32 (ulen exC_md_reply)); OData exC_md_reply];
     trace := []; anyq := []; hostq := []; fetchq := []; entryq := [];
     cl := client_new [tag "h:9092"]; env := env C07Extra.ex_st2 |}.

Example C19_create_hosts_metadata_wire_ex :
  let calls := [CWithTopic (tag "a"); CWithClientId (tag "me")] in
  let x1 := snd (load_metadata_all (create_start (inl [tag "h:9092"]) calls exC_hosts_st 100)) in
  fst (load_metadata_all (create_start (inl [tag "h:9092"]) calls exC_hosts_st 100)) = Ok tt
  /\ rev (trace x1)
     = [EConnect (tag "h:9092");
        EWrite (tag "h:9092") (enc_i32 16 ++ enc_i16 3 ++ enc_i16 0 ++ enc_i32 1 ++ enc_i16 2 ++ tag "me" ++ enc_i32 0);
        ERead (tag "h:9092") 4; ERead (tag "h:9092") (ulen exC_md_reply)]
  /\ partitions_for (cs (cl x1)) (tag "a") = Some [0; 0]
  /\ fst (consumer_create (inl [tag "h:9092"]) [CWithTopic (tag "ghost"); CWithClientId (tag "me")] exC_hosts_st)
     = Err (EKafka KC_UnknownTopicOrPartition).
Proof. vm_compute. repeat split. Qed.

Check C19_marks_of_answer.
Check C19_create_group_marks.
Check C19_history_group_query.
Check C19_subscriptions_nonempty.
Check C19_subscriptions_topic.
Check C19_create_zero_partitions.
Check C19_create_hosts_metadata_wire.

Print Assumptions C19_marks_of_answer.
Print Assumptions C19_create_group_marks.
Print Assumptions C19_history_group_query.
Print Assumptions C19_subscriptions_nonempty.
Print Assumptions C19_subscriptions_topic.
Print Assumptions C19_create_zero_partitions.
Print Assumptions C19_create_hosts_metadata_wire.
