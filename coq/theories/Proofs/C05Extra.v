(* C05, additional theorems (mutation adequacy).  The theorems of Props/C05.v are all relative to an
   arbitrary client state `s` (routing is "whatever find_broker s says"), to an arbitrary pair
   (acks, timeout) and stop at the request MAP `produce_reqs`; none of them speaks about
     (1) what update_metadata makes find_broker answer          (seeded change C05-2),
     (2) where the producer's acks / ack timeout come from       (seeded change C05-3),
     (3) the BYTES of a produce request                          (seeded change C05, and the clause
         "carrying the configured acks and timeout").
   This file closes (1) and (2); C05Extra2.v closes (3).

   Part A  C05_created_producer_timeout / _acks / _defaults: the producer built by Builder::create carries the
           argument of the LAST with_ack_timeout / with_required_acks call, whatever other calls
           (with_partitioner included) surround it.
   Part B  C05_route_by_partition_id: after a metadata load, find_broker t p is the address of the broker whose
           node id the response lists as leader FOR THE ENTRY WITH pm_id = p (not for the p-th entry);
           C05_produce_after_load: the produce request map built after the load sends the records of t/p to
           exactly that address; C05_leaderless_after_load_fails: a record for a partition whose listed
           leader is not a known broker fails the call with UnknownTopicOrPartition, trace untouched. *)
From Coq Require Import ZifyBool Sorting.Permutation.
From KV Require Import Base.Prelude Gen.Consts Model.Codecs Model.Requests Model.Responses
                       Model.ClientState Model.Net Model.Client Model.Producer.
From KV Require Import Proofs.BytesFacts Proofs.C20Facts Proofs.C05Facts Proofs.C06Facts Proofs.C16Facts.

(* ================================================================================================== *)
(* Part A: the configured acks and timeout of a producer (seed C05-3)                                  *)
(* ================================================================================================== *)

Lemma fold_ack_timeout_last src l1 d l2 :
  Forall (fun c => psets_ack_timeout c = None) l2 ->
  pb_ack_timeout (fold_left pbuilder_apply (l1 ++ PWithAckTimeout d :: l2) (pbuilder_new src)) = d.
Proof.
  intros H. destruct (C16_producer_last_wins src) as (_ & [_ Hl] & _).
  apply (Hl l1 (PWithAckTimeout d) l2 d); [reflexivity|exact H].
Qed.

Lemma fold_acks_last src l1 a l2 :
  Forall (fun c => psets_acks c = None) l2 ->
  pb_acks (fold_left pbuilder_apply (l1 ++ PWithAcks a :: l2) (pbuilder_new src)) = a.
Proof.
  intros H. destruct (C16_producer_last_wins src) as (_ & _ & _ & [_ Hl] & _).
  apply (Hl l1 (PWithAcks a) l2 a); [reflexivity|exact H].
Qed.

(* the ack timeout of the created producer is the millisecond value of the argument of the last
   with_ack_timeout call: calls that come later and set something else - with_partitioner, the idle
   timeout, ... - do not disturb it, and neither does anything before it *)
Theorem C05_created_producer_timeout : forall src l1 d l2 x p x',
  Forall (fun c => psets_ack_timeout c = None) l2 ->
  producer_create src (l1 ++ PWithAckTimeout d :: l2) x = (Ok p, x') ->
  to_millis_i32 d = Ok (p_ack_timeout p).
Proof.
  intros src l1 d l2 x p x' Hl2 H.
  destruct (C16_producer_create_uses _ _ _ _ _ H) as (_ & Ht & _). cbv zeta in Ht.
  rewrite (fold_ack_timeout_last src l1 d l2 Hl2) in Ht. exact Ht.
Qed.

Theorem C05_created_producer_acks : forall src l1 a l2 x p x',
  Forall (fun c => psets_acks c = None) l2 ->
  producer_create src (l1 ++ PWithAcks a :: l2) x = (Ok p, x') ->
  p_acks p = a.
Proof.
  intros src l1 a l2 x p x' Hl2 H.
  destruct (C16_producer_create_uses _ _ _ _ _ H) as (Ha & _ & _). cbv zeta in Ha.
  rewrite (fold_acks_last src l1 a l2 Hl2) in Ha. exact Ha.
Qed.

(* no with_ack_timeout / with_required_acks call at all: the documented defaults *)
Theorem C05_created_producer_defaults : forall src calls x p x',
  producer_create src calls x = (Ok p, x') ->
  (Forall (fun c => psets_ack_timeout c = None) calls -> p_ack_timeout p = DEFAULT_ACK_TIMEOUT_MILLIS)
  /\ (Forall (fun c => psets_acks c = None) calls -> p_acks p = DEFAULT_REQUIRED_ACKS).
Proof.
  intros src calls x p x' H.
  destruct (C16_producer_create_uses _ _ _ _ _ H) as (Ha & Ht & _). cbv zeta in Ha, Ht.
  destruct (C16_producer_last_wins src) as (_ & [Hn1 _] & _ & [Hn2 _] & _). split; intros Hc.
  - rewrite (Hn1 calls Hc) in Ht. change (to_millis_i32 (pb_ack_timeout (pbuilder_new src)))
      with (Ok (A:=Z) DEFAULT_ACK_TIMEOUT_MILLIS) in Ht. injection Ht as <-. reflexivity.
  - rewrite (Hn2 calls Hc) in Ha. exact Ha.
Qed.

(* non-vacuity: the builder chain of the seeded demonstration (ack timeout 1.5 s, acks -1, then a long
   idle timeout and with_partitioner LAST), built around an existing client, no I/O needed *)
Definition c05x_st : st :=
  {| script := []; trace := []; anyq := []; hostq := []; fetchq := []; entryq := [];
     cl := c20_client 1; env := c20_env |}.

Example C05_created_producer_timeout_ex :
  let calls := [PWithAckTimeout (1, 500000000); PWithAcks (-1); PWithIdle (420, 0); PWithPartitioner] in
  match producer_create (inr (c20_client 1)) calls c05x_st with
  | (Ok p, x') => (p_ack_timeout p, p_acks p, idle_timeout (cfg (cl x'))) = (1500, -1, (420, 0))
  | _ => False
  end
  /\ Forall (fun c => psets_ack_timeout c = None) [PWithAcks (-1); PWithIdle (420, 0); PWithPartitioner]
  /\ to_millis_i32 (1, 500000000) = Ok 1500.
Proof. vm_compute. split; [reflexivity|]. split; [repeat constructor|reflexivity]. Qed.

Example C05_created_producer_defaults_ex :
  match producer_create (inr (c20_client 1)) [PWithPartitioner; PWithIdle (600, 0)] c05x_st with
  | (Ok p, _) => (p_ack_timeout p, p_acks p) = (30000, 1)
  | _ => False
  end.
Proof. vm_compute. reflexivity. Qed.

(* ================================================================================================== *)
(* Part B: the leader a metadata load records for partition id p (seed C05-2)                          *)
(* ================================================================================================== *)

Lemma listed_leader_in pms i : forall l, listed_leader pms i = Some l -> In i (map pm_id pms).
Proof.
  induction pms as [|pm r IH]; intros l; cbn [listed_leader map In]; [discriminate|].
  destruct (listed_leader r i) as [l'|].
  - intros _. right. apply (IH l'). reflexivity.
  - destruct (pm_id pm =? i) eqn:E; [|discriminate]. intros _. left. lia.
Qed.

Lemma nth_z_iota n p : 0 <= p < Z.of_nat n -> nth_z (iota_z n 0) p = Some p.
Proof.
  intros Hp. apply nth_z_some. split; [lia|]. rewrite iota_nth by lia. f_equal. lia.
Qed.

Lemma nth_z_out {A} (l : list A) p : ~ (0 <= p < ulen l) -> nth_z l p = None.
Proof.
  intros H. unfold nth_z. destruct ((p <? 0) || (ulen l <=? p)) eqn:E; [reflexivity|lia].
Qed.

(* what the freshly loaded state answers for (t, p) when the response mentions t: the entry of the topic
   whose pm_id is p decides (the last such entry, and the last listing of the topic, if there are
   several); the leader's address is the one this response advertises for that node id, else the one
   known before; a leader that is no known broker, or an id the response does not list: no address *)
Theorem C05_route_by_partition_id : forall s md s' t tm p,
  inv s -> wf_md md -> small s' -> update_metadata s md = Ok s' ->
  last_topic (md_topics md) t = Some tm ->
  find_broker s' t p
  = match listed_leader (tm_partitions tm) p with
    | Some l => match last_broker (md_brokers md) l with
                | Some bm => Some (host_port (bm_host bm) (bm_port bm))
                | None => assoc_z l (map bpair (brokers s))
                end
    | None => None
    end.
Proof.
  intros s md s' t tm p Hinv Hwf Hsmall Hup Ht.
  rewrite (C06_routing s' t p (C06_inv_step s md s' Hinv Hup)).
  rewrite (C06_refines s md s' Hinv Hwf Hsmall Hup).
  rewrite C06_merge_topic_lookup, Ht.
  set (H := a_host (merge (abs s) md)).
  assert (HH : forall l, assoc_z l H = match last_broker (md_brokers md) l with
                                       | Some bm => Some (host_port (bm_host bm) (bm_port bm))
                                       | None => assoc_z l (map bpair (brokers s)) end).
  { intros l. unfold H. rewrite C06_merge_host_lookup. reflexivity. }
  unfold leader_vec. rewrite nth_z_map.
  assert (Hwt : wf_topic tm).
  { unfold wf_md in Hwf. rewrite Forall_forall in Hwf. apply Hwf.
    clear - Ht. induction (md_topics md) as [|tm0 r IH]; cbn [last_topic] in Ht; [discriminate|].
    destruct (last_topic r t) as [x|].
    - injection Ht as ->. right. apply IH. reflexivity.
    - destruct (bytes_eqb (tm_topic tm0) t); [|discriminate]. injection Ht as ->. left. reflexivity. }
  destruct (Z_lt_dec p 0) as [Hneg|Hnn]; [|destruct (Z_lt_dec p (Z.of_nat (length (tm_partitions tm)))) as [Hlt|Hge]].
  - rewrite nth_z_out by (unfold ulen; rewrite iota_length; lia). cbn [option_map].
    destruct (listed_leader (tm_partitions tm) p) as [l|] eqn:El; [|reflexivity].
    apply listed_leader_in in El. unfold wf_topic in Hwt.
    apply (Permutation_in _ Hwt) in El. apply iota_in in El. lia.
  - rewrite nth_z_iota by lia. cbn [option_map].
    destruct (listed_leader (tm_partitions tm) p) as [l|]; [|reflexivity].
    rewrite <- HH. unfold known_leader, known. destruct (assoc_z l H) as [a|] eqn:Ea; [exact Ea|reflexivity].
  - rewrite nth_z_out by (unfold ulen; rewrite iota_length; lia). cbn [option_map].
    destruct (listed_leader (tm_partitions tm) p) as [l|] eqn:El; [|reflexivity].
    apply listed_leader_in in El. unfold wf_topic in Hwt.
    apply (Permutation_in _ Hwt) in El. apply iota_in in El. lia.
Qed.

(* ... and therefore the records of t/p of a batch produced after the load go, all of them and in batch
   order, into the request for the address the response advertises for the leader listed for id p -
   and no other request contains anything for t/p *)
Theorem C05_produce_after_load : forall s md s' t tm p l bm msgs reqs,
  inv s -> wf_md md -> small s' -> update_metadata s md = Ok s' ->
  last_topic (md_topics md) t = Some tm ->
  listed_leader (tm_partitions tm) p = Some l ->
  last_broker (md_brokers md) l = Some bm ->
  produce_reqs s' msgs [] = Some reqs ->
  msgs_for reqs (host_port (bm_host bm) (bm_port bm)) t p
  = map pmsg_of (filter (fun m => bytes_eqb (pq_topic m) t && (pq_partition m =? p)) msgs)
  /\ forall host, host <> host_port (bm_host bm) (bm_port bm) -> msgs_for reqs host t p = [].
Proof.
  intros s md s' t tm p l bm msgs reqs Hinv Hwf Hsmall Hup Ht Hl Hb Hreqs.
  pose proof (C05_route_by_partition_id s md s' t tm p Hinv Hwf Hsmall Hup Ht) as Hr.
  rewrite Hl, Hb in Hr. split.
  - apply (C05_leader_gets_all s' msgs reqs Hreqs). exact Hr.
  - intros host Hne. apply (C05_no_other_broker s' msgs reqs Hreqs). rewrite Hr. intros E. injection E as E.
    apply Hne. symmetry. exact E.
Qed.

(* a partition whose listed leader is not a broker the client knows of (neither advertised by this
   response nor known before: "leaderless", leader -1 in practice): a batch with a record for it fails as a
   whole with UnknownTopicOrPartition; nothing is connected, written or read *)
Theorem C05_leaderless_after_load_fails : forall s md s' t tm p l msgs m acks timeout x,
  inv s -> wf_md md -> small s' -> update_metadata s md = Ok s' ->
  last_topic (md_topics md) t = Some tm ->
  listed_leader (tm_partitions tm) p = Some l ->
  last_broker (md_brokers md) l = None -> assoc_z l (map bpair (brokers s)) = None ->
  In m msgs -> pq_topic m = t -> pq_partition m = p ->
  cs (cl x) = s' ->
  internal_produce_messages acks timeout msgs x = (Err (EKafka KC_UnknownTopicOrPartition), bump_corr x)
  /\ trace (bump_corr x) = trace x /\ script (bump_corr x) = script x.
Proof.
  intros s md s' t tm p l msgs m acks timeout x Hinv Hwf Hsmall Hup Ht Hl Hb Hold Hm Hmt Hmp Hx.
  pose proof (C05_route_by_partition_id s md s' t tm p Hinv Hwf Hsmall Hup Ht) as Hr.
  rewrite Hl, Hb, Hold in Hr.
  split; [|split; reflexivity].
  pose proof (C05_call_unfold acks timeout msgs x) as Hc. rewrite Hx in Hc.
  rewrite (C06_produce_unavailable s' msgs [] m Hm) in Hc; [exact Hc|]. rewrite Hmt, Hmp. exact Hr.
Qed.

(* non-vacuity: the layout of the seeded demonstration.  Brokers 1 = b1:9092, 2 = b2:9092; topic t listed
   as [(id 1, leader 2); (id 0, leader 1)] (out of id order), topic u listed in order. *)
Definition c05x_md : metadata_resp :=
  {| md_corr := 1; md_brokers := [ex_bm 1 (tag "b1") 9092; ex_bm 2 (tag "b2") 9092];
     md_topics := [ex_tm (tag "t") [ex_pm 1 2; ex_pm 0 1]; ex_tm (tag "u") [ex_pm 0 1; ex_pm 1 2]] |}.
Definition c05x_s : cstate := ex_load cstate_new c05x_md.
Definition c05x_msg t p v : produce_message :=
  {| pq_topic := t; pq_partition := p; pq_key := None; pq_value := Some v |}.
Definition c05x_batch : list produce_message :=
  [c05x_msg (tag "t") 0 (tag "a0"); c05x_msg (tag "t") 1 (tag "b0"); c05x_msg (tag "t") 0 (tag "a1");
   c05x_msg (tag "u") 0 (tag "c0"); c05x_msg (tag "u") 1 (tag "d0")].

Example C05_route_by_partition_id_ex :
  update_metadata cstate_new c05x_md = Ok c05x_s /\ small c05x_s
  /\ last_topic (md_topics c05x_md) (tag "t") = Some (ex_tm (tag "t") [ex_pm 1 2; ex_pm 0 1])
  /\ listed_leader [ex_pm 1 2; ex_pm 0 1] 0 = Some 1 /\ listed_leader [ex_pm 1 2; ex_pm 0 1] 1 = Some 2
  /\ find_broker c05x_s (tag "t") 0 = Some (tag "b1:9092") /\ find_broker c05x_s (tag "t") 1 = Some (tag "b2:9092")
  /\ find_broker c05x_s (tag "t") 2 = None
  /\ produce_reqs c05x_s c05x_batch []
     = Some [ (tag "b1:9092", [ (tag "t", [(0, [(None, Some (tag "a0")); (None, Some (tag "a1"))])]);
                                (tag "u", [(0, [(None, Some (tag "c0"))])]) ]);
              (tag "b2:9092", [ (tag "t", [(1, [(None, Some (tag "b0"))])]);
                                (tag "u", [(1, [(None, Some (tag "d0"))])]) ]) ].
Proof. vm_compute. repeat split; try reflexivity. discriminate. Qed.

Lemma c05x_wf : wf_md c05x_md.
Proof.
  unfold wf_md, c05x_md. cbn [md_topics]. constructor; [|constructor; [|constructor]];
    unfold wf_topic; cbn [tm_partitions ex_tm map pm_id ex_pm length iota_z].
  - apply perm_swap.
  - apply Permutation_refl.
Qed.

(* the second seeded demonstration: t listed as [(2, leader 2); (0, leader 1); (1, leader -1)] *)
Definition c05x_md2 : metadata_resp :=
  {| md_corr := 1; md_brokers := [ex_bm 1 (tag "b1") 9092; ex_bm 2 (tag "b2") 9092];
     md_topics := [ex_tm (tag "t") [ex_pm 2 2; ex_pm 0 1; ex_pm 1 (-1)]] |}.
Definition c05x_st2 : st :=
  {| script := [OConn true; OWrote 1000]; trace := []; anyq := []; hostq := []; fetchq := []; entryq := [];
     cl := {| cfg := default_config []; cs := ex_load cstate_new c05x_md2; conns := [] |}; env := c20_env |}.

Example C05_leaderless_after_load_fails_ex :
  listed_leader [ex_pm 2 2; ex_pm 0 1; ex_pm 1 (-1)] 1 = Some (-1)
  /\ last_broker (md_brokers c05x_md2) (-1) = None
  /\ internal_produce_messages 1 1500 [c05x_msg (tag "t") 0 (tag "a0"); c05x_msg (tag "t") 1 (tag "b0")] c05x_st2
     = (Err (EKafka KC_UnknownTopicOrPartition), bump_corr c05x_st2)
  /\ find_broker (cs (cl c05x_st2)) (tag "t") 0 = Some (tag "b1:9092")
  /\ find_broker (cs (cl c05x_st2)) (tag "t") 2 = Some (tag "b2:9092").
Proof. vm_compute. repeat split; reflexivity. Qed.

Check C05_created_producer_timeout.
Check C05_created_producer_acks.
Check C05_created_producer_defaults.
Check C05_route_by_partition_id.
Check C05_produce_after_load.
Check C05_leaderless_after_load_fails.

Print Assumptions C05_created_producer_timeout.
Print Assumptions C05_created_producer_acks.
Print Assumptions C05_created_producer_defaults.
Print Assumptions C05_route_by_partition_id.
Print Assumptions C05_produce_after_load.
Print Assumptions C05_leaderless_after_load_fails.
