(* C16, second adequacy pass: "idle time-out in behaviour".

   Seed C16-4 changes the bookkeeping of network::Connections::get_conn (last_checkout is only written
   when a connection is established), so that the configured idle time-out acts as a maximum connection
   AGE.  The model has no clock: Model/Net.v abstracts `now - last_checkout >= idle_timeout` to
   `idle_expired` = "the configured time-out is zero" (a zero time-out has always expired, any other
   one never does during a run).  `last_checkout` has no counterpart, so the seeded change cannot be
   mirrored in the model (real time).  What the model CAN express - and what Props/C16.v did not say
   at all (its theorems stop at "cfg carries the value"; `write_ok` is `True` on connects and
   shutdowns) - is the behaviour the configured value selects:

   (A) time-out <> 0: no operation of the client, the producer, the consumer or the two
       Builder::create ever shuts a connection down, connects only to hosts that are not pooled, and
       never drops a host from the pool - and so over any HISTORY of such calls a host, once pooled,
       is never connected to again (this is the statement the harness oracle "op N reconnects to h
       although the idle time-out is 3 s" tests against the real code with real time);
   (B) time-out = 0: every checkout (get_conn, get_conn_any, and so every send_receive) starts with a
       fresh connect, a pooled host's old connection being shut down;
   (C) the converse: a checkout of a pooled host performs any event at all only if the time-out is 0.

   A mirrored change of get_conn / get_conn_any that tears a pooled connection down under a non-zero
   time-out, or that reuses one under a zero time-out, falsifies (A) resp. (B). *)
From KV Require Import Base.Prelude Gen.ErrorCodes Gen.Consts Model.Codecs Model.Requests Model.Responses
                       Model.ClientState Model.Net Model.Client Model.Producer Model.Consumer.
From KV Require Import Proofs.BytesFacts Proofs.NetFacts Proofs.C07Facts Proofs.C19Facts Proofs.C16Facts
                       Proofs.C16Extra.
From KV Require Model.Val Model.Dispatch Proofs.C16Extra2.
From Coq Require Import ZifyBool.

(* ================================================================================== *)
(* 1. the relation                                                                    *)
(* ================================================================================== *)

(* an event that leaves every pooled connection alone: no shutdown, connects only to unpooled hosts *)
Definition calm_ev (pool : list bytes) (e : ev_op) : Prop :=
  match e with
  | EShutdown _ => False
  | EConnect h => in_pool h pool = false
  | _ => True
  end.

Definition pool_le (p q : list bytes) : Prop := forall h, in_pool h p = true -> in_pool h q = true.

(* a run from s to s' that left every pooled connection alone *)
Definition calm (s s' : st) : Prop :=
  ext s s' /\ Forall (calm_ev (conns (cl s))) (performed s s') /\
  cfg (cl s') = cfg (cl s) /\ pool_le (conns (cl s)) (conns (cl s')).

Definition Rcalm (s s' : st) : Prop := idle_expired (cfg (cl s)) = false -> calm s s'.

Lemma idle_expired_false c : idle_timeout c <> (0, 0) -> idle_expired c = false.
Proof.
  unfold idle_expired. destruct (idle_timeout c) as [a b]. cbn [fst snd]. intros H.
  destruct (a =? 0) eqn:Ea; [|reflexivity]. destruct (b =? 0) eqn:Eb; [|reflexivity].
  exfalso. apply H. f_equal; lia.
Qed.

Lemma idle_expired_true c : idle_timeout c = (0, 0) -> idle_expired c = true.
Proof. unfold idle_expired. intros ->. reflexivity. Qed.

Lemma pool_le_refl p : pool_le p p.
Proof. intros h H. exact H. Qed.

Lemma calm_ev_mono p q e : pool_le p q -> calm_ev q e -> calm_ev p e.
Proof.
  intros Hle. destruct e as [h|h b|h n|h]; cbn [calm_ev]; try (intros H; exact H).
  intros Hq. destruct (in_pool h p) eqn:Hp; [|reflexivity]. rewrite (Hle _ Hp) in Hq. discriminate Hq.
Qed.

Lemma calm_refl s : calm s s.
Proof.
  split; [apply ext_refl|]. rewrite performed_refl. split; [constructor|]. split; [reflexivity|apply pool_le_refl].
Qed.

Lemma calm_trans s s1 s2 : calm s s1 -> calm s1 s2 -> calm s s2.
Proof.
  intros (E1 & F1 & C1 & P1) (E2 & F2 & C2 & P2). split; [eapply ext_trans; eassumption|].
  rewrite (performed_app _ _ _ E1 E2). split.
  - apply Forall_app. split; [exact F1|]. eapply Forall_impl; [|exact F2]. intros e. apply calm_ev_mono. exact P1.
  - split; [congruence|]. intros h Hh. apply P2, P1, Hh.
Qed.

Lemma preorder_Rcalm : preorder Rcalm.
Proof.
  split.
  - intros s _. apply calm_refl.
  - intros s s1 s2 H1 H2 Hi. pose proof (H1 Hi) as K1. eapply calm_trans; [exact K1|]. apply H2.
    destruct K1 as (_ & _ & C1 & _). rewrite C1. exact Hi.
Qed.

(* nothing happened on the wire, configuration and pool as before *)
Definition quietc {A} (m : M A) : Prop :=
  forall s r s', m s = (r, s') ->
    script s' = script s /\ trace s' = trace s /\ cfg (cl s') = cfg (cl s) /\ conns (cl s') = conns (cl s).

Lemma calm_quiet s s' :
  script s' = script s -> trace s' = trace s -> cfg (cl s') = cfg (cl s) -> conns (cl s') = conns (cl s) -> calm s s'.
Proof.
  intros Hs Ht Hc Hp. assert (Hseg : seg s s' [] []) by (split; cbn [app rev]; congruence).
  split; [exists [], []; exact Hseg|]. rewrite (seg_performed _ _ _ _ Hseg).
  split; [constructor|]. split; [exact Hc|]. rewrite Hp. apply pool_le_refl.
Qed.

Lemma keeps_quietc {A} (m : M A) : quietc m -> keeps Rcalm m.
Proof. intros Hq s r s' H _. destruct (Hq _ _ _ H) as (A1 & A2 & A3 & A4). apply calm_quiet; assumption. Qed.

Lemma quietc_set_cs x : quietc (set_cs x).
Proof. intros s r s' H. cbv beta iota delta [set_cs mbind get_client set_client] in H. inversion H; subst. repeat split. Qed.
Lemma quietc_pop_hosts : quietc pop_hosts.
Proof. intros s r s' H. unfold pop_hosts in H. destruct (hostq s); inversion H; subst; repeat split. Qed.
Lemma quietc_pop_entries : quietc pop_entries.
Proof. intros s r s' H. unfold pop_entries in H. destruct (entryq s); inversion H; subst; repeat split. Qed.
Lemma quietc_pop_any : quietc pop_any.
Proof. intros s r s' H. unfold pop_any in H. destruct (anyq s); inversion H; subst; repeat split. Qed.

Lemma Rcalm_set_cs x : keeps Rcalm (set_cs x).
Proof. apply keeps_quietc, quietc_set_cs. Qed.
Lemma Rcalm_pop_hosts : keeps Rcalm pop_hosts.
Proof. apply keeps_quietc, quietc_pop_hosts. Qed.
Lemma Rcalm_pop_entries : keeps Rcalm pop_entries.
Proof. apply keeps_quietc, quietc_pop_entries. Qed.

(* reads and writes are calm *)
Lemma Rcalm_io op : (forall pool, calm_ev pool op) -> keeps Rcalm (io op).
Proof.
  intros HP s r s' H _. destruct (io_seg _ _ _ _ H) as [outs Hs].
  pose proof (keeps_io_same_cl op _ _ _ H) as Hcl. unfold same_cl in Hcl.
  split; [exists outs, [op]; exact Hs|]. rewrite (seg_performed _ _ _ _ Hs).
  split; [constructor; [apply HP|constructor]|]. rewrite Hcl. split; [reflexivity|apply pool_le_refl].
Qed.

Lemma Rcalm_send_request h payload : keeps Rcalm (send_request h payload).
Proof. apply (keepsR_send_request _ preorder_Rcalm h). intros b. apply Rcalm_io. intros pool. exact I. Qed.
Lemma Rcalm_get_response {A} (d : dec A) h : keeps Rcalm (get_response d h).
Proof. apply (keepsR_get_response _ preorder_Rcalm h). intros n. apply Rcalm_io. intros pool. exact I. Qed.
Lemma Rcalm_get_response_bytes h : keeps Rcalm (get_response_bytes h).
Proof. apply (keepsR_get_response_bytes _ preorder_Rcalm h). intros n. apply Rcalm_io. intros pool. exact I. Qed.

Lemma in_pool_app h p q : in_pool h (p ++ q) = in_pool h p || in_pool h q.
Proof. unfold in_pool. apply existsb_app. Qed.

(* Connections::get_conn under a time-out that has not expired: the pooled connection as it is, or one
   connect to a host that was not pooled *)
Lemma Rcalm_get_conn h : keeps Rcalm (get_conn h).
Proof.
  intros s r s' H Hidle.
  destruct (frame_get_conn h _ _ _ H) as (_ & _ & _ & _ & _ & Hcfg & _).
  pose proof (get_conn_pool h _ _ _ H) as Hpool.
  assert (Hops : ops_in (fun e => e = EConnect h /\ in_pool h (conns (cl s)) = false) s s').
  { unfold get_conn in H. unfold mbind at 1, get_client at 1 in H.
    destruct (in_pool h (conns (cl s))) eqn:Hp.
    - rewrite Hidle in H. inversion H; subst. apply preorder_ops_in.
    - refine (keeps_bind (ops_in _) _ _ (preorder_ops_in _) _ _ s r s' H).
      + apply (keepsR_new_conn _ (preorder_ops_in _) h). apply keeps_io_ops. split; reflexivity.
      + intros _. apply keeps_set_conns_ops. }
  destruct Hops as [He Hf]. split; [exact He|]. split.
  - eapply Forall_impl; [|exact Hf]. intros e [-> Hp]. exact Hp.
  - split; [exact Hcfg|]. destruct Hpool as [->|[_ ->]]; [apply pool_le_refl|].
    intros h0 Hh0. rewrite in_pool_app, Hh0. reflexivity.
Qed.

(* Connections::get_conn_any likewise: some pooled connection as it is *)
Lemma Rcalm_get_conn_any : keeps Rcalm get_conn_any.
Proof.
  intros s r s' H Hidle. unfold get_conn_any in H. unfold mbind at 1, get_client at 1 in H.
  destruct (conns (cl s)) as [|first rest] eqn:Hc; [inversion H; subst; apply calm_refl|].
  bind_inv H pick s1 H1 H2.
  - destruct (quietc_pop_any _ _ _ H1) as (A1 & A2 & A3 & A4). cbv zeta in H2. rewrite Hidle in H2.
    inversion H2; subst. apply calm_quiet; assumption.
  - destruct (quietc_pop_any _ _ _ H1) as (A1 & A2 & A3 & A4). apply calm_quiet; assumption.
  - destruct (quietc_pop_any _ _ _ H1) as (A1 & A2 & A3 & A4). apply calm_quiet; assumption.
Qed.

Lemma Rcalm_send_receive {A} (d : dec A) h payload : keeps Rcalm (send_receive d h payload).
Proof.
  unfold send_receive. apply keeps_bind; [exact preorder_Rcalm|apply Rcalm_get_conn|]. intros _.
  apply keeps_bind; [exact preorder_Rcalm|apply Rcalm_send_request|]. intros _. apply Rcalm_get_response.
Qed.

Lemma Rcalm_fail_raw {A} (e : err) : keeps Rcalm (fun s : st => (@Err A e, s)).
Proof. apply (keeps_fail Rcalm e preorder_Rcalm). Qed.

Create HintDb calm.

Ltac cm_step :=
  first
  [ apply keeps_ret; apply preorder_Rcalm
  | apply keeps_fail; apply preorder_Rcalm
  | apply keeps_mpanic; apply preorder_Rcalm
  | apply keeps_lift; apply preorder_Rcalm
  | apply keeps_get_client; apply preorder_Rcalm
  | apply keeps_get_env; apply preorder_Rcalm
  | apply keeps_get_fetch_order; apply preorder_Rcalm
  | apply Rcalm_get_conn | apply Rcalm_send_request | apply Rcalm_get_response | apply Rcalm_get_response_bytes
  | apply Rcalm_send_receive | apply Rcalm_get_conn_any | apply Rcalm_pop_hosts | apply Rcalm_pop_entries
  | apply Rcalm_set_cs | apply Rcalm_fail_raw
  | solve [auto 1 with calm]
  | apply keeps_mtry
  | apply keeps_with_fuel; intros ?
  | apply keeps_bind; [apply preorder_Rcalm| |intros ?]
  | progress cbv zeta
  | match goal with |- keeps _ (match ?x with _ => _ end) => destruct x end
  | match goal with |- keeps _ (if ?x then _ else _) => destruct x end ].
Ltac cm := repeat cm_step.

(* ================================================================================== *)
(* 2. every operation                                                                 *)
(* ================================================================================== *)

Lemma Rcalm_next_corr : keeps Rcalm next_corr.
Proof. unfold next_corr. cm. Qed.
#[export] Hint Resolve Rcalm_next_corr : calm.

Lemma Rcalm_ordered {V} (reqs : list (bytes * V)) : keeps Rcalm (ordered reqs).
Proof. unfold ordered. cm. Qed.
#[export] Hint Resolve Rcalm_ordered : calm.

Lemma Rcalm_fetch_metadata_hosts corr topics : forall hs, keeps Rcalm (fetch_metadata_hosts corr topics hs).
Proof. induction hs as [|h hs IH]; cbn [fetch_metadata_hosts]; cm; exact IH. Qed.
#[export] Hint Resolve Rcalm_fetch_metadata_hosts : calm.

Lemma Rcalm_load_metadata topics : keeps Rcalm (load_metadata topics).
Proof. unfold load_metadata, fetch_metadata. cm. Qed.
#[export] Hint Resolve Rcalm_load_metadata : calm.

Lemma Rcalm_load_metadata_all : keeps Rcalm load_metadata_all.
Proof. unfold load_metadata_all, reset_metadata. cm. Qed.
#[export] Hint Resolve Rcalm_load_metadata_all : calm.

Lemma Rcalm_offsets_exchange {P V} enc (d : dec (Z * list (bytes * list P))) (conv : P -> V + Z) pid :
  forall reqs m, keeps Rcalm (offsets_exchange enc d conv pid reqs m).
Proof. induction reqs as [|[h tps] reqs IH]; intros m; cbn [offsets_exchange]; cm; apply IH. Qed.
#[export] Hint Resolve Rcalm_offsets_exchange : calm.

Lemma Rcalm_fetch_offsets topics time : keeps Rcalm (fetch_offsets topics time).
Proof. unfold fetch_offsets. cm. Qed.
#[export] Hint Resolve Rcalm_fetch_offsets : calm.

Lemma Rcalm_list_offsets topics time : keeps Rcalm (list_offsets topics time).
Proof. unfold list_offsets. cm. Qed.

Lemma Rcalm_fetch_topic_offsets topic time : keeps Rcalm (fetch_topic_offsets topic time).
Proof. unfold fetch_topic_offsets. cm. Qed.

Lemma Rcalm_fetch_exchange corr : forall reqs acc, keeps Rcalm (fetch_exchange corr reqs acc).
Proof. induction reqs as [|[h tps] reqs IH]; intros acc; cbn [fetch_exchange]; cm; apply IH. Qed.
#[export] Hint Resolve Rcalm_fetch_exchange : calm.

Lemma Rcalm_fetch_messages input : keeps Rcalm (fetch_messages input).
Proof. unfold fetch_messages. cm. Qed.
#[export] Hint Resolve Rcalm_fetch_messages : calm.

Lemma Rcalm_produce_exchange corr acks timeout : forall reqs acc, keeps Rcalm (produce_exchange corr acks timeout reqs acc).
Proof. induction reqs as [|[h tps] reqs IH]; intros acc; cbn [produce_exchange]; cm; apply IH. Qed.
#[export] Hint Resolve Rcalm_produce_exchange : calm.

Lemma Rcalm_internal_produce_messages acks timeout msgs : keeps Rcalm (internal_produce_messages acks timeout msgs).
Proof. unfold internal_produce_messages. cm. Qed.
#[export] Hint Resolve Rcalm_internal_produce_messages : calm.

Lemma Rcalm_produce_messages acks d msgs : keeps Rcalm (produce_messages acks d msgs).
Proof. unfold produce_messages. cm. Qed.

Lemma Rcalm_group_lookup_loop group req : forall fuel attempt, keeps Rcalm (group_lookup_loop fuel group req attempt).
Proof.
  induction fuel as [|f IH]; intros attempt; cbn [group_lookup_loop]; [cm|]. unfold group_lookup_attempt. cm; apply IH.
Qed.
#[export] Hint Resolve Rcalm_group_lookup_loop : calm.

Lemma Rcalm_get_group_coordinator group : keeps Rcalm (get_group_coordinator group).
Proof. unfold get_group_coordinator. cm. Qed.
#[export] Hint Resolve Rcalm_get_group_coordinator : calm.

Lemma Rcalm_commit_loop group req : forall fuel attempt, keeps Rcalm (commit_loop fuel group req attempt).
Proof. induction fuel as [|f IH]; intros attempt; cbn [commit_loop]; cm; apply IH. Qed.
#[export] Hint Resolve Rcalm_commit_loop : calm.

Lemma Rcalm_commit_offsets group os : keeps Rcalm (commit_offsets group os).
Proof. unfold commit_offsets. cm. Qed.
#[export] Hint Resolve Rcalm_commit_offsets : calm.

Lemma Rcalm_group_fetch_loop group req : forall fuel attempt, keeps Rcalm (group_fetch_loop fuel group req attempt).
Proof. induction fuel as [|f IH]; intros attempt; cbn [group_fetch_loop]; cm; apply IH. Qed.
#[export] Hint Resolve Rcalm_group_fetch_loop : calm.

Lemma Rcalm_fetch_group_offsets group ps : keeps Rcalm (fetch_group_offsets group ps).
Proof. unfold fetch_group_offsets. cm. Qed.
#[export] Hint Resolve Rcalm_fetch_group_offsets : calm.

Lemma Rcalm_fetch_group_topic_offset group topic : keeps Rcalm (fetch_group_topic_offset group topic).
Proof. unfold fetch_group_topic_offset. cm. Qed.

Lemma Rcalm_producer_send_all p recs : keeps Rcalm (producer_send_all p recs).
Proof. unfold producer_send_all. cm. Qed.
#[export] Hint Resolve Rcalm_producer_send_all : calm.

Lemma Rcalm_producer_send p r : keeps Rcalm (producer_send p r).
Proof. unfold producer_send. cm. Qed.

Lemma Rcalm_consumer_poll k : keeps Rcalm (consumer_poll k).
Proof. unfold consumer_poll, consumer_fetch. cm. Qed.

Lemma Rcalm_commit_consumed k : keeps Rcalm (commit_consumed k).
Proof. unfold commit_consumed. cm. Qed.

Lemma Rcalm_producer_create_rest src b t : keeps Rcalm (producer_create_rest src b t).
Proof. unfold producer_create_rest. cm. Qed.

Lemma Rcalm_consumer_create_rest src b : keeps Rcalm (consumer_create_rest src b).
Proof.
  unfold consumer_create_rest, load_consumed_offsets, load_fetch_states, load_partition_offsets. cm.
Qed.

(* ================================================================================== *)
(* 3. (A) a time-out other than zero: every operation leaves pooled connections alone *)
(* ================================================================================== *)

(* started under a non-zero idle time-out, the run shuts nothing down, connects only to hosts that were
   not pooled, keeps the configuration and every pooled host - whatever the script answers, whatever
   the outcome *)
Definition stays_connected {A} (m : M A) : Prop :=
  forall s r s', m s = (r, s') -> idle_timeout (cfg (cl s)) <> (0, 0) -> calm s s'.

Lemma stays_of_keeps {A} (m : M A) : keeps Rcalm m -> stays_connected m.
Proof. intros Hk s r s' H Hi. apply (Hk _ _ _ H). apply idle_expired_false, Hi. Qed.

Theorem C16_idle_client_ops :
  (forall topics, stays_connected (load_metadata topics)) /\
  stays_connected load_metadata_all /\
  (forall topics time, stays_connected (fetch_offsets topics time)) /\
  (forall topics time, stays_connected (list_offsets topics time)) /\
  (forall topic time, stays_connected (fetch_topic_offsets topic time)) /\
  (forall input, stays_connected (fetch_messages input)) /\
  (forall acks d msgs, stays_connected (produce_messages acks d msgs)) /\
  (forall group os, stays_connected (commit_offsets group os)) /\
  (forall group ps, stays_connected (fetch_group_offsets group ps)) /\
  (forall group topic, stays_connected (fetch_group_topic_offset group topic)).
Proof.
  repeat match goal with |- _ /\ _ => split end; intros; apply stays_of_keeps.
  - apply Rcalm_load_metadata.
  - apply Rcalm_load_metadata_all.
  - apply Rcalm_fetch_offsets.
  - apply Rcalm_list_offsets.
  - apply Rcalm_fetch_topic_offsets.
  - apply Rcalm_fetch_messages.
  - apply Rcalm_produce_messages.
  - apply Rcalm_commit_offsets.
  - apply Rcalm_fetch_group_offsets.
  - apply Rcalm_fetch_group_topic_offset.
Qed.

Theorem C16_idle_producer_ops : forall p,
  (forall recs, stays_connected (producer_send_all p recs)) /\ (forall r, stays_connected (producer_send p r)).
Proof.
  intros p. split; intros; apply stays_of_keeps; [apply Rcalm_producer_send_all|apply Rcalm_producer_send].
Qed.

Theorem C16_idle_consumer_ops : forall k,
  stays_connected (consumer_poll k) /\ stays_connected (commit_consumed k).
Proof. intros k. split; apply stays_of_keeps; [apply Rcalm_consumer_poll|apply Rcalm_commit_consumed]. Qed.

(* the connection layer itself, with the exact outcome: a pooled host under a non-zero time-out is
   handed out as it is - no event, no change of state *)
Theorem C16_idle_pooled_reuse : forall h s,
  in_pool h (conns (cl s)) = true -> idle_timeout (cfg (cl s)) <> (0, 0) -> get_conn h s = (Ok tt, s).
Proof.
  intros h s Hp Hi. unfold get_conn. unfold mbind at 1, get_client at 1.
  rewrite Hp, (idle_expired_false _ Hi). reflexivity.
Qed.

(* ---- Builder::create: the builder's idle time-out is in force while create itself talks to the
        brokers, and is the one the producer / consumer carries --------------------------------------- *)
Theorem C16_idle_producer_create : forall src calls s r s',
  producer_create src calls s = (r, s') ->
  let b := fold_left pbuilder_apply calls (pbuilder_new src) in
  pb_idle b <> (0, 0) ->
  ext s s' /\ Forall (calm_ev (conns (cl s))) (performed s s') /\ pool_le (conns (cl s)) (conns (cl s')) /\
  idle_timeout (cfg (cl s')) = pb_idle b /\
  (forall p, r = Ok p -> idle_timeout (cfg (p_client p)) = pb_idle b).
Proof.
  intros src calls s r s' H b Hi.
  set (s0 := st_with_client s {| cfg := cfg_set_producer (cfg (cl s)) b; cs := cs (cl s); conns := conns (cl s) |}).
  destruct (C16_duration_total (pb_ack_timeout b)) as [[t Ht]|Ht].
  - rewrite (C16_producer_create_config src calls s t Ht) in H. fold b in H. fold s0 in H.
    assert (Hi0 : idle_expired (cfg (cl s0)) = false) by (apply idle_expired_false; exact Hi).
    destruct (Rcalm_producer_create_rest src b t s0 r s' H Hi0) as (E & F & C & P).
    split; [exact E|]. split; [exact F|]. split; [exact P|]. split; [rewrite C; reflexivity|].
    intros p ->. destruct (producer_create_rest_client _ _ _ _ _ _ H) as (Hp & _). rewrite Hp, C. reflexivity.
  - rewrite (C16_producer_create_invalid_duration src calls s Ht) in H. fold b in H. fold s0 in H.
    inversion H; subst. assert (Hseg : seg s s0 [] []) by (split; reflexivity).
    split; [exists [], []; exact Hseg|]. rewrite (seg_performed _ _ _ _ Hseg).
    split; [constructor|]. split; [apply pool_le_refl|]. split; [reflexivity|]. intros p Hp. discriminate Hp.
Qed.

Theorem C16_idle_consumer_create : forall src calls s r s',
  consumer_create src calls s = (r, s') ->
  let b := fold_left cbuilder_apply calls (cbuilder_new src) in
  cb_idle b <> (0, 0) ->
  ext s s' /\ Forall (calm_ev (conns (cl s))) (performed s s') /\ pool_le (conns (cl s)) (conns (cl s')) /\
  (forall k, r = Ok k -> idle_timeout (cfg (k_client k)) = cb_idle b /\ idle_timeout (cfg (cl s')) = cb_idle b).
Proof.
  intros src calls s r s' H b Hi.
  assert (Hnone : forall e, (r, s') = (Err e, s) ->
            ext s s' /\ Forall (calm_ev (conns (cl s))) (performed s s') /\ pool_le (conns (cl s)) (conns (cl s')) /\
            (forall k, r = Ok k -> idle_timeout (cfg (k_client k)) = cb_idle b /\ idle_timeout (cfg (cl s')) = cb_idle b)).
  { intros e He. inversion He; subst. destruct (calm_refl s) as (E & F & _ & P).
    split; [exact E|]. split; [exact F|]. split; [exact P|]. intros k Hk. discriminate Hk. }
  destruct (cb_assign b) as [|a0 ar] eqn:Ea.
  - apply (Hnone ENoTopicsAssigned). rewrite <- H. unfold consumer_create. fold b. cbv zeta. rewrite Ea. reflexivity.
  - assert (Ha : cb_assign b <> []) by (rewrite Ea; discriminate).
    destruct (C16_duration_total (cb_max_wait b)) as [[wait Hw]|Hw].
    + rewrite (C16_consumer_create_config src calls s wait Ha Hw) in H. fold b in H.
      set (s0 := st_with_client s {| cfg := cfg_set_consumer (cfg (cl s)) b wait; cs := cs (cl s); conns := conns (cl s) |}) in *.
      assert (Hi0 : idle_expired (cfg (cl s0)) = false) by (apply idle_expired_false; exact Hi).
      destruct (Rcalm_consumer_create_rest src b s0 r s' H Hi0) as (E & F & C & P).
      split; [exact E|]. split; [exact F|]. split; [exact P|].
      intros k ->. rewrite (consumer_create_rest_client _ _ _ _ _ H), C. split; reflexivity.
    + apply (Hnone EInvalidDuration). rewrite <- H. apply (C16_consumer_create_invalid_duration src calls s Ha Hw).
Qed.

(* ================================================================================== *)
(* 4. (A) over a HISTORY of calls on one client / producer / consumer                  *)
(* ================================================================================== *)

(* a call of any result type; a history runs each call in the state the previous one left behind,
   whatever its outcome (as an application - and the harness - does) *)
Definition step : Type := { A : Type & M A }.
Definition mk {A} (m : M A) : step := existT (fun A => M A) A m.
Definition run1 (s : st) (x : step) : st := snd (projT2 x s).
Definition run_all (xs : list step) (s : st) : st := fold_left run1 xs s.
Definition step_stays (x : step) : Prop := stays_connected (projT2 x).

Theorem C16_idle_history : forall xs s,
  Forall step_stays xs -> idle_timeout (cfg (cl s)) <> (0, 0) -> calm s (run_all xs s).
Proof.
  induction xs as [|x xs IH]; intros s Hall Hi; [apply calm_refl|].
  inversion Hall as [|x0 xs0 Hx Hxs]; subst. change (run_all (x :: xs) s) with (run_all xs (run1 s x)).
  assert (H1 : calm s (run1 s x)).
  { apply (Hx s (fst (projT2 x s)) (run1 s x)); [apply surjective_pairing|exact Hi]. }
  eapply calm_trans; [exact H1|]. apply IH; [exact Hxs|]. destruct H1 as (_ & _ & C & _). rewrite C. exact Hi.
Qed.

(* the seeded scenario: however many calls follow and however they are spaced, a host that is pooled
   is never connected to again and no connection is ever shut down, as long as the configured idle
   time-out is not zero (the model's reading of "the connection was never idle for that long") *)
Theorem C16_idle_never_reconnects : forall xs s h,
  Forall step_stays xs -> idle_timeout (cfg (cl s)) <> (0, 0) -> in_pool h (conns (cl s)) = true ->
  let s' := run_all xs s in
  ~ In (EConnect h) (performed s s') /\ (forall h', ~ In (EShutdown h') (performed s s')) /\
  in_pool h (conns (cl s')) = true /\ idle_timeout (cfg (cl s')) = idle_timeout (cfg (cl s)).
Proof.
  intros xs s h Hall Hi Hp s'. destruct (C16_idle_history xs s Hall Hi) as (_ & F & C & P). fold s' in F, C, P.
  rewrite Forall_forall in F. split; [|split; [|split]].
  - intros Hin. apply F in Hin. cbn [calm_ev] in Hin. rewrite Hp in Hin. discriminate Hin.
  - intros h' Hin. apply F in Hin. exact Hin.
  - apply P, Hp.
  - rewrite C. reflexivity.
Qed.

(* ================================================================================== *)
(* 5. (B) a zero time-out: every checkout is a fresh connection; (C) the converse      *)
(* ================================================================================== *)

Lemma idle_expired_iff c : idle_expired c = true <-> idle_timeout c = (0, 0).
Proof.
  split; [|apply idle_expired_true]. unfold idle_expired. destruct (idle_timeout c) as [a b]. cbn [fst snd].
  intros H. apply andb_prop in H. destruct H as [Ha Hb]. f_equal; lia.
Qed.

Lemma new_conn_seg h s r s1 : new_conn h s = (r, s1) -> exists outs, seg s s1 outs [EConnect h].
Proof.
  intros H. unfold new_conn in H. bind_inv H o s0 H1 H2.
  - destruct (io_seg _ _ _ _ H1) as [outs Hs]. exists outs.
    destruct o as [[|]|k| |e|bs| |e|]; inversion H2; subst; exact Hs.
  - destruct (io_seg _ _ _ _ H1) as [outs Hs]. exists outs. exact Hs.
  - destruct (io_seg _ _ _ _ H1) as [outs Hs]. exists outs. exact Hs.
Qed.

Lemma shutdown_seg h s r s1 : shutdown h s = (r, s1) -> exists outs, seg s s1 outs [EShutdown h].
Proof.
  intros H. unfold shutdown in H. bind_inv H o s0 H1 H2.
  - destruct (io_seg _ _ _ _ H1) as [outs Hs]. exists outs. inversion H2; subst. exact Hs.
  - destruct (io_seg _ _ _ _ H1) as [outs Hs]. exists outs. exact Hs.
  - destruct (io_seg _ _ _ _ H1) as [outs Hs]. exists outs. exact Hs.
Qed.

Lemma set_conns_seg x s r s1 : set_conns x s = (r, s1) -> seg s s1 [] [].
Proof. intros H. cbv beta iota delta [set_conns mbind get_client set_client] in H. inversion H; subst. split; reflexivity. Qed.

(* Connections::get_conn under a zero time-out: the first thing that happens is a connect to the host,
   pooled or not; for a pooled host a successful checkout is exactly "connect, shut the old one down";
   for a host that was not pooled the connect is all *)
Theorem C16_idle_zero_get_conn : forall h s r s',
  get_conn h s = (r, s') -> idle_timeout (cfg (cl s)) = (0, 0) ->
  exists tl, performed s s' = EConnect h :: tl /\
    (in_pool h (conns (cl s)) = true -> r = Ok tt -> tl = [EShutdown h]) /\
    (in_pool h (conns (cl s)) = false -> tl = []).
Proof.
  intros h s r s' H Hz. apply idle_expired_true in Hz.
  unfold get_conn in H. unfold mbind at 1, get_client at 1 in H.
  destruct (in_pool h (conns (cl s))) eqn:Hp.
  - rewrite Hz in H. bind_inv H u s1 H1 H2.
    + destruct (new_conn_seg _ _ _ _ H1) as [o1 S1]. destruct (shutdown_seg _ _ _ _ H2) as [o2 S2].
      pose proof (seg_trans _ _ _ _ _ _ _ S1 S2) as S. rewrite (seg_performed _ _ _ _ S).
      exists [EShutdown h]. split; [reflexivity|]. split; [reflexivity|discriminate].
    + destruct (new_conn_seg _ _ _ _ H1) as [o1 S1]. rewrite (seg_performed _ _ _ _ S1).
      exists []. split; [reflexivity|]. split; [intros _ Hr; subst r; discriminate Hr|reflexivity].
    + destruct (new_conn_seg _ _ _ _ H1) as [o1 S1]. rewrite (seg_performed _ _ _ _ S1).
      exists []. split; [reflexivity|]. split; [intros _ Hr; subst r; discriminate Hr|reflexivity].
  - exists []. split; [|split; [discriminate|reflexivity]]. bind_inv H u s1 H1 H2.
    + destruct (new_conn_seg _ _ _ _ H1) as [o1 S1]. pose proof (set_conns_seg _ _ _ _ H2) as S2.
      pose proof (seg_trans _ _ _ _ _ _ _ S1 S2) as S. rewrite (seg_performed _ _ _ _ S). reflexivity.
    + destruct (new_conn_seg _ _ _ _ H1) as [o1 S1]. rewrite (seg_performed _ _ _ _ S1). reflexivity.
    + destruct (new_conn_seg _ _ _ _ H1) as [o1 S1]. rewrite (seg_performed _ _ _ _ S1). reflexivity.
Qed.

(* (C) for a pooled host the checkout touches the wire if AND ONLY IF the configured time-out is zero *)
Theorem C16_idle_get_conn_reconnects_iff : forall h s r s',
  in_pool h (conns (cl s)) = true -> get_conn h s = (r, s') ->
  (performed s s' <> [] <-> idle_timeout (cfg (cl s)) = (0, 0)).
Proof.
  intros h s r s' Hp H. split.
  - intros Hne. apply idle_expired_iff. destruct (idle_expired (cfg (cl s))) eqn:Hi; [reflexivity|].
    exfalso. apply Hne. unfold get_conn in H. unfold mbind at 1, get_client at 1 in H. rewrite Hp, Hi in H.
    inversion H; subst. apply performed_refl.
  - intros Hz. destruct (C16_idle_zero_get_conn _ _ _ _ H Hz) as (tl & -> & _). discriminate.
Qed.

(* ... and so every request/response exchange under a zero time-out starts on a fresh connection *)
Theorem C16_idle_zero_send_receive : forall A (d : dec A) h payload s r s',
  send_receive d h payload s = (r, s') -> idle_timeout (cfg (cl s)) = (0, 0) ->
  exists tl, performed s s' = EConnect h :: tl.
Proof.
  intros A d h payload s r s' H Hz. unfold send_receive in H. bind_inv H u s1 H1 H2.
  - destruct (C16_idle_zero_get_conn _ _ _ _ H1 Hz) as (tl & Hperf & _).
    assert (E1 : ext s s1) by (apply (ops_get_conn h _ _ _ H1)).
    assert (E2 : ext s1 s').
    { revert H2. apply (keeps_bind ext _ _ preorder_ext).
      - apply (keepsR_send_request _ preorder_ext h). intros b. apply keeps_ext_io.
      - intros _. apply (keepsR_get_response _ preorder_ext h). intros n. apply keeps_ext_io. }
    rewrite (performed_app _ _ _ E1 E2), Hperf. eexists. reflexivity.
  - destruct (C16_idle_zero_get_conn _ _ _ _ H1 Hz) as (tl & Hperf & _). exists tl. exact Hperf.
  - destruct (C16_idle_zero_get_conn _ _ _ _ H1 Hz) as (tl & Hperf & _). exists tl. exact Hperf.
Qed.

(* Connections::get_conn_any (group-coordinator look-ups) under a zero time-out: the connection it
   hands out has just been re-established *)
Theorem C16_idle_zero_get_conn_any : forall s h s',
  get_conn_any s = (Ok (Some h), s') -> idle_timeout (cfg (cl s)) = (0, 0) ->
  performed s s' = [EConnect h; EShutdown h] /\ in_pool h (conns (cl s)) = true.
Proof.
  intros s h s' H Hz. apply idle_expired_true in Hz.
  unfold get_conn_any in H. unfold mbind at 1, get_client at 1 in H.
  destruct (conns (cl s)) as [|first rest] eqn:Hc; [inversion H|].
  bind_inv H pick s1 H1 H2; [|discriminate H2|discriminate H2].
  destruct (pop_any_seg _ _ _ H1) as [S0 Hcl]. cbv zeta in H2. rewrite Hz in H2.
  set (h0 := match pick with Some h1 => if in_pool h1 (first :: rest) then h1 else first | None => first end) in *.
  assert (Hin0 : in_pool h0 (first :: rest) = true).
  { assert (Hf : in_pool first (first :: rest) = true).
    { unfold in_pool. cbn [existsb]. rewrite (proj2 (bytes_eqb_eq first first) eq_refl). reflexivity. }
    unfold h0. destruct pick as [h1|]; [|exact Hf]. destruct (in_pool h1 (first :: rest)) eqn:E1; [exact E1|exact Hf]. }
  bind_inv H2 rc s2 H3 H4; [|discriminate H4|discriminate H4].
  unfold mtry in H3. destruct (new_conn h0 s1) as [rn sn] eqn:En.
  destruct (new_conn_seg _ _ _ _ En) as [o1 S1].
  destruct rn as [u|e|w]; inversion H3; subst rc s2; [|inversion H4].
  bind_inv H4 u2 s3 H5 H6; [|discriminate H6|discriminate H6].
  destruct (shutdown_seg _ _ _ _ H5) as [o2 S2]. inversion H6; subst.
  pose proof (seg_trans _ _ _ _ _ _ _ (seg_trans _ _ _ _ _ _ _ S0 S1) S2) as S.
  rewrite (seg_performed _ _ _ _ S). split; [reflexivity|exact Hin0].
Qed.

(* ---- KafkaClient::set_connection_idle_timeout: the third way a time-out gets into a client. After the
        setter every client operation runs under (A) resp. (B) with exactly the value given ------------- *)
Theorem C16_idle_setter_in_force : forall (c : client) (hv scv ev : Val.val) (a b : Z) g',
  C16Extra2.cfg_after c (Val.vt "set_connection_idle_timeout" [Val.VI a; Val.VI b]) hv scv ev = Some g' ->
  idle_timeout g' = (a, b) /\
  ((a, b) <> (0, 0) -> idle_expired g' = false) /\ ((a, b) = (0, 0) -> idle_expired g' = true).
Proof.
  intros c hv scv ev a b g' H.
  destruct (C16Extra2.C16_client_setters c hv scv ev) as (_ & _ & _ & _ & _ & _ & _ & Hset).
  rewrite (Hset a b) in H. inversion H; subst g'. clear H.
  split; [reflexivity|]. split; intros Hab.
  - apply idle_expired_false. exact Hab.
  - apply idle_expired_true. exact Hab.
Qed.

Example C16_idle_setter_in_force_ex :
  C16Extra2.cfg_after ex_client (Val.vt "set_connection_idle_timeout" [Val.VI 0; Val.VI 0]) (Val.VI 0) (Val.VI 0) (Val.VI 0)
  <> None.
Proof.
  destruct (C16Extra2.C16_client_setters ex_client (Val.VI 0) (Val.VI 0) (Val.VI 0)) as (_ & _ & _ & _ & _ & _ & _ & Hset).
  rewrite (Hset 0 0). discriminate.
Qed.

(* ================================================================================== *)
(* 6. non-vacuity                                                                     *)
(* ================================================================================== *)
Definition conn_evs (l : list ev_op) : list ev_op :=
  filter (fun e => match e with EConnect _ | EShutdown _ => true | _ => false end) l.

(* C16Extra.ex_client (idle time-out 9 s, empty pool, metadata for topic t on h:9092) and the same
   client with a zero time-out *)
Definition ex_client0 : client :=
  {| cfg := {| client_id := tag "me"; hosts := [exh]; compression := COMPRESSION_NONE; fetch_max_wait_time := 250;
               fetch_min_bytes := 7; fetch_max_bytes_per_partition := 999; fetch_crc_validation := false;
               offset_storage := 1; retry_backoff_time := (0, 0); retry_max_attempts := 3; idle_timeout := (0, 0) |};
     cs := cs ex_client; conns := [] |}.
Definition ex_pooled (c : client) : client := {| cfg := cfg c; cs := cs c; conns := [exh] |}.
Definition ex_script (c : client) (sc : list ev_out) : st := st_with (ex_run c) sc [].
Definition ex_prod (i : Z) : step :=
  mk (produce_messages 0 (1, 500000000)
        [{| pq_topic := tag "t"; pq_partition := 0; pq_key := None; pq_value := Some (enc_i32 i) |}]).

(* the seeded scenario in the model: three produce calls in a row on one client.  9 s time-out: one
   connect, then the connection is reused by the second and the third call.  Zero time-out: the second and
   the third call each re-establish it. *)
Example C16_idle_history_ex :
  let calls := [ex_prod 0; ex_prod 1; ex_prod 2] in
  let s9 := ex_script ex_client [OConn true; OWrote 1000; OWrote 1000; OWrote 1000] in
  let s0 := ex_script ex_client0 [OConn true; OWrote 1000; OConn true; OShut; OWrote 1000; OConn true; OShut; OWrote 1000] in
  Forall step_stays calls /\
  idle_timeout (cfg (cl s9)) <> (0, 0) /\
  conn_evs (performed s9 (run_all calls s9)) = [EConnect exh] /\
  length (performed s9 (run_all calls s9)) = 4%nat /\
  conns (cl (run_all calls s9)) = [exh] /\
  conn_evs (performed s0 (run_all calls s0))
  = [EConnect exh; EConnect exh; EShutdown exh; EConnect exh; EShutdown exh] /\
  length (performed s0 (run_all calls s0)) = 8%nat.
Proof.
  split; [repeat (apply Forall_cons; [unfold step_stays, ex_prod, mk; cbn [projT2]; apply C16_idle_client_ops|]); apply Forall_nil|].
  split; [discriminate|]. vm_compute. repeat split.
Qed.

(* the hypotheses of C16_idle_never_reconnects on a state whose pool already holds the broker *)
Example C16_idle_never_reconnects_ex :
  let calls := [ex_prod 0; mk (fetch_messages [{| fq_topic := tag "t"; fq_partition := 0; fq_offset := 5; fq_max_bytes := 0 |}]);
                ex_prod 2] in
  let s := ex_script (ex_pooled ex_client) [OWrote 1000; OWrote 1000; OData (enc_i32 0); OWrote 1000] in
  Forall step_stays calls /\ idle_timeout (cfg (cl s)) <> (0, 0) /\ in_pool exh (conns (cl s)) = true /\
  conn_evs (performed s (run_all calls s)) = [] /\ length (performed s (run_all calls s)) = 4%nat.
Proof.
  split; [repeat (apply Forall_cons; [unfold step_stays, ex_prod, mk; cbn [projT2]; apply C16_idle_client_ops|]); apply Forall_nil|].
  split; [discriminate|]. vm_compute. repeat split.
Qed.

Example C16_idle_get_conn_ex :
  let s9 := ex_script (ex_pooled ex_client) [OConn true; OShut] in
  let s0 := ex_script (ex_pooled ex_client0) [OConn true; OShut] in
  get_conn exh s9 = (Ok tt, s9) /\
  fst (get_conn exh s0) = Ok tt /\ performed s0 (snd (get_conn exh s0)) = [EConnect exh; EShutdown exh] /\
  fst (get_conn_any s0) = Ok (Some exh) /\ performed s0 (snd (get_conn_any s0)) = [EConnect exh; EShutdown exh] /\
  performed (ex_script ex_client0 [OConn true]) (snd (get_conn exh (ex_script ex_client0 [OConn true]))) = [EConnect exh].
Proof. vm_compute. repeat split. Qed.

Example C16_idle_create_ex :
  let s := ex_run (client_new [exh]) in
  let pcalls := [PWithIdle (3, 0); PWithPartitioner; PWithClientId (tag "me")] in
  let ccalls := [CWithTopic (tag "t"); CWithIdle (7, 0); CWithGroup (tag "g")] in
  pb_idle (fold_left pbuilder_apply pcalls (pbuilder_new (inl [exh]))) = (3, 0) /\
  conn_evs (performed s (snd (producer_create (inl [exh]) pcalls s))) = [EConnect exh] /\
  idle_timeout (cfg (cl (snd (producer_create (inl [exh]) pcalls s)))) = (3, 0) /\
  cb_idle (fold_left cbuilder_apply ccalls (cbuilder_new (inl [exh]))) = (7, 0) /\
  conn_evs (performed s (snd (consumer_create (inl [exh]) ccalls s))) = [EConnect exh] /\
  idle_timeout (cfg (cl (snd (consumer_create (inl [exh]) ccalls s)))) = (7, 0).
Proof. vm_compute. repeat split. Qed.

(* Not done / not proved:
   - the seeded change itself (time-out measured from the connect instead of from the last checkout) is not
     expressible: the model has neither a clock nor `last_checkout`; `idle_expired` only distinguishes a zero
     time-out from any other.  A model with time would need `now` as an input of every checkout and a
     per-host `last_checkout` in `client`; (A) would then read "if every gap between consecutive checkouts
     of h is below the time-out, h is never reconnected".
   - (B) is proved for the connection layer (get_conn, get_conn_any, send_receive) and shown on a history by
     example only; the all-operations form ("under a zero time-out every first write of a frame directly
     follows a connect or a shutdown of that host") needs an adjacency invariant over traces that the
     `keeps` combinators of NetFacts do not carry.
   - fidelity of the abstraction: (A) is a theorem about the model for EVERY time-out other than zero, also
     (0 s, 1 ns); the real code compares against the clock and would re-establish such a connection on practically
     every checkout.  (A) transfers to the code only for time-outs that are long compared with the run.
   - get_conn_any under a zero time-out when the connect is refused: the model returns None where the real
     code goes on to the next pooled host (noted in Model/Net.v); nothing is stated about that case. *)

Print Assumptions C16_idle_client_ops.
Print Assumptions C16_idle_producer_ops.
Print Assumptions C16_idle_consumer_ops.
Print Assumptions C16_idle_pooled_reuse.
Print Assumptions C16_idle_producer_create.
Print Assumptions C16_idle_consumer_create.
Print Assumptions C16_idle_history.
Print Assumptions C16_idle_never_reconnects.
Print Assumptions C16_idle_zero_get_conn.
Print Assumptions C16_idle_get_conn_reconnects_iff.
Print Assumptions C16_idle_zero_send_receive.
Print Assumptions C16_idle_zero_get_conn_any.
Print Assumptions C16_idle_setter_in_force.
