(* C06ExtraE: fourth adequacy pass for C06 (seeded change C06-7).

   Seed C06-7: KafkaClient::new / new_secure store `unique_hosts(hosts)` (sort_unstable + dedup) instead of the
   caller's host list, so fetch_metadata asks the lexicographically first reachable host, not the first LISTED
   reachable host.  The model counterpart is `client_new` (Model/Client.v).  Mirrored into the model
   (client_new hs := {| cfg := default_config (unique_hosts hs); ... |}) the change leaves EVERY theorem of
   Props/C06.v provable (confirmed on a scratch copy: Model/Client .. Props/C06 recompile unchanged): all the
   bootstrap theorems are stated for an arbitrary value of `hosts (cfg (cl s))` and none of them mentions the
   constructor.  The theorems of part A are the missing link; the mutated model falsifies each of them
   (negations proved on the scratch copy with the witness [b:2; a:1]).

   A. The constructor keeps the caller's host list, and a client fresh from the constructor asks the first
      LISTED reachable host:
        C06_new_client_keeps_host_list        hosts (cfg (client_new hs)) = hs (order and repetitions kept),
                                              empty state, empty pool,
        C06_new_client_asks_first_listed      fetch_metadata on a client fresh from client_new (pre ++ h :: post),
                                              pre refusing and h accepting: the request goes to h,
        C06_full_load_asks_first_listed       the whole public call load_metadata_all, any state, whatever its
                                              outcome: the events are the refused connects to pre in listed
                                              order, the connect and the request to h, then reads from h only,
        C06_load_asks_first_listed            the same for load_metadata topics,
        C06_new_client_full_load_first_listed load_metadata_all on a client fresh from the constructor: no
                                              hypothesis on pool, correlation id or payload is left.
   B. The converse of "taken from the first bootstrap host that can be reached" (C06ExtraC proved the forward
      direction C06_answered_not_no_host and the NoHostReachable equivalence):
        C06_answer_only_from_first_reachable  whatever fetch_metadata_hosts returns other than NoHostReachable
                                              IS the outcome of reading the answer of a host h of the list that
                                              accepted connection and request, every host listed before h being
                                              unreachable (in list order); in particular it never panics,
        C06_fetch_metadata_answer_only_from_first_reachable   the same for the entry point.
   C. Histories: no call of the client writes the configuration, so the statement of A/B holds for every later
      load of a client built by the constructor:
        C06_calls_keep_config                 after any sequence of load_metadata_all / load_metadata / reset /
                                              fetch_messages / fetch_offsets / list_offsets / produce calls
                                              (successful or not) the configuration is the one before,
        C06_new_client_history_hosts          ... hence the bootstrap list is still the constructor's argument,
        C06_new_client_history_answer_from_first_listed
                                              ... hence every later metadata answer comes from the first
                                              reachable host IN THE ORDER GIVEN TO THE CONSTRUCTOR,
        C06_history_only_bootstrap_and_config every metadata call of such a history talks to listed hosts only.
   D. The wire view of "in list order", for any pool and any script:
        C06_bootstrap_hosts_tried_in_listed_order   the events of fetch_metadata_hosts split into consecutive
                                              blocks, one per host, in the order of the list.

   Not done: the builder paths (Producer / Consumer `from_hosts`) reach `client_new` only inside the harness
   glue Model/Dispatch.v (`c0 := client_new hs`), which is outside the theorems; the group coordinator cache. *)
From Coq Require Import ZifyBool.
From KV Require Import Base.Prelude Gen.Consts Model.Codecs Model.Requests Model.Responses
                       Model.ClientState Model.Net Model.Client.
From KV Require Proofs.C09Facts Proofs.C04Extra Proofs.C04ExtraB.
From KV Require Import Proofs.BytesFacts Proofs.NetFacts Proofs.C06Facts Proofs.C06Extra Proofs.C06ExtraB
                       Proofs.C06ExtraC.

(* ================================================================================================ *)
(* A. the constructor                                                                               *)
(* ================================================================================================ *)

(* KafkaClient::new(hosts): the bootstrap list is the caller's list - same order, repetitions kept *)
Theorem C06_new_client_keeps_host_list : forall hs,
  hosts (cfg (client_new hs)) = hs /\ cs (client_new hs) = cstate_new /\ conns (client_new hs) = [].
Proof. intros hs. repeat split. Qed.

(* a descending list with a repetition *)
Definition exe_hs : list bytes := [tag "kafka-2:9092"; tag "kafka-1:9092"; tag "kafka-2:9092"].
Example ex_new_client_keeps_host_list :
  hosts (cfg (client_new exe_hs)) = [tag "kafka-2:9092"; tag "kafka-1:9092"; tag "kafka-2:9092"].
Proof. reflexivity. Qed.

Lemma new_client_corr : fst (next_correlation_id cstate_new) = 1.
Proof. reflexivity. Qed.

Lemma in_pool_nil h : in_pool h [] = false.
Proof. reflexivity. Qed.

Theorem C06_new_client_asks_first_listed : forall topics pre h post st0 payload script2,
  cl st0 = client_new (pre ++ h :: post) ->
  enc_metadata_req 1 [] topics = Ok payload ->
  script st0 = map (fun _ => OConn false) pre ++ OConn true :: OWrote (ulen (frame payload)) :: script2 ->
  fetch_metadata topics st0
  = get_response dec_metadata_resp h
      (connected (bump st0) h script2
                 (EWrite h (frame payload) :: EConnect h :: rev (map EConnect pre) ++ trace st0)).
Proof.
  intros topics pre h post st0 payload script2 Hcl Henc Hs.
  apply (C06_fetch_metadata_first topics pre h post st0 payload script2).
  - rewrite Hcl. reflexivity.
  - intros h' _. rewrite Hcl. reflexivity.
  - rewrite Hcl. reflexivity.
  - rewrite Hcl. exact Henc.
  - exact Hs.
Qed.

(* the demonstration of the seed: hosts [kafka-2; kafka-1] both up: kafka-2 is asked *)
Definition exe_st (hs : list bytes) (sc : list ev_out) : st :=
  {| script := sc; trace := []; anyq := []; hostq := []; fetchq := []; entryq := []; cl := client_new hs;
     env := ex_env |}.
Definition exe_req : bytes := enc_i16 3 ++ enc_i16 0 ++ enc_i32 1 ++ enc_i16 0 ++ enc_i32 0.
Definition exe_answer : list ev_out := [OData (enc_i32 12); OData (enc_i32 1 ++ enc_i32 0 ++ enc_i32 0)].

Example ex_new_client_asks_first_listed :
  let st0 := exe_st [tag "kafka-2:9092"; tag "kafka-1:9092"] (OConn true :: OWrote 18 :: exe_answer) in
  cl st0 = client_new ([] ++ tag "kafka-2:9092" :: [tag "kafka-1:9092"]) /\
  enc_metadata_req 1 [] [] = Ok exe_req /\ ulen (frame exe_req) = 18 /\
  fst (fetch_metadata [] st0) = Ok {| md_corr := 1; md_brokers := []; md_topics := [] |} /\
  map ev_host (rev (trace (snd (fetch_metadata [] st0))))
  = [tag "kafka-2:9092"; tag "kafka-2:9092"; tag "kafka-2:9092"; tag "kafka-2:9092"].
Proof. vm_compute. repeat split; reflexivity. Qed.

(* ---- the whole public calls, whatever their outcome ------------------------------------------------ *)
Lemma wcs_trace x s : trace (wcs x s) = trace s.
Proof. reflexivity. Qed.

Theorem C06_load_asks_first_listed : forall topics pre h post st0 payload script2 r s',
  hosts (cfg (cl st0)) = pre ++ h :: post ->
  (forall h', In h' pre -> in_pool h' (conns (cl st0)) = false) ->
  in_pool h (conns (cl st0)) = false ->
  enc_metadata_req (fst (next_correlation_id (cs (cl st0)))) (client_id (cfg (cl st0))) topics = Ok payload ->
  script st0 = map (fun _ => OConn false) pre ++ OConn true :: OWrote (ulen (frame payload)) :: script2 ->
  load_metadata topics st0 = (r, s') ->
  exists reads, Forall (fun e => exists n, e = ERead h n) reads /\
    trace s' = reads ++ EWrite h (frame payload) :: EConnect h :: rev (map EConnect pre) ++ trace st0.
Proof.
  intros topics pre h post st0 payload script2 r s' Hh Hpre Hp Henc Hs H.
  rewrite load_metadata_run in H.
  destruct (fetch_metadata topics st0) as [r1 s1] eqn:HF.
  assert (T : exists reads, Forall (fun e => exists n, e = ERead h n) reads /\
              trace s1 = reads ++ EWrite h (frame payload) :: EConnect h :: rev (map EConnect pre) ++ trace st0).
  { rewrite fetch_metadata_run, Hh in HF.
    exact (C06_bootstrap_first_trace _ topics pre h post (bump st0) payload script2 r1 s1 Hpre Hp Henc Hs HF). }
  destruct r1 as [md|e|w]; inversion H; subst; exact T.
Qed.

Theorem C06_full_load_asks_first_listed : forall pre h post st0 payload script2 r s',
  hosts (cfg (cl st0)) = pre ++ h :: post ->
  (forall h', In h' pre -> in_pool h' (conns (cl st0)) = false) ->
  in_pool h (conns (cl st0)) = false ->
  enc_metadata_req (fst (next_correlation_id (cs (cl st0)))) (client_id (cfg (cl st0))) [] = Ok payload ->
  script st0 = map (fun _ => OConn false) pre ++ OConn true :: OWrote (ulen (frame payload)) :: script2 ->
  load_metadata_all st0 = (r, s') ->
  exists reads, Forall (fun e => exists n, e = ERead h n) reads /\
    trace s' = reads ++ EWrite h (frame payload) :: EConnect h :: rev (map EConnect pre) ++ trace st0.
Proof.
  intros pre h post st0 payload script2 r s' Hh Hpre Hp Henc Hs H.
  rewrite load_metadata_all_unfold in H.
  exact (C06_load_asks_first_listed [] pre h post (reset_st st0) payload script2 r s' Hh Hpre Hp Henc Hs H).
Qed.

(* a client fresh from the constructor: nothing is left to assume but the script *)
Theorem C06_new_client_full_load_first_listed : forall pre h post st0 script2 r s',
  cl st0 = client_new (pre ++ h :: post) ->
  script st0 = map (fun _ => OConn false) pre ++ OConn true :: OWrote 18 :: script2 ->
  load_metadata_all st0 = (r, s') ->
  exists reads, Forall (fun e => exists n, e = ERead h n) reads /\
    trace s' = reads ++ EWrite h (frame exe_req) :: EConnect h :: rev (map EConnect pre) ++ trace st0.
Proof.
  intros pre h post st0 script2 r s' Hcl Hs H.
  apply (C06_full_load_asks_first_listed pre h post st0 exe_req script2 r s'); try exact H.
  - rewrite Hcl. reflexivity.
  - intros h' _. rewrite Hcl. reflexivity.
  - rewrite Hcl. reflexivity.
  - rewrite Hcl. reflexivity.
  - exact Hs.
Qed.

(* the second demonstration of the seed: [kafka-3; kafka-2; kafka-1], kafka-3 down: kafka-2 is asked *)
Example ex_new_client_full_load_first_listed :
  let st0 := exe_st [tag "kafka-3:9092"; tag "kafka-2:9092"; tag "kafka-1:9092"]
                    (OConn false :: OConn true :: OWrote 18 :: exe_answer) in
  cl st0 = client_new ([tag "kafka-3:9092"] ++ tag "kafka-2:9092" :: [tag "kafka-1:9092"]) /\
  script st0 = map (fun _ => OConn false) [tag "kafka-3:9092"] ++ OConn true :: OWrote 18 :: exe_answer /\
  fst (load_metadata_all st0) = Ok tt /\
  rev (trace (snd (load_metadata_all st0)))
  = [EConnect (tag "kafka-3:9092"); EConnect (tag "kafka-2:9092"); EWrite (tag "kafka-2:9092") (frame exe_req);
     ERead (tag "kafka-2:9092") 4; ERead (tag "kafka-2:9092") 12].
Proof. vm_compute. repeat split; reflexivity. Qed.

(* ================================================================================================ *)
(* B. only the first reachable host's answer is ever returned                                       *)
(* ================================================================================================ *)

Lemma nopanic_send_request_metadata h corr cid topics :
  nopanic (send_request h (enc_metadata_req corr cid topics)).
Proof.
  unfold send_request. apply nopanic_bind.
  - intros s r s' w H. unfold lift in H. inversion H; subst. apply C09Facts.C09_metadata_no_panic.
  - intros p. apply nopanic_send.
Qed.

Theorem C06_answer_only_from_first_reachable : forall corr topics hs s r s',
  fetch_metadata_hosts corr topics hs s = (r, s') ->
  r <> Err ENoHostReachable ->
  exists pre h post s1 s2 s3 n,
    hs = pre ++ h :: post /\
    unreachable corr topics pre s s1 /\
    get_conn h s1 = (Ok tt, s2) /\
    send_request h (enc_metadata_req corr (client_id (cfg (cl s1))) topics) s2 = (Ok n, s3) /\
    get_response dec_metadata_resp h s3 = (r, s').
Proof.
  intros corr topics hs. induction hs as [|h0 r0 IH]; intros s r s' H Hr.
  - cbn in H. inversion H; subst. exfalso. apply Hr. reflexivity.
  - rewrite fmh_cons in H.
    destruct (get_conn h0 s) as [[u|e|w] s1] eqn:Ec.
    + destruct u.
      destruct (send_request h0 (enc_metadata_req corr (client_id (cfg (cl s))) topics) s1)
        as [[n|e|w] s2] eqn:Es.
      * exists [], h0, r0, s, s1, s2, n. repeat split; try assumption. apply un_nil.
      * destruct (IH s2 r s' H Hr) as (pre & h & post & t1 & t2 & t3 & n & E & U & C & S & G).
        exists (h0 :: pre), h, post, t1, t2, t3, n. repeat split; try assumption.
        -- rewrite E. reflexivity.
        -- eapply un_send; [exact Ec|exact Es|exact U].
      * exfalso. exact (nopanic_send_request_metadata _ _ _ _ _ _ _ w Es eq_refl).
    + destruct (IH s1 r s' H Hr) as (pre & h & post & t1 & t2 & t3 & n & E & U & C & S & G).
      exists (h0 :: pre), h, post, t1, t2, t3, n. repeat split; try assumption.
      * rewrite E. reflexivity.
      * eapply un_conn; [exact Ec|exact U].
    + exfalso. exact (nopanic_get_conn h0 s _ s1 w Ec eq_refl).
Qed.

Corollary C06_fetch_metadata_answer_only_from_first_reachable : forall topics s r s',
  fetch_metadata topics s = (r, s') ->
  r <> Err ENoHostReachable ->
  exists pre h post s1 s2 s3 n,
    hosts (cfg (cl s)) = pre ++ h :: post /\
    unreachable (fst (next_correlation_id (cs (cl s)))) topics pre (bump s) s1 /\
    get_conn h s1 = (Ok tt, s2) /\
    send_request h (enc_metadata_req (fst (next_correlation_id (cs (cl s)))) (client_id (cfg (cl s1))) topics) s2
    = (Ok n, s3) /\
    get_response dec_metadata_resp h s3 = (r, s').
Proof.
  intros topics s r s' H Hr. rewrite fetch_metadata_run in H.
  exact (C06_answer_only_from_first_reachable _ _ _ _ _ _ H Hr).
Qed.

(* a:1 refuses, b:2 accepts and answers garbage, c:3 would accept: the (error) outcome is b:2's, and the
   theorem's witnesses are pre = [a:1], h = b:2 *)
Example ex_answer_only_from_first_reachable :
  let r := fst (fetch_metadata_hosts 1 [] ex_hs exc_st_garbage) in
  r = Err (EIo IoUnexpectedEof) /\ r <> Err ENoHostReachable /\
  exists pre h post s1 s2 s3 n,
    ex_hs = pre ++ h :: post /\ h = tag "b:2" /\ pre = [tag "a:1"] /\
    unreachable 1 [] pre exc_st_garbage s1 /\ get_conn h s1 = (Ok tt, s2) /\
    send_request h (enc_metadata_req 1 (client_id (cfg (cl s1))) []) s2 = (Ok n, s3) /\
    get_response dec_metadata_resp h s3 = fetch_metadata_hosts 1 [] ex_hs exc_st_garbage.
Proof.
  cbv zeta. split; [vm_compute; reflexivity|]. split; [vm_compute; discriminate|].
  exists [tag "a:1"], (tag "b:2"), [tag "c:3"].
  exists (snd (get_conn (tag "a:1") exc_st_garbage)).
  exists (snd (get_conn (tag "b:2") (snd (get_conn (tag "a:1") exc_st_garbage)))).
  exists (snd (send_request (tag "b:2") (enc_metadata_req 1 [] [])
                (snd (get_conn (tag "b:2") (snd (get_conn (tag "a:1") exc_st_garbage)))))).
  exists 18.
  split; [reflexivity|]. split; [reflexivity|]. split; [reflexivity|].
  split.
  { eapply (un_conn 1 [] (tag "a:1") [] exc_st_garbage (EIo IoConnRefused)); [vm_compute; reflexivity|apply un_nil]. }
  split; [vm_compute; reflexivity|]. split; vm_compute; reflexivity.
Qed.

(* ================================================================================================ *)
(* C. histories: nothing writes the configuration                                                   *)
(* ================================================================================================ *)

Import C04ExtraB.

Lemma k_list_offsets topics time : keeps cfgc (list_offsets topics time).
Proof.
  unfold list_offsets. kb; [apply k_next_corr|]. intros corr. kb; [kret|]. intros c.
  kb; [apply k_ordered|]. intros reqs. apply k_offsets_exchange.
Qed.

Lemma k_get_conn h : keeps cfgc (get_conn h).
Proof. eapply keeps_weaken; [exact conns_cfgc|apply frame_get_conn]. Qed.
Lemma k_send_request h p : keeps cfgc (send_request h p).
Proof. eapply keeps_weaken; [exact io_cfgc|apply frame_send_request]. Qed.

Lemma k_produce_exchange corr acks timeout : forall reqs acc,
  keeps cfgc (produce_exchange corr acks timeout reqs acc).
Proof.
  induction reqs as [|[h tps] r IH]; intros acc; cbn [produce_exchange]; [kret|].
  kb; [kret|]. intros c. kb; [kret|]. intros e. cbv zeta.
  destruct (acks =? 0).
  - kb; [apply k_get_conn|]. intros _. kb; [apply k_send_request|]. intros _. apply IH.
  - kb; [apply k_send_receive|]. intros [c0 rtps]. apply IH.
Qed.

Lemma k_internal_produce_messages acks timeout msgs : keeps cfgc (internal_produce_messages acks timeout msgs).
Proof.
  unfold internal_produce_messages. kb; [apply k_next_corr|]. intros corr. kb; [kret|]. intros c.
  destruct (produce_reqs (cs c) msgs []) as [reqs|]; [|kret].
  kb; [apply k_ordered|]. intros reqs'. apply k_produce_exchange.
Qed.

Lemma k_reset_metadata : keeps cfgc reset_metadata.
Proof. unfold reset_metadata. kb; [kret|]. intros c. apply k_set_cs. Qed.

(* the calls of KafkaClient that the property speaks about *)
Inductive kcall :=
| KAll | KLoad (topics : list bytes) | KReset
| KFetch (input : list fetch_partition)
| KOffsets (topics : list bytes) (time : Z)
| KListOffsets (topics : list bytes) (time : Z)
| KProduce (acks timeout : Z) (msgs : list produce_message).

(* the state a call leaves behind, whatever it returned *)
Definition after_kcall (s : st) (c : kcall) : st :=
  match c with
  | KAll => snd (load_metadata_all s)
  | KLoad ts => snd (load_metadata ts s)
  | KReset => snd (reset_metadata s)
  | KFetch input => snd (fetch_messages input s)
  | KOffsets ts t => snd (fetch_offsets ts t s)
  | KListOffsets ts t => snd (list_offsets ts t s)
  | KProduce a t ms => snd (internal_produce_messages a t ms s)
  end.
Definition after_kcalls (calls : list kcall) (s : st) : st := fold_left after_kcall calls s.

Lemma keeps_snd {A} R (m : M A) s : keeps R m -> R s (snd (m s)).
Proof. intros K. destruct (m s) as [r s'] eqn:E. exact (K s r s' E). Qed.

Lemma after_kcall_cfg s c : cfg (cl (after_kcall s c)) = cfg (cl s).
Proof.
  destruct c; cbn [after_kcall]; apply (keeps_snd cfgc).
  - apply k_load_metadata_all.
  - apply k_load_metadata.
  - apply k_reset_metadata.
  - apply k_fetch_messages.
  - apply k_fetch_offsets.
  - apply k_list_offsets.
  - apply k_internal_produce_messages.
Qed.

Theorem C06_calls_keep_config : forall calls s, cfg (cl (after_kcalls calls s)) = cfg (cl s).
Proof.
  unfold after_kcalls. induction calls as [|c r IH]; intros s; cbn [fold_left]; [reflexivity|].
  rewrite IH. apply after_kcall_cfg.
Qed.

Theorem C06_new_client_history_hosts : forall hs calls s,
  cl s = client_new hs -> hosts (cfg (cl (after_kcalls calls s))) = hs.
Proof. intros hs calls s Hcl. rewrite C06_calls_keep_config, Hcl. reflexivity. Qed.

(* whatever was called before on a client built by KafkaClient::new(hs): a metadata answer can only come from
   the first host, in the order of hs, that accepts connection and request *)
Theorem C06_new_client_history_answer_from_first_listed : forall hs calls s0 topics r s',
  cl s0 = client_new hs ->
  fetch_metadata topics (after_kcalls calls s0) = (r, s') ->
  r <> Err ENoHostReachable ->
  exists pre h post s1 s2 s3 n,
    hs = pre ++ h :: post /\
    unreachable (fst (next_correlation_id (cs (cl (after_kcalls calls s0))))) topics pre
                (bump (after_kcalls calls s0)) s1 /\
    get_conn h s1 = (Ok tt, s2) /\
    send_request h (enc_metadata_req (fst (next_correlation_id (cs (cl (after_kcalls calls s0)))))
                                     (client_id (cfg (cl s1))) topics) s2 = (Ok n, s3) /\
    get_response dec_metadata_resp h s3 = (r, s').
Proof.
  intros hs calls s0 topics r s' Hcl H Hr.
  destruct (C06_fetch_metadata_answer_only_from_first_reachable _ _ _ _ H Hr)
    as (pre & h & post & s1 & s2 & s3 & n & E & U & C & S & G).
  exists pre, h, post, s1, s2, s3, n. repeat split; try assumption.
  rewrite <- E. symmetry. apply C06_new_client_history_hosts. exact Hcl.
Qed.

(* a load made after any history of calls on such a client talks to hosts of the constructor's list only, and
   leaves the list as it was *)
Theorem C06_history_only_bootstrap_and_config : forall hs calls s0 topics r s',
  cl s0 = client_new hs ->
  load_metadata topics (after_kcalls calls s0) = (r, s') ->
  ops_in (on_hosts hs) (after_kcalls calls s0) s' /\ hosts (cfg (cl s')) = hs.
Proof.
  intros hs calls s0 topics r s' Hcl H. split.
  - rewrite <- (C06_new_client_history_hosts hs calls s0 Hcl).
    exact (C06_load_metadata_only_bootstrap_hosts _ _ _ _ H).
  - change s' with (snd (r, s')). rewrite <- H.
    change (snd (load_metadata topics (after_kcalls calls s0)))
      with (after_kcalls [KLoad topics] (after_kcalls calls s0)).
    rewrite C06_calls_keep_config. apply C06_new_client_history_hosts. exact Hcl.
Qed.

(* history: full load answered by kafka-2 (first listed), a fetch that has nothing to send, a reset, and a
   load again: kafka-2 - pooled by now - is asked again, kafka-1 never *)
Definition exe_calls : list kcall := [KAll; KFetch []; KReset].
Definition exe_hist_st : st :=
  exe_st [tag "kafka-2:9092"; tag "kafka-1:9092"]
         (OConn true :: OWrote 18 :: exe_answer ++ OWrote 18 :: [OData (enc_i32 12); OData (enc_i32 3 ++ enc_i32 0 ++ enc_i32 0)]).
Example ex_history_first_listed :
  hosts (cfg (cl (after_kcalls exe_calls exe_hist_st))) = [tag "kafka-2:9092"; tag "kafka-1:9092"] /\
  fst (fetch_metadata [] (after_kcalls exe_calls exe_hist_st))
  = Ok {| md_corr := 3; md_brokers := []; md_topics := [] |} /\
  map ev_host (rev (trace (snd (fetch_metadata [] (after_kcalls exe_calls exe_hist_st)))))
  = [tag "kafka-2:9092"; tag "kafka-2:9092"; tag "kafka-2:9092"; tag "kafka-2:9092";
     tag "kafka-2:9092"; tag "kafka-2:9092"; tag "kafka-2:9092"].
Proof. vm_compute. repeat split; reflexivity. Qed.

(* ================================================================================================ *)
(* D. the wire view: hosts are tried in list order                                                  *)
(* ================================================================================================ *)

(* ops is a concatenation of blocks, the i-th block consisting of events on the i-th host only *)
Inductive tried_in_order : list bytes -> list ev_op -> Prop :=
| tio_done : forall hs, tried_in_order hs []
| tio_host : forall h r blk rest,
    Forall (fun e => ev_host e = h) blk -> tried_in_order r rest -> tried_in_order (h :: r) (blk ++ rest).

Lemma on_hosts_single h e : on_hosts [h] e -> ev_host e = h.
Proof. unfold on_hosts. intros [H|[]]. symmetry. exact H. Qed.

Lemma tio_single h r blk : Forall (on_hosts [h]) blk -> tried_in_order (h :: r) blk.
Proof.
  intros F. rewrite <- (app_nil_r blk). apply tio_host; [|apply tio_done].
  eapply Forall_impl; [apply on_hosts_single|exact F].
Qed.

Theorem C06_bootstrap_hosts_tried_in_listed_order : forall corr topics hs s r s',
  fetch_metadata_hosts corr topics hs s = (r, s') ->
  ext s s' /\ tried_in_order hs (performed s s').
Proof.
  intros corr topics hs. induction hs as [|h0 r0 IH]; intros s r s' H.
  - cbn in H. inversion H; subst. split; [apply ext_refl|]. rewrite performed_refl. apply tio_done.
  - assert (Hin : In h0 [h0]) by (left; reflexivity).
    rewrite fmh_cons in H.
    destruct (get_conn h0 s) as [[u|e|w] s1] eqn:Ec;
      pose proof (ops_get_conn_hosts [h0] h0 Hin _ _ _ Ec) as [E1 F1].
    + destruct (send_request h0 (enc_metadata_req corr (client_id (cfg (cl s))) topics) s1)
        as [[n|e|w] s2] eqn:Es;
        pose proof (ops_send_request_hosts [h0] h0 _ Hin _ _ _ Es) as [E2 F2].
      * pose proof (ops_get_response_hosts dec_metadata_resp [h0] h0 Hin _ _ _ H) as [E3 F3].
        split; [eapply ext_trans; [exact E1|eapply ext_trans; [exact E2|exact E3]]|].
        apply tio_single.
        rewrite (performed_app s s1 s' E1 (ext_trans _ _ _ E2 E3)), (performed_app s1 s2 s' E2 E3).
        apply Forall_app. split; [exact F1|]. apply Forall_app. split; assumption.
      * destruct (IH _ _ _ H) as [E3 T3].
        split; [eapply ext_trans; [exact E1|eapply ext_trans; [exact E2|exact E3]]|].
        rewrite (performed_app s s2 s' (ext_trans _ _ _ E1 E2) E3), (performed_app s s1 s2 E1 E2).
        apply tio_host; [|exact T3].
        eapply Forall_impl; [apply on_hosts_single|]. apply Forall_app. split; assumption.
      * inversion H; subst.
        split; [eapply ext_trans; [exact E1|exact E2]|]. apply tio_single.
        rewrite (performed_app s s1 s' E1 E2). apply Forall_app. split; assumption.
    + destruct (IH _ _ _ H) as [E3 T3].
      split; [eapply ext_trans; [exact E1|exact E3]|].
      rewrite (performed_app s s1 s' E1 E3).
      apply tio_host; [|exact T3]. eapply Forall_impl; [apply on_hosts_single|exact F1].
    + inversion H; subst. split; [exact E1|]. apply tio_single. exact F1.
Qed.

(* kafka-3 refuses, kafka-2 answers: one event on kafka-3, then four on kafka-2, none on kafka-1 *)
Example ex_tried_in_listed_order :
  let hs := [tag "kafka-3:9092"; tag "kafka-2:9092"; tag "kafka-1:9092"] in
  let st0 := exe_st hs (OConn false :: OConn true :: OWrote 18 :: exe_answer) in
  map ev_host (performed st0 (snd (fetch_metadata_hosts 1 [] hs st0)))
  = [tag "kafka-3:9092"; tag "kafka-2:9092"; tag "kafka-2:9092"; tag "kafka-2:9092"; tag "kafka-2:9092"].
Proof. vm_compute. reflexivity. Qed.

Print Assumptions C06_new_client_keeps_host_list.
Print Assumptions C06_new_client_asks_first_listed.
Print Assumptions C06_load_asks_first_listed.
Print Assumptions C06_full_load_asks_first_listed.
Print Assumptions C06_new_client_full_load_first_listed.
Print Assumptions C06_answer_only_from_first_reachable.
Print Assumptions C06_fetch_metadata_answer_only_from_first_reachable.
Print Assumptions C06_calls_keep_config.
Print Assumptions C06_new_client_history_hosts.
Print Assumptions C06_new_client_history_answer_from_first_listed.
Print Assumptions C06_history_only_bootstrap_and_config.
Print Assumptions C06_bootstrap_hosts_tried_in_listed_order.
Check C06_new_client_keeps_host_list.
Check C06_new_client_asks_first_listed.
Check C06_load_asks_first_listed.
Check C06_full_load_asks_first_listed.
Check C06_new_client_full_load_first_listed.
Check C06_answer_only_from_first_reachable.
Check C06_fetch_metadata_answer_only_from_first_reachable.
Check C06_calls_keep_config.
Check C06_new_client_history_hosts.
Check C06_new_client_history_answer_from_first_listed.
Check C06_history_only_bootstrap_and_config.
Check C06_bootstrap_hosts_tried_in_listed_order.
