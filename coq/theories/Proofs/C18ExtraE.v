(* C18 extra, fourth pass (seeded change C18-7 "the response really owns its bytes: leak in
   `from_vec`, reclaim in `drop`").

   C18-7 replaces `raw_data: Vec<u8>` of fetch::Response by a `Box::leak`ed `&'static [u8]` that a
   new `Drop for Response` gives back.  Every result that IS built exposes the same bytes as before
   and releases them once; but the two `?` between the leak and `Ok(Response { .. })` return early
   without anything that could give the bytes back: the wire buffer of every REFUSED reply (damaged
   CRC, unknown codec, magic != 0, nesting beyond MAX_COMPRESSION_DEPTH, cut-off frame) is
   released zero times.

   NOT EXPRESSIBLE in the model.  `Responses.fetch_from_vec : ... -> bytes -> res fetch_resp` is a
   function on VALUES; the model has no heap, no allocation and no release, and for a refused reply
   its result `Err e` carries no buffer at all.  The changed Rust lines (who owns the `Vec<u8>`
   between `from_vec`'s entry and its return, and which destructor runs) have no counterpart:
   mirrored, the change is the identity on Model/Responses.v, Model/Ownership.v and Model/Client.v
   (every value returned, every error, every I/O event is the same), so every theorem of
   Props/C18.v - and any other statement about the model - stays provable.  (The differential
   harness sees the change only through its memory oracle: bytes held by the process after refused
   rounds.)

   The nearest statements the model CAN express - none was in Props/C18.v, whose theorems all start
   from a result that was built (`... = Ok resp`) - are about the fault dimension the seed lives in:

   A. what a fetch leaves behind, refused or not (whole call, histories)
      C18_fetch_round_leaves_behind     KafkaClient::fetch_messages against one broker, the stream
                                        delivering ONE frame with ANY payload b: the outcome is
                                        Response::from_vec of b (refused -> the call's error,
                                        nothing handed out), and the client afterwards is described
                                        completely WITHOUT b: correlation id bumped, nothing else
      C18_reply_contents_not_kept       hence two runs that differ only in the reply's bytes end in
                                        the same client: no part of a reply - accepted or refused -
                                        stays in the client (the model's form of "nothing of the
                                        reply is retained by the client once the call returned")
      C18_refused_poll_then_next_poll   the same through Consumer::poll: the refused poll leaves a
                                        consumer that asks for the same offsets again; the next
                                        poll's outcome is made of the second reply alone
      C18_refused_reply_then_next_fetch a refused reply, then the same call again: the second call
                                        is Response::from_vec of ITS OWN reply, whatever the first
                                        held; topic names, keys and values of the second result are
                                        sub-slices of the second reply / of vectors inflated from it
   B. why a reply is refused (converse, ALL inputs)
      C18_refused_reply_cause           Response::from_vec refuses only if the frame is cut short /
                                        a topic name is not UTF-8, or a message set that sits AT A
                                        POSITION OF THE REPLY is refused by MessageSet::from_slice
                                        with that very error
      C18_failed_fetch_step_cause       one per-broker round of fetch_messages that fails: either the
                                        transport failed (no complete reply was read), or a complete
                                        reply b was read, the client is as it was before the read,
                                        and b was refused for one of the causes above
      C18_failed_fetch_cause            the same for the whole call KafkaClient::fetch_messages

   Not done: an accounting of acquire/release (would need a heap in the model; a ledger defined in
   a proof file would not be touched by the mirrored change, so it could not detect it either);
   the n-fold iteration of C18_refused_reply_then_next_fetch (the theorem re-establishes its own
   hypotheses about the client, so it iterates, but each round needs its own request bytes). *)
From KV Require Import Base.Prelude Base.Crc32 Base.Snappy Gen.ErrorCodes Gen.Consts
                       Model.Codecs Model.Requests Model.Responses
                       Model.ClientState Model.Net Model.Client Model.Ownership
                       Spec.MsgSetSpec Spec.RespGrammar
                       Proofs.BytesFacts Proofs.C10Facts Proofs.C02Lemmas Proofs.C02Facts
                       Proofs.C02Extra Proofs.C02ExtraB Proofs.C02ExtraC Proofs.C02ExtraD
                       Proofs.C18Facts Proofs.C18Extra Proofs.NetFacts.
From KV Require Model.Consumer Proofs.C01Extra Proofs.C13Decode Proofs.C13ExtraD Proofs.C04ExtraB Proofs.C18Extra2.
From Coq Require Import ZifyBool.

(* ====================================================================== *)
(* A. what a fetch leaves behind                                            *)
(* ====================================================================== *)

(* the client after one more request was numbered: nothing but the correlation id moves *)
Definition bumped (c : client) : client :=
  {| cfg := cfg c; cs := snd (next_correlation_id (cs c)); conns := conns c |}.

(* what fetch_messages makes of Response::from_vec's verdict on the one reply *)
Definition fetch_outcome (r : res fetch_resp) : res (list fetch_resp) :=
  match r with Ok resp => Ok [resp] | Err e => Err e | Panic w => Panic w end.

(* KafkaClient::fetch_messages(input), every partition asked for led by broker h whose pooled
   connection takes the request and delivers one frame with ANY payload b (accepted or refused):
   the outcome is Response::from_vec of b; the state afterwards - script, client, codecs, every
   order queue - is given in full and does not mention b. *)
Theorem C18_fetch_round_leaves_behind : forall input s h p b tail,
  input <> [] ->
  (forall q, In q input -> find_broker (cs (cl s)) (fq_topic q) (fq_partition q) = Some h) ->
  in_pool h (conns (cl s)) = true -> idle_expired (cfg (cl s)) = false ->
  let corr := fst (next_correlation_id (cs (cl s))) in
  let adds := map (ask_mb (cfg (cl s))) input in
  enc_fetch_req corr (client_id (cfg (cl s))) (fetch_max_wait_time (cfg (cl s))) (fetch_min_bytes (cfg (cl s)))
                (match assoc_bytes h (fetchq s) with
                 | Some o => order_fetch o (build_reqs adds) | None => build_reqs adds end) = Ok p ->
  ulen b <= i32_max ->
  script s = OWrote (ulen (frame p)) :: OData (p_i32 (ulen b)) :: map OData (chunk_list (length b) b) ++ tail ->
  exists s',
    fetch_messages input s
    = (fetch_outcome (fetch_from_vec (env s) decode_depth (fetch_crc_validation (cfg (cl s))) (build_reqs adds) b), s')
    /\ script s' = tail /\ cl s' = bumped (cl s) /\ env s' = env s /\ fetchq s' = fetchq s
    /\ anyq s' = anyq s /\ entryq s' = entryq s /\ hostq s' = tl (hostq s).
Proof.
  intros input s h p b tail Hne Hall Hpool Hidle corr adds Henc Hmax Hs.
  unfold fetch_messages, next_corr.
  unfold mbind at 1. unfold mbind at 1, get_client at 1.
  destruct (next_correlation_id (cs (cl s))) as [n cs'] eqn:En.
  assert (Ecs : cs' = snd (next_correlation_id (cs (cl s)))) by (try rewrite En; reflexivity).
  assert (En' : n = corr) by (unfold corr; try rewrite En; reflexivity).
  unfold set_cs, mbind at 1, get_client at 1, set_client, ret. cbn [cl cfg cs conns].
  unfold mbind at 1. cbn [cl].
  set (c0 := {| cfg := cfg (cl s); cs := cs'; conns := conns (cl s) |}).
  assert (Ec0 : c0 = bumped (cl s)).
  { unfold c0, bumped. rewrite Ecs. try rewrite En. reflexivity. }
  assert (Er : fetch_reqs c0 input = [(h, build_reqs adds)]).
  { apply (fetch_reqs_one_broker c0 h input Hne). intros q Hq.
    unfold c0. cbn [cs]. rewrite Ecs. exact (Hall q Hq). }
  unfold mbind at 1, get_client at 1. cbn [cl]. rewrite Er. unfold ordered, mbind at 1, pop_hosts. cbn [hostq].
  assert (G : forall s1, script s1 = script s -> fetchq s1 = fetchq s -> env s1 = env s -> cl s1 = c0 ->
              exists s', fetch_exchange n [(h, build_reqs adds)] [] s1
                         = (fetch_outcome (fetch_from_vec (env s) decode_depth (fetch_crc_validation (cfg (cl s)))
                                                          (build_reqs adds) b), s')
                         /\ script s' = tail /\ only_io s1 s').
  { intros s1 G1 G2 G3 G4.
    destruct (fetch_round_io n h (build_reqs adds) s1 p b tail) as [s' [F1 [F2 F3]]].
    - rewrite G4. exact Hpool.
    - rewrite G4. exact Hidle.
    - rewrite G4, G2, En'. exact Henc.
    - exact Hmax.
    - rewrite G1. exact Hs.
    - exists s'. split; [|split; [exact F2|exact F3]].
      rewrite fetch_exchange_round. unfold mbind. rewrite F1. rewrite G3, G4.
      change (cfg c0) with (cfg (cl s)).
      destruct (fetch_from_vec (env s) decode_depth (fetch_crc_validation (cfg (cl s))) (build_reqs adds) b);
        reflexivity. }
  destruct (hostq s) as [|o hq] eqn:Eh; unfold mbind, ret; cbn [hostq]; rewrite ?reorder_single.
  - match goal with |- exists s', fetch_exchange _ _ _ ?s1 = _ /\ _ =>
      destruct (G s1 eq_refl eq_refl eq_refl eq_refl) as [s' [F1 [F2 (O1 & O2 & O3 & O4 & O5 & O6)]]] end.
    exists s'. split; [exact F1|]. split; [exact F2|].
    cbn [anyq hostq fetchq entryq cl env] in O1, O2, O3, O4, O5, O6.
    cbn [tl]. repeat split; congruence.
  - match goal with |- exists s', fetch_exchange _ _ _ ?s1 = _ /\ _ =>
      destruct (G s1 eq_refl eq_refl eq_refl eq_refl) as [s' [F1 [F2 (O1 & O2 & O3 & O4 & O5 & O6)]]] end.
    exists s'. split; [exact F1|]. split; [exact F2|].
    cbn [anyq hostq fetchq entryq cl env] in O1, O2, O3, O4, O5, O6.
    cbn [tl]. repeat split; congruence.
Qed.

(* two states that differ at most in what the stream will deliver (and in the log of events) *)
Definition same_client (s t : st) : Prop :=
  cl t = cl s /\ env t = env s /\ fetchq t = fetchq s /\ anyq t = anyq s /\ entryq t = entryq s /\
  hostq t = hostq s.

(* Two runs of the same call from the same client, the broker answering with DIFFERENT bytes b and
   b' (of any lengths; either may be refused, accepted, or make the decoder panic): afterwards the
   two clients, their codecs, their queues and what is left of the stream are the same.  Nothing of
   a reply's contents outlives the call in the client; it lives in the returned result only. *)
Theorem C18_reply_contents_not_kept : forall input s t h p b b' tail,
  same_client s t ->
  input <> [] ->
  (forall q, In q input -> find_broker (cs (cl s)) (fq_topic q) (fq_partition q) = Some h) ->
  in_pool h (conns (cl s)) = true -> idle_expired (cfg (cl s)) = false ->
  let corr := fst (next_correlation_id (cs (cl s))) in
  let adds := map (ask_mb (cfg (cl s))) input in
  enc_fetch_req corr (client_id (cfg (cl s))) (fetch_max_wait_time (cfg (cl s))) (fetch_min_bytes (cfg (cl s)))
                (match assoc_bytes h (fetchq s) with
                 | Some o => order_fetch o (build_reqs adds) | None => build_reqs adds end) = Ok p ->
  ulen b <= i32_max -> ulen b' <= i32_max ->
  script s = OWrote (ulen (frame p)) :: OData (p_i32 (ulen b)) :: map OData (chunk_list (length b) b) ++ tail ->
  script t = OWrote (ulen (frame p)) :: OData (p_i32 (ulen b')) :: map OData (chunk_list (length b') b') ++ tail ->
  same_client (snd (fetch_messages input s)) (snd (fetch_messages input t))
  /\ script (snd (fetch_messages input s)) = script (snd (fetch_messages input t))
  /\ fst (fetch_messages input s)
     = fetch_outcome (fetch_from_vec (env s) decode_depth (fetch_crc_validation (cfg (cl s))) (build_reqs adds) b)
  /\ fst (fetch_messages input t)
     = fetch_outcome (fetch_from_vec (env s) decode_depth (fetch_crc_validation (cfg (cl s))) (build_reqs adds) b').
Proof.
  intros input s t h p b b' tail (T1 & T2 & T3 & T4 & T5 & T6) Hne Hall Hpool Hidle corr adds Henc Hb Hb' Hs Ht.
  destruct (C18_fetch_round_leaves_behind input s h p b tail Hne Hall Hpool Hidle Henc Hb Hs)
    as [s' [F (A1 & A2 & A3 & A4 & A5 & A6 & A7)]].
  destruct (C18_fetch_round_leaves_behind input t h p b' tail Hne) as [t' [F' (B1 & B2 & B3 & B4 & B5 & B6 & B7)]].
  - rewrite T1. exact Hall.
  - rewrite T1. exact Hpool.
  - rewrite T1. exact Hidle.
  - rewrite T1, T3. exact Henc.
  - exact Hb'.
  - exact Ht.
  - rewrite T1, T2 in F'. rewrite F, F'. cbn [fst snd].
    split; [|split; [congruence|split; reflexivity]].
    unfold same_client. rewrite A2, A3, A4, A5, A6, A7, B2, B3, B4, B5, B6, B7, T1, T2, T3, T4, T5, T6.
    repeat split; reflexivity.
Qed.

Lemma find_broker_bumped c t q : find_broker (cs (bumped c)) t q = find_broker (cs c) t q.
Proof. reflexivity. Qed.

(* HISTORY: a reply that is refused, then the same call again (the usual reaction of a consumer
   that keeps polling).  The first call returns the error and hands out nothing; the second call
   is Response::from_vec of the SECOND reply alone - its outcome does not depend on b1 - and when
   it is accepted, every topic name of its result is a sub-slice of b2 and the keys and values of
   every partition are sub-slices of one buffer: a byte range of b2 (level 0) or the vector
   inflated from one (level >= 1), owned by the result. *)
Theorem C18_refused_reply_then_next_fetch : forall input s h p1 p2 b1 b2 e tail,
  input <> [] ->
  (forall q, In q input -> find_broker (cs (cl s)) (fq_topic q) (fq_partition q) = Some h) ->
  in_pool h (conns (cl s)) = true -> idle_expired (cfg (cl s)) = false ->
  let c := cfg (cl s) in
  let adds := map (ask_mb c) input in
  let tps := match assoc_bytes h (fetchq s) with
             | Some o => order_fetch o (build_reqs adds) | None => build_reqs adds end in
  let corr1 := fst (next_correlation_id (cs (cl s))) in
  let corr2 := fst (next_correlation_id (cs (bumped (cl s)))) in
  enc_fetch_req corr1 (client_id c) (fetch_max_wait_time c) (fetch_min_bytes c) tps = Ok p1 ->
  enc_fetch_req corr2 (client_id c) (fetch_max_wait_time c) (fetch_min_bytes c) tps = Ok p2 ->
  ulen b1 <= i32_max -> ulen b2 <= i32_max ->
  script s = (OWrote (ulen (frame p1)) :: OData (p_i32 (ulen b1)) :: map OData (chunk_list (length b1) b1))
             ++ OWrote (ulen (frame p2)) :: OData (p_i32 (ulen b2)) :: map OData (chunk_list (length b2) b2) ++ tail ->
  fetch_from_vec (env s) decode_depth (fetch_crc_validation c) (build_reqs adds) b1 = Err e ->
  exists s1 s2,
    fetch_messages input s = (Err e, s1) /\
    cl s1 = bumped (cl s) /\
    fetch_messages input s1
    = (fetch_outcome (fetch_from_vec (env s) decode_depth (fetch_crc_validation c) (build_reqs adds) b2), s2) /\
    script s2 = tail /\ cl s2 = bumped (bumped (cl s)) /\
    (forall resp t pt hw msgs,
       fetch_from_vec (env s) decode_depth (fetch_crc_validation c) (build_reqs adds) b2 = Ok resp ->
       In t (fr_topics resp) -> In pt (ft_partitions t) -> fp_data pt = inl (hw, msgs) ->
       subslice (ft_topic t) b2 /\
       exists raw l buf,
         subslice raw b2 /\
         view_buffer (env s) decode_depth (fetch_crc_validation c) raw = Ok (l, buf) /\
         owner_level (env s) decode_depth (fetch_crc_validation c) raw = Ok (if (l =? 0)%nat then None else Some l) /\
         (l = 0%nat -> buf = raw) /\
         Forall (fun m => subslice (m_key m) buf /\ subslice (m_value m) buf) msgs).
Proof.
  intros input s h p1 p2 b1 b2 e tail Hne Hall Hpool Hidle c adds tps corr1 corr2 Henc1 Henc2 Hb1 Hb2 Hs Hrej.
  cbn [app] in Hs.
  destruct (C18_fetch_round_leaves_behind input s h p1 b1 _ Hne Hall Hpool Hidle Henc1 Hb1 Hs)
    as [s1 [F1 (A1 & A2 & A3 & A4 & A5 & A6 & A7)]].
  fold c adds in F1. rewrite Hrej in F1. cbn [fetch_outcome] in F1.
  destruct (C18_fetch_round_leaves_behind input s1 h p2 b2 tail Hne) as [s2 [F2 (B1 & B2 & B3 & B4 & B5 & B6 & B7)]].
  - intros q Hq. rewrite A2, find_broker_bumped. exact (Hall q Hq).
  - rewrite A2. exact Hpool.
  - rewrite A2. exact Hidle.
  - rewrite A2, A4. exact Henc2.
  - exact Hb2.
  - rewrite A1. reflexivity.
  - rewrite A2, A3 in F2. change (cfg (bumped (cl s))) with c in F2. fold adds in F2.
    exists s1, s2. split; [exact F1|]. split; [exact A2|]. split; [exact F2|]. split; [exact B1|].
    split; [rewrite B2, A2; reflexivity|].
    intros resp t pt hw msgs Hok Ht Hp Hd.
    destruct (C18_fetch_views_owned _ _ _ _ _ _ _ _ _ _ Hok Ht Hp Hd) as [Hn [raw [l [buf (R1 & R2 & R3 & R4 & _ & R6)]]]].
    split; [exact Hn|]. exists raw, l, buf. repeat split; assumption.
Qed.

(* HISTORY through Consumer::poll (no retry partition pending): the poll whose reply is refused
   returns that error and leaves a consumer that differs from k in its client's correlation id
   only; the NEXT poll therefore asks for exactly the same offsets, and its outcome is
   Response::from_vec of the second reply alone: accepted -> processed as the one response of the
   poll result (which keeps it whole, C18_poll_keeps_responses), refused -> that error again. *)
Theorem C18_refused_poll_then_next_poll : forall k input s h p1 p2 b1 b2 e tail,
  Consumer.k_retry k = [] -> C04ExtraB.poll_input k = Some input ->
  input <> [] ->
  (forall q, In q input -> find_broker (cs (cl s)) (fq_topic q) (fq_partition q) = Some h) ->
  in_pool h (conns (cl s)) = true -> idle_expired (cfg (cl s)) = false ->
  let c := cfg (cl s) in
  let adds := map (ask_mb c) input in
  let tps := match assoc_bytes h (fetchq s) with
             | Some o => order_fetch o (build_reqs adds) | None => build_reqs adds end in
  let corr1 := fst (next_correlation_id (cs (cl s))) in
  let corr2 := fst (next_correlation_id (cs (bumped (cl s)))) in
  enc_fetch_req corr1 (client_id c) (fetch_max_wait_time c) (fetch_min_bytes c) tps = Ok p1 ->
  enc_fetch_req corr2 (client_id c) (fetch_max_wait_time c) (fetch_min_bytes c) tps = Ok p2 ->
  ulen b1 <= i32_max -> ulen b2 <= i32_max ->
  script s = (OWrote (ulen (frame p1)) :: OData (p_i32 (ulen b1)) :: map OData (chunk_list (length b1) b1))
             ++ OWrote (ulen (frame p2)) :: OData (p_i32 (ulen b2)) :: map OData (chunk_list (length b2) b2) ++ tail ->
  fetch_from_vec (env s) decode_depth (fetch_crc_validation c) (build_reqs adds) b1 = Err e ->
  let k1 := Consumer.consumer_with_client k (bumped (cl s)) in
  let k2 := Consumer.consumer_with_client k (bumped (bumped (cl s))) in
  exists s1 s2,
    Consumer.consumer_poll k s = (Ok (Err e, k1), s1) /\
    C04ExtraB.poll_input k1 = Some input /\
    Consumer.consumer_poll k1 s1
    = (match fetch_from_vec (env s) decode_depth (fetch_crc_validation c) (build_reqs adds) b2 with
       | Ok resp => Ok (Consumer.process_fetch_responses (debug_build (env s)) k2 (ulen (Consumer.k_fetch k)) [resp])
       | Err e2 => Ok (Err e2, k2)
       | Panic w => Panic w
       end, s2) /\
    script s2 = tail /\
    (forall ms k3, Consumer.consumer_poll k1 s1 = (Ok (Ok ms, k3), s2) ->
       exists resp, fetch_from_vec (env s) decode_depth (fetch_crc_validation c) (build_reqs adds) b2 = Ok resp /\
                    Consumer.ms_responses ms = [resp]).
Proof.
  intros k input s h p1 p2 b1 b2 e tail Hr Hpi Hne Hall Hpool Hidle c adds tps corr1 corr2
         Henc1 Henc2 Hb1 Hb2 Hs Hrej k1 k2.
  destruct (C18_refused_reply_then_next_fetch input s h p1 p2 b1 b2 e tail Hne Hall Hpool Hidle
              Henc1 Henc2 Hb1 Hb2 Hs Hrej) as [s1 [s2 (F1 & A2 & F2 & B1 & B2 & _)]].
  fold c adds in F2.
  assert (Hpi1 : C04ExtraB.poll_input k1 = Some input) by exact Hpi.
  assert (P1 : Consumer.consumer_poll k s = (Ok (Err e, k1), s1)).
  { rewrite (C04ExtraB.C04_consumer_poll_fetch k input s Hpi), F1.
    unfold C04ExtraB.poll_consumer. rewrite Hr, A2. reflexivity. }
  assert (E2 : env s2 = env s).
  { destruct (C13ExtraD.keeps_fetch_messages input s _ _ F1) as [V1 _].
    destruct (C13ExtraD.keeps_fetch_messages input s1 _ _ F2) as [V2 _]. congruence. }
  assert (P2 : Consumer.consumer_poll k1 s1
    = (match fetch_from_vec (env s) decode_depth (fetch_crc_validation c) (build_reqs adds) b2 with
       | Ok resp => Ok (Consumer.process_fetch_responses (debug_build (env s)) k2 (ulen (Consumer.k_fetch k)) [resp])
       | Err e2 => Ok (Err e2, k2)
       | Panic w => Panic w
       end, s2)).
  { rewrite (C04ExtraB.C04_consumer_poll_fetch k1 input s1 Hpi1), F2.
    unfold C04ExtraB.poll_consumer, C04ExtraB.poll_count.
    change (Consumer.k_retry k1) with (Consumer.k_retry k). rewrite Hr, B2, E2.
    destruct (fetch_from_vec (env s) decode_depth (fetch_crc_validation c) (build_reqs adds) b2);
      reflexivity. }
  exists s1, s2. split; [exact P1|]. split; [exact Hpi1|]. split; [exact P2|]. split; [exact B1|].
  intros ms k3 H. rewrite P2 in H.
  destruct (fetch_from_vec (env s) decode_depth (fetch_crc_validation c) (build_reqs adds) b2) as [resp|e2|w];
    [|inversion H|discriminate H].
  exists resp. split; [reflexivity|].
  inversion H as [H1]. eapply C18Extra2.C18_poll_keeps_responses. exact H1.
Qed.

(* ====================================================================== *)
(* B. why a reply is refused                                                *)
(* ====================================================================== *)

(* the reasons for which the readers of protocol/fetch.rs give up on the bytes `bs`: the frame
   ends before its contents, a topic name is not UTF-8, or a message set lying in `bs` is refused
   by MessageSet::from_slice with the same error (EOutOfFuel: the model's own bound, excluded
   at the end) *)
Definition refusal_cause (cz : codecs) (depth : nat) (validate : bool) (e : err) (bs : bytes) : Prop :=
  e = EUnexpectedEOF \/ e = EStringDecode \/ e = EOutOfFuel \/
  exists raw req, subslice raw bs /\ from_slice cz depth validate req raw = Err e.

Lemma refusal_cause_pre cz depth validate e pre bs :
  refusal_cause cz depth validate e bs -> refusal_cause cz depth validate e (pre ++ bs).
Proof.
  intros [H|[H|[H|[raw [req [H1 H2]]]]]]; [left; exact H|right; left; exact H|right; right; left; exact H|].
  right; right; right. exists raw, req. split; [|exact H2].
  apply (subslice_widen raw bs pre []) in H1. rewrite app_nil_r in H1. exact H1.
Qed.

Lemma zread_err n bs e : zread n bs = Err e -> e = EUnexpectedEOF.
Proof. unfold zread. destruct (Nat.ltb _ _); intros H; inversion H; reflexivity. Qed.

Lemma zread_int_err n bs e :
  (let* '(x, r') := zread n bs in Ok (be_dec_s x, r')) = Err e -> e = EUnexpectedEOF.
Proof.
  destruct (zread n bs) as [[x r]|e'|w] eqn:E; cbn [bind]; intros H; try discriminate H.
  inversion H; subst. eapply zread_err; exact E.
Qed.

Lemma zread_bytes_err bs e : zread_bytes bs = Err e -> e = EUnexpectedEOF.
Proof.
  intros H. rewrite zread_bytes_unfold in H.
  destruct (zread_i32 bs) as [[len r1]|e'|w] eqn:E; cbn [bind] in H; try discriminate H.
  - destruct (len <=? 0); [discriminate H|].
    destruct (Z.of_nat (length r1) <? len); [inversion H; reflexivity|]. eapply zread_err; exact H.
  - inversion H; subst. unfold zread_i32 in E. eapply zread_int_err; exact E.
Qed.

Lemma zread_str_err bs e : zread_str bs = Err e -> e = EUnexpectedEOF \/ e = EStringDecode.
Proof.
  intros H. unfold zread_str in H.
  destruct (zread_i16 bs) as [[len r1]|e'|w] eqn:E; cbn [bind] in H; try discriminate H.
  - destruct (len <=? 0); [discriminate H|].
    destruct (zread (Z.to_nat len) r1) as [[s' r2]|e'|w] eqn:E2; cbn [bind] in H; try discriminate H.
    + destruct (Utf8.utf8_valid s'); [discriminate H|]. inversion H. right. reflexivity.
    + inversion H; subst. left. eapply zread_err; exact E2.
  - inversion H; subst. left. unfold zread_i16 in E. eapply zread_int_err; exact E.
Qed.

(* array_of!: the array is refused because one element, read at a position of the array's bytes,
   is refused *)
Lemma zread_many_err {A} (d : bytes -> res (A * bytes)) (Q : err -> bytes -> Prop) :
  (forall pre bs e, Q e bs -> Q e (pre ++ bs)) ->
  (forall bs x r, d bs = Ok (x, r) -> exists used, bs = used ++ r) ->
  (forall bs e, d bs = Err e -> Q e bs) ->
  forall fuel count bs e, zread_many d fuel count bs = Err e -> e = EOutOfFuel \/ Q e bs.
Proof.
  intros Hw Hok Herr. induction fuel as [|f IH]; intros count bs e H.
  - cbn [zread_many] in H. destruct (count <=? 0); [discriminate H|]. inversion H. left. reflexivity.
  - cbn [zread_many] in H. destruct (count <=? 0); [discriminate H|].
    destruct (d bs) as [[x r1]|e'|w] eqn:E; cbn [bind] in H; try discriminate H.
    + destruct (zread_many d f (count - 1) r1) as [[xs' r2]|e'|w] eqn:E2; cbn [bind] in H; try discriminate H.
      inversion H; subst e'. destruct (IH _ _ _ E2) as [K|K]; [left; exact K|right].
      destruct (Hok _ _ _ E) as [u ->]. apply Hw. exact K.
    + inversion H; subst e'. right. apply Herr. exact E.
Qed.

Lemma zread_array_err {A} (sz : Z) (d : bytes -> res (A * bytes)) (Q : err -> bytes -> Prop) :
  (forall pre bs e, Q e bs -> Q e (pre ++ bs)) ->
  (forall bs x r, d bs = Ok (x, r) -> exists used, bs = used ++ r) ->
  (forall bs e, d bs = Err e -> Q e bs) ->
  forall bs e, zread_array sz d bs = Err e -> e = EUnexpectedEOF \/ e = EOutOfFuel \/ Q e bs.
Proof.
  intros Hw Hok Herr bs e H. unfold zread_array in H.
  destruct (zread_array_len bs) as [[n r1]|e'|w] eqn:E; cbn [bind] in H; try discriminate H.
  - unfold zread_array_len in E.
    destruct (zread_i32 bs) as [[len r0]|e'|w] eqn:E0; cbn [bind] in E; try discriminate E.
    inversion E; subst n r1. clear E.
    unfold zread_i32 in E0. apply zread_int_inv in E0. destruct E0 as [h0 [_ ->]].
    destruct (zread_many_err d Q Hw Hok Herr _ _ _ _ H) as [K|K]; [right; left; exact K|].
    right; right. apply Hw. exact K.
  - inversion H; subst e'. left. unfold zread_array_len in E.
    destruct (zread_i32 bs) as [[len r0]|e'|w] eqn:E0; cbn [bind] in E; try discriminate E.
    inversion E; subst e'. unfold zread_i32 in E0. eapply zread_int_err; exact E0.
Qed.

Lemma read_partition_used cz depth validate preqs bs p r :
  read_partition cz depth validate preqs bs = Ok (p, r) -> exists used, bs = used ++ r.
Proof.
  intros H. destruct (read_partition_within _ _ _ _ _ _ _ H) as [u [Hu _]]. exists u. exact Hu.
Qed.

Lemma read_partition_err cz depth validate preqs bs e :
  read_partition cz depth validate preqs bs = Err e -> refusal_cause cz depth validate e bs.
Proof.
  intros H. unfold read_partition in H.
  destruct (zread_i32 bs) as [[pid r1]|e'|w] eqn:E1; cbn [bind] in H; try discriminate H.
  2:{ inversion H; subst e'. left. unfold zread_i32 in E1. eapply zread_int_err; exact E1. }
  destruct (zread_i16 r1) as [[ec r2]|e'|w] eqn:E2; cbn [bind] in H; try discriminate H.
  2:{ inversion H; subst e'. left. unfold zread_i16 in E2. eapply zread_int_err; exact E2. }
  destruct (zread_i64 r2) as [[hw r3]|e'|w] eqn:E3; cbn [bind] in H; try discriminate H.
  2:{ inversion H; subst e'. left. unfold zread_i64 in E3. eapply zread_int_err; exact E3. }
  destruct (zread_bytes r3) as [[raw r4]|e'|w] eqn:E4; cbn [bind] in H; try discriminate H.
  2:{ inversion H; subst e'. left. eapply zread_bytes_err; exact E4. }
  match type of H with (let* msgs := from_slice cz depth validate ?q raw in _) = _ =>
    set (req := q) in *; destruct (from_slice cz depth validate req raw) as [msgs|e'|w] eqn:E5 end;
    cbn [bind] in H; try discriminate H.
  inversion H; subst e'. clear H.
  unfold zread_i32 in E1. apply zread_int_inv in E1. destruct E1 as [h1 [_ ->]].
  unfold zread_i16 in E2. apply zread_int_inv in E2. destruct E2 as [h2 [_ ->]].
  unfold zread_i64 in E3. apply zread_int_inv in E3. destruct E3 as [h3 [_ ->]].
  apply zread_bytes_inv in E4. destruct E4 as [h4 [_ ->]].
  right; right; right. exists raw, req. split; [|exact E5].
  exists (h1 ++ h2 ++ h3 ++ h4), r4. rewrite <- !app_assoc. reflexivity.
Qed.

Lemma read_topic_used cz depth validate reqs bs t r :
  read_topic cz depth validate reqs bs = Ok (t, r) -> exists used, bs = used ++ r.
Proof.
  intros H. destruct (read_topic_within _ _ _ _ _ _ _ H) as [u [Hu _]]. exists u. exact Hu.
Qed.

Lemma read_topic_err cz depth validate reqs bs e :
  read_topic cz depth validate reqs bs = Err e -> refusal_cause cz depth validate e bs.
Proof.
  intros H. unfold read_topic in H.
  destruct (zread_str bs) as [[name r1]|e'|w] eqn:E1; cbn [bind] in H; try discriminate H.
  2:{ inversion H; subst e'. destruct (zread_str_err _ _ E1) as [K|K]; [left; exact K|right; left; exact K]. }
  destruct (zread_array 64 (read_partition cz depth validate (assoc_bytes name reqs)) r1)
    as [[ps r2]|e'|w] eqn:E2; cbn [bind] in H; try discriminate H.
  inversion H; subst e'. clear H.
  apply zread_str_inv in E1. destruct E1 as [h0 ->].
  apply (zread_array_err 64 _ (refusal_cause cz depth validate)) in E2.
  - destruct E2 as [K|[K|K]]; [left; exact K|right; right; left; exact K|].
    rewrite app_assoc. apply refusal_cause_pre. exact K.
  - intros pre bs' e'. apply refusal_cause_pre.
  - intros bs' x r'. apply read_partition_used.
  - intros bs' e'. apply read_partition_err.
Qed.

(* Response::from_vec, ALL inputs, converse of C02_response_refused: a reply is refused ONLY for a
   frame that ends before its contents, a topic name that is not UTF-8, or a message set - a byte
   range of the reply - which MessageSet::from_slice refuses with that very error (damaged CRC,
   unknown codec, magic != 0, nesting beyond the depth limit, a decompressor's error).  These are
   exactly the replies whose wire buffer C18-7 never gives back. *)
Theorem C18_refused_reply_cause : forall cz depth validate reqs bs e,
  fetch_from_vec cz depth validate reqs bs = Err e ->
  e = EUnexpectedEOF \/ e = EStringDecode \/
  exists raw req, subslice raw bs /\ from_slice cz depth validate req raw = Err e.
Proof.
  intros cz depth validate reqs bs e H.
  assert (Hf : e <> EOutOfFuel).
  { intros ->. exact (C13Decode.C13_fetch_response_depth cz depth validate reqs bs H). }
  assert (K : refusal_cause cz depth validate e bs).
  { unfold fetch_from_vec in H.
    destruct (zread_i32 bs) as [[c r1]|e'|w] eqn:E1; cbn [bind] in H; try discriminate H.
    2:{ inversion H; subst e'. left. unfold zread_i32 in E1. eapply zread_int_err; exact E1. }
    destruct (zread_array 40 (read_topic cz depth validate reqs) r1) as [[ts r2]|e'|w] eqn:E2;
      cbn [bind] in H; try discriminate H.
    inversion H; subst e'. clear H.
    unfold zread_i32 in E1. apply zread_int_inv in E1. destruct E1 as [h0 [_ ->]].
    apply (zread_array_err 40 _ (refusal_cause cz depth validate)) in E2.
    - destruct E2 as [K|[K|K]]; [left; exact K|right; right; left; exact K|].
      apply refusal_cause_pre. exact K.
    - intros pre bs' e'. apply refusal_cause_pre.
    - intros bs' x r'. apply read_topic_used.
    - intros bs' e'. apply read_topic_err. }
  destruct K as [K|[K|[K|K]]]; [left; exact K|right; left; exact K|contradiction|right; right; exact K].
Qed.

(* one per-broker round of __fetch_messages (C01Extra.fetch_one = get_conn; send; read; from_vec)
   that fails: either the transport failed before a complete reply was there, or a complete reply
   b was read - the state the call leaves is the state right after that read, with the client
   exactly as before it - and b was refused for one of the causes above. *)
Theorem C18_failed_fetch_step_cause : forall corr h tps s e s',
  C01Extra.fetch_one corr h tps s = (Err e, s') ->
  (exists s1, get_conn h s = (Err e, s') \/
              (get_conn h s = (Ok tt, s1) /\
               (exists payload, send_request h payload s1 = (Err e, s') \/
                  exists z s2, send_request h payload s1 = (Ok z, s2) /\ get_response_bytes h s2 = (Err e, s'))))
  \/
  (exists b s2,
      get_response_bytes h s2 = (Ok b, s') /\ cl s' = cl s2 /\ env s' = env s /\ cfg (cl s') = cfg (cl s) /\
      fetch_from_vec (env s) decode_depth (fetch_crc_validation (cfg (cl s))) tps b = Err e /\
      (e = EUnexpectedEOF \/ e = EStringDecode \/
       exists raw req, subslice raw b /\
                       from_slice (env s) decode_depth (fetch_crc_validation (cfg (cl s))) req raw = Err e)).
Proof.
  intros corr h tps s e s' H. unfold C01Extra.fetch_one in H.
  unfold mbind at 1 in H. unfold get_client at 1 in H.
  unfold mbind at 1 in H. unfold get_env at 1 in H.
  unfold mbind at 1 in H. unfold get_fetch_order at 1 in H.
  unfold mbind at 1 in H.
  destruct (get_conn h s) as [[u|e1|w] s1] eqn:E1; try discriminate H.
  2:{ inversion H; subst. left. exists s. left. reflexivity. }
  destruct u.
  unfold mbind at 1 in H.
  match type of H with context [send_request h ?pl s1] => set (payload := pl) in * end.
  destruct (send_request h payload s1) as [[z|e2|w] s2] eqn:E2; try discriminate H.
  2:{ inversion H; subst. left. exists s1. right. split; [reflexivity|]. exists payload. left. exact E2. }
  unfold mbind at 1 in H.
  destruct (get_response_bytes h s2) as [[b|e3|w] s3] eqn:E3; try discriminate H.
  2:{ inversion H; subst. left. exists s1. right. split; [reflexivity|]. exists payload. right.
      exists z, s2. split; [exact E2|exact E3]. }
  unfold lift in H.
  destruct (fetch_from_vec (env s) decode_depth (fetch_crc_validation (cfg (cl s))) tps b) as [resp|e4|w] eqn:E4;
    try discriminate H.
  inversion H; subst e4 s3. clear H.
  right. exists b, s2. split; [exact E3|].
  pose proof (frame_get_response_bytes h s2 _ _ E3) as (_ & _ & _ & _ & F5 & F6).
  pose proof (frame_send_request h payload s1 _ _ E2) as (_ & _ & _ & _ & G5 & G6).
  pose proof (frame_get_conn h s _ _ E1) as (_ & _ & _ & _ & K5 & K6 & _).
  split; [exact F5|]. split; [congruence|]. split; [congruence|]. split; [exact E4|].
  exact (C18_refused_reply_cause _ _ _ _ _ _ E4).
Qed.

(* KafkaClient::fetch_messages, the whole call: a failure is the failure of ONE per-broker round,
   all rounds before it having delivered their responses (which the call then drops); that round
   failed for one of the reasons of C18_failed_fetch_step_cause *)
Theorem C18_failed_fetch_cause : forall input s e s',
  fetch_messages input s = (Err e, s') ->
  exists corr h tps s1,
    C01Extra.fetch_one corr h tps s1 = (Err e, s') /\
    ((exists s2, get_conn h s1 = (Err e, s') \/
                 (get_conn h s1 = (Ok tt, s2) /\
                  (exists payload, send_request h payload s2 = (Err e, s') \/
                     exists z s3, send_request h payload s2 = (Ok z, s3) /\ get_response_bytes h s3 = (Err e, s'))))
     \/
     (exists b s2,
         get_response_bytes h s2 = (Ok b, s') /\ cl s' = cl s2 /\
         fetch_from_vec (env s1) decode_depth (fetch_crc_validation (cfg (cl s1))) tps b = Err e /\
         (e = EUnexpectedEOF \/ e = EStringDecode \/
          exists raw req, subslice raw b /\
                          from_slice (env s1) decode_depth (fetch_crc_validation (cfg (cl s1))) req raw = Err e))).
Proof.
  intros input s e s' H.
  destruct (C01Extra.C01_fetch_failure_no_abandoned_reply input s e s' H)
    as (corr & s0 & done & h & tps & rest & resps & s1 & _ & _ & _ & _ & _ & _ & Hone & _).
  exists corr, h, tps, s1. split; [exact Hone|].
  destruct (C18_failed_fetch_step_cause corr h tps s1 e s' Hone) as [L|[b [s2 (R1 & R2 & _ & _ & R5 & R6)]]].
  - left. exact L.
  - right. exists b, s2. repeat split; assumption.
Qed.

(* ====================================================================== *)
(* non-vacuity                                                              *)
(* ====================================================================== *)

(* the client of C02ExtraB (broker b1 pooled, input order 0, 2, 1); the stream delivers first the
   response whose partition 2 is nested 8 deep (refused: UnsupportedCompression; partitions 0 and
   1 are fine and lost with it), then the response whose partition 2 is nested 7 deep *)
Definition exe_b1 : bytes := print_fetch (exd_resp es_deep8) ++ [].
Definition exe_b2 : bytes := print_fetch (exd_resp es_deep7) ++ [].
Definition exe_p2 : bytes :=
  match enc_fetch_req 2 [] (fetch_max_wait_time (cfg exb_client)) (fetch_min_bytes (cfg exb_client))
                      (build_reqs exb_adds) with Ok p => p | _ => [] end.
Definition exe_round (p b : bytes) : list ev_out :=
  OWrote (ulen (frame p)) :: OData (p_i32 (ulen b)) :: map OData (chunk_list (length b) b).
Definition exe_st (sc : list ev_out) : st :=
  {| script := sc; trace := []; anyq := []; hostq := []; fetchq := []; entryq := [];
     cl := exb_client; env := wcz true |}.

Example C18_fetch_round_leaves_behind_ex :
  exb_input <> []
  /\ (forall q, In q exb_input -> find_broker (cs (cl (exe_st []))) (fq_topic q) (fq_partition q) = Some exb_h)
  /\ in_pool exb_h (conns exb_client) = true /\ idle_expired (cfg exb_client) = false
  /\ enc_fetch_req (fst (next_correlation_id (cs exb_client))) (client_id (cfg exb_client))
                   (fetch_max_wait_time (cfg exb_client)) (fetch_min_bytes (cfg exb_client))
                   (build_reqs exb_adds) = Ok exb_p
  /\ enc_fetch_req (fst (next_correlation_id (cs (bumped exb_client)))) (client_id (cfg exb_client))
                   (fetch_max_wait_time (cfg exb_client)) (fetch_min_bytes (cfg exb_client))
                   (build_reqs exb_adds) = Ok exe_p2
  /\ ulen exe_b1 <= i32_max /\ ulen exe_b2 <= i32_max
  /\ fetch_from_vec (wcz true) decode_depth (fetch_crc_validation (cfg exb_client)) (build_reqs exb_adds) exe_b1
     = Err EUnsupportedCompression.
Proof.
  split; [discriminate|].
  split; [intros q [<-|[<-|[<-|[]]]]; vm_compute; reflexivity|].
  repeat split; vm_compute; try reflexivity; discriminate.
Qed.

(* computed: the refused round then the good round; and the refused and the good reply leave the
   same client behind *)
Example C18_refused_reply_then_next_fetch_ex :
  let s := exe_st (exe_round exb_p exe_b1 ++ exe_round exe_p2 exe_b2 ++ [OData [x09]]) in
  let s1 := snd (fetch_messages exb_input s) in
  fst (fetch_messages exb_input s) = Err EUnsupportedCompression
  /\ cl s1 = bumped exb_client
  /\ fst (fetch_messages exb_input s1)
     = Ok [ {| fr_corr := 7;
               fr_topics := [ {| ft_topic := [x74];
                                 ft_partitions := [ {| fp_partition := 0; fp_data := inl (3, [m1; m2]) |};
                                                    {| fp_partition := 2; fp_data := inl (4, [m2]) |};
                                                    {| fp_partition := 1; fp_data := inl (9, []) |} ] |};
                              {| ft_topic := []; ft_partitions := [] |} ] |} ]
  /\ script (snd (fetch_messages exb_input s1)) = [OData [x09]]
  /\ cl (snd (fetch_messages exb_input s1)) = bumped (bumped exb_client).
Proof. vm_compute. repeat split; reflexivity. Qed.

Example C18_reply_contents_not_kept_ex :
  let s := exe_st (exe_round exb_p exe_b1 ++ [OData [x09]]) in
  let t := exe_st (exe_round exb_p exe_b2 ++ [OData [x09]]) in
  same_client s t
  /\ fst (fetch_messages exb_input s) = Err EUnsupportedCompression
  /\ (exists r, fst (fetch_messages exb_input t) = Ok [r])
  /\ cl (snd (fetch_messages exb_input s)) = cl (snd (fetch_messages exb_input t))
  /\ script (snd (fetch_messages exb_input s)) = script (snd (fetch_messages exb_input t)).
Proof.
  cbv zeta. split; [repeat split|]. split; [vm_compute; reflexivity|].
  split; [eexists; vm_compute; reflexivity|]. split; vm_compute; reflexivity.
Qed.

(* the three kinds of cause, computed: a frame cut inside the topic array; the set of partition 2
   (a byte range of the reply) refused for its nesting, the reply refused with that very error *)
Example C18_refused_reply_cause_ex :
  fetch_from_vec (wcz true) decode_depth true (build_reqs exb_adds) (firstn 40 exe_b1) = Err EUnexpectedEOF
  /\ fetch_from_vec (wcz true) decode_depth true (build_reqs exb_adds) exe_b1 = Err EUnsupportedCompression
  /\ from_slice (wcz true) decode_depth true 2 (firstn 400 (ser wcomp es_deep8)) = Err EUnsupportedCompression
  /\ (exists pre post, exe_b1 = pre ++ firstn 400 (ser wcomp es_deep8) ++ post).
Proof.
  split; [vm_compute; reflexivity|]. split; [vm_compute; reflexivity|]. split; [vm_compute; reflexivity|].
  exists (firstn 133 exe_b1), (skipn (133 + length (firstn 400 (ser wcomp es_deep8))) exe_b1).
  vm_compute. reflexivity.
Qed.

Example C18_failed_fetch_cause_ex :
  exists s', fetch_messages exb_input (exe_st (exe_round exb_p exe_b1 ++ [OData [x09]]))
             = (Err EUnsupportedCompression, s').
Proof. eexists. vm_compute. reflexivity. Qed.

(* through Consumer::poll: a consumer assigned partitions 0, 1, 2 of "t" whose poll is exactly
   exb_input; the first reply is refused, the second (one topic, partition 2 nested 7 deep)
   accepted: the refused poll changes nothing but the correlation id, the next poll asks the same
   and hands out the second reply's messages under the second reply's topic name *)
Definition exe_k : Consumer.consumer :=
  {| Consumer.k_client := exb_client; Consumer.k_group := []; Consumer.k_fallback := Consumer.FbEarliest;
     Consumer.k_retry_limit := 0;
     Consumer.k_assign := [([x74], [0; 1; 2])];
     Consumer.k_fetch := [((0, 0), (1, 0)); ((0, 2), (2, 200)); ((0, 1), (1, 130))];
     Consumer.k_retry := []; Consumer.k_consumed := [] |}.
Definition exe_good : w_topics_resp w_fetch_part :=
  {| wr_corr := 7;
     wr_topics := Some [ {| wt_name := Some [x74];
                            wt_partitions := Some [ {| wfe_partition := 0; wfe_error := 0; wfe_highwater := 3;
                                                       wfe_message_set := firstn 82 (ser wcomp es3) |};
                                                    {| wfe_partition := 2; wfe_error := 0; wfe_highwater := 4;
                                                       wfe_message_set := firstn 400 (ser wcomp es_deep7) |};
                                                    {| wfe_partition := 1; wfe_error := 0; wfe_highwater := 9;
                                                       wfe_message_set := firstn 130 (ser wcomp es_sn) |} ] |} ] |}.
Definition exe_b3 : bytes := print_fetch exe_good.

Example C18_refused_poll_then_next_poll_ex :
  let s := exe_st (exe_round exb_p exe_b1 ++ exe_round exe_p2 exe_b3 ++ [OData [x09]]) in
  Consumer.k_retry exe_k = [] /\ C04ExtraB.poll_input exe_k = Some exb_input /\ ulen exe_b3 <= i32_max
  /\ fst (Consumer.consumer_poll exe_k s)
     = Ok (Err EUnsupportedCompression, Consumer.consumer_with_client exe_k (bumped exb_client))
  /\ (exists ms k2,
        fst (Consumer.consumer_poll (Consumer.consumer_with_client exe_k (bumped exb_client))
                                    (snd (Consumer.consumer_poll exe_k s))) = Ok (Ok ms, k2)
        /\ Consumer.iterate ms = [ ([x74], 0, [m1; m2]); ([x74], 2, [m2]) ]
        /\ Consumer.k_fetch k2 = [((0, 0), (3, 32768)); ((0, 2), (3, 32768)); ((0, 1), (1, 130))]).
Proof.
  cbv zeta. split; [reflexivity|]. split; [vm_compute; reflexivity|].
  split; [vm_compute; discriminate|]. split; [vm_compute; reflexivity|].
  eexists. eexists. split; [vm_compute; reflexivity|]. split; vm_compute; reflexivity.
Qed.

Check C18_fetch_round_leaves_behind.
Check C18_reply_contents_not_kept.
Check C18_refused_reply_then_next_fetch.
Check C18_refused_poll_then_next_poll.
Check C18_refused_reply_cause.
Check C18_failed_fetch_step_cause.
Check C18_failed_fetch_cause.

Print Assumptions C18_fetch_round_leaves_behind.
Print Assumptions C18_reply_contents_not_kept.
Print Assumptions C18_refused_reply_then_next_fetch.
Print Assumptions C18_refused_poll_then_next_poll.
Print Assumptions C18_refused_reply_cause.
Print Assumptions C18_failed_fetch_step_cause.
Print Assumptions C18_failed_fetch_cause.
