(* C12, second adequacy pass.

   Seed C12-4 (key hash clipped to 31 bits before the modulo) is COVERED by Props C12_keyed (and by its
   consequences C12_history_keyed, C12_keyed_total_count, C12_history_keyed_total_count): with
   `partition` changed to `Z.land (xxh32 0 k) 2147483647 mod num_all ps` the statement of C12_keyed is false
   (key "user-1", XXH32 = 0xa43fb6ad, N = 3: the changed model answers 1, the theorem demands 0).
   C12_keyed_topbit_ex below pins that very input on the unchanged model (the examples of the first files all
   use keys whose hash is below 2^31 and power-of-two counts).

   What this file adds (all about the UNCHANGED model):
   - the CONVERSE of the rejection theorems: C12_send_all_rejected_only_if - a batch is rejected locally only
     if some record's chosen partition has no broker in the client's metadata; it names the FIRST such record
     and gives the counter the producer is left with (the partitioner ran over exactly the records up to and
     including that one).  C12_send_all_accepted_iff is the resulting characterisation, and
     C12_cntr_after_prefix what it means for the counter after a call that failed.
   - the FORWARD direction: C12_send_all_accepts_routable - with a snapshot taken from the client's current
     metadata a batch made of explicit records whose partition has a leader, keyed records whose
     XXH32(key) mod N partition has a leader, and key-less records of topics with at least one led partition
     is never rejected (C12_history_keyless_has_leader: a key-less record at any point of any history goes to
     a partition with a leader).
   - composition up to the public entry point: C12_send_all_is_client_produce - Producer::send_all IS
     KafkaClient::internal_produce_messages on the records under the partitions chosen by `assign`
     (success, local rejection and I/O failure alike), C12_assigned_msgs_nth spells out the i-th message.
   - a HISTORY OF CALLS: C12_send_all_chain - after any successful chain of send_all calls the counter is
     the one of a single partitioner pass over the concatenation of the batches (so all the C12_history_* /
     C12_rotation_interleaved* statements, instantiated with `concat batches`, speak about records spread over
     several calls); C12_send_all_chain_call: every single call of the chain starts from the counter of one
     pass over the records of the earlier calls and uses the matching segment of one pass over all records;
     C12_assign_app is the underlying splitting law.

   Not done: the bytes of the produce request on the wire (the encoder is the business of other properties);
   a chain of calls with failing calls in between as one theorem (C12_cntr_after_prefix gives the step). *)
From Coq Require Import ZifyBool Sorting.Permutation.
From KV Require Import Base.Prelude Base.Xxh32 Gen.Consts Model.Codecs Model.Requests Model.Responses
                       Model.ClientState Model.Net Model.Client Model.Producer Proofs.C12Facts Proofs.C12Extra.
Ltac Zify.zify_post_hook ::= Z.div_mod_to_equations.

(* ---- seed C12-4: a key whose XXH32 has the top bit set, a partition count that is no power of two ---- *)
Definition ex_parts3 : list (bytes * pparts) :=
  [ (tag "t3", {| available_ids := [0; 1; 2]; num_all := 3 |});
    (tag "t6", {| available_ids := [5]; num_all := 6 |}) ].

Example C12_keyed_topbit_ex :
  xxh32 0 (tag "user-1") = 0xa43fb6ad /\ 2147483648 <= xxh32 0 (tag "user-1")
  /\ xxh32 0 (tag "user-1") mod 3 = 0 /\ (xxh32 0 (tag "user-1") mod 2147483648) mod 3 = 1
  /\ partition ex_parts3 9 (tag "t3") (-1) (Some (tag "user-1")) = (0, 9)
  /\ partition ex_parts3 9 (tag "t6") (-1) (Some (tag "user-1")) = (3, 9)
  /\ (xxh32 0 (tag "user-1") mod 2147483648) mod 6 = 1.
Proof. vm_compute. repeat split; try reflexivity; discriminate. Qed.

(* ---- one step of send_all ---------------------------------------------------------------------- *)
Lemma send_all_reqs_cons s parts c r rest reqs :
  send_all_reqs s parts c (r :: rest) reqs
  = match find_broker s (r_topic r) (fst (choice parts c r)) with
    | None => (None, snd (choice parts c r))
    | Some host => send_all_reqs s parts (snd (choice parts c r)) rest
                     (phost_add reqs host (r_topic r) (fst (choice parts c r))
                                (to_option (r_key r), to_option (r_value r)))
    end.
Proof.
  cbn [send_all_reqs]. unfold choice.
  destruct (partition parts c (r_topic r) (r_partition r) (to_option (r_key r))) as [p c']. reflexivity.
Qed.

(* ---- rejected ONLY IF some record cannot be routed ------------------------------------------------ *)
(* The first record whose chosen partition has no broker is named; everything before it could be routed; the
   counter left behind is the one after the partitioner ran over the records up to and including it. *)
Theorem C12_send_all_rejected_only_if : forall s parts cntr recs reqs,
  fst (send_all_reqs s parts cntr recs reqs) = None ->
  exists i r q,
    nth_error recs i = Some r /\ nth_error (fst (assign parts cntr recs)) i = Some q
    /\ find_broker s (r_topic r) q = None
    /\ (forall j r' q', (j < i)%nat -> nth_error recs j = Some r' ->
          nth_error (fst (assign parts cntr recs)) j = Some q' -> find_broker s (r_topic r') q' <> None)
    /\ snd (send_all_reqs s parts cntr recs reqs) = snd (assign parts cntr (firstn (S i) recs)).
Proof.
  intros s parts cntr recs. revert cntr.
  induction recs as [|r0 rest IH]; intros cntr reqs Hnone.
  - cbn [send_all_reqs fst] in Hnone. discriminate.
  - rewrite send_all_reqs_cons in *. rewrite assign_cons. cbn [fst].
    destruct (find_broker s (r_topic r0) (fst (choice parts cntr r0))) as [host|] eqn:Ef.
    + destruct (IH _ _ Hnone) as [i [r [q [Hr [Hq [Hf [Hbefore Hsnd]]]]]]].
      exists (S i), r, q. cbn [nth_error]. repeat split; try assumption.
      * intros j r' q' Hj Hr' Hq'. destruct j as [|j']; cbn [nth_error] in *.
        -- injection Hr' as Hr'. injection Hq' as Hq'. subst r' q'. rewrite Ef. discriminate.
        -- apply (Hbefore j' r' q'); [lia|assumption|assumption].
      * rewrite Hsnd. change (firstn (S (S i)) (r0 :: rest)) with (r0 :: firstn (S i) rest).
        rewrite assign_cons. reflexivity.
    + exists 0%nat, r0, (fst (choice parts cntr r0)). cbn [nth_error]. repeat split; try assumption.
      * intros j r' q' Hj. lia.
      * cbn [firstn]. rewrite assign_cons. reflexivity.
Qed.

(* records: key-less t2, explicit t2/1, keyed t1 ("abc" -> 3), explicit t1/1 (no leader), key-less t2 *)
Example C12_send_all_rejected_only_if_ex :
  let recs := [ kl "t2"; ex_rec (tag "t2") 1 [] (tag "v"); ex_rec (tag "t1") (-1) (tag "abc") (tag "v");
                ex_rec (tag "t1") 1 [] (tag "v"); kl "t2" ] in
  send_all_reqs ex_state (producer_state ex_state) 4294967295 recs [] = (None, 0)
  /\ fst (assign (producer_state ex_state) 4294967295 recs) = [1; 1; 3; 1; 0]
  /\ nth_error recs 3 = Some (ex_rec (tag "t1") 1 [] (tag "v"))
  /\ find_broker ex_state (tag "t1") 1 = None
  /\ snd (assign (producer_state ex_state) 4294967295 (firstn 4 recs)) = 0
  /\ snd (assign (producer_state ex_state) 4294967295 recs) = 1.
Proof. vm_compute. repeat split; reflexivity. Qed.

(* the characterisation: accepted exactly when every record's chosen partition has a broker *)
Theorem C12_send_all_accepted_iff : forall s parts cntr recs reqs,
  fst (send_all_reqs s parts cntr recs reqs) <> None
  <-> (forall i r q, nth_error recs i = Some r -> nth_error (fst (assign parts cntr recs)) i = Some q ->
         find_broker s (r_topic r) q <> None).
Proof.
  intros s parts cntr recs. revert cntr.
  induction recs as [|r0 rest IH]; intros cntr reqs.
  - cbn [send_all_reqs fst]. split.
    + intros _ i r q Hr. destruct i; discriminate.
    + intros _. discriminate.
  - rewrite send_all_reqs_cons, assign_cons. cbn [fst]. split.
    + intros Hacc i r q Hr Hq.
      destruct (find_broker s (r_topic r0) (fst (choice parts cntr r0))) as [host|] eqn:Ef;
        [|cbn [fst] in Hacc; congruence].
      destruct i as [|j]; cbn [nth_error] in *.
      * injection Hr as Hr. injection Hq as Hq. subst r q. rewrite Ef. discriminate.
      * apply (proj1 (IH _ _) Hacc j r q); assumption.
    + intros Hall.
      destruct (find_broker s (r_topic r0) (fst (choice parts cntr r0))) as [host|] eqn:Ef.
      * apply (proj2 (IH _ _)). intros i r q Hr Hq. apply (Hall (S i) r q); assumption.
      * exfalso. apply (Hall 0%nat r0 (fst (choice parts cntr r0))); [reflexivity|reflexivity|exact Ef].
Qed.

Example C12_send_all_accepted_iff_ex :
  let recs := [ kl "t2"; ex_rec (tag "t2") 1 [] (tag "v"); ex_rec (tag "t1") (-1) (tag "abc") (tag "v") ] in
  fst (assign (producer_state ex_state) 4294967295 recs) = [1; 1; 3]
  /\ find_broker ex_state (tag "t2") 1 = Some (tag "h0:9092")
  /\ find_broker ex_state (tag "t1") 3 = Some (tag "h0:9092")
  /\ fst (send_all_reqs ex_state (producer_state ex_state) 4294967295 recs []) <> None.
Proof. vm_compute. repeat split; try reflexivity; discriminate. Qed.

(* the counter after ANY call (the harness and the real producer keep it also when the call fails, Model
   `cntr_after`): the partitioner has run over a prefix of the batch - the whole batch unless the call was
   rejected locally, in which case the prefix ends with the first unroutable record *)
Theorem C12_cntr_after_prefix : forall p c recs,
  exists n, (n <= length recs)%nat
    /\ cntr_after p c recs = snd (assign (p_parts p) (p_cntr p) (firstn n recs))
    /\ (fst (send_all_reqs (cs c) (p_parts p) (p_cntr p) recs []) <> None -> n = length recs)
    /\ (fst (send_all_reqs (cs c) (p_parts p) (p_cntr p) recs []) = None ->
        exists r q, nth_error recs (n - 1) = Some r /\ (0 < n)%nat
          /\ nth_error (fst (assign (p_parts p) (p_cntr p) recs)) (n - 1) = Some q
          /\ find_broker (cs c) (r_topic r) q = None).
Proof.
  intros p c recs. unfold cntr_after.
  destruct (fst (send_all_reqs (cs c) (p_parts p) (p_cntr p) recs [])) as [reqs|] eqn:E.
  - exists (length recs). rewrite firstn_all. split; [lia|]. split.
    + apply C12_send_all_is_assign_then_route. rewrite E. discriminate.
    + split; [reflexivity|discriminate].
  - destruct (C12_send_all_rejected_only_if _ _ _ _ _ E) as [i [r [q [Hr [Hq [Hf [_ Hsnd]]]]]]].
    exists (S i). split.
    + assert (Hlt : (i < length recs)%nat) by (apply nth_error_Some; congruence). lia.
    + split; [exact Hsnd|]. split; [congruence|]. intros _.
      replace (S i - 1)%nat with i by lia. exists r, q. repeat split; try assumption. lia.
Qed.

Example C12_cntr_after_prefix_ex :
  cntr_after (xp 5 1) (cl (xst [])) [kl "t2"; kl "nope"; kl "t2"; kl "t2"] = 6
  /\ snd (assign (producer_state ex_state) 5 (firstn 2 [kl "t2"; kl "nope"; kl "t2"; kl "t2"])) = 6
  /\ cntr_after (xp 5 1) (cl (xst [])) [kl "t2"; kl "t1"; kl "t2"; kl "t2"] = 9.
Proof. vm_compute. repeat split; reflexivity. Qed.

(* ---- forward: what is routable is accepted ------------------------------------------------------- *)
Lemma find_broker_known s topic id :
  find_broker s topic id <> None -> exists l, partitions_for s topic = Some l.
Proof.
  unfold find_broker. destruct (partitions_for s topic) as [l|]; [eauto|congruence].
Qed.

(* a key-less record, at any point of any history sent through a producer whose snapshot was taken from the
   metadata s, goes to a partition that HAS A LEADER in s - provided the topic has one at all *)
Theorem C12_history_keyless_has_leader : forall s cntr recs i r id,
  0 <= cntr < 4294967296 ->
  nth_error recs i = Some r -> r_partition r < 0 -> r_key r = [] ->
  find_broker s (r_topic r) id <> None ->
  exists q host, nth_error (fst (assign (producer_state s) cntr recs)) i = Some q
                 /\ find_broker s (r_topic r) q = Some host.
Proof.
  intros s cntr recs i r id Hc Hn Hp Hk Hid.
  destruct (find_broker_known _ _ _ Hid) as [l Hl].
  pose (ps := {| available_ids := map fst (leaders_from s l 0); num_all := ulen l |}).
  assert (Ha : assoc_bytes (r_topic r) (producer_state s) = Some ps)
    by (rewrite producer_state_assoc, Hl; reflexivity).
  assert (Hin : In id (available_ids ps)).
  { apply (C12_available_iff_leader s (r_topic r) ps id Ha).
    destruct (find_broker s (r_topic r) id) as [host|]; [eauto|congruence]. }
  destruct (available_ids ps) as [|a av] eqn:Hav; [destruct Hin|].
  destruct (C12_history_keyless (producer_state s) cntr recs i r ps a av Hc Hn Hp Hk Ha Hav) as [Hq Hin'].
  remember (nth (Z.to_nat (((cntr + rot_count (producer_state s) (firstn i recs)) mod 4294967296)
                            mod ulen (a :: av))) (a :: av) a) as q eqn:Eq.
  assert (Hin'' : In q (available_ids ps)) by (rewrite Hav; exact Hin').
  apply (C12_available_iff_leader s (r_topic r) ps q Ha) in Hin''. destruct Hin'' as [host Hh].
  exists q, host. split; [exact Hq|exact Hh].
Qed.

Example C12_history_keyless_has_leader_ex :
  nth_error hx 7 = Some (ex_rec (tag "t1") (-1) [] (tag "h"))
  /\ find_broker ex_state (tag "t1") 0 <> None
  /\ nth_error (fst (assign (producer_state ex_state) 4294967295 hx)) 7 = Some 2
  /\ find_broker ex_state (tag "t1") 2 = Some (tag "h1:9092").
Proof. vm_compute. repeat split; try reflexivity; discriminate. Qed.

(* what the default partitioner can route, in terms of the client's metadata only *)
Definition routable (s : cstate) (r : record) : Prop :=
  (0 <= r_partition r /\ find_broker s (r_topic r) (r_partition r) <> None)
  \/ (r_partition r < 0 /\ r_key r <> [] /\
      exists l, partitions_for s (r_topic r) = Some l /\ 0 < ulen l <= 2147483648
                /\ find_broker s (r_topic r) (xxh32 0 (r_key r) mod ulen l) <> None)
  \/ (r_partition r < 0 /\ r_key r = [] /\ exists id, find_broker s (r_topic r) id <> None).

(* a producer whose snapshot is current never rejects a batch of routable records; in particular key-less
   records of a topic with at least one led partition are never the reason of a rejection *)
Theorem C12_send_all_accepts_routable : forall s cntr recs reqs,
  0 <= cntr < 4294967296 -> (forall r, In r recs -> routable s r) ->
  fst (send_all_reqs s (producer_state s) cntr recs reqs) <> None
  /\ snd (send_all_reqs s (producer_state s) cntr recs reqs) = snd (assign (producer_state s) cntr recs).
Proof.
  intros s cntr recs reqs Hc Hall.
  assert (Hacc : fst (send_all_reqs s (producer_state s) cntr recs reqs) <> None).
  { apply C12_send_all_accepted_iff. intros i r q Hr Hq.
    destruct (Hall r (nth_error_In _ _ Hr)) as [[Hp Hf]|[[Hp [Hk [l [Hl [Hn Hf]]]]]|[Hp [Hk [id Hid]]]]].
    - rewrite (C12_history_explicit (producer_state s) cntr recs i r Hr Hp) in Hq.
      injection Hq as Hq. subst q. exact Hf.
    - rewrite (C12_history_keyed_total_count s cntr recs i r l Hr Hp Hk Hl Hn) in Hq.
      injection Hq as Hq. subst q. exact Hf.
    - destruct (C12_history_keyless_has_leader s cntr recs i r id Hc Hr Hp Hk Hid) as [q' [host [Hq' Hh]]].
      rewrite Hq' in Hq. injection Hq as Hq. subst q'. rewrite Hh. discriminate. }
  split; [exact Hacc|].
  apply C12_send_all_is_assign_then_route. exact Hacc.
Qed.

Example C12_send_all_accepts_routable_ex :
  let recs := [ kl "t1"; ex_rec (tag "t1") (-1) (tag "abc") (tag "v"); ex_rec (tag "t2") 1 [] (tag "v"); kl "t1" ] in
  (forall r, In r recs -> routable ex_state r)
  /\ fst (assign (producer_state ex_state) 4294967295 recs) = [0; 3; 1; 0]
  /\ snd (send_all_reqs ex_state (producer_state ex_state) 4294967295 recs []) = 1.
Proof.
  split.
  - intros r Hin. cbn [In] in Hin.
    destruct Hin as [Hr|[Hr|[Hr|[Hr|[]]]]]; subst r.
    + right. right. split; [reflexivity|]. split; [reflexivity|]. exists 0. vm_compute. discriminate.
    + right. left. split; [reflexivity|]. split; [discriminate|].
      exists [0; UNKNOWN_BROKER_INDEX; 1; 0]. vm_compute. repeat split; try reflexivity; discriminate.
    + left. vm_compute. split; discriminate.
    + right. right. split; [reflexivity|]. split; [reflexivity|]. exists 0. vm_compute. discriminate.
  - vm_compute. split; reflexivity.
Qed.

(* ---- Producer::send_all = KafkaClient::internal_produce_messages on the assigned records ------------ *)
Theorem C12_assigned_msgs_nth : forall recs qs i r q,
  nth_error recs i = Some r -> nth_error qs i = Some q ->
  nth_error (assigned_msgs recs qs) i
  = Some {| pq_topic := r_topic r; pq_partition := q; pq_key := to_option (r_key r);
            pq_value := to_option (r_value r) |}.
Proof.
  induction recs as [|r0 rest IH]; intros qs i r q Hr Hq.
  - destruct i; discriminate.
  - destruct qs as [|q0 qs']; [destruct i; discriminate|].
    destruct i as [|j]; cbn [nth_error assigned_msgs] in *.
    + injection Hr as Hr. injection Hq as Hq. subst r0 q0. reflexivity.
    + apply IH; assumption.
Qed.

Lemma assigned_msgs_length recs : forall qs, length qs = length recs -> length (assigned_msgs recs qs) = length recs.
Proof.
  induction recs as [|r0 rest IH]; intros qs Hl; [reflexivity|].
  destruct qs as [|q0 qs']; [discriminate|]. cbn [assigned_msgs length] in *. f_equal. apply IH. lia.
Qed.

Lemma mbind_assoc {A B C} (m : M A) (f : A -> M B) (g : B -> M C) s :
  mbind (mbind m f) g s = mbind m (fun a => mbind (f a) g) s.
Proof. unfold mbind. destruct (m s) as [[a|e|w] s1]; reflexivity. Qed.

Lemma mbind_ext {A B} (m : M A) (f g : A -> M B) s :
  (forall a s1, f a s1 = g a s1) -> mbind m f s = mbind m g s.
Proof. intros H. unfold mbind. destruct (m s) as [[a|e|w] s1]; [apply H|reflexivity|reflexivity]. Qed.

(* Whatever happens (sent, rejected locally, I/O error, panic): one call of Producer::send_all behaves as the
   client's produce path on the batch with every record placed under the partition the partitioner pass
   `assign` gives it; on success the producer comes back with the counter of that pass. *)
Theorem C12_send_all_is_client_produce : forall p recs s,
  producer_send_all p recs s
  = mbind (internal_produce_messages (p_acks p) (p_ack_timeout p)
             (assigned_msgs recs (fst (assign (p_parts p) (p_cntr p) recs))))
          (fun cf => ret (cf, producer_set_cntr p (snd (assign (p_parts p) (p_cntr p) recs)))) s.
Proof.
  intros p recs s. unfold producer_send_all, internal_produce_messages.
  rewrite mbind_assoc. apply mbind_ext. intros n s1.
  rewrite mbind_assoc. apply mbind_ext. intros c s2.
  destruct (C12_send_all_is_assign_then_route (cs c) (p_parts p) (p_cntr p) recs []) as [Hfst Hsnd].
  destruct (send_all_reqs (cs c) (p_parts p) (p_cntr p) recs []) as [oreqs c'].
  cbn [fst snd] in *. rewrite <- Hfst.
  destruct oreqs as [reqs|].
  - rewrite (Hsnd ltac:(discriminate)).
    rewrite mbind_assoc. apply mbind_ext. intros reqs' s3. reflexivity.
  - reflexivity.
Qed.

Example C12_send_all_is_client_produce_ex :
  let recs := [ kl "t2"; ex_rec (tag "t1") (-1) (tag "abc") (tag "v"); kl "t2" ] in
  assigned_msgs recs (fst (assign (producer_state ex_state) 4294967295 recs))
  = [ {| pq_topic := tag "t2"; pq_partition := 1; pq_key := None; pq_value := Some (tag "v") |};
      {| pq_topic := tag "t1"; pq_partition := 3; pq_key := Some (tag "abc"); pq_value := Some (tag "v") |};
      {| pq_topic := tag "t2"; pq_partition := 0; pq_key := None; pq_value := Some (tag "v") |} ]
  /\ match producer_send_all (xp 4294967295 0) recs (xst [OConn true; OWrote 1000; OConn true; OWrote 1000]) with
     | (Ok (_, p'), s') => p_cntr p' = 1 /\ length (trace s') = 4%nat
     | _ => False
     end.
Proof. vm_compute. repeat split; reflexivity. Qed.

(* ---- a history of CALLS ------------------------------------------------------------------------- *)
Theorem C12_assign_app : forall parts cntr a b,
  fst (assign parts cntr (a ++ b))
  = fst (assign parts cntr a) ++ fst (assign parts (snd (assign parts cntr a)) b)
  /\ snd (assign parts cntr (a ++ b)) = snd (assign parts (snd (assign parts cntr a)) b).
Proof.
  intros parts cntr a. revert cntr. induction a as [|r0 rest IH]; intros cntr b.
  - cbn [app assign fst snd]. split; reflexivity.
  - cbn [app]. rewrite !assign_cons. cbn [fst snd].
    destruct (IH (snd (choice parts cntr r0)) b) as [H1 H2]. rewrite H1, H2. split; reflexivity.
Qed.

(* successive send_all calls, each on the producer the previous one returned (the network state is threaded
   by the monad; the batches are arbitrary mixtures of explicit, keyed and key-less records) *)
Fixpoint send_all_chain (p : producer) (batches : list (list record)) : M producer :=
  match batches with
  | [] => ret p
  | b :: rest => let+ '(_, p') := producer_send_all p b in send_all_chain p' rest
  end.

(* the same chain, keeping the producer each call was made with *)
Fixpoint chain_counters (parts : list (bytes * pparts)) (cntr : Z) (batches : list (list record)) : list Z :=
  match batches with
  | [] => []
  | b :: rest => cntr :: chain_counters parts (snd (assign parts cntr b)) rest
  end.

Theorem C12_send_all_chain : forall batches p s p' s',
  send_all_chain p batches s = (Ok p', s') ->
  p_parts p' = p_parts p
  /\ p_cntr p' = snd (assign (p_parts p) (p_cntr p) (concat batches)).
Proof.
  induction batches as [|b rest IH]; intros p s p' s' H.
  - cbn [send_all_chain] in H. unfold ret in H. injection H as Hp _. subst p'.
    cbn [concat assign snd]. split; reflexivity.
  - cbn [send_all_chain] in H. apply mbind_ok in H. destruct H as [[cf p1] [s1 [Hcall Hrest]]].
    apply C12_send_all_counter in Hcall. destruct Hcall as [Hparts [Hcntr _]].
    apply IH in Hrest. destruct Hrest as [Hparts' Hcntr'].
    split; [congruence|].
    cbn [concat]. rewrite (proj2 (C12_assign_app _ _ _ _)). rewrite Hcntr', Hparts, Hcntr. reflexivity.
Qed.

(* ... hence in closed form, and the k-th call of the chain starts from the counter of a single partitioner
   pass over all the records of the calls before it *)
Theorem C12_send_all_chain_counter : forall batches p s p' s',
  0 <= p_cntr p < 4294967296 ->
  send_all_chain p batches s = (Ok p', s') ->
  p_cntr p' = (p_cntr p + rot_count (p_parts p) (concat batches)) mod 4294967296.
Proof.
  intros batches p s p' s' Hc H.
  destruct (C12_send_all_chain batches p s p' s' H) as [_ Hcntr].
  rewrite Hcntr. apply C12_assign_counter. exact Hc.
Qed.

Theorem C12_chain_counters_nth : forall parts batches cntr k b,
  nth_error batches k = Some b ->
  nth_error (chain_counters parts cntr batches) k
  = Some (snd (assign parts cntr (concat (firstn k batches))))
  /\ fst (assign parts (snd (assign parts cntr (concat (firstn k batches)))) b)
     = firstn (length b) (skipn (length (concat (firstn k batches)))
                                (fst (assign parts cntr (concat batches)))).
Proof.
  intros parts. induction batches as [|b0 rest IH]; intros cntr k b Hk.
  - destruct k; discriminate.
  - destruct k as [|j]; cbn [nth_error chain_counters firstn concat] in *.
    + injection Hk as Hk. subst b0. cbn [assign snd length skipn]. split; [reflexivity|].
      rewrite (proj1 (C12_assign_app _ _ _ _)).
      rewrite firstn_app, assign_length, Nat.sub_diag. cbn [firstn].
      rewrite firstn_all2 by (rewrite assign_length; lia). rewrite app_nil_r. reflexivity.
    + destruct (IH (snd (assign parts cntr b0)) j b Hk) as [H1 H2].
      rewrite (proj2 (C12_assign_app parts cntr b0 (concat (firstn j rest)))).
      split; [exact H1|]. rewrite H2.
      rewrite (proj1 (C12_assign_app parts cntr b0 (concat rest))).
      rewrite app_length. rewrite skipn_app, assign_length.
      rewrite (skipn_all2 (fst (assign parts cntr b0)))
        by (rewrite assign_length; lia). cbn [app].
      replace (length b0 + length (concat (firstn j rest)) - length b0)%nat
        with (length (concat (firstn j rest))) by lia.
      reflexivity.
Qed.

(* the partitions of a segment of a history are those of a fresh pass started with the counter the pass over
   the records before the segment leaves *)
Lemma assign_segment parts c a b d :
  fst (assign parts (snd (assign parts c a)) b)
  = firstn (length b) (skipn (length a) (fst (assign parts c (a ++ b ++ d)))).
Proof.
  rewrite (proj1 (C12_assign_app parts c a (b ++ d))).
  rewrite skipn_app, assign_length, Nat.sub_diag.
  rewrite (skipn_all2 (fst (assign parts c a))) by (rewrite assign_length; lia).
  cbn [app skipn].
  rewrite (proj1 (C12_assign_app parts _ b d)).
  rewrite firstn_app, assign_length, Nat.sub_diag. cbn [firstn].
  rewrite firstn_all2 by (rewrite assign_length; lia). rewrite app_nil_r. reflexivity.
Qed.

(* every single call of a successful chain: it is made with the snapshot of the first producer and with the
   counter a single partitioner pass over all records of the EARLIER calls leaves, and the partitions it uses
   are the corresponding segment of a single pass over the records of ALL calls (C12_send_all_is_client_produce
   then says what that call hands to the client) *)
Theorem C12_send_all_chain_call : forall bs1 b bs2 p s p' s',
  send_all_chain p (bs1 ++ b :: bs2) s = (Ok p', s') ->
  exists pk sk cf pk1 sk1,
    send_all_chain p bs1 s = (Ok pk, sk)
    /\ p_parts pk = p_parts p
    /\ p_cntr pk = snd (assign (p_parts p) (p_cntr p) (concat bs1))
    /\ producer_send_all pk b sk = (Ok (cf, pk1), sk1)
    /\ send_all_chain pk1 bs2 sk1 = (Ok p', s')
    /\ fst (assign (p_parts pk) (p_cntr pk) b)
       = firstn (length b) (skipn (length (concat bs1))
                                  (fst (assign (p_parts p) (p_cntr p) (concat (bs1 ++ b :: bs2))))).
Proof.
  induction bs1 as [|b0 rest IH]; intros b bs2 p s p' s' H.
  - cbn [app send_all_chain] in H. apply mbind_ok in H. destruct H as [[cf p1] [s1 [Hcall Hrest]]].
    exists p, s, cf, p1, s1. cbn [send_all_chain concat app assign snd length skipn].
    repeat split; try assumption.
    rewrite (proj1 (C12_assign_app _ _ _ _)).
    rewrite firstn_app, assign_length, Nat.sub_diag. cbn [firstn].
    rewrite firstn_all2 by (rewrite assign_length; lia). rewrite app_nil_r. reflexivity.
  - cbn [app send_all_chain] in H. apply mbind_ok in H. destruct H as [[cf0 p1] [s1 [Hcall Hrest]]].
    destruct (IH b bs2 p1 s1 p' s' Hrest) as [pk [sk [cf [pk1 [sk1 [Hpre [Hparts [Hcntr [Hk [Hpost Hseg]]]]]]]]]].
    destruct (C12_send_all_counter _ _ _ _ _ _ Hcall) as [Hparts1 [Hcntr1 _]].
    exists pk, sk, cf, pk1, sk1. split.
    { cbn [send_all_chain]. unfold mbind. rewrite Hcall. exact Hpre. }
    split; [congruence|]. split.
    { cbn [concat]. rewrite (proj2 (C12_assign_app _ _ _ _)). rewrite Hcntr, Hparts1, Hcntr1. reflexivity. }
    split; [exact Hk|]. split; [exact Hpost|].
    rewrite Hparts, Hcntr, Hparts1, Hcntr1.
    rewrite concat_app. cbn [concat app]. rewrite <- (proj2 (C12_assign_app _ _ _ _)).
    apply (assign_segment (p_parts p) (p_cntr p) (b0 ++ concat rest) b (concat bs2)).
Qed.

(* three calls; the key-less t2 records alternate 1,0,1,0 ACROSS the calls (counter starts at 2^32-1) *)
Example C12_send_all_chain_ex :
  let batches := [ [kl "t2"; ex_rec (tag "t1") (-1) (tag "abc") (tag "v")]; [kl "t2"];
                   [ex_rec (tag "t1") 0 [] (tag "v"); kl "t2"; kl "t2"] ] in
  let sc := [OConn true; OWrote 1000; OConn true; OWrote 1000; OWrote 1000; OWrote 1000; OWrote 1000] in
  match send_all_chain (xp 4294967295 0) batches (xst sc) with
  | (Ok p', _) => p_cntr p' = 3
  | _ => False
  end
  /\ fst (assign (producer_state ex_state) 4294967295 (concat batches)) = [1; 3; 0; 0; 1; 0]
  /\ chain_counters (producer_state ex_state) 4294967295 batches = [4294967295; 0; 1]
  /\ rot_count (producer_state ex_state) (concat batches) = 4
  /\ (* C12_send_all_chain_call for the third call: bs1 = the first two batches *)
     fst (assign (producer_state ex_state) 1 [ex_rec (tag "t1") 0 [] (tag "v"); kl "t2"; kl "t2"])
     = firstn 3 (skipn 3 (fst (assign (producer_state ex_state) 4294967295 (concat batches)))).
Proof. vm_compute. repeat split; reflexivity. Qed.

Check C12_send_all_rejected_only_if.
Check C12_send_all_accepted_iff.
Check C12_cntr_after_prefix.
Check C12_history_keyless_has_leader.
Check C12_send_all_accepts_routable.
Check C12_assigned_msgs_nth.
Check C12_send_all_is_client_produce.
Check C12_assign_app.
Check C12_send_all_chain.
Check C12_send_all_chain_counter.
Check C12_chain_counters_nth.
Check C12_send_all_chain_call.

Print Assumptions C12_send_all_rejected_only_if.
Print Assumptions C12_send_all_accepted_iff.
Print Assumptions C12_cntr_after_prefix.
Print Assumptions C12_history_keyless_has_leader.
Print Assumptions C12_send_all_accepts_routable.
Print Assumptions C12_assigned_msgs_nth.
Print Assumptions C12_send_all_is_client_produce.
Print Assumptions C12_assign_app.
Print Assumptions C12_send_all_chain.
Print Assumptions C12_send_all_chain_counter.
Print Assumptions C12_chain_counters_nth.
Print Assumptions C12_send_all_chain_call.
