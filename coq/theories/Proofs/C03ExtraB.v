(* C03, second adequacy pass.

   Seeded change C03-4 moves the Producer's "empty means absent" mapping into the public constructor
   `ProduceMessage::new` (src/client/mod.rs): `key.filter(|xs| !xs.is_empty())`, value likewise.  Everything sent
   through Producer::send / send_all is bit-identical; but `KafkaClient::produce_messages` fed with messages built by
   `ProduceMessage::new(.., Some(b""), ..)` now puts a NULL (length -1) where the caller gave a present, zero-length
   byte string (length 0).

   Where that code is in the model: the struct is `Client.produce_message`; its constructor has no definition of its
   own - it is the record construction inside `Dispatch.pq_of` (the harness builds the argument of
   produce_messages with `ProduceMessage::new`, harness/src/main.rs "produce_messages"), and, for the Producer,
   the call `to_option` in `Producer.send_all_reqs`.  The mirrored change is `pq_key := filter (opt_of ..)` in
   `pq_of` (and an extensionally equal rewrite of `to_option`).  No theorem of Props/C03.v mentions `pq_of` or
   `dispatch`: all of them take the `produce_message` list as given, i.e. they start AFTER the constructor.
   (Checked: with the change mirrored in a scratch copy, Props/C03.v and everything below it recompile unchanged.)

   Part 1 states the constructor's contract and carries it through `dispatch` (what the harness runs).
   Part 2 lifts C03_call_in_order to the public entry point `Client.produce_messages` (duration conversion).
   Part 3 goes down to the byte stream: what any write of the call carries, and - when the call succeeds - that every
          record's broker was offered a whole frame whose entry for the record's partition reads back as exactly
          the records given for it.
   Part 4 is Parts 1+3 composed: from the VALUES handed to the constructor to the stream. *)
From Coq Require Import ZifyBool Sorting.Permutation.
From KV Require Import Base.Prelude Base.Crc32 Gen.Consts Model.Codecs Model.Requests Model.Responses
                       Model.ClientState Model.Net Model.Client Model.Producer Model.Val Model.Dispatch.
From KV Require Import Spec.MsgSetSpec Spec.ReqGrammar.
From KV Require Import Proofs.BytesFacts Proofs.C03Facts Proofs.C09Facts Proofs.C20Facts Proofs.C05Facts
                       Proofs.C05Extra2 Proofs.C03Extra.
Ltac Zify.zify_post_hook ::= Z.div_mod_to_equations.

(* ================================================================================================== *)
(* Part 1: ProduceMessage::new keeps what it is given                                                   *)
(* ================================================================================================== *)

(* what a caller of the low-level API hands to ProduceMessage::new *)
Record given := { g_topic : bytes; g_partition : Z; g_key : option bytes; g_value : option bytes }.

(* the harness' syntax for it: ( pm <topic> <partition> ( some <bytes> ) | ( none ) ... ) *)
Definition oval (o : option bytes) : val :=
  match o with Some b => vt "some" [VB b] | None => vt "none" [] end.
Definition pm_val (g : given) : val :=
  vt "pm" [VB (g_topic g); VI (g_partition g); oval (g_key g); oval (g_value g)].
Definition produce_op (acks : Z) (d : Z * Z) (l : list given) : val :=
  vt "produce_messages" [VI acks; VI (fst d); VI (snd d); VL (map pm_val l)].

(* the message the constructor must yield: every field exactly as given - in particular `Some []` stays `Some []` *)
Definition msg_of (g : given) : produce_message :=
  {| pq_topic := g_topic g; pq_partition := g_partition g; pq_key := g_key g; pq_value := g_value g |}.

Theorem C03_new_keeps_given : forall g, pq_of (pm_val g) = msg_of g.
Proof. intros [t p [k|] [v|]]; reflexivity. Qed.

Example C03_new_keeps_given_ex :
  map (fun m => (pq_key m, pq_value m))
      (map pq_of (map pm_val [ {| g_topic := tag "t1"; g_partition := 0; g_key := Some []; g_value := Some (tag "v1") |};
                               {| g_topic := tag "t1"; g_partition := 0; g_key := None; g_value := Some [] |};
                               {| g_topic := tag "t1"; g_partition := 0; g_key := Some []; g_value := None |} ]))
  = [ (Some [], Some (tag "v1")); (None, Some []); (Some [], None) ].
Proof. vm_compute. reflexivity. Qed.

Lemma is_tag_VT n args s : is_tag (VT n args) s = bytes_eqb n (tag s).
Proof. reflexivity. Qed.

(* the scripted call `produce_messages`: the model runs Client.produce_messages on exactly the given messages *)
Theorem C03_dispatch_produce_messages : forall o acks d l hv scv ev,
  dispatch o (produce_op acks d l) hv scv ev
  = match client_of o with
    | Some c => run o c (env_of ev) (map ev_out_of (vlist scv)) hv
                    (produce_messages acks d (map msg_of l))
                    (fun a => okv (confirms_view a)) (keep_client o) (with_client o)
    | None => pure o (vt "model_error" [])
    end.
Proof.
  intros o acks d l hv scv ev. unfold dispatch, produce_op, vt. cbv zeta.
  rewrite !is_tag_VT.
  repeat match goal with
         | |- context [bytes_eqb (tag ?a) (tag ?b)] =>
             let r := eval vm_compute in (bytes_eqb (tag a) (tag b)) in
             change (bytes_eqb (tag a) (tag b)) with r
         end.
  cbv iota.
  cbn [varg vargs nth vint vlist].
  rewrite map_map. rewrite (map_ext (fun x => pq_of (pm_val x)) msg_of C03_new_keeps_given).
  destruct d as [d1 d2]. reflexivity.
Qed.

(* ================================================================================================== *)
(* Part 2: the public entry point KafkaClient::produce_messages                                          *)
(* ================================================================================================== *)

(* protocol::to_millis_i32 of a Duration (u64 seconds, u32 nanoseconds): an i32 when it succeeds *)
Lemma to_millis_ok_in_i32 d t : 0 <= fst d -> 0 <= snd d -> to_millis_i32 d = Ok t -> in_i32 t.
Proof.
  intros H1 H2 H. unfold to_millis_i32 in H. cbv zeta in H.
  destruct (i32_max <? Z.min (Z.min (fst d * 1000) u64_max + snd d / 1000000) u64_max) eqn:E; [discriminate H|].
  injection H as <-. unfold in_i32, i32_max, u64_max in *. lia.
Qed.

(* a duration that does not fit: nothing is built, nothing is sent, the state (correlation id included) is untouched *)
Theorem C03_produce_messages_bad_timeout : forall acks d msgs x e,
  to_millis_i32 d = Err e -> e = EInvalidDuration /\ produce_messages acks d msgs x = (Err e, x).
Proof.
  intros acks d msgs x e H. split.
  - unfold to_millis_i32 in H. cbv zeta in H.
    destruct (i32_max <? Z.min (Z.min (fst d * 1000) u64_max + snd d / 1000000) u64_max); [|discriminate H].
    injection H as <-. reflexivity.
  - unfold produce_messages, mbind, lift. rewrite H. reflexivity.
Qed.

Lemma produce_messages_unfold acks d t msgs x :
  to_millis_i32 d = Ok t -> produce_messages acks d msgs x = internal_produce_messages acks t msgs x.
Proof. intros H. unfold produce_messages, mbind, lift. rewrite H. reflexivity. Qed.

(* C03_call_in_order at the public entry point: the ack timeout is a Duration; its millisecond value is what the
   requests carry *)
Theorem C03_produce_messages_in_order : forall dz acks d t msgs x,
  to_millis_i32 d = Ok t -> 0 <= fst d -> 0 <= snd d ->
  codec (compression (cfg (cl x))) -> inverts dz (env x) ->
  Forall (fun m => in_i32 (pq_partition m)) msgs -> ulen msgs <= i32_max ->
  (compression (cfg (cl x)) <> COMPRESSION_NONE -> Forall (fun m => fits (pmsg_of m)) msgs) ->
  in_i16 acks ->
  produce_reqs (cs (cl x)) msgs [] <> None ->
  exists reqs' x',
    produce_messages acks d msgs x
      = produce_exchange (fst (next_correlation_id (cs (cl x)))) acks t reqs' [] x' /\
    env x' = env x /\ cfg (cl x') = cfg (cl x) /\
    batch_on_wire dz x acks t msgs reqs'.
Proof.
  intros dz acks d t msgs x Hd Hd1 Hd2 Hc Hinv Hpart Hlen Hfit Ha Hsome.
  pose proof (to_millis_ok_in_i32 d t Hd1 Hd2 Hd) as Ht.
  destruct (C03_call_in_order dz acks t msgs x Hc Hinv Hpart Hlen Hfit Ha Ht Hsome)
    as [reqs' [x' [Hcall [He [Hg [Hw Hall]]]]]].
  exists reqs', x'. rewrite (produce_messages_unfold acks d t msgs x Hd).
  split; [exact Hcall|]. split; [exact He|]. split; [exact Hg|]. split; [exact Hw|exact Hall].
Qed.

Example C03_produce_messages_in_order_ex :
  to_millis_i32 (1, 500000000) = Ok 1500 /\ to_millis_i32 (2147484, 0) = Err EInvalidDuration
  /\ fst (produce_messages 1 (2147484, 0) c20_batch exx_st) = Err EInvalidDuration
  /\ trace (snd (produce_messages 1 (2147484, 0) c20_batch exx_st)) = [].
Proof. vm_compute. repeat split; reflexivity. Qed.

(* ================================================================================================== *)
(* Part 3: down to the byte stream                                                                      *)
(* ================================================================================================== *)

(* what the broker h reads out of the request payload bs of the call running in x, R t p being the records
   expected for topic t / partition p: the framed request parses under the independent grammar with the call's
   header, acks and timeout; topics and partitions occur once; every partition entry is led by h, is expected
   to be non-empty, and its MessageSet reads back - strict parse, one wrapper named after the codec, independent
   decompressor, strict parse - as exactly R t p: keys and values byte-identical, null kept, in order *)
Definition request_reads (dz : Z -> bytes -> option bytes) (x : st) (acks t : Z) (h : bytes)
           (R : bytes -> Z -> list raw_msg) (bs : bytes) : Prop :=
  exists topics,
    parse_frame (frame bs)
      = Some (produce_hdr (fst (next_correlation_id (cs (cl x)))) (Net.client_id (cfg (cl x))),
              ProduceRequest acks t topics) /\
    NoDup (map fst topics) /\
    forall tp ps, In (tp, ps) topics ->
      NoDup (map fst ps) /\
      forall p sb, In (p, sb) ps ->
        find_broker (cs (cl x)) tp p = Some h /\ R tp p <> [] /\
        broker_read dz (compression (cfg (cl x))) sb = Some (R tp p).

Lemma Forall2_in_l {A B} (R : A -> B -> Prop) l l' x :
  Forall2 R l l' -> In x l -> exists y, In y l' /\ R x y.
Proof.
  induction 1 as [|a b l l' Hab HF IH]; intros Hin; [contradiction Hin|].
  destruct Hin as [->|Hin].
  - exists b. split; [left; reflexivity|exact Hab].
  - destruct (IH Hin) as [y [Hy HR]]. exists y. split; [right; exact Hy|exact HR].
Qed.

Lemma batch_all_fit s msgs reqs h tps :
  Forall (fun m => fits (pmsg_of m)) msgs ->
  produce_reqs s msgs [] = Some reqs -> In (h, tps) reqs -> all_fit tps.
Proof.
  intros Hfit H Hh t ps p recs Ht Hp.
  destruct (entry_partition_in_batch s msgs reqs h tps t ps p recs H Hh Ht Hp) as [-> _].
  rewrite Forall_forall in Hfit. apply Forall_forall. intros y Hy. apply in_map_iff in Hy.
  destruct Hy as [m [<- Hm]]. apply Hfit. unfold for_tp in Hm. apply filter_In in Hm. tauto.
Qed.

(* on success every request of the map of the batch was offered, whole, to its host *)
Lemma call_sends_all acks t msgs reqs x v x' :
  produce_reqs (cs (cl x)) msgs [] = Some reqs ->
  internal_produce_messages acks t msgs x = (Ok v, x') ->
  exists evs, trace x' = evs ++ trace x
    /\ forall h tps, In (h, tps) reqs ->
         exists p, call_payload x acks t tps = Ok p /\ In (EWrite h (frame p)) evs.
Proof.
  intros Hreqs E.
  pose proof (C05_call_unfold acks t msgs x) as Hc. rewrite Hreqs in Hc. rewrite Hc in E. clear Hc.
  destruct (ordered_run reqs (bump_corr x)) as (o & y' & Ho & Ht & He & Hcl).
  rewrite (mbind_run _ _ _ _ _ Ho) in E.
  destruct (C05_exchange_sends_all _ _ _ _ _ _ _ _ E) as (evs & T & F).
  exists evs. split; [rewrite T, Ht; reflexivity|].
  intros h tps Hin. destruct (F h tps) as [p [Hp Hw]].
  { eapply Permutation_in; [apply Permutation_sym, reorder_perm|exact Hin]. }
  exists p. split; [|exact Hw]. rewrite He, Hcl in Hp. exact Hp.
Qed.

(* KafkaClient::internal_produce_messages, at the stream.  Whatever the outcome of the call (I/O errors, short
   writes, interrupted writes, broker error codes included):
     (1) every write() of the call offers the rest of the frame of a request which the broker it is written to
         reads, entry by entry, as the records of the CALLER'S batch for that partition, in the caller's order;
     (2) if the call returns Ok, every record's leader was offered the WHOLE frame of a request that has an entry
         for the record's topic and partition, and that entry reads back as exactly the batch's records for it. *)
Theorem C03_call_stream : forall dz acks t msgs reqs x r x',
  codec (compression (cfg (cl x))) -> inverts dz (env x) ->
  Forall (fun m => in_i32 (pq_partition m)) msgs -> ulen msgs <= i32_max ->
  (compression (cfg (cl x)) <> COMPRESSION_NONE -> Forall (fun m => fits (pmsg_of m)) msgs) ->
  in_i16 acks -> in_i32 t ->
  produce_reqs (cs (cl x)) msgs [] = Some reqs ->
  internal_produce_messages acks t msgs x = (r, x') ->
  exists evs, trace x' = evs ++ trace x /\
    (forall h b, In (EWrite h b) evs ->
       exists bs pre, frame bs = pre ++ b /\
         (ulen bs <= i32_max -> request_reads dz x acks t h (fun tp p => sent_to tp p msgs) bs)) /\
    (forall v, r = Ok v -> forall m, In m msgs ->
       exists h bs,
         find_broker (cs (cl x)) (pq_topic m) (pq_partition m) = Some h /\
         In (EWrite h (frame bs)) evs /\
         (ulen bs <= i32_max ->
          exists topics ps sb,
            parse_frame (frame bs)
              = Some (produce_hdr (fst (next_correlation_id (cs (cl x)))) (Net.client_id (cfg (cl x))),
                      ProduceRequest acks t topics) /\
            In (pq_topic m, ps) topics /\ In (pq_partition m, sb) ps /\
            broker_read dz (compression (cfg (cl x))) sb
              = Some (sent_to (pq_topic m) (pq_partition m) msgs))).
Proof.
  intros dz acks t msgs reqs x r x' Hc Hinv Hpart Hlen Hfit Ha Ht Hreqs E.
  destruct (C05_call_writes acks t msgs reqs x r x' Hreqs E) as (evs & T & F).
  exists evs. split; [exact T|]. split.
  - intros h b Hin. rewrite Forall_forall in F. specialize (F _ Hin). cbn [wire_ok] in F.
    destruct F as (tps & p & pre & Hh & Henc & Hf). exists p, pre. split; [exact Hf|]. intros Hp.
    unfold request_reads.
    eapply (C03_batch_in_order dz (env x) (cs (cl x)) msgs reqs h tps acks t); try eassumption.
    apply in_i32_next_corr.
  - intros v -> m Hm.
    destruct (call_sends_all acks t msgs reqs x v x' Hreqs E) as (evs' & T' & S).
    assert (evs' = evs) by (eapply app_inv_tail; rewrite <- T, <- T'; reflexivity). subst evs'.
    destruct (C03_batch_complete (cs (cl x)) msgs reqs m Hreqs Hm) as [h [tps [ps [recs [Hl [Hh [Htp Hpp]]]]]]].
    destruct (S h tps Hh) as [bs [Hbs Hw]].
    exists h, bs. split; [exact Hl|]. split; [exact Hw|]. intros Hsz.
    unfold call_payload in Hbs.
    pose proof (batch_wf_produce (cs (cl x)) msgs reqs h tps Hpart Hlen Hreqs Hh) as Hwf.
    assert (Hall : compression (cfg (cl x)) <> COMPRESSION_NONE -> all_fit tps).
    { intros Hn. eapply batch_all_fit; [exact (Hfit Hn)|exact Hreqs|exact Hh]. }
    destruct (C03_request_roundtrip dz (env x) tps acks t (compression (cfg (cl x)))
                (fst (next_correlation_id (cs (cl x)))) (Net.client_id (cfg (cl x))) bs
                Hc Hinv Hwf Ha Ht (in_i32_next_corr _) Hsz Hall Hbs) as [topics [Hparse Hrel]].
    unfold entries_rel in Hrel.
    destruct (Forall2_in_l _ _ _ _ Hrel Htp) as [[tq psq] [Htq [Hn Hps]]]. cbn [fst snd] in Hn, Hps. subst tq.
    destruct (Forall2_in_l _ _ _ _ Hps Hpp) as [[pq sb] [Hpq [Hn Hread]]]. cbn [fst snd] in Hn, Hread. subst pq.
    exists topics, psq, sb. split; [exact Hparse|]. split; [exact Htq|]. split; [exact Hpq|].
    rewrite Hread. f_equal.
    destruct (entry_partition_in_batch (cs (cl x)) msgs reqs h tps _ ps _ recs Hreqs Hh Htp Hpp) as [-> _].
    unfold sent_to. rewrite map_map. reflexivity.
Qed.

(* the same for the public entry point *)
Theorem C03_produce_messages_stream : forall dz acks d t msgs reqs x r x',
  to_millis_i32 d = Ok t -> 0 <= fst d -> 0 <= snd d ->
  codec (compression (cfg (cl x))) -> inverts dz (env x) ->
  Forall (fun m => in_i32 (pq_partition m)) msgs -> ulen msgs <= i32_max ->
  (compression (cfg (cl x)) <> COMPRESSION_NONE -> Forall (fun m => fits (pmsg_of m)) msgs) ->
  in_i16 acks ->
  produce_reqs (cs (cl x)) msgs [] = Some reqs ->
  produce_messages acks d msgs x = (r, x') ->
  exists evs, trace x' = evs ++ trace x /\
    (forall h b, In (EWrite h b) evs ->
       exists bs pre, frame bs = pre ++ b /\
         (ulen bs <= i32_max -> request_reads dz x acks t h (fun tp p => sent_to tp p msgs) bs)) /\
    (forall v, r = Ok v -> forall m, In m msgs ->
       exists h bs,
         find_broker (cs (cl x)) (pq_topic m) (pq_partition m) = Some h /\
         In (EWrite h (frame bs)) evs /\
         (ulen bs <= i32_max ->
          exists topics ps sb,
            parse_frame (frame bs)
              = Some (produce_hdr (fst (next_correlation_id (cs (cl x)))) (Net.client_id (cfg (cl x))),
                      ProduceRequest acks t topics) /\
            In (pq_topic m, ps) topics /\ In (pq_partition m, sb) ps /\
            broker_read dz (compression (cfg (cl x))) sb
              = Some (sent_to (pq_topic m) (pq_partition m) msgs))).
Proof.
  intros dz acks d t msgs reqs x r x' Hd Hd1 Hd2 Hc Hinv Hpart Hlen Hfit Ha Hreqs E.
  rewrite (produce_messages_unfold acks d t msgs x Hd) in E.
  eapply C03_call_stream; try eassumption. exact (to_millis_ok_in_i32 d t Hd1 Hd2 Hd).
Qed.

(* ================================================================================================== *)
(* Part 4: from the values handed to ProduceMessage::new to the byte stream                             *)
(* ================================================================================================== *)

(* the records GIVEN for topic tp / partition p, in the order given, as a broker should see them: an absent key or
   value as null, a present one - the empty byte string included - byte-identical *)
Definition given_to (tp : bytes) (p : Z) (l : list given) : list raw_msg :=
  map (fun g => {| rm_offset := 0; rm_attr := 0; rm_key := g_key g; rm_value := g_value g |})
      (filter (fun g => bytes_eqb (g_topic g) tp && (g_partition g =? p)) l).

Lemma sent_to_given tp p l : sent_to tp p (map msg_of l) = given_to tp p l.
Proof.
  unfold sent_to, given_to, for_tp. induction l as [|g l IH]; [reflexivity|].
  cbn [map filter]. unfold msg_of at 1 2. cbn [pq_topic pq_partition].
  destruct (bytes_eqb (g_topic g) tp && (g_partition g =? p)); cbn [map]; rewrite IH; reflexivity.
Qed.

Lemma produce_reqs_known s msgs : forall acc,
  Forall (fun m => find_broker s (pq_topic m) (pq_partition m) <> None) msgs ->
  exists reqs, produce_reqs s msgs acc = Some reqs.
Proof.
  induction msgs as [|m r IH]; intros acc H; cbn [produce_reqs]; [eexists; reflexivity|].
  inversion H as [|m' r' Hm Hr]; subst.
  destruct (find_broker s (pq_topic m) (pq_partition m)) as [h|]; [|contradiction Hm; reflexivity].
  apply IH. exact Hr.
Qed.

(* KafkaClient::produce_messages on messages built with ProduceMessage::new from the given (topic, partition,
   optional key, optional value) tuples - the argument `dispatch` passes for the scripted call (Part 1) -
   in a client that knows a leader for every destination.  (1) whatever the outcome, every write carries (the rest of)
   a request whose entries read back as the GIVEN records; (2) on success the leader of every given record was
   offered a whole frame with an entry for its partition that reads back as exactly the records given for it. *)
Theorem C03_given_stream : forall dz acks d t l x r x',
  to_millis_i32 d = Ok t -> 0 <= fst d -> 0 <= snd d ->
  codec (compression (cfg (cl x))) -> inverts dz (env x) ->
  Forall (fun g => in_i32 (g_partition g)) l -> ulen l <= i32_max ->
  (compression (cfg (cl x)) <> COMPRESSION_NONE -> Forall (fun g => fits (g_key g, g_value g)) l) ->
  in_i16 acks ->
  Forall (fun g => find_broker (cs (cl x)) (g_topic g) (g_partition g) <> None) l ->
  produce_messages acks d (map pq_of (map pm_val l)) x = (r, x') ->
  exists evs, trace x' = evs ++ trace x /\
    (forall h b, In (EWrite h b) evs ->
       exists bs pre, frame bs = pre ++ b /\
         (ulen bs <= i32_max -> request_reads dz x acks t h (fun tp p => given_to tp p l) bs)) /\
    (forall v, r = Ok v -> forall g, In g l ->
       exists h bs,
         find_broker (cs (cl x)) (g_topic g) (g_partition g) = Some h /\
         In (EWrite h (frame bs)) evs /\
         (ulen bs <= i32_max ->
          exists topics ps sb,
            parse_frame (frame bs)
              = Some (produce_hdr (fst (next_correlation_id (cs (cl x)))) (Net.client_id (cfg (cl x))),
                      ProduceRequest acks t topics) /\
            In (g_topic g, ps) topics /\ In (g_partition g, sb) ps /\
            broker_read dz (compression (cfg (cl x))) sb = Some (given_to (g_topic g) (g_partition g) l))).
Proof.
  intros dz acks d t l x r x' Hd Hd1 Hd2 Hc Hinv Hpart Hlen Hfit Ha Hknown E.
  rewrite map_map, (map_ext (fun y => pq_of (pm_val y)) msg_of C03_new_keeps_given) in E.
  assert (Hpart' : Forall (fun m => in_i32 (pq_partition m)) (map msg_of l)).
  { apply Forall_forall. intros m Hm. apply in_map_iff in Hm. destruct Hm as [g [<- Hg]].
    rewrite Forall_forall in Hpart. exact (Hpart g Hg). }
  assert (Hlen' : ulen (map msg_of l) <= i32_max) by (unfold ulen in *; rewrite map_length; exact Hlen).
  assert (Hfit' : compression (cfg (cl x)) <> COMPRESSION_NONE -> Forall (fun m => fits (pmsg_of m)) (map msg_of l)).
  { intros Hn. specialize (Hfit Hn). apply Forall_forall. intros m Hm. apply in_map_iff in Hm.
    destruct Hm as [g [<- Hg]]. rewrite Forall_forall in Hfit. exact (Hfit g Hg). }
  assert (Hknown' : Forall (fun m => find_broker (cs (cl x)) (pq_topic m) (pq_partition m) <> None) (map msg_of l)).
  { apply Forall_forall. intros m Hm. apply in_map_iff in Hm. destruct Hm as [g [<- Hg]].
    rewrite Forall_forall in Hknown. exact (Hknown g Hg). }
  destruct (produce_reqs_known (cs (cl x)) (map msg_of l) [] Hknown') as [reqs Hreqs].
  destruct (C03_produce_messages_stream dz acks d t (map msg_of l) reqs x r x'
              Hd Hd1 Hd2 Hc Hinv Hpart' Hlen' Hfit' Ha Hreqs E) as (evs & T & W & S).
  exists evs. split; [exact T|]. split.
  - intros h b Hin. destruct (W h b Hin) as (bs & pre & Hf & Hr). exists bs, pre. split; [exact Hf|].
    intros Hsz. destruct (Hr Hsz) as (topics & Hp & Hnd & Hent). exists topics. split; [exact Hp|]. split; [exact Hnd|].
    intros tp ps Htp. destruct (Hent tp ps Htp) as [Hnd2 Hps]. split; [exact Hnd2|].
    intros p sb Hp'. specialize (Hps p sb Hp'). rewrite sent_to_given in Hps. exact Hps.
  - intros v Hv g Hg.
    destruct (S v Hv (msg_of g) (in_map msg_of l g Hg)) as (h & bs & Hl & Hw & Hr).
    cbn [msg_of pq_topic pq_partition] in Hl, Hr. exists h, bs. split; [exact Hl|]. split; [exact Hw|].
    intros Hsz. destruct (Hr Hsz) as (topics & ps & sb & Hp & Ht & Hp' & Hread).
    exists topics, ps, sb. rewrite sent_to_given in Hread. repeat split; assumption.
Qed.

(* ================================================================================================== *)
(* Examples (non-vacuity)                                                                               *)
(* ================================================================================================== *)

(* the batch of the seeded change's demonstration, all for t1/0 (led by h0 in the state of C20Facts):
   (k0,v0), ("",v1), (k2,""), (null,""), ("",null) *)
Definition exb_mk (k v : option bytes) : given := {| g_topic := tag "t1"; g_partition := 0; g_key := k; g_value := v |}.
Definition exb_given : list given :=
  [ exb_mk (Some (tag "k0")) (Some (tag "v0")); exb_mk (Some []) (Some (tag "v1")); exb_mk (Some (tag "k2")) (Some []);
    exb_mk None (Some []); exb_mk (Some []) None ].

Definition exb_expected : list raw_msg :=
  map plain_raw [ (Some (tag "k0"), Some (tag "v0")); (Some [], Some (tag "v1")); (Some (tag "k2"), Some []);
                  (None, Some []); (Some [], None) ].

(* on the wire a present empty key is length 0, an absent one length -1 (bytes 18..21 of a message) *)
Example exb_empty_is_not_null :
  match enc_messages [(Some [], None)], enc_messages [(None, Some [])] with
  | Ok a, Ok b => firstn 4 (skipn 18 a) = [x00; x00; x00; x00] /\ firstn 4 (skipn 22 a) = [xff; xff; xff; xff]
                  /\ firstn 4 (skipn 18 b) = [xff; xff; xff; xff] /\ firstn 4 (skipn 22 b) = [x00; x00; x00; x00]
  | _, _ => False
  end.
Proof. vm_compute. repeat split; reflexivity. Qed.

(* the scripted call through `dispatch` (uncompressed client of C20Facts, acks 0, the broker accepts the connection
   and the whole write): one connect, one write to h0, and what was written reads back as the GIVEN records *)
Example exb_dispatch :
  let out := dispatch (OClient (c20_client 1)) (produce_op 0 (1, 0) exb_given)
                      (vt "hints" [VL []; VL []; VL []; VL []])
                      (VL [vt "conn" [VI 1]; vt "wrote" [VI 100000]])
                      (vt "env" [VL []; VL []; VL []; VL []; VI 0]) in
  o_result out = vt "ok" [VL []]
  /\ match o_trace out with
     | [EConnect h; EWrite h' b] =>
         h = tag "h0:9092" /\ h' = tag "h0:9092"
         /\ match parse_frame b with
            | Some (_, ProduceRequest 0 1000 [ (t, [ (0, sb) ]) ]) =>
                t = tag "t1" /\ broker_read exx_dz 0 sb = Some exb_expected
                /\ given_to (tag "t1") 0 exb_given = exb_expected
            | _ => False
            end
     | _ => False
     end.
Proof. vm_compute. repeat split; reflexivity. Qed.

(* the hypotheses of C03_given_stream / C03_produce_messages_stream, for each codec *)
Definition exb_st (c : Z) : st :=
  {| script := [OConn true; OWrote 100000]; trace := []; anyq := []; hostq := []; fetchq := []; entryq := [];
     cl := {| cfg := {| Net.client_id := tag "cid"; hosts := [tag "h0:9092"]; compression := c;
                        fetch_max_wait_time := 100; fetch_min_bytes := 4096; fetch_max_bytes_per_partition := 32768;
                        fetch_crc_validation := true; offset_storage := 0; retry_backoff_time := (0, 100000000);
                        retry_max_attempts := 120; idle_timeout := (540, 0) |};
              cs := c20_state; conns := [] |};
     env := exx_cz |}.

Example exb_given_stream_hyps : forall c, codec c ->
  to_millis_i32 (1, 500000000) = Ok 1500
  /\ codec (compression (cfg (cl (exb_st c)))) /\ inverts exx_dz (env (exb_st c))
  /\ Forall (fun g => in_i32 (g_partition g)) exb_given /\ ulen exb_given <= i32_max
  /\ Forall (fun g => fits (g_key g, g_value g)) exb_given /\ in_i16 0
  /\ Forall (fun g => find_broker (cs (cl (exb_st c))) (g_topic g) (g_partition g) <> None) exb_given.
Proof.
  intros c Hc. split; [reflexivity|]. split; [exact Hc|]. split; [exact exx_inverts|].
  split; [repeat constructor; vm_compute; intros H; discriminate H|].
  split; [vm_compute; intros H; discriminate H|].
  split; [repeat constructor; vm_compute; reflexivity|].
  split; [split; vm_compute; intros H; discriminate H|].
  repeat constructor; vm_compute; intros H; discriminate H.
Qed.

(* and its conclusion computed, for GZIP and SNAPPY: the call succeeds, the one write is the whole frame, the entry
   for t1/0 is ONE wrapper around the compressed plain set, which reads back as the given records *)
Example exb_given_stream :
  forall c, c = COMPRESSION_GZIP \/ c = COMPRESSION_SNAPPY ->
  let rx := produce_messages 0 (1, 500000000) (map pq_of (map pm_val exb_given)) (exb_st c) in
  fst rx = Ok []
  /\ match trace (snd rx) with
     | [EWrite h b; EConnect _] =>
         h = tag "h0:9092"
         /\ match parse_frame b with
            | Some (hd, ProduceRequest 0 1500 [ (t, [ (0, sb) ]) ]) =>
                correlation_id hd = 8 /\ t = tag "t1"
                /\ (exists w, spec_parse sb = Some [w] /\ rm_attr w = c /\ rm_key w = None)
                /\ broker_read exx_dz c sb = Some (given_to (tag "t1") 0 exb_given)
                /\ given_to (tag "t1") 0 exb_given = exb_expected
            | _ => False
            end
     | _ => False
     end.
Proof.
  intros c [->| ->]; vm_compute;
    (split; [reflexivity|split; [reflexivity|split; [reflexivity|split; [reflexivity|
       split; [eexists; split; [reflexivity|split; reflexivity]|split; reflexivity]]]]]).
Qed.

Check C03_new_keeps_given.
Check C03_dispatch_produce_messages.
Check C03_produce_messages_bad_timeout.
Check C03_produce_messages_in_order.
Check C03_call_stream.
Check C03_produce_messages_stream.
Check C03_given_stream.

Print Assumptions C03_new_keeps_given.
Print Assumptions C03_dispatch_produce_messages.
Print Assumptions C03_produce_messages_bad_timeout.
Print Assumptions C03_produce_messages_in_order.
Print Assumptions C03_call_stream.
Print Assumptions C03_produce_messages_stream.
Print Assumptions C03_given_stream.
