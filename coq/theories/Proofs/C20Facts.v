(* C20: no request built by the client mentions a topic / partition absent from the loaded metadata
   (src/client/mod.rs: fetch_offsets, fetch_messages, internal_produce_messages, commit_offsets,
   fetch_group_offsets, fetch_group_topic_offset; src/client/state.rs lookups).

   Part 0 of this file is a small generic theory of the "first match or push" association-list inserts
   (tp_add, pp_add, produce_add, phost_add, host_add, fp_insert, fetch_add, fhost_add are all instances of
   one `upsert`), also used by C05Facts.v. *)
From Coq Require Import ZifyBool Sorting.Permutation.
From KV Require Import Base.Prelude Gen.Consts Model.Codecs Model.Requests Model.Responses
                       Model.ClientState Model.Net Model.Client.
From KV Require Import Proofs.BytesFacts.

(* ================================================================================================== *)
(* Part 0: association lists with "update the first entry with this key, else push a new entry"       *)
(* ================================================================================================== *)
Section Upsert.
  Context {K V : Type} (eqb : K -> K -> bool).
  Hypothesis eqb_spec : forall a b, eqb a b = true <-> a = b.

  Fixpoint upsert (l : list (K * V)) (k : K) (f : V -> V) (d : V) : list (K * V) :=
    match l with
    | [] => [(k, d)]
    | (k', v) :: r => if eqb k' k then (k', f v) :: r else (k', v) :: upsert r k f d
    end.

  Fixpoint gassoc (k : K) (l : list (K * V)) : option V :=
    match l with [] => None | (k', v) :: r => if eqb k' k then Some v else gassoc k r end.

  Definition has_key (k : K) (l : list (K * V)) : bool := existsb (fun kv => eqb (fst kv) k) l.

  Lemma eqb_refl a : eqb a a = true.
  Proof. apply eqb_spec. reflexivity. Qed.

  Lemma eqb_false a b : eqb a b = false <-> a <> b.
  Proof.
    split.
    - intros H E. apply eqb_spec in E. rewrite E in H. discriminate.
    - intros H. destruct (eqb a b) eqn:E; [apply eqb_spec in E; contradiction|reflexivity].
  Qed.

  Lemma has_key_In k l : has_key k l = true <-> In k (map fst l).
  Proof.
    unfold has_key. induction l as [|[k' v] r IH]; cbn [existsb map In fst].
    - split; [discriminate|intros []].
    - rewrite orb_true_iff, IH, eqb_spec. reflexivity.
  Qed.

  Lemma has_key_false k l : has_key k l = false <-> ~ In k (map fst l).
  Proof.
    rewrite <- has_key_In. destruct (has_key k l).
    - split; [discriminate|]. intros H. exfalso. apply H. reflexivity.
    - split; [intros _ H; discriminate|reflexivity].
  Qed.

  Lemma gassoc_None k l : gassoc k l = None <-> ~ In k (map fst l).
  Proof.
    induction l as [|[k' v] r IH]; cbn [gassoc map In fst].
    - split; [intros _ []|reflexivity].
    - destruct (eqb k' k) eqn:E.
      + apply eqb_spec in E. split; [discriminate|]. intros H. exfalso. apply H. left. exact E.
      + apply eqb_false in E. rewrite IH. split; [intros H [H1|H1]; contradiction|intros H H1; apply H; right; exact H1].
  Qed.

  Lemma gassoc_In k v l : gassoc k l = Some v -> In (k, v) l.
  Proof.
    induction l as [|[k' v'] r IH]; cbn [gassoc In]; [discriminate|].
    destruct (eqb k' k) eqn:E.
    - apply eqb_spec in E. intros H. injection H as ->. left. rewrite E. reflexivity.
    - intros H. right. apply IH. exact H.
  Qed.

  Lemma In_gassoc k v l : NoDup (map fst l) -> In (k, v) l -> gassoc k l = Some v.
  Proof.
    induction l as [|[k' v'] r IH]; cbn [gassoc In map fst]; intros Hnd Hin; [contradiction|].
    inversion Hnd as [|x xs Hx Hnd']; subst.
    destruct Hin as [Hin|Hin].
    - injection Hin as -> ->. rewrite eqb_refl. reflexivity.
    - destruct (eqb k' k) eqn:E.
      + apply eqb_spec in E. subst k'. exfalso. apply Hx. apply (in_map fst) in Hin. exact Hin.
      + apply IH; assumption.
  Qed.

  (* keys: existing entries keep their position, a new key goes to the end *)
  Lemma upsert_keys l k f d :
    map fst (upsert l k f d) = if has_key k l then map fst l else map fst l ++ [k].
  Proof.
    unfold has_key. induction l as [|[k' v] r IH]; cbn [upsert existsb map fst app]; [reflexivity|].
    destruct (eqb k' k) eqn:E; cbn [orb map fst].
    - reflexivity.
    - rewrite IH. destruct (existsb (fun kv => eqb (fst kv) k) r); reflexivity.
  Qed.

  Lemma upsert_length l k f d :
    length (upsert l k f d) = if has_key k l then length l else S (length l).
  Proof.
    rewrite <- (map_length fst), upsert_keys. destruct (has_key k l); rewrite ?app_length, map_length; cbn [length]; lia.
  Qed.

  Lemma upsert_position l k f d i k' :
    nth_error (map fst l) i = Some k' -> nth_error (map fst (upsert l k f d)) i = Some k'.
  Proof.
    intros H. rewrite upsert_keys. destruct (has_key k l); [exact H|].
    rewrite nth_error_app1; [exact H|]. apply nth_error_Some. rewrite H. discriminate.
  Qed.

  Lemma NoDup_snoc {A} (l : list A) a : NoDup l -> ~ In a l -> NoDup (l ++ [a]).
  Proof.
    intros H Ha. induction H as [|x xs Hx Hxs IH]; cbn [app].
    - constructor; [intros []|constructor].
    - constructor.
      + rewrite in_app_iff. intros [H1|[H1|[]]]; [contradiction|]. subst. apply Ha. left. reflexivity.
      + apply IH. intros H1. apply Ha. right. exact H1.
  Qed.

  Lemma upsert_NoDup l k f d : NoDup (map fst l) -> NoDup (map fst (upsert l k f d)).
  Proof.
    intros H. rewrite upsert_keys. destruct (has_key k l) eqn:E; [exact H|].
    apply has_key_false in E. apply NoDup_snoc; assumption.
  Qed.

  (* lookup after insert *)
  Lemma gassoc_upsert_same l k f d :
    gassoc k (upsert l k f d) = Some (match gassoc k l with Some v => f v | None => d end).
  Proof.
    induction l as [|[k' v] r IH]; cbn [upsert gassoc].
    - rewrite eqb_refl. reflexivity.
    - destruct (eqb k' k) eqn:E; cbn [gassoc]; rewrite E; [reflexivity|exact IH].
  Qed.

  Lemma gassoc_upsert_other l k f d k0 : k <> k0 -> gassoc k0 (upsert l k f d) = gassoc k0 l.
  Proof.
    intros Hne. induction l as [|[k' v] r IH]; cbn [upsert gassoc].
    - apply eqb_false in Hne. rewrite Hne. reflexivity.
    - destruct (eqb k' k) eqn:E; cbn [gassoc].
      + apply eqb_spec in E. subst k'. apply eqb_false in Hne. rewrite Hne. reflexivity.
      + rewrite IH. reflexivity.
  Qed.

  (* where the entries of the result come from *)
  Lemma In_upsert l k f d k' v' :
    In (k', v') (upsert l k f d) ->
    In (k', v') l \/ (k' = k /\ ((exists v, In (k, v) l /\ v' = f v) \/ v' = d)).
  Proof.
    induction l as [|[k1 v1] r IH]; cbn [upsert In].
    - intros [H|[]]. injection H as <- <-. right. split; [reflexivity|right; reflexivity].
    - destruct (eqb k1 k) eqn:E; cbn [In].
      + apply eqb_spec in E. subst k1. intros [H|H].
        * injection H as <- <-. right. split; [reflexivity|]. left. exists v1. split; [left; reflexivity|reflexivity].
        * left. right. exact H.
      + intros [H|H]; [left; left; exact H|].
        destruct (IH H) as [H1|[H1 [[v [H2 H3]]|H2]]].
        * left. right. exact H1.
        * right. split; [exact H1|]. left. exists v. split; [right; exact H2|exact H3].
        * right. split; [exact H1|right; exact H2].
  Qed.

  (* an invariant on the entries survives an insert *)
  Lemma upsert_all (inv : K -> V -> Prop) l k f d :
    (forall k' v, In (k', v) l -> inv k' v) ->
    (forall v, In (k, v) l -> inv k v -> inv k (f v)) -> inv k d ->
    forall k' v, In (k', v) (upsert l k f d) -> inv k' v.
  Proof.
    intros Hl Hf Hd k' v' Hin. apply In_upsert in Hin.
    destruct Hin as [H | [-> [[v [H1 ->]] | ->]]].
    - apply Hl. exact H.
    - apply Hf; [exact H1|]. apply Hl. exact H1.
    - exact Hd.
  Qed.

  (* the inserted key is present afterwards, older entries with another key stay *)
  Lemma upsert_In_other l k f d k' v' : k' <> k -> In (k', v') l -> In (k', v') (upsert l k f d).
  Proof.
    intros Hne. induction l as [|[k1 v1] r IH]; cbn [upsert In]; [intros []|].
    destruct (eqb k1 k) eqn:E; cbn [In].
    - apply eqb_spec in E. subst k1. intros [H|H]; [injection H as <- _; contradiction|right; exact H].
    - intros [H|H]; [left; exact H|right; apply IH; exact H].
  Qed.

  (* selection of everything stored under a key (for lists with distinct keys: the lookup) *)
  Definition sel {W} (k0 : K) (g : V -> list W) (l : list (K * V)) : list W :=
    flat_map (fun kv => if eqb (fst kv) k0 then g (snd kv) else []) l.

  Lemma sel_absent {W} k0 (g : V -> list W) l : ~ In k0 (map fst l) -> sel k0 g l = [].
  Proof.
    unfold sel. induction l as [|[k' v] r IH]; cbn [flat_map map In fst snd]; intros H; [reflexivity|].
    destruct (eqb k' k0) eqn:E.
    - apply eqb_spec in E. exfalso. apply H. left. exact E.
    - rewrite IH; [reflexivity|]. intros H1. apply H. right. exact H1.
  Qed.

  Lemma sel_gassoc {W} k0 (g : V -> list W) l : NoDup (map fst l) ->
    sel k0 g l = match gassoc k0 l with Some v => g v | None => [] end.
  Proof.
    unfold sel. induction l as [|[k' v] r IH]; cbn [flat_map map fst snd gassoc]; intros H; [reflexivity|].
    inversion H as [|x xs Hx Hnd]; subst.
    destruct (eqb k' k0) eqn:E.
    - apply eqb_spec in E. subst k'. fold (sel k0 g r). rewrite sel_absent by exact Hx. apply app_nil_r.
    - cbn [app]. apply IH. exact Hnd.
  Qed.

  (* an insert that appends `extra` to what is selected under its own key *)
  Lemma sel_upsert {W} k0 (g : V -> list W) l k f d extra :
    NoDup (map fst l) ->
    (forall v, In (k, v) l -> g (f v) = g v ++ extra) -> g d = extra ->
    sel k0 g (upsert l k f d) = sel k0 g l ++ (if eqb k k0 then extra else []).
  Proof.
    unfold sel. induction l as [|[k' v] r IH]; cbn [upsert flat_map map fst snd]; intros Hnd Hf Hd.
    - destruct (eqb k k0); [rewrite Hd|]; cbn [app]; rewrite ?app_nil_r; reflexivity.
    - apply NoDup_cons_iff in Hnd. destruct Hnd as [Hx Hnd'].
      destruct (eqb k' k) eqn:E; cbn [flat_map fst snd].
      + apply eqb_spec in E. subst k'. destruct (eqb k k0) eqn:E0.
        * apply eqb_spec in E0. subst k0. fold (sel k g r). rewrite sel_absent by exact Hx.
          rewrite Hf by (left; reflexivity). rewrite !app_nil_r. reflexivity.
        * cbn [app]. rewrite app_nil_r. reflexivity.
      + rewrite IH; [apply app_assoc|exact Hnd'| |exact Hd].
        intros v0 H0. apply Hf. right. exact H0.
  Qed.
End Upsert.


Lemma fold_left_inv {A B} (I : A -> Prop) (f : A -> B -> A) l a :
  (forall acc x, In x l -> I acc -> I (f acc x)) -> I a -> I (fold_left f l a).
Proof.
  revert a. induction l as [|x r IH]; intros a Hstep Ha; cbn [fold_left]; [exact Ha|].
  apply IH.
  - intros acc y Hy. apply Hstep. right. exact Hy.
  - apply Hstep; [left; reflexivity|exact Ha].
Qed.

(* ---- the model's inserts are instances ------------------------------------------------------------ *)
Lemma assoc_bytes_gassoc {V} k (l : list (bytes * V)) : assoc_bytes k l = gassoc bytes_eqb k l.
Proof. induction l as [|[k' v] r IH]; cbn [assoc_bytes gassoc]; [reflexivity|rewrite IH; reflexivity]. Qed.
Lemma assoc_z_gassoc {V} k (l : list (Z * V)) : assoc_z k l = gassoc Z.eqb k l.
Proof. induction l as [|[k' v] r IH]; cbn [assoc_z gassoc]; [reflexivity|rewrite IH; reflexivity]. Qed.

Lemma tp_add_upsert {P} (tps : list (bytes * list P)) t p :
  tp_add tps t p = upsert bytes_eqb tps t (fun ps => ps ++ [p]) [p].
Proof. induction tps as [|[t' ps] r IH]; cbn [tp_add upsert]; [reflexivity|rewrite IH; reflexivity]. Qed.
Lemma host_add_upsert {P} (reqs : list (bytes * list (bytes * list P))) h t p :
  host_add reqs h t p = upsert bytes_eqb reqs h (fun tps => tp_add tps t p) (tp_add [] t p).
Proof. induction reqs as [|[h' tps] r IH]; cbn [host_add upsert]; [reflexivity|rewrite IH; reflexivity]. Qed.
Lemma pp_add_upsert ps p m : pp_add ps p m = upsert Z.eqb ps p (fun ms => ms ++ [m]) [m].
Proof. induction ps as [|[q ms] r IH]; cbn [pp_add upsert]; [reflexivity|rewrite IH; reflexivity]. Qed.
Lemma produce_add_upsert tps t p m :
  produce_add tps t p m = upsert bytes_eqb tps t (fun ps => pp_add ps p m) (pp_add [] p m).
Proof. induction tps as [|[t' ps] r IH]; cbn [produce_add upsert]; [reflexivity|rewrite IH; reflexivity]. Qed.
Lemma phost_add_upsert reqs h t p m :
  phost_add reqs h t p m = upsert bytes_eqb reqs h (fun tps => produce_add tps t p m) (produce_add [] t p m).
Proof. induction reqs as [|[h' tps] r IH]; cbn [phost_add upsert]; [reflexivity|rewrite IH; reflexivity]. Qed.
Lemma fp_insert_upsert ps p v : fp_insert ps p v = upsert Z.eqb ps p (fun _ => v) v.
Proof. induction ps as [|[q w] r IH]; cbn [fp_insert upsert]; [reflexivity|rewrite IH; reflexivity]. Qed.
Lemma fetch_add_upsert tps t p off maxb :
  fetch_add tps t p off maxb
  = upsert bytes_eqb tps t (fun ps => fp_insert ps p (off, maxb)) (fp_insert [] p (off, maxb)).
Proof. induction tps as [|[t' ps] r IH]; cbn [fetch_add upsert]; [reflexivity|rewrite IH; reflexivity]. Qed.
Lemma fhost_add_upsert reqs h t p off maxb :
  fhost_add reqs h t p off maxb
  = upsert bytes_eqb reqs h (fun tps => fetch_add tps t p off maxb) (fetch_add [] t p off maxb).
Proof. induction reqs as [|[h' tps] r IH]; cbn [fhost_add upsert]; [reflexivity|rewrite IH; reflexivity]. Qed.

(* ---- keys stay distinct ---------------------------------------------------------------------------- *)
Lemma tp_add_NoDup {P} (tps : list (bytes * list P)) t p : NoDup (map fst tps) -> NoDup (map fst (tp_add tps t p)).
Proof. rewrite tp_add_upsert. apply upsert_NoDup, bytes_eqb_eq. Qed.
Lemma host_add_NoDup {P} (reqs : list (bytes * list (bytes * list P))) h t p :
  NoDup (map fst reqs) -> NoDup (map fst (host_add reqs h t p)).
Proof. rewrite host_add_upsert. apply upsert_NoDup, bytes_eqb_eq. Qed.
Lemma pp_add_NoDup ps p m : NoDup (map fst ps) -> NoDup (map fst (pp_add ps p m)).
Proof. rewrite pp_add_upsert. apply upsert_NoDup, Z.eqb_eq. Qed.
Lemma produce_add_NoDup tps t p m : NoDup (map fst tps) -> NoDup (map fst (produce_add tps t p m)).
Proof. rewrite produce_add_upsert. apply upsert_NoDup, bytes_eqb_eq. Qed.
Lemma phost_add_NoDup reqs h t p m : NoDup (map fst reqs) -> NoDup (map fst (phost_add reqs h t p m)).
Proof. rewrite phost_add_upsert. apply upsert_NoDup, bytes_eqb_eq. Qed.
Lemma fp_insert_NoDup ps p v : NoDup (map fst ps) -> NoDup (map fst (fp_insert ps p v)).
Proof. rewrite fp_insert_upsert. apply upsert_NoDup, Z.eqb_eq. Qed.
Lemma fetch_add_NoDup tps t p off maxb : NoDup (map fst tps) -> NoDup (map fst (fetch_add tps t p off maxb)).
Proof. rewrite fetch_add_upsert. apply upsert_NoDup, bytes_eqb_eq. Qed.
Lemma fhost_add_NoDup reqs h t p off maxb : NoDup (map fst reqs) -> NoDup (map fst (fhost_add reqs h t p off maxb)).
Proof. rewrite fhost_add_upsert. apply upsert_NoDup, bytes_eqb_eq. Qed.

(* ---- existing entries keep their position (a new key is appended) ------------------------------------ *)
Lemma tp_add_keys {P} (tps : list (bytes * list P)) t p :
  map fst (tp_add tps t p) = if has_key bytes_eqb t tps then map fst tps else map fst tps ++ [t].
Proof. rewrite tp_add_upsert. apply upsert_keys. Qed.
Lemma host_add_keys {P} (reqs : list (bytes * list (bytes * list P))) h t p :
  map fst (host_add reqs h t p) = if has_key bytes_eqb h reqs then map fst reqs else map fst reqs ++ [h].
Proof. rewrite host_add_upsert. apply upsert_keys. Qed.
Lemma pp_add_keys ps p m :
  map fst (pp_add ps p m) = if has_key Z.eqb p ps then map fst ps else map fst ps ++ [p].
Proof. rewrite pp_add_upsert. apply upsert_keys. Qed.
Lemma produce_add_keys tps t p m :
  map fst (produce_add tps t p m) = if has_key bytes_eqb t tps then map fst tps else map fst tps ++ [t].
Proof. rewrite produce_add_upsert. apply upsert_keys. Qed.
Lemma phost_add_keys reqs h t p m :
  map fst (phost_add reqs h t p m) = if has_key bytes_eqb h reqs then map fst reqs else map fst reqs ++ [h].
Proof. rewrite phost_add_upsert. apply upsert_keys. Qed.
Lemma fp_insert_keys ps p v :
  map fst (fp_insert ps p v) = if has_key Z.eqb p ps then map fst ps else map fst ps ++ [p].
Proof. rewrite fp_insert_upsert. apply upsert_keys. Qed.
Lemma fetch_add_keys tps t p off maxb :
  map fst (fetch_add tps t p off maxb) = if has_key bytes_eqb t tps then map fst tps else map fst tps ++ [t].
Proof. rewrite fetch_add_upsert. apply upsert_keys. Qed.
Lemma fhost_add_keys reqs h t p off maxb :
  map fst (fhost_add reqs h t p off maxb) = if has_key bytes_eqb h reqs then map fst reqs else map fst reqs ++ [h].
Proof. rewrite fhost_add_upsert. apply upsert_keys. Qed.

Lemma tp_add_position {P} (tps : list (bytes * list P)) t p i t' :
  nth_error (map fst tps) i = Some t' -> nth_error (map fst (tp_add tps t p)) i = Some t'.
Proof. rewrite tp_add_upsert. apply upsert_position. Qed.
Lemma host_add_position {P} (reqs : list (bytes * list (bytes * list P))) h t p i h' :
  nth_error (map fst reqs) i = Some h' -> nth_error (map fst (host_add reqs h t p)) i = Some h'.
Proof. rewrite host_add_upsert. apply upsert_position. Qed.
Lemma pp_add_position ps p m i q :
  nth_error (map fst ps) i = Some q -> nth_error (map fst (pp_add ps p m)) i = Some q.
Proof. rewrite pp_add_upsert. apply upsert_position. Qed.
Lemma produce_add_position tps t p m i t' :
  nth_error (map fst tps) i = Some t' -> nth_error (map fst (produce_add tps t p m)) i = Some t'.
Proof. rewrite produce_add_upsert. apply upsert_position. Qed.
Lemma phost_add_position reqs h t p m i h' :
  nth_error (map fst reqs) i = Some h' -> nth_error (map fst (phost_add reqs h t p m)) i = Some h'.
Proof. rewrite phost_add_upsert. apply upsert_position. Qed.
Lemma fetch_add_position tps t p off maxb i t' :
  nth_error (map fst tps) i = Some t' -> nth_error (map fst (fetch_add tps t p off maxb)) i = Some t'.
Proof. rewrite fetch_add_upsert. apply upsert_position. Qed.

(* ---- lookup after insert ------------------------------------------------------------------------------ *)
Lemma assoc_tp_add_same {P} (tps : list (bytes * list P)) t p :
  assoc_bytes t (tp_add tps t p) = Some (match assoc_bytes t tps with Some ps => ps ++ [p] | None => [p] end).
Proof. rewrite tp_add_upsert, !assoc_bytes_gassoc. apply gassoc_upsert_same, bytes_eqb_eq. Qed.
Lemma assoc_tp_add_other {P} (tps : list (bytes * list P)) t p t0 :
  t <> t0 -> assoc_bytes t0 (tp_add tps t p) = assoc_bytes t0 tps.
Proof. rewrite tp_add_upsert, !assoc_bytes_gassoc. apply gassoc_upsert_other, bytes_eqb_eq. Qed.
Lemma assoc_host_add_same {P} (reqs : list (bytes * list (bytes * list P))) h t p :
  assoc_bytes h (host_add reqs h t p)
  = Some (tp_add (match assoc_bytes h reqs with Some tps => tps | None => [] end) t p).
Proof.
  rewrite host_add_upsert, !assoc_bytes_gassoc, gassoc_upsert_same by apply bytes_eqb_eq.
  destruct (gassoc bytes_eqb h reqs); reflexivity.
Qed.
Lemma assoc_host_add_other {P} (reqs : list (bytes * list (bytes * list P))) h t p h0 :
  h <> h0 -> assoc_bytes h0 (host_add reqs h t p) = assoc_bytes h0 reqs.
Proof. rewrite host_add_upsert, !assoc_bytes_gassoc. apply gassoc_upsert_other, bytes_eqb_eq. Qed.
Lemma assoc_pp_add_same ps p m :
  assoc_z p (pp_add ps p m) = Some (match assoc_z p ps with Some ms => ms ++ [m] | None => [m] end).
Proof. rewrite pp_add_upsert, !assoc_z_gassoc. apply gassoc_upsert_same, Z.eqb_eq. Qed.
Lemma assoc_pp_add_other ps p m p0 : p <> p0 -> assoc_z p0 (pp_add ps p m) = assoc_z p0 ps.
Proof. rewrite pp_add_upsert, !assoc_z_gassoc. apply gassoc_upsert_other, Z.eqb_eq. Qed.
Lemma assoc_produce_add_same tps t p m :
  assoc_bytes t (produce_add tps t p m)
  = Some (pp_add (match assoc_bytes t tps with Some ps => ps | None => [] end) p m).
Proof.
  rewrite produce_add_upsert, !assoc_bytes_gassoc, gassoc_upsert_same by apply bytes_eqb_eq.
  destruct (gassoc bytes_eqb t tps); reflexivity.
Qed.
Lemma assoc_produce_add_other tps t p m t0 :
  t <> t0 -> assoc_bytes t0 (produce_add tps t p m) = assoc_bytes t0 tps.
Proof. rewrite produce_add_upsert, !assoc_bytes_gassoc. apply gassoc_upsert_other, bytes_eqb_eq. Qed.
Lemma assoc_phost_add_same reqs h t p m :
  assoc_bytes h (phost_add reqs h t p m)
  = Some (produce_add (match assoc_bytes h reqs with Some tps => tps | None => [] end) t p m).
Proof.
  rewrite phost_add_upsert, !assoc_bytes_gassoc, gassoc_upsert_same by apply bytes_eqb_eq.
  destruct (gassoc bytes_eqb h reqs); reflexivity.
Qed.
Lemma assoc_phost_add_other reqs h t p m h0 :
  h <> h0 -> assoc_bytes h0 (phost_add reqs h t p m) = assoc_bytes h0 reqs.
Proof. rewrite phost_add_upsert, !assoc_bytes_gassoc. apply gassoc_upsert_other, bytes_eqb_eq. Qed.
Lemma assoc_fp_insert_same ps p v : assoc_z p (fp_insert ps p v) = Some v.
Proof.
  rewrite fp_insert_upsert, !assoc_z_gassoc, gassoc_upsert_same by apply Z.eqb_eq.
  destruct (gassoc Z.eqb p ps); reflexivity.
Qed.
Lemma assoc_fp_insert_other ps p v p0 : p <> p0 -> assoc_z p0 (fp_insert ps p v) = assoc_z p0 ps.
Proof. rewrite fp_insert_upsert, !assoc_z_gassoc. apply gassoc_upsert_other, Z.eqb_eq. Qed.
Lemma assoc_fetch_add_same tps t p off maxb :
  assoc_bytes t (fetch_add tps t p off maxb)
  = Some (fp_insert (match assoc_bytes t tps with Some ps => ps | None => [] end) p (off, maxb)).
Proof.
  rewrite fetch_add_upsert, !assoc_bytes_gassoc, gassoc_upsert_same by apply bytes_eqb_eq.
  destruct (gassoc bytes_eqb t tps); reflexivity.
Qed.
Lemma assoc_fetch_add_other tps t p off maxb t0 :
  t <> t0 -> assoc_bytes t0 (fetch_add tps t p off maxb) = assoc_bytes t0 tps.
Proof. rewrite fetch_add_upsert, !assoc_bytes_gassoc. apply gassoc_upsert_other, bytes_eqb_eq. Qed.

(* ---- three-level requests (host -> topic -> entries): an invariant on all entries ------------------ *)
Definition all3 {P} (Q : bytes -> bytes -> P -> Prop) (reqs : list (bytes * list (bytes * list P))) : Prop :=
  forall h tps t ps p, In (h, tps) reqs -> In (t, ps) tps -> In p ps -> Q h t p.

Lemma all3_nil {P} (Q : bytes -> bytes -> P -> Prop) : all3 Q [].
Proof. intros h tps t ps p []. Qed.

Lemma tp_add_all {P} (Q : bytes -> P -> Prop) (tps : list (bytes * list P)) t p :
  (forall t' ps p', In (t', ps) tps -> In p' ps -> Q t' p') -> Q t p ->
  forall t' ps p', In (t', ps) (tp_add tps t p) -> In p' ps -> Q t' p'.
Proof.
  intros H HQ t' ps p' Hin. revert p'. rewrite tp_add_upsert in Hin. revert t' ps Hin.
  apply (upsert_all bytes_eqb bytes_eqb_eq (fun t' ps => forall p', In p' ps -> Q t' p')).
  - intros k' v Hk p' Hp. apply (H k' v p' Hk Hp).
  - intros v _ Hv p' Hp. apply in_app_iff in Hp. destruct Hp as [Hp|[<-|[]]]; [apply Hv; exact Hp|exact HQ].
  - intros p' [<-|[]]. exact HQ.
Qed.

Lemma host_add_all3 {P} (Q : bytes -> bytes -> P -> Prop) reqs h t p :
  all3 Q reqs -> Q h t p -> all3 Q (host_add reqs h t p).
Proof.
  intros H HQ h' tps t' ps p' Hin. revert t' ps p'. rewrite host_add_upsert in Hin. revert h' tps Hin.
  apply (upsert_all bytes_eqb bytes_eqb_eq
           (fun h' tps => forall t' ps p', In (t', ps) tps -> In p' ps -> Q h' t' p')).
  - intros k' v Hk t' ps p' Ht Hp. apply (H k' v t' ps p' Hk Ht Hp).
  - intros v _ Hv. apply tp_add_all; assumption.
  - apply tp_add_all; [intros t' ps p' []|exact HQ].
Qed.

Lemma fp_insert_In ps p v p' v' : In (p', v') (fp_insert ps p v) -> In (p', v') ps \/ (p', v') = (p, v).
Proof.
  rewrite fp_insert_upsert. intros H. apply (In_upsert Z.eqb Z.eqb_eq) in H.
  destruct H as [H | [-> [[v0 [_ ->]] | ->]]]; [left; exact H|right; reflexivity|right; reflexivity].
Qed.

Lemma fetch_add_all (Q : bytes -> Z * (Z * Z) -> Prop) (tps : fetch_tps) t p off maxb :
  (forall t' ps p', In (t', ps) tps -> In p' ps -> Q t' p') -> Q t (p, (off, maxb)) ->
  forall t' ps p', In (t', ps) (fetch_add tps t p off maxb) -> In p' ps -> Q t' p'.
Proof.
  intros H HQ t' ps p' Hin. revert p'. rewrite fetch_add_upsert in Hin. revert t' ps Hin.
  apply (upsert_all bytes_eqb bytes_eqb_eq (fun t' ps => forall p', In p' ps -> Q t' p')).
  - intros k' v Hk p' Hp. apply (H k' v p' Hk Hp).
  - intros v _ Hv [p' v'] Hp. apply fp_insert_In in Hp. destruct Hp as [Hp|Hp]; [apply Hv; exact Hp|].
    rewrite Hp. exact HQ.
  - intros [p' v'] Hp. apply fp_insert_In in Hp. destruct Hp as [[]|Hp]. rewrite Hp. exact HQ.
Qed.

Lemma fhost_add_all3 (Q : bytes -> bytes -> Z * (Z * Z) -> Prop) (reqs : list (bytes * fetch_tps)) h t p off maxb :
  all3 Q reqs -> Q h t (p, (off, maxb)) -> all3 Q (fhost_add reqs h t p off maxb).
Proof.
  intros H HQ h' tps t' ps p' Hin. revert t' ps p'. rewrite fhost_add_upsert in Hin. revert h' tps Hin.
  apply (upsert_all bytes_eqb bytes_eqb_eq
           (fun h' tps => forall t' ps p', In (t', ps) tps -> In p' ps -> Q h' t' p')).
  - intros k' v Hk t' ps p' Ht Hp. apply (H k' v t' ps p' Hk Ht Hp).
  - intros v _ Hv. apply fetch_add_all; assumption.
  - apply fetch_add_all; [intros t' ps p' []|exact HQ].
Qed.

(* produce: entries are (partition, message list); the invariant speaks about partitions with a
   non-empty message list *)
Lemma pp_add_all (Q : Z -> list pmsg -> Prop) ps p m :
  (forall q ms, In (q, ms) ps -> Q q ms) -> (forall ms, Q p ms -> Q p (ms ++ [m])) -> Q p [m] ->
  forall q ms, In (q, ms) (pp_add ps p m) -> Q q ms.
Proof.
  intros H Hf Hd. rewrite pp_add_upsert. apply (upsert_all Z.eqb Z.eqb_eq Q).
  - exact H.
  - intros v _. apply Hf.
  - exact Hd.
Qed.

Lemma phost_add_all3 (Q : bytes -> bytes -> Z * list pmsg -> Prop) (reqs : list (bytes * produce_tps)) h t p m :
  all3 Q reqs -> (forall ms, Q h t (p, ms) -> Q h t (p, ms ++ [m])) -> Q h t (p, [m]) ->
  all3 Q (phost_add reqs h t p m).
Proof.
  intros H Hf Hd h' tps t' ps p' Hin. revert t' ps p'. rewrite phost_add_upsert in Hin. revert h' tps Hin.
  apply (upsert_all bytes_eqb bytes_eqb_eq
           (fun h' tps => forall t' ps p', In (t', ps) tps -> In p' ps -> Q h' t' p')).
  - intros k' v Hk t' ps p' Ht Hp. apply (H k' v t' ps p' Hk Ht Hp).
  - intros tps _ Htps t' ps p' Hin. revert p'. rewrite produce_add_upsert in Hin. revert t' ps Hin.
    apply (upsert_all bytes_eqb bytes_eqb_eq (fun t' ps => forall p', In p' ps -> Q h t' p')).
    + intros k' v Hk p' Hp. apply (Htps k' v p' Hk Hp).
    + intros ps _ Hps [q ms]. revert q ms. apply pp_add_all.
      * intros q ms Hq. apply Hps. exact Hq.
      * exact Hf.
      * exact Hd.
    + intros [q ms]. revert q ms. apply pp_add_all; [intros q ms []|exact Hf|exact Hd].
  - intros t' ps p' Hin. revert p'. rewrite produce_add_upsert in Hin. revert t' ps Hin.
    apply (upsert_all bytes_eqb bytes_eqb_eq (fun t' ps => forall p', In p' ps -> Q h t' p')).
    + intros k' v [].
    + intros v [].
    + intros [q ms]. revert q ms. apply pp_add_all; [intros q ms []|exact Hf|exact Hd].
Qed.

(* ================================================================================================== *)
(* Part 1: what "present in the loaded metadata" means                                                 *)
(* ================================================================================================== *)
Definition known (s : cstate) (t : bytes) (p : Z) : Prop :=
  exists ps, partitions_for s t = Some ps /\ 0 <= p < Z.of_nat (length ps).

Lemma nth_z_Some_range {A} (l : list A) i x : nth_z l i = Some x -> 0 <= i < Z.of_nat (length l).
Proof.
  unfold nth_z, ulen. destruct ((i <? 0) || (Z.of_nat (length l) <=? i)) eqn:E; [discriminate|]. intros _. lia.
Qed.

Lemma nth_z_in_range {A} (l : list A) i : 0 <= i < Z.of_nat (length l) -> exists x, nth_z l i = Some x.
Proof.
  intros H. unfold nth_z, ulen. destruct ((i <? 0) || (Z.of_nat (length l) <=? i)) eqn:E; [lia|].
  destruct (nth_error l (Z.to_nat i)) as [x|] eqn:E1; [exists x; reflexivity|].
  apply nth_error_None in E1. lia.
Qed.

Lemma nth_z_of_nat {A} (l : list A) k x : nth_error l k = Some x -> nth_z l (Z.of_nat k) = Some x.
Proof.
  intros H. assert (Hk : (k < length l)%nat) by (apply nth_error_Some; rewrite H; discriminate).
  unfold nth_z, ulen. destruct ((Z.of_nat k <? 0) || (Z.of_nat (length l) <=? Z.of_nat k)) eqn:E; [lia|].
  rewrite Nat2Z.id. exact H.
Qed.

Theorem known_iff : forall s t p, known s t p <-> contains_topic_partition s t p = true.
Proof.
  intros s t p. unfold known, contains_topic_partition, partition_ref. split.
  - intros [ps [H1 H2]]. rewrite H1. destruct (nth_z_in_range ps p H2) as [x Hx]. rewrite Hx. reflexivity.
  - destruct (partitions_for s t) as [ps|]; [|discriminate].
    destruct (nth_z ps p) as [x|] eqn:E; [|discriminate]. intros _. exists ps. split; [reflexivity|].
    apply nth_z_Some_range in E. exact E.
Qed.

Lemma not_known_iff s t p : ~ known s t p <-> contains_topic_partition s t p = false.
Proof.
  rewrite known_iff. destruct (contains_topic_partition s t p); split; intros H; try reflexivity; try discriminate.
  exfalso. apply H. reflexivity.
Qed.

(* a partition that resolves to a leader is known *)
Lemma find_broker_known s t p h : find_broker s t p = Some h -> known s t p.
Proof.
  unfold find_broker, known, partition_ref. destruct (partitions_for s t) as [ps|]; [|discriminate].
  destruct (nth_z ps p) as [x|] eqn:E; [|discriminate]. intros _. exists ps. split; [reflexivity|].
  apply nth_z_Some_range in E. exact E.
Qed.

Lemma unknown_find_broker_None s t p : ~ known s t p -> find_broker s t p = None.
Proof.
  intros H. destruct (find_broker s t p) as [h|] eqn:E; [|reflexivity].
  exfalso. apply H. apply find_broker_known in E. exact E.
Qed.

(* find_broker is None exactly for an unknown topic, an out-of-range / negative partition, or a known
   partition whose leader reference does not resolve (no leader) *)
Lemma find_broker_None_iff s t p :
  find_broker s t p = None <->
  ~ known s t p \/ (exists ps bref, partitions_for s t = Some ps /\ nth_z ps p = Some bref /\ broker_of s bref = None).
Proof.
  split.
  - intros H. unfold find_broker, partition_ref in H.
    destruct (partitions_for s t) as [ps|] eqn:E1.
    + destruct (nth_z ps p) as [bref|] eqn:E2.
      * destruct (broker_of s bref) as [b|] eqn:E3; [discriminate|]. right. exists ps, bref. auto.
      * left. intros [ps' [H1 H2]]. rewrite E1 in H1. injection H1 as <-.
        destruct (nth_z_in_range ps p H2) as [x Hx]. rewrite Hx in E2. discriminate.
    + left. intros [ps' [H1 _]]. rewrite E1 in H1. discriminate.
  - intros [H|(ps & bref & H1 & H2 & H3)]; [apply unknown_find_broker_None; exact H|].
    unfold find_broker, partition_ref. rewrite H1, H2, H3. reflexivity.
Qed.

(* ================================================================================================== *)
(* Part 2: offset lookups                                                                              *)
(* ================================================================================================== *)
Lemma leaders_from_In s ps id i h : In (i, h) (leaders_from s ps id) ->
  exists k bref, nth_error ps k = Some bref /\ i = id + Z.of_nat k
                 /\ option_map b_host (broker_of s bref) = Some h.
Proof.
  revert id. induction ps as [|b r IH]; intros id; cbn [leaders_from]; [intros []|].
  assert (Hrec : In (i, h) (leaders_from s r (id + 1)) ->
                 exists k bref, nth_error (b :: r) k = Some bref /\ i = id + Z.of_nat k
                                /\ option_map b_host (broker_of s bref) = Some h).
  { intros H. destruct (IH _ H) as (k & bref & H1 & H2 & H3). exists (S k), bref.
    split; [exact H1|]. split; [lia|exact H3]. }
  destruct (broker_of s b) as [br|] eqn:E; [|exact Hrec].
  intros [H|H]; [|apply Hrec; exact H].
  injection H as <- <-. exists 0%nat, b. cbn [nth_error]. rewrite E. split; [reflexivity|]. split; [lia|reflexivity].
Qed.

Lemma leaders_from_find_broker s t ps i h :
  partitions_for s t = Some ps -> In (i, h) (leaders_from s ps 0) -> find_broker s t i = Some h.
Proof.
  intros Hps Hin. apply leaders_from_In in Hin. destruct Hin as (k & bref & H1 & H2 & H3).
  unfold find_broker, partition_ref. rewrite Hps. replace i with (Z.of_nat k) by lia.
  rewrite (nth_z_of_nat _ _ _ H1). exact H3.
Qed.

(* every partition entry of every per-host offset request resolves to exactly that host, carries the
   requested time and belongs to a requested topic *)
Theorem C20_offsets_leader : forall s topics time,
  all3 (fun host t px => find_broker s t (fst px) = Some host /\ snd px = time /\ In t topics)
       (offset_reqs s topics time).
Proof.
  intros s topics time. unfold offset_reqs.
  apply fold_left_inv; [|apply all3_nil].
  intros acc topic Htopic Hacc. destruct (partitions_for s topic) as [ps|] eqn:Eps; [|exact Hacc].
  apply fold_left_inv; [|exact Hacc].
  intros acc' [id host] Hin Hacc'. apply host_add_all3; [exact Hacc'|].
  cbn [fst snd]. split; [|split; [reflexivity|exact Htopic]].
  apply (leaders_from_find_broker s topic ps); assumption.
Qed.

Theorem C20_offsets_known : forall s topics time host tps t ps p x,
  In (host, tps) (offset_reqs s topics time) -> In (t, ps) tps -> In (p, x) ps ->
  known s t p /\ In t topics.
Proof.
  intros s topics time host tps t ps p x H1 H2 H3.
  destruct (C20_offsets_leader s topics time host tps t ps (p, x) H1 H2 H3) as (Ha & _ & Hc).
  split; [|exact Hc]. apply find_broker_known in Ha. exact Ha.
Qed.

(* ================================================================================================== *)
(* Part 3: fetch                                                                                       *)
(* ================================================================================================== *)
Definition fq_effective_max (c : client) (q : fetch_partition) : Z :=
  if 0 <? fq_max_bytes q then fq_max_bytes q else fetch_max_bytes_per_partition (cfg c).

Theorem C20_fetch_leader : forall c input,
  all3 (fun host t px => find_broker (cs c) t (fst px) = Some host
                         /\ exists q, In q input /\ fq_topic q = t /\ fq_partition q = fst px
                                      /\ snd px = (fq_offset q, fq_effective_max c q))
       (fetch_reqs c input).
Proof.
  intros c input. unfold fetch_reqs. apply fold_left_inv; [|apply all3_nil].
  intros acc q Hq Hacc. destruct (find_broker (cs c) (fq_topic q) (fq_partition q)) as [host|] eqn:E; [|exact Hacc].
  apply fhost_add_all3; [exact Hacc|]. cbn [fst snd]. split; [exact E|].
  exists q. repeat split; [exact Hq].
Qed.

Theorem C20_fetch_known : forall c input host tps t ps p x,
  In (host, tps) (fetch_reqs c input) -> In (t, ps) tps -> In (p, x) ps ->
  known (cs c) t p /\ exists q, In q input /\ fq_topic q = t /\ fq_partition q = p.
Proof.
  intros c input host tps t ps p x H1 H2 H3.
  destruct (C20_fetch_leader c input host tps t ps (p, x) H1 H2 H3) as (Ha & q & Hq1 & Hq2 & Hq3 & _).
  split; [apply find_broker_known in Ha; exact Ha|]. exists q. auto.
Qed.

Definition fq_has_leader (c : client) (q : fetch_partition) : bool :=
  match find_broker (cs c) (fq_topic q) (fq_partition q) with Some _ => true | None => false end.

Theorem C20_fetch_silent : forall c input,
  fetch_reqs c input = fetch_reqs c (filter (fq_has_leader c) input).
Proof.
  intros c input. unfold fetch_reqs. generalize (@nil (bytes * fetch_tps)) as acc.
  induction input as [|q r IH]; intros acc; cbn [filter fold_left]; [reflexivity|].
  unfold fq_has_leader at 1.
  destruct (find_broker (cs c) (fq_topic q) (fq_partition q)) as [host|] eqn:E; cbn [fold_left].
  - rewrite E. apply IH.
  - apply IH.
Qed.

(* what is filtered out: in particular every entry that is not known *)
Lemma fq_has_leader_false_unknown c q :
  ~ known (cs c) (fq_topic q) (fq_partition q) -> fq_has_leader c q = false.
Proof. intros H. unfold fq_has_leader. rewrite unknown_find_broker_None by exact H. reflexivity. Qed.

(* ================================================================================================== *)
(* Part 4: produce                                                                                     *)
(* ================================================================================================== *)
Definition produce_inv (s : cstate) : bytes -> bytes -> Z * list pmsg -> Prop :=
  fun host t pm => find_broker s t (fst pm) = Some host /\ snd pm <> [].

Lemma produce_reqs_inv s msgs : forall acc reqs,
  all3 (produce_inv s) acc -> produce_reqs s msgs acc = Some reqs -> all3 (produce_inv s) reqs.
Proof.
  induction msgs as [|m r IH]; intros acc reqs Hacc; cbn [produce_reqs].
  - intros H. injection H as <-. exact Hacc.
  - destruct (find_broker s (pq_topic m) (pq_partition m)) as [host|] eqn:E; [|discriminate].
    apply IH. apply phost_add_all3; [exact Hacc| |].
    + intros ms [H1 H2]. split; [exact H1|]. cbn [snd]. intros Hx. apply app_eq_nil in Hx.
      destruct Hx as [_ Hx]. discriminate Hx.
    + split; [exact E|]. cbn [snd]. discriminate.
Qed.

(* every message set of every produce request is addressed to the current leader of its partition *)
Theorem C20_produce_leader : forall s msgs reqs,
  produce_reqs s msgs [] = Some reqs ->
  forall host tps t ps p ms, In (host, tps) reqs -> In (t, ps) tps -> In (p, ms) ps ->
    find_broker s t p = Some host /\ ms <> [].
Proof.
  intros s msgs reqs H host tps t ps p ms H1 H2 H3.
  apply (produce_reqs_inv s msgs [] reqs (all3_nil _) H host tps t ps (p, ms) H1 H2 H3).
Qed.

Theorem C20_produce_known : forall s msgs reqs,
  produce_reqs s msgs [] = Some reqs ->
  forall host tps t ps p ms, In (host, tps) reqs -> In (t, ps) tps -> In (p, ms) ps -> known s t p.
Proof.
  intros s msgs reqs H host tps t ps p ms H1 H2 H3.
  destruct (C20_produce_leader s msgs reqs H host tps t ps p ms H1 H2 H3) as [Ha _].
  apply find_broker_known in Ha. exact Ha.
Qed.

Lemma produce_reqs_None_iff s msgs : forall acc,
  produce_reqs s msgs acc = None <->
  exists m, In m msgs /\ find_broker s (pq_topic m) (pq_partition m) = None.
Proof.
  induction msgs as [|m r IH]; intros acc; cbn [produce_reqs].
  - split; [discriminate|intros [m [[] _]]].
  - destruct (find_broker s (pq_topic m) (pq_partition m)) as [host|] eqn:E.
    + rewrite IH. split.
      * intros [m' [H1 H2]]. exists m'. split; [right; exact H1|exact H2].
      * intros [m' [[H1|H1] H2]]; [subst m'; rewrite E in H2; discriminate|]. exists m'. split; assumption.
    + split; [|reflexivity]. intros _. exists m. split; [left; reflexivity|exact E].
Qed.

Theorem C20_produce_local_fail : forall s msgs,
  (exists m, In m msgs /\ find_broker s (pq_topic m) (pq_partition m) = None) ->
  produce_reqs s msgs [] = None.
Proof. intros s msgs H. apply produce_reqs_None_iff. exact H. Qed.

(* in particular: any record naming a topic / partition that is not in the metadata *)
Corollary C20_produce_unknown_fail : forall s msgs,
  (exists m, In m msgs /\ ~ known s (pq_topic m) (pq_partition m)) -> produce_reqs s msgs [] = None.
Proof.
  intros s msgs [m [H1 H2]]. apply C20_produce_local_fail. exists m. split; [exact H1|].
  apply unknown_find_broker_None. exact H2.
Qed.

Lemma produce_reqs_ext s s' : (forall t p, find_broker s t p = find_broker s' t p) ->
  forall msgs acc, produce_reqs s msgs acc = produce_reqs s' msgs acc.
Proof.
  intros H. induction msgs as [|m r IH]; intros acc; cbn [produce_reqs]; [reflexivity|].
  rewrite H. destruct (find_broker s' (pq_topic m) (pq_partition m)); [apply IH|reflexivity].
Qed.

(* ---- running the monad: the first two steps of every call ----------------------------------------- *)
(* the state after `next_corr`: nothing but the correlation counter of the client state changes *)
Definition bump_corr (x : st) : st :=
  {| script := script x; trace := trace x; anyq := anyq x; hostq := hostq x; fetchq := fetchq x;
     entryq := entryq x;
     cl := {| cfg := cfg (cl x); cs := snd (next_correlation_id (cs (cl x))); conns := conns (cl x) |};
     env := env x |}.

Lemma bump_corr_trace x : trace (bump_corr x) = trace x /\ script (bump_corr x) = script x.
Proof. split; reflexivity. Qed.

Lemma bump_corr_metadata x :
  brokers (cs (cl (bump_corr x))) = brokers (cs (cl x))
  /\ topic_partitions (cs (cl (bump_corr x))) = topic_partitions (cs (cl x))
  /\ group_coordinators (cs (cl (bump_corr x))) = group_coordinators (cs (cl x))
  /\ cfg (cl (bump_corr x)) = cfg (cl x) /\ conns (cl (bump_corr x)) = conns (cl x).
Proof. repeat split; reflexivity. Qed.

Lemma next_corr_run x : next_corr x = (Ok (fst (next_correlation_id (cs (cl x)))), bump_corr x).
Proof. reflexivity. Qed.

Lemma get_client_run x : get_client x = (Ok (cl x), x).
Proof. reflexivity. Qed.

Lemma mbind_run {A B} (m : M A) (f : A -> M B) x a x' : m x = (Ok a, x') -> mbind m f x = f a x'.
Proof. intros H. unfold mbind. rewrite H. reflexivity. Qed.

Lemma find_broker_next_corr s t p : find_broker (snd (next_correlation_id s)) t p = find_broker s t p.
Proof. reflexivity. Qed.

Theorem C20_produce_call_local_fail : forall acks timeout msgs x,
  (exists m, In m msgs /\ find_broker (cs (cl x)) (pq_topic m) (pq_partition m) = None) ->
  internal_produce_messages acks timeout msgs x = (Err (EKafka KC_UnknownTopicOrPartition), bump_corr x).
Proof.
  intros acks timeout msgs x H. unfold internal_produce_messages.
  rewrite (mbind_run _ _ _ _ _ (next_corr_run x)).
  rewrite (mbind_run _ _ _ _ _ (get_client_run (bump_corr x))).
  change (cs (cl (bump_corr x))) with (snd (next_correlation_id (cs (cl x)))).
  rewrite (produce_reqs_ext _ (cs (cl x)) (find_broker_next_corr (cs (cl x)))).
  rewrite (C20_produce_local_fail _ _ H). reflexivity.
Qed.

(* ================================================================================================== *)
(* Part 5: commit and group offset fetch (both fold tp_add over the checked arguments)                 *)
(* ================================================================================================== *)
Definition tp_fold {P} (acc : list (bytes * list P)) (items : list (bytes * P)) : list (bytes * list P) :=
  fold_left (fun a x => tp_add a (fst x) (snd x)) items acc.

Definition tp_entries {P} (t : bytes) (tps : list (bytes * list P)) : list P :=
  match assoc_bytes t tps with Some ps => ps | None => [] end.

(* topics in order of first occurrence *)
Definition first_occ (ks : list bytes) (acc : list bytes) : list bytes :=
  fold_left (fun a k => if existsb (fun k' => bytes_eqb k' k) a then a else a ++ [k]) ks acc.

Lemma tp_fold_NoDup {P} (items : list (bytes * P)) : forall acc,
  NoDup (map fst acc) -> NoDup (map fst (tp_fold acc items)).
Proof.
  unfold tp_fold. induction items as [|x r IH]; intros acc H; cbn [fold_left]; [exact H|].
  apply IH. apply tp_add_NoDup. exact H.
Qed.

Lemma tp_entries_tp_add {P} (tps : list (bytes * list P)) t p t0 :
  tp_entries t0 (tp_add tps t p) = tp_entries t0 tps ++ (if bytes_eqb t t0 then [p] else []).
Proof.
  unfold tp_entries. destruct (bytes_eqb t t0) eqn:E.
  - apply bytes_eqb_eq in E. subst t0. rewrite assoc_tp_add_same. destruct (assoc_bytes t tps); reflexivity.
  - apply bytes_eqb_neq in E. rewrite assoc_tp_add_other by exact E. rewrite app_nil_r. reflexivity.
Qed.

Lemma tp_fold_entries {P} (items : list (bytes * P)) t : forall acc,
  tp_entries t (tp_fold acc items)
  = tp_entries t acc ++ map snd (filter (fun x => bytes_eqb (fst x) t) items).
Proof.
  unfold tp_fold. induction items as [|x r IH]; intros acc; cbn [fold_left filter map].
  - rewrite app_nil_r. reflexivity.
  - rewrite IH, tp_entries_tp_add, <- app_assoc. destruct (bytes_eqb (fst x) t); reflexivity.
Qed.

Lemma has_key_existsb {V} t (l : list (bytes * V)) :
  has_key bytes_eqb t l = existsb (fun k' => bytes_eqb k' t) (map fst l).
Proof. unfold has_key. induction l as [|[k v] r IH]; cbn [existsb map fst]; [reflexivity|rewrite IH; reflexivity]. Qed.

Lemma tp_fold_keys {P} (items : list (bytes * P)) : forall acc,
  map fst (tp_fold acc items) = first_occ (map fst items) (map fst acc).
Proof.
  unfold tp_fold, first_occ. induction items as [|x r IH]; intros acc; cbn [fold_left map]; [reflexivity|].
  rewrite IH, tp_add_keys, has_key_existsb.
  destruct (existsb (fun k' => bytes_eqb k' (fst x)) (map fst acc)); reflexivity.
Qed.

Lemma tp_fold_In {P} (items : list (bytes * P)) t ps :
  In (t, ps) (tp_fold [] items) -> ps <> [] /\ forall p, In p ps -> In (t, p) items.
Proof.
  revert t ps. unfold tp_fold.
  apply (fold_left_inv (fun tps => forall t ps, In (t, ps) tps -> ps <> [] /\ forall p, In p ps -> In (t, p) items)).
  - intros acc [t0 p0] Hx Hacc t ps. cbn [fst snd]. rewrite tp_add_upsert. revert t ps.
    apply (upsert_all bytes_eqb bytes_eqb_eq (fun t ps => ps <> [] /\ forall p, In p ps -> In (t, p) items)).
    + exact Hacc.
    + intros v _ [_ Hv]. split.
      * intros Hn. apply app_eq_nil in Hn. destruct Hn as [_ Hn]. discriminate Hn.
      * intros p Hp. apply in_app_iff in Hp. destruct Hp as [Hp|[<-|[]]]; [apply Hv; exact Hp|exact Hx].
    + split; [discriminate|]. intros p [<-|[]]. exact Hx.
  - intros t ps [].
Qed.

Lemma filter_map_snd {A P} (g : A -> bytes * P) t (l : list A) :
  map snd (filter (fun x => bytes_eqb (fst x) t) (map g l))
  = map (fun a => snd (g a)) (filter (fun a => bytes_eqb (fst (g a)) t) l).
Proof.
  induction l as [|a r IH]; cbn [map filter]; [reflexivity|].
  destruct (bytes_eqb (fst (g a)) t); cbn [map]; rewrite IH; reflexivity.
Qed.

(* ---- commit ---------------------------------------------------------------------------------------- *)
Definition commit_items (os : list commit_offset) : list (bytes * (Z * Z)) :=
  map (fun o => (co_topic o, (co_partition o, co_offset o))) os.

Lemma commit_tps_Some_iff s os : forall acc tps,
  commit_tps s os acc = Some tps <->
  (forall o, In o os -> known s (co_topic o) (co_partition o)) /\ tps = tp_fold acc (commit_items os).
Proof.
  induction os as [|o r IH]; intros acc tps; cbn [commit_tps commit_items map].
  - unfold tp_fold. cbn [fold_left]. split.
    + intros H. injection H as <-. split; [intros o []|reflexivity].
    + intros [_ ->]. reflexivity.
  - destruct (contains_topic_partition s (co_topic o) (co_partition o)) eqn:E.
    + rewrite IH. unfold tp_fold, commit_items. cbn [fold_left fst snd]. apply known_iff in E. split.
      * intros [H1 H2]. split; [|exact H2]. intros o' [<-|H']; [exact E|apply H1; exact H'].
      * intros [H1 H2]. split; [|exact H2]. intros o' H'. apply H1. right. exact H'.
    + apply not_known_iff in E. split; [discriminate|]. intros [H1 _]. exfalso. apply E. apply H1. left. reflexivity.
Qed.

Lemma commit_tps_None_iff s os : forall acc,
  commit_tps s os acc = None <-> exists o, In o os /\ ~ known s (co_topic o) (co_partition o).
Proof.
  induction os as [|o r IH]; intros acc; cbn [commit_tps].
  - split; [discriminate|intros [o [[] _]]].
  - destruct (contains_topic_partition s (co_topic o) (co_partition o)) eqn:E.
    + rewrite IH. apply known_iff in E. split.
      * intros [o' [H1 H2]]. exists o'. split; [right; exact H1|exact H2].
      * intros [o' [[H1|H1] H2]]; [subst o'; contradiction|]. exists o'. split; assumption.
    + apply not_known_iff in E. split; [|reflexivity]. intros _. exists o. split; [left; reflexivity|exact E].
Qed.

Theorem C20_commit_known : forall s os tps,
  commit_tps s os [] = Some tps ->
  (forall t ps p off, In (t, ps) tps -> In (p, off) ps ->
     known s t p /\ exists o, In o os /\ co_topic o = t /\ co_partition o = p /\ co_offset o = off)
  /\ (forall t ps, In (t, ps) tps -> ps <> [])
  /\ NoDup (map fst tps)
  /\ map fst tps = first_occ (map co_topic os) []
  /\ (forall t, tp_entries t tps
                = map (fun o => (co_partition o, co_offset o)) (filter (fun o => bytes_eqb (co_topic o) t) os)).
Proof.
  intros s os tps H. apply commit_tps_Some_iff in H. destruct H as [Hk ->].
  split; [|split; [|split; [|split]]].
  - intros t ps p off H H0. apply tp_fold_In in H. destruct H as [_ H]. specialize (H _ H0).
    unfold commit_items in H. apply in_map_iff in H. destruct H as [o [Ho Hin]]. injection Ho as <- <- <-.
    split; [apply Hk; exact Hin|]. exists o. auto.
  - intros t ps H. apply tp_fold_In in H. destruct H as [H _]. exact H.
  - apply tp_fold_NoDup. constructor.
  - rewrite tp_fold_keys. unfold commit_items. rewrite map_map. reflexivity.
  - intros t. rewrite tp_fold_entries. unfold commit_items. rewrite filter_map_snd. reflexivity.
Qed.

Theorem C20_commit_local_fail : forall s os,
  commit_tps s os [] = None <-> exists o, In o os /\ ~ known s (co_topic o) (co_partition o).
Proof. intros s os. apply commit_tps_None_iff. Qed.

Theorem C20_commit_call_local_fail : forall group os x,
  0 <= offset_storage (cfg (cl x)) ->
  (exists o, In o os /\ ~ known (cs (cl x)) (co_topic o) (co_partition o)) ->
  commit_offsets group os x = (Err (EKafka KC_UnknownTopicOrPartition), bump_corr x).
Proof.
  intros group os x Hst H. unfold commit_offsets.
  rewrite (mbind_run _ _ _ _ _ (get_client_run x)).
  destruct (offset_storage (cfg (cl x)) <? 0) eqn:E; [lia|].
  rewrite (mbind_run _ _ _ _ _ (next_corr_run x)).
  apply C20_commit_local_fail in H. rewrite H. reflexivity.
Qed.

(* ---- group offset fetch ------------------------------------------------------------------------------ *)
Lemma group_fetch_tps_Some_iff s ps : forall acc tps,
  group_fetch_tps s ps acc = Some tps <->
  (forall t p, In (t, p) ps -> known s t p) /\ tps = tp_fold acc ps.
Proof.
  induction ps as [|[t p] r IH]; intros acc tps; cbn [group_fetch_tps].
  - unfold tp_fold. cbn [fold_left]. split.
    + intros H. injection H as <-. split; [intros t p []|reflexivity].
    + intros [_ ->]. reflexivity.
  - destruct (contains_topic_partition s t p) eqn:E.
    + rewrite IH. unfold tp_fold. cbn [fold_left fst snd]. apply known_iff in E. split.
      * intros [H1 H2]. split; [|exact H2]. intros t' p' [H'|H']; [injection H' as <- <-; exact E|apply H1; exact H'].
      * intros [H1 H2]. split; [|exact H2]. intros t' p' H'. apply H1. right. exact H'.
    + apply not_known_iff in E. split; [discriminate|]. intros [H1 _]. exfalso. apply E. apply H1. left. reflexivity.
Qed.

Lemma group_fetch_tps_None_iff s ps : forall acc,
  group_fetch_tps s ps acc = None <-> exists t p, In (t, p) ps /\ ~ known s t p.
Proof.
  induction ps as [|[t p] r IH]; intros acc; cbn [group_fetch_tps].
  - split; [discriminate|intros [t [p [[] _]]]].
  - destruct (contains_topic_partition s t p) eqn:E.
    + rewrite IH. apply known_iff in E. split.
      * intros [t' [p' [H1 H2]]]. exists t', p'. split; [right; exact H1|exact H2].
      * intros [t' [p' [[H1|H1] H2]]]; [injection H1 as <- <-; contradiction|]. exists t', p'. split; assumption.
    + apply not_known_iff in E. split; [|reflexivity]. intros _. exists t, p. split; [left; reflexivity|exact E].
Qed.

Theorem C20_group_fetch_known : forall s args tps,
  group_fetch_tps s args [] = Some tps ->
  (forall t ps p, In (t, ps) tps -> In p ps -> known s t p /\ In (t, p) args)
  /\ (forall t ps, In (t, ps) tps -> ps <> [])
  /\ NoDup (map fst tps)
  /\ map fst tps = first_occ (map fst args) []
  /\ (forall t, tp_entries t tps = map snd (filter (fun a => bytes_eqb (fst a) t) args)).
Proof.
  intros s args tps H. apply group_fetch_tps_Some_iff in H. destruct H as [Hk ->].
  split; [|split; [|split; [|split]]].
  - intros t ps p H H0. apply tp_fold_In in H. destruct H as [_ H]. specialize (H _ H0).
    split; [apply Hk; exact H|exact H].
  - intros t ps H. apply tp_fold_In in H. destruct H as [H _]. exact H.
  - apply tp_fold_NoDup. constructor.
  - rewrite tp_fold_keys. reflexivity.
  - intros t. rewrite tp_fold_entries. reflexivity.
Qed.

Theorem C20_group_fetch_local_fail : forall s args,
  group_fetch_tps s args [] = None <-> exists t p, In (t, p) args /\ ~ known s t p.
Proof. intros s args. apply group_fetch_tps_None_iff. Qed.

Theorem C20_group_fetch_call_local_fail : forall group args x,
  0 <= offset_storage (cfg (cl x)) ->
  (exists t p, In (t, p) args /\ ~ known (cs (cl x)) t p) ->
  fetch_group_offsets group args x = (Err (EKafka KC_UnknownTopicOrPartition), bump_corr x).
Proof.
  intros group args x Hst H. unfold fetch_group_offsets.
  rewrite (mbind_run _ _ _ _ _ (get_client_run x)).
  destruct (offset_storage (cfg (cl x)) <? 0) eqn:E; [lia|].
  rewrite (mbind_run _ _ _ _ _ (next_corr_run x)).
  apply C20_group_fetch_local_fail in H. rewrite H. reflexivity.
Qed.

(* ================================================================================================== *)
(* Part 6: fetch_group_topic_offset and fetch_topic_offsets                                            *)
(* ================================================================================================== *)
Lemma iota_z_In n : forall from p, In p (iota_z n from) <-> from <= p < from + Z.of_nat n.
Proof.
  induction n as [|n IH]; intros from p; cbn [iota_z In].
  - split; [intros []|lia].
  - rewrite IH. lia.
Qed.

Lemma iota_z_length n : forall from, length (iota_z n from) = n.
Proof. induction n as [|n IH]; intros from; cbn [iota_z length]; [reflexivity|rewrite IH; reflexivity]. Qed.

Lemma fold_tp_add_one_topic {P} topic (l : list P) : forall l0,
  fold_left (fun acc id => tp_add acc topic id) l [(topic, l0)] = [(topic, l0 ++ l)].
Proof.
  induction l as [|x r IH]; intros l0; cbn [fold_left tp_add].
  - rewrite app_nil_r. reflexivity.
  - rewrite bytes_eqb_refl, IH, <- app_assoc. reflexivity.
Qed.

(* the topic entry list of the request built by fetch_group_topic_offset *)
Definition group_topic_tps (topic : bytes) (n : nat) : list (bytes * list Z) :=
  match n with O => [] | S _ => [(topic, iota_z n 0)] end.

Lemma group_topic_tps_eq topic n :
  fold_left (fun acc id => tp_add acc topic id) (iota_z n 0) [] = group_topic_tps topic n.
Proof.
  destruct n as [|n]; [reflexivity|].
  unfold group_topic_tps. cbn [iota_z fold_left tp_add]. rewrite fold_tp_add_one_topic. reflexivity.
Qed.

(* unknown topic: local failure, no I/O; known topic with n partitions: the one request lists
   exactly the partitions 0..n-1 of that topic (nothing at all when n = 0) *)
Theorem C20_group_topic : forall group topic x,
  0 <= offset_storage (cfg (cl x)) ->
  match partitions_for (cs (cl x)) topic with
  | None =>
      fetch_group_topic_offset group topic x = (Err (EKafka KC_UnknownTopicOrPartition), bump_corr x)
  | Some ps =>
      fetch_group_topic_offset group topic x =
      (let+ m := with_fuel (fun f => group_fetch_loop f group
                    (enc_offset_fetch_req (fst (next_correlation_id (cs (cl x)))) (client_id (cfg (cl x))) group
                                          (fetch_version (offset_storage (cfg (cl x))))
                                          (group_topic_tps topic (length ps))) 1) in
       ret (match assoc_bytes topic m with Some vs => vs | None => [] end)) (bump_corr x)
  end.
Proof.
  intros group topic x Hst. unfold fetch_group_topic_offset.
  rewrite (mbind_run _ _ _ _ _ (get_client_run x)).
  destruct (offset_storage (cfg (cl x)) <? 0) eqn:E; [lia|].
  rewrite (mbind_run _ _ _ _ _ (next_corr_run x)).
  destruct (partitions_for (cs (cl x)) topic) as [ps|]; [|reflexivity].
  cbv zeta. rewrite group_topic_tps_eq. reflexivity.
Qed.

Theorem C20_group_topic_known : forall s topic ps t qs p,
  partitions_for s topic = Some ps -> In (t, qs) (group_topic_tps topic (length ps)) -> In p qs ->
  t = topic /\ known s topic p.
Proof.
  intros s topic ps t qs p Hps Hin Hp. unfold group_topic_tps in Hin.
  destruct (length ps) as [|n] eqn:En; [destruct Hin|].
  destruct Hin as [Hin|[]]. injection Hin as <- <-. split; [reflexivity|].
  exists ps. split; [exact Hps|]. apply (proj1 (iota_z_In (S n) 0 p)) in Hp. rewrite En. lia.
Qed.

Theorem C20_group_topic_exact : forall topic n p,
  (0 < n)%nat -> (In p (tp_entries topic (group_topic_tps topic n)) <-> 0 <= p < Z.of_nat n).
Proof.
  intros topic n p Hn. destruct n as [|n]; [lia|].
  unfold group_topic_tps, tp_entries. cbn [assoc_bytes]. rewrite bytes_eqb_refl, iota_z_In. lia.
Qed.

Lemma ordered_nil_run {V} x : @ordered V [] x = (Ok [], x).
Proof. reflexivity. Qed.

Theorem C20_topic_offsets_unknown : forall topic time x,
  partitions_for (cs (cl x)) topic = None ->
  fetch_topic_offsets topic time x = (Err (EKafka KC_UnknownTopicOrPartition), bump_corr x).
Proof.
  intros topic time x H. unfold fetch_topic_offsets, fetch_offsets.
  unfold mbind at 1.
  rewrite (mbind_run _ _ _ _ _ (next_corr_run x)).
  rewrite (mbind_run _ _ _ _ _ (get_client_run (bump_corr x))).
  assert (Hreqs : offset_reqs (cs (cl (bump_corr x))) [topic] time = []).
  { unfold offset_reqs. cbn [fold_left].
    change (partitions_for (cs (cl (bump_corr x))) topic) with (partitions_for (cs (cl x)) topic).
    rewrite H. reflexivity. }
  rewrite Hreqs. rewrite (mbind_run _ _ _ _ _ (ordered_nil_run (bump_corr x))).
  reflexivity.
Qed.

(* ================================================================================================== *)
(* Part 7: after a metadata reset nothing is known                                                     *)
(* ================================================================================================== *)
Theorem C20_after_reset : forall s t p, ~ known (clear_metadata s) t p.
Proof.
  intros s t p [ps [H _]]. unfold partitions_for, clear_metadata in H.
  cbn [topic_partitions assoc_bytes] in H. discriminate H.
Qed.

Corollary C20_after_reset_offsets : forall s topics time, offset_reqs (clear_metadata s) topics time = [].
Proof.
  intros s topics time. unfold offset_reqs.
  apply (fold_left_inv (fun reqs => reqs = [])); [|reflexivity].
  intros acc t _ ->. reflexivity.
Qed.

Corollary C20_after_reset_fetch : forall c s input, cs c = clear_metadata s -> fetch_reqs c input = [].
Proof.
  intros c s input Hc. unfold fetch_reqs.
  apply (fold_left_inv (fun reqs => reqs = [])); [|reflexivity].
  intros acc q _ ->. rewrite Hc. reflexivity.
Qed.

Corollary C20_after_reset_produce : forall s m msgs, produce_reqs (clear_metadata s) (m :: msgs) [] = None.
Proof. intros s m msgs. reflexivity. Qed.

Corollary C20_after_reset_commit : forall s o os, commit_tps (clear_metadata s) (o :: os) [] = None.
Proof. intros s o os. reflexivity. Qed.

Corollary C20_after_reset_group_fetch : forall s a args, group_fetch_tps (clear_metadata s) (a :: args) [] = None.
Proof. intros s [t p] args. reflexivity. Qed.

Theorem C20_reset_call : forall x,
  exists x', reset_metadata x = (Ok tt, x') /\ cs (cl x') = clear_metadata (cs (cl x))
             /\ trace x' = trace x /\ script x' = script x.
Proof. intros x. eexists. split; [reflexivity|]. repeat split; reflexivity. Qed.

(* ================================================================================================== *)
(* Part 8: the order hints only permute what was built                                                 *)
(* ================================================================================================== *)
Lemma take_key_perm {V} k (l : list (bytes * V)) : forall x r, take_key k l = Some (x, r) -> Permutation l (x :: r).
Proof.
  induction l as [|[k' v] l' IH]; intros x r; cbn [take_key]; [discriminate|].
  destruct (bytes_eqb k' k).
  - intros H. injection H as <- <-. apply Permutation_refl.
  - destruct (take_key k l') as [[y r']|]; [|discriminate]. intros H. injection H as <- <-.
    eapply perm_trans; [apply perm_skip; apply IH; reflexivity|apply perm_swap].
Qed.

Theorem reorder_perm {V} : forall order (l : list (bytes * V)), Permutation (reorder order l) l.
Proof.
  induction order as [|k ks IH]; intros l; cbn [reorder]; [apply Permutation_refl|].
  destruct (take_key k l) as [[x r]|] eqn:E; [|apply IH].
  apply take_key_perm in E. apply Permutation_sym. eapply perm_trans; [exact E|].
  apply perm_skip. apply Permutation_sym. apply IH.
Qed.

Lemma take_zkey_perm {V} k (l : list (Z * V)) : forall x r, take_zkey k l = Some (x, r) -> Permutation l (x :: r).
Proof.
  induction l as [|[k' v] l' IH]; intros x r; cbn [take_zkey]; [discriminate|].
  destruct (k' =? k).
  - intros H. injection H as <- <-. apply Permutation_refl.
  - destruct (take_zkey k l') as [[y r']|]; [|discriminate]. intros H. injection H as <- <-.
    eapply perm_trans; [apply perm_skip; apply IH; reflexivity|apply perm_swap].
Qed.

Theorem reorder_z_perm {V} : forall order (l : list (Z * V)), Permutation (reorder_z order l) l.
Proof.
  induction order as [|k ks IH]; intros l; cbn [reorder_z]; [apply Permutation_refl|].
  destruct (take_zkey k l) as [[x r]|] eqn:E; [|apply IH].
  apply take_zkey_perm in E. apply Permutation_sym. eapply perm_trans; [exact E|].
  apply perm_skip. apply Permutation_sym. apply IH.
Qed.

(* what `ordered` hands to the exchange loops has the same elements as what was built *)
Theorem C20_ordered_same : forall V (reqs reqs' : list (bytes * V)) x x',
  ordered reqs x = (Ok reqs', x') -> Permutation reqs' reqs /\ trace x' = trace x /\ cl x' = cl x.
Proof.
  intros V reqs reqs' x x'. unfold ordered. destruct reqs as [|r0 rs].
  - intros H. injection H as <- <-. repeat split. apply Permutation_refl.
  - unfold mbind, pop_hosts, ret. destruct (hostq x) as [|h hq]; intros H; injection H as <- <-.
    + split; [apply (reorder_perm [] (r0 :: rs))|split; reflexivity].
    + split; [apply (reorder_perm h (r0 :: rs))|split; reflexivity].
Qed.

(* ... and the per-host hint of a fetch request permutes topics and the partitions inside a topic *)
Theorem C20_order_fetch_same : forall order (tps : fetch_tps) t ps',
  In (t, ps') (order_fetch order tps) -> exists ps, In (t, ps) tps /\ Permutation ps' ps.
Proof.
  intros order tps t ps' H. unfold order_fetch in H. apply in_map_iff in H.
  destruct H as [[t0 ps0] [Heq Hin]]. injection Heq as <- <-.
  exists ps0. split.
  - eapply Permutation_in; [apply reorder_perm|exact Hin].
  - destruct (assoc_bytes t0 order); [apply reorder_z_perm|apply Permutation_refl].
Qed.

Corollary C20_order_fetch_known : forall c input host tps order t ps p x,
  In (host, tps) (fetch_reqs c input) -> In (t, ps) (order_fetch order tps) -> In (p, x) ps ->
  known (cs c) t p /\ exists q, In q input /\ fq_topic q = t /\ fq_partition q = p.
Proof.
  intros c input host tps order t ps p x H1 H2 H3.
  apply C20_order_fetch_same in H2. destruct H2 as [ps0 [H2 Hperm]].
  apply (C20_fetch_known c input host tps t ps0 p x H1 H2).
  eapply Permutation_in; [exact Hperm|exact H3].
Qed.

(* ================================================================================================== *)
(* Examples (non-vacuity): two brokers; t1 has 4 partitions of which partition 1 has no leader,        *)
(* t2 has 2 partitions, topic "empty" is known with 0 partitions, "nope" is unknown                    *)
(* ================================================================================================== *)
Definition c20_state : cstate :=
  {| correlation := 7;
     brokers := [ {| b_node := 10; b_host := tag "h0:9092" |}; {| b_node := 11; b_host := tag "h1:9092" |} ];
     topic_partitions := [ (tag "t1", [0; UNKNOWN_BROKER_INDEX; 1; 0]); (tag "t2", [1; 0]); (tag "empty", []) ];
     group_coordinators := [] |}.

Definition c20_cfg (storage : Z) : config :=
  {| client_id := tag "cid"; hosts := [tag "h0:9092"]; compression := 0; fetch_max_wait_time := 100;
     fetch_min_bytes := 4096; fetch_max_bytes_per_partition := 32768; fetch_crc_validation := true;
     offset_storage := storage; retry_backoff_time := (0, 100000000); retry_max_attempts := 120;
     idle_timeout := (540, 0) |}.

Definition c20_client (storage : Z) : client := {| cfg := c20_cfg storage; cs := c20_state; conns := [] |}.

Definition c20_env : codecs :=
  {| gz_compress := fun b => b; sn_compress := fun b => b; gz_decompress := fun b => Some b; debug_build := false |}.

(* a state with a non-empty script and an older trace: a call that did I/O would change both *)
Definition c20_st (storage : Z) : st :=
  {| script := [OConn true; OWrote 1000]; trace := [EShutdown (tag "earlier")]; anyq := []; hostq := [];
     fetchq := []; entryq := []; cl := c20_client storage; env := c20_env |}.

Example known_ex :
  known c20_state (tag "t1") 3 /\ known c20_state (tag "t1") 1
  /\ ~ known c20_state (tag "t1") 4 /\ ~ known c20_state (tag "t1") (-1)
  /\ ~ known c20_state (tag "nope") 0 /\ ~ known c20_state (tag "empty") 0
  /\ find_broker c20_state (tag "t1") 1 = None.
Proof.
  rewrite !known_iff. vm_compute. repeat split; try reflexivity; discriminate.
Qed.

Example C20_offsets_known_ex :
  offset_reqs c20_state [tag "t1"; tag "nope"; tag "t2"; tag "empty"] (-1)
  = [ (tag "h0:9092", [ (tag "t1", [(0, -1); (3, -1)]); (tag "t2", [(1, -1)]) ]);
      (tag "h1:9092", [ (tag "t1", [(2, -1)]); (tag "t2", [(0, -1)]) ]) ].
Proof. vm_compute. reflexivity. Qed.

Definition c20_fq t p o m := {| fq_topic := t; fq_partition := p; fq_offset := o; fq_max_bytes := m |}.
Definition c20_input : list fetch_partition :=
  [ c20_fq (tag "t1") 0 5 0; c20_fq (tag "nope") 0 1 0; c20_fq (tag "t1") 1 6 0; c20_fq (tag "t2") 0 7 100;
    c20_fq (tag "t1") 4 8 0; c20_fq (tag "t1") (-1) 9 0; c20_fq (tag "t1") 2 10 0; c20_fq (tag "t1") 0 11 0;
    c20_fq (tag "empty") 0 0 0 ].

Example C20_fetch_known_ex :
  fetch_reqs (c20_client 1) c20_input
  = [ (tag "h0:9092", [ (tag "t1", [(0, (11, 32768))]) ]);
      (tag "h1:9092", [ (tag "t2", [(0, (7, 100))]); (tag "t1", [(2, (10, 32768))]) ]) ].
Proof. vm_compute. reflexivity. Qed.

Example C20_fetch_silent_ex :
  filter (fq_has_leader (c20_client 1)) c20_input
  = [ c20_fq (tag "t1") 0 5 0; c20_fq (tag "t2") 0 7 100; c20_fq (tag "t1") 2 10 0; c20_fq (tag "t1") 0 11 0 ]
  /\ fetch_reqs (c20_client 1) c20_input = fetch_reqs (c20_client 1) (filter (fq_has_leader (c20_client 1)) c20_input).
Proof. vm_compute. split; reflexivity. Qed.

Definition c20_pm t p k v := {| pq_topic := t; pq_partition := p; pq_key := k; pq_value := v |}.
Definition c20_batch : list produce_message :=
  [ c20_pm (tag "t1") 0 None (Some (tag "a")); c20_pm (tag "t2") 0 (Some (tag "k")) (Some (tag "b"));
    c20_pm (tag "t1") 0 None (Some (tag "c")); c20_pm (tag "t1") 2 None None;
    c20_pm (tag "t2") 1 None (Some (tag "e")); c20_pm (tag "t1") 3 None (Some (tag "f"));
    c20_pm (tag "t2") 0 None (Some (tag "g")) ].

Example C20_produce_known_ex :
  produce_reqs c20_state c20_batch []
  = Some [ (tag "h0:9092", [ (tag "t1", [ (0, [(None, Some (tag "a")); (None, Some (tag "c"))]);
                                          (3, [(None, Some (tag "f"))]) ]);
                             (tag "t2", [ (1, [(None, Some (tag "e"))]) ]) ]);
           (tag "h1:9092", [ (tag "t2", [ (0, [(Some (tag "k"), Some (tag "b")); (None, Some (tag "g"))]) ]);
                             (tag "t1", [ (2, [(None, None)]) ]) ]) ].
Proof. vm_compute. reflexivity. Qed.

(* a batch whose last record goes to the leaderless partition t1/1: nothing is sent *)
Definition c20_bad_batch : list produce_message := c20_batch ++ [ c20_pm (tag "t1") 1 None (Some (tag "z")) ].

Example C20_produce_local_fail_ex :
  (exists m, In m c20_bad_batch /\ find_broker c20_state (pq_topic m) (pq_partition m) = None)
  /\ produce_reqs c20_state c20_bad_batch [] = None
  /\ fst (internal_produce_messages 1 1000 c20_bad_batch (c20_st 1)) = Err (EKafka KC_UnknownTopicOrPartition)
  /\ trace (snd (internal_produce_messages 1 1000 c20_bad_batch (c20_st 1))) = trace (c20_st 1)
  /\ script (snd (internal_produce_messages 1 1000 c20_bad_batch (c20_st 1))) = script (c20_st 1)
  /\ correlation (cs (cl (snd (internal_produce_messages 1 1000 c20_bad_batch (c20_st 1))))) = 8.
Proof.
  split; [exists (c20_pm (tag "t1") 1 None (Some (tag "z"))); split; [|reflexivity]|].
  - unfold c20_bad_batch. apply in_or_app. right. left. reflexivity.
  - vm_compute. repeat split; reflexivity.
Qed.

Definition c20_co t p o := {| co_topic := t; co_partition := p; co_offset := o |}.

Example C20_commit_known_ex :
  commit_tps c20_state [c20_co (tag "t1") 0 100; c20_co (tag "t2") 1 200; c20_co (tag "t1") 1 300; c20_co (tag "t1") 0 400] []
  = Some [ (tag "t1", [(0, 100); (1, 300); (0, 400)]); (tag "t2", [(1, 200)]) ].
Proof. vm_compute. reflexivity. Qed.

Example C20_commit_local_fail_ex :
  commit_tps c20_state [c20_co (tag "t1") 0 100; c20_co (tag "t1") 4 200] [] = None
  /\ ~ known c20_state (tag "t1") 4
  /\ fst (commit_offsets (tag "g") [c20_co (tag "t1") 0 100; c20_co (tag "t1") 4 200] (c20_st 1))
     = Err (EKafka KC_UnknownTopicOrPartition)
  /\ trace (snd (commit_offsets (tag "g") [c20_co (tag "t1") 0 100; c20_co (tag "t1") 4 200] (c20_st 1)))
     = trace (c20_st 1)
  /\ 0 <= offset_storage (cfg (cl (c20_st 1))).
Proof.
  rewrite known_iff. vm_compute. repeat split; try reflexivity; discriminate.
Qed.

Example C20_group_fetch_known_ex :
  group_fetch_tps c20_state [(tag "t2", 1); (tag "t1", 3); (tag "t2", 0); (tag "t1", 1)] []
  = Some [ (tag "t2", [1; 0]); (tag "t1", [3; 1]) ].
Proof. vm_compute. reflexivity. Qed.

Example C20_group_fetch_local_fail_ex :
  group_fetch_tps c20_state [(tag "t2", 1); (tag "nope", 0)] [] = None
  /\ ~ known c20_state (tag "nope") 0
  /\ fst (fetch_group_offsets (tag "g") [(tag "t2", 1); (tag "nope", 0)] (c20_st 0))
     = Err (EKafka KC_UnknownTopicOrPartition)
  /\ trace (snd (fetch_group_offsets (tag "g") [(tag "t2", 1); (tag "nope", 0)] (c20_st 0))) = trace (c20_st 0).
Proof.
  rewrite known_iff. vm_compute. repeat split; try reflexivity; discriminate.
Qed.

Example C20_group_topic_ex :
  partitions_for c20_state (tag "t1") = Some [0; UNKNOWN_BROKER_INDEX; 1; 0]
  /\ group_topic_tps (tag "t1") 4 = [(tag "t1", [0; 1; 2; 3])]
  /\ partitions_for c20_state (tag "nope") = None
  /\ fst (fetch_group_topic_offset (tag "g") (tag "nope") (c20_st 1)) = Err (EKafka KC_UnknownTopicOrPartition)
  /\ trace (snd (fetch_group_topic_offset (tag "g") (tag "nope") (c20_st 1))) = trace (c20_st 1)
  /\ group_topic_tps (tag "empty") 0 = [].
Proof. vm_compute. repeat split; reflexivity. Qed.

Example C20_topic_offsets_unknown_ex :
  partitions_for (cs (cl (c20_st 1))) (tag "nope") = None
  /\ fst (fetch_topic_offsets (tag "nope") (-1) (c20_st 1)) = Err (EKafka KC_UnknownTopicOrPartition)
  /\ trace (snd (fetch_topic_offsets (tag "nope") (-1) (c20_st 1))) = trace (c20_st 1)
  /\ script (snd (fetch_topic_offsets (tag "nope") (-1) (c20_st 1))) = script (c20_st 1).
Proof. vm_compute. repeat split; reflexivity. Qed.

Example C20_after_reset_ex :
  offset_reqs (clear_metadata c20_state) [tag "t1"; tag "t2"] (-1) = []
  /\ fetch_reqs {| cfg := c20_cfg 1; cs := clear_metadata c20_state; conns := [] |} c20_input = []
  /\ produce_reqs (clear_metadata c20_state) c20_batch [] = None
  /\ offset_reqs c20_state [tag "t1"; tag "t2"] (-1) <> [].
Proof. vm_compute. repeat split; try reflexivity; discriminate. Qed.

Example C20_ordered_ex :
  reorder [tag "h1:9092"; tag "zzz"] (offset_reqs c20_state [tag "t1"] (-1))
  = [ (tag "h1:9092", [ (tag "t1", [(2, -1)]) ]); (tag "h0:9092", [ (tag "t1", [(0, -1); (3, -1)]) ]) ]
  /\ order_fetch [(tag "t1", [2]); (tag "t2", [])] [ (tag "t2", [(0, (7, 100))]); (tag "t1", [(0, (1, 1)); (2, (10, 32768))]) ]
     = [ (tag "t1", [(2, (10, 32768)); (0, (1, 1))]); (tag "t2", [(0, (7, 100))]) ].
Proof. vm_compute. split; reflexivity. Qed.

Example upsert_ex :
  tp_add [(tag "a", [1]); (tag "b", [2])] (tag "b") 3 = [(tag "a", [1]); (tag "b", [2; 3])]
  /\ tp_add [(tag "a", [1]); (tag "b", [2])] (tag "c") 3 = [(tag "a", [1]); (tag "b", [2]); (tag "c", [3])]
  /\ fp_insert [(0, (1, 1)); (2, (5, 5))] 2 (9, 9) = [(0, (1, 1)); (2, (9, 9))].
Proof. vm_compute. repeat split; reflexivity. Qed.

Print Assumptions known_iff.
Print Assumptions C20_offsets_leader.
Print Assumptions C20_offsets_known.
Print Assumptions C20_fetch_leader.
Print Assumptions C20_fetch_known.
Print Assumptions C20_fetch_silent.
Print Assumptions C20_produce_leader.
Print Assumptions C20_produce_known.
Print Assumptions C20_produce_local_fail.
Print Assumptions C20_produce_call_local_fail.
Print Assumptions C20_commit_known.
Print Assumptions C20_commit_local_fail.
Print Assumptions C20_commit_call_local_fail.
Print Assumptions C20_group_fetch_known.
Print Assumptions C20_group_fetch_local_fail.
Print Assumptions C20_group_fetch_call_local_fail.
Print Assumptions C20_group_topic.
Print Assumptions C20_group_topic_known.
Print Assumptions C20_group_topic_exact.
Print Assumptions C20_topic_offsets_unknown.
Print Assumptions C20_after_reset.
Print Assumptions C20_after_reset_offsets.
Print Assumptions C20_after_reset_fetch.
Print Assumptions C20_after_reset_produce.
Print Assumptions C20_reset_call.
Print Assumptions C20_ordered_same.
Print Assumptions C20_order_fetch_known.
Print Assumptions sel_upsert.
