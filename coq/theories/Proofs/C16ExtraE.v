(* C16, fourth adequacy pass (round-seven seed C16-7): the clause "CRC validation on or off" IN BEHAVIOUR.

   Seed C16-7 (protocol/fetch.rs ProtocolMessage::from_slice: the checksum comparison is skipped for a message whose
   attributes name a compression codec) is mirrored by the same change of `Responses.protocol_message`
   (`validate && negb is_envelope && negb (crc = stored)`).  On a scratch copy of the development with that change
   EVERY theorem of Props/C16.v still compiles: for this clause Props/C16.v only says that the configured flag
   REACHES the decoder (C16_fetch_crc_in_force, C16_fetch_messages_crc_in_force: `fetch_from_vec .. (fetch_crc_validation
   cfg) ..`), that builders copy it and setters set it.  Nothing says what the flag DOES.  (Props/C04.v does -
   check_passes_iff and its instances fail on the mutant - but C04 is another property; the clause of C16 is
   "the option is in force in the resulting object ... observed at acceptance of a bad-CRC message".)

   This file adds, about the UNCHANGED model:

   1. the single point of use of the flag, characterised completely (C16_crc_flag_decides, C16_crc_rejects_iff):
      a message is refused with CorruptMessage IF AND ONLY IF the flag is on and stored <> computed; otherwise the
      flag makes no difference.  No condition on the attributes: plain message or envelope alike.
   2. the message set: an entry with a wrong stored checksum - ANY checksummed bytes, in particular a gzip / snappy
      envelope - behind any plain entries fails the set when the flag is on (C16_crc_on_damaged_set_rejected); the
      SAME bytes with the flag off are decoded like the intact envelope, i.e. the wrapped messages are delivered
      (C16_crc_envelope_gzip, C16_crc_envelope_snappy: one statement for both values of the flag).
   3. the response and the whole call KafkaClient::fetch_messages: "the broker answers with a well-formed fetch
      response one of whose partitions holds such a set (the others decode) => the call returns CorruptMessage if
      the configured flag is on, and never any Kafka error code if it is off" (C16_crc_on_damaged_answer_rejected,
      C16_crc_fetch_messages_in_force), and the converse C16_crc_corrupt_only_if_on.
   4. histories: set_fetch_crc_validation(x) THEN fetch_messages (C16_crc_setter_then_fetch);
      Builder::create with with_fetch_crc_validation(x) anywhere in the chain (last one wins; none: default / the
      client's), from hosts or from a client, THEN any life of the consumer (poll, seek, consume, commit), THEN
      Consumer::poll: on -> the poll fails with CorruptMessage and neither fetch nor consumed offsets move; off ->
      no Kafka error code from the client's fetch (C16_crc_consumer_in_force, C16_crc_builder_value).
      Also: setter on the client, then Consumer::from_client without the builder call (C16_crc_setter_then_consumer).
   5. flag off, whole response: two answers that differ only in message sets which the decoder reads alike with the
      flag off (e.g. in stored checksums) are decoded alike (C16_crc_off_response_alike) - "off" cannot tell the
      damaged answer from the intact one.

   The mirrored change falsifies 1, 2 (witness: a gzip envelope whose stored checksum has one bit flipped: the mutant
   returns Ok with the wrapped messages), and with them 3 and 4; the negations are proved on the mutant in
   /tmp/pw/C16/mut7/scratch/Neg7.v. *)
From Coq Require Import ZifyBool Relations.Relation_Operators.
From KV Require Import Base.Prelude Base.Crc32 Base.Snappy Gen.ErrorCodes Gen.Consts
                       Model.Codecs Model.Requests Model.Responses Model.ClientState Model.Net Model.Client
                       Model.Val Model.Producer Model.Consumer Model.Dispatch.
From KV Require Import Proofs.BytesFacts Proofs.Crc32Facts Proofs.SnappyFacts Spec.MsgSetSpec Spec.RespGrammar.
From KV Require Import Proofs.NetFacts Proofs.C07Facts Proofs.C19Facts Proofs.C16Facts Proofs.C16Extra Proofs.C16Extra2.
From KV Require Import Proofs.C10Facts Proofs.C04Facts Proofs.C04Extra Proofs.C04ExtraB Proofs.C04ExtraC.

Local Notation corrupt := (Err (EKafka KC_CorruptMessage)).

(* ====================================================================================== *)
(* 1. the point of use                                                                    *)
(* ====================================================================================== *)

(* field = the 4 stored checksum bytes, covered = everything behind them (magic, attributes, key, value - or
   anything else).  The flag decides, and nothing but the flag and the comparison does. *)
Theorem C16_crc_flag_decides : forall dbg validate field covered, length field = 4%nat ->
  protocol_message dbg validate (field ++ covered) =
  if validate && negb (be_dec_u field =? crc32 covered) then corrupt
  else protocol_message dbg false (field ++ covered).
Proof.
  intros dbg validate field covered H. rewrite !protocol_message_split by exact H.
  rewrite be_dec_s_4 by exact H. destruct validate; cbn [andb]; [|reflexivity].
  destruct (be_dec_u field =? crc32 covered) eqn:E; cbn [negb].
  - apply Z.eqb_eq in E. rewrite E, Z.eqb_refl. reflexivity.
  - destruct (wrap_s 32 (crc32 covered) =? wrap_s 32 (be_dec_u field)) eqn:E2; [|reflexivity].
    apply Z.eqb_eq in E2. apply wrap_s_32_inj in E2; [|apply crc32_range|now apply be_dec_u_range_4].
    rewrite E2, Z.eqb_refl in E. discriminate E.
Qed.

Theorem C16_crc_rejects_iff : forall dbg validate field covered, length field = 4%nat ->
  protocol_message dbg validate (field ++ covered) = corrupt <->
  validate = true /\ be_dec_u field <> crc32 covered.
Proof.
  intros dbg validate field covered H. rewrite C16_crc_flag_decides by exact H.
  destruct validate; cbn [andb].
  - destruct (be_dec_u field =? crc32 covered) eqn:E; cbn [negb].
    + apply Z.eqb_eq in E. split.
      * intros Hp. exfalso. exact (protocol_message_off_nk dbg _ _ Hp).
      * intros [_ Hn]. exfalso. exact (Hn E).
    + apply Z.eqb_neq in E. split; [intros _; split; [reflexivity|exact E]|reflexivity].
  - split; [intros Hp; exfalso; exact (protocol_message_off_nk dbg _ _ Hp)|intros [Hf _]; discriminate Hf].
Qed.

(* a gzip envelope (attributes 1) around the bytes "a"; the stored checksum differs from the right one in one bit *)
Definition e_body1 : bytes := ser_body COMPRESSION_GZIP None (Some [x61]).
Definition e_flip (field : bytes) : bytes := xor_bytes field [x00; x00; x00; x01].

Example C16_crc_flag_decides_ex :
  length (e_flip (enc_i32 (crc32 e_body1))) = 4%nat /\
  be_dec_u (e_flip (enc_i32 (crc32 e_body1))) <> crc32 e_body1 /\
  protocol_message true true (e_flip (enc_i32 (crc32 e_body1)) ++ e_body1) = corrupt /\
  protocol_message true false (e_flip (enc_i32 (crc32 e_body1)) ++ e_body1) = Ok (1, [], [x61]) /\
  protocol_message true true (enc_i32 (crc32 e_body1) ++ e_body1) = Ok (1, [], [x61]).
Proof. vm_compute. repeat split; try reflexivity. discriminate. Qed.

(* ====================================================================================== *)
(* 2. the message set                                                                     *)
(* ====================================================================================== *)

(* one entry of a message set: offset, size, message bytes *)
Definition c16_entry (off : Z) (msg : bytes) : bytes := enc_i64 off ++ enc_i32 (blen msg) ++ msg.

(* a message set holding - behind any well-formed plain entries, in front of anything - an entry whose stored
   checksum is not the checksum of the bytes behind it.  `covered` is arbitrary: a plain message, a gzip / snappy
   envelope, an envelope with a damaged key or attribute byte, ... *)
Definition damaged_set (comp : Z -> bytes -> bytes) (set : bytes) : Prop :=
  exists pre off field covered post,
    Forall plain_wf pre /\ in_i64 off /\ length field = 4%nat /\ blen (field ++ covered) <= i32_max /\
    be_dec_u field <> crc32 covered /\
    set = ser comp pre ++ c16_entry off (field ++ covered) ++ post.

Theorem C16_crc_on_damaged_set_rejected : forall comp cz d req set,
  damaged_set comp set -> from_slice cz (S d) true req set = corrupt.
Proof.
  intros comp cz d req set (pre & off & field & covered & post & Hpre & Ho & Hf & Hm & Hne & ->).
  unfold c16_entry. apply C04_set_rejects; try assumption.
  apply C16_crc_rejects_iff; [exact Hf|]. split; [reflexivity|exact Hne].
Qed.

Lemma blen_field_app field covered : length field = 4%nat -> blen (field ++ covered) = 4 + blen covered.
Proof. intros H. unfold blen. rewrite app_length, H. lia. Qed.

Lemma entry_is_ser_message off attr k v post :
  c16_entry off (enc_i32 (crc32 (ser_body attr k v)) ++ ser_body attr k v) ++ post =
  ser_message off attr k v ++ post.
Proof. rewrite ser_message_shape. unfold c16_entry. now rewrite <- !app_assoc. Qed.

(* with the flag off, an entry with ANY four bytes in the checksum field reads like the intact message *)
Lemma off_field_irrelevant comp cz d req pre off field attr k v post :
  Forall plain_wf pre -> in_i64 off -> length field = 4%nat -> 4 + blen (ser_body attr k v) <= i32_max ->
  from_slice cz (S d) false req (ser comp pre ++ c16_entry off (field ++ ser_body attr k v) ++ post) =
  from_slice cz (S d) false req (ser comp pre ++ ser_message off attr k v ++ post).
Proof.
  intros Hpre Ho Hf Hs. rewrite <- entry_is_ser_message. unfold c16_entry.
  apply C04_off_set_ignored; try assumption; [apply enc_i32_length|].
  rewrite blen_field_app by exact Hf. exact Hs.
Qed.

(* the gzip envelope with a wrong stored checksum: refused with the flag on, and with the flag off the wrapped
   set `data` is decoded exactly as for the intact envelope *)
Theorem C16_crc_envelope_gzip : forall comp cz d validate req pre off field v data post,
  Forall plain_wf pre -> in_i64 off -> length field = 4%nat ->
  4 + blen (ser_body COMPRESSION_GZIP None (Some v)) <= i32_max ->
  be_dec_u field <> crc32 (ser_body COMPRESSION_GZIP None (Some v)) ->
  gz_decompress cz v = Some data ->
  from_slice cz (S (S d)) validate req
    (ser comp pre ++ c16_entry off (field ++ ser_body COMPRESSION_GZIP None (Some v)) ++ post) =
  if validate then corrupt else from_slice cz (S d) false req data.
Proof.
  intros comp cz d validate req pre off field v data post Hpre Ho Hf Hs Hne Hz. destruct validate.
  - apply (C16_crc_on_damaged_set_rejected comp).
    exists pre, off, field, (ser_body COMPRESSION_GZIP None (Some v)), post.
    split; [exact Hpre|]. split; [exact Ho|]. split; [exact Hf|].
    split; [rewrite blen_field_app by exact Hf; exact Hs|]. split; [exact Hne|reflexivity].
  - rewrite off_field_irrelevant by assumption. now apply C04_wrapper_gzip.
Qed.

Theorem C16_crc_envelope_snappy : forall comp cz d validate req pre off field v data post,
  Forall plain_wf pre -> in_i64 off -> length field = 4%nat ->
  4 + blen (ser_body COMPRESSION_SNAPPY None (Some v)) <= i32_max ->
  be_dec_u field <> crc32 (ser_body COMPRESSION_SNAPPY None (Some v)) ->
  xerial_max_alloc v < alloc_limit -> xerial_read_to_end v = Ok data ->
  from_slice cz (S (S d)) validate req
    (ser comp pre ++ c16_entry off (field ++ ser_body COMPRESSION_SNAPPY None (Some v)) ++ post) =
  if validate then corrupt else from_slice cz (S d) false req data.
Proof.
  intros comp cz d validate req pre off field v data post Hpre Ho Hf Hs Hne Ha Hz. destruct validate.
  - apply (C16_crc_on_damaged_set_rejected comp).
    exists pre, off, field, (ser_body COMPRESSION_SNAPPY None (Some v)), post.
    split; [exact Hpre|]. split; [exact Ho|]. split; [exact Hf|].
    split; [rewrite blen_field_app by exact Hf; exact Hs|]. split; [exact Hne|reflexivity].
  - rewrite off_field_irrelevant by assumption. now apply C04_wrapper_snappy.
Qed.

(* the scenario of the seed: "0:first", "1:second" (here at offsets 12, 13) wrapped by gzip (identity codec of
   C04Facts.ex_cz) and by snappy (the model's own xerial / snappy decoder); one bit of the stored checksum of the
   envelope is flipped; one plain message in front *)
Definition e_inner : bytes :=
  ser ex_comp [Plain 12 None (Some (tag "first")); Plain 13 None (Some (tag "second"))].
Definition e_xerial : bytes := xerial_frame [snappy_lit_compress e_inner].
Definition e_body (c : Z) : bytes :=
  ser_body c None (Some (if c =? COMPRESSION_GZIP then e_inner else e_xerial)).
Definition e_pre : list entry := [Plain 11 None (Some (tag "zeroth"))].
Definition e_set_bad (c : Z) : bytes :=
  ser ex_comp e_pre ++ c16_entry 13 (e_flip (enc_i32 (crc32 (e_body c))) ++ e_body c) ++ [].
Definition e_set_good (c : Z) : bytes :=
  ser ex_comp e_pre ++ c16_entry 13 (enc_i32 (crc32 (e_body c)) ++ e_body c) ++ [].
Definition e_values (r : res (list message)) : option (list (Z * bytes)) :=
  match r with Ok l => Some (map (fun m => (m_offset m, m_value m)) l) | _ => None end.

Lemma e_pre_wf : Forall plain_wf e_pre. Proof. repeat constructor; conc. Qed.

Lemma e_set_bad_damaged c : c = COMPRESSION_GZIP \/ c = COMPRESSION_SNAPPY -> damaged_set ex_comp (e_set_bad c).
Proof.
  intros Hc. exists e_pre, 13, (e_flip (enc_i32 (crc32 (e_body c)))), (e_body c), [].
  split; [exact e_pre_wf|]. destruct Hc as [-> | ->]; conc.
Qed.

Example C16_crc_envelope_ex :
  gz_decompress ex_cz e_inner = Some e_inner /\
  xerial_max_alloc e_xerial < alloc_limit /\ xerial_read_to_end e_xerial = Ok e_inner /\
  (* flag on: refused, gzip and snappy; by the theorem and by computation *)
  from_slice ex_cz decode_depth true 12 (e_set_bad COMPRESSION_GZIP) = corrupt /\
  from_slice ex_cz decode_depth true 12 (e_set_bad COMPRESSION_SNAPPY) = corrupt /\
  (* flag off: the wrapped messages are delivered *)
  e_values (from_slice ex_cz decode_depth false 12 (e_set_bad COMPRESSION_GZIP))
    = Some [(12, tag "first"); (13, tag "second")] /\
  e_values (from_slice ex_cz decode_depth false 12 (e_set_bad COMPRESSION_SNAPPY))
    = Some [(12, tag "first"); (13, tag "second")] /\
  (* the intact envelopes, flag on: delivered *)
  e_values (from_slice ex_cz decode_depth true 12 (e_set_good COMPRESSION_GZIP))
    = Some [(12, tag "first"); (13, tag "second")] /\
  e_values (from_slice ex_cz decode_depth true 12 (e_set_good COMPRESSION_SNAPPY))
    = Some [(12, tag "first"); (13, tag "second")].
Proof.
  split; [reflexivity|]. split; [vm_compute; reflexivity|]. split; [vm_compute; reflexivity|].
  split; [apply (C16_crc_on_damaged_set_rejected ex_comp), e_set_bad_damaged; now left|].
  split; [apply (C16_crc_on_damaged_set_rejected ex_comp), e_set_bad_damaged; now right|].
  vm_compute. repeat split.
Qed.

(* the instance of C16_crc_envelope_gzip / _snappy itself *)
Example C16_crc_envelope_inst_ex : forall validate,
  from_slice ex_cz 2 validate 12 (e_set_bad COMPRESSION_GZIP) =
    (if validate then corrupt else from_slice ex_cz 1 false 12 e_inner) /\
  from_slice ex_cz 2 validate 12 (e_set_bad COMPRESSION_SNAPPY) =
    (if validate then corrupt else from_slice ex_cz 1 false 12 e_inner).
Proof.
  intros validate. split.
  - apply (C16_crc_envelope_gzip ex_comp ex_cz 0 validate 12 e_pre 13 _ e_inner e_inner []);
      [exact e_pre_wf|conc|conc|conc|conc|reflexivity].
  - apply (C16_crc_envelope_snappy ex_comp ex_cz 0 validate 12 e_pre 13 _ e_xerial e_inner []);
      [exact e_pre_wf|conc|conc|conc|conc|conc|conc].
Qed.

(* ====================================================================================== *)
(* 3. the response and KafkaClient::fetch_messages                                        *)
(* ====================================================================================== *)

(* what the broker sent: a well-formed fetch response (then anything), one of whose partitions holds a damaged
   set, while every partition's set either decodes or is itself refused as corrupt *)
Definition damaged_answer (comp : Z -> bytes -> bytes) (cz : codecs) (depth : nat) (reqs : fetch_tps) (b : bytes)
  : Prop :=
  exists r rest t p,
    b = print_fetch r ++ rest /\ wf_fetch r /\
    (forall t0 p0, In t0 (view_list (wr_topics r)) -> In p0 (view_list (wt_partitions t0)) ->
       (exists l, part_set cz depth reqs t0 p0 = Ok l) \/ part_set cz depth reqs t0 p0 = corrupt) /\
    In t (view_list (wr_topics r)) /\ In p (view_list (wt_partitions t)) /\
    damaged_set comp (wfe_message_set p).

Theorem C16_crc_on_damaged_answer_rejected : forall comp cz d reqs b,
  damaged_answer comp cz (S d) reqs b -> fetch_from_vec cz (S d) true reqs b = corrupt.
Proof.
  intros comp cz d reqs b (r & rest & t & p & -> & Hwf & Hall & Ht & Hp & Hd).
  apply C04_response_rejects; [exact Hwf|exact Hall|].
  exists t, p. split; [exact Ht|]. split; [exact Hp|].
  unfold part_set. now apply (C16_crc_on_damaged_set_rejected comp).
Qed.

(* ... and whatever the OTHER partitions hold, such a response is never delivered with the flag on *)
Theorem C16_crc_on_damaged_response_never_delivered : forall comp cz d reqs r rest t p,
  wf_fetch r -> In t (view_list (wr_topics r)) -> In p (view_list (wt_partitions t)) ->
  damaged_set comp (wfe_message_set p) ->
  forall resp, fetch_from_vec cz (S d) true reqs (print_fetch r ++ rest) <> Ok resp.
Proof.
  intros comp cz d reqs r rest t p Hwf Ht Hp Hd.
  apply (C04_response_never_delivered cz (S d) reqs r rest t p Hwf Ht Hp).
  unfold part_set. now apply (C16_crc_on_damaged_set_rejected comp).
Qed.

(* KafkaClient::fetch_messages as a whole: the brokers asked before h answered well; h answers with a damaged
   response.  The CONFIGURED flag decides what the caller gets. *)
Theorem C16_crc_fetch_messages_in_force : forall comp input s corr sa pre h tps post sb acc1 s1 b s2,
  next_corr s = (Ok corr, sa) ->
  ordered (fetch_reqs (cl sa) input) sa = (Ok (pre ++ (h, tps) :: post), sb) ->
  fetch_exchange corr pre [] sb = (Ok acc1, s1) ->
  fetch_io corr h tps s1 = (Ok b, s2) ->
  damaged_answer comp (env s) decode_depth tps b ->
  if fetch_crc_validation (cfg (cl s)) then fetch_messages input s = (corrupt, s2)
  else forall r s' c, fetch_messages input s = (r, s') -> r <> Err (EKafka c).
Proof.
  intros comp input s corr sa pre h tps post sb acc1 s1 b s2 H1 H2 H3 H4 Hd.
  destruct (fetch_crc_validation (cfg (cl s))) eqn:Hv.
  - apply (C04_fetch_messages_rejects input s corr sa pre h tps post sb acc1 s1 b s2); try assumption.
    apply (C16_crc_on_damaged_answer_rejected comp). exact Hd.
  - intros r s' c H. exact (C04_off_fetch_messages_never_corrupt input s r s' c Hv H).
Qed.

(* the converse: CorruptMessage out of fetch_messages only if the configured flag is on *)
Theorem C16_crc_corrupt_only_if_on : forall input s s',
  fetch_messages input s = (corrupt, s') -> fetch_crc_validation (cfg (cl s)) = true.
Proof.
  intros input s s' H. destruct (fetch_crc_validation (cfg (cl s))) eqn:Hv; [reflexivity|].
  exfalso. exact (C04_off_fetch_messages_never_corrupt input s _ s' _ Hv H eq_refl).
Qed.

(* ====================================================================================== *)
(* 4. histories: setter / builder first, the fetch later                                  *)
(* ====================================================================================== *)

(* KafkaClient::set_fetch_crc_validation(x), then fetch_messages on that client *)
Theorem C16_crc_setter_then_fetch :
  forall c hv scv ev x g' comp input s corr sa pre h tps post sb acc1 s1 b s2,
  cfg_after c (vt "set_fetch_crc_validation" [VI x]) hv scv ev = Some g' ->
  cfg (cl s) = g' ->
  next_corr s = (Ok corr, sa) ->
  ordered (fetch_reqs (cl sa) input) sa = (Ok (pre ++ (h, tps) :: post), sb) ->
  fetch_exchange corr pre [] sb = (Ok acc1, s1) ->
  fetch_io corr h tps s1 = (Ok b, s2) ->
  damaged_answer comp (env s) decode_depth tps b ->
  fetch_crc_validation g' = negb (x =? 0) /\
  if x =? 0 then forall r s' code, fetch_messages input s = (r, s') -> r <> Err (EKafka code)
  else fetch_messages input s = (corrupt, s2).
Proof.
  intros c hv scv ev x g' comp input s corr sa pre h tps post sb acc1 s1 b s2 Hset Hs H1 H2 H3 H4 Hd.
  pose proof (C16_client_setters c hv scv ev) as HS. cbv zeta in HS.
  destruct HS as (_ & _ & _ & _ & H5 & _). rewrite H5 in Hset. injection Hset as <-.
  assert (Hv : fetch_crc_validation (cfg (cl s)) = negb (x =? 0)) by (rewrite Hs; reflexivity).
  split; [reflexivity|].
  pose proof (C16_crc_fetch_messages_in_force comp input s corr sa pre h tps post sb acc1 s1 b s2 H1 H2 H3 H4 Hd) as HF.
  rewrite Hv in HF. destruct (x =? 0); exact HF.
Qed.

(* the value the builder ends up with (C04ExtraB.builder_crc is the fold over the calls) *)
Theorem C16_crc_builder_value : forall src calls,
  cb_crc (fold_left cbuilder_apply calls (cbuilder_new src)) = builder_crc src calls /\
  (forall pre x post, calls = pre ++ CWithCrc x :: post -> (forall y, ~ In (CWithCrc y) post) ->
     builder_crc src calls = x) /\
  ((forall y, ~ In (CWithCrc y) calls) ->
     builder_crc src calls = match src with inl _ => true | inr c => fetch_crc_validation (cfg c) end).
Proof.
  intros src calls. split; [exact (C04_builder_crc src calls)|]. split.
  - intros pre x post -> Hn. now apply C04_builder_crc_last.
  - intros Hn. now apply C04_builder_crc_default.
Qed.

(* Builder::create, then any life, then Consumer::poll (and KafkaClient::fetch_messages on the consumer's client) *)
Theorem C16_crc_consumer_in_force : forall src calls s0 k0 s0' k,
  consumer_create src calls s0 = (Ok k0, s0') ->
  clos_refl_trans_1n consumer cstep k0 k ->
  fetch_crc_validation (cfg (k_client k)) = builder_crc src calls /\
  forall comp s input corr sa pre h tps post sb acc1 s1 b s2,
    cl s = k_client k ->
    poll_input k = Some input ->
    next_corr s = (Ok corr, sa) ->
    ordered (fetch_reqs (cl sa) input) sa = (Ok (pre ++ (h, tps) :: post), sb) ->
    fetch_exchange corr pre [] sb = (Ok acc1, s1) ->
    fetch_io corr h tps s1 = (Ok b, s2) ->
    damaged_answer comp (env s) decode_depth tps b ->
    if builder_crc src calls
    then exists k', consumer_poll k s = (Ok (corrupt, k'), s2) /\
                    k_fetch k' = k_fetch k /\ k_consumed k' = k_consumed k /\ k_client k' = cl s2
    else forall input' r s' code, fetch_messages input' s = (r, s') -> r <> Err (EKafka code).
Proof.
  intros src calls s0 k0 s0' k Hc Hlife.
  assert (Hk : fetch_crc_validation (cfg (k_client k)) = builder_crc src calls).
  { rewrite (C04_consumer_life_cfg _ _ Hlife). exact (proj1 (C04_consumer_create_crc _ _ _ _ _ Hc)). }
  split; [exact Hk|].
  intros comp s input corr sa pre h tps post sb acc1 s1 b s2 Hcl Hin H1 H2 H3 H4 Hd.
  pose proof (C16_crc_fetch_messages_in_force comp input s corr sa pre h tps post sb acc1 s1 b s2 H1 H2 H3 H4 Hd) as HF.
  rewrite Hcl, Hk in HF. destruct (builder_crc src calls) eqn:Hb.
  - exact (C04_consumer_poll_rejects k input s _ s2 Hin HF).
  - intros input' r s' code H. apply (C04_off_fetch_messages_never_corrupt input' s r s' code); [|exact H].
    rewrite Hcl, Hk. reflexivity.
Qed.

(* ---- examples for sections 3 and 4: a scripted broker (the scenario of the seed's demonstration) ---------------- *)
(* the fetch response: partition 0 holds the snappy envelope with one flipped bit in its stored checksum, partition 1
   the intact gzip envelope *)
Definition e_resp : w_topics_resp w_fetch_part :=
  {| wr_corr := 2;
     wr_topics := Some [ {| wt_name := Some (tag "t");
                            wt_partitions := Some [ {| wfe_partition := 0; wfe_error := 0; wfe_highwater := 15;
                                                       wfe_message_set := e_set_bad COMPRESSION_SNAPPY |};
                                                    {| wfe_partition := 1; wfe_error := 0; wfe_highwater := 15;
                                                       wfe_message_set := e_set_good COMPRESSION_GZIP |} ] |} ] |}.
Definition e_payload : bytes := print_fetch e_resp.

Lemma e_resp_wf : wf_fetch e_resp.
Proof.
  unfold wf_fetch, wf_topics_resp, e_resp, wf_array, wf_topic, wf_fetch_part, wf_string, wf_array,
    in_i16, in_i32, in_i64; cbn [wr_corr wr_topics wt_name wt_partitions wfe_partition wfe_error wfe_highwater
    wfe_message_set].
  repeat first [ split | apply Forall_cons | apply Forall_nil | reflexivity | exact I
               | (vm_compute; discriminate) | (vm_compute; reflexivity) ].
Qed.

Lemma e_payload_damaged : damaged_answer ex_comp ex_cz decode_depth xb_tps e_payload.
Proof.
  exists e_resp, [].
  eexists. eexists. split; [unfold e_payload; symmetry; apply app_nil_r|]. split; [exact e_resp_wf|].
  split; [|split; [left; reflexivity|split; [left; reflexivity|]]].
  - intros t0 p0 [<-|[]]. cbn [wt_partitions view_list].
    intros [<-|[<-|[]]]; [right; vm_compute; reflexivity|left; eexists; vm_compute; reflexivity].
  - cbn [wfe_message_set]. apply e_set_bad_damaged. now right.
Qed.

(* (a) KafkaClient: set_fetch_crc_validation through the harness's dispatcher, then fetch_messages *)
Definition e_in : list fetch_partition :=
  [{| fq_topic := tag "t"; fq_partition := 0; fq_offset := 12; fq_max_bytes := 0 |};
   {| fq_topic := tag "t"; fq_partition := 1; fq_offset := 10; fq_max_bytes := 0 |}].
Definition e_st (g : config) : st :=
  {| script := [OConn true; OWrote 1000; OData (p_i32 (Z.of_nat (length e_payload))); OData e_payload];
     trace := []; anyq := []; hostq := []; fetchq := []; entryq := [];
     cl := {| cfg := g; cs := x_cs; conns := [] |}; env := ex_cz |}.
Definition e_cfg_after (x : Z) : config :=
  match cfg_after (x_client (x =? 0)) (vt "set_fetch_crc_validation" [VI x]) (vt "h" []) (vt "s" []) (vt "e" []) with
  | Some g => g | None => cfg (x_client (x =? 0)) end.
Definition e_fetch_values (r : res (list fetch_resp) * st) : option (list (list (Z * bytes))) :=
  match fst r with
  | Ok resps => Some (flat_map (fun r => flat_map (fun t => map (fun p => match fp_data p with
                                                                          | inl (_, l) => map (fun m => (m_offset m, m_value m)) l
                                                                          | inr _ => [] end)
                                                               (ft_partitions t)) (fr_topics r)) resps)
  | _ => None
  end.

Example C16_crc_setter_then_fetch_ex :
  (* the client had validation OFF and is told ON: the damaged envelope is refused *)
  cfg_after (x_client false) (vt "set_fetch_crc_validation" [VI 1]) (vt "h" []) (vt "s" []) (vt "e" [])
    = Some (e_cfg_after 1) /\
  fetch_crc_validation (e_cfg_after 1) = true /\
  (exists s2, fetch_messages e_in (e_st (e_cfg_after 1)) = (corrupt, s2)) /\
  (* the client had validation ON and is told OFF: the wrapped messages are delivered *)
  cfg_after (x_client true) (vt "set_fetch_crc_validation" [VI 0]) (vt "h" []) (vt "s" []) (vt "e" [])
    = Some (e_cfg_after 0) /\
  fetch_crc_validation (e_cfg_after 0) = false /\
  e_fetch_values (fetch_messages e_in (e_st (e_cfg_after 0)))
    = Some [[(12, tag "first"); (13, tag "second")]; [(12, tag "first"); (13, tag "second")]].
Proof.
  split; [vm_compute; reflexivity|]. split; [vm_compute; reflexivity|].
  split; [|split; [vm_compute; reflexivity|split; vm_compute; reflexivity]].
  set (s := e_st (e_cfg_after 1)).
  assert (H0 : cfg_after (x_client false) (vt "set_fetch_crc_validation" [VI 1]) (vt "h" []) (vt "s" []) (vt "e" [])
               = Some (e_cfg_after 1)) by (vm_compute; reflexivity).
  assert (H1 : next_corr s = (Ok 1, snd (next_corr s))) by (vm_compute; reflexivity).
  set (sa := snd (next_corr s)) in *.
  assert (H2 : ordered (fetch_reqs (cl sa) e_in) sa =
               (Ok ([] ++ (x_h, xb_tps) :: []), snd (ordered (fetch_reqs (cl sa) e_in) sa))) by (vm_compute; reflexivity).
  set (sb := snd (ordered (fetch_reqs (cl sa) e_in) sa)) in *.
  assert (H3 : fetch_exchange 1 [] [] sb = (Ok [], sb)) by reflexivity.
  assert (H4 : fetch_io 1 x_h xb_tps sb = (Ok e_payload, snd (fetch_io 1 x_h xb_tps sb))) by (vm_compute; reflexivity).
  exists (snd (fetch_io 1 x_h xb_tps sb)).
  exact (proj2 (C16_crc_setter_then_fetch (x_client false) (vt "h" []) (vt "s" []) (vt "e" []) 1 (e_cfg_after 1) ex_comp
                  e_in s 1 sa [] x_h xb_tps [] sb [] sb e_payload _ H0 eq_refl H1 H2 H3 H4 e_payload_damaged)).
Qed.

(* (b) the consumer of C04ExtraB: built FROM A CLIENT THAT HAD VALIDATION OFF with with_fetch_crc_validation(true)
   (xb_calls), resp. without the call (xb_calls_inherit); then a seek; then the poll *)
Definition e_poll_st (k : consumer) : st :=
  {| script := [OWrote 1000; OData (p_i32 (Z.of_nat (length e_payload))); OData e_payload];
     trace := []; anyq := []; hostq := []; fetchq := []; entryq := []; cl := k_client k; env := ex_cz |}.

Example C16_crc_consumer_in_force_ex :
  let k := xb_k1 xb_calls in
  let s := e_poll_st k in
  builder_crc (inr (x_client false)) xb_calls = true /\
  fetch_crc_validation (cfg (k_client k)) = true /\
  (exists k' s2, consumer_poll k s = (Ok (corrupt, k'), s2) /\
                 k_fetch k' = k_fetch k /\ k_consumed k' = k_consumed k /\
                 k_fetch k = [((0, 0), (12, 32768)); ((0, 1), (10, 32768))]) /\
  (* control: inherited "off": the same answer is delivered, both partitions *)
  builder_crc (inr (x_client false)) xb_calls_inherit = false /\
  (exists ms k' s', consumer_poll (xb_k1 xb_calls_inherit) (e_poll_st (xb_k1 xb_calls_inherit)) = (Ok (Ok ms, k'), s') /\
                    length (iterate ms) = 2%nat /\
                    k_fetch k' = [((0, 0), (14, 32768)); ((0, 1), (14, 32768))]).
Proof.
  cbv zeta. set (k := xb_k1 xb_calls). set (s := e_poll_st k).
  assert (H0 : consumer_create (inr (x_client false)) xb_calls xb_st0 =
               (Ok (xb_k xb_calls), snd (consumer_create (inr (x_client false)) xb_calls xb_st0)))
    by (vm_compute; reflexivity).
  assert (Hlife : clos_refl_trans_1n consumer cstep (xb_k xb_calls) k).
  { eapply rt1n_trans; [|apply rt1n_refl]. apply (cs_seek (xb_k xb_calls) (tag "t") 0 12). vm_compute. reflexivity. }
  destruct (C16_crc_consumer_in_force _ _ _ _ _ k H0 Hlife) as [Hk Hpoll].
  assert (Hon : builder_crc (inr (x_client false)) xb_calls = true) by reflexivity.
  split; [exact Hon|]. split; [rewrite Hk; exact Hon|]. split; [|split; [reflexivity|]].
  - assert (Hcl : cl s = k_client k) by reflexivity.
    assert (Hin : poll_input k = Some (xb_input k)) by (vm_compute; reflexivity).
    assert (H1 : next_corr s = (Ok 2, snd (next_corr s))) by (vm_compute; reflexivity).
    set (sa := snd (next_corr s)) in *.
    assert (H2 : ordered (fetch_reqs (cl sa) (xb_input k)) sa =
                 (Ok ([] ++ (x_h, xb_tps) :: []), snd (ordered (fetch_reqs (cl sa) (xb_input k)) sa)))
      by (vm_compute; reflexivity).
    set (sb := snd (ordered (fetch_reqs (cl sa) (xb_input k)) sa)) in *.
    assert (H3 : fetch_exchange 2 [] [] sb = (Ok [], sb)) by reflexivity.
    assert (H4 : fetch_io 2 x_h xb_tps sb = (Ok e_payload, snd (fetch_io 2 x_h xb_tps sb))) by (vm_compute; reflexivity).
    pose proof (Hpoll ex_comp s (xb_input k) 2 sa [] x_h xb_tps [] sb [] sb e_payload _ Hcl Hin H1 H2 H3 H4
                  e_payload_damaged) as HP.
    rewrite Hon in HP. destruct HP as (k' & HP1 & HP2 & HP3 & _).
    exists k', (snd (fetch_io 2 x_h xb_tps sb)). split; [exact HP1|]. split; [exact HP2|]. split; [exact HP3|].
    vm_compute. reflexivity.
  - eexists. eexists. eexists. split; [vm_compute; reflexivity|]. split; vm_compute; reflexivity.
Qed.

(* setter on the client, then Consumer::from_client WITHOUT with_fetch_crc_validation: the consumer - all its life -
   has the value the setter was given; a later builder call overrides it (C16_crc_builder_value) *)
Theorem C16_crc_setter_then_consumer : forall c hv scv ev x g' c' calls s0 k0 s0' k,
  cfg_after c (vt "set_fetch_crc_validation" [VI x]) hv scv ev = Some g' ->
  cfg c' = g' ->
  (forall y, ~ In (CWithCrc y) calls) ->
  consumer_create (inr c') calls s0 = (Ok k0, s0') ->
  clos_refl_trans_1n consumer cstep k0 k ->
  fetch_crc_validation (cfg (k_client k)) = negb (x =? 0).
Proof.
  intros c hv scv ev x g' c' calls s0 k0 s0' k Hset Hc' Hn Hc Hlife.
  rewrite (proj1 (C16_crc_consumer_in_force _ _ _ _ _ k Hc Hlife)).
  rewrite (C04_builder_crc_default (inr c') calls Hn), Hc'.
  pose proof (C16_client_setters c hv scv ev) as HS. cbv zeta in HS.
  destruct HS as (_ & _ & _ & _ & H5 & _). rewrite H5 in Hset. injection Hset as <-. reflexivity.
Qed.

Example C16_crc_setter_then_consumer_ex :
  let c' := {| cfg := e_cfg_after 1; cs := x_cs; conns := [] |} in
  let s0 := {| script := script xb_st0; trace := []; anyq := []; hostq := []; fetchq := []; entryq := [];
               cl := c'; env := ex_cz |} in
  fetch_crc_validation (cfg (x_client false)) = false /\
  (forall y, ~ In (CWithCrc y) xb_calls_inherit) /\
  exists k0 s0', consumer_create (inr c') xb_calls_inherit s0 = (Ok k0, s0') /\
                 fetch_crc_validation (cfg (k_client k0)) = true.
Proof.
  cbv zeta. split; [reflexivity|]. split; [intros y [H|[]]; discriminate H|].
  eexists. eexists. split; vm_compute; reflexivity.
Qed.

(* ====================================================================================== *)
(* 5. flag off: the whole response is decoded as if the checksum fields were right         *)
(* ====================================================================================== *)
(* two fetch responses that agree in everything except the message sets, and whose message sets are decoded alike
   WITH THE FLAG OFF (e.g. they differ in stored checksums only: off_field_irrelevant / C04_off_set_ignored), are
   decoded alike with the flag off - "off" makes the damaged answer indistinguishable from the intact one *)
Definition part_alike cz depth (reqs : fetch_tps) (name : option bytes) (p p' : w_fetch_part) : Prop :=
  wfe_partition p = wfe_partition p' /\ wfe_error p = wfe_error p' /\ wfe_highwater p = wfe_highwater p' /\
  from_slice cz depth false (C04Extra.req_of reqs name (wfe_partition p)) (wfe_message_set p) =
  from_slice cz depth false (C04Extra.req_of reqs name (wfe_partition p)) (wfe_message_set p').
Definition topic_alike cz depth (reqs : fetch_tps) (t t' : w_topic w_fetch_part) : Prop :=
  wt_name t = wt_name t' /\
  Forall2 (part_alike cz depth reqs (wt_name t)) (view_list (wt_partitions t)) (view_list (wt_partitions t')).

Lemma Forall2_imp {A B} (P Q : A -> B -> Prop) l l' :
  (forall x y, P x y -> Q x y) -> Forall2 P l l' -> Forall2 Q l l'.
Proof. intros H. induction 1; constructor; auto. Qed.

Lemma mapM_alike {A B} (f g : A -> res B) l l' :
  Forall2 (fun x y => f x = g y) l l' -> mapM f l = mapM g l'.
Proof. induction 1 as [|x y l l' Hxy _ IH]; [reflexivity|]. cbn [mapM]. now rewrite Hxy, IH. Qed.

Theorem C16_crc_off_response_alike : forall cz depth reqs r r' rest rest',
  wf_fetch r -> wf_fetch r' -> wr_corr r = wr_corr r' ->
  Forall2 (topic_alike cz depth reqs) (view_list (wr_topics r)) (view_list (wr_topics r')) ->
  fetch_from_vec cz depth false reqs (print_fetch r ++ rest) =
  fetch_from_vec cz depth false reqs (print_fetch r' ++ rest').
Proof.
  intros cz depth reqs r r' rest rest' Hwf Hwf' Hc Hts.
  rewrite !C04_response_decode by assumption. unfold dec_fetch. rewrite Hc.
  rewrite (mapM_alike (dec_topic cz depth false reqs) (dec_topic cz depth false reqs)
             (view_list (wr_topics r)) (view_list (wr_topics r'))); [reflexivity|].
  eapply Forall2_imp; [|exact Hts]. intros t t' [Hn Hps]. unfold dec_topic. rewrite <- Hn.
  rewrite (mapM_alike (dec_part cz depth false reqs (wt_name t)) (dec_part cz depth false reqs (wt_name t))
             (view_list (wt_partitions t)) (view_list (wt_partitions t'))); [reflexivity|].
  eapply Forall2_imp; [|exact Hps]. intros p p' (H1 & H2 & H3 & H4). unfold dec_part.
  rewrite <- H1, <- H2, <- H3, H4. reflexivity.
Qed.

(* the damaged answer of the examples above and the same answer with the right checksum *)
Definition e_resp_good : w_topics_resp w_fetch_part :=
  {| wr_corr := 2;
     wr_topics := Some [ {| wt_name := Some (tag "t");
                            wt_partitions := Some [ {| wfe_partition := 0; wfe_error := 0; wfe_highwater := 15;
                                                       wfe_message_set := e_set_good COMPRESSION_SNAPPY |};
                                                    {| wfe_partition := 1; wfe_error := 0; wfe_highwater := 15;
                                                       wfe_message_set := e_set_good COMPRESSION_GZIP |} ] |} ] |}.

Example C16_crc_off_response_alike_ex :
  fetch_from_vec ex_cz decode_depth false xb_tps (print_fetch e_resp ++ []) =
  fetch_from_vec ex_cz decode_depth false xb_tps (print_fetch e_resp_good ++ []) /\
  fetch_from_vec ex_cz decode_depth true xb_tps (print_fetch e_resp ++ []) = corrupt /\
  fetch_from_vec ex_cz decode_depth true xb_tps (print_fetch e_resp_good ++ []) =
  fetch_from_vec ex_cz decode_depth false xb_tps (print_fetch e_resp_good ++ []).
Proof.
  split; [|split; [|vm_compute; reflexivity]].
  - apply C16_crc_off_response_alike; [exact e_resp_wf| |reflexivity|].
    + unfold wf_fetch, wf_topics_resp, e_resp_good, wf_array, wf_topic, wf_fetch_part, wf_string, wf_array,
        in_i16, in_i32, in_i64; cbn [wr_corr wr_topics wt_name wt_partitions wfe_partition wfe_error wfe_highwater
        wfe_message_set].
      repeat first [ split | apply Forall_cons | apply Forall_nil | reflexivity | exact I
                   | (vm_compute; discriminate) | (vm_compute; reflexivity) ].
    + cbn [e_resp e_resp_good wr_topics view_list]. constructor; [|constructor]. split; [reflexivity|].
      cbn [wt_partitions view_list]. constructor; [|constructor; [|constructor]].
      * split; [reflexivity|]. split; [reflexivity|]. split; [reflexivity|]. cbn [wfe_message_set wfe_partition].
        unfold e_set_bad, e_set_good, decode_depth, e_body. change MAX_COMPRESSION_DEPTH with (S 7).
        change (COMPRESSION_SNAPPY =? COMPRESSION_GZIP) with false. cbv iota.
        rewrite (entry_is_ser_message 13 COMPRESSION_SNAPPY None (Some e_xerial) []).
        apply (off_field_irrelevant ex_comp ex_cz 7 _ e_pre 13 _ COMPRESSION_SNAPPY None (Some e_xerial) []);
          [exact e_pre_wf|conc|conc|conc].
      * repeat split.
  - change decode_depth with (S 7). apply (C16_crc_on_damaged_answer_rejected ex_comp).
    rewrite app_nil_r. exact e_payload_damaged.
Qed.

(* ---------------------------------------------------------------------------------------- *)
(* Not done / not proved:
   - with the flag OFF the whole CALL (fetch_messages / poll) is shown to deliver the wrapped messages by example
     only (C16_crc_setter_then_fetch_ex, C16_crc_consumer_in_force_ex); the general statement is given at the
     decoder (C16_crc_envelope_gzip / _snappy, C16_crc_off_response_alike) and, for the call, as "never a Kafka
     error code".  "Same result as for the intact answer" for the call needs two scripts that differ in one read.
   - the gzip codec is an oracle of the model (`gz_decompress cz`); the statements are for every such oracle, the
     examples use the identity; the snappy examples run the model's own decoder.
   - entries BEHIND an envelope in the same set are never looked at by the decoder (C04Extra.C04_behind_wrapper_
     refuted); `damaged_set` therefore asks for plain entries only IN FRONT of the damaged one.
   - the other clauses of C16 ("retry attempts", "retry byte limit" in behaviour) are the subject of C14 and C17;
     nothing is added here. *)

Print Assumptions C16_crc_flag_decides.
Print Assumptions C16_crc_rejects_iff.
Print Assumptions C16_crc_on_damaged_set_rejected.
Print Assumptions C16_crc_envelope_gzip.
Print Assumptions C16_crc_envelope_snappy.
Print Assumptions C16_crc_on_damaged_answer_rejected.
Print Assumptions C16_crc_on_damaged_response_never_delivered.
Print Assumptions C16_crc_fetch_messages_in_force.
Print Assumptions C16_crc_corrupt_only_if_on.
Print Assumptions C16_crc_setter_then_fetch.
Print Assumptions C16_crc_builder_value.
Print Assumptions C16_crc_consumer_in_force.
Print Assumptions C16_crc_setter_then_consumer.
Print Assumptions C16_crc_off_response_alike.
