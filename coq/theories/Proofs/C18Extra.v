(* C18 extra: theorems for the clauses of C18 that Props/C18.v leaves uncovered.

   Props/C18.v relates two NUMBERS (view_level, owner_level) that are computed by re-running the
   decoder's control flow; nothing ties the messages `from_slice` really returns to the buffer of
   that level.  A change of `from_slice` that exposes a message of another level (seeded change
   C18: "keep the plain messages that precede a compressed one") therefore leaves every theorem
   of Props/C18.v provable.  Part A closes that gap:

   A. C18_view_buffer_level            `view_buffer` (level AND content of the buffer the exposed
                                       messages point into) follows the model's `view_level`
      C18_views_in_owned_buffer        ALL inputs: every message returned by `from_slice` is an
                                       uncompressed entry read at a definite position of THE ONE
                                       buffer the returned set owns (the input itself at level 0)
      C18_views_subslices_of_owned_buffer   hence key and value are sub-slices of that buffer
      C18_depth1_is_whole_result       the result is what a decoder WITHOUT decompressors reads
                                       from that buffer: nothing of another level is mixed in
      C18_seed1_mutant_caught          the seeded change, mirrored, falsifies the statement
   B. C18_fetch_result_in_response     Response::from_vec: every topic name is a sub-slice of the
                                       response bytes, every partition's message set bytes are a
                                       sub-slice of the response bytes (any number of topics /
                                       partitions)
      C18_fetch_views_owned            all clauses together for a fetch result
   C. C18_poll_keeps_responses         Consumer::process_fetch_responses hands out the per-broker
                                       responses themselves, unchanged, one per broker reply
      C18_fetch_exchange_one_response_per_broker / C18_fetch_messages_one_response_per_broker /
      C18_poll_result_owned            KafkaClient::fetch_messages, Consumer::poll: the result is
                                       one WHOLE parsed response per broker request, each parsed
                                       (Response::from_vec) from that broker's reply bytes *)
From KV Require Import Base.Prelude Base.Crc32 Base.Snappy Gen.Consts
                       Model.Codecs Model.Requests Model.Responses Model.Ownership
                       Spec.MsgSetSpec Proofs.BytesFacts Proofs.C02Lemmas Proofs.C02Facts Proofs.C18Facts.
From Coq Require Import ZifyBool.

(* ====================================================================== *)
(* A. the messages really returned live in the buffer the result owns      *)
(* ====================================================================== *)

Definition subslice (x buf : bytes) : Prop := exists pre post, buf = pre ++ x ++ post.

(* m is the uncompressed entry the reader finds at some position of buf: offset, key and value
   are what `next_message` reads there (so key and value are slices of buf, C18_views_layout) *)
Definition entry_at (dbg validate : bool) (buf : bytes) (m : message) : Prop :=
  exists pre suf attr r,
    buf = pre ++ suf /\
    next_message dbg validate suf = Ok (m_offset m, (attr, m_key m, m_value m), r) /\
    Z.land attr 7 = COMPRESSION_NONE.

(* level AND content of the buffer the exposed messages point into: same control flow as
   Ownership.level_loop / view_level; `whole` is the buffer being walked *)
Fixpoint buffer_loop (inner : Z -> bytes -> res (nat * bytes)) (dbg validate : bool) (fuel : nat)
         (whole bs : bytes) : res (nat * bytes) :=
  match bs with
  | [] => Ok (O, whole)
  | _ =>
    match fuel with
    | O => Err EOutOfFuel
    | S f =>
      match next_message dbg validate bs with
      | Err EUnexpectedEOF => Ok (O, whole)
      | Err e => Err e
      | Panic w => Panic w
      | Ok (off, (attr, k, v), r) =>
          let c := Z.land attr 7 in
          if c =? COMPRESSION_NONE then buffer_loop inner dbg validate f whole r
          else if (c =? COMPRESSION_GZIP) || (c =? COMPRESSION_SNAPPY) then inner c v
          else Err EUnsupportedCompression
      end
    end
  end.

Definition deeper (r : res (nat * bytes)) : res (nat * bytes) :=
  let* lb := r in Ok (S (fst lb), snd lb).

Definition buffer_inner_of (rec : bytes -> res (nat * bytes)) (cz : codecs) : Z -> bytes -> res (nat * bytes) :=
  fun c v =>
    if c =? COMPRESSION_GZIP then
      match gz_decompress cz v with
      | Some data => deeper (rec data)
      | None => Err (EIo IoOther)
      end
    else if alloc_limit <=? xerial_max_alloc v then alloc_panic
    else
      let* data := xerial_read_to_end v in deeper (rec data).

Fixpoint view_buffer (cz : codecs) (depth : nat) (validate : bool) (bs : bytes) : res (nat * bytes) :=
  match depth with
  | O => Err EUnsupportedCompression
  | S d => buffer_loop (buffer_inner_of (view_buffer cz d validate) cz)
                       (debug_build cz) validate (S (length bs)) bs bs
  end.

Lemma view_buffer_S cz d validate bs :
  view_buffer cz (S d) validate bs
  = buffer_loop (buffer_inner_of (view_buffer cz d validate) cz) (debug_build cz) validate (S (length bs)) bs bs.
Proof. reflexivity. Qed.

(* ---- view_buffer is tied to the model's view_level ----------------------- *)

Lemma level_of_buffer_loop innerL innerB dbg validate whole :
  (forall c v, innerL c v = let* lb := innerB c v in Ok (fst lb)) ->
  forall fuel bs,
    level_loop innerL dbg validate fuel bs
    = let* lb := buffer_loop innerB dbg validate fuel whole bs in Ok (fst lb).
Proof.
  intros Hin. induction fuel as [|f IH]; intros bs.
  - destruct bs; reflexivity.
  - destruct bs as [|b bs]; [reflexivity|].
    cbn [level_loop buffer_loop].
    destruct (next_message dbg validate (b :: bs)) as [[[off [[attr k] v]] r]|e|w].
    + destruct (Z.land attr 7 =? COMPRESSION_NONE); [apply IH|].
      destruct ((Z.land attr 7 =? COMPRESSION_GZIP) || (Z.land attr 7 =? COMPRESSION_SNAPPY));
        [apply Hin|reflexivity].
    + destruct e; reflexivity.
    + reflexivity.
Qed.

Theorem C18_view_buffer_level : forall cz depth validate bs,
  view_level cz depth validate bs
  = (let* lb := view_buffer cz depth validate bs in Ok (fst lb)).
Proof.
  intros cz depth validate. induction depth as [|d IH]; intros bs; [reflexivity|].
  rewrite view_level_S, view_buffer_S. apply level_of_buffer_loop.
  intros c v. unfold level_inner_of, buffer_inner_of, deeper.
  destruct (c =? COMPRESSION_GZIP).
  - destruct (gz_decompress cz v) as [data|]; [|reflexivity].
    rewrite IH. destruct (view_buffer cz d validate data) as [[l b]|e|w]; reflexivity.
  - destruct (alloc_limit <=? xerial_max_alloc v); [reflexivity|].
    destruct (xerial_read_to_end v) as [data|e|w]; cbn [bind]; [|reflexivity|reflexivity].
    rewrite IH. destruct (view_buffer cz d validate data) as [[l b]|e|w]; reflexivity.
Qed.

(* ---- the loop: what is returned lies in the returned buffer ----------------- *)

Lemma ms_loop_in_buffer innerM innerB dbg validate req :
  (forall c v ms, innerM c v = Ok ms ->
     exists l buf, innerB c v = Ok (S l, buf) /\ Forall (entry_at dbg validate buf) ms) ->
  forall fuel whole pre bs acc ms,
    whole = pre ++ bs -> Forall (entry_at dbg validate whole) acc ->
    ms_loop innerM dbg validate req fuel bs acc = Ok ms ->
    exists l buf, buffer_loop innerB dbg validate fuel whole bs = Ok (l, buf)
                  /\ (l = O -> buf = whole)
                  /\ Forall (entry_at dbg validate buf) ms.
Proof.
  intros Hin. induction fuel as [|f IH]; intros whole pre bs acc ms Hw Hacc H.
  - destruct bs as [|b bs]; [|discriminate H].
    cbn [ms_loop] in H. inversion H; subst ms. exists O, whole.
    split; [reflexivity|]. split; [reflexivity|]. apply Forall_rev. exact Hacc.
  - destruct bs as [|b bs].
    { cbn [ms_loop] in H. inversion H; subst ms. exists O, whole.
      split; [reflexivity|]. split; [reflexivity|]. apply Forall_rev. exact Hacc. }
    cbn [ms_loop buffer_loop] in *.
    destruct (next_message dbg validate (b :: bs)) as [[[off [[attr k] v]] r]|e|w] eqn:En.
    + destruct (Z.land attr 7 =? COMPRESSION_NONE) eqn:Ec.
      * destruct (C18_rest_is_suffix _ _ _ _ _ _ En) as [used [Hu _]].
        eapply (IH whole (pre ++ used) r); [rewrite <- app_assoc, <- Hu; exact Hw| |exact H].
        assert (Hm : entry_at dbg validate whole {| m_offset := off; m_key := k; m_value := v |}).
        { exists pre, (b :: bs), attr, r. cbn [m_offset m_key m_value].
          split; [exact Hw|]. split; [exact En|]. lia. }
        destruct (req <=? off); [constructor; assumption|assumption].
      * destruct ((Z.land attr 7 =? COMPRESSION_GZIP) || (Z.land attr 7 =? COMPRESSION_SNAPPY));
          [|discriminate H].
        destruct (Hin _ _ _ H) as [l [buf [H1 H2]]]. exists (S l), buf.
        split; [exact H1|]. split; [discriminate|exact H2].
    + destruct e; try discriminate H.
      inversion H; subst ms. exists O, whole.
      split; [reflexivity|]. split; [reflexivity|]. apply Forall_rev. exact Hacc.
    + discriminate H.
Qed.

Lemma from_slice_in_buffer cz validate req : forall depth bs ms,
  from_slice cz depth validate req bs = Ok ms ->
  exists l buf, view_buffer cz depth validate bs = Ok (l, buf)
                /\ (l = O -> buf = bs)
                /\ Forall (entry_at (debug_build cz) validate buf) ms.
Proof.
  induction depth as [|d IH]; intros bs ms H; [discriminate H|].
  rewrite from_slice_S in H. rewrite view_buffer_S.
  apply (ms_loop_in_buffer (inner_of cz d validate req) _ _ _ req) with (pre := []) (acc := []);
    [|reflexivity|constructor|exact H].
  intros c v ms' Hi. unfold inner_of in Hi. unfold buffer_inner_of, deeper.
  destruct (c =? COMPRESSION_GZIP).
  - destruct (gz_decompress cz v) as [data|]; [|discriminate Hi].
    destruct (IH _ _ Hi) as [l [buf [H1 [_ H3]]]]. rewrite H1. exists l, buf. split; [reflexivity|exact H3].
  - destruct (alloc_limit <=? xerial_max_alloc v); [discriminate Hi|].
    destruct (xerial_read_to_end v) as [data|e|w]; cbn [bind] in *; try discriminate Hi.
    destruct (IH _ _ Hi) as [l [buf [H1 [_ H3]]]]. rewrite H1. exists l, buf. split; [reflexivity|exact H3].
Qed.

(* MAIN (seeded change C18).  ALL inputs (any bytes, any depth bound, both build modes, CRC
   validation on or off, any requested offset): whenever decoding succeeds there is ONE buffer -
   the input itself (level 0, owned by Response::raw_data) or the decompressed vector of level
   l > 0 that the returned set owns (`owner_level = Some l`) - such that EVERY returned message
   is an uncompressed entry read at a position of that buffer. *)
Theorem C18_views_in_owned_buffer : forall cz depth validate req bs ms,
  from_slice cz depth validate req bs = Ok ms ->
  exists l buf,
    view_buffer cz depth validate bs = Ok (l, buf)
    /\ view_level cz depth validate bs = Ok l
    /\ owner_level cz depth validate bs = Ok (if Nat.eqb l 0 then None else Some l)
    /\ (l = O -> buf = bs)
    /\ Forall (entry_at (debug_build cz) validate buf) ms.
Proof.
  intros cz depth validate req bs ms H.
  destruct (from_slice_in_buffer cz validate req depth bs ms H) as [l [buf [H1 [H2 H3]]]].
  assert (HL : view_level cz depth validate bs = Ok l).
  { rewrite C18_view_buffer_level, H1. reflexivity. }
  exists l, buf. split; [exact H1|]. split; [exact HL|].
  split; [rewrite C18_owner_is_view_level, HL; reflexivity|]. split; assumption.
Qed.

Lemma entry_at_subslices dbg validate buf m :
  entry_at dbg validate buf m -> subslice (m_key m) buf /\ subslice (m_value m) buf.
Proof.
  intros [pre [suf [attr [r [Hb [Hn _]]]]]].
  apply C18_views_layout in Hn. destruct Hn as [p1 [p2 [p3 [E _]]]]. subst suf. split.
  - exists (pre ++ p1), (p2 ++ m_value m ++ p3 ++ r). rewrite Hb, <- !app_assoc. reflexivity.
  - exists (pre ++ p1 ++ m_key m ++ p2), (p3 ++ r). rewrite Hb, <- !app_assoc. reflexivity.
Qed.

(* the same in terms of bytes: key and value of every returned message are sub-slices (in bounds,
   byte-identical) of the one buffer the result owns *)
Theorem C18_views_subslices_of_owned_buffer : forall cz depth validate req bs ms,
  from_slice cz depth validate req bs = Ok ms ->
  exists l buf,
    view_buffer cz depth validate bs = Ok (l, buf)
    /\ owner_level cz depth validate bs = Ok (if Nat.eqb l 0 then None else Some l)
    /\ (l = O -> buf = bs)
    /\ Forall (fun m => subslice (m_key m) buf /\ subslice (m_value m) buf) ms.
Proof.
  intros cz depth validate req bs ms H.
  destruct (C18_views_in_owned_buffer _ _ _ _ _ _ H) as [l [buf [H1 [_ [H3 [H4 H5]]]]]].
  exists l, buf. split; [exact H1|]. split; [exact H3|]. split; [exact H4|].
  eapply Forall_impl; [|exact H5]. intros m. apply entry_at_subslices.
Qed.

(* ---- exactness: the result is the plain decoding of the owned buffer ------------ *)

Lemma ms_loop_plain_of_buffer innerM innerM' innerB dbg validate req (Q : bytes -> list message -> Prop) :
  (forall c v ms, innerM c v = Ok ms -> exists l buf, innerB c v = Ok (S l, buf) /\ Q buf ms) ->
  forall fuel whole bs acc ms,
    ms_loop innerM dbg validate req fuel bs acc = Ok ms ->
    exists l buf, buffer_loop innerB dbg validate fuel whole bs = Ok (l, buf) /\
      ((l = O /\ buf = whole /\ ms_loop innerM' dbg validate req fuel bs acc = Ok ms)
       \/ (exists l', l = S l' /\ Q buf ms)).
Proof.
  intros Hin. induction fuel as [|f IH]; intros whole bs acc ms H.
  - destruct bs as [|b bs]; [|discriminate H].
    exists O, whole. split; [reflexivity|]. left. auto.
  - destruct bs as [|b bs].
    { exists O, whole. split; [reflexivity|]. left. auto. }
    cbn [ms_loop buffer_loop] in *.
    destruct (next_message dbg validate (b :: bs)) as [[[off [[attr k] v]] r]|e|w] eqn:En.
    + destruct (Z.land attr 7 =? COMPRESSION_NONE) eqn:Ec.
      * apply IH. exact H.
      * destruct ((Z.land attr 7 =? COMPRESSION_GZIP) || (Z.land attr 7 =? COMPRESSION_SNAPPY));
          [|discriminate H].
        destruct (Hin _ _ _ H) as [l [buf [H1 H2]]]. exists (S l), buf.
        split; [exact H1|]. right. eauto.
    + destruct e; try discriminate H.
      exists O, whole. split; [reflexivity|]. left. auto.
    + discriminate H.
Qed.

(* ALL inputs: what `from_slice` returns is EXACTLY what a decoder without any decompressor
   (depth 1) reads from the one buffer the result owns - all of that buffer's uncompressed
   entries at or above the requested offset, in order, and nothing from any other buffer. *)
Theorem C18_result_is_plain_decoding_of_owned_buffer : forall cz depth validate req bs ms,
  from_slice cz depth validate req bs = Ok ms ->
  exists l buf,
    view_buffer cz depth validate bs = Ok (l, buf)
    /\ owner_level cz depth validate bs = Ok (if Nat.eqb l 0 then None else Some l)
    /\ from_slice cz 1 validate req buf = Ok ms.
Proof.
  intros cz depth validate req.
  assert (A : forall d0 bs ms, from_slice cz d0 validate req bs = Ok ms ->
            exists l buf, view_buffer cz d0 validate bs = Ok (l, buf)
                          /\ from_slice cz 1 validate req buf = Ok ms).
  { induction d0 as [|d IH]; intros bs ms H; [discriminate H|].
    rewrite from_slice_S in H. rewrite view_buffer_S.
    destruct (ms_loop_plain_of_buffer (inner_of cz d validate req) (inner_of cz 0 validate req)
                (buffer_inner_of (view_buffer cz d validate) cz) (debug_build cz) validate req
                (fun buf ms => from_slice cz 1 validate req buf = Ok ms)) with
        (fuel := S (length bs)) (whole := bs) (bs := bs) (acc := @nil message) (ms := ms)
      as [l [buf [H1 H2]]]; [|exact H|].
    - intros c v ms' Hi. unfold inner_of in Hi. unfold buffer_inner_of, deeper.
      destruct (c =? COMPRESSION_GZIP).
      + destruct (gz_decompress cz v) as [data|]; [|discriminate Hi].
        destruct (IH _ _ Hi) as [l [buf [H1 H2]]]. rewrite H1. exists l, buf. split; [reflexivity|exact H2].
      + destruct (alloc_limit <=? xerial_max_alloc v); [discriminate Hi|].
        destruct (xerial_read_to_end v) as [data|e|w]; cbn [bind] in *; try discriminate Hi.
        destruct (IH _ _ Hi) as [l [buf [H1 H2]]]. rewrite H1. exists l, buf. split; [reflexivity|exact H2].
    - exists l, buf. split; [exact H1|].
      destruct H2 as [[_ [-> H2]]|[l' [_ H2]]]; [rewrite from_slice_S; exact H2|exact H2]. }
  intros bs ms H. destruct (A depth bs ms H) as [l [buf [H1 H2]]].
  exists l, buf. split; [exact H1|]. split; [|exact H2].
  rewrite C18_owner_is_view_level, C18_view_buffer_level, H1. reflexivity.
Qed.

(* ---- examples / the seeded change mirrored -------------------------------- *)

(* gzip[ plain(1, "z1", "v1"), gzip[ plain(2, -, "b") ] ]: nested compression with a leading plain
   message in the MIDDLE layer (the layout seeded change C18 needs) *)
Definition es_mid : list entry :=
  [Wrapper 1 5 [Plain 1 (Some [x7a; x31]) (Some [x76; x31]); Wrapper 1 6 [Plain 2 None (Some [x62])]]].

Example es_mid_wf : wf_entries wcomp es_mid. Proof. wf_tac. Qed.

(* non-vacuity of C18_views_in_owned_buffer: plain -> the input itself; one batch -> the
   decompressed set; nested -> the innermost vector; middle-layer layout -> only the innermost
   message is returned and the buffer is the innermost vector (level 2, owned) *)
Example C18_views_in_owned_buffer_ex :
  (view_buffer (wcz true) 3 true (ser wcomp es3) = Ok (0%nat, ser wcomp es3) /\
   from_slice (wcz true) 3 true 1 (ser wcomp es3) = Ok [m1; m2]) /\
  (view_buffer (wcz true) 3 true (ser wcomp es_gz) = Ok (1%nat, ser wcomp es3) /\
   from_slice (wcz true) 3 true 1 (ser wcomp es_gz) = Ok [m1; m2]) /\
  (view_buffer (wcz false) 3 false (ser wcomp es_nest) = Ok (2%nat, ser wcomp es3) /\
   from_slice (wcz false) 3 false 1 (ser wcomp es_nest) = Ok [m1; m2]) /\
  (view_buffer (wcz true) 3 true (ser wcomp es_mid) = Ok (2%nat, ser wcomp [Plain 2 None (Some [x62])]) /\
   owner_level (wcz true) 3 true (ser wcomp es_mid) = Ok (Some 2%nat) /\
   from_slice (wcz true) 3 true 0 (ser wcomp es_mid) = Ok [{| m_offset := 2; m_key := []; m_value := [x62] |}]).
Proof. vm_compute. repeat split; reflexivity. Qed.

(* C18_result_is_plain_decoding_of_owned_buffer / C18_view_buffer_level on the same inputs *)
Example C18_result_is_plain_decoding_ex :
  from_slice (wcz true) 1 true 1 (ser wcomp es3) = Ok [m1; m2] /\
  from_slice (wcz true) 1 true 0 (ser wcomp [Plain 2 None (Some [x62])])
    = Ok [{| m_offset := 2; m_key := []; m_value := [x62] |}] /\
  map (fun bs => view_level (wcz true) 3 true bs) [ser wcomp es3; ser wcomp es_gz; ser wcomp es_mid]
    = [Ok 0%nat; Ok 1%nat; Ok 2%nat].
Proof. vm_compute. repeat split; reflexivity. Qed.

Example entry_at_ex :
  entry_at true true (ser wcomp es3) m1 /\ ~ subslice [x7a] (ser wcomp [Plain 2 None (Some [x62])]).
Proof.
  split.
  - exists (firstn 27 (ser wcomp es3)), (skipn 27 (ser wcomp es3)), 0, (skipn 56 (ser wcomp es3)).
    vm_compute. repeat split; reflexivity.
  - intros [pre [post H]].
    assert (Hin : In x7a (ser wcomp [Plain 2 None (Some [x62])])).
    { rewrite H. apply in_or_app. right. left. reflexivity. }
    vm_compute in Hin. repeat (destruct Hin as [Hin|Hin]; [discriminate Hin|]). exact Hin.
Qed.

(* The seeded change C18 mirrored in the model: `MessageSet::from_slice` puts the plain messages
   collected so far in front of the inflated ones (`.map(|ms| ms.preceded_by(msgs))`); from_vec,
   hence Ownership.owner_level / view_level, are untouched by the patch. *)
Fixpoint ms_loop_seed1 (inner : Z -> bytes -> res (list message))
         (dbg validate : bool) (req : Z) (fuel : nat) (bs : bytes) (acc : list message)
  : res (list message) :=
  match bs with
  | [] => Ok (rev acc)
  | _ =>
    match fuel with
    | O => Err EOutOfFuel
    | S f =>
      match next_message dbg validate bs with
      | Err EUnexpectedEOF => Ok (rev acc)
      | Err e => Err e
      | Panic w => Panic w
      | Ok (off, (attr, k, v), r) =>
          let c := Z.land attr 7 in
          if c =? COMPRESSION_NONE then
            ms_loop_seed1 inner dbg validate req f r
                    (if req <=? off then {| m_offset := off; m_key := k; m_value := v |} :: acc else acc)
          else if (c =? COMPRESSION_GZIP) || (c =? COMPRESSION_SNAPPY) then
            let* ms := inner c v in Ok (rev acc ++ ms)
          else Err EUnsupportedCompression
      end
    end
  end.

Fixpoint from_slice_seed1 (cz : codecs) (depth : nat) (validate : bool) (req : Z) (bs : bytes)
  : res (list message) :=
  match depth with
  | O => Err EUnsupportedCompression
  | S d =>
      ms_loop_seed1 (fun c v =>
                 if c =? COMPRESSION_GZIP then
                   match gz_decompress cz v with
                   | Some data => from_slice_seed1 cz d validate req data
                   | None => Err (EIo IoOther)
                   end
                 else if alloc_limit <=? xerial_max_alloc v then alloc_panic
                 else
                   let* data := xerial_read_to_end v in
                   from_slice_seed1 cz d validate req data)
              (debug_build cz) validate req (S (length bs)) bs []
  end.

(* With the seeded change, C18_views_in_owned_buffer / C18_views_subslices_of_owned_buffer are
   FALSE: on es_mid the changed decoder also returns message 1, whose key "z1" is not in the
   buffer of level 2 the result owns (it lies in the middle vector, which from_vec drops).  On
   every head chain (all that C18_chain_messages_and_level speaks about) the changed decoder
   agrees with the real one, so no theorem of Props/C18.v notices. *)
Example C18_seed1_mutant_caught :
  exists ms m buf,
    from_slice_seed1 (wcz true) 3 true 0 (ser wcomp es_mid) = Ok ms /\ In m ms /\
    view_buffer (wcz true) 3 true (ser wcomp es_mid) = Ok (2%nat, buf) /\
    owner_level (wcz true) 3 true (ser wcomp es_mid) = Ok (Some 2%nat) /\
    ~ subslice (m_key m) buf.
Proof.
  eexists. exists {| m_offset := 1; m_key := [x7a; x31]; m_value := [x76; x31] |}. eexists.
  split; [vm_compute; reflexivity|]. split; [left; reflexivity|].
  split; [vm_compute; reflexivity|]. split; [vm_compute; reflexivity|].
  intros [pre [post H]]. cbn [m_key] in H.
  match type of H with ?b = _ => assert (Hin : In x7a b) end.
  { rewrite H. apply in_or_app. right. left. reflexivity. }
  vm_compute in Hin. repeat (destruct Hin as [Hin|Hin]; [discriminate Hin|]). exact Hin.
Qed.

Example C18_seed1_mutant_agrees_on_chains :
  from_slice_seed1 (wcz true) 3 true 0 (ser wcomp es_nest) = from_slice (wcz true) 3 true 0 (ser wcomp es_nest) /\
  from_slice_seed1 (wcz true) 3 true 0 (ser wcomp es_gz) = from_slice (wcz true) 3 true 0 (ser wcomp es_gz) /\
  from_slice_seed1 (wcz true) 3 true 0 (ser wcomp es3) = from_slice (wcz true) 3 true 0 (ser wcomp es3).
Proof. vm_compute. repeat split; reflexivity. Qed.

(* ====================================================================== *)
(* B. Response::from_vec: topic names and message set bytes lie in the      *)
(*    response buffer (any number of topics and partitions)                 *)
(* ====================================================================== *)

Lemma subslice_refl x : subslice x x.
Proof. exists [], []. rewrite app_nil_r. reflexivity. Qed.

Lemma subslice_nil buf : subslice [] buf.
Proof. exists [], buf. reflexivity. Qed.

Lemma subslice_widen x used pre post : subslice x used -> subslice x (pre ++ used ++ post).
Proof.
  intros [a [b ->]]. exists (pre ++ a), (b ++ post). rewrite <- !app_assoc. reflexivity.
Qed.

Lemma subslice_trans x y z : subslice x y -> subslice y z -> subslice x z.
Proof. intros H [a [b ->]]. apply subslice_widen. exact H. Qed.

(* what a partition exposes: when it carries data, its messages were decoded from a byte range
   `raw` of `used` (the value of the MessageSetSize-prefixed field), with some requested offset *)
Definition part_within (cz : codecs) (depth : nat) (validate : bool) (used : bytes) (p : fetch_part) : Prop :=
  forall hw msgs, fp_data p = inl (hw, msgs) ->
    exists raw req, subslice raw used /\ from_slice cz depth validate req raw = Ok msgs.

Definition topic_within (cz : codecs) (depth : nat) (validate : bool) (used : bytes) (t : fetch_topic) : Prop :=
  subslice (ft_topic t) used /\ Forall (part_within cz depth validate used) (ft_partitions t).

Lemma part_within_widen cz depth validate used pre post p :
  part_within cz depth validate used p -> part_within cz depth validate (pre ++ used ++ post) p.
Proof.
  intros H hw msgs E. destruct (H hw msgs E) as [raw [req [H1 H2]]].
  exists raw, req. split; [apply subslice_widen; exact H1|exact H2].
Qed.

Lemma topic_within_widen cz depth validate used pre post t :
  topic_within cz depth validate used t -> topic_within cz depth validate (pre ++ used ++ post) t.
Proof.
  intros [H1 H2]. split; [apply subslice_widen; exact H1|].
  eapply Forall_impl; [|exact H2]. intros p. apply part_within_widen.
Qed.

(* array_of!: the elements are read one behind the other from the same buffer *)
Lemma zread_many_within {A} (d : bytes -> res (A * bytes)) (P : bytes -> A -> Prop) :
  (forall used pre post x, P used x -> P (pre ++ used ++ post) x) ->
  (forall bs x r, d bs = Ok (x, r) -> exists used, bs = used ++ r /\ P used x) ->
  forall fuel count bs xs r,
    zread_many d fuel count bs = Ok (xs, r) ->
    exists used, bs = used ++ r /\ Forall (P used) xs.
Proof.
  intros Hw Hd. induction fuel as [|f IH]; intros count bs xs r H.
  - cbn [zread_many] in H. destruct (count <=? 0); [|discriminate H].
    inversion H; subst. exists []. split; [reflexivity|constructor].
  - cbn [zread_many] in H. destruct (count <=? 0).
    { inversion H; subst. exists []. split; [reflexivity|constructor]. }
    destruct (d bs) as [[x r1]|e|w] eqn:E; cbn [bind] in H; try discriminate H.
    destruct (zread_many d f (count - 1) r1) as [[xs' r2]|e|w] eqn:E2; cbn [bind] in H; try discriminate H.
    inversion H; subst. clear H.
    destruct (Hd _ _ _ E) as [u1 [-> P1]]. destruct (IH _ _ _ _ E2) as [u2 [-> P2]].
    exists (u1 ++ u2). split; [rewrite app_assoc; reflexivity|]. constructor.
    + apply (Hw u1 [] u2) in P1. exact P1.
    + eapply Forall_impl; [|exact P2]. intros y Hy.
      apply (Hw u2 u1 []) in Hy. rewrite app_nil_r in Hy. exact Hy.
Qed.

Lemma zread_array_within {A} (sz : Z) (d : bytes -> res (A * bytes)) (P : bytes -> A -> Prop) :
  (forall used pre post x, P used x -> P (pre ++ used ++ post) x) ->
  (forall bs x r, d bs = Ok (x, r) -> exists used, bs = used ++ r /\ P used x) ->
  forall bs xs r,
    zread_array sz d bs = Ok (xs, r) ->
    exists used, bs = used ++ r /\ Forall (P used) xs.
Proof.
  intros Hw Hd bs xs r H. unfold zread_array in H.
  destruct (zread_array_len bs) as [[n r1]|e|w] eqn:E; cbn [bind] in H; try discriminate H.
  unfold zread_array_len in E.
  destruct (zread_i32 bs) as [[len r0]|e|w] eqn:E0; cbn [bind] in E; try discriminate E.
  inversion E; subst n r1. clear E.
  unfold zread_i32 in E0. apply zread_int_inv in E0. destruct E0 as [h [_ ->]].
  destruct (zread_many_within d P Hw Hd _ _ _ _ _ H) as [u [-> HP]].
  exists (h ++ u). split; [rewrite app_assoc; reflexivity|].
  eapply Forall_impl; [|exact HP]. intros y Hy.
  apply (Hw u h []) in Hy. rewrite app_nil_r in Hy. exact Hy.
Qed.

Lemma zread_str_inv bs s r : zread_str bs = Ok (s, r) -> exists h, bs = h ++ s ++ r.
Proof.
  intros H. unfold zread_str in H.
  destruct (zread_i16 bs) as [[len r1]|e|w] eqn:E; cbn [bind] in H; try discriminate H.
  unfold zread_i16 in E. apply zread_int_inv in E. destruct E as [h [_ ->]]. exists h.
  destruct (len <=? 0).
  - inversion H; subst. reflexivity.
  - destruct (zread (Z.to_nat len) r1) as [[s' r2]|e|w] eqn:E2; cbn [bind] in H; try discriminate H.
    destruct (Utf8.utf8_valid s'); [|discriminate H]. inversion H; subst.
    apply C18_zread_exact in E2. destruct E2 as [_ ->]. reflexivity.
Qed.

Lemma read_partition_within cz depth validate preqs bs p r :
  read_partition cz depth validate preqs bs = Ok (p, r) ->
  exists used, bs = used ++ r /\ part_within cz depth validate used p.
Proof.
  intros H. unfold read_partition in H.
  destruct (zread_i32 bs) as [[pid r1]|e|w] eqn:E1; cbn [bind] in H; try discriminate H.
  destruct (zread_i16 r1) as [[ec r2]|e|w] eqn:E2; cbn [bind] in H; try discriminate H.
  destruct (zread_i64 r2) as [[hw r3]|e|w] eqn:E3; cbn [bind] in H; try discriminate H.
  destruct (zread_bytes r3) as [[raw r4]|e|w] eqn:E4; cbn [bind] in H; try discriminate H.
  match type of H with (let* msgs := from_slice cz depth validate ?q raw in _) = _ =>
    set (req := q) in *; destruct (from_slice cz depth validate req raw) as [msgs|e|w] eqn:E5 end;
    cbn [bind] in H; try discriminate H.
  inversion H; subst p r4. clear H.
  unfold zread_i32 in E1. apply zread_int_inv in E1. destruct E1 as [h1 [_ ->]].
  unfold zread_i16 in E2. apply zread_int_inv in E2. destruct E2 as [h2 [_ ->]].
  unfold zread_i64 in E3. apply zread_int_inv in E3. destruct E3 as [h3 [_ ->]].
  apply zread_bytes_inv in E4. destruct E4 as [h4 [_ ->]].
  exists (h1 ++ h2 ++ h3 ++ h4 ++ raw). split; [rewrite <- !app_assoc; reflexivity|].
  intros hw' msgs' Ed. cbn [fp_data] in Ed.
  destruct (from_protocol ec); [discriminate Ed|]. inversion Ed; subst hw' msgs'.
  exists raw, req. split; [|exact E5].
  exists (h1 ++ h2 ++ h3 ++ h4), []. rewrite app_nil_r, <- !app_assoc. reflexivity.
Qed.

Lemma read_topic_within cz depth validate reqs bs t r :
  read_topic cz depth validate reqs bs = Ok (t, r) ->
  exists used, bs = used ++ r /\ topic_within cz depth validate used t.
Proof.
  intros H. unfold read_topic in H.
  destruct (zread_str bs) as [[name r1]|e|w] eqn:E1; cbn [bind] in H; try discriminate H.
  destruct (zread_array 64 (read_partition cz depth validate (assoc_bytes name reqs)) r1)
    as [[ps r2]|e|w] eqn:E2; cbn [bind] in H; try discriminate H.
  inversion H; subst t r2. clear H.
  apply zread_str_inv in E1. destruct E1 as [h ->].
  apply (zread_array_within 64 _ (part_within cz depth validate)) in E2.
  2:{ intros used pre post x. apply part_within_widen. }
  2:{ intros bs' x r'. apply read_partition_within. }
  destruct E2 as [u [-> HP]].
  exists (h ++ name ++ u). split; [rewrite <- !app_assoc; reflexivity|]. split; cbn [ft_topic ft_partitions].
  - exists h, u. reflexivity.
  - eapply Forall_impl; [|exact HP]. intros p Hp.
    apply (part_within_widen _ _ _ u (h ++ name) []) in Hp.
    rewrite app_nil_r, <- app_assoc in Hp. exact Hp.
Qed.

(* Response::from_vec, ALL inputs: every topic name of the result is a sub-slice of the response
   bytes (byte-identical, in bounds), and the messages of every partition that carries data
   were decoded from a byte range of the response bytes.  Any number of topics and partitions. *)
Theorem C18_fetch_result_in_response : forall cz depth validate reqs bs resp,
  fetch_from_vec cz depth validate reqs bs = Ok resp ->
  Forall (topic_within cz depth validate bs) (fr_topics resp).
Proof.
  intros cz depth validate reqs bs resp H. unfold fetch_from_vec in H.
  destruct (zread_i32 bs) as [[c r1]|e|w] eqn:E1; cbn [bind] in H; try discriminate H.
  destruct (zread_array 40 (read_topic cz depth validate reqs) r1) as [[ts r2]|e|w] eqn:E2;
    cbn [bind] in H; try discriminate H.
  inversion H; subst resp. clear H. cbn [fr_topics].
  unfold zread_i32 in E1. apply zread_int_inv in E1. destruct E1 as [h [_ ->]].
  apply (zread_array_within 40 _ (topic_within cz depth validate)) in E2.
  2:{ intros used pre post x. apply topic_within_widen. }
  2:{ intros bs' x r'. apply read_topic_within. }
  destruct E2 as [u [-> HP]].
  eapply Forall_impl; [|exact HP]. intros t Ht. apply (topic_within_widen _ _ _ u h r2). exact Ht.
Qed.

(* All clauses for a fetch result, ALL inputs: for every topic and every partition with data of
   the result, the topic name is a slice of the response bytes, and there is ONE buffer - a byte
   range of the response bytes (level 0), or the decompressed vector that partition's MessageSet
   owns (level l > 0, `owner_level = Some l`) - such that every message of the partition is an
   uncompressed entry at a position of that buffer (so its key and value are slices of it). *)
Theorem C18_fetch_views_owned : forall cz depth validate reqs bs resp t p hw msgs,
  fetch_from_vec cz depth validate reqs bs = Ok resp ->
  In t (fr_topics resp) -> In p (ft_partitions t) -> fp_data p = inl (hw, msgs) ->
  subslice (ft_topic t) bs /\
  exists raw l buf,
    subslice raw bs
    /\ view_buffer cz depth validate raw = Ok (l, buf)
    /\ owner_level cz depth validate raw = Ok (if Nat.eqb l 0 then None else Some l)
    /\ (l = O -> buf = raw)
    /\ Forall (entry_at (debug_build cz) validate buf) msgs
    /\ Forall (fun m => subslice (m_key m) buf /\ subslice (m_value m) buf) msgs.
Proof.
  intros cz depth validate reqs bs resp t p hw msgs H Ht Hp Hd.
  apply C18_fetch_result_in_response in H. rewrite Forall_forall in H.
  destruct (H t Ht) as [H1 H2]. split; [exact H1|].
  rewrite Forall_forall in H2. destruct (H2 p Hp hw msgs Hd) as [raw [req [Hr Hs]]].
  destruct (C18_views_in_owned_buffer _ _ _ _ _ _ Hs) as [l [buf [V1 [_ [V3 [V4 V5]]]]]].
  exists raw, l, buf. repeat split; try assumption.
  eapply Forall_impl; [|exact V5]. intros m. apply entry_at_subslices.
Qed.

(* at level 0 the views are slices of the response bytes themselves *)
Corollary C18_fetch_plain_views_in_response : forall cz depth validate reqs bs resp t p hw msgs m,
  fetch_from_vec cz depth validate reqs bs = Ok resp ->
  In t (fr_topics resp) -> In p (ft_partitions t) -> fp_data p = inl (hw, msgs) -> In m msgs ->
  (exists raw, subslice raw bs /\ view_level cz depth validate raw = Ok O /\
               subslice (m_key m) raw /\ subslice (m_value m) raw) \/
  (exists raw l buf, subslice raw bs /\ view_buffer cz depth validate raw = Ok (S l, buf) /\
               owner_level cz depth validate raw = Ok (Some (S l)) /\
               subslice (m_key m) buf /\ subslice (m_value m) buf).
Proof.
  intros cz depth validate reqs bs resp t p hw msgs m H Ht Hp Hd Hm.
  destruct (C18_fetch_views_owned _ _ _ _ _ _ _ _ _ _ H Ht Hp Hd) as [_ [raw [l [buf [R1 [R2 [R3 [R4 [_ R6]]]]]]]]].
  rewrite Forall_forall in R6. specialize (R6 m Hm).
  destruct l as [|l].
  - left. exists raw. rewrite (R4 eq_refl) in *. split; [exact R1|].
    split; [rewrite C18_view_buffer_level, R2; reflexivity|exact R6].
  - right. exists raw, l, buf. cbn [Nat.eqb] in R3. auto.
Qed.

(* non-vacuity of part B: two topics, three partitions (plain / one batch / the middle-layer
   layout) *)
Definition ex_part (p : Z) (set : bytes) : bytes :=
  enc_i32 p ++ enc_i16 0 ++ enc_i64 10 ++ enc_i32 (blen set) ++ set.
Definition ex_topic (name : bytes) (parts : list bytes) : bytes :=
  enc_i16 (blen name) ++ name ++ enc_i32 (Z.of_nat (length parts)) ++ concat parts.
Definition ex_fetch_bytes : bytes :=
  enc_i32 7 ++ enc_i32 2 ++
  ex_topic (tag "ta") [ex_part 0 (ser wcomp es3); ex_part 1 (ser wcomp es_gz)] ++
  ex_topic (tag "tb") [ex_part 0 (ser wcomp es_mid)].

Example C18_fetch_views_owned_ex :
  fetch_from_vec (wcz true) 3 true [(tag "ta", [(0, (1, 100)); (1, (1, 100))])] ex_fetch_bytes
  = Ok {| fr_corr := 7;
          fr_topics :=
            [ {| ft_topic := tag "ta";
                 ft_partitions := [ {| fp_partition := 0; fp_data := inl (10, [m1; m2]) |};
                                    {| fp_partition := 1; fp_data := inl (10, [m1; m2]) |} ] |};
              {| ft_topic := tag "tb";
                 ft_partitions := [ {| fp_partition := 0;
                                       fp_data := inl (10, [{| m_offset := 2; m_key := []; m_value := [x62] |}]) |} ] |} ] |}
  /\ map (fun raw => view_buffer (wcz true) 3 true raw) [ser wcomp es3; ser wcomp es_gz; ser wcomp es_mid]
     = [Ok (0%nat, ser wcomp es3); Ok (1%nat, ser wcomp es3); Ok (2%nat, ser wcomp [Plain 2 None (Some [x62])])].
Proof. vm_compute. split; reflexivity. Qed.

Print Assumptions C18_view_buffer_level.
Print Assumptions C18_views_in_owned_buffer.
Print Assumptions C18_views_subslices_of_owned_buffer.
Print Assumptions C18_result_is_plain_decoding_of_owned_buffer.
Print Assumptions C18_seed1_mutant_caught.
Print Assumptions C18_fetch_result_in_response.
Print Assumptions C18_fetch_views_owned.
Print Assumptions C18_fetch_plain_views_in_response.
