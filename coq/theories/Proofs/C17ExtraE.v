(* C17, additional theorems, fourth pass (round-seven seed C17-7).

   The seed (Consumer::process_fetch_responses: `max_bytes` is doubled only while the doubled size stays within
   the limit - `checked_mul(2).filter(|n| n <= limit)` -, so the last, CLAMPED step F * 2^k -> L is lost) is
   ALREADY covered by Props/C17.v.  Mirrored in process_partition (Model/Consumer.v) it falsifies C17_double and
   C17_double_small (negations proved on a mutated scratch copy with the witness max_bytes = 200, limit = 300:
   the model answers MessageSizeTooLarge for n = 1 and "size kept, re-queued" for n <> 1 instead of 300), and
   with them everything that is built on C17_double: C17_sequence, C17_alone_doubles, C17_single_poll_doubles,
   C17_retry_poll_doubles, C17_single_history(_reaches/_delivered), C17_solo_history,
   C17_created_consumer_doubles, C17_poll_empty_partition.

   What this file adds:
   (A) the CONVERSE of the reporting theorems for a whole poll with any number of responses (the "not done"
       item of C17ExtraB.v): a poll whose answers carry no broker error ends in an error ONLY IF it had asked
       for one partition, the error is MessageSizeTooLarge, and one of the listed partitions came back empty
       below its high-watermark with a size that is NOT BELOW THE LIMIT (the size is still in the consumer
       afterwards).  C17_too_large_only_if, C17_alone_too_large_only_if, C17_retry_poll_too_large_only_if.
       (The mirrored seed falsifies all three: it reports with the size 200 below the limit 300.)
   (B) the multi-partition counterpart of C17_single_history* - a history through Consumer::poll that ENDS IN A
       DELIVERY (the other "not done" item of C17ExtraB.v / C17ExtraC.v), which is the two-partition scenario of
       the seed's demonstration ("limit equal to entry size"): a partition queued for retry in a consumer with
       several partitions, every solo request answered empty as long as it has no room for an entry of sz <= L
       bytes.  Then there are at most Z.log2_up (sz / f) + 1 such polls, none of them reports an error, request
       number i carried grow f L i bytes (so the LAST request carries the limit itself if that is what it
       takes), nothing else in the fetch table moves; and when the next solo request is answered with the entry
       the poll hands it out, the partition is back at the client's normal size, the queue is empty and the next
       request is the regular one for all partitions.  C17_queued_history, C17_queued_history_delivered.
   (C) "never stall" for the queue as a whole (the "not done" item of C17ExtraC.v): a closed bound on the number
       of consecutive solo polls.  However many partitions are queued (duplicates included) and whatever their
       sizes, if every solo request comes back empty below the high-watermark the queue is EMPTY after at most
       queue_weight polls - the sum over the queue of (2 + log2 L - log2 size) for growable members and 1 for the
       others - and the consumer is back to regular fetches.  C17_solo_polls_drain (on top of C17_solo_history).
   (D) an error of a single-partition history is reported only AFTER a request that carried exactly the limit came
       back empty: C17_single_history_error_only_at_limit.

   Not done / not proved:
   - histories in which DELIVERING regular polls and solo polls interleave for several stuck partitions at once;
   - that fetch_messages itself never returns Err (EKafka MessageSizeTooLarge) (it only relays what the broker
     or the connection did; (A) is stated for the consumer's own second pass and, through Consumer::poll, for
     an answered request). *)
From Coq Require Import ZifyBool.
From KV Require Import Base.Prelude Base.Crc32 Gen.Consts Model.Codecs Model.Requests Model.Responses
                       Model.ClientState Model.Net Model.Client Model.Consumer.
From KV Require Import Proofs.BytesFacts Proofs.C01Facts Proofs.C17Facts Proofs.C17Extra Proofs.C17ExtraB
                       Proofs.C17ExtraC.

(* ================================================================================================== *)
(* (A) MessageSizeTooLarge ONLY IF the size cannot grow                                                *)
(* ================================================================================================== *)
Lemma process_parts_err_witness dbg single n cm limit r ps : forall s e s',
  process_parts dbg single n cm limit r ps s = PErr e s' ->
  first_part_error ps <> None \/
  (n = 1 /\ e = EKafka KC_MessageSizeTooLarge /\
   exists p hw off maxb, In p ps /\ fp_data p = inl (hw, []) /\
     tk_get (r, fp_partition p) (ps_fetch s') = Some (off, maxb) /\ off < hw /\ limit <= maxb).
Proof.
  induction ps as [|p ps IH]; intros s e s' H; cbn [process_parts] in H; [discriminate|].
  destruct (process_partition dbg single n cm limit r p s) as [s1|e1 s1|w] eqn:Ep; try discriminate.
  - destruct (IH _ _ _ H) as [Hl|(Hn & He & p0 & hw & off & maxb & Hin & Hrest)].
    + left. cbn [first_part_error]. destruct (fp_data p); [exact Hl|discriminate].
    + right. split; [exact Hn|]. split; [exact He|]. exists p0, hw, off, maxb. split; [right; exact Hin|exact Hrest].
  - inversion H; subst e1 s1.
    destruct (process_partition_err _ _ _ _ _ _ _ _ _ _ Ep) as [Hs [[c [Hd _]]|(Hn & He & hw & off & maxb & Hrest)]].
    + left. cbn [first_part_error]. rewrite Hd. discriminate.
    + subst s'. right. split; [exact Hn|]. split; [exact He|]. exists p, hw, off, maxb.
      split; [left; reflexivity|exact Hrest].
Qed.

Lemma process_topics_err_witness dbg single n cm limit asg ts : forall s e s',
  process_topics dbg single n cm limit asg ts s = PErr e s' ->
  first_part_error (flat_map ft_partitions ts) <> None \/
  (n = 1 /\ e = EKafka KC_MessageSizeTooLarge /\
   exists ft p r hw off maxb, In ft ts /\ In p (ft_partitions ft) /\ topic_ref asg (ft_topic ft) = Some r /\
     fp_data p = inl (hw, []) /\
     tk_get (r, fp_partition p) (ps_fetch s') = Some (off, maxb) /\ off < hw /\ limit <= maxb).
Proof.
  induction ts as [|t ts IH]; intros s e s' H; cbn [process_topics] in H; [discriminate|].
  destruct (topic_ref asg (ft_topic t)) as [r|] eqn:Hr; [|discriminate].
  cbn [flat_map]. rewrite first_part_error_app.
  destruct (process_parts dbg single n cm limit r (ft_partitions t) s) as [s1|e1 s1|w] eqn:Ep; try discriminate.
  - destruct (IH _ _ _ H) as [Hl|(Hn & He & ft & p & r0 & hw & off & maxb & Hin & Hrest)].
    + left. destruct (first_part_error (ft_partitions t)); [discriminate|exact Hl].
    + right. split; [exact Hn|]. split; [exact He|]. exists ft, p, r0, hw, off, maxb.
      split; [right; exact Hin|exact Hrest].
  - inversion H; subst e1 s1.
    destruct (process_parts_err_witness _ _ _ _ _ _ _ _ _ _ Ep) as [Hl|(Hn & He & p & hw & off & maxb & Hin & Hrest)].
    + left. destruct (first_part_error (ft_partitions t)); [discriminate|contradiction].
    + right. split; [exact Hn|]. split; [exact He|]. exists t, p, r, hw, off, maxb.
      split; [left; reflexivity|]. split; [exact Hin|]. split; [exact Hr|exact Hrest].
Qed.

(* A whole poll, any number of responses / topics / partitions in any order, no broker error among them.  If
   it ends in an error then: it had asked for ONE partition, the error is MessageSizeTooLarge, and one of the
   listed partitions is empty below its high-watermark with a size - still the size the consumer holds for it
   afterwards - that is not below the retry limit.  A partition whose size is below the limit is never
   reported; it is retried. *)
Theorem C17_too_large_only_if : forall dbg k n resps e k',
  process_fetch_responses dbg k n resps = (Err e, k') -> first_error resps = None ->
  n = 1 /\ e = EKafka KC_MessageSizeTooLarge /\
  exists rs ft p r hw off maxb,
    In rs resps /\ In ft (fr_topics rs) /\ In p (ft_partitions ft) /\
    topic_ref (k_assign k) (ft_topic ft) = Some r /\ fp_data p = inl (hw, []) /\
    tk_get (r, fp_partition p) (k_fetch k') = Some (off, maxb) /\ off < hw /\ k_retry_limit k <= maxb.
Proof.
  intros dbg k n resps e k' H Hfe. unfold process_fetch_responses in H. rewrite Hfe in H. cbv zeta in H.
  destruct (process_topics dbg (ulen (k_fetch k) =? 1) n (fetch_max_bytes_per_partition (cfg (k_client k)))
              (k_retry_limit k) (k_assign k) (flat_map fr_topics resps)
              {| ps_fetch := k_fetch k; ps_retry := k_retry k; ps_empty := true |}) as [s'|e1 s'|w] eqn:Ep;
    try discriminate.
  inversion H; subst e1 k'. cbn [consumer_with k_fetch].
  destruct (process_topics_err_witness _ _ _ _ _ _ _ _ _ _ Ep)
    as [Hl|(Hn & He & ft & p & r & hw & off & maxb & Hin & Hp & Hr & Hrest)].
  - exfalso. apply Hl. exact Hfe.
  - split; [exact Hn|]. split; [exact He|].
    apply in_flat_map in Hin. destruct Hin as [rs [Hrs Hft]].
    exists rs, ft, p, r, hw, off, maxb. auto.
Qed.

(* the one-entry answer of a solo request: exactly when.  (The first alternative is the broker's own error code
   10 for the partition, which the first pass relays.) *)
Theorem C17_alone_too_large_only_if : forall dbg k n c t p k',
  process_fetch_responses dbg k n (answer1 c t p) = (Err (EKafka KC_MessageSizeTooLarge), k') ->
  fp_data p = inr KC_MessageSizeTooLarge \/
  (n = 1 /\ k' = k /\
   exists r hw off maxb, topic_ref (k_assign k) t = Some r /\ fp_data p = inl (hw, []) /\
     tk_get (r, fp_partition p) (k_fetch k) = Some (off, maxb) /\ off < hw /\ k_retry_limit k <= maxb).
Proof.
  intros dbg k n c t p k' H.
  destruct (first_error (answer1 c t p)) as [c0|] eqn:Hfe.
  - left. unfold process_fetch_responses in H. rewrite Hfe in H. inversion H; subst.
    unfold first_error, answer1 in Hfe. cbn [flat_map fr_topics ft_partitions app first_part_error] in Hfe.
    destruct (fp_data p) as [[hw msgs]|c1]; [discriminate|]. inversion Hfe; subst. reflexivity.
  - right.
    destruct (C17_too_large_only_if _ _ _ _ _ _ H Hfe)
      as (Hn & _ & rs & ft & p0 & r & hw & off & maxb & Hrs & Hft & Hp & Hr & Hd & Hg & Hhw & Hlim).
    unfold answer1 in Hrs. destruct Hrs as [<-|[]]. cbn [fr_topics] in Hft. destruct Hft as [<-|[]].
    cbn [ft_partitions ft_topic] in Hp, Hr. destruct Hp as [<-|[]].
    assert (Hk : k' = k).
    { subst n. destruct (tk_get (r, fp_partition p) (k_fetch k)) as [[off0 maxb0]|] eqn:Hg0.
      - destruct (Z.lt_ge_cases off0 hw) as [Hlt|Hge].
        + destruct (Z.lt_ge_cases maxb0 (k_retry_limit k)) as [Hm|Hm].
          * (* the size was below the limit: not an error at all (non-positive sizes included) *)
            exfalso. unfold process_fetch_responses in H. rewrite Hfe in H. cbv zeta in H. unfold answer1 in H.
            cbn [flat_map fr_topics app process_topics ft_topic ft_partitions process_parts] in H.
            rewrite Hr in H. set (s0 := {| ps_fetch := k_fetch k; ps_retry := k_retry k; ps_empty := true |}) in H.
            change (k_fetch k) with (ps_fetch s0) in Hg0.
            rewrite (process_partition_data _ _ _ _ _ _ _ s0 _ _ _ _ Hd Hg0) in H.
            rewrite last_msg_nil in H. replace (off0 <? hw) with true in H by lia.
            replace (maxb0 <? k_retry_limit k) with true in H by lia. discriminate.
          * unfold answer1 in H. rewrite (C17_alone_too_large dbg k c t r p hw off0 maxb0 Hr Hd Hg0 Hlt Hm) in H.
            inversion H. reflexivity.
        + exfalso. unfold process_fetch_responses in H. rewrite Hfe in H. cbv zeta in H. unfold answer1 in H.
          cbn [flat_map fr_topics app process_topics ft_topic ft_partitions process_parts] in H.
          rewrite Hr in H. set (s0 := {| ps_fetch := k_fetch k; ps_retry := k_retry k; ps_empty := true |}) in H.
          change (k_fetch k) with (ps_fetch s0) in Hg0.
          rewrite (process_partition_data _ _ _ _ _ _ _ s0 _ _ _ _ Hd Hg0) in H.
          rewrite last_msg_nil in H. replace (off0 <? hw) with false in H by lia. discriminate.
      - exfalso. unfold process_fetch_responses in H. rewrite Hfe in H. cbv zeta in H. unfold answer1 in H.
        cbn [flat_map fr_topics app process_topics ft_topic ft_partitions process_parts] in H.
        rewrite Hr in H. unfold process_partition in H. cbv zeta in H. cbn [ps_fetch] in H.
        rewrite Hd, Hg0 in H. discriminate. }
    split; [exact Hn|]. split; [exact Hk|]. subst k'. exists r, hw, off, maxb. auto.
Qed.

(* ... and through Consumer::poll: the partition at the head of the retry queue is fetched alone and the request
   is answered (whatever the answer lists).  The poll reports MessageSizeTooLarge - without the broker having
   reported an error - only if a listed partition is empty below its high-watermark and its size in the
   consumer's fetch table is not below the limit *)
Theorem C17_retry_poll_too_large_only_if : forall k s s' r pid rest off maxb resps e k2 s2,
  k_retry k = (r, pid) :: rest -> tk_get (r, pid) (k_fetch k) = Some (off, maxb) ->
  fetch_messages [req1 k r pid off maxb] s = (Ok resps, s') -> first_error resps = None ->
  consumer_poll k s = (Ok (Err e, k2), s2) ->
  e = EKafka KC_MessageSizeTooLarge /\ s2 = s' /\
  exists rs ft p r0 hw off0 maxb0,
    In rs resps /\ In ft (fr_topics rs) /\ In p (ft_partitions ft) /\
    topic_ref (k_assign k) (ft_topic ft) = Some r0 /\ fp_data p = inl (hw, []) /\
    tk_get (r0, fp_partition p) (k_fetch k2) = Some (off0, maxb0) /\ off0 < hw /\ k_retry_limit k <= maxb0.
Proof.
  intros k s s' r pid rest off maxb resps e k2 s2 Hr Hg Hf Hfe Hpoll.
  pose proof (C17_retry_alone _ _ _ _ _ Hr Hg) as Hcf. cbn [fst snd] in Hcf.
  rewrite (poll_answered _ _ _ _ _ _ _ Hcf Hf) in Hpoll.
  injection Hpoll as Hp Hs. subst s2.
  destruct (C17_too_large_only_if _ _ _ _ _ _ Hp Hfe) as (_ & He & Hw).
  cbn [consumer_with_client consumer_with k_assign k_retry_limit] in Hw.
  split; [exact He|]. split; [reflexivity|exact Hw].
Qed.

(* non-vacuity: (1) limit 0 (retrying disabled), t:0 answered alone, empty with high-watermark 6: the report,
   and the witness is the entry itself with its size 32768 >= 0; (2) the same through Consumer::poll over the
   scripted connection of C17Facts *)
Example C17_too_large_only_if_ex :
  let k := kp17 [((0, 0), (5, 32768)); ((0, 1), (10, 32768))] [(0, 0)] in
  process_fetch_responses true k 1 (answer1 1 (tag "t") p0_empty) = (Err (EKafka KC_MessageSizeTooLarge), k) /\
  first_error (answer1 1 (tag "t") p0_empty) = None /\
  topic_ref (k_assign k) (tag "t") = Some 0 /\ fp_data p0_empty = inl (6, []) /\
  tk_get (0, fp_partition p0_empty) (k_fetch k) = Some (5, 32768) /\ 5 < 6 /\ k_retry_limit k <= 32768 /\
  exists s' k2,
    fetch_messages [req1 k 0 0 5 32768] (ex_st script17) = (Ok (answer1 1 (tag "t") p0_empty), s') /\
    consumer_poll k (ex_st script17) = (Ok (Err (EKafka KC_MessageSizeTooLarge), k2), s') /\
    tk_get (0, 0) (k_fetch k2) = Some (5, 32768).
Proof.
  cbv zeta. split; [vm_compute; reflexivity|]. split; [reflexivity|]. split; [reflexivity|].
  split; [reflexivity|]. split; [reflexivity|]. split; [lia|]. split; [vm_compute; discriminate|].
  eexists; eexists. split; [vm_compute; reflexivity|]. split; [vm_compute; reflexivity|]. reflexivity.
Qed.

(* ================================================================================================== *)
(* (B) a queued partition of a multi-partition consumer: retried alone up to the limit, then delivered *)
(* ================================================================================================== *)
Lemma tk_set_set {V} key (v v' : V) m : tk_set key v (tk_set key v' m) = tk_set key v m.
Proof.
  induction m as [|[k0 v0] m IH]; cbn [tk_set].
  - rewrite tpkey_eqb_refl. reflexivity.
  - destruct (tpkey_eqb k0 key) eqn:E; cbn [tk_set]; rewrite E; [reflexivity|]. rewrite IH. reflexivity.
Qed.

Lemma tk_set_get_id {V} key (v : V) m : tk_get key m = Some v -> tk_set key v m = m.
Proof.
  induction m as [|[k0 v0] m IH]; cbn [tk_get tk_set]; [discriminate|].
  destruct (tpkey_eqb k0 key); intros H; [inversion H; reflexivity|]. rewrite IH by exact H. reflexivity.
Qed.

(* the pure history of C17ExtraC.v for a queue that holds one growable partition of a multi-partition consumer *)
Lemma solo_steps_one L fetch tp off f :
  0 < f <= L -> L <= i32_max -> tk_get tp fetch = Some (off, f) ->
  forall j, (forall i, (i < j)%nat -> grow f L (Z.of_nat i) < L) ->
  solo_steps L false j (fetch, [tp]) = (tk_set tp (off, grow f L (Z.of_nat j)) fetch, [tp]).
Proof.
  intros Hf HL Hg. induction j as [|j IH]; intros Hlt.
  - cbn [solo_steps Z.of_nat]. rewrite grow_0 by lia. rewrite (tk_set_get_id _ _ _ Hg). reflexivity.
  - cbn [solo_steps]. rewrite IH by (intros i Hi; apply Hlt; lia).
    unfold solo_step. cbn [fst snd]. rewrite tk_get_set_same. cbv beta iota.
    specialize (Hlt j ltac:(lia)).
    replace (grow f L (Z.of_nat j) <? L) with true by lia. cbn [app]. rewrite tk_set_set.
    assert (Hpos : 0 < grow f L (Z.of_nat j)) by (apply grow_pos; lia).
    rewrite grow_succ by lia. replace (Z.of_nat (S j)) with (Z.of_nat j + 1) by lia. reflexivity.
Qed.

(* The history.  A consumer with several partitions, one of them (r, pid) queued for retry with size f; the
   next entry of that partition needs sz bytes, f <= sz <= L.  The consumer polls j times, and every solo
   request is answered empty below the high-watermark - which is what a broker does as long as the requested
   size grow f L i = min (f * 2^i) L is below sz.  Then:
   - j <= Z.log2_up (sz / f) + 1: after a logarithmic number of polls the request has room for the entry;
   - none of the j polls reported an error (all were empty Ok results): a partition whose entry fits the limit is
     never reported, and the request sizes reach the limit ITSELF if need be (sz = L: the last size is
     grow f L j = L, whether or not L is f times a power of two);
   - the partition is still queued (alone), at the same offset, with size grow f L j; nothing else in the fetch
     table has moved. *)
Theorem C17_queued_history : forall results k k' r pid off f sz,
  k_retry k = [(r, pid)] -> tk_get (r, pid) (k_fetch k) = Some (off, f) -> ulen (k_fetch k) <> 1 ->
  Forall (fun e : tpkey * (Z * Z) => 0 < snd (snd e)) (k_fetch k) ->
  0 < f <= sz -> sz <= k_retry_limit k -> k_retry_limit k <= i32_max ->
  retry_polls results k k' ->
  (forall i, (i < length results)%nat -> grow f (k_retry_limit k) (Z.of_nat i) < sz) ->
  Z.of_nat (length results) <= Z.log2_up (sz / f) + 1 /\
  k_fetch k' = tk_set (r, pid) (off, grow f (k_retry_limit k) (Z.of_nat (length results))) (k_fetch k) /\
  k_retry k' = [(r, pid)] /\ k_retry_limit k' = k_retry_limit k /\ k_assign k' = k_assign k /\
  k_consumed k' = k_consumed k /\
  Forall (fun res => poll_outcome res = Some (inl true)) results.
Proof.
  intros results k k' r pid off f sz Hr Hg Hmulti Hpos Hf Hsz HL Hrp Hsmall.
  set (L := k_retry_limit k) in *. set (j := length results) in *.
  assert (Hlt : forall i, (i < j)%nat -> grow f L (Z.of_nat i) < L).
  { intros i Hi. specialize (Hsmall i Hi). lia. }
  assert (Hss : forall i, (i <= j)%nat ->
            solo_steps L false i (k_fetch k, [(r, pid)]) =
            (tk_set (r, pid) (off, grow f L (Z.of_nat i)) (k_fetch k), [(r, pid)])).
  { intros i Hi. apply solo_steps_one; try assumption; [lia|]. intros i0 Hi0. apply Hlt. lia. }
  pose proof (C17_solo_history results k k' Hrp Hpos) as H. cbv zeta in H. fold L in H. rewrite Hr in H.
  replace (ulen (k_fetch k) =? 1) with false in H by lia.
  destruct H as (Hfq & Hl & Ha & Hc & _ & _ & Hres).
  { intros i Hi. rewrite Hss by (fold j in Hi; lia). cbn [snd]. discriminate. }
  fold j in Hfq. rewrite Hss in Hfq by lia. inversion Hfq as [[Hfk Hrk]].
  split.
  { pose proof (Z.log2_up_nonneg (sz / f)) as Hnn.
    destruct j as [|j'] eqn:Ej; [lia|].
    destruct (Z.lt_ge_cases (Z.of_nat j') (Z.log2_up (sz / f) + 1)) as [Hlt2|Hge2]; [lia|].
    pose proof (C17_fits f L sz (Z.of_nat j') Hf Hsz ltac:(lia)) as Hfit.
    specialize (Hsmall j' ltac:(lia)). lia. }
  repeat split; try assumption.
  apply Forall_forall. intros res Hin. destruct (In_nth_error _ _ Hin) as [i Hi].
  assert (Hij : (i < j)%nat) by (apply nth_error_Some; rewrite Hi; discriminate).
  rewrite <- (Hres i res Hi), Hss by lia. unfold solo_outcome. cbn [fst snd]. rewrite tk_get_set_same.
  replace (grow f L (Z.of_nat i) <? L) with true by (specialize (Hlt i Hij); lia). reflexivity.
Qed.

(* ... and when the broker answers the next solo request - which carries grow f L j bytes - with the entry, that
   poll hands the entry out, the partition continues behind it with the client's normal fetch size, the
   rest of the fetch table is what it was before the retries began, the retry queue is empty and the next
   request is the regular one for ALL assigned partitions *)
Theorem C17_queued_history_delivered : forall results k k' r pid off f sz s s' c t p hw msgs m,
  k_retry k = [(r, pid)] -> tk_get (r, pid) (k_fetch k) = Some (off, f) -> ulen (k_fetch k) <> 1 ->
  Forall (fun e : tpkey * (Z * Z) => 0 < snd (snd e)) (k_fetch k) ->
  0 < f <= sz -> sz <= k_retry_limit k -> k_retry_limit k <= i32_max ->
  retry_polls results k k' ->
  (forall i, (i < length results)%nat -> grow f (k_retry_limit k) (Z.of_nat i) < sz) ->
  fetch_messages [req1 k' r pid off (grow f (k_retry_limit k) (Z.of_nat (length results)))] s
    = (Ok (answer1 c t p), s') ->
  topic_ref (k_assign k) t = Some r -> fp_partition p = pid -> fp_data p = inl (hw, msgs) ->
  last_msg msgs = Some m -> i64_min <= m_offset m < i64_max ->
  exists ms k'',
    consumer_poll k' s = (Ok (Ok ms, k''), s') /\
    iterate ms = [(t, pid, msgs)] /\ ms_empty ms = false /\
    k_fetch k'' = tk_set (r, pid) (m_offset m + 1, fetch_max_bytes_per_partition (cfg (cl s))) (k_fetch k) /\
    k_retry k'' = [] /\ k_retry_limit k'' = k_retry_limit k /\
    consumer_fetch k'' =
      (let+ x := mtry (fetch_messages
                         (map (fun '((tr, p0), (off0, maxb)) =>
                                 {| fq_topic := topic_name k'' tr; fq_partition := p0; fq_offset := off0;
                                    fq_max_bytes := maxb |}) (k_fetch k''))) in
       ret (ulen (k_fetch k''), x, k'')).
Proof.
  intros results k k' r pid off f sz s s' c t p hw msgs m Hr Hg Hmulti Hpos Hf Hsz HL Hrp Hsmall
         Hfm Ht Hp Hd Hlast Hrange.
  destruct (C17_queued_history results k k' r pid off f sz Hr Hg Hmulti Hpos Hf Hsz HL Hrp Hsmall)
    as (_ & Hfk & Hrk & Hlk & Hak & _).
  rewrite <- Hak in Ht.
  assert (Hg' : tk_get (r, pid) (k_fetch k') =
                Some (off, grow f (k_retry_limit k) (Z.of_nat (length results)))).
  { rewrite Hfk. apply tk_get_set_same. }
  eexists; eexists.
  split; [apply (C17_retry_poll_delivers k' s s' r pid [] off
                   (grow f (k_retry_limit k) (Z.of_nat (length results))) c t p hw msgs m); assumption|].
  cbn [consumer_with consumer_with_client k_fetch k_retry k_retry_limit ms_empty].
  split.
  { destruct msgs as [|m0 msgs]; [rewrite last_msg_nil in Hlast; discriminate|].
    rewrite (iterate_answer1 _ _ _ _ _ _ _ Hd), Hp. reflexivity. }
  split; [reflexivity|]. split; [rewrite Hfk, tk_set_set; reflexivity|]. split; [reflexivity|].
  split; [exact Hlk|]. apply C17_retry_none. reflexivity.
Qed.

(* non-vacuity, the two-partition scenario of seeded change C17-7 with "limit = size of the entry" and a limit
   that is NOT the fetch size times a power of two: topic "t", partitions 0 and 1 at 32768 bytes, limit 50000,
   t:0 queued; its next entry needs sz = 50000 bytes.  Poll 1 asks for t:0 alone with 32768 bytes and comes back
   empty (high-watermark 6); the size becomes grow 32768 50000 1 = 50000 - the limit itself, not 65536 and not
   "give up" -; poll 2 asks for 50000 bytes and is answered with the entry: handed out, t:0 at offset 6 with
   32768 bytes again, queue empty *)
Definition kE : consumer :=
  {| k_client := ex_client2; k_group := tag "g"; k_fallback := FbEarliest; k_retry_limit := 50000;
     k_assign := [(tag "t", [0; 1])]; k_fetch := [((0, 0), (5, 32768)); ((0, 1), (10, 32768))];
     k_retry := [(0, 0)]; k_consumed := [] |}.

Example C17_queued_history_delivered_ex :
  let s1 := poll_stB kE stB2 in
  exists k1 r0,
    retry_polls [r0] kE k1 /\ poll_outcome r0 = Some (inl true) /\
    ulen (k_fetch kE) <> 1 /\ 0 < 32768 <= 50000 /\ 50000 <= k_retry_limit kE /\
    (forall i, (i < 1)%nat -> grow 32768 50000 (Z.of_nat i) < 50000) /\
    Z.log2_up (50000 / 32768) + 1 = 1 /\ grow 32768 50000 1 = 50000 /\
    k_fetch k1 = [((0, 0), (5, 50000)); ((0, 1), (10, 32768))] /\ k_retry k1 = [(0, 0)] /\
    exists s2 ms k2,
      fetch_messages [req1 k1 0 0 5 50000] s1 = (Ok (answer1 2 (tag "t") p0_big), s2) /\
      last_msg [ex_msg 5] = Some (ex_msg 5) /\
      consumer_poll k1 s1 = (Ok (Ok ms, k2), s2) /\
      iterate ms = [(tag "t", 0, [ex_msg 5])] /\
      k_fetch k2 = [((0, 0), (6, 32768)); ((0, 1), (10, 32768))] /\ k_retry k2 = [] /\ script s2 = [].
Proof.
  cbv zeta. set (s1 := poll_stB kE stB2).
  exists (poll_kB kE stB2). eexists. split.
  { eapply (rp_snoc []) with (s := stB2) (k1 := kE).
    1: apply rp_nil.
    2: (vm_compute; reflexivity).
    intros r pid rest off maxb Hq Hg. vm_compute in Hq. inversion Hq; subst r pid rest.
    vm_compute in Hg. inversion Hg; subst off maxb.
    exists 1, (tag "t"), p0_empty, 6. split; [vm_compute; reflexivity|repeat split]. }
  split; [reflexivity|]. split; [vm_compute; discriminate|]. split; [lia|]. split; [vm_compute; discriminate|].
  split; [intros i Hi; replace i with 0%nat by lia; vm_compute; reflexivity|].
  split; [reflexivity|]. split; [reflexivity|]. split; [vm_compute; reflexivity|]. split; [vm_compute; reflexivity|].
  eexists; eexists; eexists. split; [vm_compute; reflexivity|]. split; [reflexivity|].
  split; [vm_compute; reflexivity|]. vm_compute. repeat split.
Qed.

(* ================================================================================================== *)
(* (C) the retry queue drains: a closed bound on the number of consecutive solo polls                  *)
(* ================================================================================================== *)
(* the number of solo polls a queue member can still take part in: one (the report) if its size has reached the
   limit or it is unknown to the fetch table, and at most 2 + log2 L - log2 size otherwise *)
Definition size_weight (L m : Z) : nat :=
  if m <? L then Z.to_nat (2 + Z.log2 L - Z.log2 m) else 1%nat.
Definition entry_weight (L : Z) (fetch : list (tpkey * (Z * Z))) (tp : tpkey) : nat :=
  match tk_get tp fetch with Some (_, m) => size_weight L m | None => 1%nat end.
Definition queue_weight (L : Z) (fq : list (tpkey * (Z * Z)) * list tpkey) : nat :=
  list_sum (map (entry_weight L (fst fq)) (snd fq)).

Lemma size_weight_double L m :
  0 < m < L -> L <= i32_max -> (size_weight L (Z.min (Z.min (2 * m) i32_max) L) + 1 <= size_weight L m)%nat.
Proof.
  intros Hm HL. unfold size_weight. replace (m <? L) with true by lia.
  assert (Hle : Z.log2 m <= Z.log2 L) by (apply Z.log2_le_mono; lia).
  destruct (Z.lt_ge_cases (2 * m) L) as [Hlt|Hge].
  - replace (Z.min (Z.min (2 * m) i32_max) L) with (2 * m) by lia.
    replace (2 * m <? L) with true by lia. rewrite Z.log2_double by lia.
    assert (Hle2 : Z.log2 (2 * m) <= Z.log2 L) by (apply Z.log2_le_mono; lia).
    rewrite Z.log2_double in Hle2 by lia. lia.
  - replace (Z.min (Z.min (2 * m) i32_max) L) with L by lia.
    replace (L <? L) with false by lia. lia.
Qed.

Lemma size_weight_le L m : (size_weight L m <= Z.to_nat (2 + Z.log2 L))%nat.
Proof.
  unfold size_weight. pose proof (Z.log2_nonneg m). pose proof (Z.log2_nonneg L).
  destruct (m <? L); lia.
Qed.

Lemma entry_weight_set_le L fetch tp off m off' m' tp0 :
  tk_get tp fetch = Some (off, m) -> (size_weight L m' <= size_weight L m)%nat ->
  (entry_weight L (tk_set tp (off', m') fetch) tp0 <= entry_weight L fetch tp0)%nat.
Proof.
  intros Hg Hw. unfold entry_weight. destruct (tpkey_eqb tp tp0) eqn:E.
  - apply tpkey_eqb_eq in E. subst tp0. rewrite tk_get_set_same, Hg. exact Hw.
  - rewrite tk_get_set_other; [lia|]. intros Heq. subst tp0. rewrite tpkey_eqb_refl in E. discriminate.
Qed.

Lemma list_sum_cons x l : list_sum (x :: l) = (x + list_sum l)%nat.
Proof. reflexivity. Qed.

Lemma list_sum_map_le {A} (f g : A -> nat) l :
  (forall x, f x <= g x)%nat -> (list_sum (map f l) <= list_sum (map g l))%nat.
Proof.
  intros H. induction l as [|x l IH]; cbn [map]; [lia|]. rewrite !list_sum_cons. specialize (H x). lia.
Qed.

(* one solo poll answered "empty below the high-watermark" strictly lowers the weight of the queue *)
Lemma solo_step_weight L single fq :
  L <= i32_max -> Forall (fun e : tpkey * (Z * Z) => 0 < snd (snd e)) (fst fq) -> snd fq <> [] ->
  (queue_weight L (solo_step L single fq) < queue_weight L fq)%nat /\
  Forall (fun e : tpkey * (Z * Z) => 0 < snd (snd e)) (fst (solo_step L single fq)).
Proof.
  intros HL Hpos Hne. destruct fq as [fetch q]. cbn [fst snd] in *.
  destruct q as [|tp rest]; [contradiction|].
  unfold solo_step, queue_weight. cbn [fst snd map]. rewrite list_sum_cons.
  destruct (tk_get tp fetch) as [[off m]|] eqn:Hg.
  2:{ cbn [fst snd]. split; [|exact Hpos]. unfold entry_weight at 2. rewrite Hg. lia. }
  assert (Hm : 0 < m) by exact (tk_get_Forall (fun v => 0 < snd v) _ _ _ Hpos Hg).
  destruct (Z.ltb_spec m L) as [Hlt|Hge].
  2:{ cbn [fst snd]. split; [|exact Hpos]. unfold entry_weight at 2. rewrite Hg. unfold size_weight.
      replace (m <? L) with false by lia. lia. }
  cbn [fst snd].
  pose proof (size_weight_double L m ltac:(lia) HL) as Hd.
  set (m' := Z.min (Z.min (2 * m) i32_max) L) in *.
  split.
  2:{ apply (Forall_tk_set (fun v => 0 < snd v)); [exact Hpos|]. cbn [snd]. subst m'. unfold i32_max. lia. }
  assert (Hrest : (list_sum (map (entry_weight L (tk_set tp (off, m') fetch)) rest)
                   <= list_sum (map (entry_weight L fetch) rest))%nat).
  { apply list_sum_map_le. intros tp0. apply (entry_weight_set_le L fetch tp off m off m' tp0 Hg). lia. }
  assert (Hhead : entry_weight L fetch tp = size_weight L m) by (unfold entry_weight; rewrite Hg; reflexivity).
  assert (Hnew : entry_weight L (tk_set tp (off, m') fetch) tp = size_weight L m').
  { unfold entry_weight. rewrite tk_get_set_same. reflexivity. }
  destruct single.
  - lia.
  - rewrite map_app, list_sum_app. cbn [map]. rewrite list_sum_cons. change (list_sum []) with 0%nat. lia.
Qed.

Lemma solo_steps_shift L single j : forall fq,
  solo_steps L single (S j) fq = solo_steps L single j (solo_step L single fq).
Proof.
  induction j as [|j IH]; intros fq; [reflexivity|].
  change (solo_steps L single (S (S j)) fq) with (solo_step L single (solo_steps L single (S j) fq)).
  rewrite IH. reflexivity.
Qed.

Lemma solo_steps_drain L single : forall w fq,
  L <= i32_max -> Forall (fun e : tpkey * (Z * Z) => 0 < snd (snd e)) (fst fq) ->
  (queue_weight L fq <= w)%nat ->
  exists j, (j <= w)%nat /\ snd (solo_steps L single j fq) = [] /\
            forall i, (i < j)%nat -> snd (solo_steps L single i fq) <> [].
Proof.
  induction w as [|w IH]; intros fq HL Hpos Hw.
  - exists 0%nat. split; [lia|]. split; [|intros i Hi; lia]. cbn [solo_steps].
    destruct (snd fq) as [|tp rest] eqn:Hq; [reflexivity|].
    destruct (solo_step_weight L single fq HL Hpos) as [Hlt _]; [rewrite Hq; discriminate|lia].
  - destruct (snd fq) as [|tp rest] eqn:Hq.
    + exists 0%nat. split; [lia|]. split; [exact Hq|intros i Hi; lia].
    + destruct (solo_step_weight L single fq HL Hpos) as [Hlt Hpos']; [rewrite Hq; discriminate|].
      destruct (IH (solo_step L single fq) HL Hpos' ltac:(lia)) as (j & Hj & Hend & Hbefore).
      exists (S j). split; [lia|]. split; [rewrite solo_steps_shift; exact Hend|].
      intros i Hi. destruct i as [|i]; [cbn [solo_steps]; rewrite Hq; discriminate|].
      rewrite solo_steps_shift. apply Hbefore. lia.
Qed.

Lemma retry_polls_prefix results k k' : retry_polls results k k' ->
  forall r1 r2, results = r1 ++ r2 -> exists k1, retry_polls r1 k k1.
Proof.
  induction 1 as [k|results k k1 k2 s s' res Hrp IH Hans Hpoll]; intros r1 r2 Heq.
  - symmetry in Heq. apply app_eq_nil in Heq. destruct Heq as [-> _]. exists k. apply rp_nil.
  - destruct r2 as [|y r2] using rev_ind.
    + rewrite app_nil_r in Heq. subst r1. exists k2. exact (rp_snoc _ _ _ _ _ _ _ Hrp Hans Hpoll).
    + clear IHr2. rewrite app_assoc in Heq. apply app_inj_tail in Heq. destruct Heq as [Heq _].
      exact (IH _ _ Heq).
Qed.

(* the weight is at most (2 + log2 L) per queue member, whatever the sizes *)
Theorem C17_queue_weight_bound : forall L fq,
  (queue_weight L fq <= length (snd fq) * Z.to_nat (2 + Z.log2 L))%nat.
Proof.
  intros L [fetch q]. unfold queue_weight. cbn [fst snd].
  induction q as [|tp q IH]; cbn [map length]; [cbn; lia|]. rewrite list_sum_cons.
  assert (Hw : (entry_weight L fetch tp <= Z.to_nat (2 + Z.log2 L))%nat).
  { unfold entry_weight. destruct (tk_get tp fetch) as [[off m]|]; [apply size_weight_le|].
    pose proof (Z.log2_nonneg L). lia. }
  cbn [Nat.mul]. lia.
Qed.

(* The queue drains.  A consumer (any number of partitions, any queue - duplicates included -, positive sizes,
   limit within i32) polls and every solo request comes back empty below the high-watermark.  If there are at
   least queue_weight polls - at most (2 + log2 L) per queue member - then after at most queue_weight of them
   the retry queue is EMPTY: every member has either been reported (MessageSizeTooLarge, C17_solo_history says
   which poll) or has left the queue, and the next request is the regular one for all assigned partitions.
   The consumer never goes on with solo requests for ever. *)
Theorem C17_solo_polls_drain : forall results k k',
  retry_polls results k k' ->
  Forall (fun e : tpkey * (Z * Z) => 0 < snd (snd e)) (k_fetch k) -> k_retry_limit k <= i32_max ->
  (queue_weight (k_retry_limit k) (k_fetch k, k_retry k) <= length results)%nat ->
  exists results1 results2 k1,
    results = results1 ++ results2 /\ retry_polls results1 k k1 /\
    (length results1 <= queue_weight (k_retry_limit k) (k_fetch k, k_retry k))%nat /\
    k_retry k1 = [] /\
    consumer_fetch k1 =
      (let+ x := mtry (fetch_messages
                         (map (fun '((tr, p0), (off0, maxb)) =>
                                 {| fq_topic := topic_name k1 tr; fq_partition := p0; fq_offset := off0;
                                    fq_max_bytes := maxb |}) (k_fetch k1))) in
       ret (ulen (k_fetch k1), x, k1)).
Proof.
  intros results k k' Hrp Hpos HL Hw.
  set (L := k_retry_limit k) in *. set (single := ulen (k_fetch k) =? 1).
  destruct (solo_steps_drain L single (queue_weight L (k_fetch k, k_retry k)) (k_fetch k, k_retry k) HL Hpos
              (le_n _)) as (j & Hj & Hend & Hbefore).
  assert (Hsplit : results = firstn j results ++ skipn j results) by (symmetry; apply firstn_skipn).
  assert (Hlen : length (firstn j results) = j) by (apply firstn_length_le; lia).
  destruct (retry_polls_prefix results k k' Hrp _ _ Hsplit) as [k1 Hrp1].
  pose proof (C17_solo_history (firstn j results) k k1 Hrp1 Hpos) as H. cbv zeta in H.
  fold L in H. fold single in H. rewrite Hlen in H.
  destruct (H Hbefore) as (Hfq & _). rewrite <- Hfq in Hend. cbn [snd] in Hend.
  exists (firstn j results), (skipn j results), k1.
  split; [exact Hsplit|]. split; [exact Hrp1|]. split; [rewrite Hlen; exact Hj|]. split; [exact Hend|].
  apply C17_retry_none. exact Hend.
Qed.

(* non-vacuity: the four polls of C17_solo_history_ex (topic "t", partitions 0 and 1 at 32768 bytes, limit
   50000, both queued): the weight of the queue is 2 + 2 = 4 (each partition: one doubling poll, one reporting
   poll) and it is within the general bound 2 * (2 + log2 50000) = 34 *)
Example C17_solo_polls_drain_ex :
  exists k4 results,
    retry_polls results kD k4 /\
    Forall (fun e : tpkey * (Z * Z) => 0 < snd (snd e)) (k_fetch kD) /\ k_retry_limit kD <= i32_max /\
    queue_weight (k_retry_limit kD) (k_fetch kD, k_retry kD) = 4%nat /\ length results = 4%nat /\
    (length (k_retry kD) * Z.to_nat (2 + Z.log2 (k_retry_limit kD)))%nat = 34%nat /\
    k_retry k4 = [].
Proof.
  destruct C17_solo_history_ex as (k4 & results & Hrp & Hlen & Hpos & _ & _ & _ & _ & _ & _ & _ & Hq).
  exists k4, results. split; [exact Hrp|]. split; [exact Hpos|]. split; [vm_compute; discriminate|].
  split; [vm_compute; reflexivity|]. split; [exact Hlen|]. split; [vm_compute; reflexivity|exact Hq].
Qed.

(* ================================================================================================== *)
(* (D) a single-partition history reports only after the request with the full limit came back empty    *)
(* ================================================================================================== *)
(* in the history of C17_single_history: if poll number i ended in an error then the request of that poll carried
   EXACTLY the configured limit (not the largest f * 2^k below it), and the error is MessageSizeTooLarge *)
Theorem C17_single_history_error_only_at_limit : forall r pid results k k' off f i e,
  k_retry k = [] -> k_fetch k = [((r, pid), (off, f))] -> 0 < f <= k_retry_limit k -> k_retry_limit k <= i32_max ->
  single_empty_polls r pid results k k' ->
  nth_error results i = Some (Err e) ->
  e = EKafka KC_MessageSizeTooLarge /\ grow f (k_retry_limit k) (Z.of_nat i) = k_retry_limit k /\
  Z.log2 (k_retry_limit k / f) <= Z.of_nat i.
Proof.
  intros r pid results k k' off f i e Hr Hk Hf HL Hsep Hn.
  destruct (C17_single_history r pid results k k' off f Hr Hk Hf HL Hsep) as (_ & _ & _ & _ & _ & Hres).
  specialize (Hres i (Err e) Hn). unfold empty_poll_result in Hres.
  destruct (Z.ltb_spec (grow f (k_retry_limit k) (Z.of_nat i)) (k_retry_limit k)) as [Hlt|Hge].
  - destruct Hres as [ms [Hms _]]. discriminate.
  - inversion Hres; subst e. split; [reflexivity|].
    assert (Hgr : grow f (k_retry_limit k) (Z.of_nat i) = k_retry_limit k) by (unfold grow in *; lia).
    split; [exact Hgr|].
    (* f * 2^i >= L, hence 2^i >= L / f >= 2^(log2 (L / f)) *)
    unfold grow in Hge. set (L := k_retry_limit k) in *.
    assert (HLf : L <= f * 2 ^ Z.of_nat i) by lia.
    assert (Hq : L / f <= 2 ^ Z.of_nat i).
    { apply Z.div_le_upper_bound; lia. }
    destruct (Z.le_gt_cases (Z.log2 (L / f)) (Z.of_nat i)) as [Hle|Hgt]; [exact Hle|exfalso].
    assert (Hqpos : 0 < L / f) by (apply Z.div_str_pos; lia).
    pose proof (Z.log2_spec (L / f) Hqpos) as [Hlo _].
    assert (Hpw : 2 ^ (Z.of_nat i + 1) <= 2 ^ Z.log2 (L / f)) by (apply Z.pow_le_mono_r; lia).
    rewrite Z.pow_add_r in Hpw by lia. change (2 ^ 1) with 2 in Hpw.
    assert (0 < 2 ^ Z.of_nat i) by (apply Z.pow_pos_nonneg; lia). lia.
Qed.

(* non-vacuity: the history of C17_single_history_ex (32768 / 100000): poll number 2 is the first error, and its
   request carried 100000 bytes - not 65536, the largest doubled size below the limit *)
Example C17_single_history_error_only_at_limit_ex :
  exists k4 results,
    single_empty_polls 0 0 results (khB 100000 32768) k4 /\
    (exists e, nth_error results 2 = Some (Err e)) /\
    grow 32768 100000 2 = 100000 /\ grow 32768 100000 1 = 65536 /\ Z.log2 (100000 / 32768) = 1.
Proof.
  destruct C17_single_history_ex as (k4 & results & Hsep & Hout & _).
  exists k4, results. split; [exact Hsep|].
  split.
  { destruct results as [|r0 [|r1 [|r2 rest]]]; try discriminate Hout.
    cbn [map] in Hout. inversion Hout as [[H0 H1 H2 H3]]. destruct r2 as [ms|e|w]; try discriminate H2.
    exists e. reflexivity. }
  repeat split.
Qed.

Check C17_too_large_only_if.
Check C17_alone_too_large_only_if.
Check C17_retry_poll_too_large_only_if.
Check C17_queued_history.
Check C17_queued_history_delivered.
Check C17_queue_weight_bound.
Check C17_solo_polls_drain.
Check C17_single_history_error_only_at_limit.
Print Assumptions C17_too_large_only_if.
Print Assumptions C17_alone_too_large_only_if.
Print Assumptions C17_retry_poll_too_large_only_if.
Print Assumptions C17_queued_history.
Print Assumptions C17_queued_history_delivered.
Print Assumptions C17_queue_weight_bound.
Print Assumptions C17_solo_polls_drain.
Print Assumptions C17_single_history_error_only_at_limit.
