(* C15: exchange completeness.  For every behaviour of the byte stream - partial writes,
   partial reads, interruptions, end of stream, failures, exhaustion of the script - a call
   succeeds only if the whole request was handed over and the whole reply was read;
   otherwise it returns an error; it never panics by itself and never runs out of fuel. *)
From KV Require Import Base.Prelude Gen.Consts Model.Codecs Model.Requests Model.Responses
                       Model.ClientState Model.Net Model.Client.
From KV Require Import Proofs.BytesFacts Proofs.NetFacts.
From Coq Require Import ZifyBool.

(* ---- a concrete client for the examples: one pooled connection to b1:9092 ------------- *)
Definition h1 : bytes := tag "b1:9092".
Definition env0 : codecs :=
  {| gz_compress := fun b => b; sn_compress := fun b => b; gz_decompress := fun _ => None; debug_build := false |}.
Definition cs1 : cstate :=
  {| correlation := 0; brokers := [{| b_node := 1; b_host := h1 |}];
     topic_partitions := [(tag "t", [0])]; group_coordinators := [] |}.
Definition cl1 : client := {| cfg := default_config [h1]; cs := cs1; conns := [h1] |}.
Definition mkst (sc : list ev_out) (c : client) : st :=
  {| script := sc; trace := []; anyq := []; hostq := []; fetchq := []; entryq := []; cl := c; env := env0 |}.

(* ================================================================================== *)
(* 1. write_all                                                                       *)
(* ================================================================================== *)

(* success only if the whole buffer was handed over, for every way of splitting the write:
   the events are EWrite h b_0 .. EWrite h b_m with b_0 = buf, each answered OWrote k_i with
   0 < k_i (then b_{i+1} = skipn k_i b_i and chunk_i = firstn k_i b_i) or OWriteIntr (then the
   same buffer is offered again), the last leaves nothing, and the chunks concatenate to buf *)
Theorem C15_write_all_complete : forall fuel h buf s s',
  write_all fuel h buf s = (Ok tt, s') ->
  exists chunks, wsteps h buf (performed s s') (consumed s s') chunks [] /\ concat chunks = buf.
Proof.
  intros fuel h buf s s' H.
  destruct (write_all_run _ _ _ _ _ _ H) as [_ (ops & outs & chunks & b' & Hw & He)].
  destruct He as [Hr' Hb Hs|o Hb Hbad Hs|Hb Hr' Hd Hs|Hb Hr' Hfu Hs]; try discriminate.
  - subst b'. exists chunks. rewrite (seg_performed _ _ _ _ Hs), (seg_consumed _ _ _ _ Hs).
    split; [exact Hw|]. pose proof (wsteps_concat _ _ _ _ _ _ Hw) as Hc. rewrite app_nil_r in Hc. symmetry. exact Hc.
  - exfalso. exact (write_bad_not_ok _ _ Hbad eq_refl).
Qed.

Example C15_write_all_complete_ex :
  let s := mkst [OWrote 2; OWriteIntr; OWrote 1; OWrote 7] cl1 in
  let buf := tag "abcde" in
  let '(r, s') := with_fuel (fun f => write_all f h1 buf) s in
  r = Ok tt /\
  performed s s' = [EWrite h1 (tag "abcde"); EWrite h1 (tag "cde"); EWrite h1 (tag "cde"); EWrite h1 (tag "de")] /\
  consumed s s' = [OWrote 2; OWriteIntr; OWrote 1; OWrote 7].
Proof. vm_compute. repeat split. Qed.

(* all outcomes: never a panic, never out of fuel; an error exactly when some answer was bad
   (write_bad: OWrote k with k <= 0 gives WriteZero, OWriteFail e gives e, an answer that is
   not a write answer gives EOutOfScript) or the script ran out *)
Theorem C15_write_all_outcomes : forall h buf s r s',
  with_fuel (fun f => write_all f h buf) s = (r, s') ->
  (forall w, r <> Panic w) /\ r <> Err EOutOfFuel /\
  (   (r = Ok tt /\ forallb good_write (consumed s s') = true
       /\ length (performed s s') = length (consumed s s'))
   \/ (exists pre o, consumed s s' = pre ++ [o] /\ forallb good_write pre = true /\ write_bad o r
       /\ length (performed s s') = length (consumed s s'))
   \/ (r = Err EOutOfScript /\ script s' = [] /\ forallb good_write (consumed s s') = true
       /\ length (performed s s') = S (length (consumed s s')))).
Proof.
  intros h buf s r s' H. split; [|split].
  - intros w. eapply nopanic_with_fuel; [intros n; apply nopanic_write_all|exact H].
  - eapply nofuel_write_all_wf; exact H.
  - unfold with_fuel in H. pose proof (write_all_fuel _ _ _ _ _ _ H) as Hnf.
    destruct (write_all_run _ _ _ _ _ _ H) as [_ (ops & outs & chunks & b' & Hw & He)].
    pose proof (wsteps_good _ _ _ _ _ _ Hw) as Hg. pose proof (wsteps_length _ _ _ _ _ _ Hw) as L.
    destruct He as [Hr' Hb Hs|o Hb Hbad Hs|Hb Hr' Hd Hs|Hb Hr' Hfu Hs];
      rewrite (seg_performed _ _ _ _ Hs), (seg_consumed _ _ _ _ Hs).
    + left. repeat split; assumption.
    + right. left. exists outs, o. repeat split; try assumption. rewrite !app_length. cbn [length]. lia.
    + right. right. repeat split; try assumption. rewrite app_length. cbn [length]. lia.
    + exfalso. apply Hnf; [lia|exact Hr'].
Qed.

(* ... in particular WriteZero is reported exactly when the last answer consumed is a write that
   accepted nothing (or the stream itself failed with that very error) *)
Theorem C15_write_zero_iff : forall h buf s r s',
  with_fuel (fun f => write_all f h buf) s = (r, s') ->
  (r = Err (EIo IoWriteZero) <->
   exists pre o, consumed s s' = pre ++ [o] /\ forallb good_write pre = true /\
                 ((exists k, o = OWrote k /\ k <= 0) \/ o = OWriteFail IoWriteZero)).
Proof.
  intros h buf s r s' H. destruct (C15_write_all_outcomes _ _ _ _ _ H) as (_ & _ & Hc). split.
  - intros Hr. destruct Hc as [(Hr' & _)|[(pre & o & Hcons & Hg & Hbad & _)|(Hr' & _)]]; try congruence.
    exists pre, o. split; [exact Hcons|split; [exact Hg|]].
    destruct o as [ok|k| |e|bs| |e|]; cbn [write_bad] in Hbad; try congruence; try contradiction.
    + left. exists k. split; [reflexivity|apply Hbad].
    + right. congruence.
  - intros (pre & o & Hcons & Hg & Ho).
    assert (Hng : good_write o = false).
    { destruct Ho as [[k [-> Hk]]| ->]; cbn [good_write]; [lia|reflexivity]. }
    destruct Hc as [(_ & Hall & _)|[(pre' & o' & Hcons' & _ & Hbad & _)|(_ & _ & Hall & _)]].
    + rewrite Hcons, forallb_app in Hall. cbn [forallb] in Hall. rewrite Hng in Hall.
      rewrite andb_false_r in Hall. discriminate.
    + rewrite Hcons in Hcons'. apply app_inj_tail in Hcons'. destruct Hcons' as [_ <-].
      destruct Ho as [[k [-> Hk]]| ->]; cbn [write_bad] in Hbad; [apply Hbad|exact Hbad].
    + rewrite Hcons, forallb_app in Hall. cbn [forallb] in Hall. rewrite Hng in Hall.
      rewrite andb_false_r in Hall. discriminate.
Qed.

Example C15_write_all_outcomes_ex :
  fst (with_fuel (fun f => write_all f h1 (tag "abcde")) (mkst [OWrote 2; OWrote 0] cl1)) = Err (EIo IoWriteZero) /\
  fst (with_fuel (fun f => write_all f h1 (tag "abcde")) (mkst [OWrote 2; OWriteFail IoTimedOut] cl1)) = Err (EIo IoTimedOut) /\
  fst (with_fuel (fun f => write_all f h1 (tag "abcde")) (mkst [OWrote 2] cl1)) = Err EOutOfScript /\
  fst (with_fuel (fun f => write_all f h1 (tag "abcde")) (mkst [OWrote 2; OData []] cl1)) = Err EOutOfScript.
Proof. vm_compute. repeat split. Qed.

(* ================================================================================== *)
(* 2. read_exact                                                                      *)
(* ================================================================================== *)

(* success only with all n bytes: the result is acc followed by the payloads of the answers
   consumed; the events are ERead h n_0 .. with n_0 = n and n_{i+1} = n_i - |chunk_i|;
   when no read returns more than asked the data is exactly n bytes long *)
Theorem C15_read_exact_complete : forall fuel h n acc s s' bs,
  read_exact fuel h n acc s = (Ok bs, s') -> 0 <= n ->
  exists data n', bs = acc ++ data /\ data = payloads (consumed s s') /\
    rsteps h n (performed s s') (consumed s s') data n' /\ n' <= 0 /\ n <= ulen data /\
    (reads_bounded s s' -> ulen data = n).
Proof.
  intros fuel h n acc s s' bs H Hn.
  destruct (read_exact_ok _ _ _ _ _ _ _ H) as (ops & outs & data & n' & Hr & Hn' & Hs & Hb).
  exists data, n'. unfold reads_bounded. rewrite (seg_performed _ _ _ _ Hs), (seg_consumed _ _ _ _ Hs).
  pose proof (rsteps_need _ _ _ _ _ _ Hr) as Hneed.
  split; [exact Hb|]. split; [symmetry; eapply rsteps_payloads; exact Hr|]. split; [exact Hr|].
  split; [exact Hn'|]. split; [lia|]. intros Hbd.
  pose proof (rsteps_bounded _ _ _ _ _ _ Hr Hbd Hn). lia.
Qed.

Example C15_read_exact_complete_ex :
  let s := mkst [OData (tag "ab"); OReadIntr; OData (tag "c"); OData (tag "de"); OData (tag "zz")] cl1 in
  let '(r, s') := with_fuel (fun f => read_exact f h1 5 []) s in
  r = Ok (tag "abcde") /\
  performed s s' = [ERead h1 5; ERead h1 3; ERead h1 3; ERead h1 2] /\
  script s' = [OData (tag "zz")].
Proof. vm_compute. repeat split. Qed.

(* the error an answer that is not good_read leads to *)
Definition read_failure (o : ev_out) : res bytes :=
  match o with
  | OData _ => Err (EIo IoUnexpectedEof)
  | OReadFail e => Err (EIo e)
  | _ => Err EOutOfScript
  end.

Lemma read_exact_forward h rest o : good_read o = false ->
  forall pre fuel n acc s, script s = pre ++ o :: rest -> forallb good_read pre = true ->
    ulen (payloads pre) < n -> (length pre < fuel)%nat ->
    exists s', read_exact fuel h n acc s = (read_failure o, s') /\ script s' = rest.
Proof.
  intros Ho. induction pre as [|p pre IH]; intros fuel n acc s Hs Hg Hn Hf.
  - destruct fuel as [|f]; [cbn [length] in Hf; lia|]. cbn [read_exact].
    unfold ulen in Hn. cbn [payloads flat_map length] in Hn.
    destruct (n <=? 0) eqn:En; [lia|]. unfold mbind, io. cbn [app] in Hs. rewrite Hs.
    exists (st_with s rest (ERead h n :: trace s)). split; [|reflexivity].
    destruct o as [ok|k| |e|[|b0 bs]| |e|]; cbn [good_read] in Ho; try discriminate; reflexivity.
  - destruct fuel as [|f]; [cbn [length] in Hf; lia|]. cbn [read_exact].
    cbn [forallb] in Hg. apply andb_true_iff in Hg. destruct Hg as [Hp Hg].
    assert (Hn0 : 0 < n).
    { unfold ulen in Hn. pose proof (Nat2Z.is_nonneg (length (payloads (p :: pre)))). lia. }
    destruct (n <=? 0) eqn:En; [lia|]. unfold mbind at 1. unfold io. cbn [app] in Hs. rewrite Hs.
    destruct p as [ok|k| |e|[|b0 bs]| |e|]; cbn [good_read] in Hp; try discriminate.
    + apply IH; [reflexivity|exact Hg| |cbn [length] in Hf; lia].
      unfold ulen in *. cbn [payloads flat_map] in Hn. fold (payloads pre) in Hn. rewrite app_length in Hn. lia.
    + apply IH; [reflexivity|exact Hg| |cbn [length] in Hf; lia].
      cbn [payloads flat_map app] in Hn. exact Hn.
Qed.

(* end of stream (OData []) before n bytes arrived gives UnexpectedEof, a failing read gives its
   error, a foreign answer gives EOutOfScript; nothing after that answer is consumed *)
Theorem C15_read_exact_eof : forall h n acc s pre o rest,
  script s = pre ++ o :: rest -> forallb good_read pre = true -> ulen (payloads pre) < n ->
  good_read o = false ->
  exists s', with_fuel (fun f => read_exact f h n acc) s = (read_failure o, s') /\ script s' = rest.
Proof.
  intros h n acc s pre o rest Hs Hg Hn Ho. unfold with_fuel.
  apply (read_exact_forward h rest o Ho pre); try assumption.
  rewrite Hs, app_length. cbn [length]. lia.
Qed.

Example C15_read_exact_eof_ex :
  with_fuel (fun f => read_exact f h1 5 []) (mkst [OData (tag "ab"); OData []; OData (tag "cde")] cl1)
  = (Err (EIo IoUnexpectedEof),
     st_with (mkst [] cl1) [OData (tag "cde")] [ERead h1 3; ERead h1 5]) /\
  fst (with_fuel (fun f => read_exact f h1 5 []) (mkst [OData (tag "ab"); OReadFail IoTimedOut] cl1))
  = Err (EIo IoTimedOut).
Proof. vm_compute. split; reflexivity. Qed.

(* all outcomes of read_exact with the fuel with_fuel provides *)
Theorem C15_read_exact_outcomes : forall h n acc s r s',
  with_fuel (fun f => read_exact f h n acc) s = (r, s') ->
  (forall w, r <> Panic w) /\ r <> Err EOutOfFuel /\
  (   (exists bs, r = Ok bs /\ forallb good_read (consumed s s') = true
       /\ length (performed s s') = length (consumed s s'))
   \/ (exists pre o, consumed s s' = pre ++ [o] /\ forallb good_read pre = true /\ read_bad o r
       /\ length (performed s s') = length (consumed s s'))
   \/ (r = Err EOutOfScript /\ script s' = [] /\ forallb good_read (consumed s s') = true
       /\ length (performed s s') = S (length (consumed s s')))).
Proof.
  intros h n acc s r s' H. split; [|split].
  - intros w. eapply nopanic_with_fuel; [intros g; apply nopanic_read_exact|exact H].
  - eapply nofuel_read_exact_wf; exact H.
  - unfold with_fuel in H. pose proof (read_exact_fuel _ _ _ _ _ _ _ H) as Hnf.
    destruct (read_exact_run _ _ _ _ _ _ _ H) as [_ (ops & outs & data & n' & Hw & He)].
    destruct (rsteps_reads _ _ _ _ _ _ Hw) as [_ Hg]. pose proof (rsteps_length _ _ _ _ _ _ Hw) as L.
    destruct He as [Hr' Hb Hs|o Hb Hbad Hs|Hb Hr' Hd Hs|Hb Hr' Hfu Hs];
      rewrite (seg_performed _ _ _ _ Hs), (seg_consumed _ _ _ _ Hs).
    + left. exists (acc ++ data). repeat split; assumption.
    + right. left. exists outs, o. repeat split; try assumption. rewrite !app_length. cbn [length]. lia.
    + right. right. repeat split; try assumption. rewrite app_length. cbn [length]. lia.
    + exfalso. apply Hnf; [lia|exact Hr'].
Qed.

(* ================================================================================== *)
(* 3. the request / reply exchange                                                    *)
(* ================================================================================== *)

Lemma reads_bounded_suffix s s1 s' : full s s1 -> ext s1 s' -> reads_bounded s s' -> reads_bounded s1 s'.
Proof.
  intros Hf He Hb. unfold reads_bounded in *.
  rewrite (performed_app _ _ _ (full_ext _ _ Hf) He), (consumed_app _ _ _ (full_ext _ _ Hf) He) in Hb.
  destruct Hf as [outs [ops [Hs L]]]. rewrite (seg_performed _ _ _ _ Hs), (seg_consumed _ _ _ _ Hs) in Hb.
  rewrite combine_app in Hb by exact L. apply Forall_app in Hb. apply Hb.
Qed.

(* A successful exchange: the connection was obtained; then ALL of `frame p` was accepted by
   writes to h (wsteps ... leaving []); then reads on h delivered a header and a body;
   the header (exactly 4 bytes when no read returns more than asked) decodes big-endian to a
   non-negative size; the body is exactly `size` bytes; and the value returned is `d` applied
   to exactly that body.  Nothing else happened on the stream. *)
Theorem C15_exchange_complete : forall A (d : dec A) h payload p s s' a,
  payload = Ok p -> send_receive d h payload s = (Ok a, s') ->
  exists s1 s2 chunks hdr body rest,
    get_conn h s = (Ok tt, s1) /\ full s s1 /\ full s1 s2 /\ full s2 s' /\
    performed s s' = performed s s1 ++ performed s1 s2 ++ performed s2 s' /\
    consumed s s' = consumed s s1 ++ consumed s1 s2 ++ consumed s2 s' /\
    Forall (conn_event h) (performed s s1) /\
    wsteps h (frame p) (performed s1 s2) (consumed s1 s2) chunks [] /\ concat chunks = frame p /\
    reads h (performed s2 s') (consumed s2 s') (hdr ++ body) /\
    4 <= ulen hdr /\ 0 <= be_dec_s hdr /\ be_dec_s hdr <= ulen body /\
    d body = Ok (a, rest) /\
    (reads_bounded s s' -> ulen hdr = 4 /\ ulen body = be_dec_s hdr /\
                           ulen (payloads (consumed s2 s')) = 4 + be_dec_s hdr).
Proof.
  intros A d h payload p s s' a -> H.
  destruct (send_receive_ok _ _ _ _ _ _ H) as (s1 & s2 & z & b & rest & H1 & H2 & H3 & Hd).
  pose proof (stepsR_ok_full _ _ _ (tracks_get_conn h _ _ _ H1)) as F1.
  pose proof (stepsR_ok_full _ _ _ (tracks_send h _ _ _ _ H2)) as F2.
  pose proof (stepsR_ok_full _ _ _ (tracks_get_response_bytes h _ _ _ H3)) as F3.
  destruct (send_ok _ _ _ _ _ H2) as (ops & outs & chunks & Hw & Hs & _).
  destruct (get_response_bytes_ok _ _ _ _ H3) as (rops & routs & b0 & Hrs & Hreads & L4 & Hnn & Hle & Hbd).
  exists s1, s2, chunks, b0, b, rest.
  pose proof (full_ext _ _ F1) as E1. pose proof (full_ext _ _ F2) as E2. pose proof (full_ext _ _ F3) as E3.
  split; [exact H1|]. split; [exact F1|]. split; [exact F2|]. split; [exact F3|].
  split; [rewrite (performed_app s s1 s' E1 (ext_trans _ _ _ E2 E3)), (performed_app s1 s2 s' E2 E3); reflexivity|].
  split; [rewrite (consumed_app s s1 s' E1 (ext_trans _ _ _ E2 E3)), (consumed_app s1 s2 s' E2 E3); reflexivity|].
  split; [apply (ops_get_conn h _ _ _ H1)|].
  rewrite (seg_performed _ _ _ _ Hs), (seg_consumed _ _ _ _ Hs).
  rewrite (seg_performed _ _ _ _ Hrs), (seg_consumed _ _ _ _ Hrs).
  split; [exact Hw|].
  split; [pose proof (wsteps_concat _ _ _ _ _ _ Hw) as Hc; rewrite app_nil_r in Hc; symmetry; exact Hc|].
  split; [exact Hreads|]. split; [exact L4|]. split; [exact Hnn|]. split; [exact Hle|]. split; [exact Hd|].
  intros Hb. assert (Hb2 : reads_bounded s2 s').
  { eapply reads_bounded_suffix; [eapply full_trans; [exact F1|exact F2]|exact E3|exact Hb]. }
  unfold reads_bounded in Hb2. rewrite (seg_performed _ _ _ _ Hrs), (seg_consumed _ _ _ _ Hrs) in Hb2.
  destruct (Hbd Hb2) as [Hh Hbody]. split; [exact Hh|]. split; [exact Hbody|].
  destruct Hreads as (_ & _ & _ & ->). unfold ulen in *. rewrite app_length. lia.
Qed.

(* a reply of 3 + 10 bytes arriving in pieces, the request accepted in two pieces *)
Definition ex_reply : bytes :=
  enc_i32 7 ++ enc_i32 1 ++ enc_i16 3 ++ tag "abc" ++ enc_i32 0.     (* corr 7, one topic "abc", no partitions *)
Example C15_exchange_complete_ex :
  let s := mkst [OWrote 3; OWrote 100; OData [x00; x00]; OData [x00; x11]; OData (firstn 5 ex_reply);
                 OData (skipn 5 ex_reply); OData (tag "next")] cl1 in
  let '(r, s') := send_receive dec_offset_resp h1 (Ok (tag "REQUEST")) s in
  r = Ok (7, [(tag "abc", [])]) /\ script s' = [OData (tag "next")] /\
  performed s s' = [EWrite h1 (frame (tag "REQUEST")); EWrite h1 (skipn 3 (frame (tag "REQUEST")));
                    ERead h1 4; ERead h1 2; ERead h1 17; ERead h1 12] /\
  reads_bounded s s'.
Proof.
  vm_compute. split; [reflexivity|]. split; [reflexivity|]. split; [reflexivity|].
  repeat constructor; discriminate.
Qed.

(* never out of fuel by itself, never a panic by itself: these can only come from the encoded
   payload handed in or from the decoder applied to the bytes received *)
Theorem C15_total : forall A (d : dec A) h payload s r s',
  send_receive d h payload s = (r, s') ->
  ((exists a, r = Ok a) \/ (exists e, r = Err e) \/ (exists w, r = Panic w)) /\
  (r = Err EOutOfFuel ->
     payload = Err EOutOfFuel \/
     exists s2 b, get_response_bytes h s2 = (Ok b, s') /\ d b = Err EOutOfFuel) /\
  (forall w, r = Panic w ->
     payload = Panic w \/
     exists s2 b, get_response_bytes h s2 = (Ok b, s') /\ d b = Panic w).
Proof.
  intros A d h payload s r s' H. split.
  { destruct r as [a|e|w]; [left; exists a|right; left; exists e|right; right; exists w]; reflexivity. }
  unfold send_receive in H. bind_inv H u s1 H1 H2.
  - bind_inv H2 z s2 H3 H4.
    + destruct (get_response_inv _ _ _ _ _ H4) as [[b [Hb Hr]]|[e [Hb Hr]]].
      * split.
        -- intros E. right. exists s2, b. split; [exact Hb|]. subst r.
           destruct (d b) as [[a rest]|e|w]; try discriminate. inversion E; reflexivity.
        -- intros w E. right. exists s2, b. split; [exact Hb|]. subst r.
           destruct (d b) as [[a rest]|e|w']; try discriminate. inversion E; reflexivity.
      * split.
        -- intros E. subst r. inversion E; subst. exfalso. exact (nofuel_get_response_bytes _ _ _ _ Hb eq_refl).
        -- intros w E. subst r. discriminate.
    + unfold send_request in H3. unfold mbind at 1 in H3. unfold lift in H3.
      destruct payload as [p|e|w]; subst r.
      * split; [|intros w E; discriminate]. intros E. inversion E; subst.
        exfalso. exact (nofuel_send _ _ _ _ _ H3 eq_refl).
      * inversion H3; subst. split; [intros E; left; inversion E; reflexivity|intros w E; discriminate].
      * discriminate.
    + unfold send_request in H3. unfold mbind at 1 in H3. unfold lift in H3.
      destruct payload as [p|e|w]; subst r.
      * exfalso. exact (nopanic_send _ _ _ _ _ _ H3 eq_refl).
      * discriminate.
      * inversion H3; subst. split; [intros E; discriminate|intros w E; left; inversion E; reflexivity].
  - subst r. split; [|intros w E; discriminate]. intros E. inversion E; subst.
    exfalso. exact (nofuel_get_conn _ _ _ _ H1 eq_refl).
  - exfalso. exact (nopanic_get_conn _ _ _ _ _ H1 eq_refl).
Qed.

(* with a payload that encoded and a decoder that neither panics nor runs out of fuel, the call
   returns Ok or a proper error *)
Corollary C15_total_proper : forall A (d : dec A) h p s,
  (forall b w, d b <> Panic w) -> (forall b, d b <> Err EOutOfFuel) ->
  (exists a, fst (send_receive d h (Ok p) s) = Ok a) \/
  (exists e, fst (send_receive d h (Ok p) s) = Err e /\ e <> EOutOfFuel).
Proof.
  intros A d h p s Hp Hf. destruct (send_receive d h (Ok p) s) as [r s'] eqn:E. cbn [fst].
  destruct (C15_total _ _ _ _ _ _ _ E) as (_ & Hfu & Hpa). destruct r as [a|e|w].
  - left. exists a. reflexivity.
  - right. exists e. split; [reflexivity|]. intros ->.
    destruct (Hfu eq_refl) as [Hx|(s2 & b & _ & Hx)]; [discriminate|exact (Hf _ Hx)].
  - exfalso. destruct (Hpa w eq_refl) as [Hx|(s2 & b & _ & Hx)]; [discriminate|exact (Hp _ _ Hx)].
Qed.

(* a negative size prefix: CodecError, and the final state is the one right after the 4-byte
   read - nothing further is read *)
Theorem C15_negative_size : forall A (d : dec A) h s b s1,
  with_fuel (fun f => read_exact f h 4 []) s = (Ok b, s1) -> be_dec_s b < 0 ->
  get_response d h s = (Err ECodec, s1).
Proof.
  intros A d h s b s1 H Hneg. unfold get_response, get_response_bytes, get_response_size.
  rewrite (mbind_err (mbind _ _) _ s ECodec s1); [reflexivity|].
  rewrite (mbind_err _ _ s ECodec s1); [reflexivity|].
  rewrite (mbind_ok _ _ s b s1 H). cbv zeta. destruct (be_dec_s b <? 0) eqn:E; [reflexivity|lia].
Qed.

Example C15_negative_size_ex :
  let s := mkst [OWrote 100; OData (enc_i32 (-5)); OData (tag "never read")] cl1 in
  let '(r, s') := send_receive dec_offset_resp h1 (Ok (tag "REQUEST")) s in
  r = Err ECodec /\ script s' = [OData (tag "never read")] /\
  performed s s' = [EWrite h1 (frame (tag "REQUEST")); ERead h1 4].
Proof. vm_compute. repeat split. Qed.

(* ================================================================================== *)
(* 4. finding F17: a late reply is credited to the next request                       *)
(* ================================================================================== *)

(* The first call writes its request completely and then times out reading; the connection
   stays pooled.  The broker's reply to that FIRST request (latest offset 42, correlation 1)
   arrives later and is consumed by the SECOND call, which asked for the earliest offset with
   correlation 2: it reports 42.  The correlation id of a reply is never compared. *)
Definition reply_to_first : bytes :=
  enc_i32 1 ++ enc_i32 1 ++ enc_i16 1 ++ tag "t" ++ enc_i32 1 ++ enc_i32 0 ++ enc_i16 0 ++ enc_i32 1 ++ enc_i64 42.

Definition late_script : list ev_out :=
  [OWrote 1000; OReadFail IoTimedOut;
   OWrote 1000; OData (enc_i32 (ulen reply_to_first)); OData reply_to_first].

Theorem C15_attribution_refuted :
  exists (script0 : list ev_out) (h : bytes) (p1 p2 : bytes),
    let s := mkst script0 cl1 in
    enc_offset_req 1 [] [(tag "t", [(0, -1)])] = Ok p1 /\          (* latest, correlation 1 *)
    enc_offset_req 2 [] [(tag "t", [(0, -2)])] = Ok p2 /\          (* earliest, correlation 2 *)
    let '(r1, s1) := send_receive dec_offset_resp h (Ok p1) s in
    let '(r2, s2) := send_receive dec_offset_resp h (Ok p2) s1 in
    r1 = Err (EIo IoTimedOut) /\
    performed s s1 = [EWrite h (frame p1); ERead h 4] /\            (* the first request went out whole *)
    consumed s s1 = [OWrote 1000; OReadFail IoTimedOut] /\
    conns (cl s1) = [h] /\                                           (* the connection stays pooled *)
    performed s1 s2 = [EWrite h (frame p2); ERead h 4; ERead h (ulen reply_to_first)] /\
    payloads (consumed s1 s2) = enc_i32 (ulen reply_to_first) ++ reply_to_first /\
    (* the second call returns the content of the reply to the first: correlation 1, offset 42 *)
    r2 = Ok (1, [(tag "t", [{| por_partition := 0; por_error := 0; por_offsets := [42] |}])]).
Proof.
  exists late_script, h1.
  eexists. eexists. cbv zeta. split; [vm_compute; reflexivity|]. split; [vm_compute; reflexivity|].
  vm_compute. repeat split.
Qed.

(* the same through the public operation: two fetch_offsets calls on one client *)
Theorem C15_attribution_refuted_fetch_offsets :
  exists (script0 : list ev_out),
    let s := mkst script0 cl1 in
    let '(r1, s1) := fetch_offsets [tag "t"] (-1) s in       (* latest *)
    let '(r2, s2) := fetch_offsets [tag "t"] (-2) s1 in      (* earliest *)
    r1 = Err (EIo IoTimedOut) /\
    consumed s s1 = [OWrote 1000; OReadFail IoTimedOut] /\
    r2 = Ok [(tag "t", [(0, 42)])] /\
    payloads (consumed s1 s2) = enc_i32 (ulen reply_to_first) ++ reply_to_first /\
    dec_offset_resp reply_to_first
      = Ok ((1, [(tag "t", [{| por_partition := 0; por_error := 0; por_offsets := [42] |}])]), []) /\
    correlation (cs (cl s2)) = 2.
Proof. exists late_script. vm_compute. repeat split. Qed.

Print Assumptions C15_write_all_complete.
Print Assumptions C15_write_all_outcomes.
Print Assumptions C15_write_zero_iff.
Print Assumptions C15_read_exact_complete.
Print Assumptions C15_read_exact_eof.
Print Assumptions C15_read_exact_outcomes.
Print Assumptions C15_exchange_complete.
Print Assumptions C15_total.
Print Assumptions C15_total_proper.
Print Assumptions C15_negative_size.
Print Assumptions C15_attribution_refuted.
Print Assumptions C15_attribution_refuted_fetch_offsets.
