(* C06: "Requests are routed by the latest loaded metadata, over any load history"
   (src/client/state.rs update_metadata / update_brokers / clear_metadata / find_broker,
    src/client/mod.rs fetch_metadata / fetch_offsets / fetch_messages / internal_produce_messages).

   SPEC (section 1, meant to be checked by reading): an abstract view `aview` (node id -> "host:port",
   topic -> per partition id the leader NODE ID), `merge` (what one metadata response does to the view),
   `abs` (the view a concrete index-based state stands for), `inv`, `wf_md`, `route`, `leader_of`.
   C06_merge_host_lookup / C06_merge_topic_lookup read `merge` pointwise: a node id maps to the host:port of
   the LAST broker entry of the response with that id, else to what it mapped to before; a topic maps to the
   vector built from the LAST topic entry of the response with that name, else to its old vector.
   Equalities are plain `=` on the association lists (the order of first insertion is part of both sides).

   PROVED (all Qed, no axioms; Print Assumptions at the end; an Example follows every main theorem):
   - C06_update_total, C06_inv_init, C06_inv_step (any md), C06_inv_clear, C06_clear   as requested.
   - C06_refines_code : for ANY md (also ill-formed), abs s' = merge_code (abs s) md, where merge_code is the
     faithful reading (a known topic's vector is resized and only the listed in-range ids are overwritten);
     merge_code_wf : merge_code = merge on well-formed responses;  C06_refines : the requested statement;
     C06_refines_refuted_without_wf : it is false without wf_md.
   - C06_history, C06_routing (= C06_routing' with `route`), C06_stable_indices (+ C06_stable_refs on the raw
     indices, C06_stable_nodes on the broker vector),
     C06_leaderless_never_addressed (offsets), C06_fetch_addressed, C06_produce_addressed,
     C06_addressed_has_leader, C06_no_leader_no_address,
     C06_produce_unavailable / C06_produce_reports_unavailable, C06_fetch_skips.
   - C06_bootstrap_none, C06_bootstrap_first, C06_response_reads_only + C06_bootstrap_first_trace (after the
     write only reads from host k+1 follow: no further host is contacted), C06_bootstrap_encode_error.
     The bootstrap theorems assume "no pooled connection for the hosts tried" (weaker than "pool empty").
   NOT COVERED: that the monadic exchanges (offsets_exchange, fetch_exchange, produce_exchange) write each
   entry of the request map to its host key; the theorems stop at the request maps.

   ONE HYPOTHESIS FORCED BY THE MODEL, visible in the statements as `small s'`:
     ulen (brokers s') <= UNKNOWN_BROKER_INDEX (= 2^32-1).
   "No leader" is stored as the index 4294967295 and find_broker does `brokers.get(index)` without
   testing for the sentinel, so with 2^32 brokers in the vector the sentinel would be a valid index.
   Unreachable in practice (memory). C06_inv_step, C06_routing and the addressing theorems do not need it;
   only the statements that say "an unknown leader is None in the view" do (refines / history /
   stable_indices). `small_step` gives the input-only sufficient condition
   |brokers s| + |md_brokers md| <= 2^32-1; C06_history asks for it summed over the history.

   BEHAVIOUR THAT DOES NOT MATCH THE INFORMAL PROPERTY (concrete inputs: the Examples named below):
   - ill-formed partition ids: ex_illformed_keeps_stale_leader (ids {0,5} listed for a known topic:
     partition 1 keeps its OLD leader although the response does not mention it, id 5 is dropped),
     ex_illformed_out_of_range_dropped (one partition listed with id 1: the topic gets a leaderless
     partition 0 and the listed partition 1 is dropped).
   - a leader that is not among the brokers known after the broker merge is recorded as "no leader", and it
     stays so even when a later response advertises that broker but does not list the topic:
     ex_leader_before_broker.
   - brokers are never forgotten except by reset: ex_broker_disappears (requests keep going to the last
     advertised address of a broker that later responses no longer list).
   - fetch and offset requests silently skip partitions without leader (C06_fetch_skips, ex_offset_reqs); only
     produce reports UnknownTopicOrPartition, for the whole batch (C06_produce_reports_unavailable).
   - bootstrap: a request that fails to ENCODE (e.g. client id longer than i16::MAX) is treated like an
     unreachable host: every host is connected to, nothing is written, the result is NoHostReachable
     (C06_bootstrap_encode_error, ex_bootstrap_encode_error). *)
From Coq Require Import ZifyBool Sorting.Permutation.
From KV Require Import Base.Prelude Gen.Consts Model.Codecs Model.Requests Model.Responses
                       Model.ClientState Model.Net Model.Client.
From KV Require Import Proofs.BytesFacts.

(* ================================================================================================ *)
(* 1. The abstract specification                                                                    *)
(* ================================================================================================ *)

Record aview := {
  a_host : list (Z * bytes);                   (* broker node id -> "host:port", at most one entry per id *)
  a_topics : list (bytes * list (option Z))    (* topic -> per partition id: leader node id, if a known broker *)
}.
Definition empty_view : aview := {| a_host := []; a_topics := [] |}.

(* association lists as maps: replace the value of the first entry with key k, or append (k, v) *)
Fixpoint zset {V} (l : list (Z * V)) (k : Z) (v : V) : list (Z * V) :=
  match l with
  | [] => [(k, v)]
  | (k', v') :: r => if k' =? k then (k', v) :: r else (k', v') :: zset r k v
  end.
Fixpoint bset {V} (l : list (bytes * V)) (k : bytes) (v : V) : list (bytes * V) :=
  match l with
  | [] => [(k, v)]
  | (k', v') :: r => if bytes_eqb k' k then (k', v) :: r else (k', v') :: bset r k v
  end.

Definition known (h : list (Z * bytes)) (n : Z) : bool :=
  match assoc_z n h with Some _ => true | None => false end.
Definition known_leader (h : list (Z * bytes)) (l : Z) : option Z := if known h l then Some l else None.

(* every broker of the response overrides / adds  id -> "host:port"; later duplicates win *)
Definition merge_hosts (h : list (Z * bytes)) (bms : list broker_md) : list (Z * bytes) :=
  fold_left (fun h m => zset h (bm_node m) (host_port (bm_host m) (bm_port m))) bms h.

(* the leader listed for partition id i: the LAST listed partition with that id wins *)
Fixpoint listed_leader (pms : list partition_md) (i : Z) : option Z :=
  match pms with
  | [] => None
  | pm :: r => match listed_leader r i with
               | Some l => Some l
               | None => if pm_id pm =? i then Some (pm_leader pm) else None
               end
  end.

(* the new vector of a topic: one slot per listed partition *)
Definition leader_vec (h : list (Z * bytes)) (pms : list partition_md) : list (option Z) :=
  map (fun i => match listed_leader pms i with Some l => known_leader h l | None => None end)
      (iota_z (length pms) 0).

(* merge, the simple reading: every listed topic is REPLACED *)
Definition merge (a : aview) (md : metadata_resp) : aview :=
  let h := merge_hosts (a_host a) (md_brokers md) in
  {| a_host := h;
     a_topics := fold_left (fun ts tm => bset ts (tm_topic tm) (leader_vec h (tm_partitions tm)))
                           (md_topics md) (a_topics a) |}.

(* merge, the faithful reading: the old vector of a known topic is resized to the number of listed
   partitions (truncate / extend with None) and only the listed in-range ids are overwritten *)
Fixpoint resize {A} (d : A) (l : list A) (m : nat) : list A :=
  match m with
  | O => []
  | S k => match l with [] => d :: resize d [] k | x :: r => x :: resize d r k end
  end.
Fixpoint set_nth {A} (l : list A) (i : nat) (v : A) : list A :=
  match l, i with
  | [], _ => []
  | _ :: r, O => v :: r
  | x :: r, S k => x :: set_nth r k v
  end.
Fixpoint sync_opt (h : list (Z * bytes)) (pms : list partition_md) (v : list (option Z)) : list (option Z) :=
  match pms with
  | [] => v
  | pm :: r => if (pm_id pm <? 0) || (ulen v <=? pm_id pm) then sync_opt h r v
               else sync_opt h r (set_nth v (Z.to_nat (pm_id pm)) (known_leader h (pm_leader pm)))
  end.
Definition code_vec (h : list (Z * bytes)) (old : option (list (option Z))) (pms : list partition_md) :=
  sync_opt h pms (resize None (match old with Some v => v | None => [] end) (length pms)).
Definition merge_code (a : aview) (md : metadata_resp) : aview :=
  let h := merge_hosts (a_host a) (md_brokers md) in
  {| a_host := h;
     a_topics := fold_left (fun ts tm => bset ts (tm_topic tm)
                                              (code_vec h (assoc_bytes (tm_topic tm) ts) (tm_partitions tm)))
                           (md_topics md) (a_topics a) |}.

(* the view a concrete state stands for *)
Definition bpair (b : broker) : Z * bytes := (b_node b, b_host b).
Definition ref_node (bs : list broker) (i : Z) : option Z := option_map b_node (nth_z bs i).
Definition abs_tps (bs : list broker) (tps : list (bytes * list Z)) : list (bytes * list (option Z)) :=
  map (fun tp => (fst tp, map (ref_node bs) (snd tp))) tps.
Definition abs (s : cstate) : aview :=
  {| a_host := map bpair (brokers s); a_topics := abs_tps (brokers s) (topic_partitions s) |}.

(* representation invariant (the coordinator cache is deliberately not part of it) *)
Definition ref_ok (bs : list broker) (i : Z) : Prop := i = UNKNOWN_BROKER_INDEX \/ 0 <= i < ulen bs.
Definition inv (s : cstate) : Prop :=
  NoDup (map b_node (brokers s)) /\
  Forall (fun tp => Forall (ref_ok (brokers s)) (snd tp)) (topic_partitions s) /\
  NoDup (map fst (topic_partitions s)).
Definition small (s : cstate) : Prop := ulen (brokers s) <= UNKNOWN_BROKER_INDEX.

(* well-formed response: the ids listed for a topic are a permutation of 0..n-1 *)
Definition wf_topic (tm : topic_md) : Prop :=
  Permutation (map pm_id (tm_partitions tm)) (iota_z (length (tm_partitions tm)) 0).
Definition wf_md (md : metadata_resp) : Prop := Forall wf_topic (md_topics md).

(* where the view says a request for (t, p) goes *)
Definition leader_of (a : aview) (t : bytes) (p : Z) : option Z :=
  match assoc_bytes t (a_topics a) with
  | Some ps => match nth_z ps p with Some (Some l) => Some l | _ => None end
  | None => None
  end.
Definition route (a : aview) (t : bytes) (p : Z) : option bytes :=
  match assoc_bytes t (a_topics a) with
  | Some ps => match nth_z ps p with Some (Some l) => assoc_z l (a_host a) | _ => None end
  | None => None
  end.

(* histories: None = reset_metadata, Some md = a (full or partial) load that received md *)
Definition step_c (r : res cstate) (op : option metadata_resp) : res cstate :=
  let* s := r in match op with None => Ok (clear_metadata s) | Some md => update_metadata s md end.
Definition step_a (a : aview) (op : option metadata_resp) : aview :=
  match op with None => empty_view | Some md => merge a md end.
Definition wf_op (op : option metadata_resp) : Prop := match op with None => True | Some md => wf_md md end.
Definition listed_brokers (ops : list (option metadata_resp)) : Z :=
  fold_right (fun op n => match op with None => n | Some md => ulen (md_brokers md) + n end) 0 ops.

(* ---- concrete inputs used by the non-vacuity examples ------------------------------------------- *)
Definition ex_pm (id leader : Z) : partition_md :=
  {| pm_error := 0; pm_id := id; pm_leader := leader; pm_replicas := [leader]; pm_isr := [leader] |}.
Definition ex_bm (node : Z) (host : bytes) (port : Z) : broker_md :=
  {| bm_node := node; bm_host := host; bm_port := port |}.
Definition ex_tm (t : bytes) (pms : list partition_md) : topic_md :=
  {| tm_error := 0; tm_topic := t; tm_partitions := pms |}.
(* load 1: brokers 1 and 2; topic a with partitions 1 (leader 2) and 0 (leader 1), listed out of order *)
Definition ex_md1 : metadata_resp :=
  {| md_corr := 1; md_brokers := [ex_bm 1 (tag "h1") 9092; ex_bm 2 (tag "h2") 9092];
     md_topics := [ex_tm (tag "a") [ex_pm 1 2; ex_pm 0 1]] |}.
(* load 2 (partial): broker 2 moved to port 9093; topic b *)
Definition ex_md2 : metadata_resp :=
  {| md_corr := 2; md_brokers := [ex_bm 2 (tag "h2") 9093]; md_topics := [ex_tm (tag "b") [ex_pm 0 2]] |}.
(* load 3: broker 2 is no longer advertised, but still leads a/1 *)
Definition ex_md3 : metadata_resp :=
  {| md_corr := 3; md_brokers := [ex_bm 1 (tag "h1") 9092];
     md_topics := [ex_tm (tag "a") [ex_pm 0 1; ex_pm 1 2]] |}.
(* ill-formed: two partitions listed for a, with ids 0 and 5 *)
Definition ex_md_ill : metadata_resp :=
  {| md_corr := 4; md_brokers := []; md_topics := [ex_tm (tag "a") [ex_pm 0 2; ex_pm 5 1]] |}.
(* topic c: partition 0 led by node 7, which is not among the advertised brokers; partition 1 led by 1 *)
Definition ex_md5 : metadata_resp :=
  {| md_corr := 5; md_brokers := [ex_bm 1 (tag "h1") 9092];
     md_topics := [ex_tm (tag "c") [ex_pm 0 7; ex_pm 1 1]] |}.
(* node 7 is advertised later, by a response that does not list topic c *)
Definition ex_md6 : metadata_resp :=
  {| md_corr := 6; md_brokers := [ex_bm 7 (tag "h7") 9092]; md_topics := [] |}.
(* ill-formed: ONE partition listed for d, with id 1 *)
Definition ex_md7 : metadata_resp :=
  {| md_corr := 7; md_brokers := [ex_bm 1 (tag "h1") 9092]; md_topics := [ex_tm (tag "d") [ex_pm 1 1]] |}.

Definition ex_load (s : cstate) (md : metadata_resp) : cstate :=
  match update_metadata s md with Ok s' => s' | _ => s end.
Definition ex_s1 : cstate := ex_load cstate_new ex_md1.
Definition ex_s2 : cstate := ex_load ex_s1 ex_md2.
Definition ex_s3 : cstate := ex_load ex_s2 ex_md3.
Definition ex_s5 : cstate := ex_load cstate_new ex_md5.
Definition ex_s6 : cstate := ex_load ex_s5 ex_md6.
Definition ex_ops : list (option metadata_resp) := [Some ex_md1; Some ex_md2; None; Some ex_md2].

Definition ex_env : codecs :=
  {| gz_compress := fun b => b; sn_compress := fun b => b; gz_decompress := fun b => Some b; debug_build := false |}.
Definition ex_st (hs : list bytes) (sc : list ev_out) : st :=
  {| script := sc; trace := []; anyq := []; hostq := []; fetchq := []; entryq := []; cl := client_new hs;
     env := ex_env |}.
Definition ex_hs : list bytes := [tag "a:1"; tag "b:2"; tag "c:3"].

(* ================================================================================================ *)
(* 2. Generic list facts                                                                            *)
(* ================================================================================================ *)

Ltac beq := repeat match goal with
  | H : bytes_eqb _ _ = true |- _ => apply bytes_eqb_eq in H
  | H : bytes_eqb _ _ = false |- _ => apply bytes_eqb_neq in H
  end.

Lemma ulen_map {A B} (f : A -> B) l : ulen (map f l) = ulen l.
Proof. unfold ulen. rewrite map_length. reflexivity. Qed.

Lemma nth_z_map {A B} (f : A -> B) l i : nth_z (map f l) i = option_map f (nth_z l i).
Proof.
  unfold nth_z, ulen. rewrite map_length.
  destruct ((i <? 0) || (Z.of_nat (length l) <=? i)); [reflexivity | apply nth_error_map].
Qed.

Lemma nth_z_some {A} (l : list A) i x :
  nth_z l i = Some x <-> 0 <= i /\ nth_error l (Z.to_nat i) = Some x.
Proof.
  unfold nth_z, ulen. split.
  - destruct ((i <? 0) || (Z.of_nat (length l) <=? i)) eqn:E; [discriminate|]. intros H; split; [lia | exact H].
  - intros [H0 H1]. assert (Hlt : (Z.to_nat i < length l)%nat) by (apply nth_error_Some; congruence).
    destruct ((i <? 0) || (Z.of_nat (length l) <=? i)) eqn:E; [lia | exact H1].
Qed.

Lemma nth_z_app1 {A} (l l' : list A) i : i < ulen l -> nth_z (l ++ l') i = nth_z l i.
Proof.
  unfold nth_z, ulen. rewrite app_length. intros H.
  destruct (i <? 0) eqn:E0; [reflexivity|]. cbn [orb].
  destruct (Z.of_nat (length l + length l') <=? i) eqn:E1; [lia|].
  destruct (Z.of_nat (length l) <=? i) eqn:E2; [lia|].
  apply nth_error_app1. lia.
Qed.

Lemma nth_error_ext' {A} : forall (l1 l2 : list A),
  (forall k, nth_error l1 k = nth_error l2 k) -> l1 = l2.
Proof.
  induction l1 as [|x l1 IH]; intros [|y l2] H.
  - reflexivity.
  - specialize (H O). discriminate.
  - specialize (H O). discriminate.
  - pose proof (H O) as H0. cbn [nth_error] in H0. injection H0 as ->. f_equal.
    apply IH. intros k. exact (H (S k)).
Qed.

Lemma resize_length {A} (d : A) : forall m l, length (resize d l m) = m.
Proof. induction m as [|m IH]; intros [|x l]; cbn [resize length]; auto. Qed.

Lemma map_resize {A B} (f : A -> B) d : forall m l, map f (resize d l m) = resize (f d) (map f l) m.
Proof. induction m as [|m IH]; intros [|x l]; cbn [resize map]; auto; f_equal; [apply (IH []) | apply IH]. Qed.

Lemma Forall_resize {A} (P : A -> Prop) d : P d -> forall m l, Forall P l -> Forall P (resize d l m).
Proof.
  intros Hd. induction m as [|m IH]; intros l Hl; cbn [resize]; [constructor|].
  destruct l as [|x l]; constructor; auto. - inversion Hl; auto. - inversion Hl; auto.
Qed.

Lemma set_nth_length {A} : forall (l : list A) i v, length (set_nth l i v) = length l.
Proof. induction l as [|x l IH]; intros [|i] v; cbn [set_nth length]; auto. Qed.

Lemma map_set_nth {A B} (f : A -> B) : forall l i v, map f (set_nth l i v) = set_nth (map f l) i (f v).
Proof. induction l as [|x l IH]; intros [|i] v; cbn [set_nth map]; auto; f_equal; auto. Qed.

Lemma Forall_set_nth {A} (P : A -> Prop) v : P v -> forall l i, Forall P l -> Forall P (set_nth l i v).
Proof.
  intros Hv. induction l as [|x l IH]; intros [|i] Hl; cbn [set_nth]; auto; inversion Hl; subst; constructor; auto.
Qed.

Lemma nth_error_set_nth {A} : forall (l : list A) i k v, (k < length l)%nat ->
  nth_error (set_nth l i v) k = if Nat.eqb i k then Some v else nth_error l k.
Proof.
  induction l as [|x l IH]; intros i k v Hk; cbn [length] in Hk; [lia|].
  destruct i as [|i], k as [|k]; cbn [set_nth nth_error Nat.eqb]; auto. apply IH. lia.
Qed.

Lemma resize_refs_eq : forall m ps, resize_refs ps m = resize UNKNOWN_BROKER_INDEX ps m.
Proof. induction m as [|m IH]; intros [|p ps]; cbn [resize_refs resize]; auto; f_equal; auto. Qed.

Lemma set_ref_eq : forall ps i v, set_ref ps i v = set_nth ps i v.
Proof. induction ps as [|p ps IH]; intros [|i] v; cbn [set_ref set_nth]; auto; f_equal; auto. Qed.

Lemma iota_length : forall n from, length (iota_z n from) = n.
Proof. induction n as [|n IH]; intros from; cbn [iota_z length]; auto. Qed.

Lemma iota_nth : forall n from k, (k < n)%nat -> nth_error (iota_z n from) k = Some (from + Z.of_nat k).
Proof.
  induction n as [|n IH]; intros from k Hk; [lia|]. destruct k as [|k]; cbn [iota_z nth_error].
  - f_equal; lia.
  - rewrite IH by lia. f_equal; lia.
Qed.

Lemma iota_in : forall n from i, In i (iota_z n from) <-> from <= i < from + Z.of_nat n.
Proof.
  induction n as [|n IH]; intros from i; cbn [iota_z In].
  - lia.
  - rewrite IH. lia.
Qed.

(* ---- association lists -------------------------------------------------------------------------- *)
Lemma assoc_z_zset {V} : forall (l : list (Z * V)) k v n,
  assoc_z n (zset l k v) = if k =? n then Some v else assoc_z n l.
Proof.
  induction l as [|[k' v'] l IH]; intros k v n; cbn [zset assoc_z].
  - reflexivity.
  - destruct (k' =? k) eqn:E; cbn [assoc_z].
    + destruct (k' =? n) eqn:E1, (k =? n) eqn:E2; try reflexivity; lia.
    + destruct (k' =? n) eqn:E1; [| apply IH]. destruct (k =? n) eqn:E2; [lia | reflexivity].
Qed.

Lemma assoc_z_none {V} : forall (l : list (Z * V)) n, assoc_z n l = None <-> ~ In n (map fst l).
Proof.
  induction l as [|[k v] l IH]; intros n; cbn [assoc_z map In fst].
  - tauto.
  - destruct (k =? n) eqn:E.
    + split; [discriminate | intros H; exfalso; apply H; left; lia].
    + rewrite IH. split; [intros H [H1|H1]; [lia | auto] | tauto].
Qed.

Lemma zset_absent {V} : forall (l : list (Z * V)) k v, assoc_z k l = None -> zset l k v = l ++ [(k, v)].
Proof.
  induction l as [|[k' v'] l IH]; intros k v H; cbn [zset app]; [reflexivity|].
  cbn [assoc_z] in H. destruct (k' =? k); [discriminate|]. f_equal. auto.
Qed.

Lemma idx_insert_zset : forall idx k v, idx_insert idx k v = zset idx k v.
Proof. induction idx as [|[k' v'] idx IH]; intros k v; cbn [idx_insert zset]; auto. rewrite IH. reflexivity. Qed.

Lemma assoc_bytes_bset {V} : forall (l : list (bytes * V)) k v t,
  assoc_bytes t (bset l k v) = if bytes_eqb k t then Some v else assoc_bytes t l.
Proof.
  induction l as [|[k' v'] l IH]; intros k v t; cbn [bset assoc_bytes].
  - reflexivity.
  - destruct (bytes_eqb k' k) eqn:E; cbn [assoc_bytes].
    + destruct (bytes_eqb k' t) eqn:E1, (bytes_eqb k t) eqn:E2; try reflexivity; beq; congruence.
    + destruct (bytes_eqb k' t) eqn:E1; [| apply IH].
      destruct (bytes_eqb k t) eqn:E2; [beq; congruence | reflexivity].
Qed.

Lemma bset_bset {V} : forall (l : list (bytes * V)) k v w, bset (bset l k v) k w = bset l k w.
Proof.
  induction l as [|[k' v'] l IH]; intros k v w; cbn [bset].
  - rewrite bytes_eqb_refl. reflexivity.
  - destruct (bytes_eqb k' k) eqn:E; cbn [bset]; rewrite E; [reflexivity | f_equal; auto].
Qed.

Lemma tp_set_bset : forall tps t ps, tp_set tps t ps = bset tps t ps.
Proof. induction tps as [|[k v] l IH]; intros t ps; cbn [tp_set bset]; auto. rewrite IH. reflexivity. Qed.

Lemma map_bset {V W} (f : V -> W) : forall (l : list (bytes * V)) k v,
  map (fun tp => (fst tp, f (snd tp))) (bset l k v) = bset (map (fun tp => (fst tp, f (snd tp))) l) k (f v).
Proof.
  induction l as [|[k' v'] l IH]; intros k v; cbn [bset map fst snd]; [reflexivity|].
  destruct (bytes_eqb k' k); cbn [map fst snd]; [reflexivity | f_equal; auto].
Qed.

Lemma assoc_bytes_map {V W} (f : V -> W) : forall (l : list (bytes * V)) t,
  assoc_bytes t (map (fun tp => (fst tp, f (snd tp))) l) = option_map f (assoc_bytes t l).
Proof.
  induction l as [|[k v] l IH]; intros t; cbn [map assoc_bytes fst snd]; [reflexivity|].
  destruct (bytes_eqb k t); [reflexivity | auto].
Qed.

Lemma assoc_bytes_in {V} : forall (l : list (bytes * V)) t v, assoc_bytes t l = Some v -> In (t, v) l.
Proof.
  induction l as [|[k w] l IH]; intros t v H; cbn [assoc_bytes] in H; [discriminate|].
  destruct (bytes_eqb k t) eqn:E.
  - beq. injection H as ->. subst. left; reflexivity.
  - right; auto.
Qed.

Lemma Forall_bset {V} (P : bytes * V -> Prop) : forall l k v,
  (forall k', P (k', v)) -> Forall P l -> Forall P (bset l k v).
Proof.
  induction l as [|[k' v'] l IH]; intros k v Hv Hl; cbn [bset].
  - constructor; auto.
  - inversion Hl; subst. destruct (bytes_eqb k' k); constructor; auto.
Qed.

Lemma in_fst_bset {V} : forall (l : list (bytes * V)) k v x,
  In x (map fst (bset l k v)) -> In x (map fst l) \/ x = k.
Proof.
  induction l as [|[k' v'] l IH]; intros k v x H; cbn [bset] in H.
  - cbn [map In fst] in H. destruct H as [H|[]]; auto.
  - destruct (bytes_eqb k' k); cbn [map In fst] in *.
    + tauto.
    + destruct H as [H|H]; [tauto|]. apply IH in H. tauto.
Qed.

Lemma NoDup_bset {V} : forall (l : list (bytes * V)) k v, NoDup (map fst l) -> NoDup (map fst (bset l k v)).
Proof.
  induction l as [|[k' v'] l IH]; intros k v H; cbn [bset].
  - cbn [map fst]. constructor; [intros [] | constructor].
  - cbn [map fst] in H. inversion H as [|x xs Hn Hd]; subst.
    destruct (bytes_eqb k' k) eqn:E; cbn [map fst].
    + constructor; auto.
    + constructor; [| auto]. intros Hin. apply in_fst_bset in Hin. destruct Hin as [Hin|Hin]; [auto|].
      beq. congruence.
Qed.

(* ================================================================================================ *)
(* 3. update_brokers                                                                                *)
(* ================================================================================================ *)

(* idx maps a node id to a position of `ns` (the node ids of the broker vector) holding it *)
Definition idx_ok (ns : list Z) (idx : list (Z * Z)) : Prop :=
  forall n, match assoc_z n idx with
            | Some i => 0 <= i /\ nth_error ns (Z.to_nat i) = Some n
            | None => ~ In n ns
            end.

Lemma idx_ok_insert ns idx n : idx_ok ns idx -> idx_ok (ns ++ [n]) (zset idx n (ulen ns)).
Proof.
  intros H m. rewrite assoc_z_zset. destruct (n =? m) eqn:E.
  - unfold ulen. split; [lia|]. rewrite Nat2Z.id, nth_error_app2, Nat.sub_diag by lia.
    cbn [nth_error]. f_equal; lia.
  - specialize (H m). destruct (assoc_z m idx) as [i|].
    + destruct H as [H0 H1]. split; [exact H0|]. rewrite nth_error_app1; [exact H1|].
      apply nth_error_Some. congruence.
    + rewrite in_app_iff. cbn [In]. intros [H1|[H1|[]]]; [auto | lia].
Qed.

Lemma index_brokers_ok : forall rest pre idx,
  idx_ok (map b_node pre) idx -> idx_ok (map b_node (pre ++ rest)) (index_brokers rest (ulen pre) idx).
Proof.
  induction rest as [|b rest IH]; intros pre idx H; cbn [index_brokers].
  - rewrite app_nil_r. exact H.
  - replace (pre ++ b :: rest) with ((pre ++ [b]) ++ rest) by (rewrite <- app_assoc; reflexivity).
    replace (ulen pre + 1) with (ulen (pre ++ [b])) by (unfold ulen; rewrite app_length; cbn [length]; lia).
    apply IH. rewrite map_app. cbn [map]. rewrite idx_insert_zset.
    replace (ulen pre) with (ulen (map b_node pre)) by (unfold ulen; rewrite map_length; reflexivity).
    apply idx_ok_insert. exact H.
Qed.

Lemma set_host_nodes : forall bs k h, map b_node (set_host bs k h) = map b_node bs.
Proof. induction bs as [|b bs IH]; intros [|k] h; cbn [set_host map b_node]; auto; f_equal; auto. Qed.

Lemma set_host_length : forall bs k h, length (set_host bs k h) = length bs.
Proof. intros. rewrite <- (map_length b_node), set_host_nodes, map_length. reflexivity. Qed.

Lemma set_host_zset : forall bs k n h,
  NoDup (map b_node bs) -> nth_error (map b_node bs) k = Some n ->
  map bpair (set_host bs k h) = zset (map bpair bs) n h.
Proof.
  induction bs as [|b bs IH]; intros k n h Hnd Hk.
  - destruct k; discriminate.
  - cbn [map] in Hnd. inversion Hnd as [|x xs Hni Hnd']; subst.
    destruct k as [|k]; cbn [set_host map nth_error] in *.
    + injection Hk as <-. change (bpair b) with (b_node b, b_host b).
      cbn [zset]. rewrite Z.eqb_refl. reflexivity.
    + change (bpair b) with (b_node b, b_host b). cbn [zset]. apply nth_error_In in Hk as Hin.
      destruct (b_node b =? n) eqn:E; [exfalso; apply Hni; replace (b_node b) with n by lia; exact Hin|].
      f_equal. apply IH; auto.
Qed.

Lemma map_fst_bpair bs : map fst (map bpair bs) = map b_node bs.
Proof. rewrite map_map. reflexivity. Qed.

Lemma go_spec : forall mds bs idx bs' idx',
  NoDup (map b_node bs) -> idx_ok (map b_node bs) idx ->
  update_brokers_go mds bs idx = (bs', idx') ->
  NoDup (map b_node bs') /\ idx_ok (map b_node bs') idx' /\
  (exists sfx, map b_node bs' = map b_node bs ++ sfx) /\
  map bpair bs' = merge_hosts (map bpair bs) mds /\
  (length bs' <= length bs + length mds)%nat.
Proof.
  induction mds as [|m mds IH]; intros bs idx bs' idx' Hnd Hidx Hgo; cbn [update_brokers_go] in Hgo.
  - injection Hgo as <- <-. repeat split; auto; [exists []; rewrite app_nil_r; reflexivity | lia].
  - cbn [merge_hosts fold_left length]. pose proof (Hidx (bm_node m)) as Hm.
    destruct (assoc_z (bm_node m) idx) as [i|] eqn:E.
    + destruct Hm as [Hi0 Hi]. apply IH in Hgo.
      * rewrite set_host_nodes, set_host_length in Hgo.
        destruct Hgo as (G1 & G2 & G3 & G4 & G5). repeat split; auto; [| lia].
        rewrite G4. unfold merge_hosts. f_equal. apply set_host_zset; auto.
      * rewrite set_host_nodes; auto.
      * rewrite set_host_nodes; auto.
    + apply IH in Hgo.
      * rewrite map_app, app_length in Hgo. cbn [map b_node length] in Hgo.
        destruct Hgo as (G1 & G2 & [sfx G3] & G4 & G5). repeat split; auto; [| | lia].
        -- exists (bm_node m :: sfx). rewrite G3, <- app_assoc. reflexivity.
        -- rewrite G4. unfold merge_hosts. f_equal. rewrite map_app. cbn [map].
           change (bpair {| b_node := bm_node m; b_host := host_port (bm_host m) (bm_port m) |})
             with (bm_node m, host_port (bm_host m) (bm_port m)).
           symmetry. apply zset_absent. apply assoc_z_none. rewrite map_fst_bpair. exact Hm.
      * rewrite map_app. cbn [map b_node]. clear - Hnd Hm.
        induction (map b_node bs) as [|x xs IHx]; cbn [app].
        -- constructor; [intros [] | constructor].
        -- inversion Hnd; subst. cbn [In] in Hm. constructor; [| apply IHx; tauto].
           rewrite in_app_iff. cbn [In]. intros [H|[H|[]]]; [auto | apply Hm; left; auto].
      * rewrite map_app. cbn [map b_node]. rewrite <- zset_absent by exact E.
        replace (ulen bs) with (ulen (map b_node bs)) by (unfold ulen; rewrite map_length; reflexivity).
        apply idx_ok_insert. exact Hidx.
Qed.

Lemma update_brokers_spec s md bs' idx' :
  NoDup (map b_node (brokers s)) -> update_brokers s md = (bs', idx') ->
  NoDup (map b_node bs') /\ idx_ok (map b_node bs') idx' /\
  (exists sfx, map b_node bs' = map b_node (brokers s) ++ sfx) /\
  map bpair bs' = merge_hosts (map bpair (brokers s)) (md_brokers md) /\
  (length bs' <= length (brokers s) + length (md_brokers md))%nat.
Proof.
  intros Hnd H. unfold update_brokers in H. eapply go_spec; eauto.
  change 0 with (ulen (@nil broker)). change (brokers s) with ([] ++ brokers s) at 1.
  apply index_brokers_ok. intros n. cbn [assoc_z map]. intros [].
Qed.

(* ================================================================================================ *)
(* 4. update_topics is a total pure function                                                        *)
(* ================================================================================================ *)

Fixpoint sync_fun (idx : list (Z * Z)) (pms : list partition_md) (ps : list Z) : list Z :=
  match pms with
  | [] => ps
  | pm :: r =>
      if (pm_id pm <? 0) || (ulen ps <=? pm_id pm) then sync_fun idx r ps
      else sync_fun idx r (set_nth ps (Z.to_nat (pm_id pm))
                                   (match assoc_z (pm_leader pm) idx with Some i => i | None => UNKNOWN_BROKER_INDEX end))
  end.

Definition topic_vec (idx : list (Z * Z)) (old : option (list Z)) (pms : list partition_md) : list Z :=
  sync_fun idx pms (resize UNKNOWN_BROKER_INDEX (match old with Some ps => ps | None => [] end) (length pms)).

Fixpoint topics_fun (idx : list (Z * Z)) (tms : list topic_md) (tps : list (bytes * list Z)) :=
  match tms with
  | [] => tps
  | tm :: r => topics_fun idx r (bset tps (tm_topic tm)
                                      (topic_vec idx (assoc_bytes (tm_topic tm) tps) (tm_partitions tm)))
  end.

Definition upd_fun (s : cstate) (md : metadata_resp) : cstate :=
  {| correlation := correlation s; brokers := fst (update_brokers s md);
     topic_partitions := topics_fun (snd (update_brokers s md)) (md_topics md) (topic_partitions s);
     group_coordinators := group_coordinators s |}.

Lemma sync_partitions_eq idx : forall pms ps, sync_partitions idx pms ps = Ok (sync_fun idx pms ps).
Proof.
  induction pms as [|pm pms IH]; intros ps; cbn [sync_partitions sync_fun]; [reflexivity|].
  destruct ((pm_id pm <? 0) || (ulen ps <=? pm_id pm)); [apply IH|]. rewrite set_ref_eq. apply IH.
Qed.

Lemma update_topics_eq idx : forall tms tps, update_topics idx tms tps = Ok (topics_fun idx tms tps).
Proof.
  induction tms as [|tm tms IH]; intros tps; cbn [update_topics topics_fun]; [reflexivity|].
  rewrite sync_partitions_eq, !tp_set_bset, bset_bset, IH. unfold topic_vec.
  destruct (assoc_bytes (tm_topic tm) tps); rewrite resize_refs_eq; reflexivity.
Qed.

Lemma update_metadata_eq s md : update_metadata s md = Ok (upd_fun s md).
Proof.
  unfold update_metadata, upd_fun. destruct (update_brokers s md) as [bs idx]. cbn [fst snd].
  rewrite update_topics_eq. reflexivity.
Qed.

Theorem C06_update_total : forall s md, exists s', update_metadata s md = Ok s'.
Proof. intros s md. exists (upd_fun s md). apply update_metadata_eq. Qed.
Example ex_update_total :
  is_ok (update_metadata cstate_new ex_md1) = true /\ is_ok (update_metadata ex_s1 ex_md_ill) = true.
Proof. vm_compute. auto. Qed.

(* ================================================================================================ *)
(* 4b. The representation invariant                                                                 *)
(* ================================================================================================ *)

Theorem C06_inv_init : inv cstate_new.
Proof. unfold inv, cstate_new. cbn [brokers topic_partitions map]. repeat split; constructor. Qed.
Example ex_inv_init : brokers cstate_new = [] /\ topic_partitions cstate_new = [].
Proof. vm_compute. auto. Qed.

Theorem C06_inv_clear : forall s, inv (clear_metadata s).
Proof. intros s. unfold inv, clear_metadata. cbn [brokers topic_partitions map]. repeat split; constructor. Qed.
Example ex_inv_clear : inv (clear_metadata ex_s2) /\ brokers ex_s2 <> [].
Proof. split; [apply C06_inv_clear | vm_compute; discriminate]. Qed.

Theorem C06_clear : forall s, abs (clear_metadata s) = {| a_host := []; a_topics := [] |}.
Proof. reflexivity. Qed.
Example ex_clear : abs (clear_metadata ex_s2) = empty_view /\ abs ex_s2 <> empty_view.
Proof. split; [vm_compute; reflexivity | vm_compute; discriminate]. Qed.

Lemma sync_fun_ok bs idx : idx_ok (map b_node bs) idx ->
  forall pms ps, Forall (ref_ok bs) ps -> Forall (ref_ok bs) (sync_fun idx pms ps).
Proof.
  intros Hidx. induction pms as [|pm pms IH]; intros ps Hps; cbn [sync_fun]; [exact Hps|].
  destruct ((pm_id pm <? 0) || (ulen ps <=? pm_id pm)); [auto|]. apply IH. apply Forall_set_nth; [| exact Hps].
  specialize (Hidx (pm_leader pm)). destruct (assoc_z (pm_leader pm) idx) as [i|]; [| left; reflexivity].
  destruct Hidx as [H0 H1]. right. split; [exact H0|].
  assert (Hlt : (Z.to_nat i < length (map b_node bs))%nat) by (apply nth_error_Some; congruence).
  rewrite map_length in Hlt. unfold ulen. lia.
Qed.

Lemma topics_fun_ok bs idx : idx_ok (map b_node bs) idx ->
  forall tms tps, Forall (fun tp => Forall (ref_ok bs) (snd tp)) tps ->
                  Forall (fun tp => Forall (ref_ok bs) (snd tp)) (topics_fun idx tms tps).
Proof.
  intros Hidx. induction tms as [|tm tms IH]; intros tps Htps; cbn [topics_fun]; [exact Htps|].
  apply IH. apply Forall_bset; [| exact Htps]. intros k'. cbn [snd]. unfold topic_vec.
  apply sync_fun_ok; [exact Hidx|]. apply Forall_resize; [left; reflexivity|].
  destruct (assoc_bytes (tm_topic tm) tps) as [ps|] eqn:E; [| constructor].
  apply assoc_bytes_in in E. rewrite Forall_forall in Htps. exact (Htps _ E).
Qed.

Lemma topics_fun_nodup idx : forall tms tps, NoDup (map fst tps) -> NoDup (map fst (topics_fun idx tms tps)).
Proof. induction tms as [|tm tms IH]; intros tps H; cbn [topics_fun]; [exact H|]. apply IH, NoDup_bset, H. Qed.

Theorem C06_inv_step : forall s md s', inv s -> update_metadata s md = Ok s' -> inv s'.
Proof.
  intros s md s' (Hnd & Hrefs & Htn) Hupd. rewrite update_metadata_eq in Hupd. injection Hupd as <-.
  unfold inv, upd_fun. cbn [brokers topic_partitions].
  destruct (update_brokers s md) as [bs' idx'] eqn:Hub. cbn [fst snd].
  destruct (update_brokers_spec s md bs' idx' Hnd Hub) as (Hnd' & Hidx & [sfx Hsfx] & _ & _).
  split; [exact Hnd'|]. split; [| apply topics_fun_nodup; exact Htn].
  apply topics_fun_ok; [exact Hidx|].
  assert (Hlen : ulen (brokers s) <= ulen bs').
  { rewrite <- (ulen_map b_node bs'), Hsfx. unfold ulen. rewrite app_length, map_length. lia. }
  eapply Forall_impl; [| exact Hrefs]. intros [t ps] Hps. cbn [snd] in *.
  eapply Forall_impl; [| exact Hps]. intros i [Hi|Hi]; [left; exact Hi | right; lia].
Qed.
Example ex_inv_s1 : inv ex_s1.
Proof. apply (C06_inv_step cstate_new ex_md1); [apply C06_inv_init | vm_compute; reflexivity]. Qed.
Example ex_inv_s2 : inv ex_s2.
Proof. apply (C06_inv_step ex_s1 ex_md2); [apply ex_inv_s1 | vm_compute; reflexivity]. Qed.
Example ex_inv_ill : inv (ex_load ex_s1 ex_md_ill).
Proof. apply (C06_inv_step ex_s1 ex_md_ill); [apply ex_inv_s1 | vm_compute; reflexivity]. Qed.
Example ex_inv_s5 : inv ex_s5.
Proof. apply (C06_inv_step cstate_new ex_md5); [apply C06_inv_init | vm_compute; reflexivity]. Qed.

(* input-only sufficient condition for the size hypothesis *)
Lemma small_step : forall s md s',
  inv s -> ulen (brokers s) + ulen (md_brokers md) <= UNKNOWN_BROKER_INDEX ->
  update_metadata s md = Ok s' -> small s'.
Proof.
  intros s md s' (Hnd & _) Hsz Hupd. rewrite update_metadata_eq in Hupd. injection Hupd as <-.
  unfold small, upd_fun. cbn [brokers]. destruct (update_brokers s md) as [bs' idx'] eqn:Hub. cbn [fst].
  destruct (update_brokers_spec s md bs' idx' Hnd Hub) as (_ & _ & _ & _ & Hlen). unfold ulen in *. lia.
Qed.

Lemma brokers_bound : forall s md s',
  inv s -> update_metadata s md = Ok s' -> ulen (brokers s') <= ulen (brokers s) + ulen (md_brokers md).
Proof.
  intros s md s' (Hnd & _) Hupd. rewrite update_metadata_eq in Hupd. injection Hupd as <-.
  unfold upd_fun. cbn [brokers]. destruct (update_brokers s md) as [bs' idx'] eqn:Hub. cbn [fst].
  destruct (update_brokers_spec s md bs' idx' Hnd Hub) as (_ & _ & _ & _ & Hlen). unfold ulen in *. lia.
Qed.

(* ================================================================================================ *)
(* 5. Abstraction of the topic update                                                               *)
(* ================================================================================================ *)

Lemma ref_node_nodes bs i : ref_node bs i = nth_z (map b_node bs) i.
Proof. unfold ref_node. rewrite nth_z_map. reflexivity. Qed.

Lemma ref_unknown bs : ulen bs <= UNKNOWN_BROKER_INDEX -> ref_node bs UNKNOWN_BROKER_INDEX = None.
Proof.
  intros H. unfold ref_node, nth_z.
  destruct ((UNKNOWN_BROKER_INDEX <? 0) || (ulen bs <=? UNKNOWN_BROKER_INDEX)) eqn:E; [reflexivity|].
  unfold UNKNOWN_BROKER_INDEX in *. lia.
Qed.

Lemma known_iff bs n : known (map bpair bs) n = true <-> In n (map b_node bs).
Proof.
  unfold known. rewrite <- map_fst_bpair. pose proof (assoc_z_none (map bpair bs) n) as H.
  destruct (assoc_z n (map bpair bs)).
  - split; [intros _ | reflexivity]. destruct (in_dec Z.eq_dec n (map fst (map bpair bs))) as [Hi|Hn]; [exact Hi|].
    apply H in Hn. discriminate.
  - split; [discriminate|]. intros Hi. exfalso. apply (proj1 H); auto.
Qed.

Lemma ref_idx bs idx l :
  idx_ok (map b_node bs) idx -> ulen bs <= UNKNOWN_BROKER_INDEX ->
  ref_node bs (match assoc_z l idx with Some i => i | None => UNKNOWN_BROKER_INDEX end)
  = known_leader (map bpair bs) l.
Proof.
  intros Hidx Hsm. specialize (Hidx l). unfold known_leader. destruct (assoc_z l idx) as [i|].
  - destruct Hidx as [H0 H1]. rewrite ref_node_nodes.
    replace (known (map bpair bs) l) with true by (symmetry; apply known_iff; eapply nth_error_In; eauto).
    apply nth_z_some. auto.
  - rewrite ref_unknown by exact Hsm.
    destruct (known (map bpair bs) l) eqn:E; [apply known_iff in E; tauto | reflexivity].
Qed.

Lemma sync_abs bs idx :
  idx_ok (map b_node bs) idx -> ulen bs <= UNKNOWN_BROKER_INDEX ->
  forall pms ps, map (ref_node bs) (sync_fun idx pms ps) = sync_opt (map bpair bs) pms (map (ref_node bs) ps).
Proof.
  intros Hidx Hsm. induction pms as [|pm pms IH]; intros ps; cbn [sync_fun sync_opt]; [reflexivity|].
  rewrite ulen_map. destruct ((pm_id pm <? 0) || (ulen ps <=? pm_id pm)); [apply IH|].
  rewrite IH, map_set_nth, ref_idx by assumption. reflexivity.
Qed.

Lemma topic_vec_abs bs idx old pms :
  idx_ok (map b_node bs) idx -> ulen bs <= UNKNOWN_BROKER_INDEX ->
  map (ref_node bs) (topic_vec idx old pms)
  = code_vec (map bpair bs) (option_map (map (ref_node bs)) old) pms.
Proof.
  intros Hidx Hsm. unfold topic_vec, code_vec. rewrite sync_abs, map_resize, ref_unknown by assumption.
  destruct old; reflexivity.
Qed.

Lemma topics_abs bs idx :
  idx_ok (map b_node bs) idx -> ulen bs <= UNKNOWN_BROKER_INDEX ->
  forall tms tps,
  abs_tps bs (topics_fun idx tms tps)
  = fold_left (fun ts tm => bset ts (tm_topic tm)
                                 (code_vec (map bpair bs) (assoc_bytes (tm_topic tm) ts) (tm_partitions tm)))
              tms (abs_tps bs tps).
Proof.
  intros Hidx Hsm. induction tms as [|tm tms IH]; intros tps; cbn [topics_fun fold_left]; [reflexivity|].
  rewrite IH. f_equal. unfold abs_tps.
  rewrite (map_bset (map (ref_node bs))), (assoc_bytes_map (map (ref_node bs))), topic_vec_abs by assumption.
  reflexivity.
Qed.

(* a reference that is valid for bs means the same node id in any extension of bs *)
Lemma ref_node_ext bs bs' i :
  ref_ok bs i -> (exists sfx, map b_node bs' = map b_node bs ++ sfx) ->
  ulen bs' <= UNKNOWN_BROKER_INDEX -> ref_node bs' i = ref_node bs i.
Proof.
  intros Hok [sfx Hsfx] Hsm.
  assert (Hlen : ulen bs <= ulen bs').
  { rewrite <- (ulen_map b_node bs'), Hsfx. unfold ulen. rewrite app_length, map_length. lia. }
  destruct Hok as [-> | Hr].
  - rewrite !ref_unknown by lia. reflexivity.
  - rewrite !ref_node_nodes, Hsfx. apply nth_z_app1. rewrite ulen_map. lia.
Qed.

Lemma abs_tps_ext bs bs' tps :
  Forall (fun tp => Forall (ref_ok bs) (snd tp)) tps ->
  (exists sfx, map b_node bs' = map b_node bs ++ sfx) -> ulen bs' <= UNKNOWN_BROKER_INDEX ->
  abs_tps bs' tps = abs_tps bs tps.
Proof.
  intros Hall Hsfx Hsm. unfold abs_tps. apply map_ext_in. intros [t ps] Hin. cbn [fst snd]. f_equal.
  apply map_ext_in. intros i Hi. apply ref_node_ext; auto.
  rewrite Forall_forall in Hall. specialize (Hall _ Hin). cbn [snd] in Hall.
  rewrite Forall_forall in Hall. auto.
Qed.

(* ---- the faithful refinement, for ANY response -------------------------------------------------- *)
Theorem C06_refines_code : forall s md s',
  inv s -> small s' -> update_metadata s md = Ok s' -> abs s' = merge_code (abs s) md.
Proof.
  intros s md s' (Hnd & Hrefs & _) Hsm Hupd. rewrite update_metadata_eq in Hupd. injection Hupd as <-.
  unfold small, upd_fun in *. cbn [brokers] in Hsm.
  destruct (update_brokers s md) as [bs' idx'] eqn:Hub. cbn [fst snd] in *.
  destruct (update_brokers_spec s md bs' idx' Hnd Hub) as (_ & Hidx & Hsfx & Hhost & _).
  unfold abs, merge_code. cbn [brokers topic_partitions a_host a_topics].
  rewrite topics_abs by assumption. rewrite (abs_tps_ext (brokers s) bs') by assumption.
  rewrite Hhost. reflexivity.
Qed.
Example ex_refines_code_hyps :
  inv ex_s1 /\ small (ex_load ex_s1 ex_md_ill) /\ update_metadata ex_s1 ex_md_ill = Ok (ex_load ex_s1 ex_md_ill).
Proof. split; [apply ex_inv_s1|]. split; vm_compute; [discriminate | reflexivity]. Qed.
Example ex_refines_code :
  abs (ex_load ex_s1 ex_md_ill) = merge_code (abs ex_s1) ex_md_ill /\
  a_topics (abs (ex_load ex_s1 ex_md_ill)) = [(tag "a", [Some 2; Some 2])].
Proof. vm_compute. auto. Qed.

(* ================================================================================================ *)
(* 6. On well-formed responses both readings of merge coincide                                      *)
(* ================================================================================================ *)

Lemma sync_opt_length h : forall pms v, length (sync_opt h pms v) = length v.
Proof.
  induction pms as [|pm pms IH]; intros v; cbn [sync_opt]; [reflexivity|].
  destruct ((pm_id pm <? 0) || (ulen v <=? pm_id pm)); [apply IH|]. rewrite IH. apply set_nth_length.
Qed.

Lemma sync_opt_nth h : forall pms v k, (k < length v)%nat ->
  nth_error (sync_opt h pms v) k
  = match listed_leader pms (Z.of_nat k) with Some l => Some (known_leader h l) | None => nth_error v k end.
Proof.
  induction pms as [|pm pms IH]; intros v k Hk; cbn [sync_opt listed_leader]; [reflexivity|].
  destruct ((pm_id pm <? 0) || (ulen v <=? pm_id pm)) eqn:E.
  - rewrite IH by exact Hk. destruct (listed_leader pms (Z.of_nat k)); [reflexivity|].
    destruct (pm_id pm =? Z.of_nat k) eqn:E1; [unfold ulen in E; lia | reflexivity].
  - rewrite IH by (rewrite set_nth_length; exact Hk).
    destruct (listed_leader pms (Z.of_nat k)); [reflexivity|].
    rewrite nth_error_set_nth by exact Hk.
    destruct (pm_id pm =? Z.of_nat k) eqn:E1, (Nat.eqb (Z.to_nat (pm_id pm)) k) eqn:E2; try reflexivity.
    + apply Nat.eqb_neq in E2. lia.
    + apply Nat.eqb_eq in E2. lia.
Qed.

Lemma listed_leader_some : forall pms i, In i (map pm_id pms) -> exists l, listed_leader pms i = Some l.
Proof.
  induction pms as [|pm pms IH]; intros i Hin; cbn [map In listed_leader] in *; [tauto|].
  destruct (listed_leader pms i) as [l|] eqn:E; [eauto|].
  destruct Hin as [Hin|Hin]; [| apply IH in Hin; destruct Hin as [l Hl]; congruence].
  subst. rewrite Z.eqb_refl. eauto.
Qed.

Lemma code_vec_wf h old tm : wf_topic tm -> code_vec h old (tm_partitions tm) = leader_vec h (tm_partitions tm).
Proof.
  unfold wf_topic, code_vec, leader_vec. intros Hwf. set (pms := tm_partitions tm) in *.
  set (v := resize None _ _). assert (Hv : length v = length pms) by apply resize_length.
  apply nth_error_ext'. intros k. destruct (Nat.lt_ge_cases k (length pms)) as [Hk|Hk].
  - rewrite sync_opt_nth by lia. rewrite nth_error_map, iota_nth by exact Hk. cbn [option_map].
    rewrite Z.add_0_l. destruct (listed_leader_some pms (Z.of_nat k)) as [l Hl]; [| rewrite Hl; reflexivity].
    eapply Permutation_in; [apply Permutation_sym; exact Hwf|]. apply iota_in. lia.
  - replace (nth_error (sync_opt h pms v) k) with (@None (option Z))
      by (symmetry; apply nth_error_None; rewrite sync_opt_length; lia).
    symmetry. apply nth_error_None. rewrite map_length, iota_length. exact Hk.
Qed.

Theorem merge_code_wf : forall a md, wf_md md -> merge_code a md = merge a md.
Proof.
  intros a md Hwf. unfold merge_code, merge. f_equal. unfold wf_md in Hwf.
  generalize (a_topics a). induction Hwf as [|tm tms Htm Htms IH]; intros ts; cbn [fold_left]; [reflexivity|].
  rewrite code_vec_wf by exact Htm. apply IH.
Qed.
Example ex_wf_md1 : wf_md ex_md1.
Proof. constructor; [| constructor]. unfold wf_topic. vm_compute. apply perm_swap. Qed.
Example ex_wf_md2 : wf_md ex_md2.
Proof. constructor; [| constructor]. unfold wf_topic. vm_compute. apply Permutation_refl. Qed.
Example ex_wf_md3 : wf_md ex_md3.
Proof. constructor; [| constructor]. unfold wf_topic. vm_compute. apply Permutation_refl. Qed.
Example ex_merge_code_wf : merge_code (abs ex_s1) ex_md2 = merge (abs ex_s1) ex_md2.
Proof. vm_compute. reflexivity. Qed.

Theorem C06_refines : forall s md s',
  inv s -> wf_md md -> small s' -> update_metadata s md = Ok s' -> abs s' = merge (abs s) md.
Proof. intros s md s' Hinv Hwf Hsm Hupd. rewrite <- merge_code_wf by exact Hwf. apply C06_refines_code; auto. Qed.
Example ex_refines_hyps : inv ex_s1 /\ wf_md ex_md2 /\ small ex_s2 /\ update_metadata ex_s1 ex_md2 = Ok ex_s2.
Proof.
  split; [apply ex_inv_s1|]. split; [apply ex_wf_md2|]. split; vm_compute; [discriminate | reflexivity].
Qed.
(* the history asked for: load {brokers 1,2; topic a: [1,2]}, then load {broker 2 moved; topic b} *)
Example ex_refines :
  abs ex_s2 = merge (abs ex_s1) ex_md2 /\
  abs ex_s2 = {| a_host := [(1, tag "h1:9092"); (2, tag "h2:9093")];
                 a_topics := [(tag "a", [Some 1; Some 2]); (tag "b", [Some 2])] |} /\
  find_broker ex_s2 (tag "a") 0 = Some (tag "h1:9092") /\
  find_broker ex_s2 (tag "a") 1 = Some (tag "h2:9093") /\      (* the moved broker: new address *)
  find_broker ex_s2 (tag "b") 0 = Some (tag "h2:9093") /\
  find_broker ex_s2 (tag "a") 2 = None /\ find_broker ex_s2 (tag "zz") 0 = None.
Proof. vm_compute. repeat split; reflexivity. Qed.
(* WITHOUT well-formedness the simple reading is false: after load 1, a response listing the ids 0 and 5
   for topic a leaves partition 1 with its OLD leader 2 (the response does not mention partition 1 at all;
   merge says None), and the entry with id 5 is dropped *)
Theorem C06_refines_refuted_without_wf : exists s md s',
  inv s /\ small s' /\ update_metadata s md = Ok s' /\ abs s' <> merge (abs s) md.
Proof.
  exists ex_s1, ex_md_ill, (ex_load ex_s1 ex_md_ill). split; [apply ex_inv_s1|].
  split; [vm_compute; discriminate|]. split; [vm_compute; reflexivity|]. vm_compute. discriminate.
Qed.
Example ex_illformed_keeps_stale_leader :
  a_topics (abs (ex_load ex_s1 ex_md_ill)) = [(tag "a", [Some 2; Some 2])] /\
  a_topics (merge (abs ex_s1) ex_md_ill) = [(tag "a", [Some 2; None])] /\
  find_broker (ex_load ex_s1 ex_md_ill) (tag "a") 1 = Some (tag "h2:9092") /\
  find_broker (ex_load ex_s1 ex_md_ill) (tag "a") 5 = None.
Proof. vm_compute. repeat split; reflexivity. Qed.
(* one partition listed, with id 1: the topic gets ONE slot (id 0, no leader); the listed partition 1 and
   its leader are dropped *)
Example ex_illformed_out_of_range_dropped :
  a_topics (abs (ex_load cstate_new ex_md7)) = [(tag "d", [None])] /\
  find_broker (ex_load cstate_new ex_md7) (tag "d") 1 = None /\
  contains_topic_partition (ex_load cstate_new ex_md7) (tag "d") 0 = true.
Proof. vm_compute. repeat split; reflexivity. Qed.
(* a broker id that disappears from a later response stays known, at its last advertised address: merge
   never removes an entry of a_host; only reset does *)
Example ex_broker_disappears :
  abs ex_s3 = merge (abs ex_s2) ex_md3 /\
  assoc_z 2 (a_host (abs ex_s3)) = Some (tag "h2:9093") /\
  find_broker ex_s3 (tag "a") 1 = Some (tag "h2:9093").
Proof. vm_compute. repeat split; reflexivity. Qed.
(* a leader that is not a known broker when the topic is loaded is recorded as "no leader", and stays so
   when the broker is advertised later by a response that does not list the topic *)
Example ex_leader_before_broker :
  leader_of (abs ex_s5) (tag "c") 0 = None /\
  known (a_host (abs ex_s6)) 7 = true /\ leader_of (abs ex_s6) (tag "c") 0 = None /\
  find_broker ex_s6 (tag "c") 0 = None /\ abs ex_s6 = merge (abs ex_s5) ex_md6.
Proof. vm_compute. repeat split; reflexivity. Qed.

(* ---- merge, read pointwise: "for each broker id its latest advertised host:port, for each topic the
        latest response mentioning it" ---------------------------------------------------------------- *)
Fixpoint last_broker (bms : list broker_md) (n : Z) : option broker_md :=
  match bms with
  | [] => None
  | m :: r => match last_broker r n with
              | Some x => Some x
              | None => if bm_node m =? n then Some m else None
              end
  end.
Fixpoint last_topic (tms : list topic_md) (t : bytes) : option topic_md :=
  match tms with
  | [] => None
  | tm :: r => match last_topic r t with
               | Some x => Some x
               | None => if bytes_eqb (tm_topic tm) t then Some tm else None
               end
  end.

Theorem C06_merge_host_lookup : forall a md n,
  assoc_z n (a_host (merge a md))
  = match last_broker (md_brokers md) n with
    | Some m => Some (host_port (bm_host m) (bm_port m))
    | None => assoc_z n (a_host a)
    end.
Proof.
  intros a md n. unfold merge. cbn [a_host]. unfold merge_hosts. generalize (a_host a).
  induction (md_brokers md) as [|m bms IH]; intros h; cbn [fold_left last_broker]; [reflexivity|].
  rewrite IH. destruct (last_broker bms n); [reflexivity|]. rewrite assoc_z_zset.
  destruct (bm_node m =? n); reflexivity.
Qed.

Theorem C06_merge_topic_lookup : forall a md t,
  assoc_bytes t (a_topics (merge a md))
  = match last_topic (md_topics md) t with
    | Some tm => Some (leader_vec (a_host (merge a md)) (tm_partitions tm))
    | None => assoc_bytes t (a_topics a)
    end.
Proof.
  intros a md t. unfold merge. cbn [a_topics a_host]. generalize (merge_hosts (a_host a) (md_brokers md)) as h.
  intros h. generalize (a_topics a).
  induction (md_topics md) as [|tm tms IH]; intros ts; cbn [fold_left last_topic]; [reflexivity|].
  rewrite IH. destruct (last_topic tms t); [reflexivity|]. rewrite assoc_bytes_bset.
  destruct (bytes_eqb (tm_topic tm) t); reflexivity.
Qed.
Example ex_merge_lookup :
  assoc_z 2 (a_host (merge (abs ex_s1) ex_md2)) = Some (tag "h2:9093") /\        (* re-advertised by load 2 *)
  last_broker (md_brokers ex_md2) 1 = None /\
  assoc_z 1 (a_host (merge (abs ex_s1) ex_md2)) = Some (tag "h1:9092") /\        (* kept from load 1 *)
  assoc_bytes (tag "b") (a_topics (merge (abs ex_s1) ex_md2)) = Some [Some 2] /\
  last_topic (md_topics ex_md2) (tag "a") = None /\
  assoc_bytes (tag "a") (a_topics (merge (abs ex_s1) ex_md2)) = Some [Some 1; Some 2].
Proof. vm_compute. repeat split; reflexivity. Qed.

(* "at most one entry per id" *)
Lemma abs_host_nodup s : inv s -> NoDup (map fst (a_host (abs s))).
Proof. intros (Hnd & _). unfold abs. cbn [a_host]. rewrite map_fst_bpair. exact Hnd. Qed.

(* ================================================================================================ *)
(* 7. Histories, routing, stable indices                                                             *)
(* ================================================================================================ *)

Lemma listed_brokers_nonneg ops : 0 <= listed_brokers ops.
Proof.
  induction ops as [|op ops IH]; cbn [listed_brokers fold_right]; [lia|]. fold (listed_brokers ops).
  destruct op; unfold ulen; lia.
Qed.

Lemma history_from : forall ops s0,
  inv s0 -> Forall wf_op ops -> ulen (brokers s0) + listed_brokers ops <= UNKNOWN_BROKER_INDEX ->
  exists s, fold_left step_c ops (Ok s0) = Ok s /\ inv s /\ abs s = fold_left step_a ops (abs s0).
Proof.
  induction ops as [|op ops IH]; intros s0 Hinv Hwf Hsz; cbn [fold_left].
  - exists s0. auto.
  - inversion Hwf as [|x xs Hop Hops]; subst.
    pose proof (listed_brokers_nonneg ops) as Hpos.
    destruct op as [md|]; cbn [listed_brokers fold_right] in Hsz; fold (listed_brokers ops) in Hsz;
      cbn [step_c bind step_a].
    + destruct (C06_update_total s0 md) as [s1 Hs1]. rewrite Hs1.
      pose proof (C06_inv_step _ _ _ Hinv Hs1) as Hinv1.
      pose proof (brokers_bound _ _ _ Hinv Hs1) as Hb.
      assert (Hsm : small s1) by (apply (small_step s0 md s1 Hinv); [lia | exact Hs1]).
      rewrite <- (C06_refines s0 md s1 Hinv Hop Hsm Hs1). apply IH; auto. lia.
    + change empty_view with (abs (clear_metadata s0)). apply IH; auto using C06_inv_clear.
      cbn [clear_metadata brokers]. unfold ulen at 1. cbn [length]. unfold ulen in *. lia.
Qed.

Theorem C06_history : forall ops,
  Forall wf_op ops -> listed_brokers ops <= UNKNOWN_BROKER_INDEX ->
  exists s, fold_left step_c ops (Ok cstate_new) = Ok s /\ inv s /\
            abs s = fold_left step_a ops empty_view.
Proof.
  intros ops Hwf Hsz. change empty_view with (abs cstate_new).
  apply history_from; auto using C06_inv_init.
Qed.
Example ex_history_hyps : Forall wf_op ex_ops /\ listed_brokers ex_ops <= UNKNOWN_BROKER_INDEX.
Proof.
  split; [| vm_compute; discriminate].
  unfold ex_ops. constructor; [exact ex_wf_md1|]. constructor; [exact ex_wf_md2|].
  constructor; [exact I|]. constructor; [exact ex_wf_md2 | constructor].
Qed.
Example ex_history :
  match fold_left step_c ex_ops (Ok cstate_new) with
  | Ok s => abs s = fold_left step_a ex_ops empty_view /\
            abs s = {| a_host := [(2, tag "h2:9093")]; a_topics := [(tag "b", [Some 2])] |} /\
            find_broker s (tag "b") 0 = Some (tag "h2:9093") /\
            find_broker s (tag "a") 0 = None                      (* forgotten by the reset *)
  | _ => False
  end.
Proof. vm_compute. repeat split; reflexivity. Qed.

(* ---- routing -------------------------------------------------------------------------------------- *)
Lemma assoc_bpair : forall bs k b, NoDup (map b_node bs) -> nth_error bs k = Some b ->
  assoc_z (b_node b) (map bpair bs) = Some (b_host b).
Proof.
  induction bs as [|b0 bs IH]; intros k b Hnd Hk; [destruct k; discriminate|].
  cbn [map] in *. inversion Hnd as [|x xs Hni Hnd']; subst. change (bpair b0) with (b_node b0, b_host b0).
  cbn [assoc_z]. destruct k as [|k]; cbn [nth_error] in Hk.
  - injection Hk as ->. rewrite Z.eqb_refl. reflexivity.
  - destruct (b_node b0 =? b_node b) eqn:E; [| eapply IH; eauto].
    exfalso. apply Hni. replace (b_node b0) with (b_node b) by lia.
    apply in_map. eapply nth_error_In; eauto.
Qed.

Theorem C06_routing : forall s t p, inv s ->
  find_broker s t p =
  match assoc_bytes t (a_topics (abs s)) with
  | Some ps => match nth_z ps p with Some (Some l) => assoc_z l (a_host (abs s)) | _ => None end
  | None => None
  end.
Proof.
  intros s t p (Hnd & _). unfold find_broker, partitions_for, partition_ref, broker_of, abs.
  cbn [a_topics a_host]. unfold abs_tps. rewrite (assoc_bytes_map (map (ref_node (brokers s)))).
  destruct (assoc_bytes t (topic_partitions s)) as [ps|]; cbn [option_map]; [| reflexivity].
  rewrite nth_z_map. destruct (nth_z ps p) as [bref|]; cbn [option_map]; [| reflexivity].
  unfold ref_node. destruct (nth_z (brokers s) bref) as [b|] eqn:E; cbn [option_map]; [| reflexivity].
  apply nth_z_some in E. destruct E as [_ E]. symmetry. eapply assoc_bpair; eauto.
Qed.

Corollary C06_routing' : forall s t p, inv s -> find_broker s t p = route (abs s) t p.
Proof. exact C06_routing. Qed.
Example ex_routing :
  route (abs ex_s2) (tag "a") 1 = Some (tag "h2:9093") /\ find_broker ex_s2 (tag "a") 1 = Some (tag "h2:9093") /\
  route (abs ex_s5) (tag "c") 0 = None /\ find_broker ex_s5 (tag "c") 0 = None /\
  route (abs ex_s5) (tag "c") 1 = Some (tag "h1:9092").
Proof. vm_compute. repeat split; reflexivity. Qed.

(* ---- stable indices ------------------------------------------------------------------------------- *)
Lemma topics_fun_other idx t : forall tms tps,
  ~ In t (map tm_topic tms) -> assoc_bytes t (topics_fun idx tms tps) = assoc_bytes t tps.
Proof.
  induction tms as [|tm tms IH]; intros tps Hn; cbn [topics_fun]; [reflexivity|].
  cbn [map In] in Hn. rewrite IH by tauto. rewrite assoc_bytes_bset.
  destruct (bytes_eqb (tm_topic tm) t) eqn:E; [beq; tauto | reflexivity].
Qed.

(* the raw references of a topic the response does not mention are untouched, and the node ids of
   the broker vector are only ever extended at the end *)
Theorem C06_stable_refs : forall s md s' t,
  update_metadata s md = Ok s' -> ~ In t (map tm_topic (md_topics md)) ->
  partitions_for s' t = partitions_for s t.
Proof.
  intros s md s' t Hupd Hn. rewrite update_metadata_eq in Hupd. injection Hupd as <-.
  unfold partitions_for, upd_fun. cbn [topic_partitions]. apply topics_fun_other. exact Hn.
Qed.
Example ex_stable_refs : partitions_for ex_s2 (tag "a") = Some [0; 1] /\ partitions_for ex_s1 (tag "a") = Some [0; 1].
Proof. vm_compute. auto. Qed.

Theorem C06_stable_nodes : forall s md s',
  inv s -> update_metadata s md = Ok s' -> exists sfx, map b_node (brokers s') = map b_node (brokers s) ++ sfx.
Proof.
  intros s md s' (Hnd & _) Hupd. rewrite update_metadata_eq in Hupd. injection Hupd as <-.
  unfold upd_fun. cbn [brokers]. destruct (update_brokers s md) as [bs' idx'] eqn:Hub. cbn [fst].
  destruct (update_brokers_spec s md bs' idx' Hnd Hub) as (_ & _ & Hsfx & _). exact Hsfx.
Qed.

Theorem C06_stable_indices : forall s md s' t p,
  inv s -> small s' -> update_metadata s md = Ok s' -> ~ In t (map tm_topic (md_topics md)) ->
  leader_of (abs s') t p = leader_of (abs s) t p.
Proof.
  intros s md s' t p Hinv Hsm Hupd Hn.
  pose proof (C06_stable_refs _ _ _ _ Hupd Hn) as Hrefs.
  pose proof (C06_stable_nodes _ _ _ Hinv Hupd) as Hsfx.
  destruct Hinv as (_ & Hok & _).
  unfold leader_of, abs. cbn [a_topics]. unfold abs_tps.
  rewrite !(assoc_bytes_map (map (ref_node _))). unfold partitions_for in Hrefs. rewrite Hrefs.
  destruct (assoc_bytes t (topic_partitions s)) as [ps|] eqn:E; cbn [option_map]; [| reflexivity].
  rewrite !nth_z_map. destruct (nth_z ps p) as [bref|] eqn:E1; cbn [option_map]; [| reflexivity].
  rewrite (ref_node_ext (brokers s) (brokers s')); auto.
  apply assoc_bytes_in in E. rewrite Forall_forall in Hok. specialize (Hok _ E). cbn [snd] in Hok.
  rewrite Forall_forall in Hok. apply Hok. apply nth_z_some in E1. destruct E1 as [_ E1].
  eapply nth_error_In; eauto.
Qed.
Example ex_stable_indices :
  ~ In (tag "a") (map tm_topic (md_topics ex_md2)) /\
  leader_of (abs ex_s1) (tag "a") 1 = Some 2 /\ leader_of (abs ex_s2) (tag "a") 1 = Some 2 /\
  find_broker ex_s1 (tag "a") 1 = Some (tag "h2:9092") /\ find_broker ex_s2 (tag "a") 1 = Some (tag "h2:9093").
Proof. split; [vm_compute; intros [H|[]]; discriminate H|]. vm_compute. repeat split; reflexivity. Qed.

(* ================================================================================================ *)
(* 8. Requests are addressed to the leader; leaderless partitions are never sent to                 *)
(* ================================================================================================ *)

Lemma route_leader a t p :
  route a t p = match leader_of a t p with Some l => assoc_z l (a_host a) | None => None end.
Proof.
  unfold route, leader_of. destruct (assoc_bytes t (a_topics a)) as [ps|]; [| reflexivity].
  destruct (nth_z ps p) as [[l|]|]; reflexivity.
Qed.

Theorem C06_addressed_has_leader : forall s t p host, inv s -> find_broker s t p = Some host ->
  exists l, leader_of (abs s) t p = Some l /\ assoc_z l (a_host (abs s)) = Some host.
Proof.
  intros s t p host Hinv H. rewrite C06_routing' in H by exact Hinv. rewrite route_leader in H.
  destruct (leader_of (abs s) t p) as [l|]; [eauto | discriminate].
Qed.
Example ex_addressed_has_leader :
  find_broker ex_s2 (tag "b") 0 = Some (tag "h2:9093") /\ leader_of (abs ex_s2) (tag "b") 0 = Some 2 /\
  assoc_z 2 (a_host (abs ex_s2)) = Some (tag "h2:9093").
Proof. vm_compute. repeat split; reflexivity. Qed.

Theorem C06_no_leader_no_address : forall s t p, inv s -> leader_of (abs s) t p = None -> find_broker s t p = None.
Proof. intros s t p Hinv H. rewrite C06_routing' by exact Hinv. rewrite route_leader, H. reflexivity. Qed.
Example ex_no_leader_no_address : leader_of (abs ex_s5) (tag "c") 0 = None /\ find_broker ex_s5 (tag "c") 0 = None.
Proof. vm_compute. auto. Qed.

(* (host, topic, partition) occurs in a per-host grouped request map *)
Definition Kin {P} (tps : list (bytes * list (Z * P))) (t : bytes) (q : Z) : Prop :=
  exists ps y, In (t, ps) tps /\ In (q, y) ps.
Definition Hin {P} (reqs : list (bytes * list (bytes * list (Z * P)))) (h t : bytes) (q : Z) : Prop :=
  exists tps, In (h, tps) reqs /\ Kin tps t q.

Lemma Kin_cons {P} (t0 : bytes) (ps0 : list (Z * P)) r t q :
  Kin ((t0, ps0) :: r) t q <-> (t = t0 /\ exists y, In (q, y) ps0) \/ Kin r t q.
Proof.
  unfold Kin. cbn [In]. split.
  - intros (ps & y & [H|H] & Hy).
    + injection H as <- <-. left. eauto.
    + right. eauto.
  - intros [[-> [y Hy]] | (ps & y & H & Hy)]; eauto 6.
Qed.

Lemma Hin_cons {P} (h0 : bytes) (tps0 : list (bytes * list (Z * P))) r h t q :
  Hin ((h0, tps0) :: r) h t q <-> (h = h0 /\ Kin tps0 t q) \/ Hin r h t q.
Proof.
  unfold Hin. cbn [In]. split.
  - intros (tps & [H|H] & Hk).
    + injection H as <- <-. left. auto.
    + right. eauto.
  - intros [[-> Hk] | (tps & H & Hk)]; eauto.
Qed.

Lemma tp_add_K {P} : forall (tps : list (bytes * list (Z * P))) topic p x t q,
  Kin (tp_add tps topic (p, x)) t q -> Kin tps t q \/ (t = topic /\ q = p).
Proof.
  induction tps as [|[t0 ps0] r IH]; intros topic p x t q H; cbn [tp_add] in H.
  - apply Kin_cons in H. destruct H as [[-> [y [Hy|[]]]] | (ps & y & [] & _)]. injection Hy as <- _. auto.
  - destruct (bytes_eqb t0 topic) eqn:E; apply Kin_cons in H; rewrite Kin_cons.
    + beq. destruct H as [[-> [y Hy]] | H]; [| auto]. apply in_app_iff in Hy.
      destruct Hy as [Hy | [Hy|[]]]; [left; left; eauto|]. injection Hy as <- _. auto.
    + destruct H as [H|H]; [auto|]. apply IH in H. tauto.
Qed.

Lemma fp_insert_in : forall ps p v q y, In (q, y) (fp_insert ps p v) -> (exists y', In (q, y') ps) \/ q = p.
Proof.
  induction ps as [|[q0 w] r IH]; intros p v q y H; cbn [fp_insert] in H.
  - destruct H as [H|[]]. injection H as <- _. auto.
  - destruct (q0 =? p) eqn:E; cbn [In] in H.
    + destruct H as [H|H]; [injection H as <- _; right; lia | left; exists y; right; exact H].
    + destruct H as [H|H]; [injection H as <- <-; left; exists w; left; reflexivity|].
      apply IH in H. destruct H as [[y' H]|H]; [left; exists y'; right; exact H | auto].
Qed.

Lemma fetch_add_K : forall tps topic p off maxb t q,
  Kin (fetch_add tps topic p off maxb) t q -> Kin tps t q \/ (t = topic /\ q = p).
Proof.
  induction tps as [|[t0 ps0] r IH]; intros topic p off maxb t q H; cbn [fetch_add] in H.
  - apply Kin_cons in H. destruct H as [[-> [y [Hy|[]]]] | (ps & y & [] & _)]. injection Hy as <- _. auto.
  - destruct (bytes_eqb t0 topic) eqn:E; apply Kin_cons in H; rewrite Kin_cons.
    + beq. destruct H as [[-> [y Hy]] | H]; [| auto]. apply fp_insert_in in Hy.
      destruct Hy as [Hy | ->]; auto.
    + destruct H as [H|H]; [auto|]. apply IH in H. tauto.
Qed.

Lemma pp_add_in : forall ps p (m : pmsg) q y, In (q, y) (pp_add ps p m) -> (exists y', In (q, y') ps) \/ q = p.
Proof.
  induction ps as [|[q0 w] r IH]; intros p m q y H; cbn [pp_add] in H.
  - destruct H as [H|[]]. injection H as <- _. auto.
  - destruct (q0 =? p) eqn:E; cbn [In] in H.
    + destruct H as [H|H]; [injection H as <- _; right; lia | left; exists y; right; exact H].
    + destruct H as [H|H]; [injection H as <- <-; left; exists w; left; reflexivity|].
      apply IH in H. destruct H as [[y' H]|H]; [left; exists y'; right; exact H | auto].
Qed.

Lemma produce_add_K : forall tps topic p m t q,
  Kin (produce_add tps topic p m) t q -> Kin tps t q \/ (t = topic /\ q = p).
Proof.
  induction tps as [|[t0 ps0] r IH]; intros topic p m t q H; cbn [produce_add] in H.
  - apply Kin_cons in H. destruct H as [[-> [y [Hy|[]]]] | (ps & y & [] & _)]. injection Hy as <- _. auto.
  - destruct (bytes_eqb t0 topic) eqn:E; apply Kin_cons in H; rewrite Kin_cons.
    + beq. destruct H as [[-> [y Hy]] | H]; [| auto]. apply pp_add_in in Hy.
      destruct Hy as [Hy | ->]; auto.
    + destruct H as [H|H]; [auto|]. apply IH in H. tauto.
Qed.

Lemma Kin_nil {P} t q : ~ @Kin P [] t q.
Proof. intros (ps & y & [] & _). Qed.

Lemma host_add_H {P} : forall (reqs : list (bytes * list (bytes * list (Z * P)))) host topic p x h t q,
  Hin (host_add reqs host topic (p, x)) h t q -> Hin reqs h t q \/ (h = host /\ t = topic /\ q = p).
Proof.
  induction reqs as [|[h0 tps0] r IH]; intros host topic p x h t q H; cbn [host_add] in H.
  - apply Hin_cons in H. destruct H as [[-> H] | (tps & [] & _)].
    apply tp_add_K in H. destruct H as [H|H]; [exfalso; eapply Kin_nil; eauto | tauto].
  - destruct (bytes_eqb h0 host) eqn:E; apply Hin_cons in H; rewrite Hin_cons.
    + beq. destruct H as [[-> H] | H]; [| auto]. apply tp_add_K in H. destruct H as [H|H]; [auto | tauto].
    + destruct H as [H|H]; [auto|]. apply IH in H. tauto.
Qed.

Lemma fhost_add_H : forall reqs host topic p off maxb h t q,
  Hin (fhost_add reqs host topic p off maxb) h t q -> Hin reqs h t q \/ (h = host /\ t = topic /\ q = p).
Proof.
  induction reqs as [|[h0 tps0] r IH]; intros host topic p off maxb h t q H; cbn [fhost_add] in H.
  - apply Hin_cons in H. destruct H as [[-> H] | (tps & [] & _)].
    apply fetch_add_K in H. destruct H as [H|H]; [exfalso; eapply Kin_nil; eauto | tauto].
  - destruct (bytes_eqb h0 host) eqn:E; apply Hin_cons in H; rewrite Hin_cons.
    + beq. destruct H as [[-> H] | H]; [| auto]. apply fetch_add_K in H. destruct H as [H|H]; [auto | tauto].
    + destruct H as [H|H]; [auto|]. apply IH in H. tauto.
Qed.

Lemma phost_add_H : forall reqs host topic p m h t q,
  Hin (phost_add reqs host topic p m) h t q -> Hin reqs h t q \/ (h = host /\ t = topic /\ q = p).
Proof.
  induction reqs as [|[h0 tps0] r IH]; intros host topic p m h t q H; cbn [phost_add] in H.
  - apply Hin_cons in H. destruct H as [[-> H] | (tps & [] & _)].
    apply produce_add_K in H. destruct H as [H|H]; [exfalso; eapply Kin_nil; eauto | tauto].
  - destruct (bytes_eqb h0 host) eqn:E; apply Hin_cons in H; rewrite Hin_cons.
    + beq. destruct H as [[-> H] | H]; [| auto]. apply produce_add_K in H. destruct H as [H|H]; [auto | tauto].
    + destruct H as [H|H]; [auto|]. apply IH in H. tauto.
Qed.

Definition all_to_leader {P} (s : cstate) (reqs : list (bytes * list (bytes * list (Z * P)))) : Prop :=
  forall h t q, Hin reqs h t q -> find_broker s t q = Some h.

Lemma all_to_leader_nil {P} s : @all_to_leader P s [].
Proof. intros h t q (tps & [] & _). Qed.

Lemma leaders_from_spec s : forall r k id host, In (id, host) (leaders_from s r k) ->
  exists bref b, k <= id /\ nth_error r (Z.to_nat (id - k)) = Some bref /\
                 broker_of s bref = Some b /\ b_host b = host.
Proof.
  induction r as [|bref0 r IH]; intros k id host H; cbn [leaders_from] in H; [destruct H|].
  assert (Htail : In (id, host) (leaders_from s r (k + 1)) ->
                  exists bref b, k <= id /\ nth_error (bref0 :: r) (Z.to_nat (id - k)) = Some bref /\
                                 broker_of s bref = Some b /\ b_host b = host).
  { intros H1. apply IH in H1. destruct H1 as (bref & b & Hk & Hn & Hb & Hh). exists bref, b.
    repeat split; auto; [lia|]. replace (Z.to_nat (id - k)) with (S (Z.to_nat (id - (k + 1)))) by lia.
    exact Hn. }
  destruct (broker_of s bref0) as [b|] eqn:E; [| auto].
  destruct H as [H|H]; [| auto]. injection H as <- <-. exists bref0, b.
  rewrite Z.sub_diag. cbn [Z.to_nat nth_error]. repeat split; auto. lia.
Qed.

Lemma leaders_from_find s topic ps id host :
  partitions_for s topic = Some ps -> In (id, host) (leaders_from s ps 0) -> find_broker s topic id = Some host.
Proof.
  intros Hps H. apply leaders_from_spec in H. destruct H as (bref & b & Hk & Hn & Hb & Hh).
  rewrite Z.sub_0_r in Hn. unfold find_broker, partition_ref. rewrite Hps.
  replace (nth_z ps id) with (Some bref) by (symmetry; apply nth_z_some; auto).
  rewrite Hb. cbn [option_map]. congruence.
Qed.

Theorem C06_leaderless_never_addressed : forall s topics time host tps,
  In (host, tps) (offset_reqs s topics time) ->
  forall t ps, In (t, ps) tps -> forall p x, In (p, x) ps -> find_broker s t p = Some host.
Proof.
  intros s topics time. unfold offset_reqs.
  assert (Hall : forall reqs, all_to_leader s reqs ->
            all_to_leader s (fold_left (fun reqs topic =>
               match partitions_for s topic with
               | None => reqs
               | Some ps => fold_left (fun reqs '(id, host) => host_add reqs host topic (id, time))
                                      (leaders_from s ps 0) reqs
               end) topics reqs)).
  { induction topics as [|topic topics IH]; intros reqs Hreqs; cbn [fold_left]; [exact Hreqs|].
    apply IH. destruct (partitions_for s topic) as [ps|] eqn:Hps; [| exact Hreqs].
    pose proof (leaders_from_find s topic ps) as Hl. specialize (Hl) .
    revert reqs Hreqs Hl. generalize (leaders_from s ps 0). clear IH.
    induction l as [|[id host] l IHl]; intros reqs Hreqs Hl; cbn [fold_left]; [exact Hreqs|].
    apply IHl; [| intros id' host' Hp Hin; apply Hl; [exact Hp | right; exact Hin]].
    intros h t q H. apply host_add_H in H. destruct H as [H | (-> & -> & ->)]; [auto|].
    apply Hl; [exact Hps | left; reflexivity]. }
  intros host tps Hin t ps Ht p x Hp. apply (Hall [] (all_to_leader_nil s)).
  exists tps. split; [exact Hin|]. exists ps, x. auto.
Qed.
Example ex_offset_reqs :
  offset_reqs ex_s2 [tag "a"; tag "b"; tag "zz"] (-1)
  = [(tag "h1:9092", [(tag "a", [(0, -1)])]); (tag "h2:9093", [(tag "a", [(1, -1)]); (tag "b", [(0, -1)])])] /\
  (* c/0 has no leader: it is silently left out *)
  offset_reqs ex_s5 [tag "c"] (-1) = [(tag "h1:9092", [(tag "c", [(1, -1)])])].
Proof. vm_compute. auto. Qed.

Theorem C06_fetch_addressed : forall c input host tps,
  In (host, tps) (fetch_reqs c input) ->
  forall t ps, In (t, ps) tps -> forall p x, In (p, x) ps -> find_broker (cs c) t p = Some host.
Proof.
  intros c input. unfold fetch_reqs.
  assert (Hall : forall reqs, all_to_leader (cs c) reqs ->
            all_to_leader (cs c) (fold_left (fun reqs q =>
               match find_broker (cs c) (fq_topic q) (fq_partition q) with
               | None => reqs
               | Some host =>
                   fhost_add reqs host (fq_topic q) (fq_partition q) (fq_offset q)
                             (if 0 <? fq_max_bytes q then fq_max_bytes q
                              else fetch_max_bytes_per_partition (cfg c))
               end) input reqs)).
  { induction input as [|q0 input IH]; intros reqs Hreqs; cbn [fold_left]; [exact Hreqs|].
    apply IH. destruct (find_broker (cs c) (fq_topic q0) (fq_partition q0)) as [host|] eqn:E; [| exact Hreqs].
    intros h t q H. apply fhost_add_H in H. destruct H as [H | (-> & -> & ->)]; auto. }
  intros host tps Hin t ps Ht p x Hp. apply (Hall [] (all_to_leader_nil (cs c))).
  exists tps. split; [exact Hin|]. exists ps, x. auto.
Qed.
Example ex_fetch_reqs :
  fetch_reqs {| cfg := default_config []; cs := ex_s5; conns := [] |}
             [ {| fq_topic := tag "c"; fq_partition := 0; fq_offset := 5; fq_max_bytes := 100 |};
               {| fq_topic := tag "c"; fq_partition := 1; fq_offset := 6; fq_max_bytes := 100 |} ]
  = [(tag "h1:9092", [(tag "c", [(1, (6, 100))])])].
Proof. vm_compute. reflexivity. Qed.

Lemma produce_reqs_all s : forall msgs acc reqs,
  all_to_leader s acc -> produce_reqs s msgs acc = Some reqs -> all_to_leader s reqs.
Proof.
  induction msgs as [|m msgs IH]; intros acc reqs Hacc H; cbn [produce_reqs] in H.
  - injection H as <-. exact Hacc.
  - destruct (find_broker s (pq_topic m) (pq_partition m)) as [host|] eqn:E; [| discriminate].
    eapply IH; [| exact H]. intros h t q Hq. apply phost_add_H in Hq.
    destruct Hq as [Hq | (-> & -> & ->)]; auto.
Qed.

Theorem C06_produce_addressed : forall s msgs reqs, produce_reqs s msgs [] = Some reqs ->
  forall host tps, In (host, tps) reqs ->
  forall t ps, In (t, ps) tps -> forall p x, In (p, x) ps -> find_broker s t p = Some host.
Proof.
  intros s msgs reqs H host tps Hin t ps Ht p x Hp.
  apply (produce_reqs_all s msgs [] reqs (all_to_leader_nil s) H).
  exists tps. split; [exact Hin|]. exists ps, x. auto.
Qed.
Example ex_produce_reqs :
  produce_reqs ex_s5 [ {| pq_topic := tag "c"; pq_partition := 1; pq_key := None; pq_value := Some (tag "v") |} ] []
  = Some [(tag "h1:9092", [(tag "c", [(1, [(None, Some (tag "v"))])])])].
Proof. vm_compute. reflexivity. Qed.

(* a produce batch containing a message for a partition without address is refused as a whole ... *)
Theorem C06_produce_unavailable : forall s msgs acc m,
  In m msgs -> find_broker s (pq_topic m) (pq_partition m) = None -> produce_reqs s msgs acc = None.
Proof.
  induction msgs as [|m0 msgs IH]; intros acc m Hin Hm; [destruct Hin|]. cbn [produce_reqs].
  destruct (find_broker s (pq_topic m0) (pq_partition m0)) as [host|] eqn:E; [| reflexivity].
  destruct Hin as [->|Hin]; [congruence|]. eapply IH; eauto.
Qed.
Example ex_produce_unavailable :
  produce_reqs ex_s5 [ {| pq_topic := tag "c"; pq_partition := 1; pq_key := None; pq_value := Some (tag "v") |};
                       {| pq_topic := tag "c"; pq_partition := 0; pq_key := None; pq_value := Some (tag "w") |} ] []
  = None.
Proof. vm_compute. reflexivity. Qed.

(* the produce call itself: UnknownTopicOrPartition, and nothing is sent *)
Theorem C06_produce_reports_unavailable : forall acks timeout msgs m st,
  In m msgs -> find_broker (cs (cl st)) (pq_topic m) (pq_partition m) = None ->
  fst (internal_produce_messages acks timeout msgs st) = Err (EKafka KC_UnknownTopicOrPartition) /\
  trace (snd (internal_produce_messages acks timeout msgs st)) = trace st.
Proof.
  intros acks timeout msgs m st Hin Hm.
  set (s1 := snd (next_corr st)).
  assert (H1 : next_corr st = (Ok (fst (next_correlation_id (cs (cl st)))), s1)) by reflexivity.
  assert (H2 : produce_reqs (cs (cl s1)) msgs [] = None)
    by (apply (C06_produce_unavailable _ msgs [] m Hin); exact Hm).
  assert (H3 : internal_produce_messages acks timeout msgs st = (Err (EKafka KC_UnknownTopicOrPartition), s1)).
  { unfold internal_produce_messages. unfold mbind at 1. rewrite H1. unfold mbind at 1, get_client at 1.
    rewrite H2. reflexivity. }
  rewrite H3. split; reflexivity.
Qed.
Example ex_produce_reports_unavailable :
  let st0 := {| script := []; trace := []; anyq := []; hostq := []; fetchq := []; entryq := [];
                cl := {| cfg := default_config []; cs := ex_s5; conns := [] |}; env := ex_env |} in
  let '(r, s) := internal_produce_messages 1 1000
                   [ {| pq_topic := tag "c"; pq_partition := 0; pq_key := None; pq_value := Some (tag "w") |} ] st0 in
  r = Err (EKafka KC_UnknownTopicOrPartition) /\ trace s = [].
Proof. vm_compute. auto. Qed.

(* ... whereas fetch silently drops such a partition from the request *)
Theorem C06_fetch_skips : forall c pre q post,
  find_broker (cs c) (fq_topic q) (fq_partition q) = None ->
  fetch_reqs c (pre ++ q :: post) = fetch_reqs c (pre ++ post).
Proof.
  intros c pre q post H. unfold fetch_reqs. rewrite !fold_left_app. cbn [fold_left]. rewrite H. reflexivity.
Qed.
Example ex_fetch_skips :
  fetch_reqs {| cfg := default_config []; cs := ex_s5; conns := [] |}
             [ {| fq_topic := tag "c"; fq_partition := 0; fq_offset := 5; fq_max_bytes := 100 |} ] = [].
Proof. vm_compute. reflexivity. Qed.

(* ================================================================================================ *)
(* 9. Bootstrap: metadata is taken from the first host that can be reached                          *)
(* ================================================================================================ *)

Lemma conn_fail h st rest :
  in_pool h (conns (cl st)) = false -> script st = OConn false :: rest ->
  mtry (get_conn h) st = (Ok (Err (EIo IoConnRefused)), st_with st rest (EConnect h :: trace st)).
Proof.
  intros Hp Hs. unfold mtry, get_conn, mbind, get_client, new_conn, io. rewrite Hp.
  unfold mbind, io. rewrite Hs. reflexivity.
Qed.

Lemma hosts_step corr topics h r st rest :
  in_pool h (conns (cl st)) = false -> script st = OConn false :: rest ->
  fetch_metadata_hosts corr topics (h :: r) st
  = fetch_metadata_hosts corr topics r (st_with st rest (EConnect h :: trace st)).
Proof.
  intros Hp Hs. cbn [fetch_metadata_hosts]. unfold mbind at 1. unfold get_client at 1.
  unfold mbind at 1. rewrite (conn_fail h st rest Hp Hs). reflexivity.
Qed.

Lemma st_with_id st : st_with st (script st) (trace st) = st.
Proof. destruct st; reflexivity. Qed.

Theorem C06_bootstrap_none : forall corr topics hs st rest,
  (forall h, In h hs -> in_pool h (conns (cl st)) = false) ->
  script st = map (fun _ => OConn false) hs ++ rest ->
  fetch_metadata_hosts corr topics hs st
  = (Err ENoHostReachable, st_with st rest (rev (map EConnect hs) ++ trace st)).
Proof.
  induction hs as [|h hs IH]; intros st rest Hp Hs.
  - cbn [map app rev] in *. cbn [fetch_metadata_hosts]. unfold fail. rewrite <- Hs, st_with_id. reflexivity.
  - cbn [map app] in Hs. rewrite (hosts_step corr topics h hs st _ (Hp h (or_introl eq_refl)) Hs).
    rewrite (IH _ rest).
    + cbn [map rev]. rewrite <- app_assoc. reflexivity.
    + intros h' Hin. apply Hp. right; exact Hin.
    + reflexivity.
Qed.
Example ex_bootstrap_none :
  fetch_metadata_hosts 1 [] ex_hs (ex_st ex_hs [OConn false; OConn false; OConn false; OConn true])
  = (Err ENoHostReachable,
     st_with (ex_st ex_hs []) [OConn true] [EConnect (tag "c:3"); EConnect (tag "b:2"); EConnect (tag "a:1")]).
Proof. vm_compute. reflexivity. Qed.
Example ex_bootstrap_none_by_thm :
  fetch_metadata_hosts 1 [] ex_hs (ex_st ex_hs [OConn false; OConn false; OConn false; OConn true])
  = (Err ENoHostReachable,
     st_with (ex_st ex_hs []) [OConn true] [EConnect (tag "c:3"); EConnect (tag "b:2"); EConnect (tag "a:1")]).
Proof.
  rewrite (C06_bootstrap_none 1 [] ex_hs (ex_st ex_hs [OConn false; OConn false; OConn false; OConn true])
                              [OConn true]); [reflexivity | intros h _; reflexivity | reflexivity].
Qed.

Definition connected (st : st) (h : bytes) (sc : list ev_out) (tr : list ev_op) : Net.st :=
  {| script := sc; trace := tr; anyq := anyq st; hostq := hostq st; fetchq := fetchq st; entryq := entryq st;
     cl := {| cfg := cfg (cl st); cs := cs (cl st); conns := conns (cl st) ++ [h] |}; env := env st |}.

Lemma conn_ok h st rest :
  in_pool h (conns (cl st)) = false -> script st = OConn true :: rest ->
  mtry (get_conn h) st = (Ok (Ok tt), connected st h rest (EConnect h :: trace st)).
Proof.
  intros Hp Hs. unfold mtry, get_conn, mbind, get_client, new_conn, io. rewrite Hp.
  unfold mbind, io. rewrite Hs. reflexivity.
Qed.

Lemma send_one h buf st rest :
  buf <> [] -> script st = OWrote (ulen buf) :: rest ->
  send h buf st = (Ok (ulen buf), st_with st rest (EWrite h buf :: trace st)).
Proof.
  intros Hne Hs. unfold send, mbind, with_fuel. rewrite Hs. cbn [length].
  destruct buf as [|b buf]; [contradiction|]. cbn [write_all]. unfold mbind, io. rewrite Hs.
  replace (ulen (b :: buf) <=? 0) with false by (unfold ulen; cbn [length]; lia).
  replace (skipn (Z.to_nat (ulen (b :: buf))) (b :: buf)) with (@nil byte)
    by (unfold ulen; rewrite Nat2Z.id, skipn_all; reflexivity).
  destruct (length rest); reflexivity.
Qed.

Lemma frame_nonempty p : frame p <> [].
Proof. unfold frame, enc_i32. cbn [be_enc app]. discriminate. Qed.

Lemma hosts_first corr topics h post st payload script2 :
  in_pool h (conns (cl st)) = false ->
  enc_metadata_req corr (client_id (cfg (cl st))) topics = Ok payload ->
  script st = OConn true :: OWrote (ulen (frame payload)) :: script2 ->
  fetch_metadata_hosts corr topics (h :: post) st
  = get_response dec_metadata_resp h
      (connected st h script2 (EWrite h (frame payload) :: EConnect h :: trace st)).
Proof.
  intros Hp Henc Hs. cbn [fetch_metadata_hosts]. unfold mbind at 1. unfold get_client at 1.
  unfold mbind at 1. rewrite (conn_ok h st _ Hp Hs).
  unfold mbind at 1. rewrite Henc.
  assert (Hsend : mtry (send_request h (Ok payload)) (connected st h (OWrote (ulen (frame payload)) :: script2) (EConnect h :: trace st))
          = (Ok (Ok (ulen (frame payload))), connected st h script2 (EWrite h (frame payload) :: EConnect h :: trace st))).
  { set (st1 := connected st h (OWrote (ulen (frame payload)) :: script2) (EConnect h :: trace st)).
    unfold mtry, send_request, mbind at 1, lift.
    rewrite (send_one h (frame payload) st1 script2 (frame_nonempty payload) eq_refl). reflexivity. }
  rewrite Hsend. reflexivity.
Qed.

Theorem C06_bootstrap_first : forall corr topics pre h post st payload script2,
  (forall h', In h' pre -> in_pool h' (conns (cl st)) = false) ->
  in_pool h (conns (cl st)) = false ->
  enc_metadata_req corr (client_id (cfg (cl st))) topics = Ok payload ->
  script st = map (fun _ => OConn false) pre ++ OConn true :: OWrote (ulen (frame payload)) :: script2 ->
  fetch_metadata_hosts corr topics (pre ++ h :: post) st
  = get_response dec_metadata_resp h
      (connected st h script2 (EWrite h (frame payload) :: EConnect h :: rev (map EConnect pre) ++ trace st)).
Proof.
  induction pre as [|h0 pre IH]; intros h post st payload script2 Hpre Hp Henc Hs.
  - cbn [map app rev] in *. apply hosts_first; auto.
  - cbn [map app] in Hs. cbn [app].
    rewrite (hosts_step corr topics h0 _ st _ (Hpre h0 (or_introl eq_refl)) Hs).
    rewrite (IH h post _ payload script2).
    + cbn [map rev]. rewrite <- app_assoc. reflexivity.
    + intros h' Hin. apply Hpre. right; exact Hin.
    + exact Hp.
    + exact Henc.
    + reflexivity.
Qed.
(* host a refuses, host b connects, takes the 18 byte request and answers an empty metadata response;
   host c is never contacted *)
Example ex_bootstrap_first :
  let '(r, s) := fetch_metadata_hosts 1 [] ex_hs
                   (ex_st ex_hs [OConn false; OConn true; OWrote 18; OData (enc_i32 12);
                                 OData (enc_i32 1 ++ enc_i32 0 ++ enc_i32 0)]) in
  r = Ok {| md_corr := 1; md_brokers := []; md_topics := [] |} /\
  rev (trace s) = [EConnect (tag "a:1"); EConnect (tag "b:2");
                   EWrite (tag "b:2") (frame (enc_i16 3 ++ enc_i16 0 ++ enc_i32 1 ++ enc_i16 0 ++ enc_i32 0));
                   ERead (tag "b:2") 4; ERead (tag "b:2") 12] /\
  conns (cl s) = [tag "b:2"].
Proof. vm_compute. repeat split; reflexivity. Qed.
Example ex_bootstrap_first_hyps :
  enc_metadata_req 1 (client_id (cfg (cl (ex_st ex_hs [])))) [] = Ok (enc_i16 3 ++ enc_i16 0 ++ enc_i32 1 ++ enc_i16 0 ++ enc_i32 0) /\
  ulen (frame (enc_i16 3 ++ enc_i16 0 ++ enc_i32 1 ++ enc_i16 0 ++ enc_i32 0)) = 18.
Proof. vm_compute. auto. Qed.

(* get_response only reads from h *)
Definition only_reads (h : bytes) (s s' : st) : Prop :=
  exists evs, trace s' = evs ++ trace s /\ Forall (fun e => exists n, e = ERead h n) evs /\ cl s' = cl s.
Definition reads_only {A} (h : bytes) (m : M A) : Prop := forall s r s', m s = (r, s') -> only_reads h s s'.

Lemma only_reads_refl h s : only_reads h s s.
Proof. exists []. repeat split; auto. Qed.

Lemma only_reads_trans h s1 s2 s3 : only_reads h s1 s2 -> only_reads h s2 s3 -> only_reads h s1 s3.
Proof.
  intros (e1 & T1 & F1 & C1) (e2 & T2 & F2 & C2). exists (e2 ++ e1). repeat split.
  - rewrite T2, T1, app_assoc. reflexivity.
  - apply Forall_app; auto.
  - congruence.
Qed.

Lemma ro_ret {A} h (a : A) : reads_only h (ret a).
Proof. intros s r s' H. injection H as _ <-. apply only_reads_refl. Qed.
Lemma ro_fail {A} h e : reads_only h (@fail A e).
Proof. intros s r s' H. injection H as _ <-. apply only_reads_refl. Qed.
Lemma ro_lift {A} h (x : res A) : reads_only h (lift x).
Proof. intros s r s' H. injection H as _ <-. apply only_reads_refl. Qed.
Lemma ro_bind {A B} h (m : M A) (f : A -> M B) :
  reads_only h m -> (forall a, reads_only h (f a)) -> reads_only h (mbind m f).
Proof.
  intros Hm Hf s r s' H. unfold mbind in H. destruct (m s) as [[a|e|w] s1] eqn:E.
  - eapply only_reads_trans; [eapply Hm; eauto | eapply Hf; eauto].
  - injection H as _ <-. eapply Hm; eauto.
  - injection H as _ <-. eapply Hm; eauto.
Qed.
Lemma ro_io h n : reads_only h (io (ERead h n)).
Proof.
  intros s r s' H. unfold io in H. exists [ERead h n].
  destruct (script s); injection H as _ <-; cbn [trace cl st_with app]; repeat split; auto;
    constructor; eauto.
Qed.
Lemma ro_with_fuel {A} h (f : nat -> M A) : (forall n, reads_only h (f n)) -> reads_only h (with_fuel f).
Proof. intros Hf s r s' H. unfold with_fuel in H. eapply Hf; eauto. Qed.

Lemma ro_read_exact h : forall fuel n acc, reads_only h (read_exact fuel h n acc).
Proof.
  induction fuel as [|f IH]; intros n acc; cbn [read_exact]; destruct (n <=? 0); try apply ro_ret; try apply ro_fail.
  apply ro_bind; [apply ro_io|]. intros [ | | | | [|b bs] | | | ]; try apply ro_fail; apply IH.
Qed.

Lemma ro_read_chunks h : forall fuel remaining acc, reads_only h (read_chunks fuel h remaining acc).
Proof.
  induction fuel as [|f IH]; intros n acc; cbn [read_chunks]; destruct (n <=? 0); try apply ro_ret; try apply ro_fail.
  apply ro_bind; [apply ro_with_fuel; intros g; apply ro_read_exact|]. intros b. apply IH.
Qed.

Theorem C06_response_reads_only : forall A (d : dec A) h, reads_only h (get_response d h).
Proof.
  intros A d h. unfold get_response, get_response_bytes, get_response_size, read_exact_alloc.
  apply ro_bind.
  - apply ro_bind.
    + apply ro_bind; [apply ro_with_fuel; intros g; apply ro_read_exact|].
      intros b. destruct (be_dec_s b <? 0); [apply ro_fail | apply ro_ret].
    + intros size. apply ro_with_fuel. intros g. apply ro_read_chunks.
  - intros b. apply ro_bind; [apply ro_lift|]. intros [a r]. apply ro_ret.
Qed.

Corollary C06_bootstrap_first_trace : forall corr topics pre h post st payload script2 r st',
  (forall h', In h' pre -> in_pool h' (conns (cl st)) = false) ->
  in_pool h (conns (cl st)) = false ->
  enc_metadata_req corr (client_id (cfg (cl st))) topics = Ok payload ->
  script st = map (fun _ => OConn false) pre ++ OConn true :: OWrote (ulen (frame payload)) :: script2 ->
  fetch_metadata_hosts corr topics (pre ++ h :: post) st = (r, st') ->
  exists reads, Forall (fun e => exists n, e = ERead h n) reads /\
    trace st' = reads ++ EWrite h (frame payload) :: EConnect h :: rev (map EConnect pre) ++ trace st.
Proof.
  intros corr topics pre h post st payload script2 r st' Hpre Hp Henc Hs H.
  rewrite (C06_bootstrap_first corr topics pre h post st payload script2 Hpre Hp Henc Hs) in H.
  apply C06_response_reads_only in H. destruct H as (evs & T & F & _). exists evs. split; [exact F | exact T].
Qed.

(* a request that cannot be ENCODED is treated like a host that cannot be reached: the client connects to
   every bootstrap host in turn, writes nothing, and reports NoHostReachable *)
Lemma hosts_step_enc corr topics h r st rest e :
  in_pool h (conns (cl st)) = false -> script st = OConn true :: rest ->
  enc_metadata_req corr (client_id (cfg (cl st))) topics = Err e ->
  fetch_metadata_hosts corr topics (h :: r) st
  = fetch_metadata_hosts corr topics r (connected st h rest (EConnect h :: trace st)).
Proof.
  intros Hp Hs Henc. cbn [fetch_metadata_hosts]. unfold mbind at 1. unfold get_client at 1.
  unfold mbind at 1. rewrite (conn_ok h st _ Hp Hs). unfold mbind at 1. rewrite Henc. reflexivity.
Qed.

Theorem C06_bootstrap_encode_error : forall corr topics hs st e rest,
  NoDup hs -> (forall h, In h hs -> in_pool h (conns (cl st)) = false) ->
  enc_metadata_req corr (client_id (cfg (cl st))) topics = Err e ->
  script st = map (fun _ => OConn true) hs ++ rest ->
  fst (fetch_metadata_hosts corr topics hs st) = Err ENoHostReachable /\
  trace (snd (fetch_metadata_hosts corr topics hs st)) = rev (map EConnect hs) ++ trace st.
Proof.
  induction hs as [|h hs IH]; intros st e rest Hnd Hp Henc Hs.
  - cbn [fetch_metadata_hosts fail fst snd map rev app]. auto.
  - cbn [map app] in Hs. inversion Hnd as [|x xs Hni Hnd']; subst.
    rewrite (hosts_step_enc corr topics h hs st _ e (Hp h (or_introl eq_refl)) Hs Henc).
    destruct (IH (connected st h (map (fun _ => OConn true) hs ++ rest) (EConnect h :: trace st)) e rest)
      as [R1 R2]; auto.
    + intros h' Hin. cbn [connected cl conns]. unfold in_pool. rewrite existsb_app. cbn [existsb].
      fold (in_pool h' (conns (cl st))). rewrite (Hp h' (or_intror Hin)). cbn [orb].
      destruct (bytes_eqb h' h) eqn:E; [| reflexivity]. apply bytes_eqb_eq in E. subst. contradiction.
    + split; [exact R1|]. rewrite R2. cbn [connected trace map rev]. rewrite <- app_assoc. reflexivity.
Qed.
(* a client id of 32768 bytes cannot be encoded (its length does not fit an i16) *)
Example ex_bootstrap_encode_error :
  let st0 := ex_st ex_hs [OConn true; OConn true; OConn true] in
  let st1 := {| script := script st0; trace := []; anyq := []; hostq := []; fetchq := []; entryq := [];
                cl := {| cfg := {| client_id := repeat x00 (Z.to_nat 32768); hosts := ex_hs;
                                   compression := 0; fetch_max_wait_time := 0; fetch_min_bytes := 0;
                                   fetch_max_bytes_per_partition := 0; fetch_crc_validation := false;
                                   offset_storage := -1; retry_backoff_time := (0, 0); retry_max_attempts := 0;
                                   idle_timeout := (1, 0) |};
                         cs := cstate_new; conns := [] |};
                env := ex_env |} in
  let '(r, s) := fetch_metadata_hosts 1 [] ex_hs st1 in
  r = Err ENoHostReachable /\
  rev (trace s) = [EConnect (tag "a:1"); EConnect (tag "b:2"); EConnect (tag "c:3")] /\
  conns (cl s) = ex_hs.
Proof. vm_compute. repeat split; reflexivity. Qed.

(* ================================================================================================ *)
Print Assumptions C06_update_total.
Print Assumptions C06_inv_init.
Print Assumptions C06_inv_step.
Print Assumptions C06_inv_clear.
Print Assumptions C06_refines_code.
Print Assumptions merge_code_wf.
Print Assumptions C06_refines.
Print Assumptions C06_merge_host_lookup.
Print Assumptions C06_merge_topic_lookup.
Print Assumptions C06_refines_refuted_without_wf.
Print Assumptions C06_clear.
Print Assumptions C06_history.
Print Assumptions C06_routing.
Print Assumptions C06_stable_refs.
Print Assumptions C06_stable_nodes.
Print Assumptions C06_stable_indices.
Print Assumptions C06_addressed_has_leader.
Print Assumptions C06_no_leader_no_address.
Print Assumptions C06_leaderless_never_addressed.
Print Assumptions C06_fetch_addressed.
Print Assumptions C06_produce_addressed.
Print Assumptions C06_produce_unavailable.
Print Assumptions C06_produce_reports_unavailable.
Print Assumptions C06_fetch_skips.
Print Assumptions C06_bootstrap_none.
Print Assumptions C06_bootstrap_first.
Print Assumptions C06_response_reads_only.
Print Assumptions C06_bootstrap_first_trace.
Print Assumptions C06_bootstrap_encode_error.
