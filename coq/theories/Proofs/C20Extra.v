(* C20, additional theorems: what "the currently loaded metadata" is after a HISTORY of loads and resets
   (src/client/state.rs update_metadata; src/client/mod.rs load_metadata / load_metadata_all / reset_metadata),
   and the call-level consequences that Props/C20.v does not state.

   Props/C20.v speaks about one fixed client state `s` and the predicate `known s t p`
   ("t is in topic_partitions s and 0 <= p < its vector length").  Nothing there says how that vector
   comes about, so a change of update_metadata (seed C20: a reload that reports fewer partitions no longer
   truncates) or of load_metadata_all (seed C20-3: the reset happens only after a successful fetch) leaves
   every theorem of Props/C20.v provable.  The theorems below close that gap:

   Part A  update_metadata: per topic, the number of loaded partitions after a load IS the number of partitions
           listed by the last entry of the response for that topic; topics the response does not list are
           untouched.  Lifted to arbitrary histories of loads and resets, and combined with the request builders.
   Part B  load_metadata / load_metadata_all / as calls (any script, any failure point): what the client state
           is afterwards, on success and on EVERY failure.
   Part C  calls whose arguments are all unknown do no I/O at all (fetch_messages, fetch_offsets, list_offsets);
           the calls that pass the membership check send exactly the checked entry list. *)
From Coq Require Import ZifyBool Sorting.Permutation.
From KV Require Import Base.Prelude Gen.Consts Model.Codecs Model.Requests Model.Responses
                       Model.ClientState Model.Net Model.Client.
From KV Require Import Proofs.BytesFacts Proofs.NetFacts.
From KV Require Proofs.C06Facts.
From KV Require Import Proofs.C20Facts.

(* ================================================================================================== *)
(* Part A: update_metadata and histories                                                               *)
(* ================================================================================================== *)

(* number of loaded partitions of a topic; None = the topic is not loaded *)
Definition loaded_count (s : cstate) (t : bytes) : option nat :=
  option_map (@length Z) (partitions_for s t).

Definition in_count (n : option nat) (p : Z) : Prop :=
  match n with Some k => 0 <= p < Z.of_nat k | None => False end.

Theorem C20_known_count : forall s t p, known s t p <-> in_count (loaded_count s t) p.
Proof.
  intros s t p. unfold known, loaded_count, in_count. destruct (partitions_for s t) as [ps|]; cbn [option_map].
  - split; [intros [ps' [H1 H2]]; injection H1 as <-; exact H2|intros H; exists ps; split; [reflexivity|exact H]].
  - split; [intros [ps' [H1 _]]; discriminate|intros []].
Qed.

(* the entry of a metadata response that decides about topic t: the LAST one naming it *)
Definition listed_count (md : metadata_resp) (t : bytes) : option nat :=
  option_map (fun tm => length (tm_partitions tm)) (C06Facts.last_topic (md_topics md) t).

Lemma sync_fun_length idx : forall pms ps, length (C06Facts.sync_fun idx pms ps) = length ps.
Proof.
  induction pms as [|pm pms IH]; intros ps; cbn [C06Facts.sync_fun]; [reflexivity|].
  destruct ((pm_id pm <? 0) || (ulen ps <=? pm_id pm)); [apply IH|].
  rewrite IH. apply C06Facts.set_nth_length.
Qed.

Lemma topic_vec_length idx old pms : length (C06Facts.topic_vec idx old pms) = length pms.
Proof. unfold C06Facts.topic_vec. rewrite sync_fun_length. apply C06Facts.resize_length. Qed.

Lemma topics_fun_count idx : forall tms tps t,
  option_map (@length Z) (assoc_bytes t (C06Facts.topics_fun idx tms tps))
  = match C06Facts.last_topic tms t with
    | Some tm => Some (length (tm_partitions tm))
    | None => option_map (@length Z) (assoc_bytes t tps)
    end.
Proof.
  induction tms as [|tm tms IH]; intros tps t; cbn [C06Facts.topics_fun C06Facts.last_topic]; [reflexivity|].
  rewrite IH. destruct (C06Facts.last_topic tms t) as [tm'|]; [reflexivity|].
  rewrite C06Facts.assoc_bytes_bset. destruct (bytes_eqb (tm_topic tm) t); [|reflexivity].
  cbn [option_map]. rewrite topic_vec_length. reflexivity.
Qed.

(* A1 (seed C20).  After a load, a topic listed by the response has exactly as many partitions as the
   response lists for it - fewer than before if the topic shrank, none if it was deleted - and a topic
   that is not listed keeps what it had. *)
Theorem C20_load_count : forall s md s' t,
  update_metadata s md = Ok s' ->
  loaded_count s' t = match listed_count md t with Some n => Some n | None => loaded_count s t end.
Proof.
  intros s md s' t H. rewrite C06Facts.update_metadata_eq in H. injection H as <-.
  unfold loaded_count, listed_count, partitions_for, C06Facts.upd_fun. cbn [topic_partitions].
  rewrite topics_fun_count. destruct (C06Facts.last_topic (md_topics md) t); reflexivity.
Qed.

Theorem C20_load_known : forall s md s' t p,
  update_metadata s md = Ok s' ->
  (known s' t p <-> match listed_count md t with
                    | Some n => 0 <= p < Z.of_nat n
                    | None => known s t p
                    end).
Proof.
  intros s md s' t p H. rewrite C20_known_count, (C20_load_count s md s' t H).
  destruct (listed_count md t) as [n|]; [reflexivity|]. symmetry. apply C20_known_count.
Qed.

(* in particular: what a reload no longer lists is forgotten, including its stale leader *)
Corollary C20_load_shrunk_forgotten : forall s md s' t n p,
  update_metadata s md = Ok s' -> listed_count md t = Some n -> Z.of_nat n <= p ->
  ~ known s' t p /\ find_broker s' t p = None /\ contains_topic_partition s' t p = false.
Proof.
  intros s md s' t n p H Hn Hp.
  assert (Hk : ~ known s' t p) by (rewrite (C20_load_known s md s' t p H), Hn; lia).
  split; [exact Hk|]. split; [apply unknown_find_broker_None; exact Hk|apply not_known_iff; exact Hk].
Qed.

(* ---- histories of loads and resets (C06Facts.step_c: None = reset_metadata, Some md = a load) ------- *)
Definition count_step (f : bytes -> option nat) (op : option metadata_resp) : bytes -> option nat :=
  match op with
  | None => fun _ => None
  | Some md => fun t => match listed_count md t with Some n => Some n | None => f t end
  end.

(* the specification of "currently loaded": replay the history on partition counts only *)
Definition spec_count (ops : list (option metadata_resp)) (f : bytes -> option nat) : bytes -> option nat :=
  fold_left count_step ops f.

Lemma spec_count_ext ops : forall f g, (forall t, f t = g t) -> forall t, spec_count ops f t = spec_count ops g t.
Proof.
  induction ops as [|op ops IH]; intros f g Hfg t; cbn [spec_count fold_left]; [apply Hfg|].
  apply IH. intros t'. destruct op as [md|]; cbn [count_step]; [|reflexivity].
  destruct (listed_count md t'); [reflexivity|apply Hfg].
Qed.

(* A2.  After EVERY history of loads and resets, from any state, the client state exists and knows exactly
   the partitions the replayed history says. *)
Theorem C20_history_known : forall ops s0,
  exists s, fold_left C06Facts.step_c ops (Ok s0) = Ok s
            /\ (forall t, loaded_count s t = spec_count ops (loaded_count s0) t)
            /\ (forall t p, known s t p <-> in_count (spec_count ops (loaded_count s0) t) p).
Proof.
  assert (Hmain : forall ops s0, exists s, fold_left C06Facts.step_c ops (Ok s0) = Ok s
                                     /\ forall t, loaded_count s t = spec_count ops (loaded_count s0) t).
  { induction ops as [|op ops IH]; intros s0; cbn [fold_left].
    - exists s0. split; [reflexivity|]. intros t. reflexivity.
    - destruct op as [md|]; cbn [C06Facts.step_c bind].
      + pose proof (C06Facts.update_metadata_eq s0 md) as Hupd. rewrite Hupd.
        destruct (IH (C06Facts.upd_fun s0 md)) as [s [H1 H2]]. exists s. split; [exact H1|].
        intros t. rewrite H2. cbn [spec_count fold_left]. apply spec_count_ext. intros t'.
        cbn [count_step]. apply (C20_load_count s0 md _ t' Hupd).
      + destruct (IH (clear_metadata s0)) as [s [H1 H2]]. exists s. split; [exact H1|].
        intros t. rewrite H2. cbn [spec_count fold_left]. apply spec_count_ext. intros t'. reflexivity. }
  intros ops s0. destruct (Hmain ops s0) as [s [H1 H2]]. exists s. split; [exact H1|]. split; [exact H2|].
  intros t p. rewrite C20_known_count, H2. reflexivity.
Qed.

(* what the replay says, read pointwise: the latest load listing t decides, unless a reset came after it *)
Theorem C20_spec_count_last : forall ops op f t,
  spec_count (ops ++ [op]) f t
  = match op with
    | None => None
    | Some md => match listed_count md t with Some n => Some n | None => spec_count ops f t end
    end.
Proof.
  intros ops op f t. unfold spec_count. rewrite fold_left_app. cbn [fold_left].
  destruct op as [md|]; reflexivity.
Qed.

(* A3.  The request builders after any history: everything they name is in the replayed metadata, and the
   local checks reject exactly what is not. *)
Theorem C20_history_requests : forall ops s0 s,
  fold_left C06Facts.step_c ops (Ok s0) = Ok s ->
  let loaded t p := in_count (spec_count ops (loaded_count s0) t) p in
  (forall c input host tps t ps p x, cs c = s ->
     In (host, tps) (fetch_reqs c input) -> In (t, ps) tps -> In (p, x) ps -> loaded t p)
  /\ (forall topics time host tps t ps p x,
     In (host, tps) (offset_reqs s topics time) -> In (t, ps) tps -> In (p, x) ps -> loaded t p)
  /\ (forall msgs, (exists m, In m msgs /\ ~ loaded (pq_topic m) (pq_partition m)) -> produce_reqs s msgs [] = None)
  /\ (forall msgs reqs host tps t ps p ms, produce_reqs s msgs [] = Some reqs ->
     In (host, tps) reqs -> In (t, ps) tps -> In (p, ms) ps -> loaded t p)
  /\ (forall os, commit_tps s os [] = None <-> exists o, In o os /\ ~ loaded (co_topic o) (co_partition o))
  /\ (forall args, group_fetch_tps s args [] = None <-> exists t p, In (t, p) args /\ ~ loaded t p).
Proof.
  intros ops s0 s Hrun loaded.
  destruct (C20_history_known ops s0) as [s1 [H1 [_ Hk]]]. rewrite Hrun in H1. injection H1 as <-.
  assert (Hl : forall t p, known s t p <-> loaded t p) by exact Hk.
  split; [|split; [|split; [|split; [|split]]]].
  - intros c input host tps t ps p x Hc Ha Hb Hd. apply Hl. rewrite <- Hc.
    apply (C20_fetch_known c input host tps t ps p x Ha Hb Hd).
  - intros topics time host tps t ps p x Ha Hb Hd. apply Hl.
    apply (C20_offsets_known s topics time host tps t ps p x Ha Hb Hd).
  - intros msgs [m [Hm Hn]]. apply C20_produce_unknown_fail. exists m. split; [exact Hm|].
    intros Hkn. apply Hn. apply Hl. exact Hkn.
  - intros msgs reqs host tps t ps p ms Hp Ha Hb Hd. apply Hl.
    apply (C20_produce_known s msgs reqs Hp host tps t ps p ms Ha Hb Hd).
  - intros os. rewrite C20_commit_local_fail. split; intros [o [Ho Hn]]; exists o; (split; [exact Ho|]);
      intros Hx; apply Hn; apply Hl; exact Hx.
  - intros args. rewrite C20_group_fetch_local_fail. split; intros [t [p [Ho Hn]]]; exists t, p; (split; [exact Ho|]);
      intros Hx; apply Hn; apply Hl; exact Hx.
Qed.

(* ---- examples --------------------------------------------------------------------------------------- *)
Definition x_pm (id leader : Z) : partition_md :=
  {| pm_error := 0; pm_id := id; pm_leader := leader; pm_replicas := [leader]; pm_isr := [leader] |}.
Definition x_tm (e : Z) (t : bytes) (pms : list partition_md) : topic_md :=
  {| tm_error := e; tm_topic := t; tm_partitions := pms |}.
Definition x_brokers : list broker_md := [ {| bm_node := 1; bm_host := tag "h1"; bm_port := 9092 |} ].
(* t with three partitions, u with one *)
Definition x_md3 : metadata_resp :=
  {| md_corr := 1; md_brokers := x_brokers;
     md_topics := [x_tm 0 (tag "t") [x_pm 0 1; x_pm 1 1; x_pm 2 1]; x_tm 0 (tag "u") [x_pm 0 1]] |}.
(* a named reload of t: re-created with one partition *)
Definition x_md1 : metadata_resp :=
  {| md_corr := 2; md_brokers := x_brokers; md_topics := [x_tm 0 (tag "t") [x_pm 0 1]] |}.
(* a named reload of t after its deletion: error code 3, no partitions *)
Definition x_md0 : metadata_resp :=
  {| md_corr := 3; md_brokers := x_brokers; md_topics := [x_tm 3 (tag "t") []] |}.
Definition x_s3 : cstate := C06Facts.upd_fun cstate_new x_md3.
Definition x_s1 : cstate := C06Facts.upd_fun x_s3 x_md1.
Definition x_s0 : cstate := C06Facts.upd_fun x_s3 x_md0.

Example C20_load_known_ex :
  update_metadata cstate_new x_md3 = Ok x_s3 /\ update_metadata x_s3 x_md1 = Ok x_s1
  /\ update_metadata x_s3 x_md0 = Ok x_s0
  /\ find_broker x_s3 (tag "t") 2 = Some (tag "h1:9092")            (* loaded, with a leader *)
  /\ listed_count x_md1 (tag "t") = Some 1%nat /\ listed_count x_md1 (tag "u") = None
  /\ find_broker x_s1 (tag "t") 2 = None /\ contains_topic_partition x_s1 (tag "t") 2 = false
  /\ find_broker x_s1 (tag "t") 0 = Some (tag "h1:9092") /\ find_broker x_s1 (tag "u") 0 = Some (tag "h1:9092")
  /\ listed_count x_md0 (tag "t") = Some 0%nat
  /\ find_broker x_s0 (tag "t") 0 = None /\ partitions_for x_s0 (tag "t") = Some [].
Proof. vm_compute. repeat split; reflexivity. Qed.

Definition x_ops : list (option metadata_resp) := [Some x_md3; Some x_md1; None; Some x_md1].
Example C20_history_known_ex :
  spec_count [Some x_md3; Some x_md1] (loaded_count cstate_new) (tag "t") = Some 1%nat
  /\ spec_count [Some x_md3; Some x_md1] (loaded_count cstate_new) (tag "u") = Some 1%nat
  /\ spec_count x_ops (loaded_count cstate_new) (tag "t") = Some 1%nat
  /\ spec_count x_ops (loaded_count cstate_new) (tag "u") = None             (* forgotten by the reset *)
  /\ match fold_left C06Facts.step_c x_ops (Ok cstate_new) with
     | Ok s => find_broker s (tag "t") 0 = Some (tag "h1:9092") /\ find_broker s (tag "u") 0 = None
     | _ => False
     end.
Proof. vm_compute. repeat split; reflexivity. Qed.

Example C20_history_requests_ex :
  fold_left C06Facts.step_c [Some x_md3; Some x_md1] (Ok cstate_new) = Ok x_s1
  /\ produce_reqs x_s1 [ {| pq_topic := tag "t"; pq_partition := 0; pq_key := None; pq_value := None |} ] [] <> None
  /\ produce_reqs x_s1 [ {| pq_topic := tag "t"; pq_partition := 1; pq_key := None; pq_value := None |} ] [] = None
  /\ commit_tps x_s1 [ {| co_topic := tag "t"; co_partition := 2; co_offset := 5 |} ] [] = None
  /\ commit_tps x_s3 [ {| co_topic := tag "t"; co_partition := 2; co_offset := 5 |} ] [] <> None.
Proof. vm_compute. repeat split; try reflexivity; discriminate. Qed.

(* ================================================================================================== *)
(* Part B: the metadata calls                                                                           *)
(* ================================================================================================== *)

(* fetch_metadata does I/O and may add pooled connections; of the client state it advances the correlation
   counter and nothing else - whatever the script, whichever way it fails *)
Lemma frame_fetch_metadata_hosts corr topics : forall hs, keeps same_but_conns (fetch_metadata_hosts corr topics hs).
Proof.
  pose proof preorder_same_but_conns as Hpre.
  induction hs as [|h r IH]; cbn [fetch_metadata_hosts]; [apply keeps_fail; exact Hpre|].
  apply keeps_bind; [exact Hpre|apply keeps_get_client; exact Hpre|]. intros c.
  apply keeps_bind; [exact Hpre|apply keeps_mtry; apply frame_get_conn|]. intros rc.
  destruct rc as [u|e|w]; [|exact IH|exact IH].
  apply keeps_bind; [exact Hpre| |].
  - apply keeps_mtry. eapply keeps_weaken; [exact same_but_io_conns|apply frame_send_request].
  - intros rs. destruct rs as [k|e|w]; [|exact IH|exact IH].
    eapply keeps_weaken; [exact same_but_io_conns|apply frame_get_response].
Qed.

Lemma fetch_metadata_cs topics x r x' :
  fetch_metadata topics x = (r, x') ->
  cs (cl x') = snd (next_correlation_id (cs (cl x))) /\ cfg (cl x') = cfg (cl x).
Proof.
  unfold fetch_metadata. rewrite (mbind_run _ _ _ _ _ (next_corr_run x)).
  rewrite (mbind_run _ _ _ _ _ (get_client_run (bump_corr x))). intros H.
  apply frame_fetch_metadata_hosts in H. destruct H as (_ & _ & _ & _ & _ & H6 & H7).
  rewrite H7, H6. split; reflexivity.
Qed.

Definition failed {A} (r : res A) : Prop := forall a, r <> Ok a.

(* B1.  A named (or full) load, as a call: either it succeeded and the new client state is update_metadata of
   the old one (correlation advanced) with the response received, or it failed - at ANY point - and the loaded
   metadata is exactly what it was. *)
Theorem C20_load_call : forall topics x r x',
  load_metadata topics x = (r, x') ->
  (r = Ok tt /\ exists md, update_metadata (snd (next_correlation_id (cs (cl x)))) md = Ok (cs (cl x')))
  \/ (failed r /\ cs (cl x') = snd (next_correlation_id (cs (cl x)))).
Proof.
  intros topics x r x' H. unfold load_metadata in H. bind_inv H md x1 H1 H2.
  - apply fetch_metadata_cs in H1. destruct H1 as [Hcs _].
    rewrite (mbind_run _ _ _ _ _ (get_client_run x1)) in H2.
    pose proof (C06Facts.update_metadata_eq (cs (cl x1)) md) as Hupd.
    unfold mbind at 1 in H2. unfold lift in H2. rewrite Hupd in H2.
    unfold set_cs in H2. rewrite (mbind_run _ _ _ _ _ (get_client_run x1)) in H2.
    unfold set_client in H2. injection H2 as <- <-. left. split; [reflexivity|].
    exists md. cbn [cl cs]. rewrite <- Hcs. exact Hupd.
  - apply fetch_metadata_cs in H1. destruct H1 as [Hcs _]. right. split; [|exact Hcs].
    intros a Ha. rewrite Ha in H2. discriminate.
  - apply fetch_metadata_cs in H1. destruct H1 as [Hcs _]. right. split; [|exact Hcs].
    intros a Ha. rewrite Ha in H2. discriminate.
Qed.

(* B2 (seed C20-3).  load_metadata_all = reset + load: the reset takes effect FIRST, so either the call
   succeeded and the state is update_metadata of the EMPTY state with the response, or it failed and the
   state is the empty one: nothing of the previous load survives a failed refresh. *)
Theorem C20_load_all_call : forall x r x',
  load_metadata_all x = (r, x') ->
  (r = Ok tt /\ exists md, update_metadata (snd (next_correlation_id (clear_metadata (cs (cl x))))) md = Ok (cs (cl x')))
  \/ (failed r /\ cs (cl x') = snd (next_correlation_id (clear_metadata (cs (cl x))))).
Proof.
  intros x r x' H. unfold load_metadata_all in H.
  destruct (C20_reset_call x) as [x0 [Hr [Hcs _]]].
  rewrite (mbind_run _ _ _ _ _ Hr) in H. apply C20_load_call in H. rewrite Hcs in H. exact H.
Qed.

Theorem C20_load_all_failed_unknown : forall x r x',
  load_metadata_all x = (r, x') -> failed r ->
  (forall t p, ~ known (cs (cl x')) t p)
  /\ (forall t p, find_broker (cs (cl x')) t p = None)
  /\ (forall t, partitions_for (cs (cl x')) t = None)
  /\ (forall topics time, offset_reqs (cs (cl x')) topics time = [])
  /\ (forall input, fetch_reqs (cl x') input = [])
  /\ (forall m msgs, produce_reqs (cs (cl x')) (m :: msgs) [] = None)
  /\ (forall o os, commit_tps (cs (cl x')) (o :: os) [] = None)
  /\ (forall a args, group_fetch_tps (cs (cl x')) (a :: args) [] = None).
Proof.
  intros x r x' H Hf. apply C20_load_all_call in H. destruct H as [[Hr _]|[_ Hcs]].
  - exfalso. apply (Hf tt). exact Hr.
  - assert (Htp : topic_partitions (cs (cl x')) = []) by (rewrite Hcs; reflexivity).
    assert (Hpf : forall t, partitions_for (cs (cl x')) t = None).
    { intros t. unfold partitions_for. rewrite Htp. reflexivity. }
    assert (Hfb : forall t p, find_broker (cs (cl x')) t p = None).
    { intros t p. unfold find_broker. rewrite Hpf. reflexivity. }
    assert (Hk : forall t p, ~ known (cs (cl x')) t p).
    { intros t p [ps [Hps _]]. rewrite Hpf in Hps. discriminate. }
    split; [exact Hk|]. split; [exact Hfb|]. split; [exact Hpf|].
    split; [|split; [|split; [|split; [|]]]].
    + intros topics time. unfold offset_reqs. apply (fold_left_inv (fun reqs => reqs = [])); [|reflexivity].
      intros acc t _ ->. rewrite Hpf. reflexivity.
    + intros input. unfold fetch_reqs. apply (fold_left_inv (fun reqs => reqs = [])); [|reflexivity].
      intros acc q _ ->. rewrite Hfb. reflexivity.
    + intros m msgs. cbn [produce_reqs]. rewrite Hfb. reflexivity.
    + intros o os. cbn [commit_tps]. unfold contains_topic_partition. rewrite Hpf. reflexivity.
    + intros [t p] args. cbn [group_fetch_tps]. unfold contains_topic_partition. rewrite Hpf. reflexivity.
Qed.

(* after a successful load_metadata_all exactly what the response lists is known *)
Theorem C20_load_all_ok_known : forall x x',
  load_metadata_all x = (Ok tt, x') ->
  exists md, forall t p, known (cs (cl x')) t p <-> in_count (listed_count md t) p.
Proof.
  intros x x' H. apply C20_load_all_call in H. destruct H as [[_ [md Hupd]]|[Hf _]].
  - exists md. intros t p. rewrite (C20_load_known _ md _ t p Hupd).
    destruct (listed_count md t) as [n|]; cbn [in_count]; [reflexivity|].
    split; [|intros []]. intros [ps [Hps _]]. discriminate Hps.
  - exfalso. apply (Hf tt). reflexivity.
Qed.

(* a named load: on success the listed topics are replaced and the others kept; on failure nothing changes *)
Theorem C20_load_call_known : forall topics x r x',
  load_metadata topics x = (r, x') ->
  (r = Ok tt /\ exists md, forall t p,
      known (cs (cl x')) t p <-> match listed_count md t with
                                 | Some n => 0 <= p < Z.of_nat n
                                 | None => known (cs (cl x)) t p
                                 end)
  \/ (failed r /\ (forall t p, known (cs (cl x')) t p <-> known (cs (cl x)) t p)
               /\ (forall t p, find_broker (cs (cl x')) t p = find_broker (cs (cl x)) t p)).
Proof.
  intros topics x r x' H. apply C20_load_call in H. destruct H as [[Hr [md Hupd]]|[Hf Hcs]].
  - left. split; [exact Hr|]. exists md. intros t p. apply (C20_load_known _ md _ t p Hupd).
  - right. split; [exact Hf|]. rewrite Hcs. split; intros t p; reflexivity.
Qed.

(* B3.  Every metadata call, whatever its outcome, acts on the loaded partition counts as a (possibly empty)
   piece of history in the sense of Part A: a failed named load is no step at all, a failed load_metadata_all
   is a reset, a successful one is a reset followed by a load. *)
Inductive mcall := MLoad (topics : list bytes) | MLoadAll | MReset.
Definition run_mcall (c : mcall) : M unit :=
  match c with MLoad topics => load_metadata topics | MLoadAll => load_metadata_all | MReset => reset_metadata end.

Lemma loaded_count_bump s t : loaded_count (snd (next_correlation_id s)) t = loaded_count s t.
Proof. reflexivity. Qed.

Theorem C20_mcall_step : forall c x r x',
  run_mcall c x = (r, x') ->
  exists ops,
    (forall t, loaded_count (cs (cl x')) t = spec_count ops (loaded_count (cs (cl x))) t)
    /\ match c with
       | MLoad _ => (r = Ok tt /\ exists md, ops = [Some md]) \/ (failed r /\ ops = [])
       | MLoadAll => (r = Ok tt /\ exists md, ops = [None; Some md]) \/ (failed r /\ ops = [None])
       | MReset => r = Ok tt /\ ops = [None]
       end.
Proof.
  intros c x r x' H. destruct c as [topics| |]; cbn [run_mcall] in H.
  - apply C20_load_call in H. destruct H as [[Hr [md Hupd]]|[Hf Hcs]].
    + exists [Some md]. split; [|left; split; [exact Hr|exists md; reflexivity]].
      intros t. rewrite (C20_load_count _ md _ t Hupd). reflexivity.
    + exists []. split; [|right; split; [exact Hf|reflexivity]]. intros t. rewrite Hcs. reflexivity.
  - apply C20_load_all_call in H. destruct H as [[Hr [md Hupd]]|[Hf Hcs]].
    + exists [None; Some md]. split; [|left; split; [exact Hr|exists md; reflexivity]].
      intros t. rewrite (C20_load_count _ md _ t Hupd). reflexivity.
    + exists [None]. split; [|right; split; [exact Hf|reflexivity]]. intros t. rewrite Hcs. reflexivity.
  - destruct (C20_reset_call x) as [x0 [Hr [Hcs _]]]. rewrite Hr in H. injection H as <- <-.
    exists [None]. split; [|split; reflexivity]. intros t. rewrite Hcs. reflexivity.
Qed.

Lemma spec_count_app ops1 ops2 f : spec_count (ops1 ++ ops2) f = spec_count ops2 (spec_count ops1 f).
Proof. unfold spec_count. apply fold_left_app. Qed.

(* a sequence of metadata calls (results ignored, as an application carrying on after errors would) *)
Fixpoint run_mcalls (cs0 : list mcall) (x : st) : st :=
  match cs0 with [] => x | c :: r => run_mcalls r (snd (run_mcall c x)) end.

(* which pieces of history a call can contribute *)
Definition mcall_ops (c : mcall) (ops : list (option metadata_resp)) : Prop :=
  match c with
  | MLoad _ => ops = [] \/ exists md, ops = [Some md]
  | MLoadAll => ops = [None] \/ exists md, ops = [None; Some md]
  | MReset => ops = [None]
  end.

Theorem C20_mcalls_history : forall calls x,
  exists opss, Forall2 mcall_ops calls opss /\ forall t p,
    known (cs (cl (run_mcalls calls x))) t p <-> in_count (spec_count (concat opss) (loaded_count (cs (cl x))) t) p.
Proof.
  assert (Hmain : forall calls x, exists opss, Forall2 mcall_ops calls opss /\ forall t,
            loaded_count (cs (cl (run_mcalls calls x))) t = spec_count (concat opss) (loaded_count (cs (cl x))) t).
  { induction calls as [|c r IH]; intros x; cbn [run_mcalls].
    - exists []. split; [constructor|]. intros t. reflexivity.
    - destruct (run_mcall c x) as [res x1] eqn:E. cbn [snd].
      destruct (C20_mcall_step c x res x1 E) as [ops1 [H1 Hshape]]. destruct (IH x1) as [opss [Hf H2]].
      exists (ops1 :: opss). split.
      + constructor; [|exact Hf]. destruct c as [topics| |]; cbn [mcall_ops].
        * destruct Hshape as [[_ [md ->]]|[_ ->]]; [right; exists md; reflexivity|left; reflexivity].
        * destruct Hshape as [[_ [md ->]]|[_ ->]]; [right; exists md; reflexivity|left; reflexivity].
        * destruct Hshape as [_ ->]. reflexivity.
      + intros t. cbn [concat]. rewrite H2, spec_count_app. apply spec_count_ext. exact H1. }
  intros calls x. destruct (Hmain calls x) as [opss [Hf H]]. exists opss. split; [exact Hf|]. intros t p.
  rewrite C20_known_count, H. reflexivity.
Qed.

(* ---- examples: a client that knows t1, t2 (c20_state) refreshes; the only host accepts the connection and
        the request, then the script ends before any answer (a read failure) ---------------------------- *)
Example C20_load_all_failed_ex :
  known (cs (cl (c20_st 1))) (tag "t1") 0
  /\ fst (load_metadata_all (c20_st 1)) = Err EOutOfScript
  /\ length (trace (snd (load_metadata_all (c20_st 1)))) = 4%nat           (* connect, write, read + the older event *)
  /\ topic_partitions (cs (cl (snd (load_metadata_all (c20_st 1))))) = []
  /\ fst (load_metadata [tag "t1"] (c20_st 1)) = Err EOutOfScript
  /\ topic_partitions (cs (cl (snd (load_metadata [tag "t1"] (c20_st 1))))) = topic_partitions c20_state.
Proof.
  split; [exists [0; UNKNOWN_BROKER_INDEX; 1; 0]; split; [reflexivity|cbn; lia]|].
  vm_compute. repeat split; reflexivity.
Qed.

(* a refresh that succeeds: the broker answers with broker 1 = h1:9092 and topic t with one partition *)
Definition x_resp : bytes :=
  enc_i32 1 ++ enc_i32 1 ++ (enc_i32 1 ++ enc_i16 2 ++ tag "h1" ++ enc_i32 9092)
  ++ enc_i32 1 ++ (enc_i16 0 ++ enc_i16 1 ++ tag "t"
                   ++ enc_i32 1 ++ (enc_i16 0 ++ enc_i32 0 ++ enc_i32 1 ++ enc_i32 0 ++ enc_i32 0)).
Definition x_st_ok : st :=
  {| script := [OConn true; OWrote 1000; OData (enc_i32 (ulen x_resp)); OData x_resp];
     trace := []; anyq := []; hostq := []; fetchq := []; entryq := []; cl := c20_client 1; env := c20_env |}.
Example C20_load_all_ok_ex :
  fst (load_metadata_all x_st_ok) = Ok tt
  /\ topic_partitions (cs (cl (snd (load_metadata_all x_st_ok)))) = [(tag "t", [0])]
  /\ find_broker (cs (cl (snd (load_metadata_all x_st_ok)))) (tag "t") 0 = Some (tag "h1:9092")
  /\ find_broker (cs (cl (snd (load_metadata_all x_st_ok)))) (tag "t1") 0 = None       (* known before *)
  /\ fst (load_metadata [tag "t"] x_st_ok) = Ok tt
  /\ map fst (topic_partitions (cs (cl (snd (load_metadata [tag "t"] x_st_ok)))))
     = [tag "t1"; tag "t2"; tag "empty"; tag "t"].
Proof. vm_compute. repeat split; reflexivity. Qed.

(* a named load succeeds (t joins t1, t2), then a refresh fails because the script is exhausted: nothing is left *)
Example C20_mcalls_history_ex :
  map fst (topic_partitions (cs (cl (run_mcalls [MLoad [tag "t"]] x_st_ok)))) = [tag "t1"; tag "t2"; tag "empty"; tag "t"]
  /\ fst (run_mcall MLoadAll (run_mcalls [MLoad [tag "t"]] x_st_ok)) = Err ENoHostReachable
  /\ topic_partitions (cs (cl (run_mcalls [MLoad [tag "t"]; MLoadAll] x_st_ok))) = []
  /\ mcall_ops MLoadAll [None] /\ mcall_ops (MLoad [tag "t"]) [Some x_md1].
Proof.
  split; [vm_compute; reflexivity|]. split; [vm_compute; reflexivity|]. split; [vm_compute; reflexivity|].
  split; [left; reflexivity|right; exists x_md1; reflexivity].
Qed.

(* ================================================================================================== *)
(* Part C: the calls                                                                                    *)
(* ================================================================================================== *)
Lemma fetch_reqs_bump x input : fetch_reqs (cl (bump_corr x)) input = fetch_reqs (cl x) input.
Proof. reflexivity. Qed.

(* C1.  fetch_messages IS the exchange of the requests built by fetch_reqs from the state at call time *)
Theorem C20_fetch_call : forall input x,
  fetch_messages input x
  = (let+ reqs := ordered (fetch_reqs (cl x) input) in
     fetch_exchange (fst (next_correlation_id (cs (cl x)))) reqs []) (bump_corr x).
Proof.
  intros input x. unfold fetch_messages.
  rewrite (mbind_run _ _ _ _ _ (next_corr_run x)).
  rewrite (mbind_run _ _ _ _ _ (get_client_run (bump_corr x))). reflexivity.
Qed.

(* C2.  "silently leave out", for the whole call: result, trace, script and final state are those of the call
   without the entries that have no leader (unknown topic, unknown / negative partition, leaderless) *)
Theorem C20_fetch_call_silent : forall input x,
  fetch_messages input x = fetch_messages (filter (fq_has_leader (cl x)) input) x.
Proof.
  intros input x. rewrite !C20_fetch_call. rewrite (C20_fetch_silent (cl x) input). reflexivity.
Qed.

Theorem C20_fetch_call_nothing : forall input x,
  (forall q, In q input -> find_broker (cs (cl x)) (fq_topic q) (fq_partition q) = None) ->
  fetch_messages input x = (Ok [], bump_corr x).
Proof.
  intros input x H. rewrite C20_fetch_call_silent.
  assert (Hf : filter (fq_has_leader (cl x)) input = []).
  { induction input as [|q r IH]; [reflexivity|]. cbn [filter]. unfold fq_has_leader at 1.
    rewrite (H q (or_introl eq_refl)). apply IH. intros q' Hq'. apply H. right. exact Hq'. }
  rewrite Hf. reflexivity.
Qed.

(* C3.  the same for the offset lookups *)
Definition topic_loaded (s : cstate) (t : bytes) : bool :=
  match partitions_for s t with Some _ => true | None => false end.

Lemma offset_reqs_silent s (time : Z) : forall topics (acc : list (bytes * list (bytes * list (Z * Z)))),
  fold_left (fun reqs topic =>
               match partitions_for s topic with
               | None => reqs
               | Some ps => fold_left (fun reqs '(id, host) => host_add reqs host topic (id, time))
                                      (leaders_from s ps 0) reqs
               end) topics acc
  = fold_left (fun reqs topic =>
               match partitions_for s topic with
               | None => reqs
               | Some ps => fold_left (fun reqs '(id, host) => host_add reqs host topic (id, time))
                                      (leaders_from s ps 0) reqs
               end) (filter (topic_loaded s) topics) acc.
Proof.
  induction topics as [|t r IH]; intros acc; cbn [filter fold_left]; [reflexivity|].
  unfold topic_loaded at 1. destruct (partitions_for s t) as [ps|] eqn:E; cbn [fold_left].
  - rewrite E. apply IH.
  - apply IH.
Qed.

Theorem C20_offsets_silent : forall s topics time,
  offset_reqs s topics time = offset_reqs s (filter (topic_loaded s) topics) time.
Proof. intros s topics time. unfold offset_reqs. apply offset_reqs_silent. Qed.

Lemma leaders_from_bump s : forall ps id, leaders_from (snd (next_correlation_id s)) ps id = leaders_from s ps id.
Proof.
  induction ps as [|b r IH]; intros id; cbn [leaders_from]; [reflexivity|].
  change (broker_of (snd (next_correlation_id s)) b) with (broker_of s b).
  destruct (broker_of s b); rewrite IH; reflexivity.
Qed.

Lemma fold_left_ext {A B} (f g : A -> B -> A) : (forall a b, f a b = g a b) ->
  forall l a, fold_left f l a = fold_left g l a.
Proof. intros H. induction l as [|b l IH]; intros a; cbn [fold_left]; [reflexivity|]. rewrite H. apply IH. Qed.

Lemma offset_reqs_bump s topics time :
  offset_reqs (snd (next_correlation_id s)) topics time = offset_reqs s topics time.
Proof.
  unfold offset_reqs. apply fold_left_ext. intros reqs topic.
  change (partitions_for (snd (next_correlation_id s)) topic) with (partitions_for s topic).
  destruct (partitions_for s topic) as [ps|]; [|reflexivity]. rewrite leaders_from_bump. reflexivity.
Qed.

Theorem C20_offsets_call : forall topics time x,
  fetch_offsets topics time x
  = (let+ reqs := ordered (offset_reqs (cs (cl x)) topics time) in
     offsets_exchange (enc_offset_req (fst (next_correlation_id (cs (cl x)))) (client_id (cfg (cl x))))
                      dec_offset_resp to_offset por_partition reqs []) (bump_corr x)
  /\ list_offsets topics time x
  = (let+ reqs := ordered (offset_reqs (cs (cl x)) topics time) in
     offsets_exchange (enc_list_offsets_req (fst (next_correlation_id (cs (cl x)))) (client_id (cfg (cl x))))
                      dec_list_offsets_resp lop_to_offset lop_partition reqs []) (bump_corr x).
Proof.
  intros topics time x. split.
  - unfold fetch_offsets. rewrite (mbind_run _ _ _ _ _ (next_corr_run x)).
    rewrite (mbind_run _ _ _ _ _ (get_client_run (bump_corr x))).
    change (cs (cl (bump_corr x))) with (snd (next_correlation_id (cs (cl x)))).
    rewrite offset_reqs_bump. reflexivity.
  - unfold list_offsets. rewrite (mbind_run _ _ _ _ _ (next_corr_run x)).
    rewrite (mbind_run _ _ _ _ _ (get_client_run (bump_corr x))).
    change (cs (cl (bump_corr x))) with (snd (next_correlation_id (cs (cl x)))).
    rewrite offset_reqs_bump. reflexivity.
Qed.

Theorem C20_offsets_call_silent : forall topics time x,
  fetch_offsets topics time x = fetch_offsets (filter (topic_loaded (cs (cl x))) topics) time x
  /\ list_offsets topics time x = list_offsets (filter (topic_loaded (cs (cl x))) topics) time x.
Proof.
  intros topics time x.
  destruct (C20_offsets_call topics time x) as [H1 H2].
  destruct (C20_offsets_call (filter (topic_loaded (cs (cl x))) topics) time x) as [H3 H4].
  rewrite H1, H2, H3, H4, <- (C20_offsets_silent (cs (cl x)) topics time). split; reflexivity.
Qed.

Theorem C20_offsets_call_nothing : forall topics time x,
  (forall t, In t topics -> partitions_for (cs (cl x)) t = None) ->
  fetch_offsets topics time x = (Ok [], bump_corr x) /\ list_offsets topics time x = (Ok [], bump_corr x).
Proof.
  intros topics time x H.
  assert (Hf : filter (topic_loaded (cs (cl x))) topics = []).
  { induction topics as [|t r IH]; [reflexivity|]. cbn [filter]. unfold topic_loaded at 1.
    rewrite (H t (or_introl eq_refl)). apply IH. intros t' Ht'. apply H. right. exact Ht'. }
  destruct (C20_offsets_call_silent topics time x) as [H1 H2]. rewrite H1, H2, Hf. split; reflexivity.
Qed.

(* C4.  the calls behind a local check: what goes out is the checked entry list and nothing else *)
Theorem C20_produce_call : forall acks timeout msgs x,
  internal_produce_messages acks timeout msgs x
  = match produce_reqs (cs (cl x)) msgs [] with
    | None => (Err (EKafka KC_UnknownTopicOrPartition), bump_corr x)
    | Some reqs => (let+ reqs' := ordered reqs in
                    produce_exchange (fst (next_correlation_id (cs (cl x)))) acks timeout reqs' []) (bump_corr x)
    end.
Proof.
  intros acks timeout msgs x. unfold internal_produce_messages.
  rewrite (mbind_run _ _ _ _ _ (next_corr_run x)).
  rewrite (mbind_run _ _ _ _ _ (get_client_run (bump_corr x))).
  change (cs (cl (bump_corr x))) with (snd (next_correlation_id (cs (cl x)))).
  rewrite (produce_reqs_ext _ (cs (cl x)) (find_broker_next_corr (cs (cl x)))).
  destruct (produce_reqs (cs (cl x)) msgs []); reflexivity.
Qed.

Theorem C20_commit_call : forall group os x,
  0 <= offset_storage (cfg (cl x)) ->
  commit_offsets group os x
  = match commit_tps (cs (cl x)) os [] with
    | None => (Err (EKafka KC_UnknownTopicOrPartition), bump_corr x)
    | Some [] => (Ok tt, bump_corr x)
    | Some tps =>
        with_fuel (fun f => commit_loop f group
                     (enc_offset_commit_req (fst (next_correlation_id (cs (cl x)))) (client_id (cfg (cl x))) group
                                            (commit_version (offset_storage (cfg (cl x)))) tps) 1) (bump_corr x)
    end.
Proof.
  intros group os x Hst. unfold commit_offsets.
  rewrite (mbind_run _ _ _ _ _ (get_client_run x)).
  destruct (offset_storage (cfg (cl x)) <? 0) eqn:E; [lia|].
  rewrite (mbind_run _ _ _ _ _ (next_corr_run x)).
  destruct (commit_tps (cs (cl x)) os []) as [[|tp tps]|]; reflexivity.
Qed.

Theorem C20_group_fetch_call : forall group args x,
  0 <= offset_storage (cfg (cl x)) ->
  fetch_group_offsets group args x
  = match group_fetch_tps (cs (cl x)) args [] with
    | None => (Err (EKafka KC_UnknownTopicOrPartition), bump_corr x)
    | Some tps =>
        with_fuel (fun f => group_fetch_loop f group
                     (enc_offset_fetch_req (fst (next_correlation_id (cs (cl x)))) (client_id (cfg (cl x))) group
                                           (fetch_version (offset_storage (cfg (cl x)))) tps) 1) (bump_corr x)
    end.
Proof.
  intros group args x Hst. unfold fetch_group_offsets.
  rewrite (mbind_run _ _ _ _ _ (get_client_run x)).
  destruct (offset_storage (cfg (cl x)) <? 0) eqn:E; [lia|].
  rewrite (mbind_run _ _ _ _ _ (next_corr_run x)).
  destruct (group_fetch_tps (cs (cl x)) args []); reflexivity.
Qed.

(* an empty argument list is the only way commit_offsets returns Ok without sending *)
Theorem C20_commit_tps_nil : forall s os, commit_tps s os [] = Some [] <-> os = [].
Proof.
  intros s os. split; [|intros ->; reflexivity].
  intros H. destruct os as [|o r]; [reflexivity|]. exfalso.
  destruct (C20_commit_known s (o :: r) [] H) as (_ & _ & _ & Hkeys & _).
  cbn [map] in Hkeys. unfold first_occ in Hkeys. cbn [fold_left existsb] in Hkeys.
  assert (Hne : forall ks acc, acc <> [] ->
            fold_left (fun a k => if existsb (fun k' => bytes_eqb k' k) a then a else a ++ [k]) ks acc <> []).
  { induction ks as [|k ks IH]; intros acc Hacc; cbn [fold_left]; [exact Hacc|].
    apply IH. destruct (existsb (fun k' => bytes_eqb k' k) acc); [exact Hacc|].
    intros Hx. apply app_eq_nil in Hx. destruct Hx as [_ Hx]. discriminate. }
  apply (Hne (map co_topic r) ([] ++ [co_topic o])); [discriminate|]. symmetry. exact Hkeys.
Qed.

(* ---- examples ---------------------------------------------------------------------------------------- *)
Example C20_fetch_call_silent_ex :
  filter (fq_has_leader (cl (c20_st 1))) c20_input <> c20_input
  /\ filter (fq_has_leader (cl (c20_st 1))) c20_input <> []
  /\ fetch_messages [c20_fq (tag "nope") 0 0 0; c20_fq (tag "t1") (-1) 0 0; c20_fq (tag "t1") 4 0 0;
                     c20_fq (tag "t1") 1 0 0] (c20_st 1) = (Ok [], bump_corr (c20_st 1))
  /\ fst (fetch_messages c20_input (c20_st 1)) <> Ok [].
Proof. vm_compute. repeat split; discriminate. Qed.

Example C20_offsets_call_ex :
  filter (topic_loaded c20_state) [tag "nope"; tag "t2"; tag "nada"] = [tag "t2"]
  /\ fetch_offsets [tag "nope"; tag "nada"] (-1) (c20_st 1) = (Ok [], bump_corr (c20_st 1))
  /\ fst (fetch_offsets [tag "nope"; tag "t2"; tag "nada"] (-1) (c20_st 1)) <> Ok [].
Proof. vm_compute. repeat split; discriminate. Qed.

Example C20_commit_call_ex :
  commit_tps c20_state [c20_co (tag "t1") 3 5; c20_co (tag "t2") 0 6] [] = Some [(tag "t1", [(3, 5)]); (tag "t2", [(0, 6)])]
  /\ commit_tps c20_state [c20_co (tag "t1") 3 5; c20_co (tag "t1") (-1) 6] [] = None
  /\ group_fetch_tps c20_state [(tag "t1", 3); (tag "t2", 1)] [] = Some [(tag "t1", [3]); (tag "t2", [1])]
  /\ produce_reqs c20_state c20_batch [] <> None.
Proof. vm_compute. repeat split; discriminate. Qed.

Print Assumptions C20_known_count.
Print Assumptions C20_load_count.
Print Assumptions C20_load_known.
Print Assumptions C20_load_shrunk_forgotten.
Print Assumptions C20_history_known.
Print Assumptions C20_spec_count_last.
Print Assumptions C20_history_requests.
Print Assumptions C20_load_call.
Print Assumptions C20_load_all_call.
Print Assumptions C20_load_all_failed_unknown.
Print Assumptions C20_load_all_ok_known.
Print Assumptions C20_load_call_known.
Print Assumptions C20_fetch_call.
Print Assumptions C20_fetch_call_silent.
Print Assumptions C20_fetch_call_nothing.
Print Assumptions C20_offsets_silent.
Print Assumptions C20_offsets_call.
Print Assumptions C20_offsets_call_silent.
Print Assumptions C20_offsets_call_nothing.
Print Assumptions C20_produce_call.
Print Assumptions C20_commit_call.
Print Assumptions C20_group_fetch_call.
Print Assumptions C20_commit_tps_nil.
Print Assumptions C20_mcall_step.
Print Assumptions C20_mcalls_history.
