(* C09, third adequacy pass (seeds C09-5 and C09-6).  Neither seed is caught by a theorem of Props/C09.v:

   C09-5  protocol::to_millis_i32 computes `d.as_millis() as u64` (wraps modulo 2^64) instead of the saturating
          u64 arithmetic.  Props/C09.v mentions to_millis_i32 once (C09_produce_messages_counter) and only as an
          opaque scrutinee; nothing says WHICH number it yields.  Section A: the value is the whole milliseconds
          of the duration, or the call is refused (C09_to_millis_exact and its two iff-corollaries); what
          produce_messages does with it (C09_call_produce_messages); the client setter set_fetch_max_wait_time
          (C09_set_fetch_max_wait_time); and, on the wire, the Timeout of every Produce request and the
          MaxWaitTime / MinBytes of every Fetch request of a call (C09_produce_messages_wire,
          C09_fetch_messages_wire).
   C09-6  KafkaClient::fetch_group_topic_offset lists Partitions::available_ids() (partitions with a known leader)
          instead of all partitions of the topic.  Props/C09.v has only the counter statement for this call.
          Section B: the request handed to the coordinator lists partitions 0 .. n-1 of the topic, n the number of
          partitions in the metadata, whatever their leaders (C09_call_fetch_group_topic_offset); the two spellings
          of the question - fetch_group_topic_offset g t and fetch_group_offsets g [(t,0) .. (t,n-1)] - are the same
          computation (C09_group_topic_offset_two_spellings).
   Section C (the "not done" list of C09ExtraB.v): the `wire` statement for the group calls (fetch_group_offsets,
          fetch_group_topic_offset, commit_offsets) and for produce / fetch_messages / fetch_offsets / list_offsets,
          and its composition with the parsers of Spec/ReqGrammar.v for fetch_group_topic_offset.
   Everything is about the unchanged model; no axioms. *)
From Coq Require Import ZifyBool.
From KV Require Import Base.Prelude Gen.Consts Model.Codecs Model.Requests Model.Responses
                       Model.ClientState Model.Net Model.Client Model.Val Model.Dispatch.
From KV Require Import Proofs.BytesFacts Proofs.NetFacts Proofs.C06Facts Proofs.C09Facts Proofs.C09Extra Proofs.C09ExtraB.
Ltac Zify.zify_post_hook ::= Z.div_mod_to_equations.

(* ================================================================================================ *)
(* A. durations (seed C09-5)                                                                        *)
(* ================================================================================================ *)

(* the whole milliseconds of a Duration (secs, nanos): what the caller asked for *)
Definition millis (d : Z * Z) : Z := fst d * 1000 + snd d / 1000000.

(* protocol::to_millis_i32, for EVERY number of seconds (no upper bound: beyond u64::MAX / 1000 as well): the
   result is the exact number of whole milliseconds if that fits an i32, and InvalidDuration otherwise.  There
   is no third outcome and no other number.  [seed C09-5: (18446744073709552, 0) would give Ok 384] *)
Theorem C09_to_millis_exact : forall d, 0 <= snd d ->
  to_millis_i32 d = if i32_max <? millis d then Err EInvalidDuration else Ok (millis d).
Proof.
  intros [a b] Hb. unfold to_millis_i32, millis, u64_max, i32_max. cbn [fst snd] in *. cbv zeta.
  assert (Hq : 0 <= b / 1000000) by (apply Z.div_pos; lia).
  remember (b / 1000000) as q eqn:Eq. clear Eq Hb.
  destruct (2147483647 <? a * 1000 + q) eqn:E1;
    destruct (2147483647 <? Z.min (Z.min (a * 1000) 18446744073709551615 + q) 18446744073709551615) eqn:E2;
    try reflexivity; try (exfalso; lia).
  f_equal. lia.
Qed.

Theorem C09_to_millis_ok_iff : forall d m, 0 <= snd d ->
  (to_millis_i32 d = Ok m <-> m = millis d /\ millis d <= i32_max).
Proof.
  intros d m Hb. rewrite (C09_to_millis_exact d Hb). destruct (i32_max <? millis d) eqn:E; split.
  - intros H; discriminate H.
  - intros [_ H]. lia.
  - intros H. injection H as <-. split; [reflexivity|lia].
  - intros [-> _]. reflexivity.
Qed.

Theorem C09_to_millis_reject_iff : forall d, 0 <= snd d ->
  ((exists m, to_millis_i32 d = Ok m) \/ to_millis_i32 d = Err EInvalidDuration) /\
  (to_millis_i32 d = Err EInvalidDuration <-> i32_max < millis d).
Proof.
  intros d Hb. rewrite (C09_to_millis_exact d Hb). destruct (i32_max <? millis d) eqn:E.
  - split; [right; reflexivity|]. split; [intros _; lia|reflexivity].
  - split; [left; eexists; reflexivity|]. split; [intros H; discriminate H|intros H; lia].
Qed.

(* the values of the seeded demonstration: u64::MAX/1000 + 1 seconds (2^64 + 384 ms), 2^64 ms exactly,
   Duration::MAX, and the boundary i32::MAX / i32::MAX + 1 ms *)
Example C09_to_millis_exact_ex :
  to_millis_i32 (18446744073709552, 0) = Err EInvalidDuration /\
  to_millis_i32 (18446744073709551, 616000000) = Err EInvalidDuration /\
  to_millis_i32 (18446744073709551615, 999999999) = Err EInvalidDuration /\
  to_millis_i32 (2147483, 647999999) = Ok 2147483647 /\
  to_millis_i32 (2147483, 648000000) = Err EInvalidDuration /\
  to_millis_i32 (0, 1999000) = Ok 1 /\
  millis (18446744073709552, 0) = 18446744073709551616 + 384 /\ 0 <= snd (18446744073709552, 0).
Proof. vm_compute. repeat split; try reflexivity; try discriminate. Qed.

(* KafkaClient::produce_messages: an ack timeout that does not fit is refused BEFORE anything happens (the state
   is the state before: no id taken, no byte written); otherwise the Timeout handed on is the exact number of
   milliseconds asked for *)
Theorem C09_call_produce_messages : forall acks d msgs x, 0 <= snd d ->
  produce_messages acks d msgs x
  = if i32_max <? millis d then (Err EInvalidDuration, x) else internal_produce_messages acks (millis d) msgs x.
Proof.
  intros acks d msgs x Hb. unfold produce_messages. rewrite (C09_to_millis_exact d Hb).
  destruct (i32_max <? millis d); reflexivity.
Qed.

Example C09_call_produce_messages_ex :
  produce_messages 1 (18446744073709552, 0) [] ex_x1 = (Err EInvalidDuration, ex_x1) /\
  fst (produce_messages 1 (1, 500000000) [] ex_x1) = Ok [] /\ millis (1, 500000000) = 1500.
Proof. vm_compute. repeat split; reflexivity. Qed.

(* KafkaClient::set_fetch_max_wait_time (the setter is modelled in Model/Dispatch.v): the setting becomes the
   exact number of milliseconds of the duration and nothing else of the client changes, or the call fails with
   InvalidDuration and the client is the one before *)
Theorem C09_set_fetch_max_wait_time : forall c hv scv ev a b, 0 <= b ->
  let out := dispatch (OClient c) (vt "set_fetch_max_wait_time" [VI a; VI b]) hv scv ev in
  let g := cfg c in
  o_trace out = [] /\
  if i32_max <? millis (a, b)
  then o_obj out = OClient c /\ o_result out = vt "err" [err_val EInvalidDuration]
  else o_obj out = OClient {| cfg := upd_cfg g (Net.client_id g) (compression g) (millis (a, b)) (fetch_min_bytes g)
                                             (fetch_max_bytes_per_partition g) (fetch_crc_validation g)
                                             (offset_storage g) (retry_max_attempts g) (idle_timeout g);
                              cs := cs c; conns := conns c |}.
Proof.
  intros c hv scv ev a b Hb out g. subst out.
  assert (E : dispatch (OClient c) (vt "set_fetch_max_wait_time" [VI a; VI b]) hv scv ev
              = match to_millis_i32 (a, b) with
                | Ok m => pure (OClient {| cfg := upd_cfg g (Net.client_id g) (compression g) m (fetch_min_bytes g)
                                                   (fetch_max_bytes_per_partition g) (fetch_crc_validation g)
                                                   (offset_storage g) (retry_max_attempts g) (idle_timeout g);
                                          cs := cs c; conns := conns c |}) (vt "ok" [vunit])
                | r => pure (OClient c) (res_val (fun _ => vunit) r)
                end).
  { cbn -[to_millis_i32]. destruct (to_millis_i32 (a, b)); reflexivity. }
  rewrite E, (C09_to_millis_exact (a, b) Hb). destruct (i32_max <? millis (a, b)); cbn; repeat split; reflexivity.
Qed.

Example C09_set_fetch_max_wait_time_ex :
  let c := client_new [tag "h:9092"] in
  o_obj (dispatch (OClient c) (vt "set_fetch_max_wait_time" [VI 18446744073709552; VI 0]) (VL []) (VL []) (VL [])) = OClient c /\
  match o_obj (dispatch (OClient c) (vt "set_fetch_max_wait_time" [VI 2; VI 5000000]) (VL []) (VL []) (VL [])) with
  | OClient c' => fetch_max_wait_time (cfg c') = 2005 | _ => False end.
Proof. vm_compute. split; reflexivity. Qed.

(* ================================================================================================ *)
(* B. fetch_group_topic_offset asks for ALL partitions of the topic (seed C09-6)                    *)
(* ================================================================================================ *)

(* the body of "all n partitions of `topic`": one topic entry listing 0 .. n-1 in order (nothing for n = 0) *)
Definition topic_all (topic : bytes) (n : nat) : list (bytes * list Z) :=
  match n with O => [] | S _ => [(topic, iota_z n 0)] end.

Lemma fold_tp_add_same (topic : bytes) : forall (l ps : list Z),
  fold_left (fun acc id => tp_add acc topic id) l [(topic, ps)] = [(topic, ps ++ l)].
Proof.
  induction l as [|p l IH]; intros ps; cbn [fold_left].
  - rewrite app_nil_r. reflexivity.
  - cbn [tp_add]. rewrite bytes_eqb_refl, IH, <- app_assoc. reflexivity.
Qed.

Lemma fold_tp_add_all topic n :
  fold_left (fun acc id => tp_add acc topic id) (iota_z n 0) [] = topic_all topic n.
Proof.
  destruct n as [|n]; [reflexivity|]. cbn [iota_z fold_left tp_add topic_all].
  rewrite fold_tp_add_same. reflexivity.
Qed.

(* KafkaClient::fetch_group_topic_offset: the ONE OffsetFetch request of the call is encoded with the id taken by
   the call, the configured client id, the group asked for, the version of the configured storage, and lists the
   partitions 0 .. n-1 of the topic - n the number of partitions the metadata knows, whoever (or nobody) leads
   them.  [seed C09-6 lists `map fst (leaders_from ..)`: only the partitions with a known leader] *)
Theorem C09_call_fetch_group_topic_offset : forall group topic x ps,
  0 <= offset_storage (cfg (cl x)) -> partitions_for (cs (cl x)) topic = Some ps ->
  fetch_group_topic_offset group topic x
  = (let+ m := with_fuel (fun f => group_fetch_loop f group
                 (enc_offset_fetch_req (stepc (corr_of x)) (Net.client_id (cfg (cl x))) group
                                       (fetch_version (offset_storage (cfg (cl x)))) (topic_all topic (length ps))) 1) in
     ret (match assoc_bytes topic m with Some vs => vs | None => [] end)) (bump x).
Proof.
  intros group topic x ps Hs Hp. unfold fetch_group_topic_offset. unfold mbind at 1, get_client at 1.
  destruct (offset_storage (cfg (cl x)) <? 0) eqn:E; [lia|].
  rewrite (mbind_ok _ _ _ _ _ (next_corr_run x)). rewrite Hp, fold_tp_add_all. reflexivity.
Qed.

(* ... and the cases in which nothing is asked at all *)
Theorem C09_call_fetch_group_topic_offset_refused : forall group topic x,
  (offset_storage (cfg (cl x)) < 0 -> fetch_group_topic_offset group topic x = (Err EUnsetOffsetStorage, x)) /\
  (0 <= offset_storage (cfg (cl x)) -> partitions_for (cs (cl x)) topic = None ->
   fetch_group_topic_offset group topic x = (Err (EKafka KC_UnknownTopicOrPartition), bump x)).
Proof.
  intros group topic x. split.
  - intros Hs. unfold fetch_group_topic_offset. unfold mbind at 1, get_client at 1.
    destruct (offset_storage (cfg (cl x)) <? 0) eqn:E; [reflexivity|lia].
  - intros Hs Hp. unfold fetch_group_topic_offset. unfold mbind at 1, get_client at 1.
    destruct (offset_storage (cfg (cl x)) <? 0) eqn:E; [lia|].
    rewrite (mbind_ok _ _ _ _ _ (next_corr_run x)). rewrite Hp. reflexivity.
Qed.

(* every partition id below the partition count is a partition of the topic for fetch_group_offsets *)
Lemma group_fetch_tps_all s topic ps : partitions_for s topic = Some ps ->
  forall l acc, (forall p, In p l -> 0 <= p < Z.of_nat (length ps)) ->
  group_fetch_tps s (map (fun p => (topic, p)) l) acc = Some (fold_left (fun a id => tp_add a topic id) l acc).
Proof.
  intros Hp. induction l as [|p l IH]; intros acc Hl; [reflexivity|].
  cbn [map group_fetch_tps fold_left].
  assert (Hc : contains_topic_partition s topic p = true).
  { unfold contains_topic_partition. rewrite Hp. unfold partition_ref, nth_z.
    pose proof (Hl p (or_introl eq_refl)) as Hr. unfold ulen.
    destruct ((p <? 0) || (Z.of_nat (length ps) <=? p)) eqn:E; [lia|].
    destruct (nth_error ps (Z.to_nat p)) eqn:En; [reflexivity|].
    apply nth_error_None in En. lia. }
  rewrite Hc. apply IH. intros q Hq. apply Hl. right. exact Hq.
Qed.

Lemma mbind_cong {A B} (m1 m2 : M A) (f : A -> M B) s1 s2 : m1 s1 = m2 s2 -> mbind m1 f s1 = mbind m2 f s2.
Proof. unfold mbind. intros ->. reflexivity. Qed.

(* the two spellings of the same question are the same computation: fetch_group_topic_offset g t is
   fetch_group_offsets g [(t,0); ..; (t,n-1)] followed by the projection on t - same ids, same requests, same bytes
   on the wire, same state afterwards, for every state of the client and every behaviour of the brokers *)
Theorem C09_group_topic_offset_two_spellings : forall group topic x ps,
  partitions_for (cs (cl x)) topic = Some ps ->
  fetch_group_topic_offset group topic x
  = (let+ m := fetch_group_offsets group (map (fun p => (topic, p)) (iota_z (length ps) 0)) in
     ret (match assoc_bytes topic m with Some vs => vs | None => [] end)) x.
Proof.
  intros group topic x ps Hp. destruct (offset_storage (cfg (cl x)) <? 0) eqn:E.
  - assert (Hs : offset_storage (cfg (cl x)) < 0) by lia.
    rewrite (proj1 (C09_call_fetch_group_topic_offset_refused group topic x) Hs).
    symmetry. apply mbind_err. unfold fetch_group_offsets. unfold mbind at 1, get_client at 1. rewrite E. reflexivity.
  - assert (Hs : 0 <= offset_storage (cfg (cl x))) by lia.
    rewrite (C09_call_fetch_group_topic_offset _ _ _ _ Hs Hp). apply mbind_cong.
    symmetry. apply C09_call_fetch_group_offsets; [exact Hs|].
    rewrite (group_fetch_tps_all _ _ _ Hp).
    + rewrite fold_tp_add_all. reflexivity.
    + intros p Hi. apply iota_in in Hi. lia.
Qed.

(* the metadata of the seeded demonstration: brokers b1 (node 1), b2 (node 2); topic "t" with partition 0 led by
   b1, partition 1 WITHOUT a leader (broker reference UNKNOWN_BROKER_INDEX), partition 2 led by b2; kafka storage;
   coordinator of "g" cached (b2) *)
Definition exC_cs : cstate :=
  {| correlation := 0; brokers := [{| b_node := 1; b_host := tag "b1:9092" |}; {| b_node := 2; b_host := tag "b2:9092" |}];
     topic_partitions := [(tag "t", [0; UNKNOWN_BROKER_INDEX; 1])]; group_coordinators := [(tag "g", 1)] |}.
Definition exC_x : st :=
  {| script := [OWrote 1000]; trace := []; anyq := []; hostq := []; fetchq := []; entryq := [];
     cl := {| cfg := ex_cfg1; cs := exC_cs; conns := [tag "b2:9092"] |}; env := ex_env0 |}.

Example C09_call_fetch_group_topic_offset_ex :
  0 <= offset_storage (cfg (cl exC_x)) /\
  partitions_for (cs (cl exC_x)) (tag "t") = Some [0; UNKNOWN_BROKER_INDEX; 1] /\
  map fst (leaders_from (cs (cl exC_x)) [0; UNKNOWN_BROKER_INDEX; 1] 0) = [0; 2] /\
  topic_all (tag "t") 3 = [(tag "t", [0; 1; 2])] /\
  (* the bytes written: OffsetFetch v1, id 1, client "me", group "g", topic "t", partitions [0, 1, 2] *)
  trace (snd (fetch_group_topic_offset (tag "g") (tag "t") exC_x))
  = [ERead (tag "b2:9092") 4;
     EWrite (tag "b2:9092") [x00; x00; x00; x26;  x00; x09; x00; x01;  x00; x00; x00; x01;  x00; x02; x6d; x65;
                             x00; x01; x67;  x00; x00; x00; x01;  x00; x01; x74;  x00; x00; x00; x03;
                             x00; x00; x00; x00;  x00; x00; x00; x01;  x00; x00; x00; x02]] /\
  snd (fetch_group_topic_offset (tag "g") (tag "t") exC_x)
  = snd (fetch_group_offsets (tag "g") [(tag "t", 0); (tag "t", 1); (tag "t", 2)] exC_x).
Proof. vm_compute. repeat split; try reflexivity; try discriminate. Qed.

(* ================================================================================================ *)
(* C. the wire of the group calls (first item of the "not done" list of C09ExtraB.v)                *)
(* ================================================================================================ *)

(* the frames a group call is entitled to: its own request, or a GroupCoordinator lookup for ITS group with the
   configured client id and some id of the counter (the retry loop looks the coordinator up again) *)
Definition FG (cid group : bytes) (own : res bytes) (f : bytes) : Prop :=
  FR own f \/ exists corr, in_i32 corr /\ FR (enc_group_coordinator_req corr cid group) f.

Lemma inv_get_group_coordinator c0 e0 group own :
  keeps (C09ExtraB.inv c0 e0 (FG (Net.client_id c0) group own)) (get_group_coordinator group).
Proof.
  intros s r s' H C V. destruct (C09_get_group_coordinator_wire _ _ _ _ H) as [W _].
  eapply wire_mono; [|exact W]. intros f Hf. right. exists (stepc (corr_of s)).
  split; [exact (C09_corr_in_i32 (cs (cl s)))|]. rewrite <- C. exact Hf.
Qed.

Lemma w_own cid group own : forall p, own = Ok p -> FG cid group own (frame p).
Proof. intros p Hp. left. exists p. split; [exact Hp|reflexivity]. Qed.

Lemma inv_group_fetch_loop c0 e0 group own : forall fuel attempt,
  keeps (C09ExtraB.inv c0 e0 (FG (Net.client_id c0) group own)) (group_fetch_loop fuel group own attempt).
Proof.
  induction fuel as [|f IH]; intros attempt; cbn [group_fetch_loop]; [iv|].
  apply keeps_bind; [apply preorder_inv|apply inv_get_group_coordinator|intros h].
  apply keeps_bind; [apply preorder_inv|apply inv_of_wire, w_send_receive, w_own|intros [c tps]].
  destruct (group_scan tps []) as [[m|[code reset]]|code]; [iv| |iv].
  iv. apply IH.
Qed.

Lemma inv_commit_loop c0 e0 group own : forall fuel attempt,
  keeps (C09ExtraB.inv c0 e0 (FG (Net.client_id c0) group own)) (commit_loop fuel group own attempt).
Proof.
  induction fuel as [|f IH]; intros attempt; cbn [commit_loop]; [iv|].
  apply keeps_bind; [apply preorder_inv|apply inv_get_group_coordinator|intros h].
  apply keeps_bind; [apply preorder_inv|apply inv_of_wire, w_send_receive, w_own|intros [c tps]].
  destruct (commit_scan tps) as [|code reset|code]; [iv| |iv].
  iv. apply IH.
Qed.

(* fetch_group_offsets, whatever the state and whatever comes back: every write of the call is part of a send of
   the frame of the call's ONE OffsetFetch request (id taken at the start, configured client id, the group, the
   storage's version, exactly the partitions asked for, grouped by topic in the caller's order) or of a
   GroupCoordinator lookup for the same group; nothing is written if a partition is unknown or no storage is set *)
Theorem C09_fetch_group_offsets_wire : forall group ps x r x',
  fetch_group_offsets group ps x = (r, x') ->
  wire (match group_fetch_tps (cs (cl x)) ps [] with
        | Some tps => FG (Net.client_id (cfg (cl x))) group
                         (enc_offset_fetch_req (stepc (corr_of x)) (Net.client_id (cfg (cl x))) group
                                               (fetch_version (offset_storage (cfg (cl x)))) tps)
        | None => fun _ => False
        end) x x'.
Proof.
  intros group ps x r x' H. unfold fetch_group_offsets in H. unfold mbind at 1, get_client at 1 in H.
  destruct (offset_storage (cfg (cl x)) <? 0).
  - inversion H; subst. apply preorder_wire.
  - rewrite (mbind_ok _ _ _ _ _ (next_corr_run x)) in H.
    destruct (group_fetch_tps (cs (cl x)) ps []) as [tps|].
    + unfold with_fuel in H. eapply (proj2 (preorder_wire _)); [apply wire_bump|].
      eapply (inv_group_fetch_loop (cfg (cl (bump x))) (env (bump x))); [exact H|reflexivity|reflexivity].
    + inversion H; subst. apply wire_bump.
Qed.

(* fetch_group_topic_offset: the same, and the request lists ALL partitions 0 .. n-1 of the topic.  [seed C09-6] *)
Theorem C09_fetch_group_topic_offset_wire : forall group topic x r x',
  fetch_group_topic_offset group topic x = (r, x') ->
  wire (match partitions_for (cs (cl x)) topic with
        | Some ps => FG (Net.client_id (cfg (cl x))) group
                        (enc_offset_fetch_req (stepc (corr_of x)) (Net.client_id (cfg (cl x))) group
                                              (fetch_version (offset_storage (cfg (cl x))))
                                              (topic_all topic (length ps)))
        | None => fun _ => False
        end) x x'.
Proof.
  intros group topic x r x' H. unfold fetch_group_topic_offset in H. unfold mbind at 1, get_client at 1 in H.
  destruct (offset_storage (cfg (cl x)) <? 0).
  - inversion H; subst. apply preorder_wire.
  - rewrite (mbind_ok _ _ _ _ _ (next_corr_run x)) in H.
    destruct (partitions_for (cs (cl x)) topic) as [ps|].
    + rewrite fold_tp_add_all in H.
      assert (K : forall rr s1, with_fuel (fun f => group_fetch_loop f group
                   (enc_offset_fetch_req (stepc (corr_of x)) (Net.client_id (cfg (cl x))) group
                      (fetch_version (offset_storage (cfg (cl x)))) (topic_all topic (length ps))) 1) (bump x) = (rr, s1) ->
                 wire (FG (Net.client_id (cfg (cl x))) group
                          (enc_offset_fetch_req (stepc (corr_of x)) (Net.client_id (cfg (cl x))) group
                             (fetch_version (offset_storage (cfg (cl x)))) (topic_all topic (length ps)))) x s1).
      { intros rr s1 H1. unfold with_fuel in H1. eapply (proj2 (preorder_wire _)); [apply wire_bump|].
        eapply (inv_group_fetch_loop (cfg (cl (bump x))) (env (bump x))); [exact H1|reflexivity|reflexivity]. }
      bind_inv H m s1 H1 H2.
      * inversion H2; subst. eapply K; exact H1.
      * eapply K; exact H1.
      * eapply K; exact H1.
    + inversion H; subst. apply wire_bump.
Qed.

(* commit_offsets: the call's ONE OffsetCommit request (version of the configured storage, exactly the offsets
   asked for) or lookups of the coordinator of the same group *)
Theorem C09_commit_offsets_wire : forall group os x r x',
  commit_offsets group os x = (r, x') ->
  wire (match commit_tps (cs (cl x)) os [] with
        | Some tps => FG (Net.client_id (cfg (cl x))) group
                         (enc_offset_commit_req (stepc (corr_of x)) (Net.client_id (cfg (cl x))) group
                                                (commit_version (offset_storage (cfg (cl x)))) tps)
        | None => fun _ => False
        end) x x'.
Proof.
  intros group os x r x' H. unfold commit_offsets in H. unfold mbind at 1, get_client at 1 in H.
  destruct (offset_storage (cfg (cl x)) <? 0).
  - inversion H; subst. apply preorder_wire.
  - rewrite (mbind_ok _ _ _ _ _ (next_corr_run x)) in H.
    destruct (commit_tps (cs (cl x)) os []) as [[|tp tps]|].
    + inversion H; subst. apply wire_bump.
    + unfold with_fuel in H. eapply (proj2 (preorder_wire _)); [apply wire_bump|].
      eapply (inv_commit_loop (cfg (cl (bump x))) (env (bump x))); [exact H|reflexivity|reflexivity].
    + inversion H; subst. apply wire_bump.
Qed.

(* ---- composition with the independent reading of the protocol (Spec/ReqGrammar.v) -------------------- *)
From KV Require Import Spec.ReqGrammar.

Lemma topic_all_wf topic n : Z.of_nat n <= i32_max + 1 -> wf_by_topic in_i32 (topic_all topic n).
Proof.
  intros Hn. destruct n as [|n]; [constructor|]. cbn [topic_all]. constructor; [|constructor]. cbn [snd].
  apply Forall_forall. intros i Hi. apply iota_in in Hi. unfold in_i32, i32_max in *. lia.
Qed.

(* what a peer that speaks the protocol reads off the wire of fetch_group_topic_offset: OffsetFetch (key 9) in the
   version of the configured storage, the call's id, the configured client id, the group, and ONE topic entry
   listing the partitions 0 .. n-1 - or GroupCoordinator lookups (key 10) for that group.  [seed C09-6] *)
Theorem C09_fetch_group_topic_offset_wire_parses : forall group topic x r x' ps,
  fetch_group_topic_offset group topic x = (r, x') ->
  partitions_for (cs (cl x)) topic = Some ps -> ulen ps <= i32_max + 1 ->
  (forall bs, enc_offset_fetch_req (stepc (corr_of x)) (Net.client_id (cfg (cl x))) group
                (fetch_version (offset_storage (cfg (cl x)))) (topic_all topic (length ps)) = Ok bs -> ulen bs <= i32_max) ->
  (forall corr bs, enc_group_coordinator_req corr (Net.client_id (cfg (cl x))) group = Ok bs -> ulen bs <= i32_max) ->
  wire (fun f =>
          parse_frame f = Some ({| api_key := 9; api_version := fetch_version (offset_storage (cfg (cl x)));
                                   correlation_id := stepc (corr_of x);
                                   client_id := Some (Net.client_id (cfg (cl x))) |},
                                OffsetFetchRequest group (topic_all topic (length ps)))
          \/ exists corr, parse_frame f = Some ({| api_key := 10; api_version := 0; correlation_id := corr;
                                                   client_id := Some (Net.client_id (cfg (cl x))) |},
                                                GroupCoordinatorRequest group)) x x'.
Proof.
  intros group topic x r x' ps H Hp Hn Hl1 Hl2.
  pose proof (C09_fetch_group_topic_offset_wire _ _ _ _ _ H) as W. rewrite Hp in W.
  eapply wire_mono; [|exact W]. intros f [(p & Hp1 & ->)|(corr & Hc & p & Hp1 & ->)].
  - left. apply C09_offset_fetch_frame; [apply C09_fetch_version_known|apply topic_all_wf; exact Hn
                                        |exact (C09_corr_in_i32 (cs (cl x)))|apply Hl1; exact Hp1|exact Hp1].
  - right. exists corr. apply C09_group_coordinator_frame; [exact Hc|eapply Hl2; exact Hp1|exact Hp1].
Qed.

(* the session of the seeded demonstration, read by the reference parser: partitions [0; 1; 2] of "t", partition 1
   having no leader *)
Definition exC_f : bytes :=
  [x00; x00; x00; x26;  x00; x09; x00; x01;  x00; x00; x00; x01;  x00; x02; x6d; x65;
   x00; x01; x67;  x00; x00; x00; x01;  x00; x01; x74;  x00; x00; x00; x03;
   x00; x00; x00; x00;  x00; x00; x00; x01;  x00; x00; x00; x02].
Example C09_fetch_group_topic_offset_wire_parses_ex :
  (performed exC_x (snd (fetch_group_topic_offset (tag "g") (tag "t") exC_x))
   = [EWrite (tag "b2:9092") exC_f; ERead (tag "b2:9092") 4]) /\
  (parse_frame exC_f = Some ({| api_key := 9; api_version := 1; correlation_id := 1; client_id := Some (tag "me") |},
                            OffsetFetchRequest (tag "g") [(tag "t", [0; 1; 2])])) /\
  (ulen [0; UNKNOWN_BROKER_INDEX; 1] <= i32_max + 1).
Proof. split; [vm_compute; reflexivity|split; [vm_compute; reflexivity|vm_compute; discriminate]]. Qed.

(* ================================================================================================ *)
(* D. produce and fetch: Timeout / RequiredAcks and MaxWaitTime / MinBytes on the wire (seed C09-5)  *)
(* ================================================================================================ *)

(* the HashMap iteration order only permutes the per-host requests *)
Lemma take_key_in {V} k : forall (l : list (bytes * V)) x r, take_key k l = Some (x, r) ->
  forall y, In y (x :: r) -> In y l.
Proof.
  induction l as [|[k' v] l IH]; intros x r H y Hy; cbn [take_key] in H; [discriminate|].
  destruct (bytes_eqb k' k).
  - inversion H; subst. exact Hy.
  - destruct (take_key k l) as [[x' r']|] eqn:E; [|discriminate]. inversion H; subst.
    destruct Hy as [Hy|[Hy|Hy]].
    + right. eapply IH; [reflexivity|left; exact Hy].
    + left. exact Hy.
    + right. eapply IH; [reflexivity|right; exact Hy].
Qed.

Lemma reorder_in {V} : forall order (l : list (bytes * V)) y, In y (reorder order l) -> In y l.
Proof.
  induction order as [|k ks IH]; intros l y H; cbn [reorder] in H; [exact H|].
  destruct (take_key k l) as [[x r]|] eqn:E; [|apply IH; exact H].
  apply (take_key_in k l x r E). destruct H as [H|H]; [left; exact H|right; apply IH; exact H].
Qed.

Lemma inv_ordered_then c0 e0 (F : bytes -> Prop) {V B} (reqs : list (bytes * V)) (k : list (bytes * V) -> M B) :
  (forall reqs', (forall y, In y reqs' -> In y reqs) -> keeps (C09ExtraB.inv c0 e0 F) (k reqs')) ->
  keeps (C09ExtraB.inv c0 e0 F) (mbind (ordered reqs) k).
Proof.
  intros Hk. unfold ordered. destruct reqs as [|x l].
  - intros s r s' H. rewrite (mbind_ok (ret []) k s [] s eq_refl) in H.
    eapply Hk; [|exact H]. intros y Hy; exact Hy.
  - intros s r s' H C V0.
    destruct (pop_hosts s) as [ro s1] eqn:E.
    assert (Q : quiet s s1) by (eapply q_pop_hosts; exact E).
    assert (Ho : exists o, ro = Ok o)
      by (unfold pop_hosts in E; destruct (hostq s); inversion E; eexists; reflexivity).
    destruct Ho as [o ->].
    assert (E2 : mbind pop_hosts (fun o => ret (reorder o (x :: l))) s = (Ok (reorder o (x :: l)), s1))
      by (unfold mbind at 1; rewrite E; reflexivity).
    rewrite (mbind_ok _ _ _ _ _ E2) in H.
    eapply (proj2 (preorder_wire F)); [apply wire_of_quiet; exact Q|].
    destruct Q as [[C1 V1] _].
    eapply (Hk (reorder o (x :: l))); [intros y Hy; eapply reorder_in; exact Hy|exact H|congruence|congruence].
Qed.

(* ---- produce --------------------------------------------------------------------------------------- *)
(* the frames a produce call is entitled to: the Produce request of ONE host of the request map, encoded with
   the call's id, the configured client id and compression, and the acks and timeout handed in *)
Definition FP (e0 : codecs) (c0 : config) (corr acks timeout : Z) (reqs : list (bytes * produce_tps)) (f : bytes) : Prop :=
  exists h tps, In (h, tps) reqs /\
    FR (enc_produce_req e0 corr (Net.client_id c0) acks timeout (compression c0) tps) f.

Lemma FP_incl e0 c0 corr acks timeout reqs' reqs f :
  (forall y, In y reqs' -> In y reqs) -> FP e0 c0 corr acks timeout reqs' f -> FP e0 c0 corr acks timeout reqs f.
Proof. intros Hi (h & tps & Hin & HF). exists h, tps. split; [apply Hi; exact Hin|exact HF]. Qed.

Lemma inv_produce_exchange c0 e0 corr acks timeout : forall reqs acc,
  keeps (C09ExtraB.inv c0 e0 (FP e0 c0 corr acks timeout reqs)) (produce_exchange corr acks timeout reqs acc).
Proof.
  induction reqs as [|[h tps] reqs IH]; intros acc; cbn [produce_exchange]; [iv|].
  apply inv_get_client; intros c Hc. apply inv_get_env. cbv zeta.
  assert (Hown : forall p, enc_produce_req e0 corr (Net.client_id (cfg c)) acks timeout (compression (cfg c)) tps = Ok p ->
                           FP e0 c0 corr acks timeout ((h, tps) :: reqs) (frame p)).
  { intros p Hp. exists h, tps. split; [left; reflexivity|]. exists p. split; [rewrite <- Hc; exact Hp|reflexivity]. }
  assert (Hrec : forall acc', keeps (C09ExtraB.inv c0 e0 (FP e0 c0 corr acks timeout ((h, tps) :: reqs)))
                                    (produce_exchange corr acks timeout reqs acc')).
  { intros acc'. eapply inv_mono; [|apply IH]. intros f. apply FP_incl. intros y Hy. right. exact Hy. }
  destruct (acks =? 0).
  - apply keeps_bind; [apply preorder_inv|apply inv_of_wire, w_quiet, q_get_conn|intros _].
    apply keeps_bind; [apply preorder_inv|apply inv_of_wire, w_send_request, Hown|intros _]. apply Hrec.
  - apply keeps_bind; [apply preorder_inv|apply inv_of_wire, w_send_receive, Hown|intros [z rtps]]. apply Hrec.
Qed.

(* the internal produce call: every write belongs to a send of the complete frame of the Produce request of one
   host of the request map, stating the acks and the timeout handed in *)
Theorem C09_internal_produce_wire : forall acks timeout msgs x r x',
  internal_produce_messages acks timeout msgs x = (r, x') ->
  wire (match produce_reqs (cs (cl (bump x))) msgs [] with
        | Some reqs => FP (env x) (cfg (cl x)) (stepc (corr_of x)) acks timeout reqs
        | None => fun _ => False
        end) x x'.
Proof.
  intros acks timeout msgs x r x' H. rewrite C09_call_produce in H.
  destruct (produce_reqs (cs (cl (bump x))) msgs []) as [reqs|].
  - eapply (proj2 (preorder_wire _)); [apply wire_bump|].
    eapply (inv_ordered_then (cfg (cl (bump x))) (env (bump x))); [|exact H|reflexivity|reflexivity].
    intros reqs' Hin. eapply inv_mono; [|apply inv_produce_exchange]. intros f. apply FP_incl. exact Hin.
  - inversion H; subst. apply wire_bump.
Qed.

(* KafkaClient::produce_messages with a Duration: refused without a trace if the ack timeout does not fit, and
   otherwise the Timeout of EVERY Produce request the call writes is the exact number of milliseconds asked for
   (and RequiredAcks the acks asked for).  [seed C09-5: the request would state 384 for 2^64 + 384 ms] *)
Theorem C09_produce_messages_wire : forall acks d msgs x r x', 0 <= snd d ->
  produce_messages acks d msgs x = (r, x') ->
  if i32_max <? millis d then r = Err EInvalidDuration /\ x' = x
  else wire (match produce_reqs (cs (cl (bump x))) msgs [] with
             | Some reqs => FP (env x) (cfg (cl x)) (stepc (corr_of x)) acks (millis d) reqs
             | None => fun _ => False
             end) x x'.
Proof.
  intros acks d msgs x r x' Hb H. rewrite (C09_call_produce_messages _ _ _ _ Hb) in H.
  destruct (i32_max <? millis d).
  - inversion H; subst. split; reflexivity.
  - apply C09_internal_produce_wire in H. exact H.
Qed.

(* ---- fetch ------------------------------------------------------------------------------------------ *)
(* the frames a fetch call is entitled to: the Fetch request of ONE host of the request map (its entries possibly
   in the observed HashMap order), encoded with the call's id, the configured client id, and the configured
   max wait time and min bytes *)
Definition FF (c0 : config) (corr : Z) (reqs : list (bytes * fetch_tps)) (f : bytes) : Prop :=
  exists h tps tps', In (h, tps) reqs /\ (tps' = tps \/ exists o, tps' = order_fetch o tps) /\
    FR (enc_fetch_req corr (Net.client_id c0) (fetch_max_wait_time c0) (fetch_min_bytes c0) tps') f.

Lemma FF_incl c0 corr reqs' reqs f : (forall y, In y reqs' -> In y reqs) -> FF c0 corr reqs' f -> FF c0 corr reqs f.
Proof. intros Hi (h & tps & tps' & Hin & Ho & HF). exists h, tps, tps'. split; [apply Hi; exact Hin|split; assumption]. Qed.

Lemma inv_fetch_exchange c0 e0 corr : forall reqs acc,
  keeps (C09ExtraB.inv c0 e0 (FF c0 corr reqs)) (fetch_exchange corr reqs acc).
Proof.
  induction reqs as [|[h tps] reqs IH]; intros acc; cbn [fetch_exchange]; [iv|].
  apply inv_get_client; intros c Hc. apply inv_get_env.
  apply keeps_bind; [apply preorder_inv|apply keeps_get_fetch_order; apply preorder_inv|intros fo]. cbv zeta.
  apply keeps_bind; [apply preorder_inv|apply inv_of_wire, w_quiet, q_get_conn|intros _].
  apply keeps_bind; [apply preorder_inv| |intros _].
  - apply inv_of_wire, w_send_request. intros p Hp.
    exists h, tps, (match fo with Some o => order_fetch o tps | None => tps end).
    split; [left; reflexivity|]. split; [destruct fo as [o|]; [right; exists o; reflexivity|left; reflexivity]|].
    exists p. split; [rewrite <- Hc; exact Hp|reflexivity].
  - apply keeps_bind; [apply preorder_inv|apply inv_of_wire, w_quiet, q_get_response_bytes|intros b].
    apply keeps_bind; [apply preorder_inv|apply keeps_lift; apply preorder_inv|intros resp].
    eapply inv_mono; [|apply IH]. intros f. apply FF_incl. intros y Hy. right. exact Hy.
Qed.

(* fetch_messages: every write belongs to a send of the complete frame of the Fetch request of one host of the
   request map, stating the configured MaxWaitTime and MinBytes (with C09_set_fetch_max_wait_time: the exact
   milliseconds of the Duration last accepted by set_fetch_max_wait_time).  [seed C09-5] *)
Theorem C09_fetch_messages_wire : forall input x r x',
  fetch_messages input x = (r, x') ->
  wire (FF (cfg (cl x)) (stepc (corr_of x)) (fetch_reqs (cl (bump x)) input)) x x'.
Proof.
  intros input x r x' H. rewrite C09_call_fetch_messages in H.
  eapply (proj2 (preorder_wire _)); [apply wire_bump|].
  eapply (inv_ordered_then (cfg (cl (bump x))) (env (bump x))); [|exact H|reflexivity|reflexivity].
  intros reqs' Hin. eapply inv_mono; [|apply inv_fetch_exchange]. intros f. apply FF_incl. exact Hin.
Qed.

(* ================================================================================================ *)
(* Non-vacuity of sections C and D: concrete sessions                                               *)
(* ================================================================================================ *)
(* fetch_group_offsets for the three partitions of "t" (one of them leaderless): one OffsetFetch v1 request *)
Example C09_fetch_group_offsets_wire_ex :
  group_fetch_tps (cs (cl exC_x)) [(tag "t", 0); (tag "t", 1); (tag "t", 2)] [] = Some [(tag "t", [0; 1; 2])] /\
  performed exC_x (snd (fetch_group_offsets (tag "g") [(tag "t", 0); (tag "t", 1); (tag "t", 2)] exC_x))
  = [EWrite (tag "b2:9092") exC_f; ERead (tag "b2:9092") 4] /\
  enc_offset_fetch_req (stepc (corr_of exC_x)) (Net.client_id (cfg (cl exC_x))) (tag "g")
                       (fetch_version (offset_storage (cfg (cl exC_x)))) [(tag "t", [0; 1; 2])] = Ok (skipn 4 exC_f).
Proof. vm_compute. repeat split; reflexivity. Qed.

(* commit_offsets on the session of C09Extra.v: no coordinator cached, so the only write is the lookup (FG, right) *)
Example C09_commit_offsets_wire_ex2 :
  commit_tps (cs (cl ex_x1)) ex_commit [] = Some [(tag "a", [(0, 42)])] /\
  match enc_group_coordinator_req 2 (Net.client_id (cfg (cl ex_x1))) (tag "g") with
  | Ok p => performed ex_x1 (snd (commit_offsets (tag "g") ex_commit ex_x1))
            = [EWrite (tag "h:9092") (frame p); ERead (tag "h:9092") 4]
  | _ => False
  end.
Proof. vm_compute. split; reflexivity. Qed.

(* produce_messages(acks 1, 1.5 s, a/0 <- "v") on the client of C09Extra.v: one Produce request, Timeout 1500 *)
Definition exC_msg : produce_message :=
  {| pq_topic := tag "a"; pq_partition := 0; pq_key := None; pq_value := Some (tag "v") |}.
Example C09_produce_messages_wire_ex :
  0 <= snd (1, 500000000) /\ (i32_max <? millis (1, 500000000)) = false /\ millis (1, 500000000) = 1500 /\
  match produce_reqs (cs (cl (bump ex_x1))) [exC_msg] [] with
  | Some [(h, tps)] =>
      match enc_produce_req (env ex_x1) (stepc (corr_of ex_x1)) (Net.client_id (cfg (cl ex_x1))) 1 1500
                            (compression (cfg (cl ex_x1))) tps with
      | Ok p => performed ex_x1 (snd (produce_messages 1 (1, 500000000) [exC_msg] ex_x1))
                = [EWrite h (frame p); ERead h 4]
                /\ firstn 6 (skipn 12 p) = [x00; x01;  x00; x00; x05; xdc]       (* acks 1, timeout 1500 *)
      | _ => False
      end
  | _ => False
  end /\
  produce_messages 1 (18446744073709552, 0) [exC_msg] ex_x1 = (Err EInvalidDuration, ex_x1).
Proof. vm_compute. repeat split; try reflexivity. discriminate. Qed.

(* fetch_messages(a/0 from 7) on the same client: one Fetch request stating max wait 100 and min bytes 1 *)
Example C09_fetch_messages_wire_ex :
  let input := [{| fq_topic := tag "a"; fq_partition := 0; fq_offset := 7; fq_max_bytes := 0 |}] in
  match fetch_reqs (cl (bump ex_x1)) input with
  | [(h, tps)] =>
      match enc_fetch_req (stepc (corr_of ex_x1)) (Net.client_id (cfg (cl ex_x1))) 100 1 tps with
      | Ok p => performed ex_x1 (snd (fetch_messages input ex_x1)) = [EWrite h (frame p); ERead h 4]
                /\ firstn 12 (skipn 12 p) = [xff; xff; xff; xff;  x00; x00; x00; x64;  x00; x00; x00; x01]
      | _ => False
      end
  | _ => False
  end.
Proof. vm_compute. split; reflexivity. Qed.

(* Not done / not proved:
   - the `wire` statement for fetch_offsets / list_offsets (same pattern as inv_produce_exchange, one induction over
     offsets_exchange); Consumer / Producer level statements (Producer::with_ack_timeout goes through the same
     to_millis_i32, see Props/C16.v).
   - "on success the stream of EVERY host received a whole number of complete frames" for a whole call.
   - that the length hypotheses `ulen bs <= i32_max` of the *_wire_parses theorems always hold for the
     GroupCoordinator request (its size is bounded by 2 * 32767 + 14). *)

Check C09_to_millis_exact.
Check C09_to_millis_ok_iff.
Check C09_to_millis_reject_iff.
Check C09_call_produce_messages.
Check C09_set_fetch_max_wait_time.
Check C09_call_fetch_group_topic_offset.
Check C09_call_fetch_group_topic_offset_refused.
Check C09_group_topic_offset_two_spellings.
Check C09_fetch_group_offsets_wire.
Check C09_fetch_group_topic_offset_wire.
Check C09_commit_offsets_wire.
Check C09_fetch_group_topic_offset_wire_parses.
Check C09_internal_produce_wire.
Check C09_produce_messages_wire.
Check C09_fetch_messages_wire.

Print Assumptions C09_to_millis_exact.
Print Assumptions C09_to_millis_ok_iff.
Print Assumptions C09_to_millis_reject_iff.
Print Assumptions C09_call_produce_messages.
Print Assumptions C09_set_fetch_max_wait_time.
Print Assumptions C09_call_fetch_group_topic_offset.
Print Assumptions C09_call_fetch_group_topic_offset_refused.
Print Assumptions C09_group_topic_offset_two_spellings.
Print Assumptions C09_fetch_group_offsets_wire.
Print Assumptions C09_fetch_group_topic_offset_wire.
Print Assumptions C09_commit_offsets_wire.
Print Assumptions C09_fetch_group_topic_offset_wire_parses.
Print Assumptions C09_internal_produce_wire.
Print Assumptions C09_produce_messages_wire.
Print Assumptions C09_fetch_messages_wire.
