(* C04, additional theorems (mutation adequacy pass).

   The theorems of Props/C04.v stop at MessageSet::from_slice.  The property is observed at
   KafkaClient::fetch_messages and quantifies over the configuration (validation on / off).  This file adds

   A. what the validate flag does, over ALL inputs (no serialised-shape hypotheses):
      - C04_on_refines_off_set / _response: with validation on, the decoder either fails with CorruptMessage or
        returns exactly what it returns with validation off (the flag has no other effect, at any nesting depth);
      - C04_off_never_corrupt_set / _response: with validation off the decoder never fails with a Kafka error
        code, in particular never with CorruptMessage ("a wrong checksum alone never causes rejection", for whole
        sets, wrappers, inner sets and whole responses, not just for one message).
      - C04_off_set_ignored: set level version of C04_off_entry_ignored (same delivered result).
   B. the response level (Partition::read / Topic::read / Response::from_vec):
      - C04_response_decode: fetch_from_vec on a printed FetchResponse (Spec/RespGrammar) is the in-order
        mapM of from_slice over the partitions, each with the offset requested for that topic/partition;
      - C04_response_rejects / C04_response_never_delivered / C04_response_rejects_single_bit.
   C. the client level (KafkaClient::fetch_messages, src/client/mod.rs): the configured flag
      `fetch_crc_validation` is the one handed to the decoder and a decoder failure is the failure of the call:
      - C04_fetch_exchange_cons, C04_fetch_exchange_rejects, C04_fetch_messages_rejects.
   D. C04_behind_wrapper_refuted: a corrupted message BEHIND a compressed wrapper in the same set is not looked
      at (known finding F13: the decoder returns at the first wrapper): the fetch succeeds. *)
From Coq Require Import ZifyBool.
From KV Require Import Base.Prelude Base.Crc32 Base.Snappy Gen.ErrorCodes Gen.Consts
                       Model.Codecs Model.Requests Model.Responses Model.ClientState Model.Net Model.Client.
From KV Require Import Proofs.BytesFacts Proofs.Crc32Facts Spec.MsgSetSpec Spec.RespGrammar.
From KV Require Import Proofs.C04Facts Proofs.NetFacts Proofs.C10Facts.
Ltac Zify.zify_post_hook ::= Z.div_mod_to_equations.

Local Notation corrupt := (Err (EKafka KC_CorruptMessage)).

(* ====================================================================================== *)
(* A. the validate flag                                                                   *)
(* ====================================================================================== *)

(* x is what y is, except that it may have become CorruptMessage *)
Definition rel {A} (x y : res A) : Prop := x = corrupt \/ x = y.
(* never a Kafka error code *)
Definition nk {A} (x : res A) : Prop := forall c, x <> Err (EKafka c).

Lemma rel_refl {A} (x : res A) : rel x x.
Proof. right. reflexivity. Qed.

Lemma rel_bind {A B} (x y : res A) (f g : A -> res B) :
  rel x y -> (forall a, rel (f a) (g a)) -> rel (bind x f) (bind y g).
Proof.
  intros [-> | ->] H; [left; reflexivity|]. destruct y as [a|e|w]; cbn [bind]; [apply H|apply rel_refl|apply rel_refl].
Qed.

Lemma nk_bind {A B} (x : res A) (f : A -> res B) : nk x -> (forall a, nk (f a)) -> nk (bind x f).
Proof.
  intros Hx Hf. destruct x as [a|e|w]; cbn [bind]; [apply Hf| |intros c; discriminate].
  intros c H. apply (Hx c). injection H as ->. reflexivity.
Qed.

Lemma nk_ok {A} (a : A) : nk (Ok a). Proof. intros c; discriminate. Qed.
Lemma nk_panic {A} w : nk (@Panic A w). Proof. intros c; discriminate. Qed.

Lemma nk_zread n bs : nk (zread n bs).
Proof. intros c H. apply zread_err in H. discriminate H. Qed.
Lemma nk_zread_i8 bs : nk (zread_i8 bs).
Proof. intros c H. apply zread_i8_err in H. discriminate H. Qed.
Lemma nk_zread_i16 bs : nk (zread_i16 bs).
Proof. unfold zread_i16. apply nk_bind; [apply nk_zread|intros [x r]; apply nk_ok]. Qed.
Lemma nk_zread_i32 bs : nk (zread_i32 bs).
Proof. intros c H. apply zread_i32_err in H. discriminate H. Qed.
Lemma nk_zread_i64 bs : nk (zread_i64 bs).
Proof. unfold zread_i64. apply nk_bind; [apply nk_zread|intros [x r]; apply nk_ok]. Qed.
Lemma nk_zread_bytes bs : nk (zread_bytes bs).
Proof. intros c H. apply zread_bytes_err in H. discriminate H. Qed.

(* ---- one message ---------------------------------------------------------------------- *)
Lemma protocol_message_on_off dbg raw : rel (protocol_message dbg true raw) (protocol_message dbg false raw).
Proof.
  unfold protocol_message. apply rel_bind; [apply rel_refl|]. intros [crc r]. cbn [andb].
  destruct (negb (wrap_s 32 (crc32 r) =? crc)); [left; reflexivity|apply rel_refl].
Qed.

Lemma protocol_message_off_nk dbg raw : nk (protocol_message dbg false raw).
Proof.
  unfold protocol_message. apply nk_bind; [apply nk_zread_i32|]. intros [crc r]. cbn [andb].
  intros c. exact (pm_body_not_kafka dbg r c).
Qed.

Lemma next_message_on_off dbg bs : rel (next_message dbg true bs) (next_message dbg false bs).
Proof.
  unfold next_message. apply rel_bind; [apply rel_refl|]. intros [off r].
  apply rel_bind; [apply rel_refl|]. intros [msg r'].
  apply rel_bind; [apply protocol_message_on_off|]. intros pm. apply rel_refl.
Qed.

Lemma next_message_off_nk dbg bs : nk (next_message dbg false bs).
Proof.
  unfold next_message. apply nk_bind; [apply nk_zread_i64|]. intros [off r].
  apply nk_bind; [apply nk_zread_bytes|]. intros [msg r'].
  apply nk_bind; [apply protocol_message_off_nk|]. intros pm. apply nk_ok.
Qed.

(* ---- the entry loop ---------------------------------------------------------------------- *)
Lemma ms_loop_on_off inner_t inner_f dbg req :
  (forall c v, rel (inner_t c v) (inner_f c v)) ->
  forall fuel bs acc, rel (ms_loop inner_t dbg true req fuel bs acc) (ms_loop inner_f dbg false req fuel bs acc).
Proof.
  intros Hin. induction fuel as [|f IH]; intros bs acc.
  - destruct bs; apply rel_refl.
  - destruct bs as [|b bs]; [apply rel_refl|]. rewrite !ms_loop_step.
    destruct (next_message_on_off dbg (b :: bs)) as [H|H]; rewrite H; [left; reflexivity|].
    destruct (next_message dbg false (b :: bs)) as [[[off [[attr k] v]] r]|e|w]; [|apply rel_refl|apply rel_refl].
    cbv zeta. destruct (Z.land attr 7 =? COMPRESSION_NONE); [apply IH|].
    destruct ((Z.land attr 7 =? COMPRESSION_GZIP) || (Z.land attr 7 =? COMPRESSION_SNAPPY)); [apply Hin|apply rel_refl].
Qed.

Lemma ms_loop_off_nk inner dbg req : (forall c v, nk (inner c v)) ->
  forall fuel bs acc, nk (ms_loop inner dbg false req fuel bs acc).
Proof.
  intros Hin. induction fuel as [|f IH]; intros bs acc.
  - destruct bs; [apply nk_ok|intros c; discriminate].
  - destruct bs as [|b bs]; [apply nk_ok|]. rewrite ms_loop_step.
    pose proof (next_message_off_nk dbg (b :: bs)) as Hn.
    destruct (next_message dbg false (b :: bs)) as [[[off [[attr k] v]] r]|e|w].
    + cbv zeta. destruct (Z.land attr 7 =? COMPRESSION_NONE); [apply IH|].
      destruct ((Z.land attr 7 =? COMPRESSION_GZIP) || (Z.land attr 7 =? COMPRESSION_SNAPPY)); [apply Hin|].
      intros c; discriminate.
    + intros c. destruct e; try discriminate. intros H. apply (Hn code). reflexivity.
    + intros c; discriminate.
Qed.

(* ---- the xerial reader never yields a Kafka code -------------------------------------------- *)
Lemma xerial_loop_nk fuel : forall data out mx, nk (fst (xerial_loop fuel data out mx)).
Proof.
  induction fuel as [|f IH]; intros data out mx; destruct data as [|b data]; cbn [xerial_loop fst];
    try (intros c; discriminate).
  destruct (zread_i32 (b :: data)) as [[cs r]|e|w]; try (intros c; discriminate).
  destruct (cs <=? 0); [intros c; discriminate|].
  destruct (Z.of_nat (length r) <? cs); [intros c; discriminate|].
  destruct (uncompress_to (firstn (Z.to_nat cs) r) out) as [out'|]; [apply IH|intros c; discriminate].
Qed.

Lemma validate_stream_nk s : nk (validate_stream s).
Proof.
  unfold validate_stream. destruct (Nat.ltb (length s) 8); [intros c; discriminate|].
  destruct (negb (bytes_eqb (firstn 8 s) xerial_magic)); [intros c; discriminate|].
  apply nk_bind; [apply nk_zread_i32|]. intros [version s1].
  destruct (negb (version =? 1)); [intros c; discriminate|].
  apply nk_bind; [apply nk_zread_i32|]. intros [compat s2].
  destruct (negb (compat =? 1)); [intros c; discriminate|apply nk_ok].
Qed.

Lemma xerial_read_to_end_nk v : nk (xerial_read_to_end v).
Proof.
  unfold xerial_read_to_end, xerial_run. pose proof (validate_stream_nk v) as H.
  destruct (validate_stream v) as [data|e|w]; cbn [fst]; [apply xerial_loop_nk|exact H|intros c; discriminate].
Qed.

(* ---- from_slice, any nesting depth ------------------------------------------------------------ *)
Lemma inner_of_on_off cz d req :
  (forall bs, rel (from_slice cz d true req bs) (from_slice cz d false req bs)) ->
  forall c v, rel (inner_of cz d true req c v) (inner_of cz d false req c v).
Proof.
  intros IH c v. unfold inner_of. destruct (c =? COMPRESSION_GZIP).
  - destruct (gz_decompress cz v); [apply IH|apply rel_refl].
  - destruct (alloc_limit <=? xerial_max_alloc v); [apply rel_refl|].
    apply rel_bind; [apply rel_refl|]. intros data. apply IH.
Qed.

Lemma inner_of_off_nk cz d req : (forall bs, nk (from_slice cz d false req bs)) ->
  forall c v, nk (inner_of cz d false req c v).
Proof.
  intros IH c v. unfold inner_of. destruct (c =? COMPRESSION_GZIP).
  - destruct (gz_decompress cz v); [apply IH|intros k; discriminate].
  - destruct (alloc_limit <=? xerial_max_alloc v); [apply nk_panic|].
    apply nk_bind; [apply xerial_read_to_end_nk|]. intros data. apply IH.
Qed.

(* validation on: CorruptMessage, or exactly the result of validation off *)
Theorem C04_on_refines_off_set : forall cz d req bs,
  from_slice cz d true req bs = corrupt \/ from_slice cz d true req bs = from_slice cz d false req bs.
Proof.
  intros cz d req. induction d as [|d IH]; intros bs; [right; reflexivity|].
  rewrite !from_slice_S. apply ms_loop_on_off. apply inner_of_on_off. exact IH.
Qed.

(* validation off: never a Kafka error code, whatever the bytes *)
Theorem C04_off_never_corrupt_set : forall cz d req bs c,
  from_slice cz d false req bs <> Err (EKafka c).
Proof.
  intros cz d req. induction d as [|d IH]; intros bs; [intros c; discriminate|].
  rewrite from_slice_S. apply ms_loop_off_nk. apply inner_of_off_nk. exact IH.
Qed.

(* ---- the response level -------------------------------------------------------------------------- *)
Lemma zread_many_on_off {A} (dt df : bytes -> res (A * bytes)) : (forall bs, rel (dt bs) (df bs)) ->
  forall fuel count bs, rel (zread_many dt fuel count bs) (zread_many df fuel count bs).
Proof.
  intros H. induction fuel as [|f IH]; intros count bs; cbn [zread_many];
    (destruct (count <=? 0); [apply rel_refl|]); [apply rel_refl|].
  apply rel_bind; [apply H|]. intros [x r]. apply rel_bind; [apply IH|]. intros [xs r']. apply rel_refl.
Qed.

Lemma zread_many_nk {A} (d : bytes -> res (A * bytes)) : (forall bs, nk (d bs)) ->
  forall fuel count bs, nk (zread_many d fuel count bs).
Proof.
  intros H. induction fuel as [|f IH]; intros count bs; cbn [zread_many];
    (destruct (count <=? 0); [apply nk_ok|]); [intros c; discriminate|].
  apply nk_bind; [apply H|]. intros [x r]. apply nk_bind; [apply IH|]. intros [xs r']. apply nk_ok.
Qed.

Lemma zread_array_on_off {A} sz (dt df : bytes -> res (A * bytes)) : (forall bs, rel (dt bs) (df bs)) ->
  forall bs, rel (zread_array sz dt bs) (zread_array sz df bs).
Proof.
  intros H bs. unfold zread_array. apply rel_bind; [apply rel_refl|]. intros [n r]. now apply zread_many_on_off.
Qed.

Lemma zread_array_nk {A} sz (d : bytes -> res (A * bytes)) : (forall bs, nk (d bs)) ->
  forall bs, nk (zread_array sz d bs).
Proof.
  intros H bs. unfold zread_array. apply nk_bind.
  - unfold zread_array_len. apply nk_bind; [apply nk_zread_i32|]. intros [len r]. apply nk_ok.
  - intros [n r]. now apply zread_many_nk.
Qed.

Lemma read_partition_on_off cz d preqs bs :
  rel (read_partition cz d true preqs bs) (read_partition cz d false preqs bs).
Proof.
  unfold read_partition. apply rel_bind; [apply rel_refl|]. intros [p r]. cbv zeta.
  apply rel_bind; [apply rel_refl|]. intros [e r1].
  apply rel_bind; [apply rel_refl|]. intros [hw r2].
  apply rel_bind; [apply rel_refl|]. intros [ms r3].
  apply rel_bind; [apply C04_on_refines_off_set|]. intros msgs. apply rel_refl.
Qed.

Lemma read_partition_off_nk cz d preqs bs : nk (read_partition cz d false preqs bs).
Proof.
  unfold read_partition. apply nk_bind; [apply nk_zread_i32|]. intros [p r]. cbv zeta.
  apply nk_bind; [apply nk_zread_i16|]. intros [e r1].
  apply nk_bind; [apply nk_zread_i64|]. intros [hw r2].
  apply nk_bind; [apply nk_zread_bytes|]. intros [ms r3].
  apply nk_bind; [intros c; apply C04_off_never_corrupt_set|]. intros msgs. apply nk_ok.
Qed.

Lemma nk_zread_str bs : nk (zread_str bs).
Proof.
  unfold zread_str. apply nk_bind; [apply nk_zread_i16|]. intros [len r].
  destruct (len <=? 0); [apply nk_ok|]. apply nk_bind; [apply nk_zread|]. intros [s r'].
  destruct (Utf8.utf8_valid s); [apply nk_ok|intros c; discriminate].
Qed.

Lemma read_topic_on_off cz d reqs bs : rel (read_topic cz d true reqs bs) (read_topic cz d false reqs bs).
Proof.
  unfold read_topic. apply rel_bind; [apply rel_refl|]. intros [name r].
  apply rel_bind; [apply zread_array_on_off; intros; apply read_partition_on_off|]. intros [ps r']. apply rel_refl.
Qed.

Lemma read_topic_off_nk cz d reqs bs : nk (read_topic cz d false reqs bs).
Proof.
  unfold read_topic. apply nk_bind; [apply nk_zread_str|]. intros [name r].
  apply nk_bind; [apply zread_array_nk; intros; apply read_partition_off_nk|]. intros [ps r']. apply nk_ok.
Qed.

Theorem C04_on_refines_off_response : forall cz d reqs bs,
  fetch_from_vec cz d true reqs bs = corrupt \/ fetch_from_vec cz d true reqs bs = fetch_from_vec cz d false reqs bs.
Proof.
  intros cz d reqs bs. unfold fetch_from_vec. apply rel_bind; [apply rel_refl|]. intros [c r].
  apply rel_bind; [apply zread_array_on_off; intros; apply read_topic_on_off|]. intros [ts r']. apply rel_refl.
Qed.

Theorem C04_off_never_corrupt_response : forall cz d reqs bs c,
  fetch_from_vec cz d false reqs bs <> Err (EKafka c).
Proof.
  intros cz d reqs bs. unfold fetch_from_vec. apply nk_bind; [apply nk_zread_i32|]. intros [c r].
  apply nk_bind; [apply zread_array_nk; intros; apply read_topic_off_nk|]. intros [ts r']. apply nk_ok.
Qed.

(* ---- validation off, same delivered result (set level) -------------------------------------------- *)
(* what the loop has collected after walking over plain entries *)
Fixpoint plain_acc (req : Z) (pre : list entry) (acc : list message) : list message :=
  match pre with
  | [] => acc
  | Plain off k v :: r =>
      plain_acc req r (if req <=? off then {| m_offset := off; m_key := view_opt k; m_value := view_opt v |} :: acc
                       else acc)
  | Wrapper _ _ _ :: r => plain_acc req r acc
  end.

(* explicit version of C04Facts.ms_loop_plain_prefix: one unit of fuel per entry *)
Lemma ms_loop_plain_prefix_x comp inner dbg validate req pre : Forall plain_wf pre ->
  forall rest n acc,
    ms_loop inner dbg validate req (length pre + n) (ser comp pre ++ rest) acc =
    ms_loop inner dbg validate req n rest (plain_acc req pre acc).
Proof.
  induction 1 as [|e pre He Hpre IH]; intros rest n acc; [reflexivity|].
  destruct e as [off k v|c off inn]; [|destruct He]. destruct He as [Ho Hs].
  rewrite ser_cons. cbn [ser_entry length plain_acc Nat.add]. rewrite <- app_assoc.
  pose proof (ser_message_length_pos off 0 k v) as Hpos.
  destruct (ser_message off 0 k v ++ ser comp pre ++ rest) as [|b0 bs0] eqn:Ebs.
  { apply (f_equal (@length byte)) in Ebs. rewrite app_length in Ebs. cbn [length] in Ebs. lia. }
  rewrite ms_loop_step, <- Ebs, next_message_ser by (try assumption; unfold in_i8; lia).
  cbv beta iota zeta. change (Z.land 0 7 =? COMPRESSION_NONE) with true. cbv iota.
  apply IH.
Qed.

Lemma ser_plain_length comp pre : Forall plain_wf pre -> (length pre <= length (ser comp pre))%nat.
Proof.
  induction 1 as [|e pre He Hpre IH]; [cbn; lia|].
  destruct e as [off k v|c off inn]; [|destruct He].
  rewrite ser_cons, app_length. cbn [ser_entry length].
  pose proof (ser_message_length_pos off 0 k v). lia.
Qed.

(* a set in which the stored checksum of one entry (behind any number of plain entries, in front of
   anything) is replaced by any 4 bytes is decoded, with validation off, exactly like the original *)
Theorem C04_off_set_ignored : forall comp cz d req pre off field field' rest post,
  Forall plain_wf pre -> length field = 4%nat -> length field' = 4%nat -> in_i64 off ->
  blen (field ++ rest) <= i32_max ->
  from_slice cz (S d) false req
    (ser comp pre ++ (enc_i64 off ++ enc_i32 (blen (field ++ rest)) ++ (field ++ rest)) ++ post) =
  from_slice cz (S d) false req
    (ser comp pre ++ (enc_i64 off ++ enc_i32 (blen (field' ++ rest)) ++ (field' ++ rest)) ++ post).
Proof.
  intros comp cz d req pre off field field' rest post Hpre H H' Ho Hm.
  rewrite !from_slice_S.
  pose proof (ser_plain_length comp pre Hpre) as Hlen.
  set (E := (enc_i64 off ++ enc_i32 (blen (field ++ rest)) ++ (field ++ rest)) ++ post).
  set (E' := (enc_i64 off ++ enc_i32 (blen (field' ++ rest)) ++ (field' ++ rest)) ++ post).
  assert (HE : length E' = length E).
  { unfold E, E'. rewrite !app_length, !enc_i64_length, !enc_i32_length, H, H'. reflexivity. }
  assert (HEpos : (8 <= length E)%nat).
  { unfold E. rewrite !app_length, enc_i64_length. lia. }
  assert (HL : length (ser comp pre ++ E') = length (ser comp pre ++ E)) by (rewrite !app_length, HE; reflexivity).
  rewrite HL.
  replace (S (length (ser comp pre ++ E))) with (length pre + (S (length (ser comp pre ++ E)) - length pre))%nat
    by (rewrite app_length; lia).
  rewrite !(ms_loop_plain_prefix_x comp) by exact Hpre.
  destruct (S (length (ser comp pre ++ E)) - length pre)%nat as [|n] eqn:En; [rewrite app_length in En; lia|].
  destruct E as [|b0 bs0] eqn:EE; [cbn [length] in HEpos; lia|].
  destruct E' as [|b1 bs1] eqn:EE'; [cbn [length] in HE; lia|].
  rewrite !ms_loop_step, <- EE, <- EE'. unfold E, E'.
  assert (Haux : forall f0, (enc_i64 off ++ enc_i32 (blen (f0 ++ rest)) ++ (f0 ++ rest)) ++ post =
                            enc_i64 off ++ enc_i32 (blen (f0 ++ rest)) ++ (f0 ++ rest) ++ post)
    by (intros f0; now rewrite <- !app_assoc).
  rewrite !Haux.
  rewrite (C04_off_entry_ignored (debug_build cz) off field field' rest post H H' Ho Hm). reflexivity.
Qed.

(* ====================================================================================== *)
(* B. the response level                                                                  *)
(* ====================================================================================== *)

Fixpoint mapM {A B} (f : A -> res B) (l : list A) : res (list B) :=
  match l with
  | [] => Ok []
  | x :: r => let* y := f x in let* ys := mapM f r in Ok (y :: ys)
  end.

Lemma mapM_ok_all {A B} (f : A -> res B) l ys : mapM f l = Ok ys -> forall x, In x l -> exists y, f x = Ok y.
Proof.
  revert ys. induction l as [|a l IH]; intros ys H x Hin; [destruct Hin|]. cbn [mapM] in H.
  destruct (f a) as [y|e|w] eqn:Ea; cbn [bind] in H; try discriminate H.
  destruct (mapM f l) as [ys'|e|w] eqn:El; cbn [bind] in H; try discriminate H.
  destruct Hin as [<-|Hin]; [exists y; exact Ea|]. eapply IH; [reflexivity|exact Hin].
Qed.

Lemma mapM_dich {A B} (f : A -> res B) e l :
  (forall x, In x l -> (exists y, f x = Ok y) \/ f x = Err e) ->
  (exists ys, mapM f l = Ok ys) \/ mapM f l = Err e.
Proof.
  induction l as [|a l IH]; intros H; [left; exists []; reflexivity|]. cbn [mapM].
  destruct (H a (or_introl eq_refl)) as [[y Hy]|He]; rewrite ?Hy, ?He; cbn [bind]; [|right; reflexivity].
  destruct IH as [[ys Hys]|He]; [intros x Hx; apply H; right; exact Hx| |]; rewrite ?Hys, ?He; cbn [bind];
    [left; eexists; reflexivity|right; reflexivity].
Qed.

Lemma mapM_err {A B} (f : A -> res B) e l :
  (forall x, In x l -> (exists y, f x = Ok y) \/ f x = Err e) ->
  (exists x, In x l /\ f x = Err e) -> mapM f l = Err e.
Proof.
  induction l as [|a l IH]; intros H (x & Hin & Hx); [destruct Hin|]. cbn [mapM].
  destruct (H a (or_introl eq_refl)) as [[y Hy]|He]; rewrite ?Hy, ?He; cbn [bind]; [|reflexivity].
  destruct Hin as [<-|Hin]; [rewrite Hx in Hy; discriminate Hy|].
  rewrite IH; [reflexivity|intros z Hz; apply H; right; exact Hz|exists x; split; assumption].
Qed.

Section ZArraysM.
  Context {A B : Type} (d : bytes -> res (B * bytes)) (p : A -> bytes) (f : A -> res B) (wf : A -> Prop).
  Hypothesis d_p : forall a rest, wf a -> d (p a ++ rest) = let* y := f a in Ok (y, rest).
  Hypothesis p_pos : forall a, wf a -> (1 <= length (p a))%nat.

  Lemma zread_many_mapM l : Forall wf l -> forall fuel rest, (length l <= fuel)%nat ->
    zread_many d fuel (Z.of_nat (length l)) (p_seq p l ++ rest) = let* ys := mapM f l in Ok (ys, rest).
  Proof.
    induction 1 as [|x xs Hx _ IH]; intros fuel rest Hf.
    - destruct fuel; reflexivity.
    - cbn [length] in Hf. destruct fuel as [|fuel]; [lia|].
      cbn [zread_many length p_seq mapM].
      destruct (Z.of_nat (S (length xs)) <=? 0) eqn:E; [lia|].
      rewrite <- app_assoc, d_p by exact Hx.
      destruct (f x) as [y|e|w]; cbn [bind]; [|reflexivity|reflexivity].
      replace (Z.of_nat (S (length xs)) - 1) with (Z.of_nat (length xs)) by lia.
      rewrite IH by lia. destruct (mapM f xs); reflexivity.
  Qed.

  Lemma zread_array_mapM sz xs rest : wf_array wf xs ->
    zread_array sz d (p_array p xs ++ rest) = let* ys := mapM f (view_list xs) in Ok (ys, rest).
  Proof.
    intros H. unfold zread_array, zread_array_len. destruct xs as [l|]; cbn [p_array view_list wf_array] in *.
    - destruct H as [Hall Hlen]. rewrite <- app_assoc. rewrite zread_i32_print by (unfold in_i32; lia).
      cbn [bind]. destruct (Z.of_nat (length l) <? 0) eqn:E; [lia|].
      apply zread_many_mapM; [exact Hall|].
      rewrite app_length. pose proof (p_seq_length p wf p_pos l Hall). lia.
    - rewrite zread_i32_print by (unfold in_i32; lia). cbn [bind].
      change (-1 <? 0) with true. cbv iota. reflexivity.
  Qed.
End ZArraysM.

(* the offset the caller asked for (topic name as decoded: null = empty) *)
Definition req_of (reqs : fetch_tps) (name : option bytes) (p : Z) : Z :=
  match assoc_bytes (view_str name) reqs with
  | Some ps => match assoc_z p ps with Some (off, _) => off | None => 0 end
  | None => 0
  end.

Definition dec_part cz depth validate (reqs : fetch_tps) (name : option bytes) (p : w_fetch_part) : res fetch_part :=
  let* msgs := from_slice cz depth validate (req_of reqs name (wfe_partition p)) (wfe_message_set p) in
  Ok {| fp_partition := wfe_partition p;
        fp_data := match from_protocol (wfe_error p) with Some c => inr c | None => inl (wfe_highwater p, msgs) end |}.
Definition dec_topic cz depth validate reqs (t : w_topic w_fetch_part) : res fetch_topic :=
  let* ps := mapM (dec_part cz depth validate reqs (wt_name t)) (view_list (wt_partitions t)) in
  Ok {| ft_topic := view_str (wt_name t); ft_partitions := ps |}.
Definition dec_fetch cz depth validate reqs (r : w_topics_resp w_fetch_part) : res fetch_resp :=
  let* ts := mapM (dec_topic cz depth validate reqs) (view_list (wr_topics r)) in
  Ok {| fr_corr := wr_corr r; fr_topics := ts |}.

Lemma zread_bytes_print ms rest : Z.of_nat (length ms) < 2 ^ 31 ->
  zread_bytes (p_i32 (Z.of_nat (length ms)) ++ ms ++ rest) = Ok (ms, rest).
Proof.
  intros H. destruct ms as [|b ms].
  - cbn [length Z.of_nat app]. apply zread_bytes_empty.
  - change (p_i32 (Z.of_nat (length (b :: ms)))) with (enc_i32 (blen (b :: ms))).
    apply zread_bytes_app. unfold blen, i32_max. cbn [length] in *. lia.
Qed.

Lemma read_partition_print cz depth validate reqs name p rest : wf_fetch_part p ->
  read_partition cz depth validate (assoc_bytes (view_str name) reqs) (print_fetch_part p ++ rest) =
  let* fp := dec_part cz depth validate reqs name p in Ok (fp, rest).
Proof.
  intros (H1 & H2 & H3 & H4). unfold read_partition, print_fetch_part, dec_part, req_of.
  rewrite <- !app_assoc.
  rewrite zread_i32_print by exact H1. cbn [bind].
  rewrite zread_i16_print by exact H2. cbn [bind].
  rewrite zread_i64_print by exact H3. cbn [bind].
  rewrite zread_bytes_print by exact H4. cbn [bind].
  destruct (assoc_bytes (view_str name) reqs) as [ps|];
    [destruct (assoc_z (wfe_partition p) ps) as [[o m]|]|];
    destruct (from_slice cz depth validate _ (wfe_message_set p)); reflexivity.
Qed.

Lemma read_topic_print cz depth validate reqs t rest : wf_topic wf_fetch_part t ->
  read_topic cz depth validate reqs (print_topic print_fetch_part t ++ rest) =
  let* ft := dec_topic cz depth validate reqs t in Ok (ft, rest).
Proof.
  intros (Hn & Hps). unfold read_topic, print_topic, dec_topic.
  rewrite <- app_assoc. rewrite zread_str_print by exact Hn. cbn [bind].
  rewrite (zread_array_mapM _ print_fetch_part (dec_part cz depth validate reqs (wt_name t)) wf_fetch_part);
    [| |intros; apply print_fetch_part_pos|exact Hps].
  - destruct (mapM _ (view_list (wt_partitions t))); reflexivity.
  - intros a r Ha. apply read_partition_print. exact Ha.
Qed.

(* Response::from_vec on a printed FetchResponse: the message set of every partition goes through from_slice,
   in wire order, with the validate flag unchanged and the offset requested for that topic and partition; the
   first failure is the failure of the whole response *)
Theorem C04_response_decode : forall cz depth validate reqs r rest, wf_fetch r ->
  fetch_from_vec cz depth validate reqs (print_fetch r ++ rest) = dec_fetch cz depth validate reqs r.
Proof.
  intros cz depth validate reqs r rest (Hc & Hts). unfold fetch_from_vec, print_fetch, print_topics_resp, dec_fetch.
  rewrite <- app_assoc. rewrite zread_i32_print by exact Hc. cbn [bind].
  rewrite (zread_array_mapM _ (print_topic print_fetch_part) (dec_topic cz depth validate reqs)
             (wf_topic wf_fetch_part)); [| | |exact Hts].
  - destruct (mapM _ (view_list (wr_topics r))); reflexivity.
  - intros a r0 Ha. apply read_topic_print. exact Ha.
  - intros t _. unfold print_topic. rewrite app_length. pose proof (p_string_length (wt_name t)). lia.
Qed.

(* what from_slice makes of the message set of partition p of topic t, validation on *)
Definition part_set cz depth (reqs : fetch_tps) (t : w_topic w_fetch_part) (p : w_fetch_part) : res (list message) :=
  from_slice cz depth true (req_of reqs (wt_name t) (wfe_partition p)) (wfe_message_set p).

(* a response with a corrupted message in ANY partition of ANY topic is never delivered, whatever the other
   partitions hold, whatever was requested, whatever the error codes and whatever follows the response *)
Theorem C04_response_never_delivered : forall cz depth reqs r rest t p,
  wf_fetch r -> In t (view_list (wr_topics r)) -> In p (view_list (wt_partitions t)) ->
  part_set cz depth reqs t p = corrupt ->
  forall resp, fetch_from_vec cz depth true reqs (print_fetch r ++ rest) <> Ok resp.
Proof.
  intros cz depth reqs r rest t p Hwf Ht Hp Hbad resp H.
  rewrite C04_response_decode in H by exact Hwf. unfold dec_fetch in H.
  destruct (mapM (dec_topic cz depth true reqs) (view_list (wr_topics r))) as [ts|e|w] eqn:E; try discriminate H.
  destruct (mapM_ok_all _ _ _ E t Ht) as [ft Hft]. unfold dec_topic in Hft.
  destruct (mapM (dec_part cz depth true reqs (wt_name t)) (view_list (wt_partitions t))) as [ps|e|w] eqn:E2;
    try discriminate Hft.
  destruct (mapM_ok_all _ _ _ E2 p Hp) as [fp Hfp]. unfold dec_part in Hfp.
  unfold part_set in Hbad. rewrite Hbad in Hfp. discriminate Hfp.
Qed.

(* ... and the failure is CorruptMessage when no OTHER partition fails in another way first *)
Theorem C04_response_rejects : forall cz depth reqs r rest,
  wf_fetch r ->
  (forall t p, In t (view_list (wr_topics r)) -> In p (view_list (wt_partitions t)) ->
     (exists l, part_set cz depth reqs t p = Ok l) \/ part_set cz depth reqs t p = corrupt) ->
  (exists t p, In t (view_list (wr_topics r)) /\ In p (view_list (wt_partitions t)) /\
               part_set cz depth reqs t p = corrupt) ->
  fetch_from_vec cz depth true reqs (print_fetch r ++ rest) = corrupt.
Proof.
  intros cz depth reqs r rest Hwf Hall (t & p & Ht & Hp & Hbad).
  rewrite C04_response_decode by exact Hwf. unfold dec_fetch.
  assert (Hpart : forall t0 p0, In t0 (view_list (wr_topics r)) -> In p0 (view_list (wt_partitions t0)) ->
            (exists y, dec_part cz depth true reqs (wt_name t0) p0 = Ok y) \/
            dec_part cz depth true reqs (wt_name t0) p0 = corrupt).
  { intros t0 p0 Ht0 Hp0. unfold dec_part. destruct (Hall t0 p0 Ht0 Hp0) as [[l Hl]|Hc]; unfold part_set in *.
    - rewrite Hl. left. eexists. reflexivity.
    - rewrite Hc. right. reflexivity. }
  rewrite (mapM_err (dec_topic cz depth true reqs) (EKafka KC_CorruptMessage)); [reflexivity| |].
  - intros t0 Ht0. unfold dec_topic.
    destruct (mapM_dich (dec_part cz depth true reqs (wt_name t0)) (EKafka KC_CorruptMessage)
                (view_list (wt_partitions t0)) (fun p0 Hp0 => Hpart t0 p0 Ht0 Hp0)) as [[ys Hys]|He].
    + rewrite Hys. left. eexists. reflexivity.
    + rewrite He. right. reflexivity.
  - exists t. split; [exact Ht|]. unfold dec_topic.
    rewrite (mapM_err (dec_part cz depth true reqs (wt_name t)) (EKafka KC_CorruptMessage)); [reflexivity| |].
    + intros p0 Hp0. apply Hpart; assumption.
    + exists p. split; [exact Hp|]. unfold dec_part. unfold part_set in Hbad. rewrite Hbad. reflexivity.
Qed.

(* instance: one flipped bit, anywhere in the checksum field or the checksummed bytes of a message that sits
   behind plain messages in the set of some partition; any requested offsets *)
Theorem C04_response_single_bit_never_delivered :
  forall comp cz d reqs r rest t p pre off covered e post,
  wf_fetch r -> In t (view_list (wr_topics r)) -> In p (view_list (wt_partitions t)) ->
  Forall plain_wf pre -> in_i64 off -> 4 + blen covered <= i32_max ->
  length e = (4 + length covered)%nat -> weight (bits_of_bytes e) = 1%nat ->
  let msg := xor_bytes (enc_i32 (crc32 covered) ++ covered) e in
  wfe_message_set p = ser comp pre ++ (enc_i64 off ++ enc_i32 (blen msg) ++ msg) ++ post ->
  forall resp, fetch_from_vec cz (S d) true reqs (print_fetch r ++ rest) <> Ok resp.
Proof.
  intros comp cz d reqs r rest t p pre off covered e post Hwf Ht Hp Hpre Ho Hm Hl Hw msg Hset.
  apply (C04_response_never_delivered cz (S d) reqs r rest t p Hwf Ht Hp).
  unfold part_set. rewrite Hset. now apply C04_set_rejects_single_bit.
Qed.

(* ====================================================================================== *)
(* C. the client level: KafkaClient::fetch_messages / __fetch_messages                    *)
(* ====================================================================================== *)

(* the I/O of one per-broker exchange: connection, request out, framed response in *)
Definition fetch_io (corr : Z) (h : bytes) (tps : fetch_tps) : Net.M bytes :=
  let+ c := get_client in
  let+ fo := get_fetch_order h in
  let tps' := match fo with Some o => order_fetch o tps | None => tps end in
  let+ _ := get_conn h in
  let+ _ := send_request h (enc_fetch_req corr (client_id (cfg c)) (fetch_max_wait_time (cfg c))
                                          (fetch_min_bytes (cfg c)) tps') in
  get_response_bytes h.

(* one round of the per-broker loop: the response bytes are decoded with the CONFIGURED validation flag and
   with the request that was sent; a decoder failure ends the call with that failure *)
Theorem C04_fetch_exchange_cons : forall corr h tps r acc s,
  fetch_exchange corr ((h, tps) :: r) acc s =
  match fetch_io corr h tps s with
  | (Ok b, s1) =>
      match fetch_from_vec (env s) decode_depth (fetch_crc_validation (cfg (cl s))) tps b with
      | Ok resp => fetch_exchange corr r (acc ++ [resp]) s1
      | Err e => (Err e, s1)
      | Panic w => (Panic w, s1)
      end
  | (Err e, s1) => (Err e, s1)
  | (Panic w, s1) => (Panic w, s1)
  end.
Proof.
  intros corr h tps r acc s. cbn [fetch_exchange].
  unfold fetch_io, mbind, get_client, get_env, get_fetch_order, lift. cbv beta iota.
  destruct (get_conn h s) as [[u|e|w] s1]; [|reflexivity|reflexivity].
  destruct (send_request h _ s1) as [[n|e|w] s2]; [|reflexivity|reflexivity].
  destruct (get_response_bytes h s2) as [[b|e|w] s3]; [|reflexivity|reflexivity].
  destruct (fetch_from_vec (env s) decode_depth (fetch_crc_validation (cfg (cl s))) tps b); reflexivity.
Qed.

Lemma fetch_exchange_app corr pre : forall rest acc s,
  fetch_exchange corr (pre ++ rest) acc s =
  match fetch_exchange corr pre acc s with
  | (Ok acc1, s1) => fetch_exchange corr rest acc1 s1
  | (Err e, s1) => (Err e, s1)
  | (Panic w, s1) => (Panic w, s1)
  end.
Proof.
  induction pre as [|[h tps] pre IH]; intros rest acc s; [reflexivity|].
  rewrite <- app_comm_cons, !C04_fetch_exchange_cons.
  destruct (fetch_io corr h tps s) as [[b|e|w] s1]; [|reflexivity|reflexivity].
  destruct (fetch_from_vec _ _ _ tps b); [apply IH|reflexivity|reflexivity].
Qed.

(* configuration and codecs are not touched by any of this *)
Definition cfgenv (s s' : st) : Prop := env s' = env s /\ cfg (cl s') = cfg (cl s).
Lemma preorder_cfgenv : preorder cfgenv.
Proof.
  split; [intros s; split; reflexivity|]. intros s s1 s2 [A B] [C D]. split; congruence.
Qed.
Lemma conns_cfgenv s s' : same_but_conns s s' -> cfgenv s s'.
Proof. intros (_ & _ & _ & _ & He & Hc & _). split; assumption. Qed.
Lemma io_cfgenv s s' : same_but_io s s' -> cfgenv s s'.
Proof. intros H. apply conns_cfgenv, same_but_io_conns, H. Qed.

Lemma keeps_fetch_io corr h tps : keeps cfgenv (fetch_io corr h tps).
Proof.
  unfold fetch_io. pose proof preorder_cfgenv as P.
  apply keeps_bind; [exact P|apply keeps_get_client; exact P|]. intros c.
  apply keeps_bind; [exact P|apply keeps_get_fetch_order; exact P|]. intros fo.
  apply keeps_bind; [exact P|eapply keeps_weaken; [exact conns_cfgenv|apply frame_get_conn]|]. intros _.
  apply keeps_bind; [exact P|eapply keeps_weaken; [exact io_cfgenv|apply frame_send_request]|]. intros _.
  eapply keeps_weaken; [exact io_cfgenv|apply frame_get_response_bytes].
Qed.

Lemma keeps_fetch_exchange corr reqs : forall acc, keeps cfgenv (fetch_exchange corr reqs acc).
Proof.
  induction reqs as [|[h tps] reqs IH]; intros acc s r s' H.
  - inversion H; subst. apply preorder_cfgenv.
  - rewrite C04_fetch_exchange_cons in H.
    destruct (fetch_io corr h tps s) as [[b|e|w] s1] eqn:E; pose proof (keeps_fetch_io corr h tps s _ _ E) as K;
      [|inversion H; subst; exact K|inversion H; subst; exact K].
    destruct (fetch_from_vec _ _ _ tps b); [|inversion H; subst; exact K|inversion H; subst; exact K].
    destruct preorder_cfgenv as [_ T]. eapply T; [exact K|]. eapply IH. exact H.
Qed.

(* the per-broker loop: earlier brokers answered well (acc1), the answer b of broker h holds a corrupted
   message (any shape: see C04_response_rejects etc.), validation is configured on: the call fails with
   CorruptMessage; nothing of acc1, of b, or of the brokers behind h is delivered *)
Theorem C04_fetch_exchange_rejects : forall corr pre h tps post acc s acc1 s1 b s2,
  fetch_crc_validation (cfg (cl s)) = true ->
  fetch_exchange corr pre acc s = (Ok acc1, s1) ->
  fetch_io corr h tps s1 = (Ok b, s2) ->
  fetch_from_vec (env s) decode_depth true tps b = corrupt ->
  fetch_exchange corr (pre ++ (h, tps) :: post) acc s = (corrupt, s2).
Proof.
  intros corr pre h tps post acc s acc1 s1 b s2 Hv Hpre Hio Hbad.
  rewrite fetch_exchange_app, Hpre, C04_fetch_exchange_cons, Hio.
  destruct (keeps_fetch_exchange corr pre acc s _ _ Hpre) as [He Hc].
  rewrite He, Hc, Hv, Hbad. reflexivity.
Qed.

Lemma keeps_next_corr : keeps cfgenv next_corr.
Proof.
  intros s r s' H. unfold next_corr, mbind, get_client in H.
  destruct (next_correlation_id (cs (cl s))) as [n x].
  unfold set_cs, mbind, get_client, set_client, ret in H. cbv beta iota in H.
  inversion H; subst. split; reflexivity.
Qed.

Lemma keeps_ordered {V} (reqs : list (bytes * V)) : keeps cfgenv (ordered reqs).
Proof.
  intros s r s' H. unfold ordered in H. destruct reqs as [|x reqs].
  - inversion H; subst. apply preorder_cfgenv.
  - unfold mbind, pop_hosts, ret in H. destruct (hostq s); inversion H; subst; split; reflexivity.
Qed.

(* KafkaClient::fetch_messages as a whole *)
Theorem C04_fetch_messages_rejects : forall input s corr sa pre h tps post sb acc1 s1 b s2,
  fetch_crc_validation (cfg (cl s)) = true ->
  next_corr s = (Ok corr, sa) ->
  ordered (fetch_reqs (cl sa) input) sa = (Ok (pre ++ (h, tps) :: post), sb) ->
  fetch_exchange corr pre [] sb = (Ok acc1, s1) ->
  fetch_io corr h tps s1 = (Ok b, s2) ->
  fetch_from_vec (env s) decode_depth true tps b = corrupt ->
  fetch_messages input s = (corrupt, s2).
Proof.
  intros input s corr sa pre h tps post sb acc1 s1 b s2 Hv Hc Ho Hpre Hio Hbad.
  unfold fetch_messages. rewrite (mbind_ok _ _ _ _ _ Hc).
  unfold mbind at 1. unfold get_client at 1. cbv beta iota.
  rewrite (mbind_ok _ _ _ _ _ Ho).
  destruct (keeps_next_corr s _ _ Hc) as [E1 C1].
  destruct (keeps_ordered _ sa _ _ Ho) as [E2 C2].
  apply (C04_fetch_exchange_rejects corr pre h tps post [] sb acc1 s1 b s2); [|exact Hpre|exact Hio|].
  - rewrite C2, C1. exact Hv.
  - rewrite E2, E1. exact Hbad.
Qed.

(* ====================================================================================== *)
(* D. a corrupted message BEHIND a compressed wrapper (finding F13 seen from C04)         *)
(* ====================================================================================== *)
(* The property quantifies over every message of a fetched set.  The decoder returns at the first compressed
   wrapper (fetch.rs:421-431), so an entry behind a wrapper in the same set is never parsed: its corruption
   does not fail the fetch (it is not delivered either).  The same entry alone IS rejected. *)
Theorem C04_behind_wrapper_refuted : exists cz woff v off msg,
  in_i64 woff /\ in_i64 off /\ blen msg <= i32_max /\
  protocol_message (debug_build cz) true msg = corrupt /\
  from_slice cz 2 true 0 (enc_i64 off ++ enc_i32 (blen msg) ++ msg) = corrupt /\
  from_slice cz 2 true 0
    (ser_message woff COMPRESSION_GZIP None (Some v) ++ (enc_i64 off ++ enc_i32 (blen msg) ++ msg))
  = Ok [{| m_offset := 20; m_key := []; m_value := [x61] |}].
Proof.
  exists ex_cz, 22, (ser ex_comp [Plain 20 None (Some [x61])]), 13, ex_bad.
  vm_compute. repeat split; try discriminate; reflexivity.
Qed.

(* ====================================================================================== *)
(* E. examples (non-vacuity)                                                              *)
(* ====================================================================================== *)
(* three plain messages (offsets 10..12), the corrupted one (offset 13, value bit flipped), one more (14) *)
Definition xs_bad : bytes := ser ex_comp ex_pre ++ ex_entry ex_bad ++ ex_post.
Definition xs_good : bytes := ser ex_comp ex_pre ++ ex_entry ex_msg ++ ex_post.
Definition n_msgs (r : res (list message)) : option nat := match r with Ok l => Some (length l) | _ => None end.

(* both disjuncts of C04_on_refines_off_set occur, and C04_off_never_corrupt_set on the damaged set *)
Example C04_on_refines_off_set_ex :
  from_slice ex_cz 1 true 0 xs_bad = corrupt /\ n_msgs (from_slice ex_cz 1 false 0 xs_bad) = Some 5%nat /\
  from_slice ex_cz 1 true 0 xs_good = from_slice ex_cz 1 false 0 xs_good /\
  n_msgs (from_slice ex_cz 1 true 0 xs_good) = Some 5%nat /\
  (* inside a gzip wrapper, too *)
  from_slice ex_cz 2 true 0 ex_wrapped = corrupt /\ n_msgs (from_slice ex_cz 2 false 0 ex_wrapped) = Some 4%nat.
Proof. vm_compute. repeat split. Qed.

Example C04_off_set_ignored_ex :
  let field := [x01; x02; x03; x04] in let field' := enc_i32 (crc32 ex_cov) in
  Forall plain_wf ex_pre /\ length field = 4%nat /\ length field' = 4%nat /\ in_i64 13 /\
  blen (field ++ ex_cov) <= i32_max /\
  from_slice ex_cz 1 true 0
    (ser ex_comp ex_pre ++ (enc_i64 13 ++ enc_i32 (blen (field ++ ex_cov)) ++ (field ++ ex_cov)) ++ ex_post) = corrupt /\
  from_slice ex_cz 1 false 0
    (ser ex_comp ex_pre ++ (enc_i64 13 ++ enc_i32 (blen (field ++ ex_cov)) ++ (field ++ ex_cov)) ++ ex_post) =
  from_slice ex_cz 1 false 0 xs_good.
Proof.
  cbv zeta. split; [exact ex_pre_wf|]. split; [reflexivity|]. split; [reflexivity|].
  split; [vm_compute; split; discriminate|]. split; [vm_compute; discriminate|].
  split; [vm_compute; reflexivity|].
  apply (C04_off_set_ignored ex_comp ex_cz 0 0 ex_pre 13 [x01; x02; x03; x04] (enc_i32 (crc32 ex_cov)) ex_cov ex_post);
    [exact ex_pre_wf|reflexivity|reflexivity|vm_compute; split; discriminate|vm_compute; discriminate].
Qed.

(* a response with two topics; the damaged set sits in the SECOND partition of the first topic, and the fetch
   asked for offset 14 there, i.e. the damaged message (offset 13) lies BEFORE the requested offset *)
Definition xr (set1 : bytes) : w_topics_resp w_fetch_part :=
  {| wr_corr := 7;
     wr_topics := Some [ {| wt_name := Some [x74];
                            wt_partitions := Some [ {| wfe_partition := 0; wfe_error := 0; wfe_highwater := 15;
                                                       wfe_message_set := xs_good |};
                                                    {| wfe_partition := 1; wfe_error := 0; wfe_highwater := 15;
                                                       wfe_message_set := set1 |} ] |};
                         {| wt_name := Some [x75];
                            wt_partitions := Some [ {| wfe_partition := 3; wfe_error := 1; wfe_highwater := -1;
                                                       wfe_message_set := [] |} ] |} ] |}.
Definition xreqs : fetch_tps := [ ([x74], [ (0, (10, 1000)); (1, (14, 1000)) ]); ([x75], [ (3, (0, 1000)) ]) ].

Lemma xr_wf set1 : Z.of_nat (length set1) < 2 ^ 31 -> wf_fetch (xr set1).
Proof.
  intros H. unfold wf_fetch, wf_topics_resp, xr, wf_array, wf_topic, wf_fetch_part, wf_string, wf_array,
    in_i16, in_i32, in_i64; cbn [wr_corr wr_topics wt_name wt_partitions wfe_partition wfe_error wfe_highwater
    wfe_message_set].
  repeat first [ split | apply Forall_cons | apply Forall_nil | exact H | reflexivity | exact I
               | (vm_compute; discriminate) | (vm_compute; reflexivity) ].
Qed.

Example C04_response_rejects_ex :
  wf_fetch (xr xs_bad) /\
  (exists t p, In t (view_list (wr_topics (xr xs_bad))) /\ In p (view_list (wt_partitions t)) /\
               wfe_partition p = 1 /\ req_of xreqs (wt_name t) (wfe_partition p) = 14 /\
               part_set ex_cz 1 xreqs t p = corrupt) /\
  fetch_from_vec ex_cz 1 true xreqs (print_fetch (xr xs_bad) ++ [x09]) = corrupt /\
  (forall resp, fetch_from_vec ex_cz 1 true xreqs (print_fetch (xr xs_bad) ++ [x09]) <> Ok resp) /\
  (* validation off: delivered (only offset 14 was asked for in partition 1) *)
  option_map (fun r => map (fun t => map (fun p => match fp_data p with inl (_, l) => length l | inr _ => 99%nat end)
                                         (ft_partitions t)) (fr_topics r))
    (match fetch_from_vec ex_cz 1 false xreqs (print_fetch (xr xs_bad) ++ [x09]) with Ok r => Some r | _ => None end)
  = Some [[5%nat; 1%nat]; [99%nat]].
Proof.
  assert (Hwf : wf_fetch (xr xs_bad)) by (apply xr_wf; vm_compute; reflexivity).
  assert (Hbad : exists t p, In t (view_list (wr_topics (xr xs_bad))) /\ In p (view_list (wt_partitions t)) /\
               wfe_partition p = 1 /\ req_of xreqs (wt_name t) (wfe_partition p) = 14 /\
               part_set ex_cz 1 xreqs t p = corrupt).
  { eexists. eexists. split; [left; reflexivity|]. split; [right; left; reflexivity|].
    split; [reflexivity|]. split; vm_compute; reflexivity. }
  split; [exact Hwf|]. split; [exact Hbad|]. split; [|split].
  - apply C04_response_rejects; [exact Hwf| |].
    + intros t p [<-|[<-|[]]]; cbn [wt_partitions view_list].
      * intros [<-|[<-|[]]]; [left; eexists; vm_compute; reflexivity|right; vm_compute; reflexivity].
      * intros [<-|[]]. left; eexists; vm_compute; reflexivity.
    + destruct Hbad as (t & p & Ht & Hp & _ & _ & Hc). exists t, p. repeat split; assumption.
  - destruct Hbad as (t & p & Ht & Hp & _ & _ & Hc).
    apply (C04_response_never_delivered ex_cz 1 xreqs (xr xs_bad) [x09] t p Hwf Ht Hp Hc).
  - vm_compute. reflexivity.
Qed.

Example C04_response_single_bit_ex :
  forall resp, fetch_from_vec ex_cz 1 true xreqs (print_fetch (xr xs_bad) ++ [x09]) <> Ok resp.
Proof.
  assert (Hwf : wf_fetch (xr xs_bad)) by (apply xr_wf; vm_compute; reflexivity).
  eapply (C04_response_single_bit_never_delivered ex_comp ex_cz 0 xreqs (xr xs_bad) [x09] _ _ ex_pre 13 ex_cov
            (flip_at 20 129) ex_post Hwf).
  - left; reflexivity.
  - right; left; reflexivity.
  - exact ex_pre_wf.
  - vm_compute; split; discriminate.
  - vm_compute; discriminate.
  - reflexivity.
  - vm_compute; reflexivity.
  - reflexivity.
Qed.

(* ---- the client over a scripted connection ---------------------------------------------------------- *)
Definition x_cs : cstate :=
  {| correlation := 0; brokers := [ {| b_node := 1; b_host := tag "h:9092" |} ];
     topic_partitions := [ (tag "t", [0; 0]) ]; group_coordinators := [] |}.
Definition x_client (crc : bool) : client :=
  {| cfg := {| client_id := []; hosts := [tag "h:9092"]; compression := 0; fetch_max_wait_time := 100;
               fetch_min_bytes := 1; fetch_max_bytes_per_partition := 32768; fetch_crc_validation := crc;
               offset_storage := -1; retry_backoff_time := (0, 0); retry_max_attempts := 1; idle_timeout := (60, 0) |};
     cs := x_cs; conns := [] |}.
Definition x_payload : bytes := print_fetch (xr xs_bad).
Definition x_st (crc : bool) : st :=
  {| script := [OConn true; OWrote 1000; OData (p_i32 (Z.of_nat (length x_payload))); OData x_payload];
     trace := []; anyq := []; hostq := []; fetchq := []; entryq := []; cl := x_client crc; env := ex_cz |}.
Definition x_in : list fetch_partition :=
  [{| fq_topic := tag "t"; fq_partition := 1; fq_offset := 14; fq_max_bytes := 65536 |}].
Definition x_h : bytes := tag "h:9092".
Definition x_tps : fetch_tps := [(tag "t", [(1, (14, 65536))])].

Example C04_fetch_messages_rejects_ex :
  let s := x_st true in
  let sa := snd (next_corr s) in
  let sb := snd (ordered (fetch_reqs (cl sa) x_in) sa) in
  let s2 := snd (fetch_io 1 x_h x_tps sb) in
  fetch_crc_validation (cfg (cl s)) = true /\
  next_corr s = (Ok 1, sa) /\
  ordered (fetch_reqs (cl sa) x_in) sa = (Ok ([] ++ (x_h, x_tps) :: []), sb) /\
  fetch_exchange 1 [] [] sb = (Ok [], sb) /\
  fetch_io 1 x_h x_tps sb = (Ok x_payload, s2) /\
  fetch_from_vec (env s) decode_depth true x_tps x_payload = corrupt /\
  fetch_messages x_in s = (corrupt, s2) /\
  (* the same bytes, validation configured off: delivered *)
  (exists resps s', fetch_messages x_in (x_st false) = (Ok resps, s') /\ length resps = 1%nat).
Proof.
  cbv zeta.
  assert (H1 : fetch_crc_validation (cfg (cl (x_st true))) = true) by reflexivity.
  assert (H2 : next_corr (x_st true) = (Ok 1, snd (next_corr (x_st true)))) by (vm_compute; reflexivity).
  set (sa := snd (next_corr (x_st true))) in *.
  assert (H3 : ordered (fetch_reqs (cl sa) x_in) sa =
               (Ok ([] ++ (x_h, x_tps) :: []), snd (ordered (fetch_reqs (cl sa) x_in) sa))) by (vm_compute; reflexivity).
  set (sb := snd (ordered (fetch_reqs (cl sa) x_in) sa)) in *.
  assert (H4 : fetch_exchange 1 [] [] sb = (Ok [], sb)) by reflexivity.
  assert (H5 : fetch_io 1 x_h x_tps sb = (Ok x_payload, snd (fetch_io 1 x_h x_tps sb))) by (vm_compute; reflexivity).
  assert (H6 : fetch_from_vec (env (x_st true)) decode_depth true x_tps x_payload = corrupt) by (vm_compute; reflexivity).
  split; [exact H1|]. split; [exact H2|]. split; [exact H3|]. split; [exact H4|]. split; [exact H5|].
  split; [exact H6|]. split.
  - exact (C04_fetch_messages_rejects x_in (x_st true) 1 sa [] x_h x_tps [] sb [] sb x_payload _ H1 H2 H3 H4 H5 H6).
  - eexists. eexists. split; [vm_compute; reflexivity|reflexivity].
Qed.

(* ---------------------------------------------------------------------------------------- *)
Print Assumptions C04_on_refines_off_set.
Print Assumptions C04_off_never_corrupt_set.
Print Assumptions C04_on_refines_off_response.
Print Assumptions C04_off_never_corrupt_response.
Print Assumptions C04_off_set_ignored.
Print Assumptions C04_response_decode.
Print Assumptions C04_response_never_delivered.
Print Assumptions C04_response_rejects.
Print Assumptions C04_response_single_bit_never_delivered.
Print Assumptions C04_fetch_exchange_cons.
Print Assumptions C04_fetch_exchange_rejects.
Print Assumptions C04_fetch_messages_rejects.
Print Assumptions C04_behind_wrapper_refuted.
