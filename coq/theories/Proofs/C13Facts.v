(* C13, part 2: no broker reply can crash the layers ABOVE the decoders
   (C13Decode.v has the decoders).

   - update_metadata is total on every decoded metadata response
   - the frame reader never panics, rejects negative sizes and asks for at most 64 KiB at a time
   - the four remaining panic sites that a broker reply can reach are characterised
     exactly (`*_outside_known`) and exhibited (`*_refuted`):
       consumer poll:   "unknown topic in response", "non-requested partition", overflow (debug)
       consumer init:   "non-assigned topic", overflow (debug)
       producer send:   "assertion failed: rs.len() == 1" / "partition_confirms.len() == 1"
       group lookup:    "available connection" *)
From KV Require Import Base.Prelude Base.Snappy Gen.Consts Model.Codecs Model.Requests Model.Responses
                       Model.ClientState Model.Net Model.Client Model.Producer Model.Consumer.
From KV Require Import Proofs.C13Decode.
From Coq Require Import ZifyBool.

(* ====================================================================== *)
(* metadata update                                                         *)
(* ====================================================================== *)
Lemma sync_partitions_total idx : forall pms ps, exists ps', sync_partitions idx pms ps = Ok ps'.
Proof.
  induction pms as [|pm r IH]; intros ps; cbn [sync_partitions]; [eexists; reflexivity|].
  destruct ((pm_id pm <? 0) || (ulen ps <=? pm_id pm)); apply IH.
Qed.

Lemma update_topics_total idx : forall tms tps, exists tps', update_topics idx tms tps = Ok tps'.
Proof.
  induction tms as [|tm r IH]; intros tps; cbn [update_topics]; [eexists; reflexivity|].
  cbv zeta.
  match goal with |- context [sync_partitions idx ?a ?b] => destruct (sync_partitions_total idx a b) as [ps1 ->] end.
  apply IH.
Qed.

(* unrequested topics, non-contiguous or negative partition ids, unknown leaders,
   duplicate brokers, a partition list of any length: all fine *)
Theorem C13_metadata_update_total : forall s md, exists s', update_metadata s md = Ok s'.
Proof.
  intros s md. unfold update_metadata. destruct (update_brokers s md) as [bs idx].
  destruct (update_topics_total idx (md_topics md) (topic_partitions s)) as [tps ->].
  cbn [bind]. eexists; reflexivity.
Qed.

(* a hostile metadata answer: the same broker id twice, a topic nobody asked for twice with
   different partition counts, partition ids -1, 7 and 2^31-1, leaders that do not exist *)
Definition ex_hostile_md : metadata_resp :=
  {| md_corr := 0;
     md_brokers := [{| bm_node := 1; bm_host := tag "a"; bm_port := 1 |};
                    {| bm_node := 1; bm_host := tag "b"; bm_port := -2 |}];
     md_topics := [{| tm_error := 3; tm_topic := tag "x";
                      tm_partitions := [{| pm_error := 0; pm_id := -1; pm_leader := 1; pm_replicas := []; pm_isr := [] |};
                                        {| pm_error := 0; pm_id := 7; pm_leader := 99; pm_replicas := []; pm_isr := [] |};
                                        {| pm_error := 0; pm_id := 2147483647; pm_leader := -5; pm_replicas := []; pm_isr := [] |}] |};
                   {| tm_error := 0; tm_topic := tag "x";
                      tm_partitions := [{| pm_error := 0; pm_id := 0; pm_leader := 42; pm_replicas := []; pm_isr := [] |}] |}] |}.
Example ex_hostile_md_ok :
  update_metadata cstate_new ex_hostile_md =
  Ok {| correlation := 0;
        brokers := [{| b_node := 1; b_host := tag "b:-2" |}];
        topic_partitions := [(tag "x", [UNKNOWN_BROKER_INDEX])];
        group_coordinators := [] |}.
Proof. vm_compute. reflexivity. Qed.

(* ====================================================================== *)
(* the frame reader (network.rs)                                           *)
(* ====================================================================== *)
Lemma io_spec op s :
  (script s = [] /\ io op s = (Err EOutOfScript, st_with s [] (op :: trace s)))
  \/ (exists o r, script s = o :: r /\ io op s = (Ok o, st_with s r (op :: trace s))).
Proof. unfold io. destruct (script s) as [|o r]; [left; auto|right; eauto]. Qed.

(* a read request for k bytes on host h with 0 < k <= lim *)
Definition is_read (h : bytes) (lim : Z) (op : ev_op) : Prop := exists k, op = ERead h k /\ 0 < k <= lim.

Lemma is_read_mono h a b op : a <= b -> is_read h a op -> is_read h b op.
Proof. intros Hab [k [-> Hk]]. exists k. split; [reflexivity|lia]. Qed.

(* what a reading loop does to the state: the script only shrinks, the trace grows by
   bounded read requests; `strict`: a successful run consumed at least one script item *)
Definition rd_post (h : bytes) (lim : Z) (strict : Prop) (s : st) (rs : res bytes * st) : Prop :=
  no_panic (fst rs)
  /\ (length (script (snd rs)) <= length (script s))%nat
  /\ (strict -> is_ok (fst rs) = true -> (length (script (snd rs)) < length (script s))%nat)
  /\ exists new, trace (snd rs) = new ++ trace s /\ Forall (is_read h lim) new.

Lemma rd_post_fail h lim strict s e s1 op :
  e <> EOutOfFuel -> is_read h lim op ->
  (length (script s1) <= length (script s))%nat -> trace s1 = op :: trace s ->
  rd_post h lim strict s (Err e, s1).
Proof.
  intros He Hop Hl Ht. unfold rd_post. cbn [fst snd is_ok]. repeat split.
  - destruct e; cbn; auto.
  - exact Hl.
  - discriminate.
  - exists [op]. split; [exact Ht|constructor; [exact Hop|constructor]].
Qed.

Lemma rd_post_step h lim lim' (strict : Prop) s s1 op rs :
  is_read h lim op -> lim' <= lim ->
  (length (script s1) < length (script s))%nat -> trace s1 = op :: trace s ->
  rd_post h lim' False s1 rs -> rd_post h lim strict s rs.
Proof.
  intros Hop Hlim Hl Ht [Hn [Hle [_ [new [Hnew Hall]]]]]. unfold rd_post. repeat split.
  - exact Hn.
  - lia.
  - intros _ _. lia.
  - exists (new ++ [op]). split; [rewrite Hnew, Ht, <- app_assoc; reflexivity|].
    apply Forall_app. split; [|constructor; [exact Hop|constructor]].
    eapply Forall_impl; [|exact Hall]. intros a. apply is_read_mono. exact Hlim.
Qed.

Lemma read_exact_spec h : forall fuel n acc s, (length (script s) < fuel)%nat ->
  rd_post h n (0 < n) s (read_exact fuel h n acc s).
Proof.
  induction fuel as [|f IH]; intros n acc s Hf; [lia|].
  cbn [read_exact]. destruct (n <=? 0) eqn:En.
  { unfold ret, rd_post. cbn [fst snd]. repeat split; [lia|lia|]. exists []. split; [reflexivity|constructor]. }
  assert (Hop : is_read h n (ERead h n)) by (exists n; split; [reflexivity|lia]).
  unfold mbind. destruct (io_spec (ERead h n) s) as [[Hs ->]|[o [r [Hs ->]]]].
  - apply rd_post_fail with (op := ERead h n); [discriminate|exact Hop|cbn; lia|reflexivity].
  - set (s1 := st_with s r (ERead h n :: trace s)).
    assert (Hl : (length (script s1) < length (script s))%nat) by (rewrite Hs; cbn; lia).
    assert (Ht : trace s1 = ERead h n :: trace s) by reflexivity.
    assert (Hf1 : (length (script s1) < f)%nat) by lia.
    destruct o as [ok|k| |e|bs| |e| ];
      try (apply rd_post_fail with (op := ERead h n); [discriminate|exact Hop|lia|exact Ht]).
    + destruct bs as [|b bs];
        [apply rd_post_fail with (op := ERead h n); [discriminate|exact Hop|lia|exact Ht]|].
      apply rd_post_step with (lim' := n - ulen (b :: bs)) (s1 := s1) (op := ERead h n); auto.
      * unfold ulen. cbn [length]. lia.
      * destruct (IH (n - ulen (b :: bs)) (acc ++ b :: bs) s1 Hf1) as [H1 [H2 [_ H4]]].
        unfold rd_post. repeat split; auto. intros [].
    + apply rd_post_step with (lim' := n) (s1 := s1) (op := ERead h n); auto; [lia|].
      destruct (IH n acc s1 Hf1) as [H1 [H2 [_ H4]]].
      unfold rd_post. repeat split; auto. intros [].
Qed.

Lemma rd_post_weaken h lim lim' (P Q : Prop) s rs :
  lim <= lim' -> (Q -> P) -> rd_post h lim P s rs -> rd_post h lim' Q s rs.
Proof.
  intros Hl HQ [H1 [H2 [H3 [new [H4 H5]]]]]. unfold rd_post. repeat split; auto.
  exists new. split; [exact H4|]. eapply Forall_impl; [|exact H5]. intros a. apply is_read_mono. exact Hl.
Qed.

Lemma rd_post_trans h lim (P : Prop) s s1 (b : bytes) rs :
  rd_post h lim P s (Ok b, s1) -> rd_post h lim False s1 rs -> rd_post h lim False s rs.
Proof.
  intros [_ [A2 [_ [n1 [A4 A5]]]]] [B1 [B2 [_ [n2 [B4 B5]]]]]. cbn [fst snd] in *.
  unfold rd_post. repeat split; auto; [lia|intros []|].
  exists (n2 ++ n1). split; [rewrite B4, A4, app_assoc; reflexivity|apply Forall_app; auto].
Qed.

Lemma read_chunks_spec h : forall fuel remaining acc s, (length (script s) < fuel)%nat ->
  rd_post h read_chunk False s (read_chunks fuel h remaining acc s).
Proof.
  induction fuel as [|f IH]; intros remaining acc s Hf; [lia|].
  cbn [read_chunks]. destruct (remaining <=? 0) eqn:En.
  { unfold ret, rd_post. cbn [fst snd]. repeat split; [lia|intros []|]. exists []. split; [reflexivity|constructor]. }
  cbv zeta. set (n := Z.min remaining read_chunk).
  assert (Hn : 0 < n <= read_chunk) by (unfold n, read_chunk; lia).
  unfold mbind, with_fuel.
  pose proof (read_exact_spec h (S (length (script s))) n [] s ltac:(lia)) as H.
  destruct (read_exact (S (length (script s))) h n [] s) as [[b|e|w] s1] eqn:Er.
  - assert (Hs1 : (length (script s1) < length (script s))%nat).
    { destruct H as [_ [_ [H3 _]]]. apply H3; [lia|reflexivity]. }
    apply rd_post_trans with (P := 0 < n) (s1 := s1) (b := b).
    + revert H. apply rd_post_weaken; [lia|auto].
    + apply IH. lia.
  - revert H. apply rd_post_weaken; [lia|intros []].
  - destruct H as [[] _].
Qed.

(* `get_response_size h` and `read_exact_alloc h size` never panic and never run out of
   fuel; a size that survives is not negative; every read request they issue is for
   0 < n <= 4 resp. 0 < n <= 64 KiB bytes (the buffer grows by at most 64 KiB beyond
   what has been received), whatever `size` is *)
Theorem C13_frame_size : forall h s,
  (let rs := get_response_size h s in
   no_panic (fst rs)
   /\ (forall size, fst rs = Ok size -> 0 <= size)
   /\ exists new, trace (snd rs) = new ++ trace s /\ Forall (is_read h 4) new)
  /\ (forall size,
       let rs := read_exact_alloc h size s in
       no_panic (fst rs)
       /\ exists new, trace (snd rs) = new ++ trace s /\ Forall (is_read h read_chunk) new).
Proof.
  intros h s. split.
  - cbv zeta. unfold get_response_size, mbind, with_fuel.
    pose proof (read_exact_spec h (S (length (script s))) 4 [] s ltac:(lia)) as [H1 [_ [_ H4]]].
    destruct (read_exact (S (length (script s))) h 4 [] s) as [[b|e|w] s1]; cbn [fst snd] in *.
    + destruct (be_dec_s b <? 0) eqn:Eb; unfold fail, ret; cbn [fst snd].
      * repeat split; [discriminate|exact H4].
      * repeat split; [|exact H4]. intros size Hs. inversion Hs. lia.
    + repeat split; [exact H1|discriminate|exact H4].
    + contradiction.
  - intros size. cbv zeta. unfold read_exact_alloc, with_fuel.
    pose proof (read_chunks_spec h (S (length (script s))) size [] s ltac:(lia)) as [H1 [_ [_ H4]]].
    split; assumption.
Qed.

(* a negative frame size is a CodecError *)
Theorem C13_frame_size_negative : forall h s b s1,
  with_fuel (fun f => read_exact f h 4 []) s = (Ok b, s1) -> be_dec_s b < 0 ->
  get_response_size h s = (Err ECodec, s1).
Proof.
  intros h s b s1 Hr Hb. unfold get_response_size, mbind. rewrite Hr.
  destruct (be_dec_s b <? 0) eqn:E; [reflexivity|lia].
Qed.

Definition ex_client : client := client_new [tag "h:1"].
Definition ex_st (sc : list ev_out) (c : client) (dbg : bool) : st :=
  {| script := sc; trace := []; anyq := []; hostq := []; fetchq := []; entryq := [];
     cl := c; env := ex_cz dbg |}.

(* size -1: CodecError.  Size 2^31-1 followed by 3 bytes and the end of the stream:
   one 4-byte request, then 64 KiB requests only *)
Example ex_frame_negative :
  fst (get_response_bytes (tag "h:1") (ex_st [OData [xff; xff; xff; xff]] ex_client false)) = Err ECodec.
Proof. vm_compute. reflexivity. Qed.
Example ex_frame_huge :
  let rs := get_response_bytes (tag "h:1")
              (ex_st [OData [x7f; xff]; OReadIntr; OData [xff; xff]; OData [x01; x02; x03]; OData []] ex_client false) in
  fst rs = Err (EIo IoUnexpectedEof)
  /\ rev (trace (snd rs)) = [ERead (tag "h:1") 4; ERead (tag "h:1") 2; ERead (tag "h:1") 2;
                             ERead (tag "h:1") 65536; ERead (tag "h:1") 65533].
Proof. vm_compute. split; reflexivity. Qed.

(* ====================================================================== *)
(* consumer poll: process_fetch_responses on arbitrary decoded responses    *)
(* ====================================================================== *)
Definition overflow_tag : bytes := tag "attempt to add/subtract with overflow".

Lemma i64_op_cases dbg z :
  (in_i64 z /\ i64_op dbg z = Ok z)
  \/ (~ in_i64 z /\ dbg = false /\ i64_op dbg z = Ok (wrap_s 64 z))
  \/ (~ in_i64 z /\ dbg = true /\ i64_op dbg z = Panic overflow_tag).
Proof.
  unfold i64_op, in_i64, i64_min, i64_max.
  destruct ((-9223372036854775808 <=? z) && (z <=? 9223372036854775807)) eqn:E.
  - left. split; [lia|reflexivity].
  - right. destruct dbg; [right|left]; (split; [lia|split; reflexivity]).
Qed.

(* for an offset that came off the wire (an i64) the overflow is exactly offset = i64_max *)
Lemma overflow_plus_one o : in_i64 o -> ~ in_i64 (o + 1) -> o = i64_max.
Proof. unfold in_i64, i64_max. lia. Qed.
Lemma overflow_minus_one o : in_i64 o -> ~ in_i64 (o - 1) -> o = i64_min.
Proof. unfold in_i64, i64_min. lia. Qed.

(* tk_set never removes a key *)
Lemma tk_get_set_none {V} (key key' : tpkey) (v : V) m :
  tk_get key (tk_set key' v m) = None -> tk_get key m = None.
Proof.
  induction m as [|[k0 v0] m IH]; cbn [tk_set tk_get]; [reflexivity|].
  destruct (tpkey_eqb k0 key') eqn:E1; cbn [tk_get]; destruct (tpkey_eqb k0 key) eqn:E2; auto; discriminate.
Qed.

(* the three known classes *)
Definition poll_unknown_topic (k : consumer) (resps : list fetch_resp) : Prop :=
  exists t, In t (flat_map fr_topics resps) /\ topic_ref (k_assign k) (ft_topic t) = None.
Definition poll_unrequested_partition (k : consumer) (resps : list fetch_resp) : Prop :=
  exists t r p, In t (flat_map fr_topics resps) /\ topic_ref (k_assign k) (ft_topic t) = Some r
                /\ In p (ft_partitions t) /\ tk_get (r, fp_partition p) (k_fetch k) = None.
Definition poll_offset_overflow (dbg : bool) (resps : list fetch_resp) : Prop :=
  dbg = true /\
  exists t p hw msgs m, In t (flat_map fr_topics resps) /\ In p (ft_partitions t)
                        /\ fp_data p = inl (hw, msgs) /\ last_msg msgs = Some m /\ ~ in_i64 (m_offset m + 1).

Definition keys_within (F : list (tpkey * (Z * Z))) (s : pstate) : Prop :=
  forall tp, tk_get tp (ps_fetch s) = None -> tk_get tp F = None.

Lemma process_partition_inv dbg single n cm limit r p s F :
  keys_within F s ->
  match process_partition dbg single n cm limit r p s with
  | POk s' => keys_within F s'
  | PErr _ _ => True
  | PPanic w =>
      (w = tag "non-requested partition" /\ tk_get (r, fp_partition p) F = None)
      \/ (w = overflow_tag /\ dbg = true /\
          exists hw msgs m, fp_data p = inl (hw, msgs) /\ last_msg msgs = Some m /\ ~ in_i64 (m_offset m + 1))
  end.
Proof.
  intros HF. unfold process_partition.
  destruct (fp_data p) as [[hw msgs]|c] eqn:Ed; [|exact I].
  destruct (tk_get (r, fp_partition p) (ps_fetch s)) as [[off maxb]|] eqn:Eg;
    [|left; split; [reflexivity|apply HF; exact Eg]].
  destruct (last_msg msgs) as [m|] eqn:El.
  - destruct (i64_op_cases dbg (m_offset m + 1)) as [[_ ->]|[[_ [_ ->]]|[Hn [Hd ->]]]].
    + intros tp. cbn [ps_fetch]. intros H. apply HF. eapply tk_get_set_none. exact H.
    + intros tp. cbn [ps_fetch]. intros H. apply HF. eapply tk_get_set_none. exact H.
    + right. split; [reflexivity|]. split; [exact Hd|]. exists hw, msgs, m. auto.
  - destruct (off <? hw); [|exact HF].
    destruct (maxb <? limit).
    + intros tp. cbn [ps_fetch]. intros H. apply HF. eapply tk_get_set_none. exact H.
    + destruct (n =? 1); [exact I|]. intros tp. cbn [ps_fetch]. apply HF.
Qed.

Lemma process_parts_inv dbg single n cm limit r F : forall ps s,
  keys_within F s ->
  match process_parts dbg single n cm limit r ps s with
  | POk s' => keys_within F s'
  | PErr _ _ => True
  | PPanic w =>
      exists p, In p ps /\
      ((w = tag "non-requested partition" /\ tk_get (r, fp_partition p) F = None)
       \/ (w = overflow_tag /\ dbg = true /\
           exists hw msgs m, fp_data p = inl (hw, msgs) /\ last_msg msgs = Some m /\ ~ in_i64 (m_offset m + 1)))
  end.
Proof.
  induction ps as [|p rest IH]; intros s HF; cbn [process_parts]; [exact HF|].
  pose proof (process_partition_inv dbg single n cm limit r p s F HF) as H. revert H.
  destruct (process_partition dbg single n cm limit r p s) as [s'|e s'|w]; intros H.
  - specialize (IH s' H). revert IH.
    destruct (process_parts dbg single n cm limit r rest s') as [s''|e s''|w]; auto.
    intros [p' [Hin Hp]]. exists p'. split; [right; exact Hin|exact Hp].
  - exact I.
  - exists p. split; [left; reflexivity|exact H].
Qed.

Lemma process_topics_inv dbg single n cm limit asg F : forall ts s,
  keys_within F s ->
  match process_topics dbg single n cm limit asg ts s with
  | PPanic w =>
      (w = tag "unknown topic in response" /\ exists t, In t ts /\ topic_ref asg (ft_topic t) = None)
      \/ (w = tag "non-requested partition" /\
          exists t r p, In t ts /\ topic_ref asg (ft_topic t) = Some r /\ In p (ft_partitions t)
                        /\ tk_get (r, fp_partition p) F = None)
      \/ (w = overflow_tag /\ dbg = true /\
          exists t p hw msgs m, In t ts /\ In p (ft_partitions t) /\ fp_data p = inl (hw, msgs)
                                /\ last_msg msgs = Some m /\ ~ in_i64 (m_offset m + 1))
  | _ => True
  end.
Proof.
  induction ts as [|t rest IH]; intros s HF; cbn [process_topics]; [exact I|].
  destruct (topic_ref asg (ft_topic t)) as [r|] eqn:Et.
  - pose proof (process_parts_inv dbg single n cm limit r F (ft_partitions t) s HF) as H. revert H.
    destruct (process_parts dbg single n cm limit r (ft_partitions t) s) as [s'|e s'|w]; intros H; [|exact I|].
    + specialize (IH s' H). revert IH.
      destruct (process_topics dbg single n cm limit asg rest s') as [s''|e s''|w]; auto.
      intros [[Hw [t' [Hin Ht']]]|[[Hw [t' [r' [p [Hin Hr]]]]]|[Hw [Hd [t' [p [hw [msgs [m [Hin Hr]]]]]]]]]].
      * left. split; [exact Hw|]. exists t'. split; [right; exact Hin|exact Ht'].
      * right. left. split; [exact Hw|]. exists t', r', p. split; [right; exact Hin|exact Hr].
      * right. right. split; [exact Hw|]. split; [exact Hd|]. exists t', p, hw, msgs, m.
        split; [right; exact Hin|exact Hr].
    + destruct H as [p [Hin [[Hw Hg]|[Hw [Hd [hw [msgs [m Hm]]]]]]]].
      * right. left. split; [exact Hw|]. exists t, r, p. split; [left; reflexivity|]. auto.
      * right. right. split; [exact Hw|]. split; [exact Hd|]. exists t, p, hw, msgs, m.
        split; [left; reflexivity|]. split; [exact Hin|exact Hm].
  - left. split; [reflexivity|]. exists t. split; [left; reflexivity|exact Et].
Qed.

(* a poll panics only for (a) a topic that is not assigned, (b) a partition that was not
   requested, (c) in debug builds, a last message offset whose successor is not an i64;
   everything else in a decoded response (extra or missing topics and partitions, error
   codes, empty sets, offsets going backwards, ...) is Ok or Err *)
Theorem C13_poll_layer_outside_known : forall dbg k n resps w,
  fst (process_fetch_responses dbg k n resps) = Panic w ->
  (w = tag "unknown topic in response" /\ poll_unknown_topic k resps)
  \/ (w = tag "non-requested partition" /\ poll_unrequested_partition k resps)
  \/ (w = overflow_tag /\ poll_offset_overflow dbg resps).
Proof.
  intros dbg k n resps w. unfold process_fetch_responses.
  destruct (first_error resps); [discriminate|].
  match goal with |- context [process_topics ?a ?b ?c ?d ?e ?f ?g ?h] =>
    pose proof (process_topics_inv a b c d e f (k_fetch k) g h) as H end.
  specialize (H ltac:(intros tp Htp; exact Htp)). revert H.
  destruct (process_topics _ _ _ _ _ _ _ _) as [s|e s|w']; cbn [fst]; try discriminate.
  intros H Hw. inversion Hw; subst w'. unfold poll_unknown_topic, poll_unrequested_partition, poll_offset_overflow.
  destruct H as [H|[H|[Hw' [Hd H]]]]; auto.
Qed.

(* and nothing else: no EOutOfFuel either *)
Corollary C13_poll_layer_no_fuel : forall dbg k n resps,
  fst (process_fetch_responses dbg k n resps) <> Err EOutOfFuel.
Proof.
  intros dbg k n resps. unfold process_fetch_responses.
  destruct (first_error resps); [discriminate|].
  destruct (process_topics _ _ _ _ _ _ _ _) as [s|e s|w'] eqn:E; cbn [fst]; try discriminate.
  intros H. inversion H; subst e. revert E.
  match goal with |- process_topics ?a ?b ?c ?d ?e ?f ?g ?h = _ -> _ => generalize h; generalize g end.
  induction l as [|t rest IH]; intros s0; cbn [process_topics]; [discriminate|].
  destruct (topic_ref _ _) as [r|]; [|discriminate].
  assert (Hp : forall ps s1 s2, process_parts dbg (ulen (k_fetch k) =? 1) n
                 (fetch_max_bytes_per_partition (cfg (k_client k))) (k_retry_limit k) r ps s1 <> PErr EOutOfFuel s2).
  { induction ps as [|p ps IHp]; intros s1 s2; cbn [process_parts]; [discriminate|].
    destruct (process_partition _ _ _ _ _ _ p s1) as [s'|e' s'|w''] eqn:Ep; [apply IHp| |discriminate].
    intros Hx. inversion Hx; subst. revert Ep. unfold process_partition.
    destruct (fp_data p) as [[hw msgs]|c]; [|discriminate].
    destruct (tk_get _ _) as [[off maxb]|]; [|discriminate].
    destruct (last_msg msgs) as [m|].
    - destruct (i64_op_cases dbg (m_offset m + 1)) as [[_ ->]|[[_ [_ ->]]|[_ [_ ->]]]]; discriminate.
    - destruct (off <? hw); [|discriminate]. destruct (maxb <? k_retry_limit k); [discriminate|].
      destruct (n =? 1); discriminate. }
  destruct (process_parts _ _ _ _ _ r (ft_partitions t) s0) as [s'|e' s'|w''] eqn:Ep; [apply IH| |discriminate].
  intros Hx. inversion Hx; subst. apply Hp in Ep. exact Ep.
Qed.

(* ---- witnesses ---- *)
Definition ex_consumer (asg : list (bytes * list Z)) (fetch : list (tpkey * (Z * Z))) : consumer :=
  {| k_client := ex_client; k_group := []; k_fallback := FbLatest; k_retry_limit := 0;
     k_assign := asg; k_fetch := fetch; k_retry := []; k_consumed := [] |}.
Definition ex_resp (t : bytes) (p : Z) (msgs : list message) : fetch_resp :=
  {| fr_corr := 1; fr_topics := [{| ft_topic := t; ft_partitions := [{| fp_partition := p; fp_data := inl (9, msgs) |}] |}] |}.
Definition ex_k : consumer := ex_consumer [(tag "tp", [0])] [((0, 0), (5, 1000))].

(* (a) the broker answers for a topic the consumer is not assigned to *)
Theorem C13_poll_layer_refuted :
  exists k resps, fst (process_fetch_responses false k 1 resps) = Panic (tag "unknown topic in response").
Proof. exists ex_k, [ex_resp (tag "other") 0 []]. vm_compute. reflexivity. Qed.
(* (b) a partition that was not requested *)
Theorem C13_poll_layer_refuted_partition :
  exists k resps, fst (process_fetch_responses false k 1 resps) = Panic (tag "non-requested partition").
Proof. exists ex_k, [ex_resp (tag "tp") 3 []]. vm_compute. reflexivity. Qed.
(* (c) debug build: last offset = i64::MAX; the release build wraps to i64::MIN *)
Theorem C13_poll_layer_refuted_overflow :
  exists k resps, fst (process_fetch_responses true k 1 resps) = Panic overflow_tag
                  /\ is_ok (fst (process_fetch_responses false k 1 resps)) = true.
Proof.
  exists ex_k, [ex_resp (tag "tp") 0 [{| m_offset := i64_max; m_key := []; m_value := [] |}]].
  vm_compute. split; reflexivity.
Qed.
(* a well-behaved answer for comparison *)
Example ex_poll_ok :
  k_fetch (snd (process_fetch_responses true ex_k 1 [ex_resp (tag "tp") 0 [{| m_offset := 5; m_key := []; m_value := [] |}]]))
  = [((0, 0), (6, DEFAULT_FETCH_MAX_BYTES_PER_PARTITION))].
Proof. vm_compute. reflexivity. Qed.

(* ====================================================================== *)
(* consumer creation: load_consumed_offsets / load_fetch_states             *)
(* ====================================================================== *)
Lemma forallb_false_ex {A} (f : A -> bool) l : forallb f l = false -> exists x, In x l /\ f x = false.
Proof.
  induction l as [|a l IH]; cbn [forallb]; [discriminate|].
  destruct (f a) eqn:Ea; cbn [andb]; intros H.
  - destruct (IH H) as [x [Hin Hx]]. exists x. split; [right; exact Hin|exact Hx].
  - exists a. split; [left; reflexivity|exact Ea].
Qed.

Lemma consumed_parts_inv dbg r : forall pos m,
  match consumed_parts dbg r pos m with
  | Ok _ => True
  | Err _ => False
  | Panic w => w = overflow_tag /\ dbg = true /\
               exists p off, In (p, off) pos /\ off <> -1 /\ ~ in_i64 (off - 1)
  end.
Proof.
  induction pos as [|[p off] rest IH]; intros m; cbn [consumed_parts]; [exact I|].
  destruct (off =? -1) eqn:Eo.
  - specialize (IH m). destruct (consumed_parts dbg r rest m) as [m'|e|w]; auto.
    destruct IH as [Hw [Hd [p' [off' [Hin Hp]]]]]. repeat split; auto. exists p', off'. split; [right; exact Hin|exact Hp].
  - destruct (i64_op_cases dbg (off - 1)) as [[_ ->]|[[_ [_ ->]]|[Hn [Hd ->]]]]; cbn [bind].
    + match goal with |- context [consumed_parts dbg r rest ?m'] => specialize (IH m') end.
      destruct (consumed_parts dbg r rest _) as [m'|e|w]; auto.
      destruct IH as [Hw [Hd [p' [off' [Hin Hp]]]]]. repeat split; auto. exists p', off'. split; [right; exact Hin|exact Hp].
    + match goal with |- context [consumed_parts dbg r rest ?m'] => specialize (IH m') end.
      destruct (consumed_parts dbg r rest _) as [m'|e|w]; auto.
      destruct IH as [Hw [Hd [p' [off' [Hin Hp]]]]]. repeat split; auto. exists p', off'. split; [right; exact Hin|exact Hp].
    + repeat split; auto. exists p, off. split; [left; reflexivity|]. split; [lia|exact Hn].
Qed.

(* the two known classes *)
Definition init_unassigned_topic (asg : list (bytes * list Z)) (tpos : list (bytes * list (Z * Z))) : Prop :=
  exists t pos p off, In (t, pos) tpos /\ In (p, off) pos /\ off <> -1 /\ topic_ref asg t = None.
Definition init_offset_underflow (dbg : bool) (tpos : list (bytes * list (Z * Z))) : Prop :=
  dbg = true /\ exists t pos p off, In (t, pos) tpos /\ In (p, off) pos /\ off <> -1 /\ ~ in_i64 (off - 1).

(* loading the committed offsets panics only for an unassigned topic that carries an
   offset <> -1, or (debug builds) an offset whose predecessor is not an i64 (i64::MIN) *)
Theorem C13_consumer_init_outside_known : forall dbg asg tpos m,
  match consumed_topics dbg asg tpos m with
  | Ok _ => True
  | Err _ => False
  | Panic w => (w = tag "non-assigned topic" /\ init_unassigned_topic asg tpos)
               \/ (w = overflow_tag /\ init_offset_underflow dbg tpos)
  end.
Proof.
  intros dbg asg. unfold init_unassigned_topic, init_offset_underflow.
  induction tpos as [|[t pos] rest IH]; intros m; cbn [consumed_topics]; [exact I|].
  assert (Hrest : forall m0, match consumed_topics dbg asg rest m0 with
    | Ok _ => True | Err _ => False
    | Panic w => (w = tag "non-assigned topic" /\
                  exists t0 pos0 p off, In (t0, pos0) ((t, pos) :: rest) /\ In (p, off) pos0 /\ off <> -1 /\ topic_ref asg t0 = None)
                 \/ (w = overflow_tag /\ dbg = true /\
                     exists t0 pos0 p off, In (t0, pos0) ((t, pos) :: rest) /\ In (p, off) pos0 /\ off <> -1 /\ ~ in_i64 (off - 1))
    end).
  { intros m0. specialize (IH m0). destruct (consumed_topics dbg asg rest m0) as [m'|e|w]; auto.
    destruct IH as [[Hw [t0 [pos0 [p [off [Hin Hp]]]]]]|[Hw [Hd [t0 [pos0 [p [off [Hin Hp]]]]]]]].
    - left. split; [exact Hw|]. exists t0, pos0, p, off. split; [right; exact Hin|exact Hp].
    - right. split; [exact Hw|]. split; [exact Hd|]. exists t0, pos0, p, off. split; [right; exact Hin|exact Hp]. }
  destruct pos as [|po pos']; [apply Hrest|]. set (pos := po :: pos') in *.
  destruct (forallb (fun '(_, off) => off =? -1) pos) eqn:Ef; [apply Hrest|].
  destruct (forallb_false_ex _ _ Ef) as [[p off] [Hin Hoff]].
  destruct (topic_ref asg t) as [r|] eqn:Et.
  - pose proof (consumed_parts_inv dbg r pos m) as Hp. revert Hp.
    destruct (consumed_parts dbg r pos m) as [m'|e|w]; cbn [bind]; [intros _; apply Hrest|auto|].
    intros [Hw [Hd [p' [off' [Hin' Hp']]]]]. right. split; [exact Hw|]. split; [exact Hd|].
    exists t, pos, p', off'. split; [left; reflexivity|]. split; [exact Hin'|exact Hp'].
  - left. split; [reflexivity|]. exists t, pos, p, off. split; [left; reflexivity|]. split; [exact Hin|]. split; [lia|exact Et].
Qed.

Theorem C13_consumer_init_refuted :
  exists asg tpos, consumed_topics false asg tpos [] = Panic (tag "non-assigned topic").
Proof. exists [(tag "tp", [0])], [(tag "other", [(0, 5)])]. vm_compute. reflexivity. Qed.
Theorem C13_consumer_init_refuted_underflow :
  exists asg tpos, consumed_topics true asg tpos [] = Panic overflow_tag
                   /\ is_ok (consumed_topics false asg tpos []) = true.
Proof. exists [(tag "tp", [0])], [(tag "tp", [(0, i64_min)])]. vm_compute. split; reflexivity. Qed.
(* an unassigned topic whose offsets are all -1 is ignored *)
Example ex_init_ignored :
  consumed_topics true [(tag "tp", [0])] [(tag "other", [(0, -1)]); (tag "tp", [(0, 5); (9, -1)])] []
  = Ok [((0, 0), (4, false))].
Proof. vm_compute. reflexivity. Qed.

(* ---- fetch states ------------------------------------------------------------------------------- *)
Definition subs_assigned (asg subs : list (bytes * list Z)) : Prop :=
  forall t ps, In (t, ps) subs -> topic_ref asg t <> None.

Theorem C13_fallback_states_total : forall asg offsets maxb subs acc,
  subs_assigned asg subs ->
  match fallback_states asg offsets maxb subs acc with
  | Ok _ => True | Err e => e <> EOutOfFuel | Panic _ => False end.
Proof.
  intros asg offsets maxb. induction subs as [|[t ps] rest IH]; intros acc Hs; cbn [fallback_states]; [exact I|].
  destruct (topic_ref asg t) as [r|] eqn:Et; [|exfalso; apply (Hs t ps); [left; reflexivity|exact Et]].
  destruct (assoc_bytes t offsets) as [offs|]; [|discriminate].
  apply IH. intros t' ps' Hin. apply (Hs t' ps'). right. exact Hin.
Qed.

(* the successor of every consumed offset is an i64 (needed in debug builds only) *)
Definition consumed_in_range (consumed : list (tpkey * (Z * bool))) : Prop :=
  forall key o b, tk_get key consumed = Some (o, b) -> in_i64 (o + 1).

Lemma range_parts_inv dbg fb consumed latest earliest maxb t r : forall ps acc,
  match range_parts dbg fb consumed latest earliest maxb t r ps acc with
  | Ok _ => True
  | Err e => e <> EOutOfFuel
  | Panic w => w = overflow_tag /\ dbg = true /\
               exists p o b, In p ps /\ tk_get (r, p) consumed = Some (o, b) /\ ~ in_i64 (o + 1)
  end.
Proof.
  induction ps as [|p rest IH]; intros acc; cbn [range_parts]; [exact I|].
  unfold start_offset.
  set (fbk := match fb with FbLatest => Ok (lookup_off latest t p) | FbEarliest => Ok (lookup_off earliest t p)
                          | FbByTime _ => Err (EKafka KC_Unknown) end).
  assert (Hfbk : forall acc0,
    match (let* off := fbk in range_parts dbg fb consumed latest earliest maxb t r rest (tk_set (r, p) (off, maxb) acc0)) with
    | Ok _ => True | Err e => e <> EOutOfFuel
    | Panic w => w = overflow_tag /\ dbg = true /\
                 exists p0 o b, In p0 (p :: rest) /\ tk_get (r, p0) consumed = Some (o, b) /\ ~ in_i64 (o + 1) end).
  { intros acc0. assert (Hk : forall off, match range_parts dbg fb consumed latest earliest maxb t r rest (tk_set (r, p) (off, maxb) acc0) with
      | Ok _ => True | Err e => e <> EOutOfFuel
      | Panic w => w = overflow_tag /\ dbg = true /\
                   exists p0 o b, In p0 (p :: rest) /\ tk_get (r, p0) consumed = Some (o, b) /\ ~ in_i64 (o + 1) end).
    { intros off. specialize (IH (tk_set (r, p) (off, maxb) acc0)).
      destruct (range_parts dbg fb consumed latest earliest maxb t r rest _) as [a|e|w]; auto.
      destruct IH as [Hw [Hd [p0 [o [b [Hin Hp]]]]]]. repeat split; auto. exists p0, o, b. split; [right; exact Hin|exact Hp]. }
    unfold fbk. destruct fb; cbn [bind]; try apply Hk. discriminate. }
  destruct (tk_get (r, p) consumed) as [[o b]|] eqn:Eg; [|apply Hfbk].
  destruct (i64_op_cases dbg (o + 1)) as [[_ ->]|[[_ [_ ->]]|[Hn [Hd ->]]]]; cbn [bind].
  - destruct ((lookup_off earliest t p <=? o + 1) && (o <? lookup_off latest t p)); [|apply Hfbk].
    cbn [bind]. match goal with |- context [range_parts _ _ _ _ _ _ _ _ rest ?a] => specialize (IH a) end.
    destruct (range_parts dbg fb consumed latest earliest maxb t r rest _) as [a|e|w]; auto.
    destruct IH as [Hw [Hd [p0 [o0 [b0 [Hin Hp]]]]]]. repeat split; auto. exists p0, o0, b0. split; [right; exact Hin|exact Hp].
  - destruct ((lookup_off earliest t p <=? wrap_s 64 (o + 1)) && (o <? lookup_off latest t p)); [|apply Hfbk].
    cbn [bind]. match goal with |- context [range_parts _ _ _ _ _ _ _ _ rest ?a] => specialize (IH a) end.
    destruct (range_parts dbg fb consumed latest earliest maxb t r rest _) as [a|e|w]; auto.
    destruct IH as [Hw [Hd [p0 [o0 [b0 [Hin Hp]]]]]]. repeat split; auto. exists p0, o0, b0. split; [right; exact Hin|exact Hp].
  - repeat split; auto. exists p, o, b. split; [left; reflexivity|]. split; [exact Eg|exact Hn].
Qed.

Theorem C13_range_states_outside_known : forall dbg fb asg consumed latest earliest maxb subs acc,
  match range_states dbg fb asg consumed latest earliest maxb subs acc with
  | Ok _ => True
  | Err e => e <> EOutOfFuel
  | Panic w => (w = tag "unassigned subscription" /\ ~ subs_assigned asg subs)
               \/ (w = overflow_tag /\ dbg = true /\ ~ consumed_in_range consumed)
  end.
Proof.
  intros dbg fb asg consumed latest earliest maxb.
  induction subs as [|[t ps] rest IH]; intros acc; cbn [range_states]; [exact I|].
  destruct (topic_ref asg t) as [r|] eqn:Et.
  - pose proof (range_parts_inv dbg fb consumed latest earliest maxb t r ps acc) as Hp. revert Hp.
    destruct (range_parts dbg fb consumed latest earliest maxb t r ps acc) as [acc'|e|w]; cbn [bind]; auto.
    + intros _. specialize (IH acc').
      destruct (range_states dbg fb asg consumed latest earliest maxb rest acc') as [a|e|w]; auto.
      destruct IH as [[Hw Hn]|H]; [left|right; exact H]. split; [exact Hw|].
      intros Hs. apply Hn. intros t' ps' Hin. apply (Hs t' ps'). right. exact Hin.
    + intros [Hw [Hd [p [o [b [_ [Hg Hn]]]]]]]. right. repeat split; auto.
      intros Hc. apply Hn. apply (Hc _ _ _ Hg).
  - left. split; [reflexivity|]. intros Hs. apply (Hs t ps); [left; reflexivity|exact Et].
Qed.

(* ... and the consumed offsets that load_consumed_offsets produces are in that range
   whenever the committed offsets came off the wire (are i64) *)
Lemma tk_get_set_some {V} (key key' : tpkey) (v x : V) m :
  tk_get key (tk_set key' v m) = Some x -> x = v \/ tk_get key m = Some x.
Proof.
  induction m as [|[k0 v0] m IH]; cbn [tk_set tk_get].
  - destruct (tpkey_eqb key' key); [intros H; inversion H; auto|discriminate].
  - destruct (tpkey_eqb k0 key') eqn:E1; cbn [tk_get]; destruct (tpkey_eqb k0 key) eqn:E2; auto.
    intros H; inversion H; auto.
Qed.

Lemma consumed_parts_range r : forall pos m m',
  (forall p off, In (p, off) pos -> in_i64 off) -> consumed_in_range m ->
  consumed_parts true r pos m = Ok m' -> consumed_in_range m'.
Proof.
  induction pos as [|[p off] rest IH]; intros m m' Hpos Hm; cbn [consumed_parts].
  - intros H; inversion H; subst; exact Hm.
  - assert (Hrest : forall p0 off0, In (p0, off0) rest -> in_i64 off0) by (intros p0 off0 Hin; apply (Hpos p0 off0); right; exact Hin).
    destruct (off =? -1); [apply IH; assumption|].
    destruct (i64_op_cases true (off - 1)) as [[Hi ->]|[[_ [Hd _]]|[_ [_ ->]]]]; cbn [bind]; [|discriminate|discriminate].
    apply IH; [assumption|]. intros key o b Hg. apply tk_get_set_some in Hg. destruct Hg as [Hg|Hg].
    + inversion Hg; subst. replace (off - 1 + 1) with off by lia. apply (Hpos p off). left; reflexivity.
    + apply (Hm _ _ _ Hg).
Qed.

Lemma consumed_topics_range asg : forall tpos m m',
  (forall t pos p off, In (t, pos) tpos -> In (p, off) pos -> in_i64 off) -> consumed_in_range m ->
  consumed_topics true asg tpos m = Ok m' -> consumed_in_range m'.
Proof.
  induction tpos as [|[t pos] rest IH]; intros m m' Hpos Hm; cbn [consumed_topics].
  - intros H; inversion H; subst; exact Hm.
  - assert (Hrest : forall t0 pos0 p off, In (t0, pos0) rest -> In (p, off) pos0 -> in_i64 off)
      by (intros t0 pos0 p off Hin; apply (Hpos t0 pos0 p off); right; exact Hin).
    destruct pos as [|po pos']; [apply IH; assumption|]. set (pos := po :: pos') in *.
    destruct (forallb _ pos); [apply IH; assumption|].
    destruct (topic_ref asg t) as [r|]; [|discriminate].
    destruct (consumed_parts true r pos m) as [m1|e|w] eqn:Ec; cbn [bind]; [|discriminate|discriminate].
    apply IH; [assumption|]. apply (consumed_parts_range r pos m m1); [|exact Hm|exact Ec].
    intros p off Hin. apply (Hpos t pos p off); [left; reflexivity|exact Hin].
Qed.

(* so: once load_consumed_offsets has succeeded, load_fetch_states cannot panic as long as
   every subscription topic is assigned (subscriptions_of copies the topics of asg) *)
Theorem C13_consumer_init_states_total : forall dbg fb asg tpos consumed offsets latest earliest maxb subs,
  (forall t pos p off, In (t, pos) tpos -> In (p, off) pos -> in_i64 off) ->
  consumed_topics dbg asg tpos [] = Ok consumed ->
  subs_assigned asg subs ->
  no_panic (fallback_states asg offsets maxb subs [])
  /\ no_panic (range_states dbg fb asg consumed latest earliest maxb subs []).
Proof.
  intros dbg fb asg tpos consumed offsets latest earliest maxb subs Hw Hc Hs. split.
  - pose proof (C13_fallback_states_total asg offsets maxb subs [] Hs) as H. revert H.
    destruct (fallback_states asg offsets maxb subs []) as [a|e|w]; cbn [no_panic]; auto. destruct e; auto.
  - pose proof (C13_range_states_outside_known dbg fb asg consumed latest earliest maxb subs []) as H. revert H.
    destruct (range_states dbg fb asg consumed latest earliest maxb subs []) as [a|e|w]; cbn [no_panic]; auto.
    + destruct e; auto.
    + intros [[_ Hn]|[_ [Hd Hn]]]; [apply Hn; exact Hs|]. subst dbg. apply Hn.
      apply (consumed_topics_range asg tpos [] consumed Hw); [|exact Hc]. intros key o b Hg. discriminate.
Qed.

Lemma subscriptions_of_topics s : forall asg subs,
  subscriptions_of s asg = Ok subs -> map fst subs = map fst asg.
Proof.
  induction asg as [|a r IH]; intros subs; cbn [subscriptions_of].
  - intros H; inversion H; reflexivity.
  - destruct (determine_partitions s a) as [ps|e|w]; cbn [bind]; try discriminate.
    destruct (subscriptions_of s r) as [rest|e|w]; cbn [bind]; try discriminate.
    intros H; inversion H; subst. cbn [map fst]. f_equal. apply IH. reflexivity.
Qed.

Example ex_states_total :
  let asg := from_map [(tag "b", [1; 0]); (tag "a", [])] in
  let subs := [(tag "a", [0; 1]); (tag "b", [0; 1])] in
  let tpos := [(tag "a", [(0, 5); (1, -1)]); (tag "b", [(1, i64_max)])] in
  forallb (fun '(t, _) => match topic_ref asg t with Some _ => true | None => false end) subs = true
  /\ consumed_topics true asg tpos [] = Ok [((0, 0), (4, false)); ((1, 1), (i64_max - 1, false))]
  /\ is_ok (range_states true FbLatest asg [((0, 0), (4, false)); ((1, 1), (i64_max - 1, false))]
                         [(tag "a", [(0, 9)])] [(tag "a", [(0, 0)])] 100 subs []) = true
  (* a consumed offset of i64::MAX, which load_consumed_offsets never produces in a debug build *)
  /\ range_states true FbLatest asg [((0, 0), (i64_max, false))] [] [] 100 subs [] = Panic overflow_tag.
Proof. vm_compute. repeat split; reflexivity. Qed.

(* ====================================================================== *)
(* the I/O monad: which operations can panic at all                        *)
(* ====================================================================== *)
Definition npb {A} (r : res A) : Prop := match r with Panic _ => False | _ => True end.
Definition mnp {A} (m : M A) : Prop := forall s, npb (fst (m s)).

Lemma npb_bind {A B} (r : res A) (f : A -> res B) : npb r -> (forall a, npb (f a)) -> npb (bind r f).
Proof. destruct r as [a|e|w]; cbn [bind npb]; auto. Qed.
Lemma no_panic_npb {A} (r : res A) : no_panic r -> npb r.
Proof. destruct r; cbn; auto. Qed.

Lemma mnp_ret {A} (a : A) : mnp (ret a). Proof. intros s. exact I. Qed.
Lemma mnp_fail {A} e : mnp (@fail A e). Proof. intros s. exact I. Qed.
Lemma mnp_lift {A} (r : res A) : npb r -> mnp (lift r). Proof. intros H s. exact H. Qed.
Lemma mnp_bind {A B} (m : M A) (f : A -> M B) : mnp m -> (forall a, mnp (f a)) -> mnp (mbind m f).
Proof.
  intros Hm Hf s. unfold mbind. specialize (Hm s). destruct (m s) as [[a|e|w] s']; cbn [fst npb] in *; auto.
  apply Hf.
Qed.
Lemma mnp_mtry {A} (m : M A) : mnp m -> mnp (mtry m).
Proof. intros Hm s. unfold mtry. specialize (Hm s). destruct (m s) as [[a|e|w] s']; cbn [fst npb] in *; auto. Qed.
Lemma mnp_with_fuel {A} (f : nat -> M A) : (forall n, mnp (f n)) -> mnp (with_fuel f).
Proof. intros H s. apply H. Qed.
Lemma mnp_io op : mnp (io op).
Proof. intros s. unfold io. destruct (script s); exact I. Qed.
Lemma mnp_get_client : mnp get_client. Proof. intros s. exact I. Qed.
Lemma mnp_set_client c : mnp (set_client c). Proof. intros s. exact I. Qed.
Lemma mnp_get_env : mnp get_env. Proof. intros s. exact I. Qed.
Lemma mnp_pop_any : mnp pop_any. Proof. intros s. unfold pop_any. destruct (anyq s); exact I. Qed.
Lemma mnp_pop_hosts : mnp pop_hosts. Proof. intros s. unfold pop_hosts. destruct (hostq s); exact I. Qed.
Lemma mnp_get_fetch_order h : mnp (get_fetch_order h). Proof. intros s. exact I. Qed.

Create HintDb mnp discriminated.
#[export] Hint Resolve mnp_ret mnp_fail mnp_io mnp_get_client mnp_set_client mnp_get_env mnp_pop_any
  mnp_pop_hosts mnp_get_fetch_order : mnp.

Ltac mnp_step :=
  first
    [ solve [eauto with mnp]
    | apply mnp_bind; [|intros ?]
    | apply mnp_with_fuel; intros ?
    | match goal with
      | |- mnp (match ?x with _ => _ end) => destruct x
      | |- mnp (if ?b then _ else _) => destruct b
      | |- mnp (let '(_, _) := ?x in _) => destruct x
      end ].
Ltac mnp_tac := repeat mnp_step.

Lemma mnp_set_cs x : mnp (set_cs x). Proof. unfold set_cs. mnp_tac. Qed.
Lemma mnp_set_conns x : mnp (set_conns x). Proof. unfold set_conns. mnp_tac. Qed.
#[export] Hint Resolve mnp_set_cs mnp_set_conns : mnp.

Lemma mnp_write_all h : forall fuel buf, mnp (write_all fuel h buf).
Proof.
  induction fuel as [|f IH]; intros buf; destruct buf as [|b buf]; cbn [write_all]; mnp_tac; try apply IH.
Qed.
Lemma mnp_read_exact h : forall fuel n acc, mnp (read_exact fuel h n acc).
Proof.
  induction fuel as [|f IH]; intros n acc; cbn [read_exact]; mnp_tac; try apply IH.
Qed.
#[export] Hint Resolve mnp_write_all mnp_read_exact : mnp.
Lemma mnp_read_chunks h : forall fuel remaining acc, mnp (read_chunks fuel h remaining acc).
Proof.
  induction fuel as [|f IH]; intros remaining acc; cbn [read_chunks]; mnp_tac; cbv zeta; mnp_tac; try apply IH.
Qed.
#[export] Hint Resolve mnp_read_chunks : mnp.

Lemma mnp_send h msg : mnp (send h msg). Proof. unfold send. mnp_tac. Qed.
Lemma mnp_read_exact_alloc h size : mnp (read_exact_alloc h size). Proof. unfold read_exact_alloc. mnp_tac. Qed.
Lemma mnp_get_response_size h : mnp (get_response_size h).
Proof. unfold get_response_size. mnp_tac; cbv zeta; mnp_tac. Qed.
Lemma mnp_new_conn h : mnp (new_conn h). Proof. unfold new_conn. mnp_tac. Qed.
Lemma mnp_shutdown h : mnp (shutdown h). Proof. unfold shutdown. mnp_tac. Qed.
#[export] Hint Resolve mnp_send mnp_read_exact_alloc mnp_get_response_size mnp_new_conn mnp_shutdown : mnp.
Lemma mnp_get_conn h : mnp (get_conn h). Proof. unfold get_conn. mnp_tac. Qed.
Lemma mnp_get_conn_any : mnp get_conn_any.
Proof. unfold get_conn_any. mnp_tac; cbv zeta; mnp_tac; apply mnp_mtry; mnp_tac. Qed.
Lemma mnp_send_request h payload : npb payload -> mnp (send_request h payload).
Proof. intros H. unfold send_request. apply mnp_bind; [apply mnp_lift; exact H|intros p; mnp_tac]. Qed.
Lemma mnp_get_response_bytes h : mnp (get_response_bytes h). Proof. unfold get_response_bytes. mnp_tac. Qed.
#[export] Hint Resolve mnp_get_conn mnp_get_conn_any mnp_get_response_bytes : mnp.
Lemma mnp_get_response {A} (d : dec A) h : (forall b, npb (d b)) -> mnp (get_response d h).
Proof.
  intros H. unfold get_response. apply mnp_bind; [mnp_tac|]. intros b.
  apply mnp_bind; [apply mnp_lift, H|]. intros [a r]. mnp_tac.
Qed.
Lemma mnp_send_receive {A} (d : dec A) h payload :
  (forall b, npb (d b)) -> npb payload -> mnp (send_receive d h payload).
Proof.
  intros Hd Hp. unfold send_receive. apply mnp_bind; [mnp_tac|]. intros _.
  apply mnp_bind; [apply mnp_send_request; exact Hp|]. intros _. apply mnp_get_response. exact Hd.
Qed.
Lemma mnp_next_corr : mnp next_corr. Proof. unfold next_corr. mnp_tac. Qed.
Lemma mnp_ordered {V} (reqs : list (bytes * V)) : mnp (ordered reqs). Proof. unfold ordered. mnp_tac. Qed.
#[export] Hint Resolve mnp_next_corr mnp_ordered : mnp.

(* the request encoders used below never panic *)
Lemma npb_enc_str s : npb (enc_str s). Proof. unfold enc_str. destruct (_ <=? _); exact I. Qed.
Lemma npb_enc_bytes s : npb (enc_bytes s). Proof. unfold enc_bytes. destruct (_ <=? _); exact I. Qed.
Lemma npb_enc_opt_bytes o : npb (enc_opt_bytes o).
Proof. destruct o; cbn [enc_opt_bytes]; [apply npb_enc_bytes|exact I]. Qed.
Lemma npb_enc_all {A} (f : A -> res bytes) xs : (forall x, npb (f x)) -> npb (enc_all f xs).
Proof.
  intros Hf. induction xs as [|x r IH]; cbn [enc_all]; [exact I|].
  apply npb_bind; [apply Hf|]. intros a. apply npb_bind; [exact IH|]. intros b. exact I.
Qed.
Lemma npb_enc_array {A} (f : A -> res bytes) xs : (forall x, npb (f x)) -> npb (enc_array f xs).
Proof.
  intros Hf. unfold enc_array. destruct (_ <=? _); [|exact I].
  apply npb_bind; [apply npb_enc_all; exact Hf|]. intros b. exact I.
Qed.
Lemma npb_enc_array_unchecked {A} (f : A -> res bytes) xs : (forall x, npb (f x)) -> npb (enc_array_unchecked f xs).
Proof. intros Hf. unfold enc_array_unchecked. apply npb_bind; [apply npb_enc_all; exact Hf|]. intros b. exact I. Qed.
Lemma npb_enc_header key ver corr cid : npb (enc_header key ver corr cid).
Proof. unfold enc_header. apply npb_bind; [apply npb_enc_str|]. intros c. exact I. Qed.
Lemma npb_enc_message mg attr m : npb (enc_message mg attr m).
Proof.
  unfold enc_message. apply npb_bind; [apply npb_enc_opt_bytes|]. intros k.
  apply npb_bind; [apply npb_enc_opt_bytes|]. intros v. exact I.
Qed.
Lemma npb_enc_partition_produce cz compression p ms : npb (enc_partition_produce cz compression p ms).
Proof.
  unfold enc_partition_produce. apply npb_bind; [apply npb_enc_all; intros x; apply npb_enc_message|]. intros buf.
  apply npb_bind.
  - destruct (_ =? _); [exact I|]. destruct (_ =? _); apply npb_enc_message.
  - intros buf'. apply npb_bind; [apply npb_enc_bytes|]. intros b. exact I.
Qed.
Lemma npb_enc_produce_req cz corr cid acks timeout compression tps :
  npb (enc_produce_req cz corr cid acks timeout compression tps).
Proof.
  unfold enc_produce_req. apply npb_bind; [apply npb_enc_header|]. intros h.
  apply npb_bind; [|intros b; exact I]. apply npb_enc_array. intros [t ps].
  apply npb_bind; [apply npb_enc_str|]. intros n.
  apply npb_bind; [|intros b; exact I]. apply npb_enc_array_unchecked. intros [p ms].
  apply npb_enc_partition_produce.
Qed.
Lemma npb_enc_group_coordinator_req corr cid group : npb (enc_group_coordinator_req corr cid group).
Proof.
  unfold enc_group_coordinator_req. apply npb_bind; [apply npb_enc_header|]. intros h.
  apply npb_bind; [apply npb_enc_str|]. intros g. exact I.
Qed.

(* ====================================================================== *)
(* Producer::send                                                          *)
(* ====================================================================== *)
Lemma mnp_produce_exchange corr acks timeout : forall reqs acc, mnp (produce_exchange corr acks timeout reqs acc).
Proof.
  induction reqs as [|[h tps] r IH]; intros acc; cbn [produce_exchange]; [mnp_tac|].
  apply mnp_bind; [mnp_tac|]. intros c. apply mnp_bind; [mnp_tac|]. intros e. cbv zeta.
  destruct (acks =? 0).
  - apply mnp_bind; [mnp_tac|]. intros _.
    apply mnp_bind; [apply mnp_send_request, npb_enc_produce_req|]. intros _. apply IH.
  - apply mnp_bind.
    + apply mnp_send_receive; [|apply npb_enc_produce_req]. intros b. apply no_panic_npb, C13_decode_produce.
    + intros [cr rtps]. apply IH.
Qed.

Lemma mnp_producer_send_all p recs : mnp (producer_send_all p recs).
Proof.
  unfold producer_send_all. apply mnp_bind; [mnp_tac|]. intros corr.
  apply mnp_bind; [mnp_tac|]. intros c.
  destruct (send_all_reqs _ _ _ _ _) as [oreqs cntr']. cbv zeta.
  destruct oreqs as [reqs|]; [|intros s; exact I].
  apply mnp_bind; [mnp_tac|]. intros reqs'.
  apply mnp_bind; [apply mnp_produce_exchange|]. intros cf. mnp_tac.
Qed.

(* what send() insists on: exactly one topic with exactly one partition confirmation *)
Definition send_confirms_bad (cf : list confirm) : Prop := ~ exists t p x, cf = [(t, [(p, x)])].

Lemma producer_send_panic p r s w :
  fst (producer_send p r s) = Panic w ->
  p_acks p <> 0 /\
  exists cf p' s1, producer_send_all p [r] s = (Ok (cf, p'), s1) /\ send_confirms_bad cf
                   /\ (w = tag "assertion failed: rs.len() == 1"
                       \/ w = tag "assertion failed: partition_confirms.len() == 1").
Proof.
  unfold producer_send, mbind. pose proof (mnp_producer_send_all p [r] s) as Hn. revert Hn.
  destruct (producer_send_all p [r] s) as [[[cf p']|e|w'] s1]; cbn [fst npb]; intros Hn; try discriminate; [|contradiction].
  destruct (p_acks p =? 0) eqn:Ea; [discriminate|]. intros H. split; [lia|].
  exists cf, p', s1. split; [reflexivity|].
  destruct cf as [|[t pcs] [|c2 cf']].
  - split; [intros [t [p0 [x Hx]]]; discriminate|]. inversion H. left. reflexivity.
  - destruct pcs as [|[p0 x] [|pc2 pcs']].
    + split; [intros [t' [p1 [x' Hx]]]; discriminate|]. inversion H. right. reflexivity.
    + destruct x; discriminate.
    + split; [intros [t' [p1 [x' Hx]]]; discriminate|]. destruct x; inversion H; right; reflexivity.
  - split; [intros [t' [p1 [x' Hx]]]; discriminate|]. inversion H. left. reflexivity.
Qed.

(* ---- tie the confirmations to the one produce response that was received ---------------------- *)
Lemma reorder_nil {V} (o : list bytes) : @reorder V o [] = [].
Proof. induction o as [|k ks IH]; cbn [reorder take_key]; auto. Qed.
Lemma reorder_single {V} (o : list bytes) (x : bytes * V) : reorder o [x] = [x].
Proof.
  induction o as [|k ks IH]; [reflexivity|]. destruct x as [k' v]. cbn [reorder take_key].
  destruct (bytes_eqb k' k); [rewrite reorder_nil; reflexivity|exact IH].
Qed.

Lemma produce_exchange_single corr acks timeout h tps s cf s1 :
  acks <> 0 -> produce_exchange corr acks timeout [(h, tps)] [] s = (Ok cf, s1) ->
  exists payload c rtps, send_receive dec_produce_resp h payload s = (Ok (c, rtps), s1)
     /\ cf = map (fun '(t, ps) => (t, map produce_confirm ps)) rtps.
Proof.
  intros Ha. cbn [produce_exchange]. unfold mbind at 1 2. unfold get_client, get_env. cbv beta iota zeta.
  destruct (acks =? 0) eqn:E; [lia|]. unfold mbind.
  match goal with |- context [send_receive dec_produce_resp h ?pl s] => set (payload := pl) end.
  destruct (send_receive dec_produce_resp h payload s) as [[[c rtps]|e|w] s'] eqn:Es; intros H; try discriminate.
  unfold ret in H. inversion H; subst. exists payload, c, rtps. split; [exact Es|reflexivity].
Qed.

Lemma producer_send_all_single p r s cf p' s1 :
  p_acks p <> 0 -> producer_send_all p [r] s = (Ok (cf, p'), s1) ->
  exists h payload s0 c rtps, send_receive dec_produce_resp h payload s0 = (Ok (c, rtps), s1)
     /\ cf = map (fun '(t, ps) => (t, map produce_confirm ps)) rtps.
Proof.
  intros Ha. unfold producer_send_all. unfold mbind at 1.
  destruct (next_corr s) as [[corr|e|w] sa]; try discriminate.
  unfold mbind at 1. unfold get_client at 1. cbv beta iota.
  cbn [send_all_reqs]. destruct (partition _ _ _ _ _) as [pt cntr'].
  destruct (find_broker (cs (cl sa)) (r_topic r) pt) as [host|]; [|discriminate].
  cbn [phost_add]. cbv zeta. unfold ordered, mbind at 1 2.
  destruct (pop_hosts sa) as [[o|e|w] sb] eqn:Ep; try discriminate.
  unfold ret at 1. cbv beta iota. rewrite reorder_single.
  unfold mbind.
  match goal with |- context [produce_exchange corr (p_acks p) (p_ack_timeout p) ?rq [] sb] => set (reqs := rq) end.
  destruct (produce_exchange corr (p_acks p) (p_ack_timeout p) reqs [] sb) as [[cf0|e|w] sc] eqn:Ex; try discriminate.
  unfold ret. intros H. inversion H; subst. subst reqs.
  destruct (produce_exchange_single _ _ _ _ _ _ _ _ Ha Ex) as [payload [c [rtps [Hs Hc]]]].
  exists host, payload, sb, c, rtps. split; assumption.
Qed.

(* the known class: the decoded produce response is not "one topic with one partition" *)
Definition produce_resp_shape_bad (rtps : list (bytes * list produce_part)) : Prop :=
  ~ exists t pp, rtps = [(t, [pp])].

Theorem C13_producer_send_outside_known : forall p r s w,
  fst (producer_send p r s) = Panic w ->
  p_acks p <> 0 /\
  exists h payload s0 c rtps s1,
    send_receive dec_produce_resp h payload s0 = (Ok (c, rtps), s1)    (* what the broker answered *)
    /\ produce_resp_shape_bad rtps
    /\ (w = tag "assertion failed: rs.len() == 1"
        \/ w = tag "assertion failed: partition_confirms.len() == 1").
Proof.
  intros p r s w H. destruct (producer_send_panic p r s w H) as [Ha [cf [p' [s1 [Hall [Hbad Hw]]]]]].
  split; [exact Ha|].
  destruct (producer_send_all_single p r s cf p' s1 Ha Hall) as [h [payload [s0 [c [rtps [Hs Hc]]]]]].
  exists h, payload, s0, c, rtps, s1. split; [exact Hs|]. split; [|exact Hw].
  intros [t [pp Hr]]. apply Hbad. subst rtps cf. cbn [map].
  exists t, (fst (produce_confirm pp)), (snd (produce_confirm pp)). destruct (produce_confirm pp); reflexivity.
Qed.

(* witness: the broker answers the produce request with "no topics" *)
Definition ex_cs : cstate :=
  {| correlation := 0; brokers := [{| b_node := 1; b_host := tag "h:1" |}];
     topic_partitions := [(tag "tp", [0])]; group_coordinators := [] |}.
Definition ex_client_md : client := {| cfg := default_config [tag "h:1"]; cs := ex_cs; conns := [] |}.
Definition ex_producer : producer :=
  {| p_client := ex_client_md; p_parts := producer_state ex_cs; p_cntr := 0; p_ack_timeout := 1000; p_acks := 1 |}.
Definition ex_record : record := {| r_topic := tag "tp"; r_partition := 0; r_key := []; r_value := tag "v" |}.
Definition ex_send_script (resp : bytes) : list ev_out :=
  [OConn true; OWrote 1000; OData (enc_i32 (ulen resp)); OData resp].

Theorem C13_producer_send_refuted :
  exists p r s, fst (producer_send p r s) = Panic (tag "assertion failed: rs.len() == 1").
Proof.
  exists ex_producer, ex_record, (ex_st (ex_send_script (enc_i32 1 ++ enc_i32 0)) ex_client_md false).
  vm_compute. reflexivity.
Qed.
(* one topic, two partitions; and the well-formed answer for comparison *)
Example ex_send_two_partitions :
  fst (producer_send ex_producer ex_record
         (ex_st (ex_send_script (enc_i32 1 ++ enc_i32 1 ++ enc_i16 2 ++ tag "tp" ++ enc_i32 2
                                 ++ (enc_i32 0 ++ enc_i16 0 ++ enc_i64 5) ++ (enc_i32 1 ++ enc_i16 0 ++ enc_i64 6)))
                ex_client_md false))
  = Panic (tag "assertion failed: partition_confirms.len() == 1").
Proof. vm_compute. reflexivity. Qed.
Example ex_send_ok :
  is_ok (fst (producer_send ex_producer ex_record
         (ex_st (ex_send_script (enc_i32 1 ++ enc_i32 1 ++ enc_i16 2 ++ tag "tp" ++ enc_i32 1
                                 ++ (enc_i32 0 ++ enc_i16 0 ++ enc_i64 5)))
                ex_client_md false))) = true.
Proof. vm_compute. reflexivity. Qed.
(* an answer about a different topic and partition is accepted as long as the shape is 1 x 1 *)
Example ex_send_other_topic :
  is_ok (fst (producer_send ex_producer ex_record
         (ex_st (ex_send_script (enc_i32 99 ++ enc_i32 1 ++ enc_i16 1 ++ tag "x" ++ enc_i32 1
                                 ++ (enc_i32 7 ++ enc_i16 0 ++ enc_i64 5)))
                ex_client_md false))) = true.
Proof. vm_compute. reflexivity. Qed.

(* ====================================================================== *)
(* group coordinator lookup                                                *)
(* ====================================================================== *)
Lemma group_lookup_panic req s w :
  npb req -> fst (group_lookup_attempt req s) = Panic w ->
  w = tag "available connection" /\ fst (get_conn_any s) = Ok None.
Proof.
  intros Hreq. unfold group_lookup_attempt, mbind at 1.
  pose proof (mnp_get_conn_any s) as Hn. revert Hn.
  destruct (get_conn_any s) as [[[h|]|e|w'] s1]; cbn [fst npb]; intros Hn; try discriminate; [|auto|contradiction].
  - intros H. exfalso.
    assert (Hm : mnp (let+ _ := send_request h req in get_response dec_coordinator_resp h)).
    { apply mnp_bind; [apply mnp_send_request; exact Hreq|]. intros _. apply mnp_get_response.
      intros b. apply no_panic_npb, C13_decode_coordinator. }
    specialize (Hm s1). rewrite H in Hm. exact Hm.
  - unfold mpanic. cbn [fst]. intros H. inversion H. auto.
Qed.

(* when does get_conn_any come back empty-handed *)
Lemma get_conn_any_none s :
  fst (get_conn_any s) = Ok None ->
  conns (cl s) = [] \/ (idle_expired (cfg (cl s)) = true /\ conns (cl s) <> []).
Proof.
  unfold get_conn_any, mbind at 1. unfold get_client. cbv beta iota.
  destruct (conns (cl s)) as [|first rest] eqn:Ec; [auto|]. intros H. right. split; [|discriminate].
  destruct (idle_expired (cfg (cl s))) eqn:Ei; [reflexivity|]. exfalso. revert H.
  unfold mbind. destruct (pop_any s) as [[pick|e|w] s1]; cbn [fst]; try discriminate.
Qed.

(* The requested statement ("only when the pool is empty") holds when the idle timeout is
   not zero ... *)
Theorem C13_group_lookup_outside_known : forall req s w,
  npb req -> idle_expired (cfg (cl s)) = false ->
  fst (group_lookup_attempt req s) = Panic w ->
  w = tag "available connection" /\ conns (cl s) = [].
Proof.
  intros req s w Hreq Hidle H. destruct (group_lookup_panic req s w Hreq H) as [Hw Hn].
  split; [exact Hw|]. destruct (get_conn_any_none s Hn) as [Hc|[Hi _]]; [exact Hc|congruence].
Qed.

(* ... in general there is a second way: every pooled connection has reached the idle
   timeout (modelled: idle_timeout = 0) and re-connecting fails, so get_conn_any returns
   None although the pool is not empty.  Not a broker *reply*, but a broker that refuses
   connections at that moment. *)
Definition lookup_no_connection (s : st) : Prop :=
  conns (cl s) = [] \/ (idle_expired (cfg (cl s)) = true /\ conns (cl s) <> [] /\ fst (get_conn_any s) = Ok None).

Theorem C13_group_lookup_outside_known_partial : forall req s w,
  npb req -> fst (group_lookup_attempt req s) = Panic w ->
  w = tag "available connection" /\ lookup_no_connection s.
Proof.
  intros req s w Hreq H. destruct (group_lookup_panic req s w Hreq H) as [Hw Hn].
  split; [exact Hw|]. destruct (get_conn_any_none s Hn) as [Hc|[Hi Hc]]; [left; exact Hc|right; auto].
Qed.

Definition ex_idle0_client : client :=
  let g := default_config [tag "h:1"] in
  {| cfg := {| client_id := client_id g; hosts := hosts g; compression := compression g;
               fetch_max_wait_time := fetch_max_wait_time g; fetch_min_bytes := fetch_min_bytes g;
               fetch_max_bytes_per_partition := fetch_max_bytes_per_partition g;
               fetch_crc_validation := fetch_crc_validation g; offset_storage := offset_storage g;
               retry_backoff_time := retry_backoff_time g; retry_max_attempts := retry_max_attempts g;
               idle_timeout := (0, 0) |};
     cs := ex_cs; conns := [tag "h:1"] |}.

Theorem C13_group_lookup_outside_known_refuted :
  exists req s w, npb req /\ conns (cl s) <> [] /\ fst (group_lookup_attempt req s) = Panic w.
Proof.
  exists (enc_group_coordinator_req 1 [] (tag "g")), (ex_st [OConn false] ex_idle0_client false),
         (tag "available connection").
  split; [apply npb_enc_group_coordinator_req|]. split; [discriminate|]. vm_compute. reflexivity.
Qed.
(* the pool-is-empty case, and a garbage answer on a live connection *)
Example ex_lookup_empty_pool :
  fst (group_lookup_attempt (enc_group_coordinator_req 1 [] (tag "g")) (ex_st [] ex_client_md false))
  = Panic (tag "available connection").
Proof. vm_compute. reflexivity. Qed.
Example ex_lookup_garbage :
  fst (group_lookup_attempt (enc_group_coordinator_req 1 [] (tag "g"))
         (ex_st [OWrote 1000; OData (enc_i32 3); OData [xff; xff; xff]]
                {| cfg := default_config [tag "h:1"]; cs := ex_cs; conns := [tag "h:1"] |} false))
  = Err (EIo IoUnexpectedEof).
Proof. vm_compute. reflexivity. Qed.

(* ====================================================================== *)
(* NOT in the list of known panic sites: commit_consumed                   *)
(* ====================================================================== *)
(* Only the LAST offset of a fetched partition is overflow-checked by poll.  A message
   with offset i64::MAX that is followed by another message passes the poll in a debug
   build; once the application marks it consumed (consume_message, with the offset the
   broker sent) the next commit_consumed computes `offset + 1` (consumer/mod.rs:517) and
   panics in a debug build - before anything is sent. *)
Example C13_commit_overflow_finding :
  let msgs := [{| m_offset := i64_max; m_key := []; m_value := [] |}; {| m_offset := 5; m_key := []; m_value := [] |}] in
  let polled := process_fetch_responses true ex_k 1 [ex_resp (tag "tp") 0 msgs] in
  is_ok (fst polled) = true
  /\ match consume_message (snd polled) (tag "tp") 0 i64_max with
     | Ok k' => dirty_entries k' = [(tag "tp", 0, i64_max)]
                /\ commit_entries true (dirty_entries k') = Panic overflow_tag
                /\ is_ok (commit_entries false (dirty_entries k')) = true
     | _ => False
     end.
Proof. vm_compute. repeat split; reflexivity. Qed.

(* end to end: commit_consumed of a consumer (with a group) in that state, debug build *)
Example C13_commit_overflow_finding_e2e :
  let k := {| k_client := ex_client_md; k_group := tag "g"; k_fallback := FbLatest; k_retry_limit := 0;
              k_assign := [(tag "tp", [0])]; k_fetch := [((0, 0), (6, 1000))]; k_retry := [];
              k_consumed := [((0, 0), (i64_max, true))] |} in
  fst (commit_consumed k (ex_st [] ex_client_md true)) = Panic overflow_tag
  /\ trace (snd (commit_consumed k (ex_st [] ex_client_md true))) = [].
Proof. vm_compute. split; reflexivity. Qed.

Print Assumptions C13_metadata_update_total.
Print Assumptions C13_frame_size.
Print Assumptions C13_frame_size_negative.
Print Assumptions C13_poll_layer_outside_known.
Print Assumptions C13_poll_layer_no_fuel.
Print Assumptions C13_poll_layer_refuted.
Print Assumptions C13_poll_layer_refuted_partition.
Print Assumptions C13_poll_layer_refuted_overflow.
Print Assumptions C13_consumer_init_outside_known.
Print Assumptions C13_consumer_init_refuted.
Print Assumptions C13_consumer_init_refuted_underflow.
Print Assumptions C13_fallback_states_total.
Print Assumptions C13_range_states_outside_known.
Print Assumptions C13_consumer_init_states_total.
Print Assumptions C13_producer_send_outside_known.
Print Assumptions C13_producer_send_refuted.
Print Assumptions C13_group_lookup_outside_known.
Print Assumptions C13_group_lookup_outside_known_partial.
Print Assumptions C13_group_lookup_outside_known_refuted.
