(* C08, additional theorems, third pass (mutation adequacy, rounds five and six).

   Seed C08-5 (Builder::create writes the builder's offset storage to the client only if the client has none
   yet) is mirrored by cfg_set_consumer (`offset_storage := if offset_storage g <? 0 then cb_storage b else
   offset_storage g`).  The mirrored change falsifies C08_version_from_builder (g is universally quantified
   there; witness: a config with storage 0, with_offset_storage 1) - confirmed on a scratch copy, negation proved.
   That theorem stops at cfg_set_consumer, though; nothing in Props/C08.v said what storage the client of a
   consumer returned by consumer_create has, nor which version the offset-fetch of the creation or a later
   commit carries.  Part B states that: C08_create_storage(_overrides), C08_create_fetch_version,
   C08_life_commit_version (all three false on the scratch copy as well; negation of
   C08_create_storage_overrides proved there).

   Seed C08-6 (Consumer::commit_consumed clears the dirty flags while the request is built, so they are gone
   also when the commit fails) has its counterpart NOT in Model/Consumer.v - commit_consumed : M consumer
   returns no consumer at all under Err - but in Model/Dispatch.v: the scripted call keeps the old consumer
   (`with_client o`) when commit_consumed answers an error.  The mirrored change is there (upd_err clears the
   flags unless group or storage is unset).  No theorem of Props/C08.v mentions dispatch: "a failed commit
   leaves the flags alone" was only a comment (C08Facts, section 3) and the constructor reach_other of
   C08Extra.reach, which ASSUMES k_consumed unchanged.  With the change mirrored in a scratch copy Props/C08.v
   and everything below it stay up to date.  NOT COVERED.  Part A states it on dispatch:
   C08_dispatch_commit_consumed, C08_failed_commit_keeps_flags, C08_failed_commit_observable,
   C08_failed_commit_resent (all false on the scratch copy; negation of C08_failed_commit_observable proved
   there, and the second commit of C08_failed_commit_resent_ex answers Ok with an empty trace). *)
From Coq Require Import ZifyBool Permutation Relations.Relation_Operators.
From KV Require Import Base.Prelude Gen.ErrorCodes Gen.Consts Model.Codecs Model.Requests Model.Responses
                       Model.ClientState Model.Net Model.Client Model.Consumer Model.Val Model.Dispatch.
From KV Require Import Proofs.BytesFacts Proofs.C07Facts Proofs.C19Facts Proofs.C08Facts Proofs.C08Extra
                       Proofs.C08ExtraB.
From KV Require Proofs.C04ExtraB.
Ltac Zify.zify_post_hook ::= Z.div_mod_to_equations.

(* ================================================================================== *)
(* A. a FAILED commit, as the harness runs it (Model/Dispatch.v)                       *)
(* ================================================================================== *)

(* the scripted call ( consumer_op ( commit_consumed ) ) *)
Definition commit_op : val := vt "consumer_op" [vt "commit_consumed" []].

(* the state a scripted call starts in (the s0 of Dispatch.run) *)
Definition run_state (c : client) (ev scv hv : val) : st :=
  {| script := map ev_out_of (vlist scv); trace := [];
     anyq := map vbytes (vlist (varg hv 2));
     hostq := map (fun l => map vbytes (vlist l)) (vlist (varg hv 0));
     fetchq := map (fun hf => (vbytes (varg hf 0),
                               map (fun t => (vbytes (varg t 0), map vint (vlist (varg t 1))))
                                   (vlist (varg hf 1))))
                   (vlist (varg hv 1));
     entryq := map (fun l => map (fun x => (vbytes (varg x 0), vint (varg x 1))) (vlist l))
                   (vlist (varg hv 3));
     cl := c; env := env_of ev |}.

Lemma is_tag_VT n args s : is_tag (VT n args) s = bytes_eqb n (tag s).
Proof. reflexivity. Qed.

(* what the scripted call does with the outcome of Consumer::commit_consumed.  Ok: the consumer it returned
   (flags cleared).  Err: THE OLD consumer - marks and dirty flags as before the call - around the client as
   the call left it.  Panic: the object is gone. *)
Theorem C08_dispatch_commit_consumed : forall k hv scv ev,
  dispatch (OConsumer k) commit_op hv scv ev
  = let '(r, s1) := commit_consumed k (run_state (k_client k) ev scv hv) in
    {| o_result := match r with
                   | Ok _ => vt "ok" [vunit]
                   | Err er => vt "err" [err_val er]
                   | Panic w => vt "panic" [VB w]
                   end;
       o_obj := match r with
                | Ok k' => OConsumer (consumer_with_client k' (cl s1))
                | Err _ => OConsumer (consumer_with_client k (cl s1))
                | Panic _ => ONone
                end;
       o_trace := rev (trace s1) |}.
Proof.
  intros k hv scv ev. unfold dispatch, commit_op, vt. cbv zeta.
  rewrite !is_tag_VT.
  repeat match goal with
         | |- context [bytes_eqb (tag ?a) (tag ?b)] =>
             let r := eval vm_compute in (bytes_eqb (tag a) (tag b)) in
             change (bytes_eqb (tag a) (tag b)) with r
         end.
  cbv iota.
  cbn [varg vargs nth].
  rewrite !is_tag_VT.
  repeat match goal with
         | |- context [bytes_eqb (tag ?a) (tag ?b)] =>
             let r := eval vm_compute in (bytes_eqb (tag a) (tag b)) in
             change (bytes_eqb (tag a) (tag b)) with r
         end.
  cbv iota.
  unfold run. fold (run_state (k_client k) ev scv hv).
  destruct (commit_consumed k (run_state (k_client k) ev scv hv)) as [[k'|e|w] s1]; reflexivity.
Qed.

Lemma dirty_entries_with_client k c : dirty_entries (consumer_with_client k c) = dirty_entries k.
Proof. reflexivity. Qed.

Lemma vt_ok_not_err er : vt "ok" [vunit] <> vt "err" [er].
Proof. unfold vt. intros H. injection H as H _. vm_compute in H. discriminate H. Qed.
Lemma vt_panic_not_err w er : vt "panic" [VB w] <> vt "err" [er].
Proof. unfold vt. intros H. injection H as H _. vm_compute in H. discriminate H. Qed.
Lemma vt_err_not_ok er : vt "err" [er] <> vt "ok" [vunit].
Proof. intros H. symmetry in H. revert H. apply vt_ok_not_err. Qed.
Lemma vt_panic_not_ok w : vt "panic" [VB w] <> vt "ok" [vunit].
Proof. unfold vt. intros H. injection H as H _. vm_compute in H. discriminate H. Qed.

(* the scripted call answers an error exactly when commit_consumed does, Ok exactly when it does *)
Lemma dispatch_commit_err k hv scv ev er :
  o_result (dispatch (OConsumer k) commit_op hv scv ev) = vt "err" [er] ->
  exists e s1, commit_consumed k (run_state (k_client k) ev scv hv) = (Err e, s1) /\ er = err_val e.
Proof.
  rewrite C08_dispatch_commit_consumed.
  destruct (commit_consumed k (run_state (k_client k) ev scv hv)) as [[k'|e|w] s1]; cbn [o_result]; intros H.
  - exfalso. exact (vt_ok_not_err _ H).
  - exists e, s1. split; [reflexivity|]. unfold vt in H. injection H as H. symmetry. exact H.
  - exfalso. exact (vt_panic_not_err _ _ H).
Qed.

Lemma dispatch_commit_ok k hv scv ev :
  o_result (dispatch (OConsumer k) commit_op hv scv ev) = vt "ok" [vunit] ->
  exists k' s1, commit_consumed k (run_state (k_client k) ev scv hv) = (Ok k', s1).
Proof.
  rewrite C08_dispatch_commit_consumed.
  destruct (commit_consumed k (run_state (k_client k) ev scv hv)) as [[k'|e|w] s1]; cbn [o_result]; intros H.
  - exists k', s1. reflexivity.
  - exfalso. exact (vt_err_not_ok _ H).
  - exfalso. exact (vt_panic_not_ok _ H).
Qed.

(* THE statement for seed C08-6.  Consumer::commit_consumed fails - for whatever reason: the group or the
   storage is not set, the coordinator cannot be found or reached, the connection breaks while the request
   is written or the answer is read, the answer rejects some or all entries, the retries are used up.  The
   consumer the application goes on with has exactly the marks AND the dirty flags it had before the call:
   nothing counts as committed.  (Only its client moved on: connections, metadata, correlation id.) *)
Theorem C08_failed_commit_keeps_flags : forall k hv scv ev e s1,
  commit_consumed k (run_state (k_client k) ev scv hv) = (Err e, s1) ->
  let out := dispatch (OConsumer k) commit_op hv scv ev in
  o_result out = vt "err" [err_val e]
  /\ o_trace out = rev (trace s1)
  /\ o_obj out = OConsumer (consumer_with_client k (cl s1))
  /\ exists k1, o_obj out = OConsumer k1
       /\ k_client k1 = cl s1 /\ cfg (k_client k1) = cfg (k_client k)
       /\ k_consumed k1 = k_consumed k /\ k_assign k1 = k_assign k /\ k_group k1 = k_group k
       /\ k_fetch k1 = k_fetch k /\ k_retry k1 = k_retry k
       /\ dirty_entries k1 = dirty_entries k
       /\ (forall key, mark k1 key = mark k key) /\ (forall key, dirty k1 key = dirty k key).
Proof.
  intros k hv scv ev e s1 H out. subst out. rewrite C08_dispatch_commit_consumed, H. cbn [o_result o_obj o_trace].
  split; [reflexivity|]. split; [reflexivity|]. split; [reflexivity|].
  exists (consumer_with_client k (cl s1)). split; [reflexivity|]. split; [reflexivity|].
  split; [exact (C04ExtraB.k_commit_consumed k _ _ _ H)|].
  repeat (split; [reflexivity|]). split; intros key; reflexivity.
Qed.

(* the same, stated on what the harness observes only: the call answered an error *)
Theorem C08_failed_commit_observable : forall k hv scv ev er,
  let out := dispatch (OConsumer k) commit_op hv scv ev in
  o_result out = vt "err" [er] ->
  exists k1, o_obj out = OConsumer k1
    /\ cfg (k_client k1) = cfg (k_client k)
    /\ k_consumed k1 = k_consumed k /\ k_assign k1 = k_assign k /\ k_group k1 = k_group k /\ k_fetch k1 = k_fetch k
    /\ dirty_entries k1 = dirty_entries k
    /\ (forall key, mark k1 key = mark k key) /\ (forall key, dirty k1 key = dirty k key)
    /\ (forall b, reach b k b k1)
    /\ C04ExtraB.cstep k k1.
Proof.
  intros k hv scv ev er out H. subst out.
  destruct (dispatch_commit_err _ _ _ _ _ H) as (e & s1 & Hc & _).
  destruct (C08_failed_commit_keeps_flags _ _ _ _ _ _ Hc) as (_ & _ & Ho & k1 & Hk1 & Hcl & Hcfg & Hcons & Ha & Hg & Hf & _ & Hde & Hm & Hd).
  exists k1. split; [exact Hk1|]. split; [exact Hcfg|]. split; [exact Hcons|]. split; [exact Ha|].
  split; [exact Hg|]. split; [exact Hf|]. split; [exact Hde|]. split; [exact Hm|]. split; [exact Hd|].
  split.
  - intros b. eapply reach_other; [exact Hcons|apply reach_refl].
  - rewrite Ho in Hk1. injection Hk1 as <-. apply C04ExtraB.cs_commit_err with (s := run_state (k_client k) ev scv hv) (e := e);
      [reflexivity|exact Hc].
Qed.

(* "after a failed commit the same marks are sent again by the next commit".  Two scripted calls of
   commit_consumed in a row on a consumer with something to commit: the first answers an error, the second
   answers Ok.  Then the second call sent ONE request to the group's coordinator that holds the entries that
   were dirty BEFORE THE FIRST call (dirty_entries k, each as mark + 1 by C08_commit_entries, each exactly once
   by C08_commit_tps_all / C08_reorder_perm), with the version of the consumer's storage; every entry was
   accepted; only now are the flags cleared. *)
Theorem C08_failed_commit_resent : forall k hv scv ev er hv2 scv2 ev2,
  let out1 := dispatch (OConsumer k) commit_op hv scv ev in
  let out2 := dispatch (o_obj out1) commit_op hv2 scv2 ev2 in
  o_result out1 = vt "err" [er] ->
  dirty_entries k <> [] ->
  o_result out2 = vt "ok" [vunit] ->
  exists k1 order os tps0 h corr tps sa sb s' k2,
    o_obj out1 = OConsumer k1
    /\ let s := run_state (k_client k1) ev2 scv2 hv2 in
       commit_entries (debug_build (env s)) (reorder_entries order (dirty_entries k)) = Ok os
       /\ commit_tps (cs (cl s)) os [] = Some tps0
       /\ 0 <= offset_storage (cfg (k_client k))
       /\ get_group_coordinator (k_group k) sa = (Ok h, sb)
       /\ send_receive dec_offset_commit_resp h
            (enc_offset_commit_req (fst (next_correlation_id (cs (cl s)))) (client_id (cfg (k_client k))) (k_group k)
                                   (commit_version (offset_storage (cfg (k_client k)))) tps0) sb = (Ok (corr, tps), s')
       /\ Forall (fun e => e = 0) (commit_codes tps)
       /\ o_trace out2 = rev (trace s')
       /\ o_obj out2 = OConsumer k2
       /\ (forall key, mark k2 key = mark k key) /\ (forall key, dirty k2 key <> Some true).
Proof.
  intros k hv scv ev er hv2 scv2 ev2 out1 out2 H1 Hne H2. subst out2.
  destruct (C08_failed_commit_observable _ _ _ _ _ H1) as (k1 & Hk1 & Hcfg & Hcons & Ha & Hg & Hf & Hde & Hm & Hd & _).
  fold out1 in Hk1. rewrite Hk1 in H2 |- *.
  destruct (dispatch_commit_ok _ _ _ _ H2) as (k' & s' & Hc).
  assert (Hne1 : dirty_entries k1 <> []) by (rewrite Hde; exact Hne).
  destruct (C08_commit_consumed_ok_accepted _ _ _ _ Hc Hne1)
    as (order & os & tps0 & h & corr & tps & sa & sb & Hos & Htps & Hst & Hh & Hsr & Hall).
  exists k1, order, os, tps0, h, corr, tps, sa, sb, s', (consumer_with_client k' (cl s')).
  split; [reflexivity|]. cbv zeta.
  change (cl (run_state (k_client k1) ev2 scv2 hv2)) with (k_client k1) in *.
  rewrite Hde in Hos. rewrite Hg, Hcfg in Hsr. rewrite Hg in Hh. rewrite Hcfg in Hst.
  split; [exact Hos|]. split; [exact Htps|]. split; [exact Hst|]. split; [exact Hh|]. split; [exact Hsr|].
  split; [exact Hall|].
  rewrite C08_dispatch_commit_consumed, Hc. cbn [o_trace o_obj]. split; [reflexivity|]. split; [reflexivity|].
  destruct (C08_commit_clears_only_on_success _ _ _ _ Hc) as (Hm' & Hd' & _).
  split.
  - intros key. change (mark (consumer_with_client k' (cl s')) key) with (mark k' key). rewrite Hm'. apply Hm.
  - intros key. change (dirty (consumer_with_client k' (cl s')) key) with (dirty k' key). rewrite Hd'.
    destruct (dirty k1 key); cbn [option_map]; discriminate.
Qed.

(* non-vacuity, through dispatch: the consumer of C08Extra (a/1 marked 19, b/0 marked 31, both dirty, storage
   kafka).  First call: (i) the coordinator accepts a/1 and rejects b/0 with code 12, or (ii) the connection
   breaks while the request is written.  The call answers the error.  Second call, answer all-accepting: the
   request holds BOTH entries again - a/1: 20 and b/0: 32 - and only then are the flags cleared. *)
Definition exc_hv : val := vt "hints" [VL []; VL []; VL []; VL []].
Definition exc_ev : val := vt "env" [VL []; VL []; VL []; VL []; VI 1].
Definition exc_resp (b : bytes) : list val := [vt "data" [VB (enc_i32 (ulen b))]; vt "data" [VB b]].
Definition exc_rejected : val := VL (vt "conn" [VI 1] :: vt "wrote" [VI 1000] :: exc_resp (ex_commit_resp 0 12)).
Definition exc_lost : val := VL [vt "conn" [VI 1]; vt "wfail" [vt "reset" []]].
Definition exc_accepted : val := VL (vt "wrote" [VI 1000] :: exc_resp (ex_commit_resp 0 0)).
Definition exc_consumed (o : obj) : option (list (tpkey * (Z * bool))) :=
  match o with OConsumer k => Some (k_consumed k) | _ => None end.
Definition exc_second_request : res bytes :=
  match enc_offset_commit_req 2 (tag "me") (tag "g") OFFSET_COMMIT_V1 [(tag "a", [(1, 20)]); (tag "b", [(0, 32)])]
  with Ok p => Ok (frame p) | Err e => Err e | Panic w => Panic w end.

Example C08_failed_commit_resent_ex :
  forall first, first = exc_rejected \/ first = exc_lost ->
  let out1 := dispatch (OConsumer ex_k2) commit_op exc_hv first exc_ev in
  let out2 := dispatch (o_obj out1) commit_op exc_hv exc_accepted exc_ev in
  dirty_entries ex_k2 = [(tag "a", 1, 19); (tag "b", 0, 31)]
  /\ (exists er, o_result out1 = vt "err" [er])
  /\ exc_consumed (o_obj out1) = Some [((0, 1), (19, true)); ((1, 0), (31, true))]
  /\ o_result out2 = vt "ok" [vunit]
  /\ exc_consumed (o_obj out2) = Some [((0, 1), (19, false)); ((1, 0), (31, false))]
  /\ match o_trace out2 with
     | [EWrite h bs; _; _] => h = exh /\ Ok bs = exc_second_request
     | _ => False
     end.
Proof.
  intros first [H|H]; subst first; cbv zeta.
  - split; [vm_compute; reflexivity|]. split; [eexists; vm_compute; reflexivity|]. vm_compute. repeat split.
  - split; [vm_compute; reflexivity|]. split; [eexists; vm_compute; reflexivity|]. vm_compute. repeat split.
Qed.

(* ================================================================================== *)
(* B. which offset storage - hence which API version - a built consumer uses           *)
(* ================================================================================== *)

(* Builder::with_offset_storage(Some(Zookeeper) | Some(Kafka) | None) *)
Definition storage_norm (x : Z) : Z := if (x =? 0) || (x =? 1) then x else -1.

(* the last with_offset_storage of the call chain decides; without one, what the builder started from *)
Definition storage_of_calls (calls : list cbuilder_call) (init : Z) : Z :=
  fold_left (fun acc c => match c with CWithStorage x => storage_norm x | _ => acc end) calls init.

(* what the builder starts from: nothing (from_hosts) or the setting of the client handed in (from_client) *)
Definition src_storage (src : list bytes + client) : Z :=
  match src with inl _ => -1 | inr c => offset_storage (cfg c) end.

Lemma cb_storage_apply b c :
  cb_storage (cbuilder_apply b c) = match c with CWithStorage x => storage_norm x | _ => cb_storage b end.
Proof. destruct c; reflexivity. Qed.

Lemma cb_storage_fold calls : forall b,
  cb_storage (fold_left cbuilder_apply calls b) = storage_of_calls calls (cb_storage b).
Proof.
  unfold storage_of_calls. induction calls as [|c calls IH]; intros b; [reflexivity|].
  cbn [fold_left]. rewrite IH, cb_storage_apply. reflexivity.
Qed.

Theorem C08_builder_storage : forall src calls,
  cb_storage (fold_left cbuilder_apply calls (cbuilder_new src)) = storage_of_calls calls (src_storage src).
Proof. intros src calls. rewrite cb_storage_fold. destruct src; reflexivity. Qed.

Lemma storage_of_calls_none calls :
  (forall y, ~ In (CWithStorage y) calls) -> forall init, storage_of_calls calls init = init.
Proof.
  unfold storage_of_calls. induction calls as [|c calls IH]; intros Hn init; [reflexivity|]. cbn [fold_left].
  destruct c; try (apply IH; intros y Hy; apply (Hn y); right; exact Hy).
  exfalso. apply (Hn s). left. reflexivity.
Qed.

(* an explicit with_offset_storage wins over whatever came before it - earlier calls AND the storage the
   client handed in was set up with *)
Theorem C08_builder_storage_last : forall calls x calls' init,
  (forall y, ~ In (CWithStorage y) calls') ->
  storage_of_calls (calls ++ CWithStorage x :: calls') init = storage_norm x.
Proof.
  intros calls x calls' init Hn. unfold storage_of_calls. rewrite fold_left_app. cbn [fold_left].
  apply (storage_of_calls_none calls' Hn).
Qed.

Example C08_builder_storage_ex :
  storage_of_calls [CWithGroup (tag "g"); CWithStorage 1; CWithTopic (tag "t")] 0 = 1
  /\ storage_of_calls [CWithStorage 0; CWithGroup (tag "g")] 1 = 0
  /\ storage_of_calls [CWithStorage 7] 1 = -1
  /\ storage_of_calls [CWithGroup (tag "g")] 1 = 1
  /\ src_storage (inr ex_client1) = 1 /\ src_storage (inl [exh]) = -1.
Proof. vm_compute. repeat split. Qed.

(* Builder::create, seed C08-5.  The storage of the created consumer's client is the BUILDER's: the last
   with_offset_storage of the chain, else the setting the builder was seeded with - it is not a function of what
   the client in the state had (s is any state; in particular cl s may have any storage set). *)
Theorem C08_create_storage : forall src calls s k s',
  consumer_create src calls s = (Ok k, s') ->
  offset_storage (cfg (k_client k)) = storage_of_calls calls (src_storage src)
  /\ k_client k = cl s'.
Proof.
  intros src calls s k s' H. destruct (C04ExtraB.C04_consumer_create_cfg _ _ _ _ _ H) as (Hk & wait & _ & Hc).
  split; [|exact Hk]. rewrite Hk, Hc. cbn [cfg_set_consumer offset_storage]. unfold C04ExtraB.built.
  apply C08_builder_storage.
Qed.

(* the scenario of the seed: a client with storage X handed in, Y asked for on the builder *)
Theorem C08_create_storage_overrides : forall c calls y calls' s k s',
  y = 0 \/ y = 1 ->
  (forall z, ~ In (CWithStorage z) calls') ->
  consumer_create (inr c) (calls ++ CWithStorage y :: calls') s = (Ok k, s') ->
  offset_storage (cfg (k_client k)) = y
  /\ commit_version (offset_storage (cfg (k_client k))) = y
  /\ fetch_version (offset_storage (cfg (k_client k))) = y.
Proof.
  intros c calls y calls' s k s' Hy Hn H. destruct (C08_create_storage _ _ _ _ _ H) as [Hs _].
  rewrite Hs, (C08_builder_storage_last _ _ _ _ Hn).
  destruct Hy; subst y; repeat split.
Qed.

(* group_fetch_loop answers Ok only after an exchange of THE GIVEN request with the group's coordinator whose
   answer it then hands out (earlier exchanges may have been retried) *)
Lemma group_fetch_loop_ok : forall fuel group req attempt s m s',
  group_fetch_loop fuel group req attempt s = (Ok m, s') ->
  exists h corr tps s1 s2,
    get_group_coordinator group s1 = (Ok h, s2)
    /\ send_receive dec_offset_fetch_resp h req s2 = (Ok (corr, tps), s')
    /\ group_scan tps [] = inl (inl m).
Proof.
  induction fuel as [|f IH]; intros group req attempt s m s' H; cbn [group_fetch_loop] in H; [discriminate|].
  apply mbind_ok in H. destruct H as (h & s1 & Hh & H).
  apply mbind_ok in H. destruct H as ([corr tps] & s2 & Hsr & H).
  destruct (group_scan tps []) as [[m0|[code reset]]|c] eqn:Eg.
  - unfold ret in H. inversion H; subst. exists h, corr, tps, s, s1. auto.
  - apply mbind_ok in H. destruct H as (c & s3 & Hc & H).
    apply mbind_ok in H. destruct H as (u & s4 & Hu & H).
    destruct (attempt <? retry_max_attempts (cfg c)); [|discriminate]. eapply IH. exact H.
  - discriminate.
Qed.

(* Builder::create with a group: the ONE offset-fetch of the creation is built with the fetch version of the
   builder's storage (which must be set), goes to the group's coordinator, and its answer is what
   load_consumed_offsets / C08_create_resumes work on *)
Theorem C08_create_fetch_version : forall src calls s k s',
  consumer_create src calls s = (Ok k, s') -> k_group k <> [] ->
  let x := storage_of_calls calls (src_storage src) in
  exists subs tpos tps0 h corr tps s1 sa sb s2,
    0 <= x
    /\ offset_storage (cfg (cl s1)) = x
    /\ subscriptions_of (cs (cl s1)) (k_assign k) = Ok subs
    /\ group_fetch_tps (cs (cl s1)) (flat_map (fun '(t, ps) => map (fun p => (t, p)) ps) subs) [] = Some tps0
    /\ get_group_coordinator (k_group k) sa = (Ok h, sb)
    /\ send_receive dec_offset_fetch_resp h
         (enc_offset_fetch_req (fst (next_correlation_id (cs (cl s1)))) (client_id (cfg (cl s1))) (k_group k)
                               (fetch_version x) tps0) sb = (Ok (corr, tps), s2)
    /\ group_scan tps [] = inl (inl tpos)
    /\ fetch_group_offsets (k_group k) (flat_map (fun '(t, ps) => map (fun p => (t, p)) ps) subs) s1 = (Ok tpos, s2)
    /\ consumed_topics (debug_build (env s2)) (k_assign k) tpos [] = Ok (k_consumed k).
Proof.
  intros src calls s k s' H Hg x.
  unfold consumer_create in H. cbv zeta in H.
  pose proof (C08_builder_storage src calls) as Hb. fold x in Hb.
  set (b := fold_left cbuilder_apply calls (cbuilder_new src)) in *.
  destruct (cb_assign b) as [|a0 ar] eqn:Ea; [discriminate|]. rewrite <- Ea in H.
  apply mbind_ok in H. destruct H as (c & sa0 & Hc & H). unfold get_client in Hc. inversion Hc; subst c sa0. clear Hc.
  apply mbind_ok in H. destruct H as (wait & sb0 & Hw & H). unfold lift in Hw. injection Hw as _ Hsb. subst sb0.
  apply mbind_ok in H. destruct H as (u1 & sc & Hset & H). unfold set_client in Hset. injection Hset as _ Hsc.
  apply mbind_ok in H. destruct H as (u2 & sd & Hmd & H).
  assert (Hcfg : offset_storage (cfg (cl sd)) = x).
  { assert (K : C04ExtraB.cfgc sc sd).
    { destruct src; [apply (C04ExtraB.k_load_metadata_all _ _ _ Hmd)|injection Hmd as _ <-; reflexivity]. }
    unfold C04ExtraB.cfgc in K. rewrite K, <- Hsc. cbn [cl cfg cfg_set_consumer offset_storage]. exact Hb. }
  apply mbind_ok in H. destruct H as (c1 & se & Hc1 & H). unfold get_client in Hc1. inversion Hc1; subst c1 se. clear Hc1.
  apply mbind_ok in H. destruct H as (subs & sf & Hsub & H). unfold lift in Hsub. injection Hsub as Hsub Hsf. subst sf.
  apply mbind_ok in H. destruct H as (consumed & sg & Hlc & H).
  apply mbind_ok in H. destruct H as (fetch & sh & Hlf & H).
  apply mbind_ok in H. destruct H as (c2 & si & Hc2 & H).
  unfold get_client in Hc2. inversion Hc2; subst c2 si. unfold ret in H. inversion H; subst k s'. clear H Hc2.
  cbn [k_group k_assign k_consumed] in *.
  destruct (C08_load_consumed_offsets_ok _ _ _ _ _ _ Hg Hlc) as (tpos & Hfgo & Hct).
  pose proof Hfgo as Hf. unfold fetch_group_offsets in Hf.
  apply mbind_ok in Hf. destruct Hf as (c & s5 & Hc & Hf). unfold get_client in Hc. inversion Hc; subst c s5. clear Hc.
  destruct (offset_storage (cfg (cl sd)) <? 0) eqn:Est; [discriminate|].
  apply mbind_ok in Hf. destruct Hf as (corr0 & s6 & Hnc & Hf).
  unfold next_corr in Hnc. apply mbind_ok in Hnc. destruct Hnc as (c & s7 & Hc & Hnc).
  unfold get_client in Hc; inversion Hc; subst c s7. clear Hc.
  destruct (next_correlation_id (cs (cl sd))) as [n cs'] eqn:En.
  apply mbind_ok in Hnc. destruct Hnc as (u' & s8 & _ & Hnc). unfold ret in Hnc. injection Hnc as Hn _. subst corr0.
  destruct (group_fetch_tps (cs (cl sd)) _ []) as [tps0|] eqn:Etps; [|discriminate].
  unfold with_fuel in Hf. apply group_fetch_loop_ok in Hf.
  destruct Hf as (h & corr & tps & sa & sb & Hh & Hsr & Hscan).
  exists subs, tpos, tps0, h, corr, tps, sd, sa, sb, sg.
  rewrite Hcfg in Hsr. rewrite En. cbn [fst].
  split; [lia|]. split; [exact Hcfg|]. split; [exact Hsub|]. split; [exact Etps|]. split; [exact Hh|].
  split; [exact Hsr|]. split; [exact Hscan|]. split; [exact Hfgo|exact Hct].
Qed.

(* non-vacuity, and the situation of seeded/C08-5, on the scripted cluster of C07Extra: the client handed in
   was set up for kafka storage (1); the builder asks for zookeeper storage (0).  The created consumer's
   client has storage 0 and the offset-fetch of the creation went out with version 0. *)
Example C08_create_storage_ex : exists k s',
  offset_storage (cfg C07Extra.ex_client) = 1
  /\ consumer_create (inr C07Extra.ex_client) (C07Extra.ex_calls ++ [CWithStorage 0]) C07Extra.ex_st2 = (Ok k, s')
  /\ offset_storage (cfg (k_client k)) = 0
  /\ k_group k = C07Extra.xg
  /\ match rev (trace s') with
     | EConnect _ :: EWrite _ bs :: _ =>
         Ok bs = match enc_offset_fetch_req 1 [] C07Extra.xg OFFSET_FETCH_V0 [(C07Extra.xt, [0; 1; 2])]
                 with Ok p => Ok (frame p) | Err e => Err e | Panic w => Panic w end
     | _ => False
     end.
Proof. eexists. eexists. split; [reflexivity|]. split; [vm_compute; reflexivity|]. vm_compute. repeat split. Qed.

(* every scripted commit_consumed is a step of the consumer's life as C04ExtraB.cstep describes it *)
Theorem C08_dispatch_commit_cstep : forall k hv scv ev k1,
  o_obj (dispatch (OConsumer k) commit_op hv scv ev) = OConsumer k1 -> C04ExtraB.cstep k k1.
Proof.
  intros k hv scv ev k1. rewrite C08_dispatch_commit_consumed.
  destruct (commit_consumed k (run_state (k_client k) ev scv hv)) as [[k'|e|w] s1] eqn:E; cbn [o_obj]; intros H.
  - injection H as <-. eapply C04ExtraB.cs_commit; [|exact E]. reflexivity.
  - injection H as <-. eapply C04ExtraB.cs_commit_err; [|exact E]. reflexivity.
  - discriminate H.
Qed.

(* THE statement for the clause "with the API version matching the configured offset storage" over a whole
   life: a consumer is built (from hosts or around a client handed in, whatever that client was set up with);
   x is the storage its builder was given.  After ANY sequence of polls, seeks, marks, successful and failed
   commits, a commit_consumed with something to commit that answers Ok has sent its request with
   commit_version x (and x is a storage, not "none") to the group's coordinator, every entry accepted. *)
Theorem C08_life_commit_version : forall src calls s k0 s0 k sc k' s',
  consumer_create src calls s = (Ok k0, s0) ->
  clos_refl_trans_1n consumer C04ExtraB.cstep k0 k ->
  cl sc = k_client k ->
  commit_consumed k sc = (Ok k', s') -> dirty_entries k <> [] ->
  let x := storage_of_calls calls (src_storage src) in
  0 <= x /\ offset_storage (cfg (k_client k)) = x
  /\ exists order os tps0 h corr tps s1 s2,
       commit_entries (debug_build (env sc)) (reorder_entries order (dirty_entries k)) = Ok os
       /\ commit_tps (cs (k_client k)) os [] = Some tps0
       /\ get_group_coordinator (k_group k) s1 = (Ok h, s2)
       /\ send_receive dec_offset_commit_resp h
            (enc_offset_commit_req (fst (next_correlation_id (cs (k_client k)))) (client_id (cfg (k_client k)))
                                   (k_group k) (commit_version x) tps0) s2 = (Ok (corr, tps), s')
       /\ Forall (fun e => e = 0) (commit_codes tps).
Proof.
  intros src calls s k0 s0 k sc k' s' Hcr Hlife Hcl Hc Hne x.
  destruct (C08_create_storage _ _ _ _ _ Hcr) as [Hs0 _]. fold x in Hs0.
  pose proof (C04ExtraB.C04_consumer_life_cfg _ _ Hlife) as Hcfg.
  assert (Hx : offset_storage (cfg (k_client k)) = x) by (rewrite Hcfg; exact Hs0).
  destruct (C08_commit_consumed_ok_accepted _ _ _ _ Hc Hne)
    as (order & os & tps0 & h & corr & tps & s1 & s2 & Hos & Htps & Hst & Hh & Hsr & Hall).
  rewrite Hcl in *. rewrite Hx in *.
  split; [exact Hst|]. split; [reflexivity|].
  exists order, os, tps0, h, corr, tps, s1, s2. auto.
Qed.

(* non-vacuity: the consumer of C08_create_storage_ex (client set up for kafka storage, builder asked for
   zookeeper storage) marks t/1 at 15, a commit fails on a refused write, the next one is accepted: both
   requests went out as OffsetCommit VERSION 0 with t/1: 16 *)
Definition exc_k0 : consumer :=
  match fst (consumer_create (inr C07Extra.ex_client) (C07Extra.ex_calls ++ [CWithStorage 0]) C07Extra.ex_st2) with
  | Ok k => k | _ => ex_k2 end.
Definition exc_commit_resp1 : bytes :=
  enc_i32 1 ++ enc_i32 1 ++ enc_i16 1 ++ C07Extra.xt ++ enc_i32 1 ++ enc_i32 1 ++ enc_i16 0.
Definition exc_req_v0 (corr : Z) : res bytes :=
  match enc_offset_commit_req corr [] C07Extra.xg OFFSET_COMMIT_V0 [(C07Extra.xt, [(1, 16)])]
  with Ok p => Ok (frame p) | Err e => Err e | Panic w => Panic w end.

Example C08_life_commit_version_ex : exists k1 k2 k',
  fst (consumer_create (inr C07Extra.ex_client) (C07Extra.ex_calls ++ [CWithStorage 0]) C07Extra.ex_st2) = Ok exc_k0
  /\ consume_message exc_k0 C07Extra.xt 1 15 = Ok k1
  /\ dirty_entries k1 = [(C07Extra.xt, 1, 15)]
  /\ (let out := dispatch (OConsumer k1) commit_op exc_hv (VL [vt "wfail" [vt "reset" []]]) exc_ev in
      o_obj out = OConsumer k2
      /\ (exists er, o_result out = vt "err" [er])
      /\ match o_trace out with [EWrite _ bs] => Ok bs = exc_req_v0 4 | _ => False end)
  /\ (let out := dispatch (OConsumer k2) commit_op exc_hv (VL (vt "wrote" [VI 1000] :: exc_resp exc_commit_resp1)) exc_ev in
      o_obj out = OConsumer k'
      /\ o_result out = vt "ok" [vunit]
      /\ match o_trace out with EWrite _ bs :: _ => Ok bs = exc_req_v0 5 | _ => False end
      /\ dirty_entries k' = [] /\ mark k' (0, 1) = Some 15)
  /\ clos_refl_trans_1n consumer C04ExtraB.cstep exc_k0 k2.
Proof.
  set (k1 := match consume_message exc_k0 C07Extra.xt 1 15 with Ok k => k | _ => ex_k2 end).
  set (o1 := dispatch (OConsumer k1) commit_op exc_hv (VL [vt "wfail" [vt "reset" []]]) exc_ev).
  set (k2 := match o_obj o1 with OConsumer k => k | _ => ex_k2 end).
  set (o2 := dispatch (OConsumer k2) commit_op exc_hv (VL (vt "wrote" [VI 1000] :: exc_resp exc_commit_resp1)) exc_ev).
  set (k' := match o_obj o2 with OConsumer k => k | _ => ex_k2 end).
  assert (H1 : consume_message exc_k0 C07Extra.xt 1 15 = Ok k1) by (vm_compute; reflexivity).
  assert (H2 : o_obj o1 = OConsumer k2) by (vm_compute; reflexivity).
  exists k1, k2, k'.
  split; [vm_compute; reflexivity|]. split; [exact H1|]. split; [vm_compute; reflexivity|].
  split; [cbv zeta; fold o1; split; [exact H2|]; split; [eexists; vm_compute; reflexivity|vm_compute; reflexivity]|].
  split; [cbv zeta; fold o2; split; [vm_compute; reflexivity|]; vm_compute; repeat split|].
  apply (rt1n_trans _ _ exc_k0 k1 k2 (C04ExtraB.cs_consume _ _ _ _ _ H1)).
  apply (rt1n_trans _ _ k1 k2 k2 (C08_dispatch_commit_cstep k1 exc_hv (VL [vt "wfail" [vt "reset" []]]) exc_ev k2 H2)).
  apply rt1n_refl.
Qed.

Check C08_dispatch_commit_consumed.
Check C08_failed_commit_keeps_flags.
Check C08_failed_commit_observable.
Check C08_failed_commit_resent.
Check C08_builder_storage.
Check C08_builder_storage_last.
Check C08_create_storage.
Check C08_create_storage_overrides.
Check C08_create_fetch_version.
Check C08_dispatch_commit_cstep.
Check C08_life_commit_version.
Print Assumptions C08_dispatch_commit_consumed.
Print Assumptions C08_failed_commit_keeps_flags.
Print Assumptions C08_failed_commit_observable.
Print Assumptions C08_failed_commit_resent.
Print Assumptions C08_builder_storage.
Print Assumptions C08_builder_storage_last.
Print Assumptions C08_create_storage.
Print Assumptions C08_create_storage_overrides.
Print Assumptions C08_create_fetch_version.
Print Assumptions C08_dispatch_commit_cstep.
Print Assumptions C08_life_commit_version.
