(* Facts about CRC-32 (Base/Crc32.v), for messages of arbitrary length.

   PROVED HERE (all Qed, no axioms; see the Print Assumptions at the end):
   (A) crc32_affine, crc32_detects_iff   the check is affine; an error pattern
       e is detected iff its syndrome  crc_update 0 e  is non-zero
   (B) T_linear, crc_bits_load, Tinv_T, Titer_nonzero
   (C) syn_burst                          every burst of span <= 32 is detected
   (D) syn_single_bit, syn_four_bytes
   (E) syn_bounded, crc_update_bounded (the latter in Base/Crc32.v)
   (F) FULL versions (not the _partial ones): T_order (the order of T on
       32-bit states is exactly 2^32-1), syn_double_bit,
       syn_single_not_weight1, crc32_flip_data_and_field.
       Route: 32x32 bit matrices as lists of 32 columns, powers by repeated
       squaring under vm_compute, the cyclic vector 1, Bezout / Gauss in N,
       primality of 3, 5, 17, 257, 65537 by a computed sweep. *)
From KV Require Import Base.Prelude Base.Crc32.
Local Open Scope N_scope.

(* ====================================================================== *)
(* (B) linearity                                                          *)
(* ====================================================================== *)

Ltac xor_solve :=
  apply N.bits_inj; intro; rewrite ?N.lxor_spec, ?N.bits_0;
  repeat destruct (N.testbit _ _); reflexivity.

Lemma lxor_swap4 a b c d :
  N.lxor (N.lxor a b) (N.lxor c d) = N.lxor (N.lxor a c) (N.lxor b d).
Proof. xor_solve. Qed.

Lemma T_0 : T 0 = 0.
Proof. reflexivity. Qed.

Lemma T_linear a b : T (N.lxor a b) = N.lxor (T a) (T b).
Proof.
  unfold T. rewrite N.shiftr_lxor, N.lxor_spec.
  destruct (N.testbit a 0), (N.testbit b 0); cbn [xorb]; xor_solve.
Qed.

Lemma T_double m : T (2 * m) = m.
Proof. destruct m; reflexivity. Qed.

Lemma b2n_xorb x y : N.b2n (xorb x y) = N.lxor (N.b2n x) (N.b2n y).
Proof. destruct x, y; reflexivity. Qed.

Lemma step_bit_linear a b x y :
  step_bit (N.lxor a b) (xorb x y) = N.lxor (step_bit a x) (step_bit b y).
Proof. unfold step_bit. rewrite b2n_xorb, lxor_swap4. apply T_linear. Qed.

(* pointwise xor of bit strings, truncating to the shorter *)
Fixpoint xor_bits (a b : list bool) : list bool :=
  match a, b with
  | x :: a', y :: b' => xorb x y :: xor_bits a' b'
  | _, _ => []
  end.

Lemma crc_bits_linear w1 : forall w2 c1 c2, length w1 = length w2 ->
  fold_left step_bit (xor_bits w1 w2) (N.lxor c1 c2) =
  N.lxor (fold_left step_bit w1 c1) (fold_left step_bit w2 c2).
Proof.
  induction w1 as [|x w1 IH]; intros [|y w2] c1 c2 H; try discriminate H.
  - reflexivity.
  - cbn [xor_bits fold_left]. rewrite step_bit_linear. apply IH.
    now injection H.
Qed.

(* iterates of T *)
Lemma iter_S {A} (f : A -> A) n x : Nat.iter (S n) f x = f (Nat.iter n f x).
Proof. reflexivity. Qed.

Lemma iter_succ_r {A} (f : A -> A) n x : Nat.iter (S n) f x = Nat.iter n f (f x).
Proof. induction n as [|n IH]; [reflexivity|]. rewrite iter_S, IH. reflexivity. Qed.

Lemma iter_add {A} (f : A -> A) n m x :
  Nat.iter (n + m) f x = Nat.iter n f (Nat.iter m f x).
Proof. induction n as [|n IH]; [reflexivity|]. cbn [Nat.add]. now rewrite !iter_S, IH. Qed.

Lemma Titer_linear n a b :
  Nat.iter n T (N.lxor a b) = N.lxor (Nat.iter n T a) (Nat.iter n T b).
Proof. induction n as [|n IH]; [reflexivity|]. rewrite !iter_S. now rewrite IH, T_linear. Qed.

Lemma Titer_0 n : Nat.iter n T 0 = 0.
Proof. induction n as [|n IH]; [reflexivity|]. rewrite !iter_S. now rewrite IH. Qed.

Lemma Titer_bounded n c : c < 2 ^ 32 -> Nat.iter n T c < 2 ^ 32.
Proof. intros H. induction n as [|n IH]; [exact H|]. rewrite !iter_S. now apply T_bounded. Qed.

(* ---- the load lemma --------------------------------------------------- *)

(* the number whose bit i is the i-th element of w *)
Fixpoint N_of_bits (w : list bool) : N :=
  match w with [] => 0 | b :: r => N.lxor (N.b2n b) (2 * N_of_bits r) end.

Lemma lxor_b2n_double b m : N.lxor (N.b2n b) (2 * m) = N.b2n b + 2 * m.
Proof. destruct b, m; reflexivity. Qed.

Lemma N_of_bits_bounded w : N_of_bits w < 2 ^ N.of_nat (length w).
Proof.
  induction w as [|b w IH]; [reflexivity|].
  cbn [N_of_bits length]. rewrite lxor_b2n_double, Nat2N.inj_succ, N.pow_succ_r'.
  destruct b; cbn [N.b2n]; lia.
Qed.

Lemma N_of_bits_nonzero w : In true w -> N_of_bits w <> 0.
Proof.
  induction w as [|b w IH]; intros H; [destruct H|].
  cbn [N_of_bits]. rewrite lxor_b2n_double.
  destruct H as [->|H]; [cbn [N.b2n]; lia|]. apply IH in H. lia.
Qed.

(* feeding the bits w into the register c = loading them by xor and then
   clocking the register |w| times; holds for every length *)
Lemma crc_bits_load w : forall c,
  fold_left step_bit w c = Nat.iter (length w) T (N.lxor c (N_of_bits w)).
Proof.
  induction w as [|b w IH]; intros c.
  - cbn. now rewrite N.lxor_0_r.
  - cbn [fold_left length N_of_bits]. rewrite IH, iter_succ_r. f_equal.
    unfold step_bit. rewrite <- N.lxor_assoc, (T_linear _ (2 * _)), T_double. reflexivity.
Qed.

(* ---- T is invertible on 32-bit states --------------------------------- *)

Definition Tinv (c : N) : N :=
  if N.testbit c 31 then N.lor (N.shiftl (N.lxor c poly) 1) 1 else N.shiftl c 1.

Lemma testbit_above c n m : c < 2 ^ n -> n <= m -> N.testbit c m = false.
Proof.
  intros H Hm. rewrite <- (N.mod_small c (2 ^ n)) by exact H.
  apply N.mod_pow2_bits_high. exact Hm.
Qed.

Lemma shl_shr c : N.testbit c 0 = false -> N.shiftl (N.shiftr c 1) 1 = c.
Proof.
  intros H0. apply N.bits_inj. intro j.
  destruct (N.eq_dec j 0) as [->|Hj].
  - rewrite N.shiftl_spec_low by lia. now rewrite H0.
  - rewrite N.shiftl_spec_high' by lia. rewrite N.shiftr_spec'. f_equal. lia.
Qed.

Lemma shl_shr_1 c : N.testbit c 0 = true -> N.lor (N.shiftl (N.shiftr c 1) 1) 1 = c.
Proof.
  intros H0. apply N.bits_inj. intro j. rewrite N.lor_spec.
  destruct (N.eq_dec j 0) as [->|Hj].
  - rewrite N.shiftl_spec_low by lia. now rewrite H0.
  - rewrite N.shiftl_spec_high' by lia. rewrite N.shiftr_spec'.
    replace (N.testbit 1 j) with false.
    + rewrite orb_false_r. f_equal. lia.
    + symmetry. apply (testbit_above 1 1); [reflexivity|lia].
Qed.

Lemma Tinv_T c : c < 2 ^ 32 -> Tinv (T c) = c.
Proof.
  intros H.
  assert (H31 : N.testbit (N.shiftr c 1) 31 = false).
  { rewrite N.shiftr_spec'. apply (testbit_above c 32); [exact H|lia]. }
  unfold Tinv, T. rewrite N.lxor_spec, H31.
  destruct (N.testbit c 0) eqn:H0.
  - change (N.testbit poly 31) with true. cbn [xorb].
    rewrite N.lxor_assoc, N.lxor_nilpotent, N.lxor_0_r. now apply shl_shr_1.
  - rewrite N.bits_0. cbn [xorb]. rewrite N.lxor_0_r. now apply shl_shr.
Qed.

Lemma T_inj a b : a < 2 ^ 32 -> b < 2 ^ 32 -> T a = T b -> a = b.
Proof. intros Ha Hb E. rewrite <- (Tinv_T a Ha), <- (Tinv_T b Hb). now f_equal. Qed.

Lemma Titer_inj n : forall a b, a < 2 ^ 32 -> b < 2 ^ 32 ->
  Nat.iter n T a = Nat.iter n T b -> a = b.
Proof.
  induction n as [|n IH]; intros a b Ha Hb E; [exact E|].
  rewrite !iter_S in E. apply T_inj in E; [|now apply Titer_bounded..].
  now apply IH.
Qed.

(* T^k maps non-zero 32-bit states to non-zero 32-bit states *)
Lemma Titer_nonzero n c : c < 2 ^ 32 -> c <> 0 -> Nat.iter n T c <> 0.
Proof.
  intros H Hc E. apply Hc. apply (Titer_inj n); [exact H|reflexivity|].
  now rewrite Titer_0.
Qed.

(* ====================================================================== *)
(* (A) the check is affine                                                *)
(* ====================================================================== *)

Lemma Z_lxor_of_N a b : Z.lxor (Z.of_N a) (Z.of_N b) = Z.of_N (N.lxor a b).
Proof. destruct a, b; reflexivity. Qed.

Lemma to_N_xor_byte x y :
  Byte.to_N (xor_byte x y) = N.lxor (Byte.to_N x) (Byte.to_N y).
Proof.
  unfold xor_byte, bZ, Zb. rewrite Z_lxor_of_N.
  assert (H : N.lxor (Byte.to_N x) (Byte.to_N y) < 2 ^ 8).
  { apply N_lxor_lt_pow2; change (2 ^ 8) with 256;
      [pose proof (Byte.to_N_bounded x)|pose proof (Byte.to_N_bounded y)]; lia. }
  change (2 ^ 8) with 256 in H.
  rewrite Z.mod_small by lia. rewrite N2Z.id.
  destruct (Byte.of_N _) eqn:E.
  - now apply Byte.to_of_N.
  - apply Byte.of_N_None_iff in E. lia.
Qed.

Lemma bits_of_xor_byte x y :
  bits_of_byte (xor_byte x y) = xor_bits (bits_of_byte x) (bits_of_byte y).
Proof.
  unfold bits_of_byte. rewrite to_N_xor_byte. cbn [map xor_bits].
  now rewrite !N.lxor_spec.
Qed.

Lemma xor_bits_app a1 : forall b1 a2 b2, length a1 = length b1 ->
  xor_bits (a1 ++ a2) (b1 ++ b2) = xor_bits a1 b1 ++ xor_bits a2 b2.
Proof.
  induction a1 as [|x a1 IH]; intros [|y b1] a2 b2 H; try discriminate H.
  - reflexivity.
  - cbn [app xor_bits]. f_equal. apply IH. now injection H.
Qed.

Lemma bits_of_xor_bytes m : forall e, length e = length m ->
  bits_of_bytes (xor_bytes m e) = xor_bits (bits_of_bytes m) (bits_of_bytes e).
Proof.
  induction m as [|x m IH]; intros [|y e] H; try discriminate H.
  - reflexivity.
  - cbn [xor_bytes bits_of_bytes flat_map]. rewrite xor_bits_app by reflexivity.
    rewrite bits_of_xor_byte. f_equal. apply IH. now injection H.
Qed.

Lemma bits_of_bytes_length bs : length (bits_of_bytes bs) = (8 * length bs)%nat.
Proof.
  induction bs as [|b bs IH]; [reflexivity|].
  cbn [bits_of_bytes flat_map]. rewrite app_length. fold (bits_of_bytes bs).
  rewrite IH. cbn [bits_of_byte map length]. lia.
Qed.

(* the syndrome of an error pattern *)
Definition syn (e : bytes) : N := crc_update 0 e.

Theorem crc_update_affine c m e : length e = length m ->
  crc_update c (xor_bytes m e) = N.lxor (crc_update c m) (syn e).
Proof.
  intros H. unfold syn, crc_update. rewrite bits_of_xor_bytes by exact H.
  rewrite <- (N.lxor_0_r c) at 1. apply crc_bits_linear.
  rewrite !bits_of_bytes_length. now rewrite H.
Qed.

Theorem crc32_affine : forall m e, length e = length m ->
  crc32 (xor_bytes m e) = Z.lxor (crc32 m) (Z.of_N (crc_update 0 e)).
Proof.
  intros m e H. unfold crc32. rewrite crc_update_affine by exact H.
  rewrite Z_lxor_of_N. f_equal. unfold syn. xor_solve.
Qed.

(* the corrupted message passes the check against the ORIGINAL crc iff the
   syndrome of the error pattern is zero *)
Theorem crc32_detects_iff : forall m e, length e = length m ->
  (crc32 (xor_bytes m e) = crc32 m <-> crc_update 0 e = 0).
Proof.
  intros m e H. rewrite crc32_affine by exact H. split.
  - intros E. apply (f_equal (Z.lxor (crc32 m))) in E.
    rewrite <- Z.lxor_assoc, Z.lxor_nilpotent, Z.lxor_0_l in E.
    now destruct (crc_update 0 e).
  - intros ->. apply Z.lxor_0_r.
Qed.

(* ====================================================================== *)
(* (E) bounds                                                             *)
(* ====================================================================== *)

Theorem syn_bounded e : crc_update 0 e < 2 ^ 32.
Proof. apply crc_update_bounded. reflexivity. Qed.

(* ====================================================================== *)
(* (C) bursts                                                             *)
(* ====================================================================== *)

Definition syn_bits (w : list bool) : N := fold_left step_bit w 0.
Notation zeros := (repeat false).

Lemma crc_bits_zeros k c : fold_left step_bit (zeros k) c = Nat.iter k T c.
Proof.
  revert c. induction k as [|k IH]; intros c; [reflexivity|].
  cbn [repeat fold_left]. rewrite IH, iter_succ_r. f_equal.
  unfold step_bit. cbn [N.b2n]. now rewrite N.lxor_0_r.
Qed.

Lemma syn_bits_zeros_l i w : syn_bits (zeros i ++ w) = syn_bits w.
Proof.
  unfold syn_bits. rewrite fold_left_app, crc_bits_zeros, Titer_0. reflexivity.
Qed.

(* a window u of at most 32 bits, zeros around it *)
Lemma syn_bits_window i u k :
  syn_bits (zeros i ++ u ++ zeros k) =
  Nat.iter k T (Nat.iter (length u) T (N_of_bits u)).
Proof.
  rewrite syn_bits_zeros_l. unfold syn_bits.
  rewrite fold_left_app, crc_bits_zeros, crc_bits_load, N.lxor_0_l. reflexivity.
Qed.

Lemma syn_bits_window_nonzero i u k : (length u <= 32)%nat -> In true u ->
  syn_bits (zeros i ++ u ++ zeros k) <> 0.
Proof.
  intros Hl Hu. rewrite syn_bits_window.
  assert (Hb : N_of_bits u < 2 ^ 32).
  { eapply N.lt_le_trans; [apply N_of_bits_bounded|].
    apply N.pow_le_mono_r; [discriminate|]. lia. }
  apply Titer_nonzero; [now apply Titer_bounded|].
  apply Titer_nonzero; [exact Hb|]. now apply N_of_bits_nonzero.
Qed.

(* index of the first / last set bit, and the span between them *)
Fixpoint first_set (w : list bool) : option nat :=
  match w with
  | [] => None
  | b :: r => if b then Some O else option_map S (first_set r)
  end.

Fixpoint last_set (w : list bool) : option nat :=
  match w with
  | [] => None
  | b :: r => match last_set r with
              | Some j => Some (S j)
              | None => if b then Some O else None
              end
  end.

Definition burst_span (w : list bool) : nat :=
  match first_set w, last_set w with
  | Some i, Some j => j - i + 1
  | _, _ => O
  end.

Example burst_span_ex1 : burst_span [false; true; false; false; true; false] = 4%nat.
Proof. reflexivity. Qed.
Example burst_span_ex2 : burst_span [false; false; true] = 1%nat.
Proof. reflexivity. Qed.
Example burst_span_ex3 : burst_span [false; false] = 0%nat.
Proof. reflexivity. Qed.

Lemma first_set_None w : first_set w = None -> w = zeros (length w).
Proof.
  induction w as [|[|] w IH]; cbn [first_set length repeat]; intros H;
    [reflexivity|discriminate|].
  f_equal. apply IH. now destruct (first_set w).
Qed.

Lemma first_set_Some w : forall i, first_set w = Some i ->
  exists r, w = zeros i ++ true :: r.
Proof.
  induction w as [|[|] w IH]; cbn [first_set]; intros i H; [discriminate| |].
  - injection H as <-. now exists w.
  - destruct (first_set w) as [i'|]; [|discriminate]. injection H as <-.
    destruct (IH i' eq_refl) as [r ->]. now exists r.
Qed.

Lemma last_set_None w : last_set w = None -> w = zeros (length w).
Proof.
  induction w as [|b w IH]; cbn [last_set length repeat]; intros H; [reflexivity|].
  destruct (last_set w); [discriminate|]. destruct b; [discriminate|].
  f_equal. now apply IH.
Qed.

Lemma last_set_Some w : forall j, last_set w = Some j ->
  exists u k, w = u ++ true :: zeros k /\ length u = j.
Proof.
  induction w as [|b w IH]; cbn [last_set]; intros j H; [discriminate|].
  destruct (last_set w) as [j'|] eqn:E.
  - injection H as <-. destruct (IH j' eq_refl) as (u & k & -> & Hu).
    exists (b :: u), k. split; [reflexivity|]. cbn [length]. now rewrite Hu.
  - destruct b; [|discriminate]. injection H as <-.
    exists [], (length w). split; [|reflexivity]. cbn [app]. f_equal.
    now apply last_set_None.
Qed.

Lemma last_set_zeros_true i r :
  last_set (zeros i ++ true :: r) =
  Some (i + match last_set r with Some j => S j | None => O end)%nat.
Proof.
  induction i as [|i IH].
  - cbn [repeat app last_set Nat.add]. now destruct (last_set r).
  - cbn [repeat app last_set]. rewrite IH. reflexivity.
Qed.

Lemma first_set_zeros_true i r : first_set (zeros i ++ true :: r) = Some i.
Proof.
  induction i as [|i IH]; [reflexivity|]. cbn [repeat app first_set]. now rewrite IH.
Qed.

Lemma burst_decomp w : In true w ->
  exists i u k, w = zeros i ++ (true :: u) ++ zeros k /\ burst_span w = S (length u).
Proof.
  intros Hin. destruct (first_set w) as [i|] eqn:Ef.
  2:{ apply first_set_None in Ef. rewrite Ef in Hin.
      apply repeat_spec in Hin. discriminate. }
  destruct (first_set_Some _ _ Ef) as [r ->]. clear Ef Hin.
  unfold burst_span. rewrite first_set_zeros_true, last_set_zeros_true.
  destruct (last_set r) as [j|] eqn:El.
  - destruct (last_set_Some _ _ El) as (u & k & -> & Hu).
    exists i, (u ++ [true]), k. split.
    + cbn [app]. now rewrite <- !app_assoc.
    + rewrite app_length. cbn [length]. lia.
  - apply last_set_None in El. exists i, [], (length r). split.
    + cbn [app]. now rewrite <- El.
    + cbn [length]. lia.
Qed.

Theorem syn_bits_burst w : In true w -> (burst_span w <= 32)%nat -> syn_bits w <> 0.
Proof.
  intros Hin Hs. destruct (burst_decomp w Hin) as (i & u & k & -> & E).
  apply syn_bits_window_nonzero; [cbn [length]; lia|now left].
Qed.

Theorem syn_burst : forall e, In true (bits_of_bytes e) ->
  (burst_span (bits_of_bytes e) <= 32)%nat -> crc_update 0 e <> 0.
Proof. intros e. apply syn_bits_burst. Qed.

(* ====================================================================== *)
(* (D) corollaries                                                        *)
(* ====================================================================== *)

(* number of set bits *)
Fixpoint weight (w : list bool) : nat :=
  match w with [] => O | b :: r => ((if b then 1 else 0) + weight r)%nat end.

Lemma weight_0 w : weight w = O -> w = zeros (length w).
Proof.
  induction w as [|[|] w IH]; cbn [weight length repeat]; intros H;
    [reflexivity|discriminate|].
  f_equal. now apply IH.
Qed.

Lemma weight_S w : forall n, weight w = S n ->
  exists i r, w = zeros i ++ true :: r /\ weight r = n.
Proof.
  induction w as [|[|] w IH]; cbn [weight]; intros n H; [discriminate| |].
  - exists O, w. split; [reflexivity|]. now injection H.
  - destruct (IH n H) as (i & r & -> & Hr). now exists (S i), r.
Qed.

Lemma weight_1 w : weight w = 1%nat ->
  exists i k, w = zeros i ++ true :: zeros k /\ length w = (i + 1 + k)%nat.
Proof.
  intros H. destruct (weight_S w _ H) as (i & r & -> & Hr).
  apply weight_0 in Hr. exists i, (length r). split; [now rewrite <- Hr|].
  rewrite app_length, repeat_length. cbn [length]. lia.
Qed.

Lemma weight_2 w : weight w = 2%nat ->
  exists i d k, w = zeros i ++ true :: zeros d ++ true :: zeros k /\
                length w = (i + 1 + d + 1 + k)%nat.
Proof.
  intros H. destruct (weight_S w _ H) as (i & r & -> & Hr).
  destruct (weight_1 r Hr) as (d & k & -> & Hl). exists i, d, k.
  split; [reflexivity|]. rewrite app_length, repeat_length. cbn [length]. lia.
Qed.

Theorem syn_bits_single w : weight w = 1%nat -> syn_bits w <> 0.
Proof.
  intros H. destruct (weight_1 w H) as (i & k & -> & _).
  apply (syn_bits_window_nonzero i [true] k); [cbn; lia|now left].
Qed.

(* exactly one bit set anywhere in e *)
Theorem syn_single_bit : forall e, weight (bits_of_bytes e) = 1%nat ->
  crc_update 0 e <> 0.
Proof. intros e. apply syn_bits_single. Qed.

Lemma bits_of_zero_bytes n : bits_of_bytes (repeat x00 n) = zeros (8 * n).
Proof.
  induction n as [|n IH]; [reflexivity|].
  cbn [repeat bits_of_bytes flat_map]. fold (bits_of_bytes (repeat x00 n)).
  rewrite IH. replace (8 * S n)%nat with (8 + 8 * n)%nat by lia. reflexivity.
Qed.

Lemma bits_of_byte_nonzero b : b <> x00 -> In true (bits_of_byte b).
Proof.
  intros H. destruct (in_dec bool_dec true (bits_of_byte b)) as [Hi|Hn]; [exact Hi|].
  exfalso. apply H. clear H. revert Hn.
  destruct b; try reflexivity; intros Hn; exfalso; apply Hn; vm_compute; tauto.
Qed.

Lemma bits_of_bytes_nonzero bs : (exists b, In b bs /\ b <> x00) ->
  In true (bits_of_bytes bs).
Proof.
  intros (b & Hb & Hz). unfold bits_of_bytes. apply in_flat_map.
  exists b. split; [exact Hb|]. now apply bits_of_byte_nonzero.
Qed.

(* e is non-zero and all its set bits lie inside (at most) 4 consecutive bytes *)
Theorem syn_four_bytes : forall i mid k, (length mid <= 4)%nat ->
  (exists b, In b mid /\ b <> x00) ->
  crc_update 0 (repeat x00 i ++ mid ++ repeat x00 k) <> 0.
Proof.
  intros i mid k Hl Hm. unfold crc_update, bits_of_bytes.
  rewrite !flat_map_app. fold (bits_of_bytes (repeat x00 i)).
  fold (bits_of_bytes (repeat x00 k)). fold (bits_of_bytes mid).
  rewrite !bits_of_zero_bytes. apply syn_bits_window_nonzero.
  - rewrite bits_of_bytes_length. lia.
  - now apply bits_of_bytes_nonzero.
Qed.

(* ====================================================================== *)
(* (F) the order of T on 32-bit states is exactly 2^32 - 1                *)
(* ====================================================================== *)

(* iterates indexed by N (never unfolded on large arguments) *)
Definition Tn (n : N) (x : N) : N := N.iter n T x.

Lemma Tn_nat n x : Tn n x = Nat.iter (N.to_nat n) T x.
Proof. apply N2Nat.inj_iter. Qed.

Lemma Tn_of_nat n x : Nat.iter n T x = Tn (N.of_nat n) x.
Proof. apply Nat2N.inj_iter. Qed.

Lemma Tn_add n m x : Tn (n + m) x = Tn n (Tn m x).
Proof. apply N.iter_add. Qed.

Lemma Tn_succ n x : Tn (N.succ n) x = Tn n (T x).
Proof. rewrite <- N.add_1_r, Tn_add. reflexivity. Qed.

Lemma Tn_bounded n x : x < 2 ^ 32 -> Tn n x < 2 ^ 32.
Proof. rewrite Tn_nat. apply Titer_bounded. Qed.

Lemma Tn_inj n a b : a < 2 ^ 32 -> b < 2 ^ 32 -> Tn n a = Tn n b -> a = b.
Proof. rewrite !Tn_nat. apply Titer_inj. Qed.

Definition lin (f : N -> N) : Prop := forall a b, f (N.lxor a b) = N.lxor (f a) (f b).

Lemma lin_0 f : lin f -> f 0 = 0.
Proof.
  intros L. pose proof (L 0 0) as H. rewrite N.lxor_0_l in H.
  rewrite H at 1. apply N.lxor_nilpotent.
Qed.

Lemma Tn_lin n : lin (Tn n).
Proof. intros a b. rewrite !Tn_nat. apply Titer_linear. Qed.

(* ---- 32x32 bit matrices: the list of the images of 2^0 .. 2^31 -------- *)

Fixpoint basis_from (k : N) (n : nat) : list N :=
  match n with O => [] | S n' => N.shiftl 1 k :: basis_from (N.succ k) n' end.
Definition basis : list N := basis_from 0 32.

Fixpoint mapply (m : list N) (x : N) : N :=
  match m with
  | [] => 0
  | c :: r => N.lxor (if N.odd x then c else 0) (mapply r (N.div2 x))
  end.

Lemma odd_div2_decomp x : x = N.lxor (N.b2n (N.odd x)) (N.shiftl (N.div2 x) 1).
Proof. destruct x as [|[p|p|]]; reflexivity. Qed.

Lemma shiftl_decomp x k :
  N.shiftl x k =
  N.lxor (if N.odd x then N.shiftl 1 k else 0) (N.shiftl (N.div2 x) (N.succ k)).
Proof.
  rewrite <- N.add_1_l, <- N.shiftl_shiftl.
  replace (if N.odd x then N.shiftl 1 k else 0) with (N.shiftl (N.b2n (N.odd x)) k)
    by (destruct (N.odd x); [reflexivity|apply N.shiftl_0_l]).
  rewrite <- N.shiftl_lxor. f_equal. apply odd_div2_decomp.
Qed.

Lemma mapply_repr_from f : lin f -> forall n k x, x < 2 ^ N.of_nat n ->
  mapply (map f (basis_from k n)) x = f (N.shiftl x k).
Proof.
  intros L. induction n as [|n IH]; intros k x Hx.
  - change (2 ^ N.of_nat 0) with 1 in Hx. assert (x = 0) as -> by lia.
    rewrite N.shiftl_0_l. cbn. symmetry. now apply lin_0.
  - cbn [basis_from map mapply]. rewrite IH.
    + rewrite (shiftl_decomp x k), L. f_equal.
      destruct (N.odd x); [reflexivity|]. symmetry. now apply lin_0.
    + rewrite Nat2N.inj_succ, N.pow_succ_r' in Hx. rewrite N.div2_div.
      apply N.div_lt_upper_bound; [discriminate|exact Hx].
Qed.

Lemma mapply_repr f x : lin f -> x < 2 ^ 32 -> mapply (map f basis) x = f x.
Proof.
  intros L Hx. unfold basis. rewrite mapply_repr_from; [|exact L|exact Hx].
  now rewrite N.shiftl_0_r.
Qed.

Lemma basis_spec e : In e basis -> exists j, j < 32 /\ e = 2 ^ j.
Proof.
  intros H. vm_compute in H.
  repeat (destruct H as [<-|H];
          [match goal with |- exists j, _ /\ ?e = _ => exists (N.log2 e) end;
           split; reflexivity|]).
  destruct H.
Qed.

(* two linear maps that agree on the 32 basis vectors agree on all states *)
Lemma lin_ext f g : lin f -> lin g -> (forall j, j < 32 -> f (2 ^ j) = g (2 ^ j)) ->
  forall x, x < 2 ^ 32 -> f x = g x.
Proof.
  intros Lf Lg H x Hx.
  rewrite <- (mapply_repr f x Lf Hx), <- (mapply_repr g x Lg Hx). f_equal.
  apply map_ext_in. intros e He. destruct (basis_spec e He) as (j & Hj & ->).
  now apply H.
Qed.

(* ---- powers of T by repeated squaring --------------------------------- *)

Definition Tp (p : positive) (x : N) : N := Pos.iter T x p.

Lemma Tp_lin p : lin (Tp p).
Proof.
  unfold Tp. induction p as [p IH|p IH|]; intros a b; cbn [Pos.iter].
  - now rewrite !IH, T_linear.
  - now rewrite !IH.
  - apply T_linear.
Qed.

Lemma Tp_bounded p : forall x, x < 2 ^ 32 -> Tp p x < 2 ^ 32.
Proof.
  unfold Tp. induction p as [p IH|p IH|]; intros x Hx; cbn [Pos.iter].
  - now apply T_bounded, IH, IH.
  - now apply IH, IH.
  - now apply T_bounded.
Qed.

Definition mcomp (a b : list N) : list N := map (mapply a) b.

Fixpoint mpow (p : positive) : list N :=
  match p with
  | xH => map T basis
  | xO p' => let m := mpow p' in mcomp m m
  | xI p' => let m := mpow p' in map T (mcomp m m)
  end.

Lemma basis_bounded e : In e basis -> e < 2 ^ 32.
Proof.
  intros H. destruct (basis_spec e H) as (j & Hj & ->).
  apply N.pow_lt_mono_r; [reflexivity|exact Hj].
Qed.

Lemma mcomp_sq p :
  mcomp (map (Tp p) basis) (map (Tp p) basis) = map (fun x => Tp p (Tp p x)) basis.
Proof.
  unfold mcomp. rewrite map_map. apply map_ext_in. intros e He.
  apply mapply_repr; [apply Tp_lin|]. now apply Tp_bounded, basis_bounded.
Qed.

Lemma mpow_correct p : mpow p = map (Tp p) basis.
Proof.
  induction p as [p IH|p IH|]; cbn [mpow].
  - rewrite IH, mcomp_sq, map_map. reflexivity.
  - rewrite IH, mcomp_sq. reflexivity.
  - reflexivity.
Qed.

Lemma Tn_pos_compute p : Tn (Npos p) 1 = mapply (mpow p) 1.
Proof.
  rewrite mpow_correct, mapply_repr; [reflexivity|apply Tp_lin|reflexivity].
Qed.

(* ---- the computed facts ------------------------------------------------ *)

Definition M : N := 4294967295.       (* 2^32 - 1 = 3 * 5 * 17 * 257 * 65537 *)

Lemma TM_1 : Tn 4294967295 1 = 1.
Proof. rewrite Tn_pos_compute. vm_compute. reflexivity. Qed.

Lemma TM_3 : Tn 1431655765 1 <> 1.
Proof. rewrite Tn_pos_compute. vm_compute. discriminate. Qed.
Lemma TM_5 : Tn 858993459 1 <> 1.
Proof. rewrite Tn_pos_compute. vm_compute. discriminate. Qed.
Lemma TM_17 : Tn 252645135 1 <> 1.
Proof. rewrite Tn_pos_compute. vm_compute. discriminate. Qed.
Lemma TM_257 : Tn 16711935 1 <> 1.
Proof. rewrite Tn_pos_compute. vm_compute. discriminate. Qed.
Lemma TM_65537 : Tn 65535 1 <> 1.
Proof. rewrite Tn_pos_compute. vm_compute. discriminate. Qed.

(* ---- from the cyclic vector 1 to all states ---------------------------- *)

Definition fixes (n : N) : Prop := forall x, x < 2 ^ 32 -> Tn n x = x.

Lemma Tn_pow2 j : Tn j (2 ^ j) = 1.
Proof.
  induction j as [|j IH] using N.peano_ind; [reflexivity|].
  now rewrite Tn_succ, N.pow_succ_r', T_double.
Qed.

Lemma fixes_of_one n : Tn n 1 = 1 -> fixes n.
Proof.
  intros H. unfold fixes.
  apply (lin_ext (Tn n) (fun x => x)); [apply Tn_lin|now intros a b|].
  intros j Hj.
  assert (Hb : 2 ^ j < 2 ^ 32) by (apply N.pow_lt_mono_r; [reflexivity|exact Hj]).
  apply (Tn_inj j); [now apply Tn_bounded|exact Hb|].
  now rewrite <- Tn_add, N.add_comm, Tn_add, Tn_pow2.
Qed.

Lemma fixes_add n m : fixes n -> fixes m -> fixes (n + m).
Proof. intros Hn Hm x Hx. now rewrite Tn_add, Hm, Hn. Qed.

Lemma fixes_mul k n : fixes n -> fixes (k * n).
Proof.
  intros Hn. induction k as [|k IH] using N.peano_ind.
  - intros x _. reflexivity.
  - rewrite N.mul_succ_l. now apply fixes_add.
Qed.

Lemma fixes_cancel g m : fixes (g + m) -> fixes m -> fixes g.
Proof. intros Hgm Hm x Hx. rewrite <- (Hm x Hx) at 1. now rewrite <- Tn_add, Hgm. Qed.

Lemma fixes_gcd n m : 0 < n -> fixes n -> fixes m -> fixes (N.gcd n m).
Proof.
  intros H0 Hn Hm. destruct (N.gcd_bezout_pos n m H0) as (a & b & E).
  apply (fixes_cancel _ (b * m)); [|now apply fixes_mul].
  rewrite <- E. now apply fixes_mul.
Qed.

(* ---- primality of the five Fermat primes, by a computed sweep --------- *)

Definition isprime (p : N) : Prop := forall d, (d | p) -> d = 1 \/ d = p.

Definition chk_step (p : N) (st : N * bool) : N * bool :=
  (N.succ (fst st), snd st && negb (p mod fst st =? 0)).
Definition chk (p : N) : bool := snd (N.iter (p - 2) (chk_step p) (2, true)).

Lemma chk_inv p n :
  fst (N.iter n (chk_step p) (2, true)) = 2 + n /\
  (snd (N.iter n (chk_step p) (2, true)) = true ->
   forall d, 2 <= d < 2 + n -> p mod d <> 0).
Proof.
  induction n as [|n [Hf Hs]] using N.peano_ind.
  - split; [reflexivity|]. intros _ d Hd. lia.
  - rewrite N.iter_succ. unfold chk_step at 1 3. cbn [fst snd]. split; [lia|].
    intros Hok d Hd. apply andb_true_iff in Hok as [Hok1 Hok2].
    destruct (N.eq_dec d (2 + n)) as [->|Hne].
    + rewrite Hf in Hok2. now apply negb_true_iff, N.eqb_neq in Hok2.
    + apply Hs; [exact Hok1|lia].
Qed.

Lemma chk_ok p : 2 <= p -> chk p = true -> isprime p.
Proof.
  intros Hp Hc d Hd. destruct (chk_inv p (p - 2)) as [_ Hs]. specialize (Hs Hc).
  assert (Hd0 : d <> 0) by (intros ->; apply N.divide_0_l in Hd; lia).
  assert (Hle : d <= p) by (apply N.divide_pos_le; [lia|exact Hd]).
  destruct (N.eq_dec d 1) as [?|H1]; [now left|].
  destruct (N.eq_dec d p) as [?|H2]; [now right|].
  exfalso. apply (Hs d); [lia|]. now apply N.mod_divide.
Qed.

Lemma prime_3 : isprime 3. Proof. apply chk_ok; [discriminate|vm_compute; reflexivity]. Qed.
Lemma prime_5 : isprime 5. Proof. apply chk_ok; [discriminate|vm_compute; reflexivity]. Qed.
Lemma prime_17 : isprime 17. Proof. apply chk_ok; [discriminate|vm_compute; reflexivity]. Qed.
Lemma prime_257 : isprime 257. Proof. apply chk_ok; [discriminate|vm_compute; reflexivity]. Qed.
Lemma prime_65537 : isprime 65537. Proof. apply chk_ok; [discriminate|vm_compute; reflexivity]. Qed.

Lemma coprime_or_div p q : isprime p -> N.gcd q p = 1 \/ (p | q).
Proof.
  intros Hp. destruct (Hp _ (N.gcd_divide_r q p)) as [E|E]; [now left|right].
  rewrite <- E. apply N.gcd_divide_l.
Qed.

Lemma prime_div_M q : (q | M) -> q <> 1 ->
  (3 | q) \/ (5 | q) \/ (17 | q) \/ (257 | q) \/ (65537 | q).
Proof.
  intros H Hq.
  destruct (coprime_or_div 3 q prime_3) as [G3|?]; [|tauto].
  destruct (coprime_or_div 5 q prime_5) as [G5|?]; [|tauto].
  destruct (coprime_or_div 17 q prime_17) as [G17|?]; [|tauto].
  destruct (coprime_or_div 257 q prime_257) as [G257|?]; [|tauto].
  destruct (coprime_or_div 65537 q prime_65537) as [G65537|?]; [|tauto].
  exfalso. apply Hq.
  change M with (3 * (5 * (17 * (257 * (65537 * 1))))) in H.
  apply N.gauss in H; [|exact G3]. apply N.gauss in H; [|exact G5].
  apply N.gauss in H; [|exact G17]. apply N.gauss in H; [|exact G257].
  apply N.gauss in H; [|exact G65537]. now apply N.divide_1_r.
Qed.

(* ---- the order theorem -------------------------------------------------- *)

Lemma order_aux p Lp q g : M = Lp * p -> p <> 0 -> Tn Lp 1 <> 1 ->
  (p | q) -> M = q * g -> fixes g -> False.
Proof.
  intros HLp Hp Hnf [r ->] Hq Hg.
  assert (E : r * g = Lp).
  { apply (N.mul_cancel_r _ _ p Hp). rewrite <- HLp, Hq. ring. }
  apply Hnf. rewrite <- E. apply fixes_mul; [exact Hg|reflexivity].
Qed.

(* T^M is the identity on 32-bit states, and no smaller positive power is *)
Theorem T_period : fixes M.
Proof. apply fixes_of_one, TM_1. Qed.

Theorem T_order : forall n, 0 < n < M -> ~ fixes n.
Proof.
  intros n [Hn0 HnM] Hf.
  pose proof (fixes_gcd n M Hn0 Hf T_period) as Hg.
  destruct (N.gcd_divide_r n M) as [q Hq].
  assert (Hle : N.gcd n M <= n) by (apply N.divide_pos_le; [exact Hn0|apply N.gcd_divide_l]).
  assert (Hq1 : q <> 1) by (intros ->; lia).
  assert (HqM : (q | M)) by (exists (N.gcd n M); rewrite Hq at 1; apply N.mul_comm).
  destruct (prime_div_M q HqM Hq1) as [D|[D|[D|[D|D]]]].
  - apply (order_aux 3 1431655765 q (N.gcd n M) eq_refl); [discriminate|exact TM_3|exact D|exact Hq|exact Hg].
  - apply (order_aux 5 858993459 q (N.gcd n M) eq_refl); [discriminate|exact TM_5|exact D|exact Hq|exact Hg].
  - apply (order_aux 17 252645135 q (N.gcd n M) eq_refl); [discriminate|exact TM_17|exact D|exact Hq|exact Hg].
  - apply (order_aux 257 16711935 q (N.gcd n M) eq_refl); [discriminate|exact TM_257|exact D|exact Hq|exact Hg].
  - apply (order_aux 65537 65535 q (N.gcd n M) eq_refl); [discriminate|exact TM_65537|exact D|exact Hq|exact Hg].
Qed.

(* the same for the cyclic vector alone, with nat exponents *)
Corollary Titer_one_order n : (0 < Z.of_nat n < 2 ^ 32 - 1)%Z -> Nat.iter n T 1 <> 1.
Proof.
  intros Hn E. rewrite Tn_of_nat in E. apply fixes_of_one in E.
  apply (T_order (N.of_nat n)); [|exact E]. unfold M. lia.
Qed.

(* ====================================================================== *)
(* (F) double-bit errors, and single-bit syndromes of weight >= 2         *)
(* ====================================================================== *)

Lemma step_bit_0_true : step_bit 0 true = T 1.
Proof. reflexivity. Qed.

(* a single set bit followed by k zero bits: the syndrome is T^(k+1) 1 *)
Lemma syn_bits_one i k : syn_bits (zeros i ++ true :: zeros k) = Nat.iter (S k) T 1.
Proof.
  rewrite syn_bits_zeros_l. unfold syn_bits. cbn [fold_left].
  now rewrite crc_bits_zeros, step_bit_0_true, iter_succ_r.
Qed.

(* two set bits at distance d+1, the second followed by k zero bits *)
Lemma syn_bits_two i d k :
  syn_bits (zeros i ++ true :: zeros d ++ true :: zeros k) =
  Nat.iter (S k) T (N.lxor (Nat.iter (S d) T 1) 1).
Proof.
  rewrite syn_bits_zeros_l. unfold syn_bits. cbn [fold_left].
  rewrite fold_left_app, crc_bits_zeros. cbn [fold_left].
  rewrite crc_bits_zeros, step_bit_0_true, <- iter_succ_r.
  unfold step_bit at 1. cbn [N.b2n]. now rewrite <- iter_succ_r.
Qed.

Theorem syn_bits_double w : weight w = 2%nat ->
  (Z.of_nat (length w) <= 2 ^ 32 - 1)%Z -> syn_bits w <> 0.
Proof.
  intros H Hl. destruct (weight_2 w H) as (i & d & k & -> & El).
  rewrite syn_bits_two. intros E.
  assert (Hb : Nat.iter (S d) T 1 < 2 ^ 32) by (apply Titer_bounded; reflexivity).
  apply (Titer_nonzero (S k)) in E; [exact E| |].
  - apply N_lxor_lt_pow2; [exact Hb|reflexivity].
  - intros E1. apply N.lxor_eq in E1. revert E1. apply Titer_one_order. lia.
Qed.

(* exactly two bits set in e, e shorter than 2^29 bytes *)
Theorem syn_double_bit : forall e, weight (bits_of_bytes e) = 2%nat ->
  (8 * Z.of_nat (length e) <= 2 ^ 32 - 1)%Z -> crc_update 0 e <> 0.
Proof.
  intros e H Hl. apply syn_bits_double; [exact H|].
  rewrite bits_of_bytes_length. lia.
Qed.

Theorem syn_bits_single_not_weight1 w : weight w = 1%nat ->
  (Z.of_nat (length w) < 2 ^ 32 - 32)%Z -> forall j, syn_bits w <> 2 ^ j.
Proof.
  intros H Hl j E. destruct (weight_1 w H) as (i & k & -> & El).
  rewrite syn_bits_one in E.
  assert (Hb : Nat.iter (S k) T 1 < 2 ^ 32) by (apply Titer_bounded; reflexivity).
  destruct (N.lt_ge_cases j 32) as [Hj|Hj].
  - apply (f_equal (Nat.iter (N.to_nat j) T)) in E.
    rewrite <- iter_add, <- (Tn_nat j (2 ^ j)), Tn_pow2 in E.
    revert E. apply Titer_one_order. lia.
  - apply (N.pow_le_mono_r 2) in Hj; [|discriminate]. rewrite <- E in Hj. lia.
Qed.

(* exactly one bit set in e: the syndrome is not a power of two, i.e. it has
   at least two bits set (it is non-zero by syn_single_bit), so it cannot be
   cancelled by flipping one bit of a stored CRC field *)
Theorem syn_single_not_weight1 : forall e, weight (bits_of_bytes e) = 1%nat ->
  (8 * Z.of_nat (length e) < 2 ^ 32 - 32)%Z -> forall j, crc_update 0 e <> 2 ^ j.
Proof.
  intros e H Hl. apply syn_bits_single_not_weight1; [exact H|].
  rewrite bits_of_bytes_length. lia.
Qed.

(* Kafka form: one bit of the data flipped and one bit (2^j) of the stored
   CRC flipped is always detected *)
Theorem crc32_flip_data_and_field : forall m e (j : N), length e = length m ->
  weight (bits_of_bytes e) = 1%nat -> (8 * Z.of_nat (length e) < 2 ^ 32 - 32)%Z ->
  crc32 (xor_bytes m e) <> Z.lxor (crc32 m) (2 ^ Z.of_N j)%Z.
Proof.
  intros m e j Hlen H Hl E. rewrite crc32_affine in E by exact Hlen.
  apply (f_equal (Z.lxor (crc32 m))) in E.
  rewrite <- !Z.lxor_assoc, Z.lxor_nilpotent, !Z.lxor_0_l in E.
  change 2%Z with (Z.of_N 2) in E. rewrite <- N2Z.inj_pow in E.
  apply N2Z.inj in E. revert E. now apply syn_single_not_weight1.
Qed.

(* two flipped data bits are always detected (against the original CRC) *)
Theorem crc32_flip_two_data_bits : forall m e, length e = length m ->
  weight (bits_of_bytes e) = 2%nat -> (8 * Z.of_nat (length e) <= 2 ^ 32 - 1)%Z ->
  crc32 (xor_bytes m e) <> crc32 m.
Proof.
  intros m e Hlen H Hl E. apply crc32_detects_iff in E; [|exact Hlen].
  revert E. now apply syn_double_bit.
Qed.

(* ---------------------------------------------------------------------- *)
Print Assumptions crc32_affine.
Print Assumptions crc32_detects_iff.
Print Assumptions T_linear.
Print Assumptions crc_bits_load.
Print Assumptions Tinv_T.
Print Assumptions Titer_nonzero.
Print Assumptions syn_burst.
Print Assumptions syn_single_bit.
Print Assumptions syn_four_bytes.
Print Assumptions syn_bounded.
Print Assumptions T_period.
Print Assumptions T_order.
Print Assumptions syn_double_bit.
Print Assumptions syn_single_not_weight1.
Print Assumptions crc32_flip_data_and_field.
Print Assumptions crc32_flip_two_data_bits.
