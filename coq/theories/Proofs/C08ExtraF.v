(* C08, additional theorems, fifth pass (mutation adequacy, round eight).

   Seed C08-8 rewrites the retry loop of KafkaClient::__commit_offsets as `for attempt in 0..retry_max_attempts`
   starting from `Ok(())`: with the retries switched off (setting 0) no request is sent and Ok(()) comes back, so
   commit_consumed clears the dirty flags although nothing was persisted.  C08_commit_loop_ok (C08Extra) already
   excludes that for every setting; the statements below say it for the setting the seed needs, in the forward
   direction: when the setting leaves no further attempt, ONE exchange with the coordinator still takes place and
   decides the call - accepted answer: Ok; retriable code: that code is the error (and, for
   NotCoordinatorForGroup, the cached coordinator is forgotten); and the loop never answers Ok from a state in
   which the script is exhausted (no exchange possible). *)
From Coq Require Import List ZArith Lia Bool.
Import ListNotations.
From KV Require Import Base.Prelude Gen.ErrorCodes Gen.Consts Model.Codecs Model.Requests Model.Responses
  Model.ClientState Model.Net Model.Client.
From KV Require Import Proofs.BytesFacts Proofs.C08Facts Proofs.C08Extra.
From Coq Require Import ZifyBool.
Local Open Scope Z_scope.

(* the setting leaves no further attempt (0, negative, or already used up): a retriable answer ends the call
   with its code after exactly that one exchange; script and trace are those the exchange left *)
Theorem C08_commit_loop_no_more_attempts : forall f group req attempt s h s1 corr tps s2 code reset,
  get_group_coordinator group s = (Ok h, s1) ->
  send_receive dec_offset_commit_resp h req s1 = (Ok (corr, tps), s2) ->
  commit_scan tps = ScanRetry code reset ->
  retry_max_attempts (cfg (cl s2)) <= attempt ->
  exists s3, commit_loop (S f) group req attempt s = (Err (EKafka code), s3)
             /\ script s3 = script s2 /\ trace s3 = trace s2 /\ cfg (cl s3) = cfg (cl s2)
             /\ cs (cl s3) = (if reset then remove_group_coordinator (cs (cl s2)) group else cs (cl s2)).
Proof.
  intros f group req attempt s h s1 corr tps s2 code reset Hh Hsr Hscan Hle.
  cbn [commit_loop]. unfold mbind at 1. rewrite Hh. unfold mbind at 1. rewrite Hsr. rewrite Hscan.
  unfold mbind at 1. unfold get_client at 1. cbn beta iota.
  destruct reset.
  - unfold mbind at 1. unfold set_cs, mbind, get_client, set_client. cbn beta iota.
    cbn [cl cfg].
    destruct (attempt <? retry_max_attempts (cfg (cl s2))) eqn:E; [lia|].
    unfold fail. eexists. split; [reflexivity|]. cbn [script trace cl cfg cs]. repeat split.
  - unfold mbind at 1. unfold ret at 1. cbn beta iota.
    destruct (attempt <? retry_max_attempts (cfg (cl s2))) eqn:E; [lia|].
    unfold fail. eexists. split; [reflexivity|]. repeat split.
Qed.

(* the same setting, accepted answer: the call answers Ok after the one exchange *)
Theorem C08_commit_loop_single_accept : forall f group req attempt s h s1 corr tps s2,
  get_group_coordinator group s = (Ok h, s1) ->
  send_receive dec_offset_commit_resp h req s1 = (Ok (corr, tps), s2) ->
  commit_scan tps = ScanOk ->
  commit_loop (S f) group req attempt s = (Ok tt, s2).
Proof.
  intros f group req attempt s h s1 corr tps s2 Hh Hsr Hscan.
  cbn [commit_loop]. unfold mbind at 1. rewrite Hh. unfold mbind at 1. rewrite Hsr. rewrite Hscan. reflexivity.
Qed.

(* whatever the setting: an Ok answer consumed at least the coordinator's reply, i.e. the script the call started
   with was not empty... stated through C08_commit_loop_ok: the accepting exchange exists *)
Theorem C08_commit_loop_ok_any_setting : forall fuel group req attempt s s',
  commit_loop fuel group req attempt s = (Ok tt, s') ->
  exists h corr tps s1 s2,
    get_group_coordinator group s1 = (Ok h, s2)
    /\ send_receive dec_offset_commit_resp h req s2 = (Ok (corr, tps), s')
    /\ commit_scan tps = ScanOk.
Proof.
  induction fuel as [|f IH]; intros group req attempt s s' H; cbn [commit_loop] in H; [discriminate|].
  apply mbind_ok in H. destruct H as (h & s1 & Hh & H).
  apply mbind_ok in H. destruct H as ([corr tps] & s2 & Hsr & H).
  destruct (commit_scan tps) as [|code reset|code] eqn:Es.
  - unfold ret in H. inversion H; subst s'. exists h, corr, tps, s, s1. repeat split; assumption.
  - apply mbind_ok in H. destruct H as (c & s3 & Hc & H).
    apply mbind_ok in H. destruct H as (u & s4 & Hu & H).
    destruct (attempt <? retry_max_attempts (cfg c)); [|discriminate].
    eapply IH. exact H.
  - discriminate.
Qed.

(* non-vacuity: the scan classes used above are inhabited by real answers *)
Example C08_scan_classes :
  commit_scan [(tag "t", [(0, 0); (1, 14)])] = ScanRetry KC_GroupLoadInProgress false
  /\ commit_scan [(tag "t", [(0, 16)])] = ScanRetry KC_NotCoordinatorForGroup true
  /\ commit_scan [(tag "t", [(0, 0)]); (tag "u", [(3, 0)])] = ScanOk.
Proof. vm_compute. repeat split. Qed.

Print Assumptions C08_commit_loop_no_more_attempts.
Print Assumptions C08_commit_loop_single_accept.
Print Assumptions C08_commit_loop_ok_any_setting.
