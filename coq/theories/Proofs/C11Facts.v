(* Error codes: the code table (re-proved against the regenerated enum) and the
   per-API consultation points. *)
From KV Require Import Base.Prelude Gen.ErrorCodes Gen.Consts Model.Codecs Model.Requests Model.Responses
                       Model.ClientState Model.Net Model.Client.
From Coq Require Import ZifyBool.
Ltac Zify.zify_post_hook ::= Z.div_mod_to_equations.

Definition declared (n : Z) : Prop := In n (map kcode_disc all_kcodes).
Definition declaredb (n : Z) : bool := existsb (Z.eqb n) (map kcode_disc all_kcodes).

Lemma declaredb_ok n : declaredb n = true -> declared n.
Proof.
  unfold declaredb, declared. rewrite existsb_exists. intros [x [Hin Hx]].
  apply Z.eqb_eq in Hx. subst. exact Hin.
Qed.

(* every value of the transmute range is a declared discriminant *)
Fixpoint range_ok (n : nat) (from : Z) : bool :=
  match n with O => true | S k => declaredb from && range_ok k (from + 1) end.
Lemma range_ok_spec n : forall from, range_ok n from = true ->
  forall x, from <= x < from + Z.of_nat n -> declared x.
Proof.
  induction n as [|n IH]; intros from H x Hx; [lia|].
  cbn [range_ok] in H. apply andb_true_iff in H. destruct H as [H1 H2].
  destruct (Z.eq_dec x from) as [->|Hne]; [apply declaredb_ok; exact H1|].
  apply (IH (from + 1) H2). lia.
Qed.

Lemma transmute_total : forall n, from_protocol_lo <= n <= from_protocol_hi -> declared n.
Proof.
  intros n Hn.
  apply (range_ok_spec (Z.to_nat (from_protocol_hi - from_protocol_lo + 1)) from_protocol_lo).
  - vm_compute. reflexivity.
  - rewrite Z2Nat.id; [lia|vm_compute; discriminate].
Qed.

Lemma bounds_fit_i8 : -128 <= from_protocol_lo /\ from_protocol_hi <= 127 /\ from_protocol_lo <= from_protocol_hi.
Proof. vm_compute. repeat split; discriminate. Qed.

Lemma wrap_s_8_id n : -128 <= n <= 127 -> wrap_s 8 n = n.
Proof.
  intros H. unfold wrap_s. change (2 ^ 8) with 256. change (2 ^ (8 - 1)) with 128.
  destruct (n mod 256 <? 128) eqn:E; lia.
Qed.

(* the table: 0 is "no error", the declared range maps to the variant with that
   discriminant, everything else to Unknown *)
Lemma from_protocol_table n :
  from_protocol n =
    if n =? 0 then None
    else if (from_protocol_lo <=? n) && (n <=? from_protocol_hi) then Some n
    else Some from_protocol_default.
Proof.
  unfold from_protocol. destruct (n =? 0); [reflexivity|].
  destruct ((from_protocol_lo <=? n) && (n <=? from_protocol_hi)) eqn:E; [|reflexivity].
  pose proof bounds_fit_i8. rewrite wrap_s_8_id; [reflexivity|lia].
Qed.

Lemma from_protocol_nonzero n : n <> 0 -> exists c, from_protocol n = Some c /\ declared c.
Proof.
  intros Hn. rewrite from_protocol_table. destruct (n =? 0) eqn:E0; [lia|].
  destruct ((from_protocol_lo <=? n) && (n <=? from_protocol_hi)) eqn:E.
  - exists n. split; [reflexivity|]. apply transmute_total. lia.
  - exists from_protocol_default. split; [reflexivity|]. apply declaredb_ok. vm_compute. reflexivity.
Qed.

Lemma from_protocol_zero : from_protocol 0 = None.
Proof. reflexivity. Qed.

Lemma from_protocol_some_nonzero n c : from_protocol n = Some c -> n <> 0.
Proof. intros H ->. discriminate. Qed.

(* ---- consultation points ------------------------------------------------------------- *)
Lemma to_offset_error p c : from_protocol (por_error p) = Some c -> to_offset p = inr c.
Proof. unfold to_offset. intros ->. reflexivity. Qed.
Lemma to_offset_ok p : por_error p = 0 ->
  to_offset p = inl (por_partition p, match por_offsets p with o :: _ => o | [] => -1 end).
Proof. unfold to_offset. intros ->. reflexivity. Qed.

Lemma lop_to_offset_error p c : from_protocol (lop_error p) = Some c -> lop_to_offset p = inr c.
Proof. unfold lop_to_offset. intros ->. reflexivity. Qed.

Lemma produce_confirm_error p c : from_protocol (pp_error p) = Some c ->
  produce_confirm p = (pp_partition p, inr c).
Proof. unfold produce_confirm. intros ->. reflexivity. Qed.
Lemma produce_confirm_ok p : pp_error p = 0 -> produce_confirm p = (pp_partition p, inl (pp_offset p)).
Proof. unfold produce_confirm. intros ->. reflexivity. Qed.

(* group offset fetch: code 3 is the one documented exception *)
Lemma get_offsets_error p c : from_protocol (ofp_error p) = Some c -> c <> KC_UnknownTopicOrPartition ->
  get_offsets p = inr c.
Proof.
  unfold get_offsets. intros -> Hc. destruct (c =? KC_UnknownTopicOrPartition) eqn:E; [lia|reflexivity].
Qed.
Lemma get_offsets_unknown_tp p : from_protocol (ofp_error p) = Some KC_UnknownTopicOrPartition ->
  get_offsets p = inl (ofp_partition p, -1).
Proof. unfold get_offsets. intros ->. reflexivity. Qed.

(* offsets / list offsets / fetch-group merges: the first failing partition (in
   response order) fails the call, naming topic and partition *)
Lemma collect_error {P V} (conv : P -> V + Z) (pid : P -> Z) :
  forall ps acc pre p post c,
    ps = pre ++ p :: post -> (forall q, In q pre -> exists v, conv q = inl v) -> conv p = inr c ->
    collect conv pid ps acc = inr (pid p, c).
Proof.
  intros ps acc pre. revert ps acc. induction pre as [|q pre IH]; intros ps acc p post c -> Hpre Hp.
  - cbn. rewrite Hp. reflexivity.
  - cbn. destruct (Hpre q (or_introl eq_refl)) as [v Hv]. rewrite Hv.
    apply (IH _ _ p post c eq_refl); [|exact Hp]. intros q' Hq'. apply Hpre. right. exact Hq'.
Qed.

Lemma collect_ok {P V} (conv : P -> V + Z) (pid : P -> Z) :
  forall ps acc vs, collect conv pid ps acc = inl vs ->
    forall p, In p ps -> exists v, conv p = inl v /\ In v vs.
Proof.
  induction ps as [|q ps IH]; intros acc vs H p Hin; [destruct Hin|].
  cbn in H. destruct (conv q) as [v|c] eqn:E; [|discriminate].
  assert (Hacc : forall acc vs, collect conv pid ps acc = inl vs -> forall x, In x acc -> In x vs).
  { clear. induction ps as [|q ps IH]; intros acc vs H x Hx; cbn in H.
    - inversion H. subst. exact Hx.
    - destruct (conv q); [|discriminate]. apply (IH _ _ H). apply in_or_app. left. exact Hx. }
  destruct Hin as [->|Hin].
  - exists v. split; [exact E|]. apply (Hacc _ _ H). apply in_or_app. right. left. reflexivity.
  - apply (IH _ _ H p Hin).
Qed.

Lemma merge_topics_error {P V} (conv : P -> V + Z) (pid : P -> Z) :
  forall tps m t ps p c,
    (exists pre post, tps = pre ++ (t, ps) :: post
        /\ (forall t' ps', In (t', ps') pre -> exists vs, collect conv pid ps' [] = inl vs))
    -> collect conv pid ps [] = inr (p, c) ->
    merge_topics conv pid tps m = Err (ETopicPartition t p c).
Proof.
  intros tps m t ps p c [pre [post [-> Hpre]]] Hc. revert m.
  induction pre as [|[t' ps'] pre IH]; intros m.
  - cbn. rewrite Hc. reflexivity.
  - cbn. destruct (Hpre t' ps' (or_introl eq_refl)) as [vs Hvs]. rewrite Hvs.
    apply IH. intros t'' ps'' Hin. apply (Hpre t'' ps''). right. exact Hin.
Qed.

(* commit: any non-retryable code on any partition aborts the call *)
Lemma commit_scan_parts_fatal ps : forall pre p e post c,
  ps = pre ++ (p, e) :: post -> (forall q, In q pre -> snd q = 0) -> from_protocol e = Some c ->
  c <> KC_GroupLoadInProgress -> c <> KC_NotCoordinatorForGroup ->
  commit_scan_parts ps = ScanFatal c.
Proof.
  intros pre. revert ps. induction pre as [|[q0 e0] pre IH]; intros ps p e post c -> Hpre He H1 H2.
  - cbn [commit_scan_parts app]. rewrite He. destruct (c =? KC_GroupLoadInProgress) eqn:E1; [lia|].
    destruct (c =? KC_NotCoordinatorForGroup) eqn:E2; [lia|]. reflexivity.
  - cbn [commit_scan_parts app]. assert (e0 = 0) as -> by (apply (Hpre (q0, e0)); left; reflexivity).
    rewrite from_protocol_zero. apply (IH _ p e post c eq_refl); auto. intros q Hq. apply Hpre. right. exact Hq.
Qed.

Lemma commit_scan_parts_ok ps : (forall q, In q ps -> snd q = 0) -> commit_scan_parts ps = ScanOk.
Proof.
  induction ps as [|[p e] ps IH]; intros H; [reflexivity|].
  cbn [commit_scan_parts]. assert (e = 0) as -> by (apply (H (p, e)); left; reflexivity).
  rewrite from_protocol_zero. apply IH. intros q Hq. apply H. right. exact Hq.
Qed.

(* fetch: a partition with a code carries the error and no data *)
Lemma read_partition_error cz depth validate preqs bs fp rest :
  read_partition cz depth validate preqs bs = Ok (fp, rest) ->
  forall p r1 e r2, zread_i32 bs = Ok (p, r1) -> zread_i16 r1 = Ok (e, r2) ->
  forall c, from_protocol e = Some c -> fp_data fp = inr c /\ fp_partition fp = p.
Proof.
  unfold read_partition. intros H p r1 e r2 Hp He c Hc.
  rewrite Hp in H. cbn [bind] in H. rewrite He in H. cbn [bind] in H.
  destruct (zread_i64 r2) as [[hw r3]| |]; cbn [bind] in H; try discriminate.
  destruct (zread_bytes r3) as [[ms r4]| |]; cbn [bind] in H; try discriminate.
  destruct (from_slice _ _ _ _ ms) as [msgs| |]; cbn [bind] in H; try discriminate.
  inversion H; subst. cbn. rewrite Hc. split; reflexivity.
Qed.

(* ---- call level ------------------------------------------------------------------------ *)
(* offsets / list offsets: when the answer of a broker carries a failing partition, the
   call fails with that topic, partition and code, whatever was collected before *)
Lemma offsets_exchange_error {P V} enc (d : dec (Z * list (bytes * list P))) (conv : P -> V + Z) pid :
  forall h tps r m s c rtps s' e,
    send_receive d h (enc tps) s = (Ok (c, rtps), s') -> merge_topics conv pid rtps m = Err e ->
    offsets_exchange enc d conv pid ((h, tps) :: r) m s = (Err e, s').
Proof.
  intros h tps r m s c rtps s' e Hsr Hm. cbn [offsets_exchange]. unfold mbind at 1. rewrite Hsr.
  unfold mbind at 1. unfold lift. rewrite Hm. reflexivity.
Qed.

(* produce: the confirmations are exactly the per-partition results of the response *)
Lemma produce_exchange_confirms corr acks timeout h tps r acc s c rtps s' :
  acks <> 0 ->
  (let e := env s in
   send_receive dec_produce_resp h
      (enc_produce_req e corr (client_id (cfg (cl s))) acks timeout (compression (cfg (cl s))) tps) s
     = (Ok (c, rtps), s')) ->
  produce_exchange corr acks timeout ((h, tps) :: r) acc s
  = produce_exchange corr acks timeout r (acc ++ map (fun '(t, ps) => (t, map produce_confirm ps)) rtps) s'.
Proof.
  intros Ha Hsr. cbn [produce_exchange]. unfold mbind at 1. unfold get_client at 1.
  unfold mbind at 1. unfold get_env at 1. destruct (acks =? 0) eqn:E; [lia|].
  unfold mbind at 1. cbn zeta in Hsr. rewrite Hsr. reflexivity.
Qed.
