(* C17, additional theorems, third pass (round-five seed C17-5 and round-six seed C17-6).

   Both seeds are ALREADY covered by Props/C17.v (confirmed on mutated scratch copies by proving the negation of
   the named statements with concrete witnesses):
   - C17-5 (load_fetch_states starts every fetch state with max_bytes = -1 instead of the client's fetch size):
     falsifies C17_create_limit_and_size (third conjunct) and C17_created_consumer_doubles (maxb = F).
   - C17-6 (Consumer::fetch_messages drains the whole retry queue into one request): falsifies C17_retry_alone
     and C17_poll_queue (and what is built on them: C17_queue_fair, C17_queued_reported and the C17_retry_poll theorems).

   What this file adds is the most valuable statement still missing after the second pass (see the "not done"
   list of C17ExtraB.v): histories of a MULTI-partition consumer through Consumer::poll, i.e. the composition of
   the one-poll theorems over the retry queue.

   (A) C17_solo_history: the general history.  While the retry queue is not empty every poll is a fetch of the
       partition at its head alone.  If the broker answers each of them with an empty set below the
       high-watermark, then after j polls the fetch table and the queue are EXACTLY what the pure function
       solo_steps computes (head doubled up to the limit and moved to the back of the queue if its size was
       below the limit; head dropped and the table untouched if not), and poll number i returned an empty result
       resp. MessageSizeTooLarge accordingly.  No NoDup / membership hypothesis is needed.
   (B) C17_stuck_queue_drains / C17_stuck_queue_then_regular: the "never stall / other partitions keep being
       delivered" clause for SEVERAL partitions that cannot be helped at the same time (the scenario of C17-6):
       if the first j members of the queue have run out of size (limit <= max_bytes; e.g. retrying disabled),
       then the next j polls report MessageSizeTooLarge one partition after the other, nothing in the fetch
       table changes, the j partitions have left the queue, and when the queue is empty the following poll is the
       regular fetch of ALL assigned partitions with unchanged sizes.  (The mirrored C17-6 change makes this
       false: the two partitions are fetched together for ever.)
   (D) C17_stuck_queue_reported: (B) once more with Consumer::poll in the CONCLUSION.  In (A)/(B) the polls and
       the broker's answers to the SOLO requests are both hypotheses (as in C17_queued_reported); a model that
       sends a different request cannot satisfy both, so those statements would survive the mirrored C17-6
       change vacuously - it is C17_retry_alone underneath that does not.  In (D) only the script is a
       hypothesis (it answers a solo request for each queued partition in turn, stuck_script) and the theorem
       says what |q| calls of Consumer::poll return (run_polls): |q| times MessageSizeTooLarge, the script used
       up, the queue drained, then the regular fetch.  Its negation is provable on the model with C17-6
       mirrored (witness: kC / stC below - the first poll returns an empty Ok instead of the report).
   (C) C17_created_consumer_reports: the reporting half for a consumer fresh from Builder::create (the scenario
       of C17-5 with retrying disabled): limit <= fetch size, the partition answered alone comes back empty below
       its high-watermark in the very first poll - MessageSizeTooLarge, state untouched.  (With C17-5 mirrored
       the size is -1 < limit and the poll is an empty Ok instead.)

   Not done / not proved:
   - a closed bound on the number of polls until a queue of growable partitions is empty (each member needs at
     most Z.log2_up (limit / f) + 1 doublings: C17_fits / C17_sequence_limit; summing this over the queue by a
     potential argument on top of C17_solo_history is not stated);
   - histories in which regular polls and solo polls interleave with DELIVERING answers (the pieces are
     C17_retry_poll_delivers and C17_poll_delivered_resets). *)
From Coq Require Import ZifyBool.
From KV Require Import Base.Prelude Base.Crc32 Gen.Consts Model.Codecs Model.Requests Model.Responses
                       Model.ClientState Model.Net Model.Client Model.Consumer.
From KV Require Import Proofs.BytesFacts Proofs.C01Facts Proofs.C17Facts Proofs.C17Extra Proofs.C17ExtraB.
From KV Require Proofs.C07Extra.     (* the scripted two-broker cluster of C07Extra, for one example only *)

(* ================================================================================================== *)
(* the broker's side of one solo poll                                                                  *)
(* ================================================================================================== *)
(* whatever partition stands at the head of k's retry queue (and is known to the fetch table), the script
   answers the request for it alone with that partition, empty although its high-watermark is beyond the
   offset *)
Definition answered_stuck (k : consumer) (s s' : st) : Prop :=
  forall r pid rest off maxb,
    k_retry k = (r, pid) :: rest -> tk_get (r, pid) (k_fetch k) = Some (off, maxb) ->
    exists c t p hw,
      fetch_messages [req1 k r pid off maxb] s = (Ok (answer1 c t p), s') /\
      topic_ref (k_assign k) t = Some r /\ fp_partition p = pid /\ fp_data p = inl (hw, []) /\ off < hw.

(* successive calls of Consumer::poll, each answered like that; the results of the polls in order *)
Inductive retry_polls : list (res message_sets) -> consumer -> consumer -> Prop :=
| rp_nil k : retry_polls [] k k
| rp_snoc results k k1 k2 s s' res :
    retry_polls results k k1 ->
    answered_stuck k1 s s' ->
    consumer_poll k1 s = (Ok (res, k2), s') ->
    retry_polls (results ++ [res]) k k2.

(* ================================================================================================== *)
(* (B) several partitions that cannot be helped: reported one after the other, then the regular fetch  *)
(* ================================================================================================== *)
Theorem C17_stuck_queue_drains : forall results k k',
  retry_polls results k k' ->
  forall pre post,
  k_retry k = pre ++ post -> length pre = length results ->
  (forall tp, In tp pre -> exists off maxb, tk_get tp (k_fetch k) = Some (off, maxb) /\ k_retry_limit k <= maxb) ->
  Forall (fun res => res = Err (EKafka KC_MessageSizeTooLarge)) results /\
  k_fetch k' = k_fetch k /\ k_retry k' = post /\ k_retry_limit k' = k_retry_limit k /\
  k_assign k' = k_assign k /\ k_consumed k' = k_consumed k.
Proof.
  intros results k k' Hrp.
  induction Hrp as [k|results k k1 k2 s s' res Hrp IH Hans Hpoll]; intros pre post Hq Hlen Hstuck.
  - destruct pre; [|discriminate Hlen]. cbn [app] in Hq. repeat split; try assumption. constructor.
  - rewrite app_length in Hlen. cbn [length] in Hlen.
    destruct (exists_last (l := pre)) as (pre' & tp & ->); [intros ->; cbn in Hlen; lia|].
    rewrite app_length in Hlen. cbn [length] in Hlen.
    destruct (IH pre' (tp :: post)) as (Hres & Hf1 & Hr1 & Hl1 & Ha1 & Hc1).
    + rewrite Hq, <- app_assoc. reflexivity.
    + lia.
    + intros tp0 Hin. apply Hstuck. apply in_or_app. left. exact Hin.
    + destruct (Hstuck tp) as (off & maxb & Hg & Hlim); [apply in_or_app; right; left; reflexivity|].
      destruct tp as [r pid]. rewrite <- Hf1 in Hg.
      destruct (Hans r pid post off maxb Hr1 Hg) as (c & t & p & hw & Hfm & Ht & Hp & Hd & Hhw).
      rewrite (C17_retry_poll_too_large k1 s s' r pid post off maxb c t p hw Hr1 Hg Hfm Ht Hp Hd Hhw) in Hpoll
        by (rewrite Hl1; exact Hlim).
      injection Hpoll as Hres2 Hk2. subst res k2.
      cbn [consumer_with consumer_with_client k_fetch k_retry k_retry_limit k_assign k_consumed].
      repeat split; try assumption.
      apply Forall_app. split; [exact Hres|]. constructor; [reflexivity|constructor].
Qed.

(* ... and once they are all reported the consumer goes back to fetching every assigned partition, with the
   sizes it had: the other partitions are served again *)
Theorem C17_stuck_queue_then_regular : forall results k k',
  retry_polls results k k' ->
  length (k_retry k) = length results ->
  (forall tp, In tp (k_retry k) ->
     exists off maxb, tk_get tp (k_fetch k) = Some (off, maxb) /\ k_retry_limit k <= maxb) ->
  Forall (fun res => res = Err (EKafka KC_MessageSizeTooLarge)) results /\
  k_fetch k' = k_fetch k /\ k_retry k' = [] /\ k_assign k' = k_assign k /\
  consumer_fetch k' =
    (let+ r := mtry (fetch_messages
                       (map (fun '((tr, p), (off, maxb)) =>
                               {| fq_topic := topic_name k' tr; fq_partition := p; fq_offset := off;
                                  fq_max_bytes := maxb |}) (k_fetch k))) in
     ret (ulen (k_fetch k), r, k')).
Proof.
  intros results k k' Hrp Hlen Hstuck.
  destruct (C17_stuck_queue_drains results k k' Hrp (k_retry k) []) as (Hres & Hf & Hr & _ & Ha & _);
    [rewrite app_nil_r; reflexivity|exact Hlen|exact Hstuck|].
  repeat split; try assumption.
  rewrite (C17_retry_none k' Hr), Hf. reflexivity.
Qed.

(* non-vacuity, the scenario of seeded change C17-6: topic "t", partitions 0 and 1, retrying disabled (limit 0),
   BOTH partitions queued after a regular fetch in which both came back empty below their high-watermarks
   (6 and 11).  Poll 1 asks for t:0 alone and reports MessageSizeTooLarge, poll 2 asks for t:1 alone and reports
   it, the queue is empty, the fetch table is what it was and the third request is the regular one for both *)
Definition body17p1 : bytes :=
  enc_i32 2 ++ enc_i32 1 ++ enc_i16 1 ++ tag "t" ++ enc_i32 1 ++
  enc_i32 1 ++ enc_i16 0 ++ enc_i64 11 ++ enc_i32 0.
Definition p1_empty : fetch_part := {| fp_partition := 1; fp_data := inl (11, []) |}.
Definition stC : st :=
  ex_st (OConn true :: talk17 ++ [OWrote 1000; OData (enc_i32 (ulen body17p1)); OData body17p1]).
Definition kC : consumer := kp17 [((0, 0), (5, 32768)); ((0, 1), (10, 32768))] [(0, 0); (0, 1)].

Example C17_stuck_queue_drains_ex :
  exists k2 results,
    retry_polls results kC k2 /\ length (k_retry kC) = length results /\
    (forall tp, In tp (k_retry kC) ->
       exists off maxb, tk_get tp (k_fetch kC) = Some (off, maxb) /\ k_retry_limit kC <= maxb) /\
    map poll_outcome results =
      [Some (inr (EKafka KC_MessageSizeTooLarge)); Some (inr (EKafka KC_MessageSizeTooLarge))] /\
    k_fetch k2 = [((0, 0), (5, 32768)); ((0, 1), (10, 32768))] /\ k_retry k2 = [].
Proof.
  set (s0 := stC). set (k1 := poll_kB kC s0). set (s1 := poll_stB kC s0).
  eexists; eexists. split.
  { eapply rp_snoc with (s := s1) (k1 := k1).
    1: { eapply (rp_snoc []) with (s := s0) (k1 := kC).
         1: apply rp_nil.
         2: (vm_compute; reflexivity).
         intros r pid rest off maxb Hq Hg. vm_compute in Hq. inversion Hq; subst r pid rest.
         vm_compute in Hg. inversion Hg; subst off maxb.
         exists 1, (tag "t"), p0_empty, 6. split; [vm_compute; reflexivity|repeat split]. }
    2: (vm_compute; reflexivity).
    intros r pid rest off maxb Hq Hg. vm_compute in Hq. inversion Hq; subst r pid rest.
    vm_compute in Hg. inversion Hg; subst off maxb.
    exists 2, (tag "t"), p1_empty, 11. split; [vm_compute; reflexivity|repeat split]. }
  split; [reflexivity|].
  split.
  { intros tp [<-|[<-|[]]]; eexists; eexists; (split; [vm_compute; reflexivity|vm_compute; discriminate]). }
  vm_compute. repeat split.
Qed.

(* ================================================================================================== *)
(* (A) the general history of solo polls                                                                *)
(* ================================================================================================== *)
(* what one solo poll answered "empty below the high-watermark" does to (fetch table, retry queue), and what it
   returns: true = an empty Ok result, false = an error *)
Definition solo_step (limit : Z) (single : bool) (fq : list (tpkey * (Z * Z)) * list tpkey)
  : list (tpkey * (Z * Z)) * list tpkey :=
  match snd fq with
  | [] => fq
  | tp :: rest =>
      match tk_get tp (fst fq) with
      | None => (fst fq, rest)
      | Some (off, maxb) =>
          if maxb <? limit
          then (tk_set tp (off, Z.min (Z.min (2 * maxb) i32_max) limit) (fst fq),
                if single then rest else rest ++ [tp])
          else (fst fq, rest)
      end
  end.
Definition solo_outcome (limit : Z) (fq : list (tpkey * (Z * Z)) * list tpkey) : option (bool + err) :=
  match snd fq with
  | [] => None
  | tp :: _ =>
      match tk_get tp (fst fq) with
      | None => Some (inr (EKafka KC_UnknownTopicOrPartition))
      | Some (_, maxb) => if maxb <? limit then Some (inl true) else Some (inr (EKafka KC_MessageSizeTooLarge))
      end
  end.
Fixpoint solo_steps (limit : Z) (single : bool) (j : nat) (fq : list (tpkey * (Z * Z)) * list tpkey) :=
  match j with O => fq | S j' => solo_step limit single (solo_steps limit single j' fq) end.

Lemma Forall_tk_set (P : Z * Z -> Prop) key v m :
  Forall (fun e : tpkey * (Z * Z) => P (snd e)) m -> P v ->
  Forall (fun e : tpkey * (Z * Z) => P (snd e)) (tk_set key v m).
Proof.
  intros Hm Hv. induction m as [|[k0 v0] m IH]; cbn [tk_set].
  - constructor; [exact Hv|constructor].
  - inversion Hm as [|x l Hx Hl]; subst. destruct (tpkey_eqb k0 key).
    + constructor; [exact Hv|exact Hl].
    + constructor; [exact Hx|apply IH; exact Hl].
Qed.

Lemma tk_get_Forall (P : Z * Z -> Prop) key v (m : list (tpkey * (Z * Z))) :
  Forall (fun e : tpkey * (Z * Z) => P (snd e)) m -> tk_get key m = Some v -> P v.
Proof.
  intros Hm Hg. destruct (tk_get_in _ _ _ Hg) as [k0 Hin]. rewrite Forall_forall in Hm. exact (Hm _ Hin).
Qed.

Lemma ulen_tk_set {V} key (v : V) m : tk_get key m <> None -> ulen (tk_set key v m) = ulen m.
Proof.
  unfold ulen. intros H. f_equal. induction m as [|[k0 v0] m IH]; cbn [tk_get tk_set] in *; [congruence|].
  destruct (tpkey_eqb k0 key); cbn [length]; [reflexivity|]. rewrite IH by exact H. reflexivity.
Qed.

(* one solo poll whose head partition is not in the fetch table: no request, UnknownTopicOrPartition *)
Lemma retry_poll_unknown k s tp rest :
  k_retry k = tp :: rest -> tk_get tp (k_fetch k) = None ->
  consumer_poll k s =
    (Ok (Err (EKafka KC_UnknownTopicOrPartition),
         consumer_with_client (consumer_with k (k_fetch k) rest (k_consumed k)) (cl s)), s).
Proof.
  intros Hr Hg. unfold consumer_poll, consumer_fetch. rewrite Hr, Hg.
  unfold mbind, ret, get_client, get_env. reflexivity.
Qed.

(* The history.  A consumer whose fetch sizes are all positive polls j times while the broker answers every
   solo request "empty below the high-watermark".  Then its fetch table and retry queue are solo_steps j of
   what they were, result number i is what solo_outcome says for the state after i steps (None: the queue was
   empty and the poll was a regular one about which nothing is said), limit, assignment and consumed offsets
   are untouched. *)
Theorem C17_solo_history : forall results k k',
  retry_polls results k k' ->
  Forall (fun e : tpkey * (Z * Z) => 0 < snd (snd e)) (k_fetch k) ->
  let single := ulen (k_fetch k) =? 1 in
  let L := k_retry_limit k in
  (forall i, (i < length results)%nat -> snd (solo_steps L single i (k_fetch k, k_retry k)) <> []) ->
  (k_fetch k', k_retry k') = solo_steps L single (length results) (k_fetch k, k_retry k) /\
  k_retry_limit k' = L /\ k_assign k' = k_assign k /\ k_consumed k' = k_consumed k /\
  ulen (k_fetch k') = ulen (k_fetch k) /\
  Forall (fun e : tpkey * (Z * Z) => 0 < snd (snd e)) (k_fetch k') /\
  forall i res, nth_error results i = Some res ->
    solo_outcome L (solo_steps L single i (k_fetch k, k_retry k)) = poll_outcome res.
Proof.
  intros results k k' Hrp Hpos. cbv zeta.
  induction Hrp as [k|results k k1 k2 s s' res Hrp IH Hans Hpoll]; intros Hne.
  - cbn [length solo_steps]. repeat split; try assumption. intros i res Hn. destruct i; discriminate.
  - rewrite app_length in *. cbn [length] in *.
    destruct (IH Hpos) as (Hfq & Hl1 & Ha1 & Hc1 & Hu1 & Hpos1 & Hres); clear IH.
    { intros i Hi. apply Hne. lia. }
    set (L := k_retry_limit k) in *. set (single := ulen (k_fetch k) =? 1) in *.
    set (j := length results) in *.
    replace (j + 1)%nat with (S j) by lia. cbn [solo_steps]. rewrite <- Hfq.
    assert (Hnth : forall i res0, nth_error (results ++ [res]) i = Some res0 ->
                   (i < j)%nat /\ nth_error results i = Some res0 \/ i = j /\ res0 = res).
    { intros i res0 Hn. destruct (Nat.lt_ge_cases i j) as [Hlt|Hge].
      - left. split; [exact Hlt|]. rewrite nth_error_app1 in Hn by exact Hlt. exact Hn.
      - right. rewrite nth_error_app2 in Hn by exact Hge. fold j in Hn.
        destruct (i - j)%nat as [|d] eqn:Ed; cbn [nth_error] in Hn.
        + inversion Hn. split; [lia|reflexivity].
        + destruct d; discriminate. }
    assert (Hq : k_retry k1 <> []).
    { specialize (Hne j ltac:(lia)). rewrite <- Hfq in Hne. exact Hne. }
    destruct (k_retry k1) as [|[r pid] rest] eqn:Hr1; [exfalso; apply Hq; reflexivity|]. clear Hq.
    assert (Hout : forall o, solo_outcome L (k_fetch k1, (r, pid) :: rest) = o -> o = poll_outcome res ->
                   forall i res0, nth_error (results ++ [res]) i = Some res0 ->
                   solo_outcome L (solo_steps L single i (k_fetch k, k_retry k)) = poll_outcome res0).
    { intros o Ho Ho2 i res0 Hn. destruct (Hnth i res0 Hn) as [[_ Hi]|[Hi Hr0]]; [exact (Hres _ _ Hi)|].
      subst i res0. rewrite <- Hfq. transitivity o; [exact Ho|exact Ho2]. }
    unfold solo_step. cbn [fst snd].
    destruct (tk_get (r, pid) (k_fetch k1)) as [[off maxb]|] eqn:Hg.
    + destruct (Hans r pid rest off maxb Hr1 Hg) as (c & t & p & hw & Hfm & Ht & Hp & Hd & Hhw).
      assert (Hmpos : 0 < maxb) by exact (tk_get_Forall (fun v => 0 < snd v) _ _ _ Hpos1 Hg).
      destruct (Z.ltb_spec maxb L) as [Hlt|Hge].
      * rewrite (C17_retry_poll_doubles k1 s s' r pid rest off maxb c t p hw Hr1 Hg Hfm Ht Hp Hd Hhw) in Hpoll
          by (rewrite Hl1; lia).
        injection Hpoll as Hres2 Hk2. subst res k2.
        cbn [consumer_with consumer_with_client k_fetch k_retry k_retry_limit k_assign k_consumed].
        rewrite Hl1, Hu1. fold single.
        change (match maxb with 0 => 0 | Z.pos y' => Z.pos y'~0 | Z.neg z' => Z.neg z'~0 end) with (2 * maxb).
        repeat split; try assumption.
        -- rewrite ulen_tk_set by congruence. exact Hu1.
        -- apply (Forall_tk_set (fun v => 0 < snd v)); [exact Hpos1|]. cbn [snd]. unfold i32_max. lia.
        -- apply (Hout (Some (inl true))); [|reflexivity].
           unfold solo_outcome. cbn [fst snd]. rewrite Hg. replace (maxb <? L) with true by lia. reflexivity.
      * rewrite (C17_retry_poll_too_large k1 s s' r pid rest off maxb c t p hw Hr1 Hg Hfm Ht Hp Hd Hhw) in Hpoll
          by (rewrite Hl1; lia).
        injection Hpoll as Hres2 Hk2. subst res k2.
        cbn [consumer_with consumer_with_client k_fetch k_retry k_retry_limit k_assign k_consumed].
        repeat split; try assumption.
        apply (Hout (Some (inr (EKafka KC_MessageSizeTooLarge)))); [|reflexivity].
        unfold solo_outcome. cbn [fst snd]. rewrite Hg. replace (maxb <? L) with false by lia. reflexivity.
    + rewrite (retry_poll_unknown k1 s (r, pid) rest Hr1 Hg) in Hpoll.
      injection Hpoll as Hres2 Hk2 Hs. subst res k2.
      cbn [consumer_with consumer_with_client k_fetch k_retry k_retry_limit k_assign k_consumed].
      repeat split; try assumption.
      apply (Hout (Some (inr (EKafka KC_UnknownTopicOrPartition)))); [|reflexivity].
      unfold solo_outcome. cbn [fst snd]. rewrite Hg. reflexivity.
Qed.

(* non-vacuity: topic "t", partitions 0 and 1 at 32768 bytes, limit 50000, both queued.  Four solo polls, all
   answered "empty below the high-watermark": t:0 grows to 50000 and goes to the back, t:1 grows to 50000 and goes
   to the back, t:0 is reported and leaves the queue, t:1 is reported and leaves the queue *)
Definition talk17p1 : list ev_out := [OWrote 1000; OData (enc_i32 (ulen body17p1)); OData body17p1].
Definition stD : st := ex_st (OConn true :: talk17 ++ talk17p1 ++ talk17 ++ talk17p1).
Definition kD : consumer :=
  {| k_client := ex_client2; k_group := tag "g"; k_fallback := FbEarliest; k_retry_limit := 50000;
     k_assign := [(tag "t", [0; 1])]; k_fetch := [((0, 0), (5, 32768)); ((0, 1), (10, 32768))];
     k_retry := [(0, 0); (0, 1)]; k_consumed := [] |}.

Ltac ansD c0 p0 hw0 :=
  let r := fresh "r" in let pid := fresh "pid" in let rest := fresh "rest" in
  let off := fresh "off" in let maxb := fresh "maxb" in let Hq := fresh "Hq" in let Hg := fresh "Hg" in
  intros r pid rest off maxb Hq Hg; vm_compute in Hq; inversion Hq; subst r pid rest;
  vm_compute in Hg; inversion Hg; subst off maxb;
  exists c0, (tag "t"), p0, hw0; split; [vm_compute; reflexivity|repeat split].

Example C17_solo_history_ex :
  exists k4 results,
    retry_polls results kD k4 /\ length results = 4%nat /\
    Forall (fun e : tpkey * (Z * Z) => 0 < snd (snd e)) (k_fetch kD) /\
    (forall i, (i < 4)%nat -> snd (solo_steps 50000 false i (k_fetch kD, k_retry kD)) <> []) /\
    solo_steps 50000 false 1 (k_fetch kD, k_retry kD) =
      ([((0, 0), (5, 50000)); ((0, 1), (10, 32768))], [(0, 1); (0, 0)]) /\
    solo_steps 50000 false 2 (k_fetch kD, k_retry kD) =
      ([((0, 0), (5, 50000)); ((0, 1), (10, 50000))], [(0, 0); (0, 1)]) /\
    solo_steps 50000 false 3 (k_fetch kD, k_retry kD) =
      ([((0, 0), (5, 50000)); ((0, 1), (10, 50000))], [(0, 1)]) /\
    solo_steps 50000 false 4 (k_fetch kD, k_retry kD) =
      ([((0, 0), (5, 50000)); ((0, 1), (10, 50000))], []) /\
    map poll_outcome results =
      [Some (inl true); Some (inl true); Some (inr (EKafka KC_MessageSizeTooLarge));
       Some (inr (EKafka KC_MessageSizeTooLarge))] /\
    k_fetch k4 = [((0, 0), (5, 50000)); ((0, 1), (10, 50000))] /\ k_retry k4 = [].
Proof.
  set (s0 := stD).
  set (k1 := poll_kB kD s0). set (s1 := poll_stB kD s0).
  set (k2 := poll_kB k1 s1). set (s2 := poll_stB k1 s1).
  set (k3 := poll_kB k2 s2). set (s3 := poll_stB k2 s2).
  eexists; eexists. split.
  { eapply rp_snoc with (s := s3) (k1 := k3).
    1: { eapply rp_snoc with (s := s2) (k1 := k2).
         1: { eapply rp_snoc with (s := s1) (k1 := k1).
              1: { eapply (rp_snoc []) with (s := s0) (k1 := kD).
                   1: apply rp_nil.
                   2: (vm_compute; reflexivity).
                   ansD 1 p0_empty 6. }
              2: (vm_compute; reflexivity).
              ansD 2 p1_empty 11. }
         2: (vm_compute; reflexivity).
         ansD 1 p0_empty 6. }
    2: (vm_compute; reflexivity).
    ansD 2 p1_empty 11. }
  split; [reflexivity|].
  split; [repeat constructor|].
  split.
  { intros i Hi. destruct i as [|[|[|[|i]]]]; [vm_compute; discriminate ..|lia]. }
  vm_compute. repeat split.
Qed.

(* ================================================================================================== *)
(* (C) a consumer fresh from Builder::create with retrying disabled (or a limit not above the fetch size)  *)
(* ================================================================================================== *)
(* its fetch states carry the configured fetch size F (not "unspecified"), which is not below the limit L: when
   a partition that was asked for alone (n = 1: the consumer's only partition, or a solo request) comes back
   empty below its high-watermark in the very first poll, the poll reports MessageSizeTooLarge and leaves the
   consumer as it is *)
Theorem C17_created_consumer_reports :
  forall src calls s k s0 L F dbg c t r p hw off maxb,
  consumer_create src calls s = (Ok k, s0) ->
  configured_limit calls L -> configured_size src calls F -> L <= F ->
  topic_ref (k_assign k) t = Some r -> fp_data p = inl (hw, []) ->
  tk_get (r, fp_partition p) (k_fetch k) = Some (off, maxb) -> off < hw ->
  maxb = F /\
  process_fetch_responses dbg k 1 (answer1 c t p) = (Err (EKafka KC_MessageSizeTooLarge), k).
Proof.
  intros src calls s k s0 L F dbg c t r p hw off maxb Hc HL HF HLF Ht Hd Hg Hhw.
  destruct (C17_create_limit_and_size _ _ _ _ _ _ _ Hc HL HF) as (Hl & _ & Hall & _).
  assert (Hm : maxb = F) by exact (tk_get_Forall (fun v => snd v = F) _ _ _ Hall Hg).
  split; [exact Hm|]. unfold answer1.
  apply (C17_alone_too_large dbg k c t r p hw off maxb Ht Hd Hg Hhw). lia.
Qed.

(* non-vacuity: the cluster of C07Extra (topic "t", partitions 0, 1, 2 starting at 0, 12, 7), fetch size 100, no
   with_retry_max_bytes_limit call (limit 0); partition 0 is answered alone, empty with high-watermark 3 *)
Definition callsC : list cbuilder_call := [CWithTopic C07Extra.xt; CWithFallback FbEarliest; CWithMaxBytes 100].
Example C17_created_consumer_reports_ex :
  configured_limit callsC 0 /\ configured_size (inr C07Extra.ex_client) callsC 100 /\ 0 <= 100 /\
  exists k s', consumer_create (inr C07Extra.ex_client) callsC C07Extra.ex_st3 = (Ok k, s') /\
    topic_ref (k_assign k) C07Extra.xt = Some 0 /\ tk_get (0, 0) (k_fetch k) = Some (0, 100) /\
    process_fetch_responses true k 1 (answer1 1 C07Extra.xt {| fp_partition := 0; fp_data := inl (3, []) |})
      = (Err (EKafka KC_MessageSizeTooLarge), k).
Proof.
  split; [right; split; [repeat constructor|reflexivity]|].
  split; [left; exists [CWithTopic C07Extra.xt; CWithFallback FbEarliest], []; split; [reflexivity|constructor]|].
  split; [lia|].
  eexists; eexists. split; [vm_compute; reflexivity|]. vm_compute. repeat split.
Qed.

(* ================================================================================================== *)
(* (D) the same as (B) with Consumer::poll in the CONCLUSION                                            *)
(* ================================================================================================== *)
(* In (A) and (B) the polls are hypotheses (retry_polls); here only the SCRIPT is: it answers, one after the
   other, a request for each partition of q alone (offset and size as in k's fetch table) with that partition,
   empty below its high-watermark, and each of them has run out of size.  The conclusion says what |q| calls of
   Consumer::poll then do. *)
Fixpoint run_polls (j : nat) (k : consumer) (s : st) : list (res message_sets) * consumer * st :=
  match j with
  | O => ([], k, s)
  | S j' =>
      match consumer_poll k s with
      | (Ok (res, k2), s') => let '(rs, kf, sf) := run_polls j' k2 s' in (res :: rs, kf, sf)
      | (_, s') => ([], k, s')
      end
  end.

Inductive stuck_script (k : consumer) : list tpkey -> st -> st -> Prop :=
| ss_nil s : stuck_script k [] s s
| ss_cons r pid q s s1 s2 off maxb c t p hw :
    tk_get (r, pid) (k_fetch k) = Some (off, maxb) -> k_retry_limit k <= maxb ->
    fetch_messages [req1 k r pid off maxb] s = (Ok (answer1 c t p), s1) ->
    topic_ref (k_assign k) t = Some r -> fp_partition p = pid -> fp_data p = inl (hw, []) -> off < hw ->
    stuck_script k q s1 s2 ->
    stuck_script k ((r, pid) :: q) s s2.

Lemma req1_assign k1 k r pid off maxb : k_assign k1 = k_assign k -> req1 k1 r pid off maxb = req1 k r pid off maxb.
Proof. intros H. unfold req1, topic_name. rewrite H. reflexivity. Qed.

Lemma stuck_script_run k q s s2 : stuck_script k q s s2 ->
  forall k1 post, k_assign k1 = k_assign k -> k_fetch k1 = k_fetch k -> k_retry_limit k1 = k_retry_limit k ->
  k_consumed k1 = k_consumed k -> k_retry k1 = q ++ post ->
  exists k', run_polls (length q) k1 s = (repeat (Err (EKafka KC_MessageSizeTooLarge)) (length q), k', s2) /\
    k_fetch k' = k_fetch k /\ k_retry k' = post /\ k_retry_limit k' = k_retry_limit k /\
    k_assign k' = k_assign k /\ k_consumed k' = k_consumed k.
Proof.
  induction 1 as [s|r pid q s s1 s2 off maxb c t p hw Hg Hlim Hfm Ht Hp Hd Hhw Hss IH];
    intros k1 post Ha Hf Hl Hc Hr.
  - exists k1. cbn [length run_polls repeat]. cbn [app] in Hr. auto 10.
  - cbn [app] in Hr. rewrite <- Hf in Hg. rewrite <- Ha in Ht. rewrite <- (req1_assign k1 k) in Hfm by exact Ha.
    pose proof (C17_retry_poll_too_large k1 s s1 r pid (q ++ post) off maxb c t p hw Hr Hg Hfm Ht Hp Hd Hhw
                  ltac:(rewrite Hl; exact Hlim)) as Hpoll.
    destruct (IH (consumer_with_client (consumer_with k1 (k_fetch k1) (q ++ post) (k_consumed k1)) (cl s1)) post)
      as (k' & Hrun & Hrest); try assumption; try reflexivity.
    exists k'. split; [|exact Hrest].
    cbn [length run_polls repeat]. rewrite Hpoll, Hrun. reflexivity.
Qed.

(* Several partitions that cannot be helped, queued at the same time: |q| polls report MessageSizeTooLarge |q|
   times, consume exactly the script of the |q| solo requests, leave the fetch table alone and the rest of the
   queue in place; with nothing else queued the next poll is the regular fetch of all partitions again *)
Theorem C17_stuck_queue_reported : forall k q post s s2,
  k_retry k = q ++ post -> stuck_script k q s s2 ->
  exists k',
    run_polls (length q) k s = (repeat (Err (EKafka KC_MessageSizeTooLarge)) (length q), k', s2) /\
    k_fetch k' = k_fetch k /\ k_retry k' = post /\ k_retry_limit k' = k_retry_limit k /\
    k_assign k' = k_assign k /\ k_consumed k' = k_consumed k /\
    (post = [] ->
     consumer_fetch k' =
       (let+ r := mtry (fetch_messages
                          (map (fun '((tr, p), (off, maxb)) =>
                                  {| fq_topic := topic_name k' tr; fq_partition := p; fq_offset := off;
                                     fq_max_bytes := maxb |}) (k_fetch k))) in
        ret (ulen (k_fetch k), r, k'))).
Proof.
  intros k q post s s2 Hr Hss.
  destruct (stuck_script_run k q s s2 Hss k post) as (k' & Hrun & Hf & Hr' & Hl & Ha & Hc); try reflexivity; [exact Hr|].
  exists k'. repeat split; try assumption.
  intros ->. rewrite (C17_retry_none k' Hr'), Hf. reflexivity.
Qed.

(* non-vacuity: the scenario of C17-6 again (kC, stC above): two polls, two reports, script used up *)
Example C17_stuck_queue_reported_ex :
  k_retry kC = [(0, 0); (0, 1)] ++ [] /\
  exists s2, stuck_script kC [(0, 0); (0, 1)] stC s2 /\ script s2 = [] /\
  exists k', run_polls 2 kC stC =
    ([Err (EKafka KC_MessageSizeTooLarge); Err (EKafka KC_MessageSizeTooLarge)], k', s2) /\ k_retry k' = [].
Proof.
  split; [reflexivity|].
  set (s1 := poll_stB kC stC). set (k1 := poll_kB kC stC). set (s2 := poll_stB k1 s1).
  exists s2. split.
  { apply (ss_cons kC 0 0 [(0, 1)] stC s1 s2 5 32768 1 (tag "t") p0_empty 6).
    - reflexivity.
    - vm_compute; discriminate.
    - vm_compute; reflexivity.
    - reflexivity.
    - reflexivity.
    - reflexivity.
    - reflexivity.
    - apply (ss_cons kC 0 1 [] s1 s2 s2 10 32768 2 (tag "t") p1_empty 11).
      + reflexivity.
      + vm_compute; discriminate.
      + vm_compute; reflexivity.
      + reflexivity.
      + reflexivity.
      + reflexivity.
      + reflexivity.
      + apply ss_nil. }
  split; [vm_compute; reflexivity|].
  eexists. split; vm_compute; reflexivity.
Qed.

Check C17_stuck_queue_drains.
Check C17_stuck_queue_reported.
Check C17_stuck_queue_then_regular.
Check C17_solo_history.
Check C17_created_consumer_reports.
Print Assumptions C17_stuck_queue_drains.
Print Assumptions C17_stuck_queue_then_regular.
Print Assumptions C17_solo_history.
Print Assumptions C17_created_consumer_reports.
Print Assumptions C17_stuck_queue_reported.
