(* C17, additional theorems, second pass (round-four seed C17-4 and the forward direction at Consumer::poll).

   (A) THE CONFIGURATION PATH (seeded change C17-4: Builder::with_retry_max_bytes_limit "normalizes" a limit
       below the fetch size THE BUILDER HOLDS AT THAT MOMENT to 0).  No theorem of Props/C17.v mentioned
       cbuilder_apply / consumer_create: all of them start from a consumer whose k_retry_limit is whatever it
       is.  Here: the limit a created consumer runs with is the argument of the last with_retry_max_bytes_limit
       call WHEREVER the with_fetch_max_bytes_per_partition call stands, its fetch states and its client carry
       the last fetch size, and so a created consumer whose limit exceeds its fetch size does double.
       C17_builder_limit_as_given, C17_create_limit_and_size, C17_created_consumer_doubles.
       (Mirrored in the model - CWithRetryLimit x storing `if x <? mx then 0 else x` - the change leaves every
       theorem of Props/C17.v provable; it falsifies these three, and C16_consumer_last_wins /
       C16_consumer_any_order of Props/C16.v.)
   (B) THE FORWARD DIRECTION AT Consumer::poll ("re-fetches with a doubled size ... delivers ... after which the
       normal fetch size is used again").  Props/C17.v had poll-level theorems for the REPORTING half only
       (C17_single_poll_too_large, C17_retry_poll_too_large).  Here the same for the doubling and the delivering
       poll, for one response with one partition and any n: C17_alone_doubles, C17_alone_delivers; through
       Consumer::poll: C17_single_poll_doubles, C17_single_poll_delivers, C17_retry_poll_doubles,
       C17_retry_poll_delivers.
   (C) A HISTORY OF POLLS of a single-partition consumer through Consumer::poll: after j polls that the broker
       answered with an empty set below the high-watermark the consumer asks for grow f limit j bytes, none of
       them was an error while the size was below the limit; hence (C17_fits) the request of poll number
       Z.log2_up (sz / f) + 2 has room for an entry of sz <= limit bytes, and when it is answered with the
       entry the poll hands it out and the size is the client's normal size again:
       C17_single_history, C17_single_history_reaches, C17_single_history_delivered.

   Not done / not proved:
   - the history for a MULTI-partition consumer through Consumer::poll (regular polls and solo polls
     interleave, other partitions queue up in between); the pieces are C17_queue_fair, C17_retry_poll_doubles
     and C17_retry_poll_delivers, their composition over an arbitrary script is not stated.
   - that the broker does deliver the entry once max_bytes >= its size is a fact about the broker; it is a
     hypothesis (the answer of the script) in C17_single_history_delivered.
   - "MessageSizeTooLarge only if the size cannot grow" for an arbitrary multi-response poll (the converse of
     C17_alone_too_large with several entries); C17_alone_doubles gives it for the one-entry answer only. *)
From Coq Require Import ZifyBool.
From KV Require Import Base.Prelude Base.Crc32 Gen.Consts Model.Codecs Model.Requests Model.Responses
                       Model.ClientState Model.Net Model.Client Model.Consumer.
From KV Require Import Proofs.BytesFacts Proofs.C01Facts Proofs.C16Facts Proofs.C16Extra Proofs.C16Extra2
                       Proofs.C17Facts Proofs.C17Extra.
From KV Require Proofs.C07Extra.     (* the scripted two-broker cluster of C07Extra, for the examples only *)

(* ================================================================================================== *)
(* (A) the configuration path                                                                          *)
(* ================================================================================================== *)

(* one call: with_retry_max_bytes_limit stores its argument whatever fetch size the builder holds, and does
   not touch the fetch size; with_fetch_max_bytes_per_partition the other way round *)
Theorem C17_builder_limit_as_given : forall b L F,
  cb_retry_limit (cbuilder_apply b (CWithRetryLimit L)) = L /\
  cb_max_bytes (cbuilder_apply b (CWithRetryLimit L)) = cb_max_bytes b /\
  cb_retry_limit (cbuilder_apply b (CWithMaxBytes F)) = cb_retry_limit b /\
  cb_max_bytes (cbuilder_apply b (CWithMaxBytes F)) = F.
Proof. intros b L F. repeat split. Qed.

(* what a chain of builder calls configures: the argument of the last call for the option, the default
   (limit: 0 = retrying disabled; size: 32 KiB for from_hosts, the client's size for from_client) if none *)
Definition configured_limit (calls : list cbuilder_call) (L : Z) : Prop :=
  (exists l1 l2, calls = l1 ++ CWithRetryLimit L :: l2 /\ Forall (fun c => sets_retry_limit c = None) l2)
  \/ (Forall (fun c => sets_retry_limit c = None) calls /\ L = DEFAULT_RETRY_MAX_BYTES_LIMIT).
Definition configured_size (src : list bytes + client) (calls : list cbuilder_call) (F : Z) : Prop :=
  (exists m1 m2, calls = m1 ++ CWithMaxBytes F :: m2 /\ Forall (fun c => sets_max_bytes c = None) m2)
  \/ (Forall (fun c => sets_max_bytes c = None) calls /\
      F = match src with inl _ => DEFAULT_FETCH_MAX_BYTES_PER_PARTITION
                       | inr c => fetch_max_bytes_per_partition (cfg c) end).

Lemma configured_limit_fold src calls L :
  configured_limit calls L -> cb_retry_limit (fold_left cbuilder_apply calls (cbuilder_new src)) = L.
Proof.
  destruct (C16_consumer_last_wins src) as (_ & _ & _ & _ & _ & [Hn Hs] & _).
  intros [[l1 [l2 [-> Hl2]]]|[Hall ->]].
  - apply (Hs l1 (CWithRetryLimit L) l2 L); [reflexivity|exact Hl2].
  - rewrite (Hn calls Hall). destruct src; reflexivity.
Qed.

Lemma configured_size_fold src calls F :
  configured_size src calls F -> cb_max_bytes (fold_left cbuilder_apply calls (cbuilder_new src)) = F.
Proof.
  destruct (C16_consumer_last_wins src) as (_ & _ & _ & _ & [Hn Hs] & _).
  intros [[m1 [m2 [-> Hm2]]]|[Hall ->]].
  - apply (Hs m1 (CWithMaxBytes F) m2 F); [reflexivity|exact Hm2].
  - rewrite (Hn calls Hall). destruct src; reflexivity.
Qed.

(* Builder::create: the consumer runs with the limit the application asked for - in whatever order the limit
   and the fetch size were given, and whatever fetch size the builder held when the limit was given -, starts
   with an empty retry queue, and every fetch state as well as the client (whose size is what a delivering
   partition is reset to) carry the configured fetch size *)
Theorem C17_create_limit_and_size : forall src calls s k s' L F,
  consumer_create src calls s = (Ok k, s') ->
  configured_limit calls L -> configured_size src calls F ->
  k_retry_limit k = L /\ k_retry k = [] /\
  Forall (fun e : tpkey * (Z * Z) => snd (snd e) = F) (k_fetch k) /\
  fetch_max_bytes_per_partition (cfg (k_client k)) = F.
Proof.
  intros src calls s k s' L F H HL HF.
  destruct (C16_consumer_create_uses _ _ _ _ _ H) as (_ & _ & Hl & _ & Hr & _).
  destruct (C16_consumer_create_max_bytes _ _ _ _ _ H) as [Hf Hc].
  rewrite (configured_limit_fold src calls L HL) in Hl.
  rewrite (configured_size_fold src calls F HF) in Hf, Hc. auto.
Qed.

(* non-vacuity, the very setting of seeded change C17-4: from_client with a client whose fetch size is 4096,
   limit 1000 given BEFORE fetch size 100 (and, for comparison, after it): the consumer is created over the
   scripted cluster of C07Extra (topic "t", partitions 0, 1, 2 starting at 0, 12, 7) with limit 1000 and
   size 100 either way *)
Definition callsB_limit_first : list cbuilder_call :=
  [CWithRetryLimit 1000; CWithTopic C07Extra.xt; CWithFallback FbEarliest; CWithMaxBytes 100].
Definition callsB_size_first : list cbuilder_call :=
  [CWithMaxBytes 100; CWithTopic C07Extra.xt; CWithFallback FbEarliest; CWithRetryLimit 1000].
Definition kB : consumer :=
  match fst (consumer_create (inr C07Extra.ex_client) callsB_limit_first C07Extra.ex_st3) with
  | Ok k => k
  | _ => k17 0 [] []
  end.

Example C17_create_limit_and_size_ex :
  fetch_max_bytes_per_partition (cfg C07Extra.ex_client) = 4096 /\
  configured_limit callsB_limit_first 1000 /\ configured_size (inr C07Extra.ex_client) callsB_limit_first 100 /\
  configured_limit callsB_size_first 1000 /\ configured_size (inr C07Extra.ex_client) callsB_size_first 100 /\
  (exists s', consumer_create (inr C07Extra.ex_client) callsB_limit_first C07Extra.ex_st3 = (Ok kB, s')) /\
  (exists k2 s', consumer_create (inr C07Extra.ex_client) callsB_size_first C07Extra.ex_st3 = (Ok k2, s') /\
                 k_retry_limit k2 = 1000 /\ k_fetch k2 = k_fetch kB) /\
  k_retry_limit kB = 1000 /\ k_retry kB = [] /\
  k_fetch kB = [((0, 0), (0, 100)); ((0, 1), (12, 100)); ((0, 2), (7, 100))] /\
  fetch_max_bytes_per_partition (cfg (k_client kB)) = 100.
Proof.
  split; [reflexivity|].
  split; [left; exists [], [CWithTopic C07Extra.xt; CWithFallback FbEarliest; CWithMaxBytes 100];
          split; [reflexivity|repeat constructor]|].
  split; [left; exists [CWithRetryLimit 1000; CWithTopic C07Extra.xt; CWithFallback FbEarliest], [];
          split; [reflexivity|constructor]|].
  split; [left; exists [CWithMaxBytes 100; CWithTopic C07Extra.xt; CWithFallback FbEarliest], [];
          split; [reflexivity|constructor]|].
  split; [left; exists [], [CWithTopic C07Extra.xt; CWithFallback FbEarliest; CWithRetryLimit 1000];
          split; [reflexivity|repeat constructor]|].
  split; [eexists; vm_compute; reflexivity|].
  split; [eexists; eexists; split; [vm_compute; reflexivity|]; vm_compute; split; reflexivity|].
  vm_compute. repeat split.
Qed.

(* no with_retry_max_bytes_limit call at all: limit 0, retrying disabled *)
Example C17_create_default_limit_ex :
  configured_limit [CWithTopic C07Extra.xt; CWithFallback FbEarliest; CWithMaxBytes 100] 0 /\
  exists k s', consumer_create (inr C07Extra.ex_client) [CWithTopic C07Extra.xt; CWithFallback FbEarliest; CWithMaxBytes 100]
                               C07Extra.ex_st3 = (Ok k, s') /\ k_retry_limit k = 0.
Proof.
  split; [right; split; [repeat constructor|reflexivity]|].
  eexists; eexists; split; [vm_compute; reflexivity|reflexivity].
Qed.

Lemma tk_get_in {V} key (v : V) m : tk_get key m = Some v -> exists k', In (k', v) m.
Proof.
  induction m as [|[k0 v0] m IH]; cbn [tk_get]; intros H; [discriminate|].
  destruct (tpkey_eqb k0 key).
  - inversion H; subst. exists k0. left. reflexivity.
  - destruct (IH H) as [k' Hk]. exists k'. right. exact Hk.
Qed.

(* ... and therefore: a consumer created with fetch size F and limit L > F - the two settings in any order -
   does re-fetch with the doubled size (and, with several partitions, queues the partition for a fetch on
   its own) when a partition comes back empty below its high-watermark in its very first poll *)
Theorem C17_created_consumer_doubles :
  forall src calls s k s0 L F dbg n resps ms k' rs ft p r hw off maxb,
  consumer_create src calls s = (Ok k, s0) ->
  configured_limit calls L -> configured_size src calls F -> 0 < F < L ->
  process_fetch_responses dbg k n resps = (Ok ms, k') ->
  NoDup (map entry_label (resp_entries resps)) ->
  In rs resps -> In ft (fr_topics rs) -> In p (ft_partitions ft) ->
  topic_ref (k_assign k) (ft_topic ft) = Some r ->
  fp_data p = inl (hw, []) -> tk_get (r, fp_partition p) (k_fetch k) = Some (off, maxb) -> off < hw ->
  maxb = F /\
  tk_get (r, fp_partition p) (k_fetch k') = Some (off, Z.min (Z.min (2 * F) i32_max) L) /\
  (ulen (k_fetch k) <> 1 -> In (r, fp_partition p) (k_retry k')).
Proof.
  intros src calls s k s0 L F dbg n resps ms k' rs ft p r hw off maxb Hc HL HF HFL H Hnd Hrs Hft Hp Hr Hd Hg Hhw.
  destruct (C17_create_limit_and_size _ _ _ _ _ _ _ Hc HL HF) as (Hl & _ & Hall & _).
  assert (Hm : maxb = F).
  { destruct (tk_get_in _ _ _ Hg) as [k0 Hin]. rewrite Forall_forall in Hall. exact (Hall _ Hin). }
  subst maxb. split; [reflexivity|].
  destruct (C17_poll_empty_partition _ _ _ _ _ _ _ _ _ _ _ _ _ H Hnd Hrs Hft Hp Hr Hd Hg Hhw) as (H1 & H2 & _); [lia|].
  rewrite Hl in H1. replace (F <? L) with true in H1 by lia. split; assumption.
Qed.

(* non-vacuity: the first poll of kB (created with the limit BEFORE the fetch size, see above): partition 0
   comes back empty although its high-watermark is 3; the next request for it carries 200 bytes and it is
   queued for a fetch on its own *)
Definition respB : list fetch_resp :=
  [ {| fr_corr := 1; fr_topics := [ {| ft_topic := C07Extra.xt; ft_partitions :=
        [ {| fp_partition := 0; fp_data := inl (3, []) |}; {| fp_partition := 1; fp_data := inl (12, []) |};
          {| fp_partition := 2; fp_data := inl (7, []) |} ] |} ] |} ].
Example C17_created_consumer_doubles_ex :
  0 < 100 < 1000 /\ NoDup (map entry_label (resp_entries respB)) /\
  topic_ref (k_assign kB) C07Extra.xt = Some 0 /\ tk_get (0, 0) (k_fetch kB) = Some (0, 100) /\
  exists ms k', process_fetch_responses true kB 3 respB = (Ok ms, k') /\
    k_fetch k' = [((0, 0), (0, 200)); ((0, 1), (12, 100)); ((0, 2), (7, 100))] /\ k_retry k' = [(0, 0)].
Proof.
  split; [lia|]. split; [vm_compute; repeat constructor; cbn [In]; intuition discriminate|].
  split; [reflexivity|]. split; [reflexivity|].
  eexists; eexists. vm_compute. repeat split.
Qed.

(* ================================================================================================== *)
(* (B) the doubling poll and the delivering poll, one answer with one partition                        *)
(* ================================================================================================== *)
(* the answer of one broker listing one partition of one topic *)
Definition answer1 (c : Z) (t : bytes) (p : fetch_part) : list fetch_resp :=
  [{| fr_corr := c; fr_topics := [{| ft_topic := t; ft_partitions := [p] |}] |}].
(* the request entry for a partition *)
Definition req1 (k : consumer) (r pid off maxb : Z) : fetch_partition :=
  {| fq_topic := topic_name k r; fq_partition := pid; fq_offset := off; fq_max_bytes := maxb |}.

(* empty below the high-watermark with room to grow: the poll is Ok (NOT MessageSizeTooLarge, whatever n),
   hands out the (empty) answer, keeps the offset, doubles the size up to the limit, and queues the partition
   unless the consumer has only this one *)
Theorem C17_alone_doubles : forall dbg k n c t r p hw off maxb,
  topic_ref (k_assign k) t = Some r -> fp_data p = inl (hw, []) ->
  tk_get (r, fp_partition p) (k_fetch k) = Some (off, maxb) -> off < hw -> 0 < maxb < k_retry_limit k ->
  process_fetch_responses dbg k n (answer1 c t p) =
    (Ok {| ms_responses := answer1 c t p; ms_empty := true |},
     consumer_with k
       (tk_set (r, fp_partition p) (off, Z.min (Z.min (2 * maxb) i32_max) (k_retry_limit k)) (k_fetch k))
       (if ulen (k_fetch k) =? 1 then k_retry k else k_retry k ++ [(r, fp_partition p)])
       (k_consumed k)).
Proof.
  intros dbg k n c t r p hw off maxb Hr Hd Hg Hhw Hm. unfold process_fetch_responses, answer1.
  unfold first_error. cbn [flat_map fr_topics ft_partitions app first_part_error]. rewrite Hd.
  cbv zeta. cbn [process_topics ft_topic ft_partitions]. rewrite Hr. cbn [process_parts].
  rewrite (C17_double _ _ _ _ _ _ _ _ hw off maxb Hd); [| exact Hg | exact Hhw | exact Hm ].
  cbn [ps_fetch ps_retry ps_empty]. reflexivity.
Qed.

(* the entry arrives: the poll is Ok, hands it out, the offset moves behind the last message and the size is
   the client's normal one again, whatever it had grown to; the queue is not touched *)
Theorem C17_alone_delivers : forall dbg k n c t r p hw msgs m off maxb,
  topic_ref (k_assign k) t = Some r -> fp_data p = inl (hw, msgs) ->
  tk_get (r, fp_partition p) (k_fetch k) = Some (off, maxb) ->
  last_msg msgs = Some m -> i64_min <= m_offset m < i64_max ->
  process_fetch_responses dbg k n (answer1 c t p) =
    (Ok {| ms_responses := answer1 c t p; ms_empty := false |},
     consumer_with k
       (tk_set (r, fp_partition p) (m_offset m + 1, fetch_max_bytes_per_partition (cfg (k_client k))) (k_fetch k))
       (k_retry k) (k_consumed k)).
Proof.
  intros dbg k n c t r p hw msgs m off maxb Hr Hd Hg Hl Hrange. unfold process_fetch_responses, answer1.
  unfold first_error. cbn [flat_map fr_topics ft_partitions app first_part_error]. rewrite Hd.
  cbv zeta. cbn [process_topics ft_topic ft_partitions]. rewrite Hr. cbn [process_parts].
  rewrite (process_partition_msgs _ _ _ _ _ _ _ _ hw msgs m (off, maxb) Hd); [| exact Hg | exact Hl | lia ].
  cbn [ps_fetch ps_retry ps_empty]. reflexivity.
Qed.

Example C17_alone_doubles_delivers_ex :
  let k1 := k17 100000 [((0, 0), (5, 32768)); ((0, 1), (10, 32768))] [(0, 1)] in
  let k2 := k17 100000 [((0, 0), (5, 65536)); ((0, 1), (10, 32768))] [(0, 1); (0, 0)] in
  let k3 := k17 100000 [((0, 0), (6, 32768)); ((0, 1), (10, 32768))] [(0, 1); (0, 0)] in
  topic_ref (k_assign k1) (tag "t") = Some 0 /\ tk_get (0, fp_partition p0_empty) (k_fetch k1) = Some (5, 32768) /\
  0 < 32768 < k_retry_limit k1 /\
  process_fetch_responses true k1 1 (answer1 1 (tag "t") p0_empty) =
    (Ok {| ms_responses := answer1 1 (tag "t") p0_empty; ms_empty := true |}, k2) /\
  last_msg [ex_msg 5] = Some (ex_msg 5) /\
  process_fetch_responses true k2 1 (answer1 1 (tag "t") p0_big) =
    (Ok {| ms_responses := answer1 1 (tag "t") p0_big; ms_empty := false |}, k3).
Proof. vm_compute. repeat split. Qed.

(* ---- the same through Consumer::poll ------------------------------------------------------------- *)
Lemma poll_answered k s s' n kf reqs resps :
  consumer_fetch k = (let+ r := mtry (fetch_messages reqs) in ret (n, r, kf)) ->
  fetch_messages reqs s = (Ok resps, s') ->
  consumer_poll k s =
    (Ok (process_fetch_responses (debug_build (env s')) (consumer_with_client kf (cl s')) n resps), s').
Proof.
  intros Hf Hm. unfold consumer_poll. rewrite Hf.
  unfold mbind, mtry, ret, get_client, get_env. cbv beta. rewrite Hm. reflexivity.
Qed.

Lemma fetch_messages_cfg reqs s r s' : fetch_messages reqs s = (r, s') -> cfg (cl s') = cfg (cl s).
Proof.
  intros H. destruct C16_client_wire as (_ & _ & _ & _ & _ & Hf & _).
  destruct (Hf reqs s r s' H) as (_ & _ & Hc). exact Hc.
Qed.

(* a single-partition consumer: the poll that comes back empty below the high-watermark with room to grow is
   Ok and the next request will carry the doubled size *)
Theorem C17_single_poll_doubles : forall k s s' r pid off maxb c t p hw,
  k_retry k = [] -> k_fetch k = [((r, pid), (off, maxb))] ->
  fetch_messages [req1 k r pid off maxb] s = (Ok (answer1 c t p), s') ->
  topic_ref (k_assign k) t = Some r -> fp_partition p = pid -> fp_data p = inl (hw, []) -> off < hw ->
  0 < maxb < k_retry_limit k ->
  consumer_poll k s =
    (Ok (Ok {| ms_responses := answer1 c t p; ms_empty := true |},
         consumer_with (consumer_with_client k (cl s'))
           [((r, pid), (off, Z.min (Z.min (2 * maxb) i32_max) (k_retry_limit k)))] [] (k_consumed k)), s').
Proof.
  intros k s s' r pid off maxb c t p hw Hr Hk Hf Ht Hp Hd Hhw Hm.
  assert (Hcf : consumer_fetch k = (let+ x := mtry (fetch_messages [req1 k r pid off maxb]) in ret (1, x, k))).
  { rewrite (C17_retry_none _ Hr), Hk. reflexivity. }
  rewrite (poll_answered _ _ _ _ _ _ _ Hcf Hf). subst pid.
  rewrite (C17_alone_doubles _ _ _ c t r p hw off maxb);
    cbn [consumer_with_client k_assign k_fetch k_retry_limit k_retry k_consumed]; try assumption.
  - rewrite Hk, Hr. cbn [tk_set]. rewrite tpkey_eqb_refl. reflexivity.
  - rewrite Hk. cbn [tk_get]. rewrite tpkey_eqb_refl. reflexivity.
Qed.

(* ... and the poll in which the entry arrives hands it out and goes back to the normal fetch size *)
Theorem C17_single_poll_delivers : forall k s s' r pid off maxb c t p hw msgs m,
  k_retry k = [] -> k_fetch k = [((r, pid), (off, maxb))] ->
  fetch_messages [req1 k r pid off maxb] s = (Ok (answer1 c t p), s') ->
  topic_ref (k_assign k) t = Some r -> fp_partition p = pid -> fp_data p = inl (hw, msgs) ->
  last_msg msgs = Some m -> i64_min <= m_offset m < i64_max ->
  consumer_poll k s =
    (Ok (Ok {| ms_responses := answer1 c t p; ms_empty := false |},
         consumer_with (consumer_with_client k (cl s'))
           [((r, pid), (m_offset m + 1, fetch_max_bytes_per_partition (cfg (cl s))))] [] (k_consumed k)), s').
Proof.
  intros k s s' r pid off maxb c t p hw msgs m Hr Hk Hf Ht Hp Hd Hl Hrange.
  assert (Hcf : consumer_fetch k = (let+ x := mtry (fetch_messages [req1 k r pid off maxb]) in ret (1, x, k))).
  { rewrite (C17_retry_none _ Hr), Hk. reflexivity. }
  rewrite (poll_answered _ _ _ _ _ _ _ Hcf Hf). subst pid.
  rewrite (C17_alone_delivers _ _ _ c t r p hw msgs m off maxb);
    cbn [consumer_with_client k_assign k_fetch k_retry_limit k_retry k_consumed k_client]; try assumption.
  - rewrite Hk, Hr, (fetch_messages_cfg _ _ _ _ Hf). cbn [tk_set]. rewrite tpkey_eqb_refl. reflexivity.
  - rewrite Hk. cbn [tk_get]. rewrite tpkey_eqb_refl. reflexivity.
Qed.

(* a multi-partition consumer, the partition at the head of the retry queue is fetched alone: still empty
   with room to grow - Ok, doubled, queued again BEHIND the others; the entry arrives - handed out, normal
   size, gone from the queue *)
Theorem C17_retry_poll_doubles : forall k s s' r pid rest off maxb c t p hw,
  k_retry k = (r, pid) :: rest -> tk_get (r, pid) (k_fetch k) = Some (off, maxb) ->
  fetch_messages [req1 k r pid off maxb] s = (Ok (answer1 c t p), s') ->
  topic_ref (k_assign k) t = Some r -> fp_partition p = pid -> fp_data p = inl (hw, []) -> off < hw ->
  0 < maxb < k_retry_limit k ->
  consumer_poll k s =
    (Ok (Ok {| ms_responses := answer1 c t p; ms_empty := true |},
         consumer_with (consumer_with_client k (cl s'))
           (tk_set (r, pid) (off, Z.min (Z.min (2 * maxb) i32_max) (k_retry_limit k)) (k_fetch k))
           (if ulen (k_fetch k) =? 1 then rest else rest ++ [(r, pid)]) (k_consumed k)), s').
Proof.
  intros k s s' r pid rest off maxb c t p hw Hr Hg Hf Ht Hp Hd Hhw Hm.
  pose proof (C17_retry_alone _ _ _ _ _ Hr Hg) as Hcf. cbn [fst snd] in Hcf.
  rewrite (poll_answered _ _ _ _ _ _ _ Hcf Hf). subst pid.
  rewrite (C17_alone_doubles _ _ _ c t r p hw off maxb);
    cbn [consumer_with_client consumer_with k_assign k_fetch k_retry_limit k_retry k_consumed]; try assumption.
  reflexivity.
Qed.

Theorem C17_retry_poll_delivers : forall k s s' r pid rest off maxb c t p hw msgs m,
  k_retry k = (r, pid) :: rest -> tk_get (r, pid) (k_fetch k) = Some (off, maxb) ->
  fetch_messages [req1 k r pid off maxb] s = (Ok (answer1 c t p), s') ->
  topic_ref (k_assign k) t = Some r -> fp_partition p = pid -> fp_data p = inl (hw, msgs) ->
  last_msg msgs = Some m -> i64_min <= m_offset m < i64_max ->
  consumer_poll k s =
    (Ok (Ok {| ms_responses := answer1 c t p; ms_empty := false |},
         consumer_with (consumer_with_client k (cl s'))
           (tk_set (r, pid) (m_offset m + 1, fetch_max_bytes_per_partition (cfg (cl s))) (k_fetch k))
           rest (k_consumed k)), s').
Proof.
  intros k s s' r pid rest off maxb c t p hw msgs m Hr Hg Hf Ht Hp Hd Hl Hrange.
  pose proof (C17_retry_alone _ _ _ _ _ Hr Hg) as Hcf. cbn [fst snd] in Hcf.
  rewrite (poll_answered _ _ _ _ _ _ _ Hcf Hf). subst pid.
  rewrite (C17_alone_delivers _ _ _ c t r p hw msgs m off maxb);
    cbn [consumer_with_client consumer_with k_assign k_fetch k_retry_limit k_retry k_consumed k_client]; try assumption.
  rewrite (fetch_messages_cfg _ _ _ _ Hf). reflexivity.
Qed.

(* ================================================================================================== *)
(* (C) a history of polls of a single-partition consumer, through Consumer::poll                       *)
(* ================================================================================================== *)
(* the broker's side of one poll of the single-partition consumer k: whatever offset and size k asks for, the
   script answers the request with the partition empty although its high-watermark is beyond the offset *)
Definition answered_empty (k : consumer) (s s' : st) (r pid : Z) : Prop :=
  forall off maxb, k_fetch k = [((r, pid), (off, maxb))] ->
  exists c t p hw,
    fetch_messages [req1 k r pid off maxb] s = (Ok (answer1 c t p), s') /\
    topic_ref (k_assign k) t = Some r /\ fp_partition p = pid /\ fp_data p = inl (hw, []) /\ off < hw.

(* successive calls of Consumer::poll, each answered like that; the results of the polls in order *)
Inductive single_empty_polls (r pid : Z) : list (res message_sets) -> consumer -> consumer -> Prop :=
| sep_nil k : single_empty_polls r pid [] k k
| sep_snoc results k k1 k2 s s' res :
    single_empty_polls r pid results k k1 ->
    answered_empty k1 s s' r pid ->
    consumer_poll k1 s = (Ok (res, k2), s') ->
    single_empty_polls r pid (results ++ [res]) k k2.

(* what poll number i (from 0) of such a history returns: an empty result while the size is below the limit,
   MessageSizeTooLarge once it is not *)
Definition empty_poll_result (f limit : Z) (i : nat) (res : res message_sets) : Prop :=
  if grow f limit (Z.of_nat i) <? limit
  then exists ms, res = Ok ms /\ ms_empty ms = true
  else res = Err (EKafka KC_MessageSizeTooLarge).

Lemma grow_pos f limit k : 0 < f -> 0 < limit -> 0 <= k -> 0 < grow f limit k.
Proof.
  intros Hf Hl Hk. unfold grow.
  assert (0 < f * 2 ^ k) by (apply Z.mul_pos_pos; [lia|apply Z.pow_pos_nonneg; lia]). lia.
Qed.

(* The history.  A single-partition consumer with fetch size f and retry limit L >= f polls j times and every
   time the partition comes back empty below its high-watermark.  Then, whatever else the script does:
   - it still is a single-partition consumer with an empty retry queue, at the same offset, and its next
     request carries grow f L j = min (f * 2^j) L bytes: doubled each time, never above the limit;
   - poll number i returned an empty result (no error) if grow f L i < L, and MessageSizeTooLarge otherwise:
     the error is reported exactly from the first poll on whose request already carried the limit. *)
Theorem C17_single_history : forall r pid results k k' off f,
  k_retry k = [] -> k_fetch k = [((r, pid), (off, f))] -> 0 < f <= k_retry_limit k -> k_retry_limit k <= i32_max ->
  single_empty_polls r pid results k k' ->
  k_fetch k' = [((r, pid), (off, grow f (k_retry_limit k) (Z.of_nat (length results))))] /\
  k_retry k' = [] /\ k_retry_limit k' = k_retry_limit k /\ k_assign k' = k_assign k /\
  k_consumed k' = k_consumed k /\
  forall i res, nth_error results i = Some res -> empty_poll_result f (k_retry_limit k) i res.
Proof.
  intros r pid results k k' off f Hr Hk Hf Hl Hsep.
  induction Hsep as [k|results k k1 k2 s s' res Hsep IH Hans Hpoll].
  - cbn [length Z.of_nat]. rewrite grow_0 by lia. repeat split; try assumption.
    intros i res Hn. destruct i; discriminate.
  - destruct (IH Hr Hk Hf Hl) as (Hk1 & Hr1 & Hl1 & Ha1 & Hc1 & Hres). clear IH.
    rewrite app_length. cbn [length].
    set (L := k_retry_limit k) in *. set (j := length results) in *.
    destruct (Hans _ _ Hk1) as (c & t & p & hw & Hfm & Ht & Hp & Hd & Hhw).
    replace (Z.of_nat (j + 1)) with (Z.of_nat j + 1) by lia.
    assert (Hnth : forall i res0, nth_error (results ++ [res]) i = Some res0 ->
                   (i < j)%nat /\ nth_error results i = Some res0 \/ i = j /\ res0 = res).
    { intros i res0 Hn. destruct (Nat.lt_ge_cases i j) as [Hlt|Hge].
      - left. split; [exact Hlt|]. rewrite nth_error_app1 in Hn by exact Hlt. exact Hn.
      - right. rewrite nth_error_app2 in Hn by exact Hge. fold j in Hn.
        destruct (i - j)%nat as [|d] eqn:Ed; cbn [nth_error] in Hn.
        + inversion Hn. split; [lia|reflexivity].
        + destruct d; discriminate. }
    destruct (Z.lt_ge_cases (grow f L (Z.of_nat j)) L) as [Hlt|Hge].
    + assert (Hpos : 0 < grow f L (Z.of_nat j)) by (apply grow_pos; lia).
      rewrite (C17_single_poll_doubles k1 s s' r pid off _ c t p hw Hr1 Hk1 Hfm Ht Hp Hd Hhw) in Hpoll
        by (rewrite Hl1; lia).
      injection Hpoll as Hres2 Hk2. subst res k2.
      cbn [consumer_with consumer_with_client k_fetch k_retry k_retry_limit k_assign k_consumed].
      change (match grow f L (Z.of_nat j) with 0 => 0 | Z.pos y' => Z.pos y'~0 | Z.neg z' => Z.neg z'~0 end)
        with (2 * grow f L (Z.of_nat j)).
      rewrite Hl1, grow_succ by lia. repeat split; try assumption.
      intros i res0 Hn. destruct (Hnth i res0 Hn) as [[_ Hi]|[Hi Hr0]]; [exact (Hres _ _ Hi)|].
      subst i res0. unfold empty_poll_result. replace (grow f L (Z.of_nat j) <? L) with true by lia.
      eexists. split; reflexivity.
    + destruct (grow_sat f L (Z.of_nat j)) as [Hs1 Hs2]; [lia|lia|exact Hge|].
      rewrite (C17_single_poll_too_large k1 s s' r pid off _ c t p hw Hr1 Hk1 Hfm Ht Hp Hd Hhw) in Hpoll
        by (rewrite Hl1; lia).
      injection Hpoll as Hres2 Hk2. subst res k2.
      cbn [consumer_with_client k_fetch k_retry k_retry_limit k_assign k_consumed].
      rewrite Hk1, Hs1, Hs2. repeat split; try assumption.
      intros i res0 Hn. destruct (Hnth i res0 Hn) as [[_ Hi]|[Hi Hr0]]; [exact (Hres _ _ Hi)|].
      subst i res0. unfold empty_poll_result. replace (grow f L (Z.of_nat j) <? L) with false by lia.
      reflexivity.
Qed.

(* four polls of a single-partition consumer over one scripted connection (fetch size 32768, limit 100000,
   the broker answers every request with an empty set and high-watermark 6):
   requests carry 32768, 65536, 100000, 100000 bytes; results: empty, empty, MessageSizeTooLarge, again *)
Definition khB (limit maxb : Z) : consumer :=
  {| k_client := ex_client2; k_group := tag "g"; k_fallback := FbEarliest; k_retry_limit := limit;
     k_assign := [(tag "t", [0; 1])]; k_fetch := [((0, 0), (5, maxb))]; k_retry := []; k_consumed := [] |}.
Definition talk17 : list ev_out := [OWrote 1000; OData (enc_i32 (ulen body17)); OData body17].
Definition stB (n : nat) : st := ex_st (OConn true :: concat (repeat talk17 n)).
Definition poll_stB (k : consumer) (s : st) : st := snd (consumer_poll k s).
Definition poll_kB (k : consumer) (s : st) : consumer :=
  match fst (consumer_poll k s) with Ok (_, k') => k' | _ => k end.
Definition poll_outcome (r : res message_sets) : option (bool + err) :=
  match r with Ok ms => Some (inl (ms_empty ms)) | Err e => Some (inr e) | Panic _ => None end.

Ltac ans17 :=
  let off := fresh "off" in let maxb := fresh "maxb" in let Hk := fresh "Hk" in
  intros off maxb Hk; vm_compute in Hk; inversion Hk; subst off maxb;
  exists 1, (tag "t"), p0_empty, 6; split; [vm_compute; reflexivity|repeat split].

Example C17_single_history_ex :
  let k0 := khB 100000 32768 in
  exists k4 results,
    single_empty_polls 0 0 results k0 k4 /\
    map poll_outcome results =
      [Some (inl true); Some (inl true); Some (inr (EKafka KC_MessageSizeTooLarge));
       Some (inr (EKafka KC_MessageSizeTooLarge))] /\
    k_fetch k4 = [((0, 0), (5, 100000))] /\
    grow 32768 100000 0 = 32768 /\ grow 32768 100000 1 = 65536 /\ grow 32768 100000 2 = 100000 /\
    grow 32768 100000 3 = 100000 /\ grow 32768 100000 4 = 100000.
Proof.
  cbv zeta.
  set (k0 := khB 100000 32768). set (s0 := stB 4).
  set (k1 := poll_kB k0 s0). set (s1 := poll_stB k0 s0).
  set (k2 := poll_kB k1 s1). set (s2 := poll_stB k1 s1).
  set (k3 := poll_kB k2 s2). set (s3 := poll_stB k2 s2).
  eexists; eexists. split.
  { eapply sep_snoc with (s := s3) (k1 := k3).
    1: { eapply sep_snoc with (s := s2) (k1 := k2).
         1: { eapply sep_snoc with (s := s1) (k1 := k1).
              1: { eapply sep_snoc with (s := s0) (k1 := k0).
                   1: apply sep_nil.
                   2: (vm_compute; reflexivity).
                   ans17. }
              2: (vm_compute; reflexivity).
              ans17. }
         2: (vm_compute; reflexivity).
         ans17. }
    2: (vm_compute; reflexivity).
    ans17. }
  vm_compute. repeat split.
Qed.

(* "... delivers the message within a logarithmic number of polls if it fits the limit": an entry of sz bytes,
   f <= sz <= L.  After Z.log2_up (sz / f) + 1 (or more) polls that came back empty the consumer asks for at
   least sz bytes (and at most L), still at the same offset *)
Theorem C17_single_history_reaches : forall r pid results k k' off f sz,
  k_retry k = [] -> k_fetch k = [((r, pid), (off, f))] ->
  0 < f <= sz -> sz <= k_retry_limit k -> k_retry_limit k <= i32_max ->
  single_empty_polls r pid results k k' ->
  Z.log2_up (sz / f) + 1 <= Z.of_nat (length results) ->
  exists maxb, k_fetch k' = [((r, pid), (off, maxb))] /\ sz <= maxb <= k_retry_limit k /\ k_retry k' = [].
Proof.
  intros r pid results k k' off f sz Hr Hk Hf Hsz Hl Hsep Hj.
  destruct (C17_single_history r pid results k k' off f Hr Hk ltac:(lia) Hl Hsep) as (Hk' & Hr' & _).
  eexists. split; [exact Hk'|]. split; [|exact Hr'].
  split; [apply (C17_fits f (k_retry_limit k) sz); assumption|unfold grow; lia].
Qed.

Lemma iterate_answer1 ms_e c t p hw m0 msgs :
  fp_data p = inl (hw, m0 :: msgs) ->
  iterate {| ms_responses := answer1 c t p; ms_empty := ms_e |} = [(t, fp_partition p, m0 :: msgs)].
Proof.
  intros Hd. unfold iterate, answer1. cbn [ms_responses flat_map fr_topics ft_partitions ft_topic app].
  rewrite Hd. reflexivity.
Qed.

(* ... and when the broker then answers with the entry (which it can: the request has room for it), that poll -
   poll number (length results) + 1 of the history - is Ok, hands the entry out, moves the offset behind it
   and the consumer is back to the normal fetch size of its client: the next request is an ordinary one *)
Theorem C17_single_history_delivered : forall r pid results k k' off f s s' c t p hw msgs m,
  k_retry k = [] -> k_fetch k = [((r, pid), (off, f))] -> 0 < f <= k_retry_limit k -> k_retry_limit k <= i32_max ->
  single_empty_polls r pid results k k' ->
  fetch_messages [req1 k' r pid off (grow f (k_retry_limit k) (Z.of_nat (length results)))] s
    = (Ok (answer1 c t p), s') ->
  topic_ref (k_assign k) t = Some r -> fp_partition p = pid -> fp_data p = inl (hw, msgs) ->
  last_msg msgs = Some m -> i64_min <= m_offset m < i64_max ->
  exists ms k'',
    consumer_poll k' s = (Ok (Ok ms, k''), s') /\
    iterate ms = [(t, pid, msgs)] /\ ms_empty ms = false /\
    k_fetch k'' = [((r, pid), (m_offset m + 1, fetch_max_bytes_per_partition (cfg (cl s))))] /\
    k_retry k'' = [] /\ k_retry_limit k'' = k_retry_limit k.
Proof.
  intros r pid results k k' off f s s' c t p hw msgs m Hr Hk Hf Hl Hsep Hfm Ht Hp Hd Hlast Hrange.
  destruct (C17_single_history r pid results k k' off f Hr Hk Hf Hl Hsep) as (Hk' & Hr' & Hl' & Ha' & _).
  rewrite <- Ha' in Ht.
  eexists; eexists. split; [apply (C17_single_poll_delivers k' s s' r pid off (grow f (k_retry_limit k) (Z.of_nat (length results)))
                              c t p hw msgs m); assumption|].
  cbn [consumer_with consumer_with_client k_fetch k_retry k_retry_limit ms_empty].
  split; [|auto].
  destruct msgs as [|m0 msgs]; [rewrite last_msg_nil in Hlast; discriminate|].
  rewrite (iterate_answer1 _ _ _ _ _ _ _ Hd), Hp. reflexivity.
Qed.

(* non-vacuity: the entry at offset 5 of t:0 needs between 32768 and 65536 bytes.  Poll 1 (32768) comes back
   empty with high-watermark 6; poll 2 asks for grow 32768 100000 1 = 65536 bytes and is answered with the
   entry (valid CRC) over the same connection: it is handed out and the size is 32768 again *)
Definition msg5B : bytes :=
  let covered := enc_i8 0 ++ enc_i8 0 ++ enc_i32 (-1) ++ enc_i32 1 ++ tag "v" in
  enc_i64 5 ++ enc_i32 (4 + ulen covered) ++ enc_i32 (crc32 covered) ++ covered.
Definition body17big : bytes :=
  enc_i32 2 ++ enc_i32 1 ++ enc_i16 1 ++ tag "t" ++ enc_i32 1 ++
  enc_i32 0 ++ enc_i16 0 ++ enc_i64 6 ++ enc_i32 (ulen msg5B) ++ msg5B.
Definition stB2 : st :=
  ex_st (OConn true :: talk17 ++ [OWrote 1000; OData (enc_i32 (ulen body17big)); OData body17big]).

Example C17_single_history_delivered_ex :
  let k0 := khB 100000 32768 in
  let s1 := poll_stB k0 stB2 in
  exists k1 r0,
    single_empty_polls 0 0 [r0] k0 k1 /\ poll_outcome r0 = Some (inl true) /\
    Z.log2_up (50000 / 32768) + 1 = 1 /\ grow 32768 100000 1 = 65536 /\
    exists s2 ms k2,
      fetch_messages [req1 k1 0 0 5 65536] s1 = (Ok (answer1 2 (tag "t") p0_big), s2) /\
      last_msg [ex_msg 5] = Some (ex_msg 5) /\
      consumer_poll k1 s1 = (Ok (Ok ms, k2), s2) /\
      iterate ms = [(tag "t", 0, [ex_msg 5])] /\
      k_fetch k2 = [((0, 0), (6, 32768))] /\ k_retry k2 = [] /\ script s2 = [].
Proof.
  cbv zeta. set (k0 := khB 100000 32768). set (s1 := poll_stB k0 stB2).
  exists (poll_kB k0 stB2). eexists. split.
  { eapply (sep_snoc 0 0 []) with (s := stB2) (k1 := k0).
    1: apply sep_nil.
    2: (vm_compute; reflexivity).
    ans17. }
  split; [reflexivity|]. split; [reflexivity|]. split; [reflexivity|].
  eexists; eexists; eexists. split; [vm_compute; reflexivity|]. split; [reflexivity|].
  split; [vm_compute; reflexivity|]. vm_compute. repeat split.
Qed.

Print Assumptions C17_builder_limit_as_given.
Print Assumptions C17_create_limit_and_size.
Print Assumptions C17_created_consumer_doubles.
Print Assumptions C17_alone_doubles.
Print Assumptions C17_alone_delivers.
Print Assumptions C17_single_poll_doubles.
Print Assumptions C17_single_poll_delivers.
Print Assumptions C17_retry_poll_doubles.
Print Assumptions C17_retry_poll_delivers.
Print Assumptions C17_single_history.
Print Assumptions C17_single_history_reaches.
Print Assumptions C17_single_history_delivered.
