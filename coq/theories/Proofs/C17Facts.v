(* C17: oversized messages are delivered by bounded retries or reported, never stall
   (src/consumer/mod.rs: process_fetch_responses, the "no data received" branch, and fetch_messages).

   PROVED HERE (all Qed, no axioms; see the Print Assumptions at the end):
   - C17_double (+ C17_double_small), C17_never_above_limit, C17_too_large, C17_requeue, C17_reset,
     C17_sequence, C17_fits / C17_sequence_limit (explicit number of doublings), C17_sequence_bound
     (MessageSizeTooLarge after at most Z.log2_up (limit / f) + 2 polls), C17_retry_alone, C17_retry_none
     (+ C17_fetch_all_sizes), C17_alone_too_large, C17_disabled (three parts), C17_retry_poll_too_large and
     C17_single_poll_too_large (the same at the level of Consumer::poll).
   CONTRADICTS THE INFORMAL PROPERTY (concrete witness):
   - C17_nonpositive_stalls: the hypothesis 0 < f of C17_sequence is necessary.  With a fetch size of 0 (or a
     negative one) and a positive retry limit, "doubling" never reaches the limit: every poll returns an empty
     result, MessageSizeTooLarge is never reported, and in a multi-partition consumer the partition is
     re-queued for a fetch on its own at every poll, so the other partitions are never fetched again. *)
From Coq Require Import ZifyBool.
From KV Require Import Base.Prelude Gen.Consts Model.Codecs Model.Requests Model.Responses
                       Model.ClientState Model.Net Model.Client Model.Consumer.
From KV Require Import Proofs.BytesFacts Proofs.C01Facts.

(* ---- one empty partition with data behind the fetch offset ------------------------------------------------ *)
Lemma sat_double maxb limit :
  0 < maxb ->
  (if limit <? Z.max i32_min (Z.min i32_max (maxb + maxb)) then limit
   else Z.max i32_min (Z.min i32_max (maxb + maxb))) = Z.min (Z.min (2 * maxb) i32_max) limit.
Proof.
  intros H. unfold i32_min, i32_max.
  destruct (limit <? Z.max (-2147483648) (Z.min 2147483647 (maxb + maxb))) eqn:E; lia.
Qed.

Theorem C17_double : forall dbg single n client_maxb limit r p s hw off maxb,
  fp_data p = inl (hw, []) -> tk_get (r, fp_partition p) (ps_fetch s) = Some (off, maxb) -> off < hw ->
  0 < maxb < limit ->
  process_partition dbg single n client_maxb limit r p s =
    POk {| ps_fetch := tk_set (r, fp_partition p) (off, Z.min (Z.min (2 * maxb) i32_max) limit) (ps_fetch s);
           ps_retry := if single then ps_retry s else ps_retry s ++ [(r, fp_partition p)];
           ps_empty := ps_empty s |}.
Proof.
  intros dbg single n cm limit r p s hw off maxb Hd Hg Hhw Hm.
  rewrite (process_partition_data _ _ _ _ _ _ _ _ _ _ _ _ Hd Hg), last_msg_nil.
  destruct (off <? hw) eqn:E1; [|lia]. destruct (maxb <? limit) eqn:E2; [|lia].
  rewrite sat_double by lia. reflexivity.
Qed.

Theorem C17_double_small : forall dbg single n client_maxb limit r p s hw off maxb,
  fp_data p = inl (hw, []) -> tk_get (r, fp_partition p) (ps_fetch s) = Some (off, maxb) -> off < hw ->
  0 < maxb < limit -> 2 * maxb <= i32_max ->
  process_partition dbg single n client_maxb limit r p s =
    POk {| ps_fetch := tk_set (r, fp_partition p) (off, Z.min (2 * maxb) limit) (ps_fetch s);
           ps_retry := if single then ps_retry s else ps_retry s ++ [(r, fp_partition p)];
           ps_empty := ps_empty s |}.
Proof.
  intros dbg single n cm limit r p s hw off maxb Hd Hg Hhw Hm Hs.
  rewrite (C17_double _ _ _ _ _ _ _ _ _ _ _ Hd Hg Hhw Hm). rewrite (Z.min_l (2 * maxb) i32_max) by exact Hs.
  reflexivity.
Qed.

(* whatever branch is taken for an empty partition: the offset stays, max_bytes stays within the limit and
   does not shrink *)
Theorem C17_never_above_limit : forall dbg single n client_maxb limit r p s s' hw off maxb,
  fp_data p = inl (hw, []) -> tk_get (r, fp_partition p) (ps_fetch s) = Some (off, maxb) ->
  maxb <= limit ->
  process_partition dbg single n client_maxb limit r p s = POk s' ->
  exists maxb', tk_get (r, fp_partition p) (ps_fetch s') = Some (off, maxb') /\
                maxb' <= limit /\ (0 < maxb <= i32_max -> maxb <= maxb').
Proof.
  intros dbg single n cm limit r p s s' hw off maxb Hd Hg Hle H.
  rewrite (process_partition_data _ _ _ _ _ _ _ _ _ _ _ _ Hd Hg), last_msg_nil in H.
  destruct (off <? hw) eqn:E1.
  - destruct (maxb <? limit) eqn:E2.
    + inversion H; subst s'. cbn [ps_fetch]. rewrite tk_get_set_same. eexists. split; [reflexivity|].
      unfold i32_min, i32_max.
      destruct (limit <? Z.max (-2147483648) (Z.min 2147483647 (maxb + maxb))) eqn:E3; lia.
    + destruct (n =? 1) eqn:E3; [discriminate|]. inversion H; subst s'. cbn [ps_fetch].
      exists maxb. split; [exact Hg|lia].
  - inversion H; subst s'. exists maxb. split; [exact Hg|lia].
Qed.

Theorem C17_too_large : forall dbg single n client_maxb limit r p s hw off maxb,
  fp_data p = inl (hw, []) -> tk_get (r, fp_partition p) (ps_fetch s) = Some (off, maxb) -> off < hw ->
  limit <= maxb -> n = 1 ->
  process_partition dbg single n client_maxb limit r p s = PErr (EKafka KC_MessageSizeTooLarge) s.
Proof.
  intros dbg single n cm limit r p s hw off maxb Hd Hg Hhw Hm Hn.
  rewrite (process_partition_data _ _ _ _ _ _ _ _ _ _ _ _ Hd Hg), last_msg_nil.
  destruct (off <? hw) eqn:E1; [|lia]. destruct (maxb <? limit) eqn:E2; [lia|].
  destruct (n =? 1) eqn:E3; [reflexivity|lia].
Qed.

Theorem C17_requeue : forall dbg single n client_maxb limit r p s hw off maxb,
  fp_data p = inl (hw, []) -> tk_get (r, fp_partition p) (ps_fetch s) = Some (off, maxb) -> off < hw ->
  limit <= maxb -> n <> 1 ->
  process_partition dbg single n client_maxb limit r p s =
    POk {| ps_fetch := ps_fetch s;
           ps_retry := if single then ps_retry s else ps_retry s ++ [(r, fp_partition p)];
           ps_empty := ps_empty s |}.
Proof.
  intros dbg single n cm limit r p s hw off maxb Hd Hg Hhw Hm Hn.
  rewrite (process_partition_data _ _ _ _ _ _ _ _ _ _ _ _ Hd Hg), last_msg_nil.
  destruct (off <? hw) eqn:E1; [|lia]. destruct (maxb <? limit) eqn:E2; [lia|].
  destruct (n =? 1) eqn:E3; [lia|reflexivity].
Qed.

(* a partition that delivers messages gets the normal size again, whatever it was *)
Theorem C17_reset : forall dbg single n client_maxb limit r p s hw msgs m off maxb,
  fp_data p = inl (hw, msgs) -> tk_get (r, fp_partition p) (ps_fetch s) = Some (off, maxb) ->
  last_msg msgs = Some m -> i64_min <= m_offset m < i64_max ->
  exists s', process_partition dbg single n client_maxb limit r p s = POk s' /\
             tk_get (r, fp_partition p) (ps_fetch s') = Some (m_offset m + 1, client_maxb) /\
             ps_retry s' = ps_retry s /\ ps_empty s' = false.
Proof.
  intros dbg single n cm limit r p s hw msgs m off maxb Hd Hg Hl Hr.
  rewrite (process_partition_msgs _ _ _ _ _ _ _ _ _ _ _ _ Hd Hg Hl) by lia.
  eexists. split; [reflexivity|]. cbn [ps_fetch ps_retry ps_empty]. rewrite tk_get_set_same. auto.
Qed.

(* the hypothesis 0 < maxb is needed: a non-positive size never grows, the poll never fails *)
Theorem C17_nonpositive_stalls : forall dbg single n client_maxb limit r p s hw off maxb,
  fp_data p = inl (hw, []) -> tk_get (r, fp_partition p) (ps_fetch s) = Some (off, maxb) -> off < hw ->
  maxb <= 0 -> 0 < limit ->
  exists maxb', maxb' <= 0 /\
    process_partition dbg single n client_maxb limit r p s =
      POk {| ps_fetch := tk_set (r, fp_partition p) (off, maxb') (ps_fetch s);
             ps_retry := if single then ps_retry s else ps_retry s ++ [(r, fp_partition p)];
             ps_empty := ps_empty s |}.
Proof.
  intros dbg single n cm limit r p s hw off maxb Hd Hg Hhw Hm Hl.
  rewrite (process_partition_data _ _ _ _ _ _ _ _ _ _ _ _ Hd Hg), last_msg_nil.
  destruct (off <? hw) eqn:E1; [|lia]. destruct (maxb <? limit) eqn:E2; [|lia].
  eexists. split; [|reflexivity]. unfold i32_min, i32_max.
  destruct (limit <? Z.max (-2147483648) (Z.min 2147483647 (maxb + maxb))) eqn:E3; lia.
Qed.

(* ---- the sequence of sizes --------------------------------------------------------------------------------- *)
Definition grow (f limit k : Z) : Z := Z.min (f * 2 ^ k) limit.

Lemma grow_succ f limit k :
  0 < f -> 0 <= k -> limit <= i32_max -> grow f limit k < limit ->
  Z.min (Z.min (2 * grow f limit k) i32_max) limit = grow f limit (k + 1).
Proof.
  intros Hf Hk Hl Hg. unfold grow in *. rewrite Z.pow_add_r by lia. change (2 ^ 1) with 2.
  replace (f * (2 ^ k * 2)) with (2 * (f * 2 ^ k)) by ring.
  assert (Hp : 0 < f * 2 ^ k) by (apply Z.mul_pos_pos; [exact Hf|apply Z.pow_pos_nonneg; lia]).
  lia.
Qed.

Lemma grow_sat f limit k :
  0 < f -> 0 <= k -> limit <= grow f limit k -> grow f limit k = limit /\ grow f limit (k + 1) = limit.
Proof.
  intros Hf Hk Hg. unfold grow in *. rewrite Z.pow_add_r by lia. change (2 ^ 1) with 2.
  replace (f * (2 ^ k * 2)) with (2 * (f * 2 ^ k)) by ring.
  assert (Hp : 0 < f * 2 ^ k) by (apply Z.mul_pos_pos; [exact Hf|apply Z.pow_pos_nonneg; lia]).
  lia.
Qed.

Lemma grow_0 f limit : f <= limit -> grow f limit 0 = f.
Proof. intros H. unfold grow. rewrite Z.pow_0_r, Z.mul_1_r. lia. Qed.

Lemma pow2_reaches f sz k :
  0 < f <= sz -> Z.log2_up (sz / f) + 1 <= k -> sz <= f * 2 ^ k.
Proof.
  intros Hf Hk.
  assert (Hq : 1 <= sz / f) by (apply Z.div_le_lower_bound; lia).
  pose proof (Z.log2_up_nonneg (sz / f)) as Hnn.
  assert (Hup : sz / f <= 2 ^ Z.log2_up (sz / f)) by (apply Z.log2_log2_up_spec; lia).
  assert (Hpow : 2 * 2 ^ Z.log2_up (sz / f) <= 2 ^ k).
  { rewrite <- Z.pow_succ_r by exact Hnn. apply Z.pow_le_mono_r; lia. }
  pose proof (Z.div_mod sz f ltac:(lia)) as Hdm.
  pose proof (Z.mod_pos_bound sz f ltac:(lia)) as Hmod.
  set (q := sz / f) in *. set (rm := sz mod f) in *. set (P := 2 ^ k) in *.
  set (Q := 2 ^ Z.log2_up q) in *.
  assert (H1 : f * (2 * q) <= f * P) by (apply Z.mul_le_mono_nonneg_l; lia).
  assert (H2 : f * 1 <= f * q) by (apply Z.mul_le_mono_nonneg_l; lia).
  lia.
Qed.

(* a message of sz bytes that fits the limit is within the fetch size after that many doublings *)
Theorem C17_fits : forall f limit sz k,
  0 < f <= sz -> sz <= limit -> Z.log2_up (sz / f) + 1 <= k -> sz <= grow f limit k.
Proof.
  intros f limit sz k Hf Hl Hk. unfold grow. pose proof (pow2_reaches f sz k Hf Hk). lia.
Qed.

Theorem C17_sequence_limit : forall f limit k,
  0 < f <= limit -> Z.log2_up (limit / f) + 1 <= k -> grow f limit k = limit.
Proof.
  intros f limit k Hf Hk. unfold grow. pose proof (pow2_reaches f limit k Hf Hk). lia.
Qed.

(* j successive polls in which partition (r, pid) came back empty although its high-watermark shows data and
   the poll went on (POk); between two of them anything may happen that leaves its fetch state alone (the
   other partitions of the same poll, polls in which it is not fetched or has no data pending) *)
Inductive empty_polls (limit r pid : Z) : nat -> pstate -> pstate -> Prop :=
| ep_refl s : empty_polls limit r pid O s s
| ep_frame j s s1 s2 :
    empty_polls limit r pid j s s1 ->
    tk_get (r, pid) (ps_fetch s2) = tk_get (r, pid) (ps_fetch s1) ->
    empty_polls limit r pid j s s2
| ep_step j s s1 s2 dbg single n client_maxb p hw off maxb :
    empty_polls limit r pid j s s1 ->
    fp_partition p = pid -> fp_data p = inl (hw, []) ->
    tk_get (r, pid) (ps_fetch s1) = Some (off, maxb) -> off < hw ->
    process_partition dbg single n client_maxb limit r p s1 = POk s2 ->
    empty_polls limit r pid (S j) s s2.

Theorem C17_sequence : forall limit r pid j s s' off f,
  0 < f <= limit -> limit <= i32_max ->
  tk_get (r, pid) (ps_fetch s) = Some (off, f) ->
  empty_polls limit r pid j s s' ->
  tk_get (r, pid) (ps_fetch s') = Some (off, grow f limit (Z.of_nat j)).
Proof.
  intros limit r pid j s s' off f Hf Hl Hg Hep.
  induction Hep as [s | j s s1 s2 Hep IH Hfr | j s s1 s2 dbg single n cm p hw off1 maxb Hep IH Hp Hd Hg1 Hhw Hpp].
  - rewrite Hg, grow_0 by lia. reflexivity.
  - rewrite Hfr. apply IH. exact Hg.
  - specialize (IH Hg). rewrite IH in Hg1. inversion Hg1; subst off1 maxb. subst pid.
    replace (Z.of_nat (S j)) with (Z.of_nat j + 1) by lia.
    destruct (Z.lt_ge_cases (grow f limit (Z.of_nat j)) limit) as [Hlt|Hge].
    + assert (Hpos : 0 < grow f limit (Z.of_nat j)).
      { unfold grow. assert (0 < f * 2 ^ Z.of_nat j) by (apply Z.mul_pos_pos; [lia|apply Z.pow_pos_nonneg; lia]).
        lia. }
      rewrite (C17_double _ _ _ _ _ _ _ _ _ _ _ Hd IH Hhw (conj Hpos Hlt)) in Hpp.
      apply (f_equal (fun x => match x with POk y => ps_fetch y | _ => [] end)) in Hpp.
      cbv beta iota in Hpp. cbn [ps_fetch] in Hpp. rewrite <- Hpp.
      rewrite tk_get_set_same, grow_succ by lia. reflexivity.
    + destruct (grow_sat f limit (Z.of_nat j)) as [Hs1 Hs2]; [lia|lia|exact Hge|].
      destruct (Z.eq_dec n 1) as [Hn|Hn].
      * rewrite (C17_too_large _ _ _ _ _ _ _ _ _ _ _ Hd IH Hhw Hge Hn) in Hpp. discriminate.
      * rewrite (C17_requeue _ _ _ _ _ _ _ _ _ _ _ Hd IH Hhw Hge Hn) in Hpp.
        inversion Hpp; subst s2. cbn [ps_fetch]. rewrite IH, Hs1, Hs2. reflexivity.
Qed.

(* explicit bound: after Z.log2_up (limit / f) + 1 (or more) such polls the size is the limit, and the next
   poll in which the partition is fetched alone reports MessageSizeTooLarge: at most
   Z.log2_up (limit / f) + 2 polls of the partition in all *)
Theorem C17_sequence_bound : forall limit r pid j s s' off f dbg single client_maxb p hw,
  0 < f <= limit -> limit <= i32_max ->
  tk_get (r, pid) (ps_fetch s) = Some (off, f) ->
  empty_polls limit r pid j s s' -> Z.log2_up (limit / f) + 1 <= Z.of_nat j ->
  fp_partition p = pid -> fp_data p = inl (hw, []) -> off < hw ->
  tk_get (r, pid) (ps_fetch s') = Some (off, limit) /\
  process_partition dbg single 1 client_maxb limit r p s' = PErr (EKafka KC_MessageSizeTooLarge) s'.
Proof.
  intros limit r pid j s s' off f dbg single cm p hw Hf Hl Hg Hep Hj Hp Hd Hhw.
  pose proof (C17_sequence _ _ _ _ _ _ _ _ Hf Hl Hg Hep) as Hs.
  rewrite (C17_sequence_limit _ _ _ Hf Hj) in Hs. split; [exact Hs|].
  subst pid. apply (C17_too_large _ _ _ _ _ _ _ _ hw off limit Hd Hs Hhw); [lia|reflexivity].
Qed.

(* ---- Consumer::fetch_messages: the retry partition alone, else everything ----------------------------------- *)
Theorem C17_retry_alone : forall k tp rest off maxb,
  k_retry k = tp :: rest -> tk_get tp (k_fetch k) = Some (off, maxb) ->
  consumer_fetch k =
    (let+ r := mtry (fetch_messages [{| fq_topic := topic_name k (fst tp); fq_partition := snd tp;
                                        fq_offset := off; fq_max_bytes := maxb |}]) in
     ret (1, r, consumer_with k (k_fetch k) rest (k_consumed k))).
Proof. intros k tp rest off maxb Hr Hg. unfold consumer_fetch. rewrite Hr, Hg. reflexivity. Qed.

Theorem C17_retry_none : forall k,
  k_retry k = [] ->
  consumer_fetch k =
    (let+ r := mtry (fetch_messages
                       (map (fun '((tr, p), (off, maxb)) =>
                               {| fq_topic := topic_name k tr; fq_partition := p; fq_offset := off;
                                  fq_max_bytes := maxb |}) (k_fetch k))) in
     ret (ulen (k_fetch k), r, k)).
Proof. intros k Hr. unfold consumer_fetch. rewrite Hr. reflexivity. Qed.

(* ... one request entry per fetch state, in order, each with its own partition, offset and max_bytes *)
Theorem C17_fetch_all_sizes : forall k,
  map (fun q => (fq_partition q, fq_offset q, fq_max_bytes q))
      (map (fun '((tr, p), (off, maxb)) =>
              {| fq_topic := topic_name k tr; fq_partition := p; fq_offset := off; fq_max_bytes := maxb |})
           (k_fetch k))
  = map (fun e : tpkey * (Z * Z) => (snd (fst e), fst (snd e), snd (snd e))) (k_fetch k).
Proof.
  intros k. rewrite map_map. apply map_ext. intros [[tr p] [off maxb]]. reflexivity.
Qed.

(* ---- a partition fetched alone that cannot grow: the poll reports it ---------------------------------------- *)
Lemma consumer_with_same k : consumer_with k (k_fetch k) (k_retry k) (k_consumed k) = k.
Proof. destruct k. reflexivity. Qed.

Theorem C17_alone_too_large : forall dbg k c t r p hw off maxb,
  topic_ref (k_assign k) t = Some r -> fp_data p = inl (hw, []) ->
  tk_get (r, fp_partition p) (k_fetch k) = Some (off, maxb) -> off < hw -> k_retry_limit k <= maxb ->
  process_fetch_responses dbg k 1 [{| fr_corr := c; fr_topics := [{| ft_topic := t; ft_partitions := [p] |}] |}]
  = (Err (EKafka KC_MessageSizeTooLarge), k).
Proof.
  intros dbg k c t r p hw off maxb Hr Hd Hg Hhw Hm. unfold process_fetch_responses.
  unfold first_error. cbn [flat_map fr_topics ft_partitions app first_part_error]. rewrite Hd.
  cbv zeta. cbn [process_topics ft_topic ft_partitions]. rewrite Hr. cbn [process_parts].
  rewrite (C17_too_large _ _ _ _ _ _ _ _ hw off maxb Hd); [| exact Hg | exact Hhw | exact Hm | reflexivity].
  cbn [ps_fetch ps_retry]. rewrite consumer_with_same. reflexivity.
Qed.

(* retrying disabled (limit <= current size; the default limit is 0) *)
Theorem C17_disabled :
  (* (1) single-partition consumer: every fetch is a one-partition fetch (n = 1), reported at once *)
  (forall k, k_retry k = [] -> ulen (k_fetch k) = 1 ->
     consumer_fetch k =
       (let+ r := mtry (fetch_messages
                          (map (fun '((tr, p), (off, maxb)) =>
                                  {| fq_topic := topic_name k tr; fq_partition := p; fq_offset := off;
                                     fq_max_bytes := maxb |}) (k_fetch k))) in
        ret (1, r, k)))
  /\ (forall dbg k c t r p hw off maxb,
        topic_ref (k_assign k) t = Some r -> fp_data p = inl (hw, []) ->
        tk_get (r, fp_partition p) (k_fetch k) = Some (off, maxb) -> off < hw -> k_retry_limit k <= maxb ->
        process_fetch_responses dbg k 1
          [{| fr_corr := c; fr_topics := [{| ft_topic := t; ft_partitions := [p] |}] |}]
        = (Err (EKafka KC_MessageSizeTooLarge), k))
  (* (2) multi-partition consumer, the poll that fetched everything (n <> 1): the size stays and the
         partition is queued for a fetch on its own ... *)
  /\ (forall dbg n client_maxb limit r p s hw off maxb,
        fp_data p = inl (hw, []) -> tk_get (r, fp_partition p) (ps_fetch s) = Some (off, maxb) -> off < hw ->
        limit <= maxb -> n <> 1 ->
        process_partition dbg false n client_maxb limit r p s =
          POk {| ps_fetch := ps_fetch s; ps_retry := ps_retry s ++ [(r, fp_partition p)];
                 ps_empty := ps_empty s |})
  (* (3) ... and when it is at the head of the queue the next poll fetches it alone with n = 1, which is
         case (1): MessageSizeTooLarge *)
  /\ (forall k tp rest off maxb,
        k_retry k = tp :: rest -> tk_get tp (k_fetch k) = Some (off, maxb) ->
        consumer_fetch k =
          (let+ r := mtry (fetch_messages [{| fq_topic := topic_name k (fst tp); fq_partition := snd tp;
                                              fq_offset := off; fq_max_bytes := maxb |}]) in
           ret (1, r, consumer_with k (k_fetch k) rest (k_consumed k)))).
Proof.
  split; [|split; [|split]].
  - intros k Hr H1. rewrite (C17_retry_none _ Hr), H1. reflexivity.
  - exact C17_alone_too_large.
  - intros dbg n cm limit r p s hw off maxb Hd Hg Hhw Hm Hn.
    apply (C17_requeue _ false _ _ _ _ _ _ _ _ _ Hd Hg Hhw Hm Hn).
  - exact C17_retry_alone.
Qed.

(* the same at the level of Consumer::poll: the queued partition is fetched alone, comes back empty again and
   cannot grow: the poll is Err MessageSizeTooLarge, the partition has left the queue, no offset moved *)
Theorem C17_retry_poll_too_large : forall k s s' r pid rest off maxb c t p hw,
  k_retry k = (r, pid) :: rest -> tk_get (r, pid) (k_fetch k) = Some (off, maxb) ->
  fetch_messages [{| fq_topic := topic_name k r; fq_partition := pid; fq_offset := off; fq_max_bytes := maxb |}] s
    = (Ok [{| fr_corr := c; fr_topics := [{| ft_topic := t; ft_partitions := [p] |}] |}], s') ->
  topic_ref (k_assign k) t = Some r -> fp_partition p = pid -> fp_data p = inl (hw, []) -> off < hw ->
  k_retry_limit k <= maxb ->
  consumer_poll k s =
    (Ok (Err (EKafka KC_MessageSizeTooLarge),
         consumer_with_client (consumer_with k (k_fetch k) rest (k_consumed k)) (cl s')), s').
Proof.
  intros k s s' r pid rest off maxb c t p hw Hr Hg Hf Ht Hp Hd Hhw Hm.
  unfold consumer_poll. rewrite (C17_retry_alone _ _ _ _ _ Hr Hg). cbn [fst snd].
  unfold mbind, mtry, ret, get_client, get_env. cbv beta. rewrite Hf. cbv beta iota.
  subst pid. rewrite (C17_alone_too_large _ _ c t r p hw off maxb); [reflexivity| | | | |];
    cbn [consumer_with_client consumer_with k_assign k_fetch k_retry_limit]; assumption.
Qed.

Theorem C17_single_poll_too_large : forall k s s' r pid off maxb c t p hw,
  k_retry k = [] -> k_fetch k = [((r, pid), (off, maxb))] ->
  fetch_messages [{| fq_topic := topic_name k r; fq_partition := pid; fq_offset := off; fq_max_bytes := maxb |}] s
    = (Ok [{| fr_corr := c; fr_topics := [{| ft_topic := t; ft_partitions := [p] |}] |}], s') ->
  topic_ref (k_assign k) t = Some r -> fp_partition p = pid -> fp_data p = inl (hw, []) -> off < hw ->
  k_retry_limit k <= maxb ->
  consumer_poll k s = (Ok (Err (EKafka KC_MessageSizeTooLarge), consumer_with_client k (cl s')), s').
Proof.
  intros k s s' r pid off maxb c t p hw Hr Hk Hf Ht Hp Hd Hhw Hm.
  unfold consumer_poll. rewrite (C17_retry_none _ Hr), Hk. cbn [map].
  unfold mbind, mtry, ret, get_client, get_env. cbv beta. rewrite Hf. cbv beta iota.
  change (ulen [(r, pid, (off, maxb))]) with 1.
  subst pid. rewrite (C17_alone_too_large _ _ c t r p hw off maxb); [reflexivity| | | | |];
    cbn [consumer_with_client k_assign k_fetch k_retry_limit]; try assumption.
  rewrite Hk. cbn [tk_get]. rewrite tpkey_eqb_refl. reflexivity.
Qed.

(* ======================================================================================================= *)
(* Examples.  One topic "t" with partitions 0 and 1, normal fetch size 32768, retry limit 100000.  The next
   message of t:0 (offset 5) is too big for the fetch size: t:0 comes back empty with high-watermark 6, and
   it is listed BEFORE the non-empty t:1 of the same topic. *)
Definition k17 (limit : Z) (fetch : list (tpkey * (Z * Z))) (retry : list tpkey) : consumer :=
  {| k_client := ex_client; k_group := tag "g"; k_fallback := FbEarliest; k_retry_limit := limit;
     k_assign := [(tag "t", [0; 1])]; k_fetch := fetch; k_retry := retry; k_consumed := [] |}.
Definition p0_empty : fetch_part := {| fp_partition := 0; fp_data := inl (6, []) |}.
Definition p0_big : fetch_part := {| fp_partition := 0; fp_data := inl (6, [ex_msg 5]) |}.
Definition p1_msgs : fetch_part := {| fp_partition := 1; fp_data := inl (10, [ex_msg 7; ex_msg 8; ex_msg 9]) |}.
Definition resp17 (ps : list fetch_part) : list fetch_resp :=
  [ {| fr_corr := 1; fr_topics := [ {| ft_topic := tag "t"; ft_partitions := ps |} ] |} ].
Definition s17 (maxb : Z) : pstate :=
  {| ps_fetch := [((0, 0), (5, maxb)); ((0, 1), (7, 32768))]; ps_retry := []; ps_empty := true |}.

Example C17_double_ex :
  fp_data p0_empty = inl (6, []) /\ tk_get (0, fp_partition p0_empty) (ps_fetch (s17 32768)) = Some (5, 32768) /\
  5 < 6 /\ 0 < 32768 < 100000 /\
  process_partition true false 2 32768 100000 0 p0_empty (s17 32768) =
    POk {| ps_fetch := [((0, 0), (5, 65536)); ((0, 1), (7, 32768))]; ps_retry := [(0, 0)]; ps_empty := true |} /\
  (* capped at the limit *)
  process_partition true false 1 32768 100000 0 p0_empty (s17 65536) =
    POk {| ps_fetch := [((0, 0), (5, 100000)); ((0, 1), (7, 32768))]; ps_retry := [(0, 0)]; ps_empty := true |} /\
  (* saturating_add: 2 * 1500000000 does not wrap *)
  process_partition true true 1 32768 i32_max 0 p0_empty (s17 1500000000) =
    POk {| ps_fetch := [((0, 0), (5, 2147483647)); ((0, 1), (7, 32768))]; ps_retry := []; ps_empty := true |}.
Proof. vm_compute. repeat split. Qed.

Example C17_never_above_limit_ex :
  exists s', process_partition true false 1 32768 100000 0 p0_empty (s17 65536) = POk s' /\
             65536 <= 100000 /\ tk_get (0, 0) (ps_fetch s') = Some (5, 100000).
Proof. eexists. vm_compute. repeat split; discriminate. Qed.

Example C17_too_large_ex :
  100000 <= 100000 /\
  process_partition true false 1 32768 100000 0 p0_empty (s17 100000) =
    PErr (EKafka KC_MessageSizeTooLarge) (s17 100000).
Proof. vm_compute. split; [discriminate|reflexivity]. Qed.

Example C17_requeue_ex :
  process_partition true false 2 32768 100000 0 p0_empty (s17 100000) =
    POk {| ps_fetch := ps_fetch (s17 100000); ps_retry := [(0, 0)]; ps_empty := true |}.
Proof. vm_compute. reflexivity. Qed.

Example C17_reset_ex :
  last_msg [ex_msg 5] = Some (ex_msg 5) /\
  process_partition true false 1 32768 100000 0 p0_big (s17 100000) =
    POk {| ps_fetch := [((0, 0), (6, 32768)); ((0, 1), (7, 32768))]; ps_retry := []; ps_empty := false |}.
Proof. vm_compute. split; reflexivity. Qed.

(* fetch size 0, limit 100000: the size stays 0 and the partition is queued again, for ever *)
Example C17_nonpositive_stalls_ex :
  process_partition true false 1 0 100000 0 p0_empty (s17 0) =
    POk {| ps_fetch := ps_fetch (s17 0); ps_retry := [(0, 0)]; ps_empty := true |}.
Proof. vm_compute. reflexivity. Qed.

(* 32768 -> 65536 -> 100000 (capped) -> stays; Z.log2_up (100000 / 32768) + 1 = 3 polls are enough *)
Example C17_sequence_ex :
  exists s3, empty_polls 100000 0 0 3 (s17 32768) s3 /\
    tk_get (0, 0) (ps_fetch s3) = Some (5, 100000) /\
    grow 32768 100000 0 = 32768 /\ grow 32768 100000 1 = 65536 /\ grow 32768 100000 2 = 100000 /\
    grow 32768 100000 3 = 100000 /\ Z.log2_up (100000 / 32768) + 1 = 3 /\
    process_partition true false 1 32768 100000 0 p0_empty s3 = PErr (EKafka KC_MessageSizeTooLarge) s3.
Proof.
  exists {| ps_fetch := [((0, 0), (5, 100000)); ((0, 1), (7, 32768))]; ps_retry := [(0, 0); (0, 0); (0, 0)];
            ps_empty := true |}.
  split; [|vm_compute; repeat split].
  apply (ep_step _ _ _ 2 _ {| ps_fetch := [((0, 0), (5, 100000)); ((0, 1), (7, 32768))];
                              ps_retry := [(0, 0); (0, 0)]; ps_empty := true |} _
                 true false 2 32768 p0_empty 6 5 100000); try reflexivity.
  apply (ep_step _ _ _ 1 _ {| ps_fetch := [((0, 0), (5, 65536)); ((0, 1), (7, 32768))];
                              ps_retry := [(0, 0)]; ps_empty := true |} _
                 true false 1 32768 p0_empty 6 5 65536); try reflexivity.
  apply (ep_step _ _ _ 0 _ (s17 32768) _ true false 2 32768 p0_empty 6 5 32768); try reflexivity.
  apply ep_refl.
Qed.

Example C17_fits_ex : 0 < 32768 <= 70000 /\ 70000 <= grow 32768 100000 (Z.log2_up (70000 / 32768) + 1).
Proof. vm_compute. repeat split; discriminate. Qed.

Example C17_retry_alone_ex :
  consumer_fetch (k17 100000 [((0, 0), (5, 65536)); ((0, 1), (10, 32768))] [(0, 0)]) =
    (let+ r := mtry (fetch_messages [{| fq_topic := tag "t"; fq_partition := 0; fq_offset := 5;
                                        fq_max_bytes := 65536 |}]) in
     ret (1, r, k17 100000 [((0, 0), (5, 65536)); ((0, 1), (10, 32768))] []))
  /\ consumer_fetch (k17 100000 [((0, 0), (5, 65536)); ((0, 1), (10, 32768))] []) =
    (let+ r := mtry (fetch_messages [{| fq_topic := tag "t"; fq_partition := 0; fq_offset := 5; fq_max_bytes := 65536 |};
                                     {| fq_topic := tag "t"; fq_partition := 1; fq_offset := 10; fq_max_bytes := 32768 |}]) in
     ret (2, r, k17 100000 [((0, 0), (5, 65536)); ((0, 1), (10, 32768))] [])).
Proof. split; reflexivity. Qed.

(* the whole story on process_fetch_responses, the empty partition listed before the non-empty one:
   poll 1 (both partitions, n = 2) hands out t:1's messages, doubles t:0 and queues it;
   poll 2 (t:0 alone) caps at the limit and queues it again;
   poll 3 (t:0 alone) either delivers the big message and resets the size, or reports MessageSizeTooLarge *)
Example C17_story :
  let k0 := k17 100000 [((0, 0), (5, 32768)); ((0, 1), (7, 32768))] [] in
  let k1 := k17 100000 [((0, 0), (5, 65536)); ((0, 1), (10, 32768))] [(0, 0)] in
  let k1' := k17 100000 [((0, 0), (5, 65536)); ((0, 1), (10, 32768))] [] in   (* after consumer_fetch popped t:0 *)
  let k2 := k17 100000 [((0, 0), (5, 100000)); ((0, 1), (10, 32768))] [(0, 0)] in
  let k2' := k17 100000 [((0, 0), (5, 100000)); ((0, 1), (10, 32768))] [] in
  let k3 := k17 100000 [((0, 0), (6, 32768)); ((0, 1), (10, 32768))] [] in
  (exists ms, process_fetch_responses true k0 2 (resp17 [p0_empty; p1_msgs]) = (Ok ms, k1) /\
              iterate ms = [(tag "t", 1, [ex_msg 7; ex_msg 8; ex_msg 9])] /\ ms_empty ms = false) /\
  (exists ms, process_fetch_responses true k1' 1 (resp17 [p0_empty]) = (Ok ms, k2) /\
              iterate ms = [] /\ ms_empty ms = true) /\
  process_fetch_responses true k2' 1 (resp17 [p0_empty]) = (Err (EKafka KC_MessageSizeTooLarge), k2') /\
  (exists ms, process_fetch_responses true k2' 1 (resp17 [p0_big]) = (Ok ms, k3) /\
              iterate ms = [(tag "t", 0, [ex_msg 5])]).
Proof. cbv zeta. repeat split; try (eexists; vm_compute; repeat split); vm_compute; reflexivity. Qed.

(* retrying disabled (default limit 0), two partitions: poll 1 queues t:0 without touching its size, poll 2
   fetches it alone and reports MessageSizeTooLarge; a single-partition consumer reports it at once *)
Example C17_disabled_ex :
  let k0 := k17 0 [((0, 0), (5, 32768)); ((0, 1), (7, 32768))] [] in
  let k1 := k17 0 [((0, 0), (5, 32768)); ((0, 1), (10, 32768))] [(0, 0)] in
  let k1' := k17 0 [((0, 0), (5, 32768)); ((0, 1), (10, 32768))] [] in
  let ks := k17 0 [((0, 0), (5, 32768))] [] in
  DEFAULT_RETRY_MAX_BYTES_LIMIT = 0 /\
  (exists ms, process_fetch_responses true k0 2 (resp17 [p0_empty; p1_msgs]) = (Ok ms, k1) /\
              iterate ms = [(tag "t", 1, [ex_msg 7; ex_msg 8; ex_msg 9])]) /\
  process_fetch_responses true k1' 1 (resp17 [p0_empty]) = (Err (EKafka KC_MessageSizeTooLarge), k1') /\
  ulen (k_fetch ks) = 1 /\
  process_fetch_responses true ks 1 (resp17 [p0_empty]) = (Err (EKafka KC_MessageSizeTooLarge), ks).
Proof. cbv zeta. repeat split; try (eexists; vm_compute; repeat split); vm_compute; reflexivity. Qed.

(* the same through Consumer::poll and the client, over a scripted connection: the broker answers the
   one-partition fetch of t:0 with an empty message set and high-watermark 6 *)
Definition body17 : bytes :=
  enc_i32 1 ++ enc_i32 1 ++ enc_i16 1 ++ tag "t" ++ enc_i32 1 ++
  enc_i32 0 ++ enc_i16 0 ++ enc_i64 6 ++ enc_i32 0.
Definition script17 : list ev_out := [OConn true; OWrote 1000; OData (enc_i32 (ulen body17)); OData body17].
Definition kp17 (fetch : list (tpkey * (Z * Z))) (retry : list tpkey) : consumer :=
  {| k_client := ex_client2; k_group := tag "g"; k_fallback := FbEarliest; k_retry_limit := 0;
     k_assign := [(tag "t", [0; 1])]; k_fetch := fetch; k_retry := retry; k_consumed := [] |}.

Example C17_retry_poll_too_large_ex :
  let k := kp17 [((0, 0), (5, 32768)); ((0, 1), (10, 32768))] [(0, 0)] in
  exists s',
    fetch_messages [{| fq_topic := topic_name k 0; fq_partition := 0; fq_offset := 5; fq_max_bytes := 32768 |}]
                   (ex_st script17)
      = (Ok [{| fr_corr := 1; fr_topics := [{| ft_topic := tag "t"; ft_partitions := [p0_empty] |}] |}], s') /\
    exists k1, consumer_poll k (ex_st script17) = (Ok (Err (EKafka KC_MessageSizeTooLarge), k1), s') /\
               k_fetch k1 = k_fetch k /\ k_retry k1 = [] /\ script s' = [].
Proof. cbv zeta. eexists. split; [vm_compute; reflexivity|]. eexists. vm_compute. repeat split. Qed.

Example C17_single_poll_too_large_ex :
  let k := kp17 [((0, 0), (5, 32768))] [] in
  exists s',
    fetch_messages [{| fq_topic := topic_name k 0; fq_partition := 0; fq_offset := 5; fq_max_bytes := 32768 |}]
                   (ex_st script17)
      = (Ok [{| fr_corr := 1; fr_topics := [{| ft_topic := tag "t"; ft_partitions := [p0_empty] |}] |}], s') /\
    exists k1, consumer_poll k (ex_st script17) = (Ok (Err (EKafka KC_MessageSizeTooLarge), k1), s') /\
               k_fetch k1 = k_fetch k /\ k_retry k1 = [].
Proof. cbv zeta. eexists. split; [vm_compute; reflexivity|]. eexists. vm_compute. repeat split. Qed.

Print Assumptions C17_double.
Print Assumptions C17_double_small.
Print Assumptions C17_never_above_limit.
Print Assumptions C17_too_large.
Print Assumptions C17_requeue.
Print Assumptions C17_reset.
Print Assumptions C17_nonpositive_stalls.
Print Assumptions C17_sequence.
Print Assumptions C17_fits.
Print Assumptions C17_sequence_limit.
Print Assumptions C17_sequence_bound.
Print Assumptions C17_retry_alone.
Print Assumptions C17_retry_none.
Print Assumptions C17_fetch_all_sizes.
Print Assumptions C17_alone_too_large.
Print Assumptions C17_disabled.
Print Assumptions C17_retry_poll_too_large.
Print Assumptions C17_single_poll_too_large.
Print Assumptions C17_story.
